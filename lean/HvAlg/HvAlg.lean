import HvAlg.Model.Algebra
import HvAlg.Model.Semiring
import HvAlg.Gen.Composites
