import HvSink.Model.Chan
import HvSink.Model.Merge
import HvSink.Model.Sink
