import HvSink.Model.Chan
import HvSink.Model.Merge
