/-
Model of `dfir_rs/src/util/unsync/mpsc.rs` (C16).

Layer 1 (`Chan`): the `Rc<RefCell<Shared<T>>>` the receiver owns, transcribed operation by
operation.  A `Waker` is a natural number (the id of the counting waker the harness passes);
every operation returns the list of wakers it fired, in firing order.  `Rc`/`Weak` counts are
integers: `weak` is `Rc::weak_count` of the receiver's current `Rc`; a `Sender` handle is the
Boolean "my `Weak` points at the `Rc` the channel was created with" (`false` after
`close_this_sender`).  `Receiver::close` replaces the `Rc`, so afterwards every old `Weak`
dangles (`closed = true`, `weak = 0` for the fresh `Rc`).

Layer 2 (`Sys`): sender / receiver *tasks* (small async programs) over one channel, a wake
set, and `poll` = one poll of one task.  A schedule is a `List Nat` of task ids
(0 = receiver, i+1 = sender i); spurious polls (polling a task nobody woke) are allowed.

`Cfg` selects the code that is modelled: `Cfg.current` is the code in /repo now; the two
flags switch individual repairs off, giving the code before the corresponding `fix:` commit
(used only by the `*_refuted_before_fix` theorems and by corpus replays of the old witness).
-/
namespace HvSink.Chan

structure Cfg where
  /-- `poll_recv` calls `wake_all_senders` (now) instead of `wake_sender` (pop one, before F6 fix) -/
  recvWakesAll : Bool
  /-- `close_this_sender` wakes the receiver (now) or not (before the F6b fix) -/
  closeWakes : Bool
  deriving Repr, DecidableEq

def Cfg.current : Cfg := ⟨true, true⟩
def Cfg.preFix : Cfg := ⟨false, false⟩

structure Chan where
  buffer : List Nat
  /-- `Option<NonZeroUsize>` -/
  capacity : Option Nat
  /-- `SmallVec<[Waker;1]>`; head = most recently pushed (so `pop()` takes the head) -/
  sendWakers : List Nat
  recvWaker : Option Nat
  /-- `Receiver::close` has run: all sender `Weak`s dangle -/
  closed : Bool
  /-- `Rc::weak_count(&receiver.strong)` -/
  weak : Nat
  deriving Repr, DecidableEq

def Chan.new (cap : Option Nat) : Chan :=
  { buffer := [], capacity := cap, sendWakers := [], recvWaker := none, closed := false, weak := 1 }

/-- `capacity.is_some_and(|cap| cap.get() <= buffer.len())` -/
def Chan.isFull (c : Chan) : Bool :=
  match c.capacity with
  | some cap => decide (cap ≤ c.buffer.length)
  | none => false

/-- `Weak::upgrade(&sender.weak).is_some()` for a handle whose liveness flag is `live` -/
def Chan.upgrade (c : Chan) (live : Bool) : Bool := live && !c.closed

/-- `Shared::wake_receiver` -/
def Chan.wakeReceiver (c : Chan) : Chan × List Nat :=
  match c.recvWaker with
  | some w => ({ c with recvWaker := none }, [w])
  | none => (c, [])

/-- `Shared::wake_sender` (pop the most recent waker) — the code before the F6 fix -/
def Chan.wakeSender (c : Chan) : Chan × List Nat :=
  match c.sendWakers with
  | w :: rest => ({ c with sendWakers := rest }, [w])
  | [] => (c, [])

/-- `Shared::wake_all_senders` (`drain(..)` fires oldest first) -/
def Chan.wakeAllSenders (c : Chan) : Chan × List Nat :=
  ({ c with sendWakers := [] }, c.sendWakers.reverse)

inductive SendRes | pending | ok | err
  deriving Repr, DecidableEq

/-- one poll of the future returned by `Sender::send(item)` with waker `w` -/
def Chan.pollSend (c : Chan) (live : Bool) (x w : Nat) : Chan × SendRes × List Nat :=
  if c.upgrade live then
    if c.isFull then
      ({ c with sendWakers := w :: c.sendWakers }, .pending, [])
    else
      let r := ({ c with buffer := c.buffer ++ [x] } : Chan).wakeReceiver
      (r.1, .ok, r.2)
  else (c, .err, [])

inductive TryRes | ok | full | closed
  deriving Repr, DecidableEq

/-- `Sender::try_send` (= `Sink::start_send`) -/
def Chan.trySend (c : Chan) (live : Bool) (x : Nat) : Chan × TryRes × List Nat :=
  if c.upgrade live then
    if c.isFull then (c, .full, [])
    else
      let r := ({ c with buffer := c.buffer ++ [x] } : Chan).wakeReceiver
      (r.1, .ok, r.2)
  else (c, .closed, [])

inductive ReadyRes | ready | pending | closed
  deriving Repr, DecidableEq

/-- `<Sender as Sink>::poll_ready` -/
def Chan.pollReady (c : Chan) (live : Bool) (w : Nat) : Chan × ReadyRes :=
  if c.upgrade live then
    if c.isFull then ({ c with sendWakers := w :: c.sendWakers }, .pending)
    else (c, .ready)
  else (c, .closed)

/-- `Sender::close_this_sender` (also the effect of `Sink::poll_close`); returns the new liveness flag -/
def Chan.closeThisSender (cfg : Cfg) (c : Chan) (live : Bool) : Chan × Bool × List Nat :=
  let r := if cfg.closeWakes && c.upgrade live then c.wakeReceiver else (c, [])
  let c1 := r.1
  (if c1.upgrade live then { c1 with weak := c1.weak - 1 } else c1, false, r.2)

/-- `Sender::is_closed` -/
def Chan.isClosed (c : Chan) (live : Bool) : Bool := !c.upgrade live

/-- `Sender::clone` -/
def Chan.cloneSender (c : Chan) (live : Bool) : Chan :=
  if c.upgrade live then { c with weak := c.weak + 1 } else c

/-- `Drop for Sender` followed by the drop of its `Weak` field -/
def Chan.dropSender (c : Chan) (live : Bool) : Chan × List Nat :=
  if c.upgrade live then
    let r := c.wakeReceiver
    ({ r.1 with weak := r.1.weak - 1 }, r.2)
  else (c, [])

inductive RecvRes | item (x : Nat) | none | pending
  deriving Repr, DecidableEq

/-- `Receiver::poll_recv` with waker `w` -/
def Chan.pollRecv (cfg : Cfg) (c : Chan) (w : Nat) : Chan × RecvRes × List Nat :=
  match c.buffer with
  | x :: rest =>
    let c1 := { c with buffer := rest }
    let r := if cfg.recvWakesAll then c1.wakeAllSenders else c1.wakeSender
    (r.1, .item x, r.2)
  | [] =>
    if c.weak == 0 then (c, .none, [])
    else ({ c with recvWaker := some w }, .pending, [])

/-- `Receiver::close`: wake all senders, move the buffer into a fresh `Shared::default()` -/
def Chan.closeRecv (c : Chan) : Chan × List Nat :=
  let r := c.wakeAllSenders
  ({ buffer := c.buffer, capacity := none, sendWakers := [], recvWaker := none, closed := true, weak := 0 }, r.2)

/-- `Drop for Receiver` (= `close`) and then the drop of the fresh `Rc` with the buffer -/
def Chan.dropRecv (c : Chan) : Chan × List Nat :=
  let r := c.closeRecv
  ({ r.1 with buffer := [] }, r.2)

/-! ## Layer 2: tasks -/

inductive SStatus | running | doneOk | doneErr
  deriving Repr, DecidableEq

/-- `async move { for x in items { s.send(x).await? } [s.close_this_sender();] Ok(()) }` (then `s` drops) -/
structure STask where
  todo : List Nat
  closeFirst : Bool
  st : SStatus
  deriving Repr, DecidableEq

inductive RStatus | running | doneNone | doneLimit
  deriving Repr, DecidableEq

/-- `async move { while n != limit { match recv.recv().await { Some(x) => got.push(x), None => break } } }` (then `recv` drops) -/
structure RTask where
  limit : Option Nat
  got : List Nat
  st : RStatus
  deriving Repr, DecidableEq

/-- end of a sender task: optional `close_this_sender`, then the handle is dropped -/
def finishSender (cfg : Cfg) (c : Chan) (closeFirst : Bool) : Chan × List Nat :=
  if closeFirst then
    let r := c.closeThisSender cfg true
    let d := r.1.dropSender r.2.1
    (d.1, r.2.2 ++ d.2)
  else c.dropSender true

structure SRun where
  chan : Chan
  todo : List Nat
  st : SStatus
  wakes : List Nat
  /-- ghost: the items pushed into the buffer by this poll, in order -/
  pushed : List Nat
  deriving Repr, DecidableEq

/-- one poll of a sender task whose handle is live, with waker `w` -/
def senderRun (cfg : Cfg) (closeFirst : Bool) (w : Nat) : Chan → List Nat → SRun
  | c, [] =>
    let f := finishSender cfg c closeFirst
    ⟨f.1, [], .doneOk, f.2, []⟩
  | c, x :: rest =>
    match c.pollSend true x w with
    | (c1, .pending, wk) => ⟨c1, x :: rest, .running, wk, []⟩
    | (c1, .err, wk) =>
      -- early return; the handle drops (its `Weak` dangles: nothing happens)
      let d := c1.dropSender true
      ⟨d.1, x :: rest, .doneErr, wk ++ d.2, []⟩
    | (c1, .ok, wk) =>
      let r := senderRun cfg closeFirst w c1 rest
      { r with wakes := wk ++ r.wakes, pushed := x :: r.pushed }

structure RRun where
  chan : Chan
  limit : Option Nat
  got : List Nat
  st : RStatus
  wakes : List Nat
  deriving Repr, DecidableEq

/-- one poll of the receiver task with waker `w`; `fuel` bounds the loop (buffer length + 1 suffices) -/
def recvRun (cfg : Cfg) (w : Nat) : Nat → Chan → Option Nat → List Nat → RRun
  | 0, c, limit, got => ⟨c, limit, got, .running, []⟩
  | fuel + 1, c, limit, got =>
    if limit == some 0 then
      let d := c.dropRecv
      ⟨d.1, limit, got, .doneLimit, d.2⟩
    else
      match c.pollRecv cfg w with
      | (c1, .pending, wk) => ⟨c1, limit, got, .running, wk⟩
      | (c1, .none, wk) =>
        let d := c1.dropRecv
        ⟨d.1, limit, got, .doneNone, wk ++ d.2⟩
      | (c1, .item x, wk) =>
        let r := recvRun cfg w fuel c1 (limit.map (· - 1)) (got ++ [x])
        { r with wakes := wk ++ r.wakes }

structure Sys where
  cfg : Cfg
  chan : Chan
  snd : List STask
  rcv : RTask
  /-- wakers fired since the owning task was last polled (task id = waker id) -/
  woken : List Nat
  /-- ghost: (sender index, item) of every successful push, in push order -/
  pushed : List (Nat × Nat)
  deriving Repr, DecidableEq

/-- a fresh system: one handle per sender task (`weak` = number of tasks), every task scheduled once -/
def Sys.init (cfg : Cfg) (cap : Option Nat) (progs : List (List Nat × Bool)) (limit : Option Nat) : Sys :=
  { cfg := cfg
    chan := { Chan.new cap with weak := progs.length }
    snd := progs.map fun p => ⟨p.1, p.2, .running⟩
    rcv := ⟨limit, [], .running⟩
    woken := List.range (progs.length + 1)
    pushed := [] }

def Sys.pollRecvTask (s : Sys) : Sys :=
  match s.rcv.st with
  | .running =>
    let r := recvRun s.cfg 0 (s.chan.buffer.length + 1) s.chan s.rcv.limit s.rcv.got
    { s with chan := r.chan, rcv := ⟨r.limit, r.got, r.st⟩,
             woken := s.woken.filter (· != 0) ++ r.wakes }
  | _ => s

def Sys.pollSendTask (s : Sys) (i : Nat) : Sys :=
  match s.snd[i]? with
  | some t =>
    match t.st with
    | .running =>
      let r := senderRun s.cfg t.closeFirst (i + 1) s.chan t.todo
      { s with chan := r.chan, snd := s.snd.set i ⟨r.todo, t.closeFirst, r.st⟩,
               woken := s.woken.filter (· != i + 1) ++ r.wakes,
               pushed := s.pushed ++ r.pushed.map (fun x => (i, x)) }
    | _ => s
  | none => s

/-- one poll of task `t` (0 = receiver, i+1 = sender i); polling a finished or unknown task is a no-op -/
def Sys.poll (s : Sys) : Nat → Sys
  | 0 => s.pollRecvTask
  | i + 1 => s.pollSendTask i

def Sys.run (s : Sys) (sched : List Nat) : Sys := sched.foldl Sys.poll s

/-- is task `t` finished? -/
def Sys.done (s : Sys) : Nat → Bool
  | 0 => s.rcv.st != .running
  | i + 1 => match s.snd[i]? with
    | some t => t.st != .running
    | none => true

/-- the executor's run queue: tasks that were woken and are not finished -/
def Sys.runnable (s : Sys) : List Nat :=
  (List.range (s.snd.length + 1)).filter fun t => s.woken.contains t && !s.done t

end HvSink.Chan
