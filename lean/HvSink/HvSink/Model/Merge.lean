/-
Model of `MergeSource::poll_next` and `TaggedSource::poll_next`
(`hydro_deploy/hydro_deploy_integration/src/lib.rs`) for C15.

A source is a script `List (Option α)`: `some x` = `Poll::Ready(Some(x))`, `none` = `Poll::Pending`,
end of the list = `Poll::Ready(None)`.  Every source carries a ghost `id` (its sender); with
`TaggedSource` underneath, the ghost id is the tag that is attached to each item.

`MS.pollNext` is transcribed line by line: the round-robin loop over `sources[poll_cursor]`
with `poll_cursor = (poll_cursor + 1) % len`, deferred removal (`*source = None`), the
`retain` pass that decrements the cursor once per removed entry in front of it, and the
wrap-around to 0.  `panicked` records an index out of bounds / `unwrap` on a removed slot.
-/
namespace HvSink.Merge

inductive Step (α : Type) | item (x : α) | pending | ended
  deriving Repr, DecidableEq

structure Src (α : Type) where
  id : Nat
  script : List (Option α)
  deriving Repr, DecidableEq

/-- one `poll_next` of a scripted source -/
def Src.poll {α : Type} (s : Src α) : Src α × Step α :=
  match s.script with
  | [] => (s, .ended)
  | some x :: r => ({ s with script := r }, .item x)
  | none :: r => ({ s with script := r }, .pending)

/-- `TaggedSource`: every ready item `v` becomes `v.map(|d| (id, d))`; here items are
`Except Nat β` (`Err(code)` / `Ok(payload)`) and the source id is the tag -/
def tagScript {β : Type} (id : Nat) (script : List (Option (Except Nat β))) :
    List (Option (Except Nat (Nat × β))) :=
  script.map (Option.map fun v => v.map fun d => (id, d))

structure MS (α : Type) where
  sources : List (Src α)
  cursor : Nat
  deriving Repr, DecidableEq

inductive Out (α : Type) | item (id : Nat) (x : α) | pending | ended
  deriving Repr, DecidableEq

structure LoopSt (α : Type) where
  slots : List (Option (Src α))
  cursor : Nat
  out : Option (Nat × α)
  anyRemoved : Bool
  /-- ghost: ids of the sources polled so far in this call, in order -/
  polled : List Nat
  panicked : Bool
  deriving Repr, DecidableEq

/-- the `loop { … }` of `poll_next`; `fuel` ≥ number of slots suffices -/
def loop {α : Type} (start : Nat) : Nat → LoopSt α → LoopSt α
  | 0, st => st
  | fuel + 1, st =>
    let len := st.slots.length
    match st.slots[st.cursor]? with
    | some (some src) =>
      let cur' := (st.cursor + 1) % len
      match src.poll with
      | (src', .item x) =>
        { st with slots := st.slots.set st.cursor (some src'), cursor := cur',
                  out := some (src.id, x), polled := st.polled ++ [src.id] }
      | (_, .ended) =>
        let st' := { st with slots := st.slots.set st.cursor none, cursor := cur',
                             anyRemoved := true, polled := st.polled ++ [src.id] }
        if cur' == start then st' else loop start fuel st'
      | (src', .pending) =>
        let st' := { st with slots := st.slots.set st.cursor (some src'), cursor := cur',
                             polled := st.polled ++ [src.id] }
        if cur' == start then st' else loop start fuel st'
    | _ => { st with panicked := true }

structure PollRes (α : Type) where
  ms : MS α
  out : Out α
  polled : List Nat
  panicked : Bool
  deriving Repr, DecidableEq

/-- `if me.sources.is_empty() { Ready(None) } else { out }` -/
def outOf {α : Type} (q' : List (Src α)) (o : Option (Nat × α)) : Out α :=
  if q'.isEmpty then .ended else match o with
    | some (i, x) => .item i x
    | none => .pending

/-- the part of `poll_next` after the loop: `retain` + cursor fix-up + result -/
def cleanup {α : Type} (st : LoopSt α) : PollRes α :=
  -- clean up `None` entries and adjust the cursor
  let originalCursor := st.cursor
  let removedBefore := ((st.slots.take originalCursor).filter Option.isNone).length
  let cursor1 := if st.anyRemoved then originalCursor - removedBefore else originalCursor
  let sources' := st.slots.filterMap id
  let cursor2 := if cursor1 == sources'.length then 0 else cursor1
  ⟨⟨sources', cursor2⟩, outOf sources' st.out, st.polled, st.panicked⟩

/-- `MergeSource::poll_next` -/
def MS.pollNext {α : Type} (m : MS α) : PollRes α :=
  let st0 : LoopSt α := ⟨m.sources.map some, m.cursor, none, false, [], false⟩
  cleanup (if m.sources.isEmpty then st0 else loop m.cursor m.sources.length st0)

def MS.new {α : Type} (scripts : List (Nat × List (Option α))) : MS α :=
  ⟨scripts.map fun p => ⟨p.1, p.2⟩, 0⟩

/-- outputs of `n` consecutive `poll_next` calls -/
def MS.run {α : Type} (m : MS α) : Nat → List (Out α)
  | 0 => []
  | n + 1 => let r := m.pollNext; r.out :: r.ms.run n

/-- the merge state after `n` calls -/
def MS.after {α : Type} (m : MS α) : Nat → MS α
  | 0 => m
  | n + 1 => m.pollNext.ms.after n

end HvSink.Merge
