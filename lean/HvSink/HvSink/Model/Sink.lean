/-
Model of the `sinktools` adaptors (C14).

A sink is a record of the four `Sink` methods over an explicit state; `Poll::Ready(Ok(()))` is
`true`, `Poll::Pending` is `false`; `start_send` returns an `ok` flag (`false` = the call
panicked).  Errors are not modelled (the scripted downstream sinks never fail).
Downstream sinks are scripted (`D`): readiness / flush / close answers come from `List Bool`
scripts (exhausted = `true`) and every call is recorded in a trace.  Each adaptor is transcribed
from its `impl Sink` in `sinktools/src/*.rs`.
-/
namespace HvSink.Sink

inductive Ev (α : Type) | ready (b : Bool) | send (x : α) | flush (b : Bool) | close (b : Bool)
  deriving Repr, DecidableEq

structure Snk (σ α : Type) where
  pollReady : σ → σ × Bool
  startSend : σ → α → σ × Bool
  pollFlush : σ → σ × Bool
  pollClose : σ → σ × Bool

/-- the `Sink` contract seen at one interface: a `send` needs the most recent `poll_ready` to have
returned `Ready`, with no `send` since -/
def protoOkAux {α : Type} : Bool → List (Ev α) → Bool
  | _, [] => true
  | _, .ready b :: t => protoOkAux b t
  | armed, .send _ :: t => armed && protoOkAux false t
  | armed, .flush _ :: t => protoOkAux armed t
  | armed, .close _ :: t => protoOkAux armed t

def protoOk {α : Type} (t : List (Ev α)) : Bool := protoOkAux false t

def sends {α : Type} : List (Ev α) → List α
  | [] => []
  | .send x :: t => x :: sends t
  | _ :: t => sends t

/-- wrap a sink so that it records the calls made on it (with their answers) -/
def Snk.recd {σ α : Type} (k : Snk σ α) : Snk (σ × List (Ev α)) α where
  pollReady := fun (s, t) => let r := k.pollReady s; ((r.1, t ++ [.ready r.2]), r.2)
  startSend := fun (s, t) x => let r := k.startSend s x; ((r.1, t ++ [.send x]), r.2)
  pollFlush := fun (s, t) => let r := k.pollFlush s; ((r.1, t ++ [.flush r.2]), r.2)
  pollClose := fun (s, t) => let r := k.pollClose s; ((r.1, t ++ [.close r.2]), r.2)

/-! ### scripted downstream -/

structure D where
  readyS : List Bool
  flushS : List Bool
  closeS : List Bool
  deriving Repr, DecidableEq

def pop : List Bool → List Bool × Bool
  | [] => ([], true)
  | b :: r => (r, b)

def D.snk : Snk D Nat where
  pollReady := fun d => let r := pop d.readyS; ({ d with readyS := r.1 }, r.2)
  startSend := fun d _ => (d, true)
  pollFlush := fun d => let r := pop d.flushS; ({ d with flushS := r.1 }, r.2)
  pollClose := fun d => let r := pop d.closeS; ({ d with closeS := r.1 }, r.2)

/-- a recording scripted downstream: state `D × trace` -/
abbrev DR := D × List (Ev Nat)
def dsnk : Snk DR Nat := D.snk.recd

/-! ### stateless adaptors: `map.rs`, `filter.rs`, `filter_map.rs`, `inspect.rs` -/

def map {σ α β : Type} (f : α → β) (k : Snk σ β) : Snk σ α where
  pollReady := k.pollReady
  startSend := fun s x => k.startSend s (f x)
  pollFlush := k.pollFlush
  pollClose := k.pollClose

def filter {σ α : Type} (p : α → Bool) (k : Snk σ α) : Snk σ α where
  pollReady := k.pollReady
  startSend := fun s x => if p x then k.startSend s x else (s, true)
  pollFlush := k.pollFlush
  pollClose := k.pollClose

def filterMap {σ α β : Type} (g : α → Option β) (k : Snk σ β) : Snk σ α where
  pollReady := k.pollReady
  startSend := fun s x => match g x with
    | some y => k.startSend s y
    | none => (s, true)
  pollFlush := k.pollFlush
  pollClose := k.pollClose

/-- `Inspect`: the closure's observations are kept as a log next to the inner state -/
def inspect {σ α : Type} (k : Snk σ α) : Snk (σ × List α) α where
  pollReady := fun (s, l) => let r := k.pollReady s; ((r.1, l), r.2)
  startSend := fun (s, l) x => let r := k.startSend s x; ((r.1, l ++ [x]), r.2)
  pollFlush := fun (s, l) => let r := k.pollFlush s; ((r.1, l), r.2)
  pollClose := fun (s, l) => let r := k.pollClose s; ((r.1, l), r.2)

/-- `ForEach` / `TryForEach` (with an infallible closure): always ready, the closure's calls are the log -/
def forEach {α : Type} : Snk (List α) α where
  pollReady := fun l => (l, true)
  startSend := fun l x => (l ++ [x], true)
  pollFlush := fun l => (l, true)
  pollClose := fun l => (l, true)

/-! ### `flat_map.rs` / `flatten.rs`: one buffered iterator -/

/-- `poll_ready_impl`: push the buffered items while the inner sink is ready.
`buf` = the items still held in `iter_next` (`None` = empty list) -/
def drain {σ β : Type} (k : Snk σ β) : σ → List β → (σ × List β) × Bool
  | s, [] => ((s, []), true)
  | s, x :: r =>
    let a := k.pollReady s
    if a.2 then drain k (k.startSend a.1 x).1 r else ((a.1, x :: r), false)

def flatMap {σ α β : Type} (g : α → List β) (k : Snk σ β) : Snk (σ × List β) α where
  pollReady := fun (s, buf) => drain k s buf
  startSend := fun (s, buf) x =>
    -- assert!(this.iter_next.is_none(), "Sink not ready: …")
    if buf.isEmpty then ((s, g x), true) else ((s, buf), false)
  pollFlush := fun (s, buf) =>
    let d := drain k s buf
    if d.2 then let r := k.pollFlush d.1.1; ((r.1, d.1.2), r.2) else d
  pollClose := fun (s, buf) =>
    let d := drain k s buf
    if d.2 then let r := k.pollClose d.1.1; ((r.1, d.1.2), r.2) else d

def flatten {σ β : Type} (k : Snk σ β) : Snk (σ × List β) (List β) := flatMap id k

/-! ### `unzip.rs`, `demux_var.rs`, `demux_map.rs`, `demux_map_lazy.rs` -/

/-- `ready_both!(a.poll(cx)?, b.poll(cx)?)`: both are polled, `Ready` iff both are -/
def unzip {σ₀ σ₁ α β : Type} (k₀ : Snk σ₀ α) (k₁ : Snk σ₁ β) : Snk (σ₀ × σ₁) (α × β) where
  pollReady := fun (a, b) => let r₀ := k₀.pollReady a; let r₁ := k₁.pollReady b; ((r₀.1, r₁.1), r₀.2 && r₁.2)
  startSend := fun (a, b) x => let r₀ := k₀.startSend a x.1; let r₁ := k₁.startSend b x.2; ((r₀.1, r₁.1), r₀.2 && r₁.2)
  pollFlush := fun (a, b) => let r₀ := k₀.pollFlush a; let r₁ := k₁.pollFlush b; ((r₀.1, r₁.1), r₀.2 && r₁.2)
  pollClose := fun (a, b) => let r₀ := k₀.pollClose a; let r₁ := k₁.pollClose b; ((r₀.1, r₁.1), r₀.2 && r₁.2)

/-- poll every sink of a list, `Ready` iff all are (`SinkVariadic` recursion / `try_fold` with `ready_both!`) -/
def pollAll {σ : Type} (op : σ → σ × Bool) : List σ → List σ × Bool
  | [] => ([], true)
  | s :: rest => let r := op s; let rr := pollAll op rest; (r.1 :: rr.1, r.2 && rr.2)

/-- `DemuxVar` over a variadic of sinks of one type: `start_send` walks to index `idx`
(out of range = `panic!("index out of bounds")`) -/
def demuxVar {σ α : Type} (k : Snk σ α) : Snk (List σ) (Nat × α) where
  pollReady := pollAll k.pollReady
  startSend := fun ss x => match ss[x.1]? with
    | some s => let r := k.startSend s x.2; (ss.set x.1 r.1, r.2)
    | none => (ss, false)
  pollFlush := pollAll k.pollFlush
  pollClose := pollAll k.pollClose

def pollAllKeyed {σ : Type} (op : σ → σ × Bool) : List (Nat × σ) → List (Nat × σ) × Bool
  | [] => ([], true)
  | (key, s) :: rest => let r := op s; let rr := pollAllKeyed op rest; ((key, r.1) :: rr.1, r.2 && rr.2)

def sendKeyed {σ α : Type} (k : Snk σ α) : List (Nat × σ) → Nat → α → Option (List (Nat × σ) × Bool)
  | [], _, _ => none
  | (key', s) :: rest, key, x =>
    if key' = key then let r := k.startSend s x; some ((key', r.1) :: rest, r.2)
    else (sendKeyed k rest key x).map fun r => ((key', s) :: r.1, r.2)

/-- `DemuxMap` (the `HashMap` as an association list; hash iteration order is not observable
through the per-sink traces) — a missing key panics -/
def demuxMap {σ α : Type} (k : Snk σ α) : Snk (List (Nat × σ)) (Nat × α) where
  pollReady := pollAllKeyed k.pollReady
  startSend := fun ss x => match sendKeyed k ss x.1 x.2 with
    | some r => r
    | none => (ss, false)
  pollFlush := pollAllKeyed k.pollFlush
  pollClose := pollAllKeyed k.pollClose

/-- `LazyDemuxSink`: `entry(key).or_insert_with_key(func)` then `start_send` on it — for a new key
the fresh sink gets `start_send` without any `poll_ready` (finding F5, modelled as the code is) -/
def lazyDemux {σ α : Type} (mk : Nat → σ) (k : Snk σ α) : Snk (List (Nat × σ)) (Nat × α) where
  pollReady := pollAllKeyed k.pollReady
  startSend := fun ss x => match sendKeyed k ss x.1 x.2 with
    | some r => r
    | none => let r := k.startSend (mk x.1) x.2; (ss ++ [(x.1, r.1)], r.2)
  pollFlush := pollAllKeyed k.pollFlush
  pollClose := pollAllKeyed k.pollClose

/-! ### `lazy.rs` -/

/-- a future as a script of polls: `false` = `Pending`; `true` or exhausted = `Ready` -/
def futPoll : List Bool → List Bool × Bool
  | false :: r => (r, false)
  | _ :: r => (r, true)
  | [] => ([], true)

inductive LZ (σ α : Type)
  | uninit (fut : List Bool) (mk : σ)
  | thunk (fut : List Bool) (mk : σ) (item : α)
  | done (s : σ) (buf : Option α)
  deriving Repr

structure LazySt (σ α : Type) where
  st : LZ σ α
  /-- ghost: how often the init closure `func` was called -/
  inits : Nat
  deriving Repr

/-- `LazySink::poll_sink_op` -/
def lazyOp {σ α : Type} (k : Snk σ α) (op : σ → σ × Bool) (l : LazySt σ α) : LazySt σ α × Bool :=
  match l.st with
  | .uninit _ _ => (l, true)
  | .thunk fut mk item =>
    let f := futPoll fut
    if f.2 then
      -- Done { sink, buf: Some(item) }, then the buffered item goes first
      let a := k.pollReady mk
      if a.2 then
        let s2 := (k.startSend a.1 item).1
        let r := op s2
        ({ l with st := .done r.1 none }, r.2)
      else ({ l with st := .done a.1 (some item) }, false)
    else ({ l with st := .thunk f.1 mk item }, false)
  | .done s (some item) =>
    let a := k.pollReady s
    if a.2 then
      let s2 := (k.startSend a.1 item).1
      let r := op s2
      ({ l with st := .done r.1 none }, r.2)
    else ({ l with st := .done a.1 (some item) }, false)
  | .done s none =>
    let r := op s
    ({ l with st := .done r.1 none }, r.2)

def lazySink {σ α : Type} (k : Snk σ α) : Snk (LazySt σ α) α where
  pollReady := lazyOp k k.pollReady
  startSend := fun l x => match l.st with
    | .uninit fut mk => ({ st := .thunk fut mk x, inits := l.inits + 1 }, true)
    | .done s buf => let r := k.startSend s x; ({ l with st := .done r.1 buf }, r.2)
    | .thunk _ _ _ => (l, false)   -- panic!("`LazySink` not ready.")
  pollFlush := lazyOp k k.pollFlush
  pollClose := lazyOp k k.pollClose

/-- a stream as a script: `some x` ready item, `none` pending, exhausted = ended -/
inductive SRes | item (x : Nat) | pending | ended
  deriving Repr, DecidableEq

def streamPoll : List (Option Nat) → List (Option Nat) × SRes
  | [] => ([], .ended)
  | some x :: r => (r, .item x)
  | none :: r => (r, .pending)

inductive LSrc
  | uninit (fut : List Bool) (stream : List (Option Nat))
  | thunk (fut : List Bool) (stream : List (Option Nat))
  | done (stream : List (Option Nat))
  deriving Repr, DecidableEq

/-- `LazySource::poll_next` (the init future never fails here) -/
def lazySourceNext : LSrc → LSrc × SRes
  | .uninit fut stream =>
    let f := futPoll fut
    if f.2 then let r := streamPoll stream; (.done r.1, r.2) else (.thunk f.1 stream, .pending)
  | .thunk fut stream =>
    let f := futPoll fut
    if f.2 then let r := streamPoll stream; (.done r.1, r.2) else (.thunk f.1 stream, .pending)
  | .done stream => let r := streamPoll stream; (.done r.1, r.2)

/-! ### `lazy_sink_source.rs` -/

inductive LSS (σ α : Type)
  | uninit (fut : List Bool) (stream : List (Option Nat)) (mk : σ)
  | thunk (fut : List Bool) (stream : List (Option Nat)) (mk : σ) (item : Option α)
  /-- `rdy` = the field `sink_ready`: the inner sink's `poll_ready` answered `Ready` and nothing was
  sent to it since (it stays `false` when the sink half answered `Ready` while still `Uninit`) -/
  | done (stream : List (Option Nat)) (s : σ) (buf : Option α) (rdy : Bool)
  deriving Repr

structure LssSt (σ α : Type) where
  st : LSS σ α
  /-- ghost: transitions out of `Uninit` (the shared future is created once, here it counts starts) -/
  inits : Nat
  deriving Repr

/-- the sink half's `poll_ready` (`isReady = true`: it records the inner answer in `sink_ready`) /
`poll_flush` / `poll_close` (`isReady = false`: `sink_ready` is left alone) -/
def lssOp {σ α : Type} (k : Snk σ α) (op : σ → σ × Bool) (isReady : Bool) (l : LssSt σ α) : LssSt σ α × Bool :=
  let afterDone (stream : List (Option Nat)) (s : σ) (buf : Option α) (rdy : Bool) : LssSt σ α × Bool :=
    match buf with
    | some item =>
      let a := k.pollReady s
      if a.2 then
        let s2 := (k.startSend a.1 item).1
        let r := op s2
        ({ l with st := .done stream r.1 none (if isReady then r.2 else rdy) }, r.2)
      else ({ l with st := .done stream a.1 (some item) rdy }, false)
    | none =>
      let r := op s
      ({ l with st := .done stream r.1 none (if isReady then r.2 else rdy) }, r.2)
  match l.st with
  | .uninit _ _ _ => (l, true)
  | .thunk fut stream mk item =>
    let f := futPoll fut
    if f.2 then afterDone stream mk item false else ({ l with st := .thunk f.1 stream mk item }, false)
  | .done stream s buf rdy => afterDone stream s buf rdy

def lssSink {σ α : Type} (k : Snk σ α) : Snk (LssSt σ α) α where
  pollReady := lssOp k k.pollReady true
  startSend := fun l x => match l.st with
    | .uninit fut stream mk => ({ st := .thunk fut stream mk (some x), inits := l.inits + 1 }, true)
    | .thunk _ _ _ (some _) => (l, false)   -- panic!("LazySinkHalf not ready.")
    -- `Ready` was answered while `Uninit`, then the source half started the initialisation: the slot is free
    | .thunk fut stream mk none => ({ l with st := .thunk fut stream mk (some x) }, true)
    | .done stream s buf rdy =>
      -- `if !mem::take(sink_ready) { *buf = Some(item) }`: the inner sink was not readied, hold the item
      if rdy then let r := k.startSend s x; ({ l with st := .done stream r.1 buf false }, r.2)
      else ({ l with st := .done stream s (some x) false }, true)
  pollFlush := lssOp k k.pollFlush false
  pollClose := lssOp k k.pollClose false

/-- the source half's `poll_next` -/
def lssNext {σ α : Type} (l : LssSt σ α) : LssSt σ α × SRes :=
  let thunk (fut : List Bool) (stream : List (Option Nat)) (mk : σ) (item : Option α) (inits : Nat) :
      LssSt σ α × SRes :=
    let f := futPoll fut
    if f.2 then
      let r := streamPoll stream
      (⟨.done r.1 mk item false, inits⟩, r.2)
    else (⟨.thunk f.1 stream mk item, inits⟩, .pending)
  match l.st with
  | .uninit fut stream mk => thunk fut stream mk none (l.inits + 1)
  | .thunk fut stream mk item => thunk fut stream mk item l.inits
  | .done stream s buf rdy => let r := streamPoll stream; ({ l with st := .done r.1 s buf rdy }, r.2)

/-- `LazySinkHalf::start_send` as it was before the repair of findings F4 / F4b (kept to state the
refutations): any `Thunkulating` state panics, `Done` forwards without looking at `sink_ready` -/
def lssStartSendBeforeFix {σ α : Type} (k : Snk σ α) (l : LssSt σ α) (x : α) : LssSt σ α × Bool :=
  match l.st with
  | .uninit fut stream mk => ({ st := .thunk fut stream mk (some x), inits := l.inits + 1 }, true)
  | .thunk _ _ _ _ => (l, false)
  | .done stream s buf _ => let r := k.startSend s x; ({ l with st := .done stream r.1 buf false }, r.2)

/-! ### drivers: `send_iter.rs`, `send_stream.rs` -/

/-- one `SendIter::poll`: returns the new state, the items not yet sent, and `Ready`? -/
def sendIterPoll {σ α : Type} (k : Snk σ α) : σ → List α → σ × List α × Bool
  | s, [] =>
    let a := k.pollReady s
    if a.2 then let r := k.pollFlush a.1; (r.1, [], r.2) else (a.1, [], false)
  | s, x :: rest =>
    let a := k.pollReady s
    if a.2 then sendIterPoll k (k.startSend a.1 x).1 rest else (a.1, x :: rest, false)

/-- one `SendStream::poll` over a scripted stream -/
def sendStreamPoll {σ : Type} (k : Snk σ Nat) : σ → List (Option Nat) → σ × List (Option Nat) × Bool
  | s, [] =>
    let a := k.pollReady s
    if a.2 then let r := k.pollFlush a.1; (r.1, [], r.2) else (a.1, [], false)
  | s, none :: rest =>
    let a := k.pollReady s
    (a.1, if a.2 then rest else none :: rest, false)
  | s, some x :: rest =>
    let a := k.pollReady s
    if a.2 then sendStreamPoll k (k.startSend a.1 x).1 rest else (a.1, some x :: rest, false)

end HvSink.Sink
