/-
C14 lines (mode `c14`).
  pipe <kind> [fut=<bits>] [stream=<script>] <d> <d> ...
        kind ∈ map filter filter_map inspect for_each try_for_each flat_map flatten chain unzip
               demux_var demux_map demux_map_lazy lazy lss lazysrc
        <d> = `<ready bits>/<flush bits>/<close bits>` (bits: string of 0/1, `-` = empty = always Ready)
        fut bits: polls of the init future (0 = Pending); stream script: comma list, `p` = Pending
  send_iter <items> | send_stream <script>     attach a driver future to the current pipe
  ready | send <x> | flush | close | next | drive
Output: `<result> d0:<new events> d1:… [log:<new entries>]`; events `r1 r0 s<x> f1 f0 c1 c0` joined by `.`.
After a panic every further line answers `dead`.
Fixed closures: map x ↦ 2x+1; filter x%3≠0; filter_map x%3=0 ↦ None else x+10;
flat_map x ↦ [10x, …, 10x + (x%3 − 1)]; unzip x ↦ (x, x+100); demux x ↦ (x%4, x) over 3 sinks / keys 0..2.
-/
import HvSink.Model.Sink
import HvSink.Driver.Util
namespace HvSink.Drv.C14
open HvSink.Sink HvSink.Drv

def fMap (x : Nat) : Nat := 2 * x + 1
def pFilter (x : Nat) : Bool := x % 3 != 0
def gFilterMap (x : Nat) : Option Nat := if x % 3 == 0 then none else some (x + 10)
def gFlat (x : Nat) : List Nat := (List.range (x % 3)).map fun i => 10 * x + i
def gUnzip (x : Nat) : Nat × Nat := (x, x + 100)
def gDemux (x : Nat) : Nat × Nat := (x % 4, x)

inductive P
  | one (kind : String) (s : DR)
  | insp (s : DR × List Nat)
  | fe (l : List Nat)
  | flat (kind : String) (s : DR × List Nat)
  | unz (s : DR × DR)
  | dvar (s : List DR)
  | dmap (s : List (Nat × DR))
  | dlazy (mk : List D) (s : List (Nat × DR))
  | lazy (s : LazySt DR Nat)
  | lss (s : LssSt DR Nat)
  | lsrc (s : LSrc)

def chainSnk : Snk (DR × List Nat) Nat := map fMap (flatMap gFlat (filter pFilter dsnk))

def lift {σ : Type} (r : σ × Bool) (f : σ → P) : P × Bool := (f r.1, r.2)

def mkLazy (mk : List D) (key : Nat) : DR := (mk.getD key ⟨[], [], []⟩, [])

/-- the current pipe as one sink over client items `Nat` -/
def pipeSnk : Snk P Nat where
  pollReady := fun p => match p with
    | .one k s => lift (dsnk.pollReady s) (.one k)
    | .insp s => lift ((inspect dsnk).pollReady s) .insp
    | .fe l => (.fe l, true)
    | .flat "flat_map" s => lift ((flatMap gFlat dsnk).pollReady s) (.flat "flat_map")
    | .flat "flatten" s => lift ((flatten dsnk).pollReady s) (.flat "flatten")
    | .flat k s => lift (chainSnk.pollReady s) (.flat k)
    | .unz s => lift ((unzip dsnk dsnk).pollReady s) .unz
    | .dvar s => lift ((demuxVar dsnk).pollReady s) .dvar
    | .dmap s => lift ((demuxMap dsnk).pollReady s) .dmap
    | .dlazy mk s => lift ((lazyDemux (mkLazy mk) dsnk).pollReady s) (.dlazy mk)
    | .lazy s => lift ((lazySink dsnk).pollReady s) .lazy
    | .lss s => lift ((lssSink dsnk).pollReady s) .lss
    | .lsrc s => (.lsrc s, false)
  startSend := fun p x => match p with
    | .one "map" s => lift ((map fMap dsnk).startSend s x) (.one "map")
    | .one "filter" s => lift ((filter pFilter dsnk).startSend s x) (.one "filter")
    | .one k s => lift ((filterMap gFilterMap dsnk).startSend s x) (.one k)
    | .insp s => lift ((inspect dsnk).startSend s x) .insp
    | .fe l => (.fe (l ++ [x]), true)
    | .flat "flat_map" s => lift ((flatMap gFlat dsnk).startSend s x) (.flat "flat_map")
    | .flat "flatten" s => lift ((flatten dsnk).startSend s (gFlat x)) (.flat "flatten")
    | .flat k s => lift (chainSnk.startSend s x) (.flat k)
    | .unz s => lift ((unzip dsnk dsnk).startSend s (gUnzip x)) .unz
    | .dvar s => lift ((demuxVar dsnk).startSend s (gDemux x)) .dvar
    | .dmap s => lift ((demuxMap dsnk).startSend s (gDemux x)) .dmap
    | .dlazy mk s => lift ((lazyDemux (mkLazy mk) dsnk).startSend s (gDemux x)) (.dlazy mk)
    | .lazy s => lift ((lazySink dsnk).startSend s x) .lazy
    | .lss s => lift ((lssSink dsnk).startSend s x) .lss
    | .lsrc s => (.lsrc s, false)
  pollFlush := fun p => match p with
    | .one k s => lift (dsnk.pollFlush s) (.one k)
    | .insp s => lift ((inspect dsnk).pollFlush s) .insp
    | .fe l => (.fe l, true)
    | .flat "flat_map" s => lift ((flatMap gFlat dsnk).pollFlush s) (.flat "flat_map")
    | .flat "flatten" s => lift ((flatten dsnk).pollFlush s) (.flat "flatten")
    | .flat k s => lift (chainSnk.pollFlush s) (.flat k)
    | .unz s => lift ((unzip dsnk dsnk).pollFlush s) .unz
    | .dvar s => lift ((demuxVar dsnk).pollFlush s) .dvar
    | .dmap s => lift ((demuxMap dsnk).pollFlush s) .dmap
    | .dlazy mk s => lift ((lazyDemux (mkLazy mk) dsnk).pollFlush s) (.dlazy mk)
    | .lazy s => lift ((lazySink dsnk).pollFlush s) .lazy
    | .lss s => lift ((lssSink dsnk).pollFlush s) .lss
    | .lsrc s => (.lsrc s, false)
  pollClose := fun p => match p with
    | .one k s => lift (dsnk.pollClose s) (.one k)
    | .insp s => lift ((inspect dsnk).pollClose s) .insp
    | .fe l => (.fe l, true)
    | .flat "flat_map" s => lift ((flatMap gFlat dsnk).pollClose s) (.flat "flat_map")
    | .flat "flatten" s => lift ((flatten dsnk).pollClose s) (.flat "flatten")
    | .flat k s => lift (chainSnk.pollClose s) (.flat k)
    | .unz s => lift ((unzip dsnk dsnk).pollClose s) .unz
    | .dvar s => lift ((demuxVar dsnk).pollClose s) .dvar
    | .dmap s => lift ((demuxMap dsnk).pollClose s) .dmap
    | .dlazy mk s => lift ((lazyDemux (mkLazy mk) dsnk).pollClose s) (.dlazy mk)
    | .lazy s => lift ((lazySink dsnk).pollClose s) .lazy
    | .lss s => lift ((lssSink dsnk).pollClose s) .lss
    | .lsrc s => (.lsrc s, false)

/-- the traces of the downstream sinks, by name; plus the closure log if any -/
def traces : P → List (String × List (Ev Nat)) × List Nat
  | .one _ s => ([("d0", s.2)], [])
  | .insp s => ([("d0", s.1.2)], s.2)
  | .fe l => ([], l)
  | .flat _ s => ([("d0", s.1.2)], [])
  | .unz s => ([("d0", s.1.2), ("d1", s.2.2)], [])
  | .dvar s => (s.zipIdx.map fun (d, i) => (s!"d{i}", d.2), [])
  | .dmap s => (s.map fun (k, d) => (s!"d{k}", d.2), [])
  | .dlazy _ s =>
    -- listed by key, whatever the creation order was
    ((List.range 3).filterMap fun key => (s.find? (·.1 == key)).map fun e => (s!"d{key}", e.2.2), [])
  | .lazy s => match s.st with
    | .uninit _ mk => ([("d0", mk.2)], [])
    | .thunk _ mk _ => ([("d0", mk.2)], [])
    | .done d _ => ([("d0", d.2)], [])
  | .lss s => match s.st with
    | .uninit _ _ mk => ([("d0", mk.2)], [])
    | .thunk _ _ mk _ => ([("d0", mk.2)], [])
    | .done _ d _ _ => ([("d0", d.2)], [])
  | .lsrc _ => ([], [])

def showEv : Ev Nat → String
  | .ready b => if b then "r1" else "r0"
  | .send x => s!"s{x}"
  | .flush b => if b then "f1" else "f0"
  | .close b => if b then "c1" else "c0"

def showEvs (es : List (Ev Nat)) : String :=
  if es.isEmpty then "-" else ".".intercalate (es.map showEv)

/-- what was appended to every trace between `p` and `p'` -/
def delta (p p' : P) : String :=
  let (t0, l0) := traces p
  let (t1, l1) := traces p'
  let parts := t1.map fun (name, es) =>
    let before := match t0.find? (·.1 == name) with
      | some e => e.2.length
      | none => 0
    s!" {name}:{showEvs (es.drop before)}"
  let logPart := match p' with
    | .insp _ | .fe _ => s!" log:{showList (l1.drop l0.length)}"
    | _ => ""
  String.join parts ++ logPart

inductive Drv
  | none
  | iter (items : List Nat)
  | stream (script : List (Option Nat))

structure St where
  pipe : Option P := none
  drv : Drv := .none
  dead : Bool := false

def parseBits (s : String) : Option (List Bool) :=
  if s == "-" then some [] else s.toList.mapM fun c => if c == '1' then some true else if c == '0' then some false else none

def parseD (s : String) : Option D :=
  match s.splitOn "/" with
  | [a, b, c] => do
    let a ← parseBits a; let b ← parseBits b; let c ← parseBits c
    pure ⟨a, b, c⟩
  | _ => none

def parseStream (s : String) : Option (List (Option Nat)) :=
  if s == "-" then some [] else (s.splitOn ",").mapM fun t => if t == "p" then some none else t.toNat?.map some

def getOpt (key : String) (ws : List String) : Option String :=
  (ws.find? (·.startsWith (key ++ "="))).map fun w => (w.drop (key.length + 1)).toString

def mkPipe (kind : String) (ws : List String) : Option P := do
  let ds ← (ws.filter fun w => !(w.startsWith "fut=" || w.startsWith "stream=")).mapM parseD
  let fut ← match getOpt "fut" ws with
    | some b => parseBits b
    | none => some []
  let stream ← match getOpt "stream" ws with
    | some b => parseStream b
    | none => some []
  let d (i : Nat) : DR := (ds.getD i ⟨[], [], []⟩, [])
  match kind, ds.length with
  | "map", 1 | "filter", 1 | "filter_map", 1 => some (.one kind (d 0))
  | "inspect", 1 => some (.insp (d 0, []))
  | "for_each", 0 | "try_for_each", 0 => some (.fe [])
  | "flat_map", 1 | "flatten", 1 | "chain", 1 => some (.flat kind (d 0, []))
  | "unzip", 2 => some (.unz (d 0, d 1))
  | "demux_var", 3 => some (.dvar [d 0, d 1, d 2])
  | "demux_map", 3 => some (.dmap [(0, d 0), (1, d 1), (2, d 2)])
  | "demux_map_lazy", 3 => some (.dlazy ds [])
  | "lazy", 1 => some (.lazy ⟨.uninit fut (d 0), 0⟩)
  | "lss", 1 => some (.lss ⟨.uninit fut stream (d 0), 0⟩)
  | "lazysrc", 0 => some (.lsrc (.uninit fut stream))
  | _, _ => none

def showSRes : SRes → String
  | .item x => s!"item {x}"
  | .pending => "pending"
  | .ended => "ended"

def isSinkPipe : P → Bool
  | .lsrc _ => false
  | _ => true

def step (st : St) (ws : List String) : St × String :=
  let bad : St × String := (st, "bad-op")
  if st.dead then (st, "dead") else
  match ws with
  | "pipe" :: kind :: rest =>
    match mkPipe kind rest with
    | some p => ({ pipe := some p, drv := .none, dead := false }, "ok")
    | none => bad
  | ["send_iter", items] =>
    match st.pipe, parseList items with
    | some p, some l => if isSinkPipe p then ({ st with drv := .iter l }, "ok") else bad
    | _, _ => bad
  | ["send_stream", script] =>
    match st.pipe, parseStream script with
    | some p, some l => if isSinkPipe p then ({ st with drv := .stream l }, "ok") else bad
    | _, _ => bad
  | [op] =>
    match st.pipe with
    | none => bad
    | some p =>
      let pollOut (r : P × Bool) : St × String :=
        ({ st with pipe := some r.1 }, (if r.2 then "ready" else "pending") ++ delta p r.1)
      match op, isSinkPipe p with
      | "ready", true => pollOut (pipeSnk.pollReady p)
      | "flush", true => pollOut (pipeSnk.pollFlush p)
      | "close", true => pollOut (pipeSnk.pollClose p)
      | "next", _ =>
        match p with
        | .lsrc s => let r := lazySourceNext s; ({ st with pipe := some (.lsrc r.1) }, showSRes r.2)
        | .lss s => let r := lssNext s; ({ st with pipe := some (.lss r.1) }, showSRes r.2 ++ delta p (.lss r.1))
        | _ => bad
      | "drive", true =>
        match st.drv with
        | .none => bad
        | .iter items =>
          let r := sendIterPoll pipeSnk p items
          ({ st with pipe := some r.1, drv := .iter r.2.1 }, (if r.2.2 then "ready" else "pending") ++ delta p r.1)
        | .stream sc =>
          let r := sendStreamPoll pipeSnk p sc
          ({ st with pipe := some r.1, drv := .stream r.2.1 }, (if r.2.2 then "ready" else "pending") ++ delta p r.1)
      | _, _ => bad
  | ["send", x] =>
    match st.pipe, x.toNat? with
    | some p, some x =>
      if !isSinkPipe p then bad else
      let r := pipeSnk.startSend p x
      if r.2 then ({ st with pipe := some r.1 }, "ok" ++ delta p r.1)
      else ({ st with dead := true }, "panic")
    | _, _ => bad
  | _ => bad

end HvSink.Drv.C14
