/- small helpers shared by the mode drivers (no imports outside core) -/
namespace HvSink.Drv

def words (line : String) : List String :=
  (line.trimAscii.toString.splitOn " ").filter (· ≠ "")

def showList (xs : List Nat) : String :=
  if xs.isEmpty then "-" else ",".intercalate (xs.map toString)

def parseList (s : String) : Option (List Nat) :=
  if s == "-" then some [] else (s.splitOn ",").mapM (·.toNat?)

def showBool (b : Bool) : String := if b then "true" else "false"

def parseBool (s : String) : Option Bool :=
  if s == "true" || s == "1" then some true else if s == "false" || s == "0" then some false else none

end HvSink.Drv
