/-
`hvdrv_sink`: line-protocol driver for the C14 / C15 / C16 models.  One output line per input
line.  `#case <n> <mode> ...` resets the state and selects the mode (`c16`, `c15`, `c14`);
the line is echoed.  Unknown lines -> `bad-op`.
-/
import HvSink.Driver.C16
import HvSink.Driver.C15
import HvSink.Driver.C14
open HvSink.Drv

inductive Mode
  | none
  | c16 (st : C16.St)
  | c15 (st : C15.St)
  | c14 (st : C14.St)

def step (m : Mode) (line : String) : Mode × String :=
  let ws := words line
  match ws with
  | "#case" :: _ :: mode :: _ =>
    let echo := line.trimAscii.toString
    if mode == "c16" then (.c16 {}, echo)
    else if mode == "c15" then (.c15 {}, echo)
    else if mode == "c14" then (.c14 {}, echo)
    else (.none, echo)
  | "#case" :: _ => (.none, line.trimAscii.toString)
  | _ =>
    match m with
    | .none => (m, "bad-op")
    | .c16 st => let r := C16.step st ws; (.c16 r.1, r.2)
    | .c15 st => let r := C15.step st ws; (.c15 r.1, r.2)
    | .c14 st => let r := C14.step st ws; (.c14 r.1, r.2)

partial def loop (h : IO.FS.Stream) (out : IO.FS.Stream) (m : Mode) : IO Unit := do
  let line ← h.getLine
  if line.isEmpty then return ()
  let (m', o) := step m line
  out.putStrLn o
  loop h out m'

def main : IO Unit := do
  let stdin ← IO.getStdin
  let stdout ← IO.getStdout
  loop stdin stdout .none
