/-
C15 lines (mode `c15`):
  merge <script> <script> ...   script = comma list: `7` ready Ok(7), `e7` ready Err(7), `p` pending; `-` = empty
                                source i gets the tag 100+i (a `TaggedSource` under the `MergeSource`)
  next                          one `poll_next` -> `item <tag>:<x>` | `err <x>` | `pending` | `ended`,
                                then ` len=<sources.len()> cur=<poll_cursor> polled=<tags polled, in order>`
-/
import HvSink.Model.Merge
import HvSink.Driver.Util
namespace HvSink.Drv.C15
open HvSink.Merge HvSink.Drv

abbrev Item := Except Nat (Nat × Nat)

structure St where
  ms : Option (MS Item) := none

def parseTok (s : String) : Option (Option (Except Nat Nat)) :=
  if s == "p" then some none
  else if s.startsWith "e" then ((s.drop 1).toNat?).map fun k => some (.error k)
  else s.toNat?.map fun k => some (.ok k)

def parseScript (s : String) : Option (List (Option (Except Nat Nat))) :=
  if s == "-" then some [] else (s.splitOn ",").mapM parseTok

def showOut : Out Item → String
  | .item _ (.ok (tag, x)) => s!"item {tag}:{x}"
  | .item _ (.error k) => s!"err {k}"
  | .pending => "pending"
  | .ended => "ended"

def step (st : St) (ws : List String) : St × String :=
  match ws with
  | "merge" :: scripts =>
    match scripts.mapM parseScript with
    | some ss =>
      let tagged := ss.zipIdx.map fun (sc, i) => (100 + i, tagScript (100 + i) sc)
      ({ st with ms := some (MS.new tagged) }, "ok")
    | none => (st, "bad-op")
  | ["next"] =>
    match st.ms with
    | some m =>
      let r := m.pollNext
      let out := if r.panicked then "panic" else showOut r.out
      ({ st with ms := some r.ms },
        s!"{out} len={r.ms.sources.length} cur={r.ms.cursor} polled={showList r.polled}")
    | none => (st, "bad-op")
  | _ => (st, "bad-op")

end HvSink.Drv.C15
