/-
C16 lines (mode `c16`).  Task level:
  sys <cap|unb> <limit|none> <prog> <prog> ...   prog = items `1,20` or `-`, suffix `c` = close_this_sender before drop
  poll <t>                                       t = 0 receiver, i+1 sender i
     -> `<status> w=<wakers fired> got=<received so far> todo=<items not yet pushed by t> q=<runnable>`
API level (one channel, handle table, send-future table):
  chan <cap|unb> | fsend f s x | fpoll f w | fdrop f | try s x | start s x | ready s w | flush s w
  pclose s w | sclose s | isclosed s | clone s | sdrop s | recv w | rclose | rdrop
-/
import HvSink.Model.Chan
import HvSink.Driver.Util
namespace HvSink.Drv.C16
open HvSink.Chan HvSink.Drv

structure St where
  sys : Option Sys := none
  chan : Option Chan := none
  /-- handle table: `none` = dropped, `some live` -/
  handles : List (Option Bool) := []
  /-- pending send futures: (future id, handle, item) -/
  futs : List (Nat × Nat × Nat) := []
  recvAlive : Bool := false

def cfg : Cfg := Cfg.current

def parseCap (s : String) : Option (Option Nat) :=
  if s == "unb" then some none else match s.toNat? with
    | some k => if k == 0 then none else some (some k)
    | none => none

def parseLimit (s : String) : Option (Option Nat) :=
  if s == "none" then some none else s.toNat?.map some

def parseProg (s : String) : Option (List Nat × Bool) :=
  let (body, c) := if s.endsWith "c" then ((s.dropEnd 1).toString, true) else (s, false)
  (parseList body).map fun l => (l, c)

def showSStatus : SStatus → String
  | .running => "running" | .doneOk => "ok" | .doneErr => "err"
def showRStatus : RStatus → String
  | .running => "running" | .doneNone => "none" | .doneLimit => "limit"

def handleLive (st : St) (s : Nat) : Option Bool := (st.handles[s]?).join
def hasFut (st : St) (s : Nat) : Bool := st.futs.any fun f => f.2.1 == s

def ok (st : St) (c : Chan) (out : String) (wk : List Nat) : St × String :=
  ({ st with chan := some c }, s!"{out} w={showList wk}")

def step (st : St) (ws : List String) : St × String :=
  let bad : St × String := (st, "bad-op")
  match ws with
  | "sys" :: cap :: limit :: progs =>
    match parseCap cap, parseLimit limit, progs.mapM parseProg with
    | some cap, some limit, some progs => ({ st with sys := some (Sys.init cfg cap progs limit) }, "ok")
    | _, _, _ => bad
  | ["poll", t] =>
    match st.sys, t.toNat? with
    | some s, some t =>
      if t > s.snd.length then bad else
      let w0 := s.woken
      let s' := s.poll t
      -- wakers fired by this poll: what was appended to the wake list
      let fired := s'.woken.drop ((w0.filter (· != t)).length)
      let fired := if s.done t then [] else fired
      let status := match t with
        | 0 => showRStatus s'.rcv.st
        | i + 1 => match s'.snd[i]? with
          | some tk => showSStatus tk.st
          | none => "?"
      let todo := match t with
        | 0 => "-"
        | i + 1 => match s'.snd[i]? with
          | some tk => showList tk.todo
          | none => "?"
      ({ st with sys := some s' }, s!"{status} w={showList fired} got={showList s'.rcv.got} todo={todo} q={showList s'.runnable}")
    | _, _ => bad
  | ["chan", cap] =>
    match parseCap cap with
    | some cap => ({ st with chan := some (Chan.new cap), handles := [some true], futs := [], recvAlive := true }, "ok")
    | none => bad
  | op :: args =>
    match st.chan, args.mapM (·.toNat?) with
    | some c, some args =>
      match op, args with
      | "fsend", [f, s, x] =>
        if (handleLive st s).isNone || st.futs.any (·.1 == f) then bad
        else ({ st with futs := st.futs ++ [(f, s, x)] }, "ok")
      | "fpoll", [f, w] =>
        match st.futs.find? (·.1 == f) with
        | some (_, s, x) =>
          match handleLive st s with
          | some live =>
            let r := c.pollSend live x w
            let st1 := match r.2.1 with
              | .pending => st
              | _ => { st with futs := st.futs.filter (·.1 != f) }
            let out := match r.2.1 with
              | .pending => "pending" | .ok => "ok" | .err => s!"err {x}"
            ok st1 r.1 out r.2.2
          | none => bad
        | none => bad
      | "fdrop", [f] =>
        if st.futs.any (·.1 == f) then ({ st with futs := st.futs.filter (·.1 != f) }, "ok") else bad
      | "try", [s, x] | "start", [s, x] =>
        match handleLive st s with
        | some live =>
          if op == "start" && hasFut st s then bad else
          let r := c.trySend live x
          let out := match r.2.1 with | .ok => "ok" | .full => s!"full {x}" | .closed => s!"closed {x}"
          ok st r.1 out r.2.2
        | none => bad
      | "ready", [s, w] =>
        match handleLive st s with
        | some live =>
          if hasFut st s then bad else
          let r := c.pollReady live w
          let out := match r.2 with | .ready => "ready" | .pending => "pending" | .closed => "closed"
          ok st r.1 out []
        | none => bad
      | "flush", [s, _w] =>
        match handleLive st s with
        | some _ => if hasFut st s then bad else ok st c "ready" []
        | none => bad
      | "pclose", [s, _w] | "sclose", [s] =>
        match handleLive st s with
        | some live =>
          if hasFut st s then bad else
          let r := c.closeThisSender cfg live
          ok { st with handles := st.handles.set s (some r.2.1) } r.1 "ok" r.2.2
        | none => bad
      | "isclosed", [s] =>
        match handleLive st s with
        | some live => (st, showBool (c.isClosed live))
        | none => bad
      | "clone", [s] =>
        match handleLive st s with
        | some live =>
          ({ st with chan := some (c.cloneSender live), handles := st.handles ++ [some live] }, toString st.handles.length)
        | none => bad
      | "sdrop", [s] =>
        match handleLive st s with
        | some live =>
          if hasFut st s then bad else
          let r := c.dropSender live
          ok { st with handles := st.handles.set s none } r.1 "ok" r.2
        | none => bad
      | "recv", [w] =>
        if !st.recvAlive then bad else
        let r := c.pollRecv cfg w
        let out := match r.2.1 with | .item x => s!"some {x}" | .none => "none" | .pending => "pending"
        ok st r.1 out r.2.2
      | "rclose", [] =>
        if !st.recvAlive then bad else
        let r := c.closeRecv
        ok st r.1 "ok" r.2
      | "rdrop", [] =>
        if !st.recvAlive then bad else
        let r := c.dropRecv
        ok { st with recvAlive := false } r.1 "ok" r.2
      | _, _ => bad
    | _, _ => bad
  | _ => bad

end HvSink.Drv.C16
