/-
C16 — Unsync channels are FIFO, lossless and never strand a sender.

Theorems about the model in `HvSink/Model/Chan.lean`, for *every* schedule (`List Nat` of task
ids, spurious polls included), every capacity, every set of sender programs and every receive
limit.  Helper lemmas are named `aux_*`.
-/
import HvSink.Model.Chan

namespace HvSink.Chan
open List

/-! ### layer 1 helpers -/

theorem aux_isFull_mono {c c' : Chan} (hc : c'.capacity = c.capacity)
    (hl : c.buffer.length ≤ c'.buffer.length) (h : c.isFull = true) : c'.isFull = true := by
  unfold Chan.isFull at *
  rw [hc]
  cases hcap : c.capacity with
  | none => simp [hcap] at h
  | some k => simp [hcap] at h ⊢; omega

theorem aux_isFull_nonempty {c : Chan} (hpos : ∀ k, c.capacity = some k → 0 < k)
    (h : c.isFull = true) : c.buffer ≠ [] := by
  unfold Chan.isFull at h
  cases hcap : c.capacity with
  | none => simp [hcap] at h
  | some k =>
    have := hpos k hcap
    simp [hcap] at h
    intro hb; simp [hb] at h; omega

/-- what the end of a sender task does to an open channel -/
theorem aux_finish (cfg : Cfg) (c : Chan) (cf : Bool) (hc : c.closed = false) :
    (finishSender cfg c cf).1.closed = false ∧
    (finishSender cfg c cf).1.capacity = c.capacity ∧
    (finishSender cfg c cf).1.buffer = c.buffer ∧
    (finishSender cfg c cf).1.sendWakers = c.sendWakers ∧
    (finishSender cfg c cf).1.weak = c.weak - 1 ∧
    (∀ v ∈ (finishSender cfg c cf).2, c.recvWaker = some v) ∧
    ((finishSender cfg c cf).1.recvWaker = none ∨
      ((finishSender cfg c cf).1.recvWaker = c.recvWaker ∧ (finishSender cfg c cf).2 = [])) ∧
    (∀ v, c.recvWaker = some v → (finishSender cfg c cf).1.recvWaker = none →
      v ∈ (finishSender cfg c cf).2) ∧
    ((cfg.closeWakes = true ∨ cf = false) → (finishSender cfg c cf).1.recvWaker = none) := by
  rcases c with ⟨buf, cap, sw, rw, cl, wk⟩
  rcases cfg with ⟨a, b⟩
  simp only at hc
  subst hc
  cases cf <;> cases rw <;> cases b <;>
    simp [finishSender, Chan.closeThisSender, Chan.dropSender, Chan.upgrade, Chan.wakeReceiver]

/-- a sender poll on a closed channel: the task finishes at once, nothing changes -/
theorem aux_senderRun_closed (cfg : Cfg) (cf : Bool) (w : Nat) (c : Chan) (todo : List Nat)
    (hc : c.closed = true) :
    (senderRun cfg cf w c todo).chan = c ∧ (senderRun cfg cf w c todo).wakes = [] ∧
    (senderRun cfg cf w c todo).pushed = [] ∧ (senderRun cfg cf w c todo).todo = todo ∧
    (senderRun cfg cf w c todo).st ≠ .running ∧
    ((senderRun cfg cf w c todo).st = .doneOk → todo = []) := by
  cases todo with
  | nil =>
    cases cf <;>
      simp [senderRun, finishSender, Chan.closeThisSender, Chan.dropSender, Chan.upgrade, hc]
  | cons x rest =>
    simp [senderRun, Chan.pollSend, Chan.dropSender, Chan.upgrade, hc]

/-- one sender poll on an open channel -/
structure SendSpec (cfg : Cfg) (w : Nat) (c : Chan) (todo : List Nat) (r : SRun) : Prop where
  closed : r.chan.closed = false
  cap : r.chan.capacity = c.capacity
  buf : r.chan.buffer = c.buffer ++ r.pushed
  split : r.pushed ++ r.todo = todo
  notErr : r.st ≠ .doneErr
  run : r.st = .running → w ∈ r.chan.sendWakers ∧ r.chan.isFull = true ∧ r.chan.weak = c.weak
  ok : r.st = .doneOk → r.todo = [] ∧ r.chan.weak = c.weak - 1
  wakers : ∀ v ∈ c.sendWakers, v ∈ r.chan.sendWakers
  wakesOnly : ∀ v ∈ r.wakes, c.recvWaker = some v
  rw : r.chan.recvWaker = none ∨ (r.chan.recvWaker = c.recvWaker ∧ r.wakes = [])
  rwWoken : ∀ v, c.recvWaker = some v → r.chan.recvWaker = none → v ∈ r.wakes
  /-- the receiver's waker survives a sender poll only if the sender parked without pushing -/
  rwKept : r.chan.recvWaker ≠ none → r.pushed = [] ∧ (r.st = .running ∨ r.st = .doneOk)
  /-- with the repaired `close_this_sender`, a finishing sender always wakes the receiver -/
  okWakes : cfg.closeWakes = true → r.st = .doneOk → r.chan.recvWaker = none

theorem aux_senderRun_open (cfg : Cfg) (cf : Bool) (w : Nat) (c : Chan) (todo : List Nat)
    (hc : c.closed = false) : SendSpec cfg w c todo (senderRun cfg cf w c todo) := by
  induction todo generalizing c with
  | nil =>
    have f := aux_finish cfg c cf hc
    obtain ⟨f1, f2, f3, f4, f5, f6, f7, f8, f9⟩ := f
    refine ⟨?_, ?_, ?_, ?_, ?_, ?_, ?_, ?_, ?_, ?_, ?_, ?_, ?_⟩ <;> simp [senderRun] <;>
      first | assumption | simp_all
  | cons x rest ih =>
    by_cases hfull : c.isFull = true
    · -- parked
      have hr : senderRun cfg cf w c (x :: rest) =
          ⟨{ c with sendWakers := w :: c.sendWakers }, x :: rest, .running, [], []⟩ := by
        simp [senderRun, Chan.pollSend, Chan.upgrade, hc, hfull]
      rw [hr]
      refine ⟨hc, rfl, by simp, by simp, by simp, ?_, by simp, ?_, by simp, Or.inr ⟨rfl, rfl⟩, ?_, by simp, by simp⟩
      · intro _; exact ⟨by simp, by simpa [Chan.isFull] using hfull, rfl⟩
      · intro v hv; simp [hv]
      · intro v hv hn; simp [hv] at hn
    · -- pushed, go on
      have hfull' : c.isFull = false := by simpa using hfull
      let c0 : Chan := { c with buffer := c.buffer ++ [x] }
      have hc1 : c0.wakeReceiver.1.closed = false := by
        simp only [Chan.wakeReceiver, c0]; split <;> simp [hc]
      have ih' := ih c0.wakeReceiver.1 hc1
      have hr : senderRun cfg cf w c (x :: rest) =
          { senderRun cfg cf w c0.wakeReceiver.1 rest with
            wakes := c0.wakeReceiver.2 ++ (senderRun cfg cf w c0.wakeReceiver.1 rest).wakes,
            pushed := x :: (senderRun cfg cf w c0.wakeReceiver.1 rest).pushed } := by
        simp [senderRun, Chan.pollSend, Chan.upgrade, hc, hfull', c0]
      rw [hr]
      have e1 : c0.wakeReceiver.1.capacity = c.capacity := by
        simp only [Chan.wakeReceiver, c0]; split <;> simp
      have e2 : c0.wakeReceiver.1.buffer = c.buffer ++ [x] := by
        simp only [Chan.wakeReceiver, c0]; split <;> simp
      have e3 : c0.wakeReceiver.1.sendWakers = c.sendWakers := by
        simp only [Chan.wakeReceiver, c0]; split <;> simp
      have e4 : c0.wakeReceiver.1.weak = c.weak := by
        simp only [Chan.wakeReceiver, c0]; split <;> simp
      have e5 : c0.wakeReceiver.1.recvWaker = none := by
        simp only [Chan.wakeReceiver, c0]; split <;> simp_all
      have e6 : ∀ v, c.recvWaker = some v → c0.wakeReceiver.2 = [v] := by
        intro v hv; simp [Chan.wakeReceiver, c0, hv]
      have e7 : ∀ v ∈ c0.wakeReceiver.2, c.recvWaker = some v := by
        intro v; simp only [Chan.wakeReceiver, c0]; split <;> simp_all
      obtain ⟨i1, i2, i3, i4, i5, i6, i7, i8, i9, i10, i11, i12, i13⟩ := ih'
      refine ⟨i1, by simp [i2, e1], by simp [i3, e2], by simp [i4], i5, ?_, ?_, ?_, ?_, ?_, ?_, ?_, ?_⟩
      · intro h; have := i6 h; simpa [e4] using this
      · intro h; have := i7 h; simpa [e4] using this
      · intro v hv; exact i8 v (by simpa [e3] using hv)
      · intro v hv
        simp only [List.mem_append] at hv
        rcases hv with hv | hv
        · exact e7 v hv
        · have := i9 v hv; simp [e5] at this
      · left
        rcases i10 with h | ⟨h, _⟩
        · exact h
        · simpa [e5] using h
      · intro v hv _
        simp [e6 v hv]
      · intro h
        rcases i10 with h' | ⟨h', _⟩
        · exact absurd h' h
        · exact absurd (by simpa [e5] using h') h
      · intro _ _
        rcases i10 with h' | ⟨h', _⟩
        · exact h'
        · simpa [e5] using h'

/-- one receiver poll on an open channel -/
structure RecvSpec (cfg : Cfg) (w : Nat) (c : Chan) (got : List Nat) (r : RRun) : Prop where
  taken : ∃ taken, r.got = got ++ taken ∧ taken <+: c.buffer ∧
    (r.st = .running → taken = c.buffer) ∧ (r.st = .doneNone → taken = c.buffer)
  run : r.st = .running → r.chan.recvWaker = some w ∧ r.chan.buffer = [] ∧ 0 < r.chan.weak ∧
    r.chan.closed = false ∧ r.chan.weak = c.weak ∧ r.chan.capacity = c.capacity
  done : r.st ≠ .running → r.chan.closed = true ∧ r.chan.buffer = [] ∧ r.chan.sendWakers = [] ∧
    r.chan.capacity = none ∧ r.chan.recvWaker = none
  none : r.st = .doneNone → c.weak = 0
  wakesAll : cfg.recvWakesAll = true → (c.buffer ≠ [] ∨ r.st ≠ .running) →
    ∀ v ∈ c.sendWakers, v ∈ r.wakes
  wakesOnly : ∀ v ∈ r.wakes, v ∈ c.sendWakers

theorem aux_recvRun_open (cfg : Cfg) (w : Nat) (fuel : Nat) (c : Chan) (limit : Option Nat)
    (got : List Nat) (hc : c.closed = false) (hf : c.buffer.length < fuel) :
    RecvSpec cfg w c got (recvRun cfg w fuel c limit got) := by
  induction fuel generalizing c limit got with
  | zero => omega
  | succ fuel ih =>
    by_cases hl : limit = some 0
    · subst hl
      refine ⟨⟨[], by simp [recvRun], by simp, by simp [recvRun], by simp [recvRun]⟩, by simp [recvRun], ?_,
        by simp [recvRun], ?_, ?_⟩
      · intro _; simp [recvRun, Chan.dropRecv, Chan.closeRecv]
      · intro _ _ v hv; simp [recvRun, Chan.dropRecv, Chan.closeRecv, Chan.wakeAllSenders, hv]
      · intro v hv; simpa [recvRun, Chan.dropRecv, Chan.closeRecv, Chan.wakeAllSenders] using hv
    · have hl' : (limit == some 0) = false := by simpa using hl
      cases hb : c.buffer with
      | nil =>
        by_cases hw : c.weak = 0
        · -- None
          have hr : recvRun cfg w (fuel + 1) c limit got =
              ⟨c.dropRecv.1, limit, got, .doneNone, c.dropRecv.2⟩ := by
            simp [recvRun, hl', Chan.pollRecv, hb, hw]
          rw [hr]
          refine ⟨⟨[], by simp, by simp, by simp [hb], by simp [hb]⟩, by simp, ?_, fun _ => hw, ?_, ?_⟩
          · intro _; simp [Chan.dropRecv, Chan.closeRecv]
          · intro _ _ v hv; simp [Chan.dropRecv, Chan.closeRecv, Chan.wakeAllSenders, hv]
          · intro v hv; simpa [Chan.dropRecv, Chan.closeRecv, Chan.wakeAllSenders] using hv
        · -- Pending
          have hw' : (c.weak == 0) = false := by simpa using hw
          have hr : recvRun cfg w (fuel + 1) c limit got =
              ⟨{ c with recvWaker := some w }, limit, got, .running, []⟩ := by
            simp [recvRun, hl', Chan.pollRecv, hb, hw']
          rw [hr]
          refine ⟨⟨[], by simp, by simp, by simp [hb], by simp⟩, ?_, by simp, by simp, ?_, by simp⟩
          · intro _; exact ⟨rfl, hb, by simpa using Nat.pos_of_ne_zero hw, hc, rfl, rfl⟩
          · intro _ h; simp [hb] at h
      | cons x rest =>
        -- an item: wake, recurse
        let c1 : Chan := { c with buffer := rest }
        let wk := if cfg.recvWakesAll then c1.wakeAllSenders else c1.wakeSender
        have hwk1 : wk.1.closed = false ∧ wk.1.buffer = rest ∧ wk.1.weak = c.weak ∧
            wk.1.capacity = c.capacity := by
          simp only [wk, c1, Chan.wakeAllSenders, Chan.wakeSender]
          split
          · simp [hc]
          · split <;> simp [hc]
        have hwk2 : ∀ v ∈ wk.2, v ∈ c.sendWakers := by
          intro v
          simp only [wk, c1, Chan.wakeAllSenders, Chan.wakeSender]
          split
          · simp
          · split <;> simp_all
        have hwk3 : cfg.recvWakesAll = true → ∀ v ∈ c.sendWakers, v ∈ wk.2 := by
          intro h v hv
          simp [wk, c1, Chan.wakeAllSenders, h, hv]
        have hwk4 : ∀ v ∈ wk.1.sendWakers, v ∈ c.sendWakers := by
          intro v
          simp only [wk, c1, Chan.wakeAllSenders, Chan.wakeSender]
          split
          · simp
          · split <;> simp_all
        have hr : recvRun cfg w (fuel + 1) c limit got =
            { recvRun cfg w fuel wk.1 (limit.map (· - 1)) (got ++ [x]) with
              wakes := wk.2 ++ (recvRun cfg w fuel wk.1 (limit.map (· - 1)) (got ++ [x])).wakes } := by
          simp [recvRun, hl', Chan.pollRecv, hb, wk, c1]
        rw [hr]
        have hf' : wk.1.buffer.length < fuel := by
          rw [hwk1.2.1]; simp [hb] at hf; omega
        obtain ⟨⟨tk, t1, t2, t3, t4⟩, i2, i3, i4, i5, i6⟩ := ih wk.1 (limit.map (· - 1)) (got ++ [x]) hwk1.1 hf'
        refine ⟨⟨x :: tk, by simp [t1], ?_, ?_, ?_⟩, ?_, i3, ?_, ?_, ?_⟩
        · rw [hwk1.2.1] at t2; rw [hb]; exact List.cons_prefix_cons.mpr ⟨rfl, t2⟩
        · intro h; rw [t3 h, hwk1.2.1, hb]
        · intro h; rw [t4 h, hwk1.2.1, hb]
        · intro h
          obtain ⟨a, b, c', d, e, f⟩ := i2 h
          exact ⟨a, b, c', d, by rw [e, hwk1.2.2.1], by rw [f, hwk1.2.2.2]⟩
        · intro h; have := i4 h; rw [hwk1.2.2.1] at this; exact this
        · intro h _ v hv
          simp only [List.mem_append]
          exact Or.inl (hwk3 h v hv)
        · intro v hv
          simp only [List.mem_append] at hv
          rcases hv with hv | hv
          · exact hwk2 v hv
          · exact hwk4 v (i6 v hv)


/-! ### layer 2: the invariant of every reachable system state -/

/-- items sender `i` has pushed so far, in order -/
def Sys.sentBy (s : Sys) (i : Nat) : List Nat := (s.pushed.filter (·.1 == i)).map (·.2)
/-- all items pushed so far, in global push order -/
def Sys.pushedItems (s : Sys) : List Nat := s.pushed.map (·.2)

structure Inv (progs : List (List Nat × Bool)) (s : Sys) : Prop where
  len : s.snd.length = progs.length
  capPos : ∀ k, s.chan.capacity = some k → 0 < k
  closedIff : s.chan.closed = true ↔ s.rcv.st ≠ .running
  buf : s.rcv.st = .running → s.rcv.got ++ s.chan.buffer = s.pushedItems
  pre : s.rcv.got <+: s.pushedItems
  per : ∀ (i : Nat) (t : STask), s.snd[i]? = some t → ∃ p, progs[i]? = some p ∧ s.sentBy i ++ t.todo = p.1
  noneEnd : s.rcv.st = .doneNone →
    s.rcv.got = s.pushedItems ∧ ∀ (i : Nat) (t : STask), s.snd[i]? = some t → t.st ≠ .running
  err : ∀ (i : Nat) (t : STask), s.snd[i]? = some t → t.st = .doneErr → s.rcv.st = .doneLimit
  ok : ∀ (i : Nat) (t : STask), s.snd[i]? = some t → t.st = .doneOk → t.todo = []
  weak : s.chan.closed = false → s.chan.weak = s.snd.countP (fun t => t.st == .running)

/-- liveness as a state invariant (needs both repairs): a parked task is either already woken or
registered with the channel in a state from which the next relevant event wakes it -/
structure LiveInv (s : Sys) : Prop where
  sndParked : ∀ (i : Nat) (t : STask), s.snd[i]? = some t → t.st = .running →
    (i + 1) ∈ s.woken ∨ ((i + 1) ∈ s.chan.sendWakers ∧ s.chan.isFull = true ∧ s.chan.closed = false)
  rcvParked : s.rcv.st = .running →
    0 ∈ s.woken ∨ (s.chan.recvWaker = some 0 ∧ s.chan.buffer = [] ∧ 0 < s.chan.weak)

theorem aux_sentBy_append_self (s : Sys) (i : Nat) (xs : List Nat) :
    (((s.pushed ++ xs.map (fun x => (i, x))).filter (·.1 == i)).map (·.2)) = s.sentBy i ++ xs := by
  simp only [Sys.sentBy, List.filter_append, List.map_append]
  congr 1
  induction xs with
  | nil => rfl
  | cons x xs ih => simp [List.filter_cons, ih]

theorem aux_sentBy_append_other (s : Sys) (i j : Nat) (h : i ≠ j) (xs : List Nat) :
    (((s.pushed ++ xs.map (fun x => (i, x))).filter (·.1 == j)).map (·.2)) = s.sentBy j := by
  simp only [Sys.sentBy, List.filter_append, List.map_append]
  have : (xs.map (fun x => (i, x))).filter (·.1 == j) = [] := by
    induction xs with
    | nil => rfl
    | cons x xs ih => simp [List.filter_cons, ih, h]
  simp [this]

theorem aux_init_inv (cfg : Cfg) (cap : Option Nat) (progs : List (List Nat × Bool))
    (limit : Option Nat) (hcap : ∀ k, cap = some k → 0 < k) :
    Inv progs (Sys.init cfg cap progs limit) ∧ LiveInv (Sys.init cfg cap progs limit) := by
  constructor
  · refine ⟨by simp [Sys.init], by simpa [Sys.init, Chan.new] using hcap, by simp [Sys.init, Chan.new],
      by simp [Sys.init, Chan.new, Sys.pushedItems], by simp [Sys.init, Sys.pushedItems], ?_,
      by simp [Sys.init], ?_, ?_, ?_⟩
    · intro i t h
      simp only [Sys.init, List.getElem?_map] at h
      cases hp : progs[i]? with
      | none => simp [hp] at h
      | some p =>
        simp [hp] at h
        exact ⟨p, rfl, by subst h; simp [Sys.sentBy, Sys.init]⟩
    · intro i t h
      simp only [Sys.init, List.getElem?_map] at h
      cases hp : progs[i]? with
      | none => simp [hp] at h
      | some p => simp [hp] at h; subst h; simp
    · intro i t h
      simp only [Sys.init, List.getElem?_map] at h
      cases hp : progs[i]? with
      | none => simp [hp] at h
      | some p => simp [hp] at h; subst h; simp
    · intro _
      simp only [Sys.init, Chan.new, List.countP_map]
      symm
      rw [List.countP_eq_length]
      intro a _; simp
  · constructor
    · intro i t h _
      left
      have hi : i < (Sys.init cfg cap progs limit).snd.length := (List.getElem?_eq_some_iff.mp h).1
      simp only [Sys.init, List.length_map] at hi
      simp only [Sys.init, List.mem_range]
      omega
    · intro _; left; simp [Sys.init, List.mem_range]

theorem aux_mem_woken_keep {woken wakes : List Nat} {t j : Nat} (h : j ∈ woken) (hne : j ≠ t) :
    j ∈ woken.filter (· != t) ++ wakes := by
  simp [List.mem_append, List.mem_filter, h, hne]

/-- a sender poll preserves the invariants -/
theorem aux_pollSend_inv (progs : List (List Nat × Bool)) (s : Sys) (i : Nat) (hI : Inv progs s) :
    Inv progs (s.pollSendTask i) ∧
    (s.cfg.closeWakes = true → LiveInv s → LiveInv (s.pollSendTask i)) := by
  unfold Sys.pollSendTask
  cases hti : s.snd[i]? with
  | none => exact ⟨hI, fun _ h => h⟩
  | some t =>
    simp only
    cases hst : t.st with
    | doneOk => exact ⟨hI, fun _ h => h⟩
    | doneErr => exact ⟨hI, fun _ h => h⟩
    | running =>
      simp only
      have hilt : i < s.snd.length := (List.getElem?_eq_some_iff.mp hti).1
      have hget : s.snd[i] = t := (List.getElem?_eq_some_iff.mp hti).2
      -- lookups in the updated task table
      have hself : ∀ a : STask, (s.snd.set i a)[i]? = some a := fun a => List.getElem?_set_self hilt
      have hother : ∀ (a : STask) (j : Nat), i ≠ j → (s.snd.set i a)[j]? = s.snd[j]? :=
        fun a j h => List.getElem?_set_ne h
      by_cases hcl : s.chan.closed = true
      · -- receiver gone: the task ends, nothing else changes
        obtain ⟨r1, r2, r3, r4, r5, r6⟩ := aux_senderRun_closed s.cfg t.closeFirst (i + 1) s.chan t.todo hcl
        have hrcv : s.rcv.st ≠ .running := hI.closedIff.mp hcl
        rw [r1, r2, r3, r4]
        constructor
        · refine ⟨by simpa using hI.len, hI.capPos, hI.closedIff, fun h => absurd h hrcv,
            by simpa [Sys.pushedItems] using hI.pre, ?_, ?_, ?_, ?_, fun h => by simp [hcl] at h⟩
          · intro j tj hj
            by_cases hij : i = j
            · subst hij
              rw [hself] at hj
              obtain ⟨p, hp1, hp2⟩ := hI.per i t hti
              refine ⟨p, hp1, ?_⟩
              have : tj.todo = t.todo := by cases hj; rfl
              simpa [Sys.sentBy, this] using hp2
            · rw [hother _ j hij] at hj
              simpa [Sys.sentBy] using hI.per j tj hj
          · intro h
            obtain ⟨n1, n2⟩ := hI.noneEnd h
            refine ⟨by simpa [Sys.pushedItems] using n1, ?_⟩
            intro j tj hj
            by_cases hij : i = j
            · subst hij; rw [hself] at hj; cases hj; exact r5
            · rw [hother _ j hij] at hj; exact n2 j tj hj
          · intro j tj hj herr
            by_cases hij : i = j
            · cases hr : s.rcv.st with
              | running => exact absurd hr hrcv
              | doneLimit => rfl
              | doneNone => exact absurd hst ((hI.noneEnd hr).2 i t hti)
            · rw [hother _ j hij] at hj; exact hI.err j tj hj herr
          · intro j tj hj hok
            by_cases hij : i = j
            · subst hij; rw [hself] at hj; cases hj; exact r6 hok
            · rw [hother _ j hij] at hj; exact hI.ok j tj hj hok
        · intro _ hL
          constructor
          · intro j tj hj hrun
            by_cases hij : i = j
            · subst hij; rw [hself] at hj; cases hj; exact absurd hrun r5
            · rw [hother _ j hij] at hj
              rcases hL.sndParked j tj hj hrun with h | h
              · left; exact aux_mem_woken_keep h (by omega)
              · right; exact h
          · intro h; exact absurd h hrcv
      · -- open channel
        have hcl' : s.chan.closed = false := by simpa using hcl
        have hrcv : s.rcv.st = .running := by
          cases h : s.rcv.st with
          | running => rfl
          | doneNone => exact absurd (hI.closedIff.mpr (by simp [h])) hcl
          | doneLimit => exact absurd (hI.closedIff.mpr (by simp [h])) hcl
        have sp := aux_senderRun_open s.cfg t.closeFirst (i + 1) s.chan t.todo hcl'
        generalize senderRun s.cfg t.closeFirst (i + 1) s.chan t.todo = r at sp
        have hpi : (s.pushed ++ r.pushed.map (fun x => (i, x))).map (·.2) = s.pushedItems ++ r.pushed := by
          simp [Sys.pushedItems, List.map_append, List.map_map, Function.comp_def]
        constructor
        · refine ⟨by simpa using hI.len, ?_, ?_, ?_, ?_, ?_, ?_, ?_, ?_, ?_⟩
          · intro k hk; exact hI.capPos k (by rw [← sp.cap]; exact hk)
          · simp only; constructor
            · intro h; rw [sp.closed] at h; cases h
            · intro h; exact absurd hrcv h
          · intro _
            simp only [Sys.pushedItems, hpi]
            rw [sp.buf, ← List.append_assoc, hI.buf hrcv]; rfl
          · simp only [Sys.pushedItems, hpi]
            exact List.IsPrefix.trans hI.pre (List.prefix_append _ _)
          · intro j tj hj
            by_cases hij : i = j
            · subst hij
              rw [hself] at hj
              obtain ⟨p, hp1, hp2⟩ := hI.per i t hti
              refine ⟨p, hp1, ?_⟩
              have htj : tj.todo = r.todo := by cases hj; rfl
              simp only [Sys.sentBy]
              rw [aux_sentBy_append_self, htj, List.append_assoc, sp.split]; exact hp2
            · rw [hother _ j hij] at hj
              obtain ⟨p, hp1, hp2⟩ := hI.per j tj hj
              refine ⟨p, hp1, ?_⟩
              simp only [Sys.sentBy]
              rw [aux_sentBy_append_other s i j hij]; exact hp2
          · intro h; simp only at h; rw [hrcv] at h; cases h
          · intro j tj hj herr
            by_cases hij : i = j
            · subst hij; rw [hself] at hj; cases hj; exact absurd herr sp.notErr
            · rw [hother _ j hij] at hj; exact hI.err j tj hj herr
          · intro j tj hj hok
            by_cases hij : i = j
            · subst hij; rw [hself] at hj; cases hj; exact (sp.ok hok).1
            · rw [hother _ j hij] at hj; exact hI.ok j tj hj hok
          · intro _
            simp only
            rw [List.countP_set hilt, hget]
            simp only [hst, beq_self_eq_true, if_true]
            have hw := hI.weak hcl'
            cases hrs : r.st with
            | running =>
              have hpos : 0 < s.snd.countP (fun t => t.st == .running) := by
                rw [List.countP_pos_iff]; exact ⟨t, List.mem_of_getElem? hti, by simp [hst]⟩
              simp
              rw [(sp.run hrs).2.2, hw]
              omega
            | doneOk =>
              simp
              rw [(sp.ok hrs).2, hw]
            | doneErr => exact absurd hrs sp.notErr
        · intro hcw hL
          constructor
          · intro j tj hj hrun
            by_cases hij : i = j
            · subst hij; rw [hself] at hj; cases hj
              right; exact ⟨(sp.run hrun).1, (sp.run hrun).2.1, sp.closed⟩
            · rw [hother _ j hij] at hj
              rcases hL.sndParked j tj hj hrun with h | ⟨h1, h2, _⟩
              · left; exact aux_mem_woken_keep h (by omega)
              · right
                refine ⟨sp.wakers _ h1, aux_isFull_mono sp.cap ?_ h2, sp.closed⟩
                rw [sp.buf]; simp
          · intro _
            rcases hL.rcvParked hrcv with h | ⟨h1, h2, h3⟩
            · left; exact aux_mem_woken_keep h (by omega)
            · by_cases hn : r.chan.recvWaker = none
              · left
                simp only [List.mem_append]
                exact Or.inr (sp.rwWoken 0 h1 hn)
              · right
                obtain ⟨k1, k2⟩ := sp.rwKept hn
                have hkeep : r.chan.recvWaker = some 0 := by
                  rcases sp.rw with h | ⟨h, _⟩
                  · exact absurd h hn
                  · rw [h, h1]
                rcases k2 with k2 | k2
                · exact ⟨hkeep, by rw [sp.buf, h2, k1]; rfl, by rw [(sp.run k2).2.2]; exact h3⟩
                · exact absurd (sp.okWakes hcw k2) hn

/-- a receiver poll preserves the invariants -/
theorem aux_pollRecv_inv (progs : List (List Nat × Bool)) (s : Sys) (hI : Inv progs s) :
    Inv progs s.pollRecvTask ∧
    (s.cfg.recvWakesAll = true → LiveInv s → LiveInv s.pollRecvTask) := by
  unfold Sys.pollRecvTask
  cases hst : s.rcv.st with
  | doneNone => exact ⟨hI, fun _ h => h⟩
  | doneLimit => exact ⟨hI, fun _ h => h⟩
  | running =>
    simp only
    have hcl : s.chan.closed = false := by
      cases h : s.chan.closed with
      | false => rfl
      | true => exact absurd hst (hI.closedIff.mp h)
    have rp := aux_recvRun_open s.cfg 0 (s.chan.buffer.length + 1) s.chan s.rcv.limit s.rcv.got hcl (by omega)
    generalize recvRun s.cfg 0 (s.chan.buffer.length + 1) s.chan s.rcv.limit s.rcv.got = r at rp
    obtain ⟨tk, t1, t2, t3, t4⟩ := rp.taken
    have hbuf := hI.buf hst
    constructor
    · refine ⟨hI.len, ?_, ?_, ?_, ?_, hI.per, ?_, ?_, hI.ok, ?_⟩
      · intro k hk
        by_cases hr : r.st = .running
        · exact hI.capPos k (by rw [← (rp.run hr).2.2.2.2.2]; exact hk)
        · simp only at hk; rw [(rp.done hr).2.2.2.1] at hk; cases hk
      · simp only; constructor
        · intro h hr; rw [(rp.run hr).2.2.2.1] at h; cases h
        · intro h; exact (rp.done h).1
      · intro hr
        simp only at hr ⊢
        rw [t1, t3 hr, (rp.run hr).2.1, List.append_nil]; exact hbuf
      · simp only [Sys.pushedItems] at hbuf ⊢
        rw [t1, ← hbuf]
        exact (List.prefix_append_right_inj _).mpr t2
      · intro hr
        simp only at hr ⊢
        refine ⟨by rw [t1, t4 hr]; exact hbuf, ?_⟩
        intro j tj hj hrun
        have hw := hI.weak hcl
        rw [rp.none hr] at hw
        have := (List.countP_eq_zero.mp hw.symm) tj (List.mem_of_getElem? hj)
        simp [hrun] at this
      · intro j tj hj herr; have := hI.err j tj hj herr; rw [hst] at this; cases this
      · intro h
        simp only at h ⊢
        by_cases hr : r.st = .running
        · rw [(rp.run hr).2.2.2.2.1]; exact hI.weak hcl
        · rw [(rp.done hr).1] at h; cases h
    · intro hwa hL
      constructor
      · intro j tj hj hrun
        rcases hL.sndParked j tj hj hrun with h | ⟨h1, h2, _⟩
        · left; exact aux_mem_woken_keep h (by omega)
        · left
          simp only [List.mem_append]
          exact Or.inr (rp.wakesAll hwa (Or.inl (aux_isFull_nonempty hI.capPos h2)) _ h1)
      · intro hr
        simp only at hr
        right
        exact ⟨(rp.run hr).1, (rp.run hr).2.1, (rp.run hr).2.2.1⟩

theorem aux_poll_cfg (s : Sys) (t : Nat) : (s.poll t).cfg = s.cfg := by
  cases t with
  | zero =>
    simp only [Sys.poll, Sys.pollRecvTask]; split <;> rfl
  | succ i =>
    simp only [Sys.poll, Sys.pollSendTask]
    split
    · split <;> rfl
    · rfl

theorem aux_run_cfg (s : Sys) (sched : List Nat) : (s.run sched).cfg = s.cfg := by
  induction sched generalizing s with
  | nil => rfl
  | cons t ts ih => simp only [Sys.run, List.foldl_cons] at ih ⊢; rw [ih, aux_poll_cfg]

theorem aux_poll_inv (progs : List (List Nat × Bool)) (s : Sys) (t : Nat) (hI : Inv progs s) :
    Inv progs (s.poll t) ∧
    (s.cfg.recvWakesAll = true → s.cfg.closeWakes = true → LiveInv s → LiveInv (s.poll t)) := by
  cases t with
  | zero => exact ⟨(aux_pollRecv_inv progs s hI).1, fun h _ => (aux_pollRecv_inv progs s hI).2 h⟩
  | succ i => exact ⟨(aux_pollSend_inv progs s i hI).1, fun _ h => (aux_pollSend_inv progs s i hI).2 h⟩

theorem aux_run_inv (progs : List (List Nat × Bool)) (s : Sys) (sched : List Nat) (hI : Inv progs s) :
    Inv progs (s.run sched) ∧
    (s.cfg.recvWakesAll = true → s.cfg.closeWakes = true → LiveInv s → LiveInv (s.run sched)) := by
  induction sched generalizing s with
  | nil => exact ⟨hI, fun _ _ h => h⟩
  | cons t ts ih =>
    simp only [Sys.run, List.foldl_cons] at ih ⊢
    have h1 := aux_poll_inv progs s t hI
    have h2 := ih (s.poll t) h1.1
    refine ⟨h2.1, fun a b hL => h2.2 (by rw [aux_poll_cfg]; exact a) (by rw [aux_poll_cfg]; exact b) (h1.2 a b hL)⟩


theorem aux_recvRun_limNone (cfg : Cfg) (w fuel : Nat) (c : Chan) (got : List Nat) :
    (recvRun cfg w fuel c none got).limit = none ∧ (recvRun cfg w fuel c none got).st ≠ .doneLimit := by
  induction fuel generalizing c got with
  | zero => simp [recvRun]
  | succ fuel ih =>
    simp only [recvRun]
    split
    · rename_i h; simp at h
    · split
      · simp
      · simp
      · simpa using ih _ _

theorem aux_run_limNone (s : Sys) (sched : List Nat) (h1 : s.rcv.limit = none)
    (h2 : s.rcv.st ≠ .doneLimit) :
    (s.run sched).rcv.limit = none ∧ (s.run sched).rcv.st ≠ .doneLimit := by
  induction sched generalizing s with
  | nil => exact ⟨h1, h2⟩
  | cons t ts ih =>
    simp only [Sys.run, List.foldl_cons] at ih ⊢
    apply ih
    · cases t with
      | zero =>
        simp only [Sys.poll, Sys.pollRecvTask]
        split
        · simp only; rw [h1]; exact (aux_recvRun_limNone _ _ _ _ _).1
        · exact h1
      | succ i =>
        simp only [Sys.poll, Sys.pollSendTask]
        split
        · split <;> exact h1
        · exact h1
    · cases t with
      | zero =>
        simp only [Sys.poll, Sys.pollRecvTask]
        split
        · simp only; rw [h1]; exact (aux_recvRun_limNone _ _ _ _ _).2
        · exact h2
      | succ i =>
        simp only [Sys.poll, Sys.pollSendTask]
        split
        · split <;> exact h2
        · exact h2

/-! ## Property theorems

`R cfg cap progs limit sched` is the state reached from the initial system by the schedule
`sched`.  All theorems quantify over every capacity (`none` = unbounded, `some k` with `k > 0`
as `NonZeroUsize` demands), all sender programs, every receive limit and every schedule. -/

/-- the state after running `sched` -/
def R (cfg : Cfg) (cap : Option Nat) (progs : List (List Nat × Bool)) (limit : Option Nat)
    (sched : List Nat) : Sys := (Sys.init cfg cap progs limit).run sched

/-- `Option<NonZeroUsize>` -/
def CapOk (cap : Option Nat) : Prop := ∀ k, cap = some k → 0 < k

variable (cfg : Cfg) (cap : Option Nat) (progs : List (List Nat × Bool)) (limit : Option Nat)
  (sched : List Nat)

theorem aux_reach (hcap : CapOk cap) : Inv progs (R cfg cap progs limit sched) :=
  (aux_run_inv progs _ sched (aux_init_inv cfg cap progs limit hcap).1).1

/-- FIFO and exactly-once: at every point of every schedule the received sequence is a prefix
of the global push order (so nothing is reordered, duplicated or invented). -/
theorem fifo (hcap : CapOk cap) :
    (R cfg cap progs limit sched).rcv.got <+: (R cfg cap progs limit sched).pushedItems :=
  (aux_reach cfg cap progs limit sched hcap).pre

/-- Lossless: while the receiver lives, every pushed item is either already received or still
queued, in push order — `received ++ buffer = pushed`. -/
theorem lossless_exactly_once (hcap : CapOk cap)
    (h : (R cfg cap progs limit sched).rcv.st = .running) :
    (R cfg cap progs limit sched).rcv.got ++ (R cfg cap progs limit sched).chan.buffer =
      (R cfg cap progs limit sched).pushedItems :=
  (aux_reach cfg cap progs limit sched hcap).buf h

/-- Each sender's pushes are exactly the prefix of its program it has worked off, in order. -/
theorem per_sender_order (hcap : CapOk cap) (i : Nat) (t : STask)
    (h : (R cfg cap progs limit sched).snd[i]? = some t) :
    ∃ p, progs[i]? = some p ∧ (R cfg cap progs limit sched).sentBy i ++ t.todo = p.1 :=
  (aux_reach cfg cap progs limit sched hcap).per i t h

/-- Closure is reported consistently to both sides:
 * the channel is closed exactly when the receiver task has ended;
 * the receiver sees `None` only when every sender is gone, and then it has received everything
   that was ever pushed;
 * a sender sees `Err` only after the receiver dropped its end (by reaching its limit);
 * a sender that finished `Ok` has pushed its whole program. -/
theorem closure_consistent (hcap : CapOk cap) :
    let s := R cfg cap progs limit sched
    (s.chan.closed = true ↔ s.rcv.st ≠ .running) ∧
    (s.rcv.st = .doneNone → s.rcv.got = s.pushedItems ∧
      ∀ (i : Nat) (t : STask), s.snd[i]? = some t → t.st ≠ .running) ∧
    (∀ (i : Nat) (t : STask), s.snd[i]? = some t → t.st = .doneErr → s.rcv.st = .doneLimit) ∧
    (∀ (i : Nat) (t : STask), s.snd[i]? = some t → t.st = .doneOk → t.todo = []) := by
  have h := aux_reach cfg cap progs limit sched hcap
  exact ⟨h.closedIff, h.noneEnd, h.err, h.ok⟩

/-- After the receiver is gone no sender ever waits: its next poll finishes the task. -/
theorem closed_sender_finishes (hcap : CapOk cap) (i : Nat)
    (h : (R cfg cap progs limit sched).rcv.st ≠ .running) :
    ((R cfg cap progs limit sched).poll (i + 1)).done (i + 1) = true := by
  have hI := aux_reach cfg cap progs limit sched hcap
  generalize R cfg cap progs limit sched = s at *
  have hcl := hI.closedIff.mpr h
  simp only [Sys.poll, Sys.pollSendTask, Sys.done]
  cases hti : s.snd[i]? with
  | none => simp [hti]
  | some t =>
    have hilt : i < s.snd.length := (List.getElem?_eq_some_iff.mp hti).1
    cases hst : t.st with
    | doneOk => simp [hti, hst]
    | doneErr => simp [hti, hst]
    | running =>
      have := (aux_senderRun_closed s.cfg t.closeFirst (i + 1) s.chan t.todo hcl).2.2.2.2.1
      simp [hst, List.getElem?_set_self hilt, this]

theorem aux_reach_live (hcap : CapOk cap) : LiveInv (R Cfg.current cap progs limit sched) :=
  (aux_run_inv progs _ sched (aux_init_inv Cfg.current cap progs limit hcap).1).2 rfl rfl
    (aux_init_inv Cfg.current cap progs limit hcap).2

/-- **NoStrandedSender** (the code as it is now): in every reachable state, a sender task that is
waiting while the channel has room has a wake-up pending — whatever the interleaving, including
repeated polls of the same task while the channel was full. -/
theorem noStrandedSender (hcap : CapOk cap) (i : Nat) (t : STask)
    (h : (R Cfg.current cap progs limit sched).snd[i]? = some t) (hrun : t.st = .running)
    (hroom : (R Cfg.current cap progs limit sched).chan.isFull = false) :
    (i + 1) ∈ (R Cfg.current cap progs limit sched).woken := by
  rcases (aux_reach_live cap progs limit sched hcap).sndParked i t h hrun with h | ⟨_, h2, _⟩
  · exact h
  · rw [hroom] at h2; cases h2

/-- **NoStrandedReceiver**: a waiting receiver has a wake-up pending whenever there is something
for it to do (an item is queued, or every sender is gone). -/
theorem noStrandedReceiver (hcap : CapOk cap)
    (hrun : (R Cfg.current cap progs limit sched).rcv.st = .running)
    (hwork : (R Cfg.current cap progs limit sched).chan.buffer ≠ [] ∨
      ∀ (i : Nat) (t : STask), (R Cfg.current cap progs limit sched).snd[i]? = some t → t.st ≠ .running) :
    0 ∈ (R Cfg.current cap progs limit sched).woken := by
  have hI := aux_reach Cfg.current cap progs limit sched hcap
  rcases (aux_reach_live cap progs limit sched hcap).rcvParked hrun with h | ⟨_, h2, h3⟩
  · exact h
  · rcases hwork with hw | hw
    · exact absurd h2 hw
    · have hcl : (R Cfg.current cap progs limit sched).chan.closed = false := by
        cases hc : (R Cfg.current cap progs limit sched).chan.closed with
        | false => rfl
        | true => exact absurd hrun (hI.closedIff.mp hc)
      have hw0 := hI.weak hcl
      have : (R Cfg.current cap progs limit sched).snd.countP (fun t => t.st == .running) = 0 := by
        rw [List.countP_eq_zero]
        intro a ha
        obtain ⟨j, hj, hja⟩ := List.getElem_of_mem ha
        have := hw j a (by rw [List.getElem?_eq_some_iff]; exact ⟨hj, hja⟩)
        simpa using this
      omega

/-- **No deadlock**: when the executor's run queue is empty (no unfinished task has a wake-up
pending) every task has finished. -/
theorem quiescent_all_done (hcap : CapOk cap)
    (hq : (R Cfg.current cap progs limit sched).runnable = []) :
    ∀ t, (R Cfg.current cap progs limit sched).done t = true := by
  have hI := aux_reach Cfg.current cap progs limit sched hcap
  have hL := aux_reach_live cap progs limit sched hcap
  generalize R Cfg.current cap progs limit sched = s at *
  -- a task that is not finished is not in the wake set
  have hnot : ∀ t, t < s.snd.length + 1 → s.done t = false → t ∉ s.woken := by
    intro t ht hd hw
    have : t ∈ s.runnable := by
      simp only [Sys.runnable, List.mem_filter, List.mem_range]
      exact ⟨ht, by simp [hw, hd]⟩
    rw [hq] at this; cases this
  -- every sender is finished
  have hsnd : ∀ (i : Nat) (t : STask), s.snd[i]? = some t → t.st ≠ .running := by
    intro i t hti hrun
    have hilt : i < s.snd.length := (List.getElem?_eq_some_iff.mp hti).1
    have hd : s.done (i + 1) = false := by simp [Sys.done, hti, hrun]
    rcases hL.sndParked i t hti hrun with h | ⟨_, hfull, hcl⟩
    · exact hnot (i + 1) (by omega) hd h
    · -- the channel is full, so the receiver (alive, since open) must be runnable
      have hr : s.rcv.st = .running := by
        cases hr : s.rcv.st with
        | running => rfl
        | doneNone => have := hI.closedIff.mpr (by simp [hr]); simp [hcl] at this
        | doneLimit => have := hI.closedIff.mpr (by simp [hr]); simp [hcl] at this
      rcases hL.rcvParked hr with h | ⟨_, hb, _⟩
      · exact hnot 0 (by omega) (by simp [Sys.done, hr]) h
      · exact aux_isFull_nonempty hI.capPos hfull hb
  intro t
  cases t with
  | zero =>
    cases hr : s.rcv.st with
    | doneNone => simp [Sys.done, hr]
    | doneLimit => simp [Sys.done, hr]
    | running =>
      exfalso
      have hcl : s.chan.closed = false := by
        cases hc : s.chan.closed with
        | false => rfl
        | true => exact absurd hr (hI.closedIff.mp hc)
      rcases hL.rcvParked hr with h | ⟨_, _, h3⟩
      · exact hnot 0 (by omega) (by simp [Sys.done, hr]) h
      · have hw0 := hI.weak hcl
        have : s.snd.countP (fun t => t.st == .running) = 0 := by
          rw [List.countP_eq_zero]
          intro a ha
          obtain ⟨j, hj, hja⟩ := List.getElem_of_mem ha
          have := hsnd j a (by rw [List.getElem?_eq_some_iff]; exact ⟨hj, hja⟩)
          simpa using this
        omega
  | succ i =>
    simp only [Sys.done]
    cases hti : s.snd[i]? with
    | none => rfl
    | some t => have := hsnd i t hti; cases hst : t.st <;> simp_all

/-- **Everything arrives**: with a receiver that keeps receiving (no limit), once the run queue
is empty the receiver has got every item of every sender program, each sender's items in
program order (as a sub-sequence of the FIFO push order). -/
theorem delivered_all_at_quiescence (hcap : CapOk cap)
    (hq : (R Cfg.current cap progs none sched).runnable = []) :
    (R Cfg.current cap progs none sched).rcv.got = (R Cfg.current cap progs none sched).pushedItems ∧
    ∀ (i : Nat) (p : List Nat × Bool), progs[i]? = some p →
      (R Cfg.current cap progs none sched).sentBy i = p.1 := by
  have hI := aux_reach Cfg.current cap progs none sched hcap
  have hdone := quiescent_all_done cap progs none sched hcap hq
  have hlim : (R Cfg.current cap progs none sched).rcv.limit = none ∧
      (R Cfg.current cap progs none sched).rcv.st ≠ .doneLimit :=
    aux_run_limNone (Sys.init Cfg.current cap progs none) sched rfl (by simp [Sys.init])
  generalize R Cfg.current cap progs none sched = s at *
  have hnone : s.rcv.st = .doneNone := by
    have := hdone 0
    cases hr : s.rcv.st with
    | doneNone => rfl
    | running => simp [Sys.done, hr] at this
    | doneLimit => exact absurd hr hlim.2
  refine ⟨(hI.noneEnd hnone).1, ?_⟩
  intro i p hp
  have hilt : i < s.snd.length := by
    rw [hI.len]; exact (List.getElem?_eq_some_iff.mp hp).1
  have hti : s.snd[i]? = some s.snd[i] := List.getElem?_eq_getElem hilt
  obtain ⟨p', hp1, hp2⟩ := hI.per i _ hti
  rw [hp] at hp1; cases hp1
  have hst : s.snd[i].st = .doneOk := by
    cases h : s.snd[i].st with
    | doneOk => rfl
    | running => exact absurd h ((hI.noneEnd hnone).2 i _ hti)
    | doneErr => have := hI.err i _ hti h; rw [hnone] at this; cases this
  rw [hI.ok i _ hti hst, List.append_nil] at hp2
  exact hp2

/-! ### the defects that were repaired (F6, F6b): refuted on the code before the fix -/

/-- bounded(1); B = sender 0 sends 1 then 20, A = sender 1 sends 10.  B parks, A parks and is
polled once more while full (stale waker); the receiver takes 1 (wakes A), A sends 10 and
finishes, the receiver takes 10 (the wake-up goes to A's stale waker) and parks. -/
def f6Sched : List Nat := [1, 2, 2, 0, 2, 0]
def f6Progs : List (List Nat × Bool) := [([1, 20], false), ([10], false)]

/-- F6: with `poll_recv` waking only the most recent waker (the code before the fix), sender 0
is stranded: unfinished, the channel has room, the receiver waits, the run queue is empty. -/
theorem noStrandedSender_refuted_before_fix :
    let s := R ⟨false, true⟩ (some 1) f6Progs none f6Sched
    s.runnable = [] ∧ s.done 1 = false ∧ s.done 0 = false ∧ s.chan.isFull = false ∧
      1 ∉ s.woken ∧ s.rcv.got = [1, 10] := by
  decide

/-- F6b: with `close_this_sender` not waking the receiver (the code before the fix), a receiver
that waits on an empty channel never learns that the last sender closed. -/
theorem noStrandedReceiver_refuted_before_fix :
    let s := R ⟨true, false⟩ (some 1) [([], true)] none [0, 1]
    s.runnable = [] ∧ s.done 0 = false ∧ s.done 1 = true ∧ s.chan.weak = 0 := by
  decide

/-! ### non-vacuity: concrete runs of the current code -/

/-- the F6 schedule on the repaired code: nobody is stranded, two more polls deliver everything -/
example :
    (R Cfg.current (some 1) f6Progs none (f6Sched ++ [1, 0])).rcv.got = [1, 10, 20] ∧
    (R Cfg.current (some 1) f6Progs none (f6Sched ++ [1, 0])).runnable = [] ∧
    (R Cfg.current (some 1) f6Progs none f6Sched).runnable = [1] := by
  decide

example : (R Cfg.current (some 1) [([], true)] none [0, 1]).runnable = [0] := by decide

example : CapOk (some 1) := by intro k h; cases h; decide

/-- a sender error after the receiver reached its limit -/
example :
    ((R Cfg.current (some 1) [([1, 2, 3], false)] (some 1) [1, 0, 1]).snd[0]?.map (·.st)) = some .doneErr := by
  decide

end HvSink.Chan
