/-
C15 — Merged network sources keep per-sender order and lose nothing.

The concrete model `MS.pollNext` (cursor arithmetic, deferred removal, `retain` fix-up) is shown
to refine a queue semantics `qpoll` on the sources *in polling order* (the source list rotated
so that the cursor comes first): one call scans the queue from the front, drops ended sources,
moves the scanned pending sources and the served source to the back.  All property theorems
are then proved on the queue semantics and transferred.  Everything is for all scripts
(arbitrary ready / pending / end patterns), any number of sources, any number of polls.
-/
import HvSink.Model.Merge
import Mathlib.Data.List.Rotate
import Mathlib.Data.List.Perm.Subperm

namespace HvSink.Merge
open List

variable {α : Type}

/-! ### queue semantics -/

/-- scan the queue `U` from the front; `acc` = scanned sources that stay (in order) -/
def scan : List (Src α) → List (Src α) → List (Src α) × Option (Nat × α) × List Nat
  | [], acc => (acc, none, [])
  | s :: rest, acc =>
    match s.poll with
    | (s', .item x) => (rest ++ acc ++ [s'], some (s.id, x), [s.id])
    | (s', .pending) => let r := scan rest (acc ++ [s']); (r.1, r.2.1, s.id :: r.2.2)
    | (_, .ended) => let r := scan rest acc; (r.1, r.2.1, s.id :: r.2.2)

/-- one `poll_next` on the queue: new queue, output, ids polled -/
def qpoll (q : List (Src α)) : List (Src α) × Out α × List Nat :=
  let r := scan q []
  (r.1, outOf r.1 r.2.1, r.2.2)

def qrun (q : List (Src α)) : Nat → List (Out α)
  | 0 => []
  | n + 1 => (qpoll q).2.1 :: qrun (qpoll q).1 n

def qafter (q : List (Src α)) : Nat → List (Src α)
  | 0 => q
  | n + 1 => qafter (qpoll q).1 n

/-! ### index arithmetic -/

theorem aux_mod_eq (c j n : Nat) (hc : c < n) (hj : j ≤ n) :
    (c + j) % n = if c + j < n then c + j else c + j - n := by
  split
  · exact Nat.mod_eq_of_lt ‹_›
  · rw [Nat.mod_eq_sub_mod (by omega)]; exact Nat.mod_eq_of_lt (by omega)

theorem aux_wrap_iff (c j n : Nat) (hc : c < n) (hj0 : 0 < j) (hj : j ≤ n) :
    (c + j) % n = c ↔ j = n := by
  rw [aux_mod_eq c j n hc hj]; split <;> omega

theorem aux_rotate_set {β : Type} (L : List β) (c k : Nat) (v : β) (hc : c < L.length)
    (hk : k < L.length) :
    (L.set ((c + k) % L.length) v).rotate c = (L.rotate c).set k v := by
  apply List.ext_getElem?
  intro i
  by_cases hi : i < L.length
  · rw [List.getElem?_rotate (by simpa using hi), List.length_set, List.getElem?_set,
      List.getElem?_set, List.getElem?_rotate hi, List.length_rotate]
    have hiff : ((c + k) % L.length = (i + c) % L.length) ↔ k = i := by
      rw [aux_mod_eq c k _ hc (by omega), Nat.add_comm i c, aux_mod_eq c i _ hc (by omega)]
      split <;> split <;> omega
    have hlt : (c + k) % L.length < L.length := Nat.mod_lt _ (by omega)
    by_cases hki : k = i
    · subst hki
      have e : (k + c) % L.length = (c + k) % L.length := by rw [Nat.add_comm]
      simp [e, hlt, hi]
    · have : ¬ ((c + k) % L.length = (i + c) % L.length) := fun h => hki (hiff.mp h)
      simp [this, hki]
  · have h1 : ((L.set ((c + k) % L.length) v).rotate c).length ≤ i := by simp; omega
    have h2 : ((L.rotate c).set k v).length ≤ i := by simp; omega
    rw [List.getElem?_eq_none h1, List.getElem?_eq_none h2]

/-- `retain` + cursor fix-up = rotation of the compacted list -/
theorem aux_compact_rotate (L : List (Option (Src α))) (oc : Nat) (hoc : oc ≤ L.length) :
    (L.filterMap id).rotate (oc - ((L.take oc).filter Option.isNone).length) =
      (L.rotate oc).filterMap id ∧
    oc - ((L.take oc).filter Option.isNone).length = ((L.take oc).filterMap id).length := by
  have hcount : ∀ (M : List (Option (Src α))),
      (M.filter Option.isNone).length + (M.filterMap id).length = M.length := by
    intro M
    induction M with
    | nil => rfl
    | cons a M ih => cases a <;> simp_all [List.filter_cons, List.filterMap_cons] <;> omega
  have h2 : oc - ((L.take oc).filter Option.isNone).length = ((L.take oc).filterMap id).length := by
    have := hcount (L.take oc)
    rw [List.length_take, Nat.min_eq_left hoc] at this
    omega
  refine ⟨?_, h2⟩
  have hsplit : L.filterMap id = (L.take oc).filterMap id ++ (L.drop oc).filterMap id := by
    rw [← List.filterMap_append, List.take_append_drop]
  rw [h2, List.rotate_eq_drop_append_take hoc, List.filterMap_append, hsplit]
  exact List.rotate_append_length_eq _ _

/-! ### the loop refines the scan -/

theorem aux_loop (c0 n : Nat) (hc0 : c0 < n) :
    ∀ (U : List (Src α)) (P : List (Option (Src α))) (fuel : Nat) (st : LoopSt α),
      st.slots.length = n →
      st.slots.rotate c0 = P ++ U.map some →
      U ≠ [] →
      st.cursor = (c0 + P.length) % n →
      st.out = none → st.panicked = false →
      (none ∈ st.slots → st.anyRemoved = true) →
      U.length ≤ fuel →
      (loop c0 fuel st).panicked = false ∧
      (loop c0 fuel st).polled = st.polled ++ (scan U (P.filterMap id)).2.2 ∧
      (loop c0 fuel st).out = (scan U (P.filterMap id)).2.1 ∧
      (loop c0 fuel st).slots.length = n ∧
      (loop c0 fuel st).cursor < n ∧
      ((loop c0 fuel st).slots.rotate (loop c0 fuel st).cursor).filterMap id =
        (scan U (P.filterMap id)).1 ∧
      (none ∈ (loop c0 fuel st).slots → (loop c0 fuel st).anyRemoved = true) := by
  intro U
  induction U with
  | nil => intro P fuel st _ _ h; exact absurd rfl h
  | cons s U' ih =>
    intro P fuel st hlen hrot _ hcur hout hpan hrem hfuel
    have hPU : P.length + (U'.length + 1) = n := by
      have := congrArg List.length hrot
      simp only [List.length_rotate, List.length_append, List.length_map, List.length_cons] at this
      omega
    have hk : P.length < n := by omega
    obtain ⟨fuel', rfl⟩ : ∃ f, fuel = f + 1 := ⟨fuel - 1, by simp at hfuel; omega⟩
    -- the slot under the cursor is `some s`
    have hget : st.slots[st.cursor]? = some (some s) := by
      rw [hcur]
      have h1 : (st.slots.rotate c0)[P.length]? = st.slots[(P.length + c0) % st.slots.length]? :=
        List.getElem?_rotate (by omega)
      rw [hlen, Nat.add_comm] at h1
      rw [← h1, hrot, List.getElem?_append_right (Nat.le_refl _)]
      simp
    -- next cursor
    have hcur' : (st.cursor + 1) % st.slots.length = (c0 + (P.length + 1)) % n := by
      rw [hcur, hlen, Nat.mod_add_mod, Nat.add_assoc]
    -- slots after writing `v` under the cursor, seen in polling order
    have hset : ∀ v : Option (Src α),
        (st.slots.set st.cursor v).rotate c0 = P ++ v :: U'.map some := by
      intro v
      have := aux_rotate_set st.slots c0 P.length v (by omega) (by omega)
      rw [hlen] at this
      rw [hcur, this, hrot, List.set_append]
      simp
    -- the wrap test
    have hwrap : ((c0 + (P.length + 1)) % n = c0) ↔ U' = [] := by
      rw [aux_wrap_iff c0 (P.length + 1) n hc0 (by omega) (by omega)]
      constructor
      · intro h; exact List.eq_nil_of_length_eq_zero (by omega)
      · intro h; subst h; simp at hPU; omega
    have hmemset : ∀ (w : Src α), none ∈ st.slots.set st.cursor (some w) → st.anyRemoved = true := by
      intro w h
      rcases List.mem_or_eq_of_mem_set h with h | h
      · exact hrem h
      · cases h
    rcases hp : s.poll with ⟨s', r⟩
    cases r with
    | item x =>
      have hl : loop c0 (fuel' + 1) st =
          { st with slots := st.slots.set st.cursor (some s'),
                    cursor := (st.cursor + 1) % st.slots.length,
                    out := some (s.id, x), polled := st.polled ++ [s.id] } := by
        simp [loop, hget, hp]
      have hs : scan (s :: U') (P.filterMap id) =
          (U' ++ P.filterMap id ++ [s'], some (s.id, x), [s.id]) := by
        simp [scan, hp]
      rw [hl, hs]
      refine ⟨hpan, rfl, rfl, by simp [hlen], by simp only; rw [hlen]; exact Nat.mod_lt _ (by omega), ?_, ?_⟩
      · simp only
        rw [hcur']
        have hl' : (st.slots.set st.cursor (some s')).length = n := by simp [hlen]
        rw [← hl', List.rotate_mod, ← List.rotate_rotate, hset]
        have : P ++ some s' :: U'.map some = (P ++ [some s']) ++ U'.map some := by simp
        rw [this]
        have hlen2 : (P ++ [some s']).length = P.length + 1 := by simp
        rw [← hlen2, List.rotate_append_length_eq]
        simp [List.filterMap_append, List.filterMap_map]
      · intro h; exact hmemset s' h
    | pending =>
      let st' : LoopSt α := { st with slots := st.slots.set st.cursor (some s'),
                                      cursor := (st.cursor + 1) % st.slots.length,
                                      polled := st.polled ++ [s.id] }
      have hs : scan (s :: U') (P.filterMap id) =
          ((scan U' (P.filterMap id ++ [s'])).1, (scan U' (P.filterMap id ++ [s'])).2.1,
            s.id :: (scan U' (P.filterMap id ++ [s'])).2.2) := by
        simp [scan, hp]
      by_cases hU : U' = []
      · have hl : loop c0 (fuel' + 1) st = st' := by
          have : ((st.cursor + 1) % st.slots.length == c0) = true := by
            rw [hcur']; simpa using hwrap.mpr hU
          simp [loop, hget, hp, this, st']
        rw [hl, hs]; subst hU
        refine ⟨hpan, by simp [st', scan], by simp [st', scan, hout], by simp [st', hlen], ?_, ?_, ?_⟩
        · simp only [st']; rw [hlen]; exact Nat.mod_lt _ (by omega)
        · simp only [st', scan]
          rw [hcur', hwrap.mpr rfl, hset]
          simp [List.filterMap_append]
        · intro h; exact hmemset s' h
      · have hl : loop c0 (fuel' + 1) st = loop c0 fuel' st' := by
          have : ((st.cursor + 1) % st.slots.length == c0) = false := by
            rw [hcur']; simpa using fun h => hU (hwrap.mp h)
          simp [loop, hget, hp, this, st']
        have := ih (P ++ [some s']) fuel' st' (by simp [st', hlen])
          (by simp only [st']; rw [hset]; simp) hU
          (by simp only [st']; rw [hcur']; simp)
          hout hpan (fun h => hmemset s' h) (by simp at hfuel; omega)
        rw [hl, hs]
        have hacc : (P ++ [some s']).filterMap id = P.filterMap id ++ [s'] := by
          simp [List.filterMap_append]
        rw [hacc] at this
        obtain ⟨a, b, c, d, e, f, g⟩ := this
        exact ⟨a, by rw [b]; simp [st'], c, d, e, f, g⟩
    | ended =>
      let st' : LoopSt α := { st with slots := st.slots.set st.cursor none,
                                      cursor := (st.cursor + 1) % st.slots.length,
                                      anyRemoved := true,
                                      polled := st.polled ++ [s.id] }
      have hs : scan (s :: U') (P.filterMap id) =
          ((scan U' (P.filterMap id)).1, (scan U' (P.filterMap id)).2.1,
            s.id :: (scan U' (P.filterMap id)).2.2) := by
        simp [scan, hp]
      by_cases hU : U' = []
      · have hl : loop c0 (fuel' + 1) st = st' := by
          have : ((st.cursor + 1) % st.slots.length == c0) = true := by
            rw [hcur']; simpa using hwrap.mpr hU
          simp [loop, hget, hp, this, st']
        rw [hl, hs]; subst hU
        refine ⟨hpan, by simp [st', scan], by simp [st', scan, hout], by simp [st', hlen], ?_, ?_, ?_⟩
        · simp only [st']; rw [hlen]; exact Nat.mod_lt _ (by omega)
        · simp only [st', scan]
          rw [hcur', hwrap.mpr rfl, hset]
          simp [List.filterMap_append]
        · intro _; rfl
      · have hl : loop c0 (fuel' + 1) st = loop c0 fuel' st' := by
          have : ((st.cursor + 1) % st.slots.length == c0) = false := by
            rw [hcur']; simpa using fun h => hU (hwrap.mp h)
          simp [loop, hget, hp, this, st']
        have := ih (P ++ [none]) fuel' st' (by simp [st', hlen])
          (by simp only [st']; rw [hset]; simp) hU
          (by simp only [st']; rw [hcur']; simp)
          hout hpan (fun _ => rfl) (by simp at hfuel; omega)
        rw [hl, hs]
        have hacc : (P ++ [none]).filterMap id = P.filterMap id := by
          simp [List.filterMap_append]
        rw [hacc] at this
        obtain ⟨a, b, c, d, e, f, g⟩ := this
        exact ⟨a, by rw [b]; simp [st'], c, d, e, f, g⟩

/-- well-formed merge state: what `poll_next` relies on and re-establishes -/
def MS.WF (m : MS α) : Prop := m.cursor < m.sources.length ∨ (m.sources = [] ∧ m.cursor = 0)

/-- the sources in polling order -/
def MS.queue (m : MS α) : List (Src α) := m.sources.rotate m.cursor

/-- **Refinement**: one concrete `poll_next` is one queue step; no panic; `WF` is kept. -/
theorem aux_pollNext_refines (m : MS α) (hwf : m.WF) :
    m.pollNext.ms.queue = (qpoll m.queue).1 ∧ m.pollNext.out = (qpoll m.queue).2.1 ∧
    m.pollNext.polled = (qpoll m.queue).2.2 ∧ m.pollNext.panicked = false ∧ m.pollNext.ms.WF := by
  rcases hwf with hlt | ⟨hnil, hc⟩
  · -- at least one source
    have hne : m.sources ≠ [] := by intro h; simp [h] at hlt
    have hemp : m.sources.isEmpty = false := by simpa using hne
    let st0 : LoopSt α := ⟨m.sources.map some, m.cursor, none, false, [], false⟩
    have hrot0 : st0.slots.rotate m.cursor = [] ++ (m.sources.rotate m.cursor).map some := by
      simp [st0, List.map_rotate]
    have hq : m.sources.rotate m.cursor ≠ [] := by
      intro h; have := congrArg List.length h; simp at this; exact hne this
    have L := aux_loop m.cursor m.sources.length hlt (m.sources.rotate m.cursor) [] m.sources.length st0
      (by simp [st0]) hrot0 hq (by simp [st0, Nat.mod_eq_of_lt hlt]) rfl rfl
      (by intro h; simp [st0] at h) (by simp)
    obtain ⟨l1, l2, l3, l4, l5, l6, l7⟩ := L
    simp only [List.filterMap_nil] at l2 l3 l6
    generalize hst : loop m.cursor m.sources.length st0 = st at l1 l2 l3 l4 l5 l6 l7
    have hpn : m.pollNext = cleanup st := by
      simp only [MS.pollNext, hemp, Bool.false_eq_true, if_false]
      rw [show (⟨m.sources.map some, m.cursor, none, false, [], false⟩ : LoopSt α) = st0 from rfl, hst]
    obtain ⟨c1, c2⟩ := aux_compact_rotate st.slots st.cursor (by omega)
    -- the `if any_removed` guard is immaterial: without removals nothing is `None`
    have hcur1 : (if st.anyRemoved then st.cursor - ((st.slots.take st.cursor).filter Option.isNone).length
        else st.cursor) = st.cursor - ((st.slots.take st.cursor).filter Option.isNone).length := by
      cases har : st.anyRemoved with
      | true => simp
      | false =>
        have hno : none ∉ st.slots := fun h => by simp [l7 h] at har
        have : (st.slots.take st.cursor).filter Option.isNone = [] := by
          rw [List.filter_eq_nil_iff]
          intro a ha
          have ha' := List.mem_of_mem_take ha
          cases a with
          | none => exact absurd ha' hno
          | some _ => simp
        simp [this]
    set c1' := st.cursor - ((st.slots.take st.cursor).filter Option.isNone).length with hc1'
    have hc1le : c1' ≤ (st.slots.filterMap id).length := by
      rw [c2]
      have hsplit : st.slots.filterMap id =
          (st.slots.take st.cursor).filterMap id ++ (st.slots.drop st.cursor).filterMap id := by
        rw [← List.filterMap_append, List.take_append_drop]
      rw [hsplit]; simp
    have hqueue : (st.slots.filterMap id).rotate
        (if c1' == (st.slots.filterMap id).length then 0 else c1') = (scan m.queue []).1 := by
      simp only [MS.queue]
      rw [← l6, ← c1]
      by_cases h : c1' = (st.slots.filterMap id).length
      · have hb : (c1' == (st.slots.filterMap id).length) = true := by simpa using h
        simp only [hb, if_true, List.rotate_zero]
        rw [h, List.rotate_length]
      · have hb : (c1' == (st.slots.filterMap id).length) = false := by simpa using h
        simp only [hb, Bool.false_eq_true, if_false]
    have hsame : (st.slots.filterMap id).isEmpty = (scan (m.sources.rotate m.cursor) []).1.isEmpty := by
      simp only [MS.queue] at hqueue
      rw [Bool.eq_iff_iff, List.isEmpty_iff, List.isEmpty_iff, ← hqueue, List.rotate_eq_nil_iff]
    rw [hpn]
    refine ⟨?_, ?_, ?_, l1, ?_⟩
    · simp only [cleanup, MS.queue, qpoll]
      rw [hcur1]
      simp only [MS.queue] at hqueue
      exact hqueue
    · simp only [cleanup, qpoll, MS.queue]
      rw [l3]
      simp only [outOf, hsame]
    · simp only [cleanup, qpoll, MS.queue]; rw [l2]; simp [st0]
    · simp only [cleanup, MS.WF]
      rw [hcur1]
      by_cases h : c1' = (st.slots.filterMap id).length
      · have hb : (c1' == (st.slots.filterMap id).length) = true := by simpa using h
        simp only [hb, if_true]
        by_cases he : st.slots.filterMap id = []
        · right; exact ⟨he, trivial⟩
        · left; exact List.length_pos_of_ne_nil he
      · left
        have hb : (c1' == (st.slots.filterMap id).length) = false := by simpa using h
        simp only [hb, Bool.false_eq_true, if_false]
        omega
  · -- no source left: `Ready(None)` forever
    have hm : m = ⟨[], 0⟩ := by cases m; simp_all
    subst hm
    simp [MS.pollNext, cleanup, qpoll, scan, outOf, MS.queue, MS.WF]

theorem aux_run_refines (m : MS α) (hwf : m.WF) (n : Nat) :
    m.run n = qrun m.queue n ∧ (m.after n).queue = qafter m.queue n ∧ (m.after n).WF := by
  induction n generalizing m with
  | zero => exact ⟨rfl, rfl, hwf⟩
  | succ n ih =>
    obtain ⟨r1, r2, _, _, r5⟩ := aux_pollNext_refines m hwf
    obtain ⟨i1, i2, i3⟩ := ih m.pollNext.ms r5
    refine ⟨?_, ?_, i3⟩
    · simp only [MS.run, qrun]; rw [i1, r1, r2]
    · simp only [MS.after, qafter]; rw [i2, r1]


/-! ### properties of the queue semantics -/

/-- the ready items of a script, pendings erased -/
def ready (sc : List (Option α)) : List α := sc.filterMap id

/-- ready items still to come from the source(s) with id `i` -/
def remaining (q : List (Src α)) (i : Nat) : List α :=
  (q.filter (fun s => s.id == i)).flatMap (fun s => ready s.script)

/-- the item an output delivers for sender `i` -/
def emit (i : Nat) : Out α → List α
  | .item j x => if j = i then [x] else []
  | _ => []

def emitO (i : Nat) : Option (Nat × α) → List α
  | some (j, x) => if j = i then [x] else []
  | none => []

theorem aux_poll_spec (s : Src α) :
    (∃ x r, s.script = some x :: r ∧ s.poll = ({ s with script := r }, .item x)) ∨
    (∃ r, s.script = none :: r ∧ s.poll = ({ s with script := r }, .pending)) ∨
    (s.script = [] ∧ s.poll = (s, .ended)) := by
  rcases s with ⟨id, sc⟩
  cases sc with
  | nil => right; right; exact ⟨rfl, rfl⟩
  | cons a r =>
    cases a with
    | none => right; left; exact ⟨r, rfl, rfl⟩
    | some x => left; exact ⟨x, r, rfl, rfl⟩

theorem aux_remaining_append (a b : List (Src α)) (i : Nat) :
    remaining (a ++ b) i = remaining a i ++ remaining b i := by
  simp [remaining, List.filter_append, List.flatMap_append]

theorem aux_remaining_cons (s : Src α) (q : List (Src α)) (i : Nat) :
    remaining (s :: q) i = remaining [s] i ++ remaining q i :=
  aux_remaining_append [s] q i

theorem aux_remaining_single (s : Src α) (i : Nat) :
    remaining [s] i = if s.id = i then ready s.script else [] := by
  by_cases h : s.id = i <;> simp [remaining, List.filter_cons, h]

/-- no other source carries the same id -/
theorem aux_remaining_absent (q : List (Src α)) (i : Nat) (h : i ∉ q.map (·.id)) :
    remaining q i = [] := by
  have : q.filter (fun s => s.id == i) = [] := by
    rw [List.filter_eq_nil_iff]
    intro a ha hai
    exact h (List.mem_map.mpr ⟨a, ha, by simpa using hai⟩)
  simp [remaining, this]

theorem aux_scan_some_nonempty (U acc : List (Src α)) :
    (scan U acc).2.1 ≠ none → (scan U acc).1 ≠ [] := by
  induction U generalizing acc with
  | nil => intro h; simp [scan] at h
  | cons s rest ih =>
    rcases aux_poll_spec s with ⟨x, r, _, hp⟩ | ⟨r, _, hp⟩ | ⟨_, hp⟩
    · intro _; simp [scan, hp]
    · intro h; simp only [scan, hp] at h ⊢; exact ih _ h
    · intro h; simp only [scan, hp] at h ⊢; exact ih _ h

theorem aux_emit_outOf (i : Nat) (U acc : List (Src α)) :
    emit i (outOf (scan U acc).1 (scan U acc).2.1) = emitO i (scan U acc).2.1 := by
  cases ho : (scan U acc).2.1 with
  | none => simp only [outOf]; split <;> simp [emit, emitO]
  | some p =>
    have := aux_scan_some_nonempty U acc (by simp [ho])
    obtain ⟨j, x⟩ := p
    have he : (scan U acc).1.isEmpty = false := by simpa using this
    simp [outOf, he, emit, emitO]

theorem aux_perm_rot (a b : List Nat) (x : Nat) : (a ++ (b ++ [x])).Perm (x :: (a ++ b)) := by
  rw [← List.append_assoc]; exact List.perm_append_singleton x (a ++ b)

/-- ids after a scan: a sub-permutation of the ids before (nothing appears, only ended sources vanish) -/
theorem aux_scan_ids (U acc : List (Src α)) :
    ((scan U acc).1.map (·.id)).Subperm ((U ++ acc).map (·.id)) := by
  induction U generalizing acc with
  | nil => simp only [scan, List.nil_append]; exact List.Subperm.refl _
  | cons s rest ih =>
    rcases aux_poll_spec s with ⟨x, r, _, hp⟩ | ⟨r, _, hp⟩ | ⟨_, hp⟩
    · simp only [scan, hp]
      apply List.Perm.subperm
      simp only [List.map_append, List.map_cons, List.map_nil, List.cons_append, List.append_assoc]
      exact aux_perm_rot _ _ _
    · simp only [scan, hp]
      refine (ih _).trans (List.Perm.subperm ?_)
      simp only [List.map_append, List.map_cons, List.map_nil, List.cons_append]
      exact aux_perm_rot _ _ _
    · simp only [scan, hp]
      refine (ih _).trans (List.Sublist.subperm ?_)
      simp only [List.map_append, List.map_cons, List.cons_append]
      exact List.sublist_cons_self _ _

theorem aux_subperm_nodup {l₁ l₂ : List Nat} (h : l₁.Subperm l₂) (hn : l₂.Nodup) : l₁.Nodup := by
  obtain ⟨l, hp, hs⟩ := h
  exact (hp.nodup_iff).mp (hs.nodup hn)

theorem aux_qpoll_nodup (q : List (Src α)) (hn : (q.map (·.id)).Nodup) :
    ((qpoll q).1.map (·.id)).Nodup := by
  have := aux_scan_ids q []
  simp only [List.append_nil] at this
  exact aux_subperm_nodup this hn

/-- one scan: what is emitted for sender `i` plus what sender `i` still holds is unchanged -/
theorem aux_scan_remaining (i : Nat) (U acc : List (Src α))
    (hn : ((U ++ acc).map (·.id)).Nodup) :
    emitO i (scan U acc).2.1 ++ remaining (scan U acc).1 i = remaining (U ++ acc) i := by
  induction U generalizing acc with
  | nil => simp [scan, emitO]
  | cons s rest ih =>
    have hn' : (s.id :: (rest ++ acc).map (·.id)).Nodup := by simpa using hn
    have habs : s.id ∉ (rest ++ acc).map (·.id) := (List.nodup_cons.mp hn').1
    have hrest : ((rest ++ acc).map (·.id)).Nodup := (List.nodup_cons.mp hn').2
    rw [List.cons_append, aux_remaining_cons, aux_remaining_single]
    rcases aux_poll_spec s with ⟨x, r, hsc, hp⟩ | ⟨r, hsc, hp⟩ | ⟨hsc, hp⟩
    · simp only [scan, hp, emitO]
      rw [aux_remaining_append, aux_remaining_single]
      by_cases hi : s.id = i
      · have h0 : remaining (rest ++ acc) i = [] := aux_remaining_absent _ _ (hi ▸ habs)
        simp [hi, h0, hsc, ready]
      · simp [hi]
    · simp only [scan, hp]
      have hn2 : ((rest ++ (acc ++ [({ s with script := r } : Src α)])).map (fun t : Src α => t.id)).Nodup := by
        have : (rest ++ (acc ++ [({ s with script := r } : Src α)])).map (fun t : Src α => t.id) =
            (rest ++ acc).map (fun t : Src α => t.id) ++ [s.id] := by simp
        rw [this]
        exact (List.perm_append_singleton _ _).nodup_iff.mpr hn'
      rw [ih _ hn2, ← List.append_assoc, aux_remaining_append, aux_remaining_single]
      by_cases hi : s.id = i
      · have h0 : remaining (rest ++ acc) i = [] := aux_remaining_absent _ _ (hi ▸ habs)
        simp [hi, h0, hsc, ready]
      · simp [hi]
    · simp only [scan, hp]
      rw [ih _ hrest]
      by_cases hi : s.id = i <;> simp [hi, hsc, ready]

theorem aux_qpoll_remaining (i : Nat) (q : List (Src α)) (hn : (q.map (·.id)).Nodup) :
    emit i (qpoll q).2.1 ++ remaining (qpoll q).1 i = remaining q i := by
  simp only [qpoll]
  rw [aux_emit_outOf]
  have := aux_scan_remaining i q [] (by simpa using hn)
  simpa using this

theorem aux_qrun_remaining (i : Nat) (q : List (Src α)) (hn : (q.map (·.id)).Nodup) (n : Nat) :
    (qrun q n).flatMap (emit i) ++ remaining (qafter q n) i = remaining q i ∧
    ((qafter q n).map (·.id)).Nodup := by
  induction n generalizing q with
  | zero => simp [qrun, qafter, hn]
  | succ n ih =>
    obtain ⟨h1, h2⟩ := ih (qpoll q).1 (aux_qpoll_nodup q hn)
    refine ⟨?_, h2⟩
    simp only [qrun, qafter, List.flatMap_cons, List.append_assoc]
    rw [h1, aux_qpoll_remaining i q hn]

/-- a source that has not ended is never dropped (and sources already scanned stay) -/
theorem aux_scan_keeps (U : List (Src α)) :
    ∀ (acc : List (Src α)) (s : Src α), ((s ∈ U ∧ s.script ≠ []) ∨ s ∈ acc) →
      ∃ s' ∈ (scan U acc).1, s'.id = s.id := by
  induction U with
  | nil =>
    intro acc s hs
    rcases hs with ⟨h, _⟩ | h
    · cases h
    · exact ⟨s, by simpa [scan] using h, rfl⟩
  | cons u rest ih =>
    intro acc s hs
    rcases aux_poll_spec u with ⟨x, r, hsc, hp⟩ | ⟨r, hsc, hp⟩ | ⟨hsc, hp⟩
    · simp only [scan, hp]
      rcases hs with ⟨h, _⟩ | h
      · rcases List.mem_cons.mp h with rfl | h
        · exact ⟨{ s with script := r }, by simp, rfl⟩
        · exact ⟨s, by simp [h], rfl⟩
      · exact ⟨s, by simp [h], rfl⟩
    · simp only [scan, hp]
      rcases hs with ⟨h, hne⟩ | h
      · rcases List.mem_cons.mp h with rfl | h
        · obtain ⟨s', h1, h2⟩ := ih (acc ++ [{ s with script := r }]) { s with script := r }
            (Or.inr (by simp))
          exact ⟨s', h1, h2⟩
        · exact ih _ s (Or.inl ⟨h, hne⟩)
      · exact ih _ s (Or.inr (by simp [h]))
    · simp only [scan, hp]
      rcases hs with ⟨h, hne⟩ | h
      · rcases List.mem_cons.mp h with rfl | h
        · exact absurd hsc hne
        · exact ih _ s (Or.inl ⟨h, hne⟩)
      · exact ih _ s (Or.inr h)


/-- ids polled by one scan: a prefix of the queue's ids, so each source at most once -/
theorem aux_scan_polled_prefix (U acc : List (Src α)) :
    (scan U acc).2.2 <+: U.map (·.id) := by
  induction U generalizing acc with
  | nil => simp [scan]
  | cons s rest ih =>
    rcases aux_poll_spec s with ⟨x, r, _, hp⟩ | ⟨r, _, hp⟩ | ⟨_, hp⟩
    · simp only [scan, hp, List.map_cons]
      exact List.prefix_cons_inj s.id |>.mpr (List.nil_prefix)
    · simp only [scan, hp, List.map_cons]
      exact (List.prefix_cons_inj s.id).mpr (ih _)
    · simp only [scan, hp, List.map_cons]
      exact (List.prefix_cons_inj s.id).mpr (ih _)

/-- if every source has ended, the scan empties the queue -/
theorem aux_scan_all_ended (U : List (Src α)) (h : ∀ s ∈ U, s.script = []) :
    (scan U []).1 = [] ∧ (scan U []).2.1 = none := by
  induction U with
  | nil => simp [scan]
  | cons s rest ih =>
    have hs : s.script = [] := h s (by simp)
    have hp : s.poll = (s, .ended) := by
      rcases aux_poll_spec s with ⟨x, r, hsc, _⟩ | ⟨r, hsc, _⟩ | ⟨_, hp⟩
      · rw [hs] at hsc; cases hsc
      · rw [hs] at hsc; cases hsc
      · exact hp
    simp only [scan, hp]
    exact ih (fun t ht => h t (by simp [ht]))

/-- one step of fairness: a ready source at queue position `p` is served, or some other item is
delivered and the source moves strictly forward in the polling order -/
theorem aux_fair_step (U : List (Src α)) :
    ∀ (acc : List (Src α)) (p : Nat) (s : Src α) (x : α) (r : List (Option α)),
      U[p]? = some s → s.script = some x :: r →
      (scan U acc).2.1 = some (s.id, x) ∨
      (∃ p', p' < p ∧ (scan U acc).1[p']? = some s ∧ (scan U acc).2.1 ≠ none) := by
  induction U with
  | nil => intro acc p s x r h; simp at h
  | cons u rest ih =>
    intro acc p s x r hget hsc
    cases p with
    | zero =>
      simp only [List.getElem?_cons_zero, Option.some.injEq] at hget
      subst hget
      left
      rcases aux_poll_spec u with ⟨x', r', hsc', hp⟩ | ⟨r', hsc', _⟩ | ⟨hsc', _⟩
      · rw [hsc] at hsc'; cases hsc'
        simp [scan, hp]
      · rw [hsc] at hsc'; cases hsc'
      · rw [hsc] at hsc'; cases hsc'
    | succ p =>
      simp only [List.getElem?_cons_succ] at hget
      have hplt : p < rest.length := (List.getElem?_eq_some_iff.mp hget).1
      rcases aux_poll_spec u with ⟨y, r', _, hp⟩ | ⟨r', _, hp⟩ | ⟨_, hp⟩
      · right
        refine ⟨p, by omega, ?_, by simp [scan, hp]⟩
        simp only [scan, hp]
        rw [List.append_assoc, List.getElem?_append_left hplt]
        exact hget
      · simp only [scan, hp]
        rcases ih _ p s x r hget hsc with h | ⟨p', h1, h2, h3⟩
        · left; exact h
        · right; exact ⟨p', by omega, h2, h3⟩
      · simp only [scan, hp]
        rcases ih _ p s x r hget hsc with h | ⟨p', h1, h2, h3⟩
        · left; exact h
        · right; exact ⟨p', by omega, h2, h3⟩

/-- bounded waiting on the queue: a ready source at position `p` is served by the `(p+1)`-th poll
at the latest, and every earlier poll delivered an item (no wasted round) -/
theorem aux_served_within (p : Nat) :
    ∀ (q : List (Src α)) (s : Src α) (x : α) (r : List (Option α)),
      q[p]? = some s → s.script = some x :: r →
      ∃ k, k ≤ p ∧ (qrun q (k + 1))[k]? = some (.item s.id x) ∧
        ∀ j, j < k → ∃ i y, (qrun q (k + 1))[j]? = some (.item i y) := by
  induction p using Nat.strong_induction_on with
  | _ p ih =>
    intro q s x r hget hsc
    rcases aux_fair_step q [] p s x r hget hsc with h | ⟨p', h1, h2, h3⟩
    · refine ⟨0, by omega, ?_, by intro j hj; omega⟩
      have hne := aux_scan_some_nonempty q [] (by rw [h]; simp)
      have he : (scan q []).1.isEmpty = false := by simpa using hne
      simp [qrun, qpoll, outOf, h, he]
    · obtain ⟨k, hk, hserved, hearlier⟩ := ih p' h1 (scan q []).1 s x r h2 hsc
      refine ⟨k + 1, by omega, ?_, ?_⟩
      · simp only [qrun, qpoll] at hserved ⊢
        simpa using hserved
      · intro j hj
        cases j with
        | zero =>
          have hne := aux_scan_some_nonempty q [] h3
          have he : (scan q []).1.isEmpty = false := by simpa using hne
          cases ho : (scan q []).2.1 with
          | none => exact absurd ho h3
          | some pr => exact ⟨pr.1, pr.2, by simp [qrun, qpoll, outOf, ho, he]⟩
        | succ j =>
          obtain ⟨i, y, h⟩ := hearlier j (by omega)
          exact ⟨i, y, by simp only [qrun, qpoll] at h ⊢; simpa using h⟩

/-- positional form of one scan: with a ready source `s` at position `p`, the scan serves the source
at some position `j ≤ p` (it is `s` itself when `j = p`), and the new queue starts with the part of
the old queue behind position `j` -/
theorem aux_scan_pos (U : List (Src α)) :
    ∀ (acc : List (Src α)) (p : Nat) (s : Src α) (x : α) (r : List (Option α)),
      U[p]? = some s → s.script = some x :: r →
      ∃ (j : Nat) (u : Src α) (y : α) (tail : List (Src α)), j ≤ p ∧ U[j]? = some u ∧
        (scan U acc).2.1 = some (u.id, y) ∧ (j = p → u = s ∧ y = x) ∧
        (scan U acc).1 = U.drop (j + 1) ++ tail := by
  induction U with
  | nil => intro acc p s x r h; simp at h
  | cons u rest ih =>
    intro acc p s x r hget hsc
    cases p with
    | zero =>
      simp only [List.getElem?_cons_zero, Option.some.injEq] at hget
      subst hget
      rcases aux_poll_spec u with ⟨x', r', hsc', hp⟩ | ⟨r', hsc', _⟩ | ⟨hsc', _⟩
      · rw [hsc] at hsc'; cases hsc'
        exact ⟨0, u, x, acc ++ [{ u with script := r }], Nat.le_refl _, rfl, by simp [scan, hp],
          fun _ => ⟨rfl, rfl⟩, by simp [scan, hp]⟩
      · rw [hsc] at hsc'; cases hsc'
      · rw [hsc] at hsc'; cases hsc'
    | succ p =>
      simp only [List.getElem?_cons_succ] at hget
      rcases aux_poll_spec u with ⟨y, r', _, hp⟩ | ⟨r', _, hp⟩ | ⟨_, hp⟩
      · exact ⟨0, u, y, acc ++ [{ u with script := r' }], Nat.zero_le _, rfl, by simp [scan, hp],
          fun h => by omega, by simp [scan, hp]⟩
      · obtain ⟨j, v, y, tail, h1, h2, h3, h4, h5⟩ := ih (acc ++ [{ u with script := r' }]) p s x r hget hsc
        exact ⟨j + 1, v, y, tail, by omega, by simpa using h2, by simp only [scan, hp]; exact h3,
          fun h => h4 (by omega), by simp only [scan, hp]; simpa using h5⟩
      · obtain ⟨j, v, y, tail, h1, h2, h3, h4, h5⟩ := ih acc p s x r hget hsc
        exact ⟨j + 1, v, y, tail, by omega, by simpa using h2, by simp only [scan, hp]; exact h3,
          fun h => h4 (by omega), by simp only [scan, hp]; simpa using h5⟩

/-- **fairness on the queue**: a ready source at position `p` is served after `k ≤ p` other
deliveries, all of them items of pairwise different senders, none of them the waiting sender
(nor any sender in `B`, the senders already behind it) -/
theorem aux_fair (p : Nat) :
    ∀ (q : List (Src α)) (B : List Nat) (s : Src α) (x : α) (r : List (Option α)),
      (q.map (·.id)).Nodup → q[p]? = some s → s.script = some x :: r →
      (∀ b ∈ B, b ∉ (q.take (p + 1)).map (·.id)) →
      ∃ (served : List (Nat × α)), served.length ≤ p ∧
        qrun q (served.length + 1) = served.map (fun e => Out.item e.1 e.2) ++ [.item s.id x] ∧
        (served.map (·.1)).Nodup ∧ ∀ j ∈ served.map (·.1), j ≠ s.id ∧ j ∉ B := by
  induction p using Nat.strong_induction_on with
  | _ p ih =>
    intro q B s x r hn hget hsc hB
    obtain ⟨j, u, y, tail, hjp, hju, ho, hjeq, hq'⟩ := aux_scan_pos q [] p s x r hget hsc
    have hne := aux_scan_some_nonempty q [] (by rw [ho]; simp)
    have he : (scan q []).1.isEmpty = false := by simpa using hne
    have hout : (qpoll q).2.1 = .item u.id y := by simp [qpoll, outOf, ho, he]
    by_cases hj : j = p
    · obtain ⟨rfl, rfl⟩ := hjeq hj
      exact ⟨[], Nat.zero_le _, by simp [qrun, hout], by simp, by simp⟩
    · have hjlt : j < p := by omega
      have hplt : p < q.length := (List.getElem?_eq_some_iff.mp hget).1
      -- ids in front of / behind position j are disjoint
      have hsplit : (q.map (·.id)) = (q.take (j + 1)).map (·.id) ++ (q.drop (j + 1)).map (·.id) := by
        rw [← List.map_append, List.take_append_drop]
      have hdisj : ∀ a ∈ (q.take (j + 1)).map (·.id), ∀ b ∈ (q.drop (j + 1)).map (·.id), a ≠ b := by
        rw [hsplit] at hn; exact (List.nodup_append.mp hn).2.2
      have hu_take : u ∈ q.take (j + 1) := by
        apply List.mem_of_getElem? (i := j)
        rw [List.getElem?_take]; simp [hju]
      have hs_drop : s ∈ q.drop (j + 1) := by
        apply List.mem_of_getElem? (i := p - j - 1)
        rw [List.getElem?_drop]; rw [show j + 1 + (p - j - 1) = p by omega]; exact hget
      have hus : u.id ≠ s.id :=
        hdisj u.id (List.mem_map_of_mem hu_take) s.id (List.mem_map_of_mem hs_drop)
      -- the new queue
      have hq1 : (qpoll q).1 = q.drop (j + 1) ++ tail := by simp only [qpoll]; exact hq'
      have hlen : p - j - 1 < (q.drop (j + 1)).length := by rw [List.length_drop]; omega
      have hget' : (qpoll q).1[p - j - 1]? = some s := by
        rw [hq1, List.getElem?_append_left hlen, List.getElem?_drop, show j + 1 + (p - j - 1) = p by omega]
        exact hget
      have htake : ((qpoll q).1.take (p - j - 1 + 1)) = (q.take (p + 1)).drop (j + 1) := by
        rw [hq1, List.take_append_of_le_length (by omega), List.drop_take]
        congr 1; omega
      have hB' : ∀ b ∈ u.id :: B, b ∉ ((qpoll q).1.take (p - j - 1 + 1)).map (·.id) := by
        intro b hb hmem
        rw [htake] at hmem
        obtain ⟨t, ht, rfl⟩ := List.mem_map.mp hmem
        rcases List.mem_cons.mp hb with hbu | hbB
        · -- t is behind position j, u is in front
          have ht' : t ∈ q.drop (j + 1) := by
            rw [List.drop_take] at ht; exact List.mem_of_mem_take ht
          exact hdisj u.id (List.mem_map_of_mem hu_take) t.id (List.mem_map_of_mem ht') hbu.symm
        · exact hB t.id hbB (List.mem_map_of_mem (List.mem_of_mem_drop ht))
      obtain ⟨served, hk, hrun, hnd, hall⟩ := ih (p - j - 1) (by omega) (qpoll q).1 (u.id :: B) s x r
        (aux_qpoll_nodup q hn) hget' hsc hB'
      refine ⟨(u.id, y) :: served, by simp; omega, ?_, ?_, ?_⟩
      · have e : qrun q (served.length + 1 + 1) =
            (qpoll q).2.1 :: qrun (qpoll q).1 (served.length + 1) := rfl
        simp only [List.length_cons, List.map_cons, List.cons_append]
        rw [e, hout, hrun]
      · simp only [List.map_cons, List.nodup_cons]
        refine ⟨fun hmem => ?_, hnd⟩
        exact (hall u.id hmem).2 (by simp)
      · intro i hi
        simp only [List.map_cons, List.mem_cons] at hi
        rcases hi with rfl | hi
        · refine ⟨hus, fun hb => ?_⟩
          have : u ∈ q.take (p + 1) := by
            apply List.mem_of_getElem? (i := j)
            rw [List.getElem?_take]; simp [hju]; omega
          exact hB u.id hb (List.mem_map_of_mem this)
        · exact ⟨(hall i hi).1, fun hb => (hall i hi).2 (by simp [hb])⟩

/-! ## Property theorems (concrete `MergeSource` model)

`scripts` is the list of `(sender id, script)`; `MS.new scripts` is the freshly built
`MergeSource` (cursor 0).  `run n` = the outputs of the first `n` calls of `poll_next`,
`after n` = the state after them. -/

theorem aux_new_wf (scripts : List (Nat × List (Option α))) : (MS.new scripts).WF := by
  cases scripts with
  | nil => right; simp [MS.new]
  | cons a t => left; simp [MS.new]

theorem aux_new_queue (scripts : List (Nat × List (Option α))) :
    (MS.new scripts).queue = scripts.map fun p => ⟨p.1, p.2⟩ := by
  simp [MS.queue, MS.new]

theorem aux_new_remaining (scripts : List (Nat × List (Option α)))
    (hn : (scripts.map (·.1)).Nodup) (i : Nat) (sc : List (Option α)) (h : (i, sc) ∈ scripts) :
    remaining (scripts.map fun p => (⟨p.1, p.2⟩ : Src α)) i = ready sc := by
  induction scripts with
  | nil => cases h
  | cons a t ih =>
    simp only [List.map_cons, List.nodup_cons] at hn
    rw [List.map_cons, aux_remaining_cons, aux_remaining_single]
    rcases List.mem_cons.mp h with rfl | h
    · have : remaining (t.map fun p => (⟨p.1, p.2⟩ : Src α)) i = [] := by
        apply aux_remaining_absent
        simpa [List.map_map, Function.comp_def] using hn.1
      simp [this]
    · have hne : a.1 ≠ i := by
        intro he; exact hn.1 (List.mem_map.mpr ⟨(i, sc), h, he.symm⟩)
      simp [hne, ih hn.2 h]

variable (scripts : List (Nat × List (Option α))) (n : Nat)

/-- the items delivered for sender `i` by a list of outputs, in order -/
def emitted (i : Nat) (os : List (Out α)) : List α := os.flatMap (emit i)

/-- **No loss, no duplication, per-sender order**: at every point, what was delivered for sender
`i` followed by what sender `i` still holds (in the surviving sources) is exactly sender `i`'s
sequence of ready items. -/
theorem no_loss_no_dup (hn : (scripts.map (·.1)).Nodup) (i : Nat) (sc : List (Option α))
    (h : (i, sc) ∈ scripts) :
    emitted i ((MS.new scripts).run n) ++ remaining ((MS.new scripts).after n).queue i = ready sc := by
  obtain ⟨r1, r2, _⟩ := aux_run_refines (MS.new scripts) (aux_new_wf scripts) n
  have hq : ((MS.new scripts).queue.map (·.id)).Nodup := by
    rw [aux_new_queue]; simpa [List.map_map, Function.comp_def] using hn
  have := (aux_qrun_remaining i (MS.new scripts).queue hq n).1
  rw [emitted, r1, r2, this, aux_new_queue]
  exact aux_new_remaining scripts hn i sc h

/-- **Per-sender order**: the items delivered for a sender are a prefix of what it produced. -/
theorem per_sender_order (hn : (scripts.map (·.1)).Nodup) (i : Nat) (sc : List (Option α))
    (h : (i, sc) ∈ scripts) :
    emitted i ((MS.new scripts).run n) <+: ready sc :=
  ⟨_, no_loss_no_dup scripts n hn i sc h⟩

/-- every delivered item carries the id of a source that exists (tags are never invented) -/
theorem tagged_by_sender (hn : (scripts.map (·.1)).Nodup) (i : Nat)
    (hi : i ∉ scripts.map (·.1)) : emitted i ((MS.new scripts).run n) = [] := by
  obtain ⟨r1, r2, _⟩ := aux_run_refines (MS.new scripts) (aux_new_wf scripts) n
  have hq : ((MS.new scripts).queue.map (·.id)).Nodup := by
    rw [aux_new_queue]; simpa [List.map_map, Function.comp_def] using hn
  have h := (aux_qrun_remaining i (MS.new scripts).queue hq n).1
  have h0 : remaining (MS.new scripts).queue i = [] := by
    apply aux_remaining_absent
    rw [aux_new_queue]; simpa [List.map_map, Function.comp_def] using hi
  rw [h0] at h
  rw [emitted, r1]
  exact (List.append_eq_nil_iff.mp h).1

/-- **The merged stream ends exactly when all sources have ended**: the call returns
`Ready(None)` iff no source is left afterwards; then every sender's items have all been
delivered; a source whose script is not exhausted is never dropped; and once every remaining
source has ended the next call returns `Ready(None)`. -/
theorem ends_iff_all_ended (hn : (scripts.map (·.1)).Nodup) :
    let m := (MS.new scripts).after n
    (m.pollNext.out = .ended ↔ m.pollNext.ms.sources = []) ∧
    (m.sources = [] → ∀ i sc, (i, sc) ∈ scripts → emitted i ((MS.new scripts).run n) = ready sc) ∧
    (∀ s ∈ m.sources, s.script ≠ [] → ∃ s' ∈ m.pollNext.ms.sources, s'.id = s.id) ∧
    ((∀ s ∈ m.sources, s.script = []) → m.pollNext.out = .ended) := by
  intro m
  obtain ⟨_, _, hwf⟩ := aux_run_refines (MS.new scripts) (aux_new_wf scripts) n
  obtain ⟨p1, p2, _, _, _⟩ := aux_pollNext_refines m hwf
  have hrot : ∀ (l : List (Src α)) (c : Nat), l.rotate c = [] ↔ l = [] := fun l c => List.rotate_eq_nil_iff
  refine ⟨?_, ?_, ?_, ?_⟩
  · rw [p2]
    have hq : m.pollNext.ms.sources = [] ↔ (qpoll m.queue).1 = [] := by
      rw [← p1, MS.queue, hrot]
    rw [hq]
    simp only [qpoll, outOf]
    cases hs : (scan m.queue []).1 with
    | nil => simp
    | cons a t =>
      simp only [List.isEmpty_cons, Bool.false_eq_true, if_false]
      cases (scan m.queue []).2.1 <;> simp
  · intro hnil i sc h
    have := no_loss_no_dup scripts n hn i sc h
    have hq : ((MS.new scripts).after n).queue = [] := by
      show m.queue = []
      rw [MS.queue, hnil]; simp
    rw [hq] at this
    simpa [remaining] using this
  · intro s hs hne
    have hsq : s ∈ m.queue := by rw [MS.queue, List.mem_rotate]; exact hs
    obtain ⟨s', h1, h2⟩ := aux_scan_keeps m.queue [] s (Or.inl ⟨hsq, hne⟩)
    refine ⟨s', ?_, h2⟩
    have : s' ∈ m.pollNext.ms.queue := by rw [p1]; exact h1
    rw [MS.queue, List.mem_rotate] at this; exact this
  · intro hall
    rw [p2]
    have := aux_scan_all_ended m.queue (fun s hs => hall s (by rw [MS.queue, List.mem_rotate] at hs; exact hs))
    simp [qpoll, outOf, this.1]

/-- **Cursor in bounds, no panic**: every reachable state satisfies `poll_cursor < sources.len()`
(or both are 0), and `poll_next` never indexes out of bounds nor unwraps a removed slot. -/
theorem cursor_in_bounds :
    ((MS.new scripts).after n).WF ∧ ((MS.new scripts).after n).pollNext.panicked = false := by
  obtain ⟨_, _, hwf⟩ := aux_run_refines (MS.new scripts) (aux_new_wf scripts) n
  exact ⟨hwf, (aux_pollNext_refines _ hwf).2.2.2.1⟩

/-- **Each source is polled at most once per `poll_next`** (and in polling order: the polled ids
are a prefix of the queue). -/
theorem each_source_polled_at_most_once_per_poll (hn : (scripts.map (·.1)).Nodup) :
    ((MS.new scripts).after n).pollNext.polled.Nodup ∧
    ((MS.new scripts).after n).pollNext.polled <+: ((MS.new scripts).after n).queue.map (·.id) := by
  obtain ⟨_, r2, hwf⟩ := aux_run_refines (MS.new scripts) (aux_new_wf scripts) n
  have hq : ((MS.new scripts).queue.map (·.id)).Nodup := by
    rw [aux_new_queue]; simpa [List.map_map, Function.comp_def] using hn
  have hnd := (aux_qrun_remaining 0 (MS.new scripts).queue hq n).2
  rw [← r2] at hnd
  have hp := (aux_pollNext_refines _ hwf).2.2.1
  have hpre : ((MS.new scripts).after n).pollNext.polled <+: ((MS.new scripts).after n).queue.map (·.id) := by
    rw [hp]; exact aux_scan_polled_prefix _ _
  exact ⟨hpre.sublist.nodup hnd, hpre⟩

/-- **Fairness over one round**: a source that has a ready item and sits at distance `p` from the
cursor in polling order is served after `k ≤ p` other deliveries — so by the `(p+1)`-th call at the
latest — and those earlier deliveries are items of pairwise different other senders: no sender is
served twice while it waits, and no call is wasted. -/
theorem fairness_one_round (hn : (scripts.map (·.1)).Nodup) (p : Nat) (s : Src α) (x : α)
    (r : List (Option α))
    (hget : ((MS.new scripts).after n).queue[p]? = some s) (hsc : s.script = some x :: r) :
    ∃ (served : List (Nat × α)), served.length ≤ p ∧
      ((MS.new scripts).after n).run (served.length + 1) =
        served.map (fun e => Out.item e.1 e.2) ++ [.item s.id x] ∧
      (served.map (·.1)).Nodup ∧ s.id ∉ served.map (·.1) := by
  obtain ⟨_, r2, hwf⟩ := aux_run_refines (MS.new scripts) (aux_new_wf scripts) n
  have hq : ((MS.new scripts).queue.map (·.id)).Nodup := by
    rw [aux_new_queue]; simpa [List.map_map, Function.comp_def] using hn
  have hnd := (aux_qrun_remaining 0 (MS.new scripts).queue hq n).2
  rw [← r2] at hnd
  obtain ⟨served, h1, h2, h3, h4⟩ := aux_fair p _ [] s x r hnd hget hsc (by simp)
  refine ⟨served, h1, ?_, h3, fun hmem => (h4 s.id hmem).1 rfl⟩
  rw [(aux_run_refines _ hwf (served.length + 1)).1]; exact h2

/-- `TaggedSource`: a ready `Ok(d)` becomes `Ok((id, d))`, an `Err` stays an `Err`, pendings and
the end are passed through — so the tagged script has the same shape and the same payloads. -/
theorem tagged_source_faithful {β : Type} (id : Nat) (script : List (Option (Except Nat β))) :
    (tagScript id script).length = script.length ∧
    ∀ k : Nat, (tagScript id script)[k]? =
      (script[k]?).map (Option.map fun (v : Except Nat β) => v.map fun d => (id, d)) := by
  simp [tagScript]

/-! ### non-vacuity -/

/-- three sources, one ending in the middle of a round (cursor fix-up), one pending -/
example :
    (MS.new [(100, [some 1, some 4]), (101, [none, some 2, none]), (102, [some 3])]).run 7 =
      [.item 100 1, .item 102 3, .item 100 4, .item 101 2, .pending, .ended, .ended] := by
  decide

example : (MS.new [(100, [some 1, some 4]), (101, [none, some 2]), (102, [some (3 : Nat)])]).WF := by
  left; decide

end HvSink.Merge
