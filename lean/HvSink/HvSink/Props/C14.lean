/-
C14 — Sink adaptors route every item to the right sink, once, in order.

Setting.  An adaptor `A` is built over an *arbitrary* inner sink `k` (any state machine — so
"every readiness pattern" is every behaviour of `k`).  Both interfaces are recorded
(`Snk.recd`): `ct` = the calls the client makes on `A` with their answers, `it` = the calls `A`
makes on `k`.  A client is any list of operations `ops`; it honours the `Sink` contract iff
`protoOk ct`.  Theorems have the compositional form
   client honours the contract on `A`  ⟹  `A` honours it on `k`, and `sends it` = spec (`sends ct`)
so they chain through stacked adaptors.  Helper lemmas are `aux_*`.
-/
import HvSink.Model.Sink

namespace HvSink.Sink
open List

variable {σ α β : Type}

inductive Op (α : Type) | ready | send (x : α) | flush | close
  deriving Repr, DecidableEq

/-- one client call; the Boolean accumulates "no `start_send` has panicked so far" -/
def stepOp (k : Snk σ α) (c : σ × Bool) : Op α → σ × Bool
  | .ready => ((k.pollReady c.1).1, c.2)
  | .send x => ((k.startSend c.1 x).1, c.2 && (k.startSend c.1 x).2)
  | .flush => ((k.pollFlush c.1).1, c.2)
  | .close => ((k.pollClose c.1).1, c.2)

def runOps (k : Snk σ α) (c : σ × Bool) (ops : List (Op α)) : σ × Bool := ops.foldl (stepOp k) c

theorem aux_runOps_snoc (k : Snk σ α) (c : σ × Bool) (ops : List (Op α)) (op : Op α) :
    runOps k c (ops ++ [op]) = stepOp k (runOps k c ops) op := by
  simp [runOps, List.foldl_append]

/-! ### the contract on traces -/

def armedAfter : Bool → List (Ev α) → Bool
  | a, [] => a
  | _, .ready b :: t => armedAfter b t
  | _, .send _ :: t => armedAfter false t
  | a, .flush _ :: t => armedAfter a t
  | a, .close _ :: t => armedAfter a t

theorem aux_protoOkAux_append (a : Bool) (t₁ t₂ : List (Ev α)) :
    protoOkAux a (t₁ ++ t₂) = (protoOkAux a t₁ && protoOkAux (armedAfter a t₁) t₂) := by
  induction t₁ generalizing a with
  | nil => simp [protoOkAux, armedAfter]
  | cons e t ih => cases e <;> simp [protoOkAux, armedAfter, ih, Bool.and_assoc]

theorem aux_armedAfter_append (a : Bool) (t₁ t₂ : List (Ev α)) :
    armedAfter a (t₁ ++ t₂) = armedAfter (armedAfter a t₁) t₂ := by
  induction t₁ generalizing a with
  | nil => rfl
  | cons e t ih => cases e <;> simp [armedAfter, ih]

theorem aux_sends_append (t₁ t₂ : List (Ev α)) : sends (t₁ ++ t₂) = sends t₁ ++ sends t₂ := by
  induction t₁ with
  | nil => rfl
  | cons e t ih => cases e <;> simp [sends, ih]

theorem aux_protoOk_prefix (t₁ t₂ : List (Ev α)) (h : protoOk (t₁ ++ t₂) = true) : protoOk t₁ = true := by
  simp only [protoOk, aux_protoOkAux_append, Bool.and_eq_true] at h
  exact h.1

theorem aux_protoOkAux_mono (t : List (Ev α)) (h : protoOkAux false t = true) (a : Bool) :
    protoOkAux a t = true := by
  induction t with
  | nil => rfl
  | cons e t ih => cases e <;> simp_all [protoOkAux]

/-! ### `Map` -/

def mapEv (f : α → β) : Ev α → Ev β
  | .ready b => .ready b
  | .send x => .send (f x)
  | .flush b => .flush b
  | .close b => .close b

theorem aux_protoOkAux_map (f : α → β) (a : Bool) (t : List (Ev α)) :
    protoOkAux a (t.map (mapEv f)) = protoOkAux a t := by
  induction t generalizing a with
  | nil => rfl
  | cons e t ih => cases e <;> simp [protoOkAux, mapEv, ih]

theorem aux_sends_map (f : α → β) (t : List (Ev α)) : sends (t.map (mapEv f)) = (sends t).map f := by
  induction t with
  | nil => rfl
  | cons e t ih => cases e <;> simp [sends, mapEv, ih]

/-- `Map` forwards every call one-to-one: the inner trace is the client trace with `f` applied to
the items — for every inner sink and every client. -/
theorem map_trace (f : α → β) (k : Snk σ β) (c : ((σ × List (Ev β)) × List (Ev α)) × Bool)
    (ops : List (Op α)) (h : c.1.1.2 = c.1.2.map (mapEv f)) :
    (runOps (map f k.recd).recd c ops).1.1.2 = (runOps (map f k.recd).recd c ops).1.2.map (mapEv f) := by
  induction ops generalizing c with
  | nil => exact h
  | cons op ops ih =>
    simp only [runOps, List.foldl_cons] at ih ⊢
    apply ih
    cases op <;> simp [stepOp, map, Snk.recd, h, mapEv]

/-- `Map`: honours the contract downstream iff the client does, and delivers exactly `f` of every
item, in order, once. -/
theorem map_delivers_in_order (f : α → β) (k : Snk σ β) (s : σ) (ops : List (Op α)) :
    let r := runOps (map f k.recd).recd (((s, []), []), true) ops
    protoOk r.1.1.2 = protoOk r.1.2 ∧ sends r.1.1.2 = (sends r.1.2).map f := by
  intro r
  have h := map_trace f k (((s, []), []), true) ops rfl
  exact ⟨by rw [h]; exact aux_protoOkAux_map f false _, by rw [h]; exact aux_sends_map f _⟩

/-! ### `Filter`, `FilterMap` -/

def filterMapEv (g : α → Option β) : List (Ev α) → List (Ev β)
  | [] => []
  | .ready b :: t => .ready b :: filterMapEv g t
  | .send x :: t => match g x with
    | some y => .send y :: filterMapEv g t
    | none => filterMapEv g t
  | .flush b :: t => .flush b :: filterMapEv g t
  | .close b :: t => .close b :: filterMapEv g t

theorem aux_filterMapEv_append (g : α → Option β) (t₁ t₂ : List (Ev α)) :
    filterMapEv g (t₁ ++ t₂) = filterMapEv g t₁ ++ filterMapEv g t₂ := by
  induction t₁ with
  | nil => rfl
  | cons e t ih =>
    cases e with
    | send x => simp only [List.cons_append, filterMapEv]; cases g x <;> simp [ih]
    | ready b => simp [filterMapEv, ih]
    | flush b => simp [filterMapEv, ih]
    | close b => simp [filterMapEv, ih]

/-- dropping `send`s never breaks the contract -/
theorem aux_protoOk_filterMapEv (g : α → Option β) (t : List (Ev α)) :
    ∀ a b : Bool, (a = true → b = true) → protoOkAux a t = true → protoOkAux b (filterMapEv g t) = true := by
  induction t with
  | nil => intros; rfl
  | cons e t ih =>
    intro a b hab h
    cases e with
    | ready r => simp only [protoOkAux, filterMapEv] at h ⊢; exact ih r r id h
    | flush r => simp only [protoOkAux, filterMapEv] at h ⊢; exact ih a b hab h
    | close r => simp only [protoOkAux, filterMapEv] at h ⊢; exact ih a b hab h
    | send x =>
      simp only [protoOkAux, Bool.and_eq_true] at h
      simp only [filterMapEv]
      cases g x with
      | some y => simp only [protoOkAux, Bool.and_eq_true]; exact ⟨hab h.1, ih false false id h.2⟩
      | none => exact ih false b (by intro h'; cases h') h.2

theorem aux_sends_filterMapEv (g : α → Option β) (t : List (Ev α)) :
    sends (filterMapEv g t) = (sends t).filterMap g := by
  induction t with
  | nil => rfl
  | cons e t ih =>
    cases e with
    | send x => simp only [filterMapEv, sends, List.filterMap_cons]; cases g x <;> simp [sends, ih]
    | ready b => simp [filterMapEv, sends, ih]
    | flush b => simp [filterMapEv, sends, ih]
    | close b => simp [filterMapEv, sends, ih]

theorem filterMap_trace (g : α → Option β) (k : Snk σ β)
    (c : ((σ × List (Ev β)) × List (Ev α)) × Bool) (ops : List (Op α))
    (h : c.1.1.2 = filterMapEv g c.1.2) :
    (runOps (filterMap g k.recd).recd c ops).1.1.2 =
      filterMapEv g (runOps (filterMap g k.recd).recd c ops).1.2 := by
  induction ops generalizing c with
  | nil => exact h
  | cons op ops ih =>
    simp only [runOps, List.foldl_cons] at ih ⊢
    apply ih
    cases op with
    | send x =>
      simp only [stepOp, filterMap, Snk.recd, aux_filterMapEv_append, filterMapEv]
      cases hg : g x <;> simp [h]
    | ready => simp [stepOp, filterMap, Snk.recd, h, aux_filterMapEv_append, filterMapEv]
    | flush => simp [stepOp, filterMap, Snk.recd, h, aux_filterMapEv_append, filterMapEv]
    | close => simp [stepOp, filterMap, Snk.recd, h, aux_filterMapEv_append, filterMapEv]

/-- `FilterMap`: a contract-honouring client yields a contract-honouring inner trace, and the inner
sink receives exactly the `Some` images, in order, once. -/
theorem filterMap_delivers_in_order (g : α → Option β) (k : Snk σ β) (s : σ) (ops : List (Op α)) :
    let r := runOps (filterMap g k.recd).recd (((s, []), []), true) ops
    (protoOk r.1.2 = true → protoOk r.1.1.2 = true) ∧ sends r.1.1.2 = (sends r.1.2).filterMap g := by
  intro r
  have h := filterMap_trace g k (((s, []), []), true) ops rfl
  refine ⟨fun hc => ?_, by rw [h]; exact aux_sends_filterMapEv g _⟩
  rw [h]; exact aux_protoOk_filterMapEv g _ false false id hc

/-- `Filter p` behaves as `FilterMap (fun x => if p x then some x else none)` -/
theorem filter_trace (p : α → Bool) (k : Snk σ α)
    (c : ((σ × List (Ev α)) × List (Ev α)) × Bool) (ops : List (Op α))
    (h : c.1.1.2 = filterMapEv (fun x => if p x then some x else none) c.1.2) :
    (runOps (filter p k.recd).recd c ops).1.1.2 =
      filterMapEv (fun x => if p x then some x else none) (runOps (filter p k.recd).recd c ops).1.2 := by
  induction ops generalizing c with
  | nil => exact h
  | cons op ops ih =>
    simp only [runOps, List.foldl_cons] at ih ⊢
    apply ih
    cases op with
    | send x =>
      simp only [stepOp, filter, Snk.recd, aux_filterMapEv_append, filterMapEv]
      cases hp : p x <;> simp [h]
    | ready => simp [stepOp, filter, Snk.recd, h, aux_filterMapEv_append, filterMapEv]
    | flush => simp [stepOp, filter, Snk.recd, h, aux_filterMapEv_append, filterMapEv]
    | close => simp [stepOp, filter, Snk.recd, h, aux_filterMapEv_append, filterMapEv]

theorem filter_delivers_in_order (p : α → Bool) (k : Snk σ α) (s : σ) (ops : List (Op α)) :
    let r := runOps (filter p k.recd).recd (((s, []), []), true) ops
    (protoOk r.1.2 = true → protoOk r.1.1.2 = true) ∧ sends r.1.1.2 = (sends r.1.2).filter p := by
  intro r
  have h := filter_trace p k (((s, []), []), true) ops rfl
  refine ⟨fun hc => ?_, ?_⟩
  · rw [h]; exact aux_protoOk_filterMapEv _ _ false false id hc
  · rw [h, aux_sends_filterMapEv]
    induction sends r.1.2 with
    | nil => rfl
    | cons x t ih => cases hp : p x <;> simp [List.filterMap_cons, List.filter_cons, hp, ih]

/-- `Inspect`: forwards unchanged and its closure sees every item once, in order -/
theorem inspect_trace (k : Snk σ α) (c : (((σ × List (Ev α)) × List α) × List (Ev α)) × Bool)
    (ops : List (Op α)) (h : c.1.1.1.2 = c.1.2 ∧ c.1.1.2 = sends c.1.2) :
    (runOps (inspect k.recd).recd c ops).1.1.1.2 = (runOps (inspect k.recd).recd c ops).1.2 ∧
    (runOps (inspect k.recd).recd c ops).1.1.2 = sends (runOps (inspect k.recd).recd c ops).1.2 := by
  induction ops generalizing c with
  | nil => exact h
  | cons op ops ih =>
    simp only [runOps, List.foldl_cons] at ih ⊢
    apply ih
    cases op <;> simp [stepOp, inspect, Snk.recd, h.1, h.2, aux_sends_append, sends]


/-! ### projections of a recorded sink (used instead of unfolding `Snk.recd` under `drain`) -/

theorem recd_pollReady (k : Snk σ α) (p : σ × List (Ev α)) :
    k.recd.pollReady p = (((k.pollReady p.1).1, p.2 ++ [.ready (k.pollReady p.1).2]), (k.pollReady p.1).2) := rfl
theorem recd_startSend (k : Snk σ α) (p : σ × List (Ev α)) (x : α) :
    k.recd.startSend p x = (((k.startSend p.1 x).1, p.2 ++ [.send x]), (k.startSend p.1 x).2) := rfl
theorem recd_pollFlush (k : Snk σ α) (p : σ × List (Ev α)) :
    k.recd.pollFlush p = (((k.pollFlush p.1).1, p.2 ++ [.flush (k.pollFlush p.1).2]), (k.pollFlush p.1).2) := rfl
theorem recd_pollClose (k : Snk σ α) (p : σ × List (Ev α)) :
    k.recd.pollClose p = (((k.pollClose p.1).1, p.2 ++ [.close (k.pollClose p.1).2]), (k.pollClose p.1).2) := rfl

theorem aux_sends_snoc_ready (t : List (Ev α)) (b : Bool) : sends (t ++ [.ready b]) = sends t := by
  rw [aux_sends_append]; simp [sends]
theorem aux_sends_snoc_flush (t : List (Ev α)) (b : Bool) : sends (t ++ [.flush b]) = sends t := by
  rw [aux_sends_append]; simp [sends]
theorem aux_sends_snoc_close (t : List (Ev α)) (b : Bool) : sends (t ++ [.close b]) = sends t := by
  rw [aux_sends_append]; simp [sends]
theorem aux_sends_snoc_send (t : List (Ev α)) (x : α) : sends (t ++ [.send x]) = sends t ++ [x] := by
  rw [aux_sends_append]; simp [sends]

/-! ### `FlatMap` / `Flatten` -/

/-- what `poll_ready_impl` does to the inner sink: a self-contained, contract-honouring burst that
sends a prefix of the buffer; `Ready` only when the buffer is empty -/
theorem aux_drain (k : Snk σ β) (buf : List β) : ∀ (s : σ) (it : List (Ev β)),
    ∃ de, (drain k.recd (s, it) buf).1.1.2 = it ++ de ∧ (∀ a, protoOkAux a de = true) ∧
      sends de ++ (drain k.recd (s, it) buf).1.2 = buf ∧
      ((drain k.recd (s, it) buf).2 = true → (drain k.recd (s, it) buf).1.2 = []) := by
  induction buf with
  | nil => intro s it; exact ⟨[], by simp [drain], fun _ => rfl, by simp [drain, sends], fun _ => by simp [drain]⟩
  | cons x r ih =>
    intro s it
    cases hb : (k.pollReady s).2 with
    | false =>
      refine ⟨[.ready false], ?_, ?_, ?_, ?_⟩
      · simp [drain, recd_pollReady, hb]
      · intro a; simp [protoOkAux]
      · simp [drain, recd_pollReady, hb, sends]
      · simp [drain, recd_pollReady, hb]
    | true =>
      obtain ⟨de, h1, h2, h3, h4⟩ := ih (k.startSend (k.pollReady s).1 x).1 (it ++ [.ready true] ++ [.send x])
      have hd : drain k.recd (s, it) (x :: r) =
          drain k.recd ((k.startSend (k.pollReady s).1 x).1, it ++ [.ready true] ++ [.send x]) r := by
        simp only [drain, recd_pollReady, recd_startSend, hb, if_true]
      rw [hd]
      refine ⟨[.ready true, .send x] ++ de, ?_, ?_, ?_, h4⟩
      · rw [h1]; simp
      · intro a; simp [protoOkAux, h2]
      · simp only [List.cons_append, List.nil_append, sends]
        rw [h3]

/-- last call answered `Ready` to a flush or close -/
def lastFlushed : List (Ev α) → Bool
  | [] => false
  | [.flush b] => b
  | [.close b] => b
  | [_] => false
  | _ :: e :: t => lastFlushed (e :: t)

theorem aux_lastFlushed_snoc (t : List (Ev α)) (e : Ev α) :
    lastFlushed (t ++ [e]) = match e with | .flush b => b | .close b => b | _ => false := by
  induction t with
  | nil => cases e <;> rfl
  | cons a t ih =>
    cases t with
    | nil => cases e <;> simp [lastFlushed]
    | cons b t => simp only [List.cons_append] at ih ⊢; simp only [lastFlushed]; exact ih

structure FMInv (g : α → List β) (it : List (Ev β)) (buf : List β) (ct : List (Ev α)) (ok : Bool) : Prop where
  proto : protoOk it = true
  data : sends it ++ buf = (sends ct).flatMap g
  armed : armedAfter false ct = true → buf = []
  flushed : lastFlushed ct = true → buf = []
  ok : ok = true

theorem aux_flatMap_step (g : α → List β) (k : Snk σ β)
    (c : (((σ × List (Ev β)) × List β) × List (Ev α)) × Bool) (op : Op α)
    (hI : FMInv g c.1.1.1.2 c.1.1.2 c.1.2 c.2)
    (hc : protoOk (stepOp (flatMap g k.recd).recd c op).1.2 = true) :
    FMInv g (stepOp (flatMap g k.recd).recd c op).1.1.1.2 (stepOp (flatMap g k.recd).recd c op).1.1.2
      (stepOp (flatMap g k.recd).recd c op).1.2 (stepOp (flatMap g k.recd).recd c op).2 := by
  obtain ⟨⟨⟨⟨s, it⟩, buf⟩, ct⟩, ok⟩ := c
  obtain ⟨p, d, a, fl, o⟩ := hI
  simp only at p d a fl o
  obtain ⟨de, h1, h2, h3, h4⟩ := aux_drain k buf s it
  have hproto : protoOk (it ++ de) = true := by
    simp only [protoOk, aux_protoOkAux_append, Bool.and_eq_true]; exact ⟨p, h2 _⟩
  have hdata : sends (it ++ de) ++ (drain k.recd (s, it) buf).1.2 = (sends ct).flatMap g := by
    rw [aux_sends_append, List.append_assoc, h3]; exact d
  cases op with
  | ready =>
    simp only [stepOp, flatMap, recd_pollReady, recd_startSend, recd_pollFlush, recd_pollClose] at hc ⊢
    refine ⟨by rw [h1]; exact hproto, by rw [h1, aux_sends_snoc_ready]; exact hdata, ?_, ?_, o⟩
    · intro h
      rw [aux_armedAfter_append] at h
      simp only [armedAfter] at h
      exact h4 h
    · intro h; rw [aux_lastFlushed_snoc] at h; cases h
  | send x =>
    simp only [stepOp, flatMap, recd_pollReady, recd_startSend, recd_pollFlush, recd_pollClose] at hc ⊢
    have harm : armedAfter false ct = true := by
      simp only [protoOk, aux_protoOkAux_append, protoOkAux, Bool.and_eq_true, Bool.and_true] at hc
      exact hc.2
    have hb := a harm
    subst hb
    simp only [List.isEmpty_nil, if_true]
    refine ⟨p, ?_, ?_, ?_, by simp [o]⟩
    · rw [aux_sends_append]; simp only [sends, List.flatMap_append, List.flatMap_cons, List.flatMap_nil, List.append_nil]
      rw [← d]; simp
    · intro h; rw [aux_armedAfter_append] at h; simp [armedAfter] at h
    · intro h; rw [aux_lastFlushed_snoc] at h; cases h
  | flush =>
    simp only [stepOp, flatMap, recd_pollReady, recd_startSend, recd_pollFlush, recd_pollClose] at hc ⊢
    cases hb : (drain k.recd (s, it) buf).2 with
    | false =>
      simp only [hb, Bool.false_eq_true, if_false] at hc ⊢
      refine ⟨by rw [h1]; exact hproto, by rw [h1, aux_sends_snoc_flush]; exact hdata, ?_, ?_, o⟩
      · intro h
        rw [aux_armedAfter_append] at h; simp only [armedAfter] at h
        have := a h; subst this
        have := h3; simp only [List.append_eq_nil_iff] at this; exact this.2
      · intro h; rw [aux_lastFlushed_snoc] at h; cases h
    | true =>
      simp only [hb, if_true] at hc ⊢
      have hnil := h4 hb
      refine ⟨?_, ?_, fun _ => hnil, fun _ => hnil, o⟩
      · rw [h1]; simp only [protoOk, aux_protoOkAux_append, Bool.and_eq_true]
        exact ⟨by simpa [protoOk, aux_protoOkAux_append] using hproto, by simp [protoOkAux]⟩
      · rw [h1, aux_sends_snoc_flush, aux_sends_snoc_flush]; exact hdata
  | close =>
    simp only [stepOp, flatMap, recd_pollReady, recd_startSend, recd_pollFlush, recd_pollClose] at hc ⊢
    cases hb : (drain k.recd (s, it) buf).2 with
    | false =>
      simp only [hb, Bool.false_eq_true, if_false] at hc ⊢
      refine ⟨by rw [h1]; exact hproto, by rw [h1, aux_sends_snoc_close]; exact hdata, ?_, ?_, o⟩
      · intro h
        rw [aux_armedAfter_append] at h; simp only [armedAfter] at h
        have := a h; subst this
        have := h3; simp only [List.append_eq_nil_iff] at this; exact this.2
      · intro h; rw [aux_lastFlushed_snoc] at h; cases h
    | true =>
      simp only [hb, if_true] at hc ⊢
      have hnil := h4 hb
      refine ⟨?_, ?_, fun _ => hnil, fun _ => hnil, o⟩
      · rw [h1]; simp only [protoOk, aux_protoOkAux_append, Bool.and_eq_true]
        exact ⟨by simpa [protoOk, aux_protoOkAux_append] using hproto, by simp [protoOkAux]⟩
      · rw [h1, aux_sends_snoc_close, aux_sends_snoc_close]; exact hdata

theorem aux_stepOp_ct_flatMap (g : α → List β) (k : Snk σ β)
    (c : (((σ × List (Ev β)) × List β) × List (Ev α)) × Bool) (op : Op α) :
    ∃ e, (stepOp (flatMap g k.recd).recd c op).1.2 = c.1.2 ++ [e] := by
  cases op <;> simp [stepOp, recd_pollReady, recd_startSend, recd_pollFlush, recd_pollClose]

theorem aux_flatMap_run (g : α → List β) (k : Snk σ β) (ops : List (Op α)) :
    ∀ (c : (((σ × List (Ev β)) × List β) × List (Ev α)) × Bool),
      (protoOk c.1.2 = true → FMInv g c.1.1.1.2 c.1.1.2 c.1.2 c.2) →
      protoOk (runOps (flatMap g k.recd).recd c ops).1.2 = true →
      FMInv g (runOps (flatMap g k.recd).recd c ops).1.1.1.2 (runOps (flatMap g k.recd).recd c ops).1.1.2
        (runOps (flatMap g k.recd).recd c ops).1.2 (runOps (flatMap g k.recd).recd c ops).2 := by
  induction ops with
  | nil => intro c h hc; exact h hc
  | cons op ops ih =>
    intro c h hc
    simp only [runOps, List.foldl_cons] at ih hc ⊢
    apply ih _ _ hc
    intro hc'
    obtain ⟨e, he⟩ := aux_stepOp_ct_flatMap g k c op
    have hpre : protoOk c.1.2 = true := by rw [he] at hc'; exact aux_protoOk_prefix _ _ hc'
    exact aux_flatMap_step g k c op (h hpre) hc'

/-- **`FlatMap`** (and `Flatten` = `FlatMap id`): for every inner sink and every client that honours
the contract: the inner sink sees a contract-honouring call sequence; what it received followed by
what is still buffered is exactly the flattening of the client's items (order, no loss, no
duplicate); `start_send` never hits the "Sink not ready" assertion; and once a flush or close
answered `Ready` nothing is buffered any more. -/
theorem flatMap_delivers_in_order (g : α → List β) (k : Snk σ β) (s : σ) (ops : List (Op α)) :
    let r := runOps (flatMap g k.recd).recd ((((s, []), []), []), true) ops
    protoOk r.1.2 = true →
      protoOk r.1.1.1.2 = true ∧ sends r.1.1.1.2 ++ r.1.1.2 = (sends r.1.2).flatMap g ∧ r.2 = true ∧
      (lastFlushed r.1.2 = true → sends r.1.1.1.2 = (sends r.1.2).flatMap g) := by
  intro r hc
  have h := aux_flatMap_run g k ops ((((s, []), []), []), true)
    (fun _ => ⟨rfl, rfl, fun _ => rfl, fun _ => rfl, rfl⟩) hc
  refine ⟨h.proto, h.data, h.ok, fun hf => ?_⟩
  have := h.data; rw [h.flushed hf, List.append_nil] at this; exact this

theorem flatten_delivers_in_order (k : Snk σ β) (s : σ) (ops : List (Op (List β))) :
    let r := runOps (flatten k.recd).recd ((((s, []), []), []), true) ops
    protoOk r.1.2 = true →
      protoOk r.1.1.1.2 = true ∧ sends r.1.1.1.2 ++ r.1.1.2 = (sends r.1.2).flatMap id ∧ r.2 = true :=
  fun hc => let h := flatMap_delivers_in_order id k s ops hc; ⟨h.1, h.2.1, h.2.2.1⟩


/-! ### `Unzip` -/

structure UZInv {γ : Type} (it₀ : List (Ev α)) (it₁ : List (Ev γ)) (ct : List (Ev (α × γ))) : Prop where
  p₀ : protoOk it₀ = true
  p₁ : protoOk it₁ = true
  d₀ : sends it₀ = (sends ct).map (·.1)
  d₁ : sends it₁ = (sends ct).map (·.2)
  armed : armedAfter false ct = true → armedAfter false it₀ = true ∧ armedAfter false it₁ = true

theorem aux_protoOk_snoc_poll (t : List (Ev α)) (e : Ev α) (h : protoOk t = true)
    (he : ∀ x, e ≠ .send x) : protoOk (t ++ [e]) = true := by
  simp only [protoOk, aux_protoOkAux_append, Bool.and_eq_true]
  refine ⟨h, ?_⟩
  cases e with
  | send x => exact absurd rfl (he x)
  | ready b => simp [protoOkAux]
  | flush b => simp [protoOkAux]
  | close b => simp [protoOkAux]

theorem aux_unzip_step {γ τ : Type} (k₀ : Snk σ α) (k₁ : Snk τ γ)
    (c : (((σ × List (Ev α)) × (τ × List (Ev γ))) × List (Ev (α × γ))) × Bool) (op : Op (α × γ))
    (hI : UZInv c.1.1.1.2 c.1.1.2.2 c.1.2)
    (hc : protoOk (stepOp (unzip k₀.recd k₁.recd).recd c op).1.2 = true) :
    UZInv (stepOp (unzip k₀.recd k₁.recd).recd c op).1.1.1.2
      (stepOp (unzip k₀.recd k₁.recd).recd c op).1.1.2.2 (stepOp (unzip k₀.recd k₁.recd).recd c op).1.2 := by
  obtain ⟨⟨⟨⟨s₀, it₀⟩, ⟨s₁, it₁⟩⟩, ct⟩, ok⟩ := c
  obtain ⟨p₀, p₁, d₀, d₁, ar⟩ := hI
  simp only at p₀ p₁ d₀ d₁ ar
  cases op with
  | ready =>
    simp only [stepOp, unzip, recd_pollReady] at hc ⊢
    refine ⟨aux_protoOk_snoc_poll _ _ p₀ (by simp), aux_protoOk_snoc_poll _ _ p₁ (by simp),
      by rw [aux_sends_snoc_ready, aux_sends_snoc_ready]; exact d₀,
      by rw [aux_sends_snoc_ready, aux_sends_snoc_ready]; exact d₁, ?_⟩
    intro h
    simp only [aux_armedAfter_append, armedAfter, Bool.and_eq_true] at h ⊢
    exact h
  | send x =>
    simp only [stepOp, unzip, recd_startSend] at hc ⊢
    have harm : armedAfter false ct = true := by
      simp only [protoOk, aux_protoOkAux_append, protoOkAux, Bool.and_eq_true, Bool.and_true] at hc
      exact hc.2
    obtain ⟨a₀, a₁⟩ := ar harm
    refine ⟨?_, ?_, by rw [aux_sends_snoc_send, aux_sends_snoc_send, d₀]; simp,
      by rw [aux_sends_snoc_send, aux_sends_snoc_send, d₁]; simp, ?_⟩
    · simp only [protoOk, aux_protoOkAux_append, protoOkAux, Bool.and_eq_true, Bool.and_true]
      exact ⟨p₀, a₀⟩
    · simp only [protoOk, aux_protoOkAux_append, protoOkAux, Bool.and_eq_true, Bool.and_true]
      exact ⟨p₁, a₁⟩
    · intro h; simp [aux_armedAfter_append, armedAfter] at h
  | flush =>
    simp only [stepOp, unzip, recd_pollFlush] at hc ⊢
    refine ⟨aux_protoOk_snoc_poll _ _ p₀ (by simp), aux_protoOk_snoc_poll _ _ p₁ (by simp),
      by rw [aux_sends_snoc_flush, aux_sends_snoc_flush]; exact d₀,
      by rw [aux_sends_snoc_flush, aux_sends_snoc_flush]; exact d₁, ?_⟩
    intro h
    simp only [aux_armedAfter_append, armedAfter] at h ⊢
    exact ar h
  | close =>
    simp only [stepOp, unzip, recd_pollClose] at hc ⊢
    refine ⟨aux_protoOk_snoc_poll _ _ p₀ (by simp), aux_protoOk_snoc_poll _ _ p₁ (by simp),
      by rw [aux_sends_snoc_close, aux_sends_snoc_close]; exact d₀,
      by rw [aux_sends_snoc_close, aux_sends_snoc_close]; exact d₁, ?_⟩
    intro h
    simp only [aux_armedAfter_append, armedAfter] at h ⊢
    exact ar h

theorem aux_unzip_run {γ τ : Type} (k₀ : Snk σ α) (k₁ : Snk τ γ) (ops : List (Op (α × γ))) :
    ∀ (c : (((σ × List (Ev α)) × (τ × List (Ev γ))) × List (Ev (α × γ))) × Bool),
      (protoOk c.1.2 = true → UZInv c.1.1.1.2 c.1.1.2.2 c.1.2) →
      protoOk (runOps (unzip k₀.recd k₁.recd).recd c ops).1.2 = true →
      UZInv (runOps (unzip k₀.recd k₁.recd).recd c ops).1.1.1.2
        (runOps (unzip k₀.recd k₁.recd).recd c ops).1.1.2.2 (runOps (unzip k₀.recd k₁.recd).recd c ops).1.2 := by
  induction ops with
  | nil => intro c h hc; exact h hc
  | cons op ops ih =>
    intro c h hc
    simp only [runOps, List.foldl_cons] at ih hc ⊢
    apply ih _ _ hc
    intro hc'
    have hpre : protoOk c.1.2 = true := by
      have : ∃ e, (stepOp (unzip k₀.recd k₁.recd).recd c op).1.2 = c.1.2 ++ [e] := by
        cases op <;> simp [stepOp, recd_pollReady, recd_startSend, recd_pollFlush, recd_pollClose]
      obtain ⟨e, he⟩ := this
      rw [he] at hc'; exact aux_protoOk_prefix _ _ hc'
    exact aux_unzip_step k₀ k₁ c op (h hpre) hc'

/-- **`Unzip`**: for all inner sinks and every contract-honouring client, both inner sinks see a
contract-honouring call sequence, the first receives exactly the first components and the second
exactly the second components, in order, once. -/
theorem unzip_routes_in_order {γ τ : Type} (k₀ : Snk σ α) (k₁ : Snk τ γ) (s₀ : σ) (s₁ : τ)
    (ops : List (Op (α × γ))) :
    let r := runOps (unzip k₀.recd k₁.recd).recd ((((s₀, []), (s₁, [])), []), true) ops
    protoOk r.1.2 = true →
      protoOk r.1.1.1.2 = true ∧ protoOk r.1.1.2.2 = true ∧
      sends r.1.1.1.2 = (sends r.1.2).map (·.1) ∧ sends r.1.1.2.2 = (sends r.1.2).map (·.2) := by
  intro r hc
  have h := aux_unzip_run k₀ k₁ ops ((((s₀, []), (s₁, [])), []), true)
    (fun _ => ⟨rfl, rfl, rfl, rfl, fun h => by simp [armedAfter] at h⟩) hc
  exact ⟨h.p₀, h.p₁, h.d₀, h.d₁⟩

/-! ### the drivers are contract-honouring clients -/

/-- one `SendIter::poll` appends a self-contained, contract-honouring burst of calls that sends a
prefix of the remaining items; it returns `Ready` only when every item was sent and the final
flush answered `Ready`. -/
theorem sendIter_is_polite_client (k : Snk σ α) (items : List α) : ∀ (s : σ) (ct : List (Ev α)),
    ∃ de, (sendIterPoll k.recd (s, ct) items).1.2 = ct ++ de ∧ (∀ a, protoOkAux a de = true) ∧
      sends de ++ (sendIterPoll k.recd (s, ct) items).2.1 = items ∧
      ((sendIterPoll k.recd (s, ct) items).2.2 = true →
        (sendIterPoll k.recd (s, ct) items).2.1 = [] ∧ lastFlushed (ct ++ de) = true) := by
  induction items with
  | nil =>
    intro s ct
    cases hb : (k.pollReady s).2 with
    | false =>
      exact ⟨[.ready false], by simp [sendIterPoll, recd_pollReady, hb], fun a => by simp [protoOkAux],
        by simp [sendIterPoll, recd_pollReady, hb, sends], by simp [sendIterPoll, recd_pollReady, hb]⟩
    | true =>
      refine ⟨[.ready true, .flush (k.pollFlush (k.pollReady s).1).2], ?_, fun a => by simp [protoOkAux], ?_, ?_⟩
      · simp [sendIterPoll, recd_pollReady, recd_pollFlush, hb]
      · simp [sendIterPoll, recd_pollReady, recd_pollFlush, hb, sends]
      · intro h
        simp only [sendIterPoll, recd_pollReady, recd_pollFlush, hb, if_true] at h ⊢
        refine ⟨trivial, ?_⟩
        have : ct ++ [Ev.ready true, Ev.flush (k.pollFlush (k.pollReady s).1).2] =
            (ct ++ [Ev.ready true]) ++ [Ev.flush (k.pollFlush (k.pollReady s).1).2] := by simp
        rw [this, aux_lastFlushed_snoc]; exact h
  | cons x rest ih =>
    intro s ct
    cases hb : (k.pollReady s).2 with
    | false =>
      exact ⟨[.ready false], by simp [sendIterPoll, recd_pollReady, hb], fun a => by simp [protoOkAux],
        by simp [sendIterPoll, recd_pollReady, hb, sends], by simp [sendIterPoll, recd_pollReady, hb]⟩
    | true =>
      obtain ⟨de, h1, h2, h3, h4⟩ := ih (k.startSend (k.pollReady s).1 x).1 (ct ++ [.ready true] ++ [.send x])
      have hd : sendIterPoll k.recd (s, ct) (x :: rest) =
          sendIterPoll k.recd ((k.startSend (k.pollReady s).1 x).1, ct ++ [.ready true] ++ [.send x]) rest := by
        simp only [sendIterPoll, recd_pollReady, recd_startSend, hb, if_true]
      rw [hd]
      refine ⟨[.ready true, .send x] ++ de, by rw [h1]; simp, fun a => by simp [protoOkAux, h2], ?_, ?_⟩
      · simp only [List.cons_append, List.nil_append, sends]; rw [h3]
      · intro h
        obtain ⟨e1, e2⟩ := h4 h
        refine ⟨e1, ?_⟩
        have : ct ++ ([Ev.ready true, Ev.send x] ++ de) = ct ++ [Ev.ready true] ++ [Ev.send x] ++ de := by simp
        rw [this]; exact e2

/-! ### `LazySink` -/

def lzTrace : LZ (σ × List (Ev α)) α → List (Ev α)
  | .uninit _ mk => mk.2
  | .thunk _ mk _ => mk.2
  | .done s _ => s.2

def lzPending {τ : Type} : LZ τ α → List α
  | .thunk _ _ x => [x]
  | .done _ (some x) => [x]
  | _ => []

def lzUninit {τ : Type} : LZ τ α → Bool
  | .uninit _ _ => true
  | _ => false

/-- in which states the client may legitimately call `start_send` -/
def lzArmedOk : LZ (σ × List (Ev α)) α → Bool
  | .uninit _ _ => true
  | .done s none => armedAfter false s.2
  | _ => false

/-- the last call was a poll that answered `Ready` -/
def lastTrue : List (Ev α) → Bool
  | [] => false
  | [.ready b] => b
  | [.flush b] => b
  | [.close b] => b
  | [_] => false
  | _ :: e :: t => lastTrue (e :: t)

theorem aux_lastTrue_snoc (t : List (Ev α)) (e : Ev α) :
    lastTrue (t ++ [e]) = match e with | .ready b => b | .flush b => b | .close b => b | _ => false := by
  induction t with
  | nil => cases e <;> rfl
  | cons a t ih =>
    cases t with
    | nil => cases e <;> simp [lastTrue]
    | cons b t => simp only [List.cons_append] at ih ⊢; simp only [lastTrue]; exact ih

structure LZInv (l : LazySt (σ × List (Ev α)) α) (ct : List (Ev α)) (ok : Bool) : Prop where
  proto : protoOk (lzTrace l.st) = true
  data : sends (lzTrace l.st) ++ lzPending l.st = sends ct
  once : (lzUninit l.st = true → l.inits = 0) ∧ (lzUninit l.st = false → l.inits = 1)
  armed : armedAfter false ct = true → lzArmedOk l.st = true
  polled : lastTrue ct = true → lzPending l.st = []

/-- the effect of `poll_sink_op` with one of the three polls of a recorded inner sink: `mkEv` is the
event that poll records, `isReady` says whether it is `poll_ready` -/
theorem aux_lazyOp (k : Snk σ α) (op : σ × List (Ev α) → (σ × List (Ev α)) × Bool) (mkEv : Bool → Ev α)
    (isReady : Bool)
    (hop : ∀ p, (op p).1.2 = p.2 ++ [mkEv (op p).2])
    (hns : ∀ b x, mkEv b ≠ .send x)
    (harm : ∀ a b, armedAfter a [mkEv b] = if isReady then b else a)
    (hlast : ∀ t b, lastTrue (t ++ [mkEv b]) = b)
    (l : LazySt (σ × List (Ev α)) α) (ct : List (Ev α)) (ok : Bool) (hI : LZInv l ct ok)
    (harmed : armedAfter false ct = true → isReady = false → True) :
    LZInv (lazyOp k.recd op l).1 (ct ++ [mkEv (lazyOp k.recd op l).2]) ok := by
  obtain ⟨inits, p, d, on, ar, po⟩ : ∃ i, protoOk (lzTrace l.st) = true ∧ _ ∧ _ ∧ _ ∧ _ :=
    ⟨l.inits, hI.proto, hI.data, hI.once, hI.armed, hI.polled⟩
  have hsn : ∀ (t : List (Ev α)) b, sends (t ++ [mkEv b]) = sends t := by
    intro t b; rw [aux_sends_append]
    cases h : mkEv b with
    | send x => exact absurd h (hns b x)
    | ready _ => simp [sends]
    | flush _ => simp [sends]
    | close _ => simp [sends]
  have hpo : ∀ (t : List (Ev α)) b, protoOk t = true → protoOk (t ++ [mkEv b]) = true :=
    fun t b h => aux_protoOk_snoc_poll t _ h (hns b)
  have hburst : ∀ (t : List (Ev α)) (x : α), protoOk t = true →
      protoOk (t ++ [.ready true] ++ [.send x]) = true := by
    intro t x h
    simp only [protoOk, aux_protoOkAux_append, protoOkAux, armedAfter, Bool.and_eq_true, Bool.and_true] at h ⊢
    simp [h, aux_armedAfter_append, armedAfter]
  rcases l with ⟨st, ini⟩
  cases st with
  | uninit fut mk =>
    simp only [lazyOp]
    refine ⟨p, by rw [hsn]; exact d, on, ?_, fun _ => rfl⟩
    intro _; rfl
  | thunk fut mk item =>
    simp only [lzTrace, lzPending, lzUninit] at p d on
    simp only [lazyOp]
    cases hf : (futPoll fut).2 with
    | false =>
      simp only [hf, Bool.false_eq_true, if_false]
      refine ⟨p, by rw [hsn]; exact d, by simpa [lzUninit] using on, ?_, ?_⟩
      · intro h; rw [aux_armedAfter_append, harm] at h
        cases isReady <;> simp_all [lzArmedOk]
      · intro h; rw [hlast] at h; cases h
    | true =>
      simp only [hf, if_true, recd_pollReady, recd_startSend]
      by_cases hb0 : (k.pollReady mk.1).2 = true
      case neg =>
        have hb : (k.pollReady mk.1).2 = false := by simpa using hb0
        simp only [hb, Bool.false_eq_true, if_false]
        refine ⟨by simp only [lzTrace]; exact aux_protoOk_snoc_poll _ _ p (by simp),
          by simp only [lzTrace, lzPending]; rw [hsn, aux_sends_snoc_ready]; exact d,
          by simpa [lzUninit] using on, ?_, ?_⟩
        · intro h; rw [aux_armedAfter_append, harm] at h
          cases isReady <;> simp_all [lzArmedOk]
        · intro h; rw [hlast] at h; cases h
      case pos =>
        simp only [hb0, if_true]
        refine ⟨?_, ?_, by simpa [lzUninit] using on, ?_, fun _ => rfl⟩
        · simp only [lzTrace]; rw [hop]; exact hpo _ _ (hburst _ _ p)
        · simp only [lzTrace, lzPending, List.append_nil]
          rw [hop, hsn, hsn, aux_sends_snoc_send, aux_sends_snoc_ready]; exact d
        · intro h
          rw [aux_armedAfter_append, harm] at h
          simp only [lzArmedOk]
          rw [hop, aux_armedAfter_append, harm]
          cases isReady
          · simp only [Bool.false_eq_true, if_false] at h ⊢
            have := ar h; simp [lzArmedOk] at this
          · simpa using h
  | done s buf =>
    simp only [lzTrace, lzPending, lzUninit] at p d on
    cases buf with
    | some item =>
      simp only [lazyOp, recd_pollReady, recd_startSend]
      by_cases hb0 : (k.pollReady s.1).2 = true
      case neg =>
        have hb : (k.pollReady s.1).2 = false := by simpa using hb0
        simp only [hb, Bool.false_eq_true, if_false]
        refine ⟨by simp only [lzTrace]; exact aux_protoOk_snoc_poll _ _ p (by simp),
          by simp only [lzTrace, lzPending]; rw [hsn, aux_sends_snoc_ready]; exact d,
          by simpa [lzUninit] using on, ?_, ?_⟩
        · intro h; rw [aux_armedAfter_append, harm] at h
          cases isReady <;> simp_all [lzArmedOk]
        · intro h; rw [hlast] at h; cases h
      case pos =>
        simp only [hb0, if_true]
        refine ⟨?_, ?_, by simpa [lzUninit] using on, ?_, fun _ => rfl⟩
        · simp only [lzTrace]; rw [hop]; exact hpo _ _ (hburst _ _ p)
        · simp only [lzTrace, lzPending, List.append_nil]
          rw [hop, hsn, hsn, aux_sends_snoc_send, aux_sends_snoc_ready]; exact d
        · intro h
          rw [aux_armedAfter_append, harm] at h
          simp only [lzArmedOk]
          rw [hop, aux_armedAfter_append, harm]
          cases isReady
          · simp only [Bool.false_eq_true, if_false] at h ⊢
            have := ar h; simp [lzArmedOk] at this
          · simpa using h
    | none =>
      simp only [lazyOp]
      refine ⟨by simp only [lzTrace]; rw [hop]; exact hpo _ _ p,
        by simp only [lzTrace, lzPending]; rw [hop, hsn, hsn]; exact d,
        by simpa [lzUninit] using on, ?_, fun _ => rfl⟩
      intro h
      rw [aux_armedAfter_append, harm] at h
      simp only [lzArmedOk]
      rw [hop, aux_armedAfter_append, harm]
      cases isReady
      · simp only [Bool.false_eq_true, if_false] at h ⊢
        have := ar h; simpa [lzArmedOk] using this
      · simpa using h

theorem aux_lazy_step (k : Snk σ α) (c : (LazySt (σ × List (Ev α)) α × List (Ev α)) × Bool) (op : Op α)
    (hI : LZInv c.1.1 c.1.2 c.2)
    (hc : protoOk (stepOp (lazySink k.recd).recd c op).1.2 = true) :
    LZInv (stepOp (lazySink k.recd).recd c op).1.1 (stepOp (lazySink k.recd).recd c op).1.2
      (stepOp (lazySink k.recd).recd c op).2 := by
  obtain ⟨⟨l, ct⟩, ok⟩ := c
  cases op with
  | ready =>
    simp only [stepOp, recd_pollReady, lazySink]
    exact aux_lazyOp k k.recd.pollReady .ready true (fun p => by rw [recd_pollReady]) (by simp)
      (by intro a b; simp [armedAfter]) (by intro t b; rw [aux_lastTrue_snoc]) l ct ok hI (fun _ _ => trivial)
  | flush =>
    simp only [stepOp, recd_pollFlush, lazySink]
    exact aux_lazyOp k k.recd.pollFlush .flush false (fun p => by rw [recd_pollFlush]) (by simp)
      (by intro a b; simp [armedAfter]) (by intro t b; rw [aux_lastTrue_snoc]) l ct ok hI (fun _ _ => trivial)
  | close =>
    simp only [stepOp, recd_pollClose, lazySink]
    exact aux_lazyOp k k.recd.pollClose .close false (fun p => by rw [recd_pollClose]) (by simp)
      (by intro a b; simp [armedAfter]) (by intro t b; rw [aux_lastTrue_snoc]) l ct ok hI (fun _ _ => trivial)
  | send x =>
    simp only [stepOp, recd_startSend] at hc ⊢
    have harm : armedAfter false ct = true := by
      simp only [protoOk, aux_protoOkAux_append, protoOkAux, Bool.and_eq_true, Bool.and_true] at hc
      exact hc.2
    obtain ⟨p, d, on, ar, po⟩ := hI
    simp only at p d on ar po
    have hok := ar harm
    rcases l with ⟨st, ini⟩
    cases st with
    | uninit fut mk =>
      simp only [lzTrace, lzPending, lzUninit] at p d on
      simp only [lazySink]
      refine ⟨p, by simp only [lzTrace, lzPending]; rw [aux_sends_snoc_send, ← d]; simp, ?_, ?_, ?_⟩
      · simp only [lzUninit]; constructor
        · intro h; cases h
        · intro _; have := on.1 trivial; omega
      · intro h; simp [aux_armedAfter_append, armedAfter] at h
      · intro h; rw [aux_lastTrue_snoc] at h; cases h
    | thunk fut mk item => simp [lzArmedOk] at hok
    | done s buf =>
      cases buf with
      | some item => simp [lzArmedOk] at hok
      | none =>
        simp only [lzArmedOk] at hok
        simp only [lzTrace, lzPending, lzUninit] at p d on
        simp only [lazySink, recd_startSend]
        refine ⟨?_, by simp only [lzTrace, lzPending]; rw [aux_sends_snoc_send, aux_sends_snoc_send, ← d]; simp,
          by simpa [lzUninit] using on, ?_, ?_⟩
        · simp only [lzTrace, protoOk, aux_protoOkAux_append, protoOkAux, Bool.and_eq_true, Bool.and_true]
          exact ⟨p, hok⟩
        · intro h; simp [aux_armedAfter_append, armedAfter] at h
        · intro h; rw [aux_lastTrue_snoc] at h; cases h

theorem aux_lazy_run (k : Snk σ α) (ops : List (Op α)) :
    ∀ (c : (LazySt (σ × List (Ev α)) α × List (Ev α)) × Bool),
      (protoOk c.1.2 = true → LZInv c.1.1 c.1.2 c.2) →
      protoOk (runOps (lazySink k.recd).recd c ops).1.2 = true →
      LZInv (runOps (lazySink k.recd).recd c ops).1.1 (runOps (lazySink k.recd).recd c ops).1.2
        (runOps (lazySink k.recd).recd c ops).2 := by
  induction ops with
  | nil => intro c h hc; exact h hc
  | cons op ops ih =>
    intro c h hc
    simp only [runOps, List.foldl_cons] at ih hc ⊢
    apply ih _ _ hc
    intro hc'
    have hpre : protoOk c.1.2 = true := by
      have : ∃ e, (stepOp (lazySink k.recd).recd c op).1.2 = c.1.2 ++ [e] := by
        cases op <;> simp [stepOp, recd_pollReady, recd_startSend, recd_pollFlush, recd_pollClose]
      obtain ⟨e, he⟩ := this
      rw [he] at hc'; exact aux_protoOk_prefix _ _ hc'
    exact aux_lazy_step k c op (h hpre) hc'

/-- **`LazySink`** over any inner sink `k` (fresh state `s`), any init-future script `fut`, any
contract-honouring client:
 * the inner sink sees a contract-honouring call sequence (`start_send` only after its own `Ready`);
 * *no item lost*: what the inner sink received, followed by the one item that may still be held
   (sent before or during initialisation), is exactly what the client sent, in order, once;
 * *initialised at most once*: the init closure ran 0 times while `Uninit`, exactly once afterwards;
 * whenever the client may send (`Ready` was answered) the sink is `Uninit` or `Done` with an empty
   buffer — the "`LazySink` not ready" panic is unreachable;
 * once any poll answered `Ready`, nothing is held back any more. -/
theorem lazySink_no_item_lost_init_once (k : Snk σ α) (s : σ) (fut : List Bool) (ops : List (Op α)) :
    let r := runOps (lazySink k.recd).recd ((⟨.uninit fut (s, []), 0⟩, []), true) ops
    protoOk r.1.2 = true →
      protoOk (lzTrace r.1.1.st) = true ∧
      sends (lzTrace r.1.1.st) ++ lzPending r.1.1.st = sends r.1.2 ∧
      r.1.1.inits ≤ 1 ∧ (r.1.1.inits = 0 ↔ lzUninit r.1.1.st = true) ∧
      (armedAfter false r.1.2 = true → lzArmedOk r.1.1.st = true) ∧
      (lastTrue r.1.2 = true → sends (lzTrace r.1.1.st) = sends r.1.2) := by
  intro r hc
  have h := aux_lazy_run k ops ((⟨.uninit fut (s, []), 0⟩, []), true)
    (fun _ => ⟨rfl, rfl, ⟨fun _ => rfl, fun h => by simp [lzUninit] at h⟩, fun _ => rfl, fun _ => rfl⟩) hc
  have h1 : lzUninit r.1.1.st = true → r.1.1.inits = 0 := h.once.1
  have h2 : lzUninit r.1.1.st = false → r.1.1.inits = 1 := h.once.2
  refine ⟨h.proto, h.data, ?_, ?_, h.armed, fun hl => ?_⟩
  · cases hu : lzUninit r.1.1.st with
    | true => have := h1 hu; omega
    | false => have := h2 hu; omega
  · constructor
    · intro h0
      cases hu : lzUninit r.1.1.st with
      | true => rfl
      | false => have := h2 hu; omega
    · exact h1
  · have := h.data; rw [h.polled hl, List.append_nil] at this; exact this

/-! ### findings: the contract broken by the code as it is (F4, F4b, F5) -/

/-- F4: `LazySinkHalf::poll_ready` answers `Ready` in `Uninit`; the source half is polled while the
init future is pending; the client's `start_send` — allowed by the contract — panics. -/
theorem lazySinkSource_send_after_ready_refuted :
    let l₀ : LssSt DR Nat := ⟨.uninit [false, true] [none, some 7] (⟨[], [], []⟩, []), 0⟩
    let r₁ := (lssSink dsnk).pollReady l₀
    let r₂ := lssNext r₁.1
    r₁.2 = true ∧ r₂.2 = .pending ∧ ((lssSink dsnk).startSend r₂.1 1).2 = false := by
  decide

/-- F4b: same interleaving with a future that is ready at once: the item reaches the inner sink's
`start_send` although the inner sink was never asked `poll_ready`. -/
theorem lazySinkSource_inner_contract_refuted :
    let l₀ : LssSt DR Nat := ⟨.uninit [true] [some 7] (⟨[], [], []⟩, []), 0⟩
    let r₁ := (lssSink dsnk).pollReady l₀
    let r₂ := lssNext r₁.1
    let r₃ := (lssSink dsnk).startSend r₂.1 1
    r₁.2 = true ∧ r₂.2 = .item 7 ∧ r₃.2 = true ∧
      (match r₃.1.st with | .done _ d _ => protoOk d.2 | _ => true) = false := by
  decide

/-- F5: `LazyDemuxSink`: `poll_ready` over the (empty) map answers `Ready`, `start_send` for a new
key calls the fresh sink's `start_send` without `poll_ready`. -/
theorem lazyDemux_send_after_ready_refuted :
    let mk : Nat → DR := fun _ => (⟨[], [], []⟩, [])
    let r₁ := (lazyDemux mk dsnk).pollReady []
    let r₂ := (lazyDemux mk dsnk).startSend r₁.1 (1, 5)
    r₁.2 = true ∧ r₂.2 = true ∧ (r₂.1.map fun e => protoOk e.2.2) = [false] := by
  decide

/-! ### non-vacuity -/

example : protoOk ([.ready false, .ready true, .send 3, .flush true] : List (Ev Nat)) = true := by decide
example : protoOk ([.ready true, .send 3, .send 4] : List (Ev Nat)) = false := by decide

/-- a `flat_map` run over a downstream that is pending twice: contract kept, everything delivered -/
example :
    let r := runOps (flatMap (fun x => [x, x + 1]) dsnk).recd
      ((((⟨[false, true, false], [], []⟩, []), []), []), true) [.ready, .send 1, .ready, .ready, .ready, .send 5, .flush]
    protoOk r.1.2 = true ∧ sends r.1.1.1.2 = [1, 2, 5, 6] ∧ lastFlushed r.1.2 = true := by
  decide

end HvSink.Sink
