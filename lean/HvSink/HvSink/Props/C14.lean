/-
C14 — Sink adaptors route every item to the right sink, once, in order.

Setting.  An adaptor `A` is built over an *arbitrary* inner sink `k` (any state machine — so
"every readiness pattern" is every behaviour of `k`).  Both interfaces are recorded
(`Snk.recd`): `ct` = the calls the client makes on `A` with their answers, `it` = the calls `A`
makes on `k`.  A client is any list of operations `ops`; it honours the `Sink` contract iff
`protoOk ct`.  Theorems have the compositional form
   client honours the contract on `A`  ⟹  `A` honours it on `k`, and `sends it` = spec (`sends ct`)
so they chain through stacked adaptors.  Helper lemmas are `aux_*`.
-/
import HvSink.Model.Sink

namespace HvSink.Sink
open List

variable {σ α β : Type}

inductive Op (α : Type) | ready | send (x : α) | flush | close
  deriving Repr, DecidableEq

/-- one client call; the Boolean accumulates "no `start_send` has panicked so far" -/
def stepOp (k : Snk σ α) (c : σ × Bool) : Op α → σ × Bool
  | .ready => ((k.pollReady c.1).1, c.2)
  | .send x => ((k.startSend c.1 x).1, c.2 && (k.startSend c.1 x).2)
  | .flush => ((k.pollFlush c.1).1, c.2)
  | .close => ((k.pollClose c.1).1, c.2)

def runOps (k : Snk σ α) (c : σ × Bool) (ops : List (Op α)) : σ × Bool := ops.foldl (stepOp k) c

theorem aux_runOps_snoc (k : Snk σ α) (c : σ × Bool) (ops : List (Op α)) (op : Op α) :
    runOps k c (ops ++ [op]) = stepOp k (runOps k c ops) op := by
  simp [runOps, List.foldl_append]

/-! ### the contract on traces -/

def armedAfter : Bool → List (Ev α) → Bool
  | a, [] => a
  | _, .ready b :: t => armedAfter b t
  | _, .send _ :: t => armedAfter false t
  | a, .flush _ :: t => armedAfter a t
  | a, .close _ :: t => armedAfter a t

theorem aux_protoOkAux_append (a : Bool) (t₁ t₂ : List (Ev α)) :
    protoOkAux a (t₁ ++ t₂) = (protoOkAux a t₁ && protoOkAux (armedAfter a t₁) t₂) := by
  induction t₁ generalizing a with
  | nil => simp [protoOkAux, armedAfter]
  | cons e t ih => cases e <;> simp [protoOkAux, armedAfter, ih, Bool.and_assoc]

theorem aux_armedAfter_append (a : Bool) (t₁ t₂ : List (Ev α)) :
    armedAfter a (t₁ ++ t₂) = armedAfter (armedAfter a t₁) t₂ := by
  induction t₁ generalizing a with
  | nil => rfl
  | cons e t ih => cases e <;> simp [armedAfter, ih]

theorem aux_sends_append (t₁ t₂ : List (Ev α)) : sends (t₁ ++ t₂) = sends t₁ ++ sends t₂ := by
  induction t₁ with
  | nil => rfl
  | cons e t ih => cases e <;> simp [sends, ih]

theorem aux_protoOk_prefix (t₁ t₂ : List (Ev α)) (h : protoOk (t₁ ++ t₂) = true) : protoOk t₁ = true := by
  simp only [protoOk, aux_protoOkAux_append, Bool.and_eq_true] at h
  exact h.1

theorem aux_protoOkAux_mono (t : List (Ev α)) (h : protoOkAux false t = true) (a : Bool) :
    protoOkAux a t = true := by
  induction t with
  | nil => rfl
  | cons e t ih => cases e <;> simp_all [protoOkAux]

/-! ### `Map` -/

def mapEv (f : α → β) : Ev α → Ev β
  | .ready b => .ready b
  | .send x => .send (f x)
  | .flush b => .flush b
  | .close b => .close b

theorem aux_protoOkAux_map (f : α → β) (a : Bool) (t : List (Ev α)) :
    protoOkAux a (t.map (mapEv f)) = protoOkAux a t := by
  induction t generalizing a with
  | nil => rfl
  | cons e t ih => cases e <;> simp [protoOkAux, mapEv, ih]

theorem aux_sends_map (f : α → β) (t : List (Ev α)) : sends (t.map (mapEv f)) = (sends t).map f := by
  induction t with
  | nil => rfl
  | cons e t ih => cases e <;> simp [sends, mapEv, ih]

/-- `Map` forwards every call one-to-one: the inner trace is the client trace with `f` applied to
the items — for every inner sink and every client. -/
theorem map_trace (f : α → β) (k : Snk σ β) (c : ((σ × List (Ev β)) × List (Ev α)) × Bool)
    (ops : List (Op α)) (h : c.1.1.2 = c.1.2.map (mapEv f)) :
    (runOps (map f k.recd).recd c ops).1.1.2 = (runOps (map f k.recd).recd c ops).1.2.map (mapEv f) := by
  induction ops generalizing c with
  | nil => exact h
  | cons op ops ih =>
    simp only [runOps, List.foldl_cons] at ih ⊢
    apply ih
    cases op <;> simp [stepOp, map, Snk.recd, h, mapEv]

/-- `Map`: honours the contract downstream iff the client does, and delivers exactly `f` of every
item, in order, once. -/
theorem map_delivers_in_order (f : α → β) (k : Snk σ β) (s : σ) (ops : List (Op α)) :
    let r := runOps (map f k.recd).recd (((s, []), []), true) ops
    protoOk r.1.1.2 = protoOk r.1.2 ∧ sends r.1.1.2 = (sends r.1.2).map f := by
  intro r
  have h := map_trace f k (((s, []), []), true) ops rfl
  exact ⟨by rw [h]; exact aux_protoOkAux_map f false _, by rw [h]; exact aux_sends_map f _⟩

/-! ### `Filter`, `FilterMap` -/

def filterMapEv (g : α → Option β) : List (Ev α) → List (Ev β)
  | [] => []
  | .ready b :: t => .ready b :: filterMapEv g t
  | .send x :: t => match g x with
    | some y => .send y :: filterMapEv g t
    | none => filterMapEv g t
  | .flush b :: t => .flush b :: filterMapEv g t
  | .close b :: t => .close b :: filterMapEv g t

theorem aux_filterMapEv_append (g : α → Option β) (t₁ t₂ : List (Ev α)) :
    filterMapEv g (t₁ ++ t₂) = filterMapEv g t₁ ++ filterMapEv g t₂ := by
  induction t₁ with
  | nil => rfl
  | cons e t ih =>
    cases e with
    | send x => simp only [List.cons_append, filterMapEv]; cases g x <;> simp [ih]
    | ready b => simp [filterMapEv, ih]
    | flush b => simp [filterMapEv, ih]
    | close b => simp [filterMapEv, ih]

/-- dropping `send`s never breaks the contract -/
theorem aux_protoOk_filterMapEv (g : α → Option β) (t : List (Ev α)) :
    ∀ a b : Bool, (a = true → b = true) → protoOkAux a t = true → protoOkAux b (filterMapEv g t) = true := by
  induction t with
  | nil => intros; rfl
  | cons e t ih =>
    intro a b hab h
    cases e with
    | ready r => simp only [protoOkAux, filterMapEv] at h ⊢; exact ih r r id h
    | flush r => simp only [protoOkAux, filterMapEv] at h ⊢; exact ih a b hab h
    | close r => simp only [protoOkAux, filterMapEv] at h ⊢; exact ih a b hab h
    | send x =>
      simp only [protoOkAux, Bool.and_eq_true] at h
      simp only [filterMapEv]
      cases g x with
      | some y => simp only [protoOkAux, Bool.and_eq_true]; exact ⟨hab h.1, ih false false id h.2⟩
      | none => exact ih false b (by intro h'; cases h') h.2

theorem aux_sends_filterMapEv (g : α → Option β) (t : List (Ev α)) :
    sends (filterMapEv g t) = (sends t).filterMap g := by
  induction t with
  | nil => rfl
  | cons e t ih =>
    cases e with
    | send x => simp only [filterMapEv, sends, List.filterMap_cons]; cases g x <;> simp [sends, ih]
    | ready b => simp [filterMapEv, sends, ih]
    | flush b => simp [filterMapEv, sends, ih]
    | close b => simp [filterMapEv, sends, ih]

theorem filterMap_trace (g : α → Option β) (k : Snk σ β)
    (c : ((σ × List (Ev β)) × List (Ev α)) × Bool) (ops : List (Op α))
    (h : c.1.1.2 = filterMapEv g c.1.2) :
    (runOps (filterMap g k.recd).recd c ops).1.1.2 =
      filterMapEv g (runOps (filterMap g k.recd).recd c ops).1.2 := by
  induction ops generalizing c with
  | nil => exact h
  | cons op ops ih =>
    simp only [runOps, List.foldl_cons] at ih ⊢
    apply ih
    cases op with
    | send x =>
      simp only [stepOp, filterMap, Snk.recd, aux_filterMapEv_append, filterMapEv]
      cases hg : g x <;> simp [h]
    | ready => simp [stepOp, filterMap, Snk.recd, h, aux_filterMapEv_append, filterMapEv]
    | flush => simp [stepOp, filterMap, Snk.recd, h, aux_filterMapEv_append, filterMapEv]
    | close => simp [stepOp, filterMap, Snk.recd, h, aux_filterMapEv_append, filterMapEv]

/-- `FilterMap`: a contract-honouring client yields a contract-honouring inner trace, and the inner
sink receives exactly the `Some` images, in order, once. -/
theorem filterMap_delivers_in_order (g : α → Option β) (k : Snk σ β) (s : σ) (ops : List (Op α)) :
    let r := runOps (filterMap g k.recd).recd (((s, []), []), true) ops
    (protoOk r.1.2 = true → protoOk r.1.1.2 = true) ∧ sends r.1.1.2 = (sends r.1.2).filterMap g := by
  intro r
  have h := filterMap_trace g k (((s, []), []), true) ops rfl
  refine ⟨fun hc => ?_, by rw [h]; exact aux_sends_filterMapEv g _⟩
  rw [h]; exact aux_protoOk_filterMapEv g _ false false id hc

/-- `Filter p` behaves as `FilterMap (fun x => if p x then some x else none)` -/
theorem filter_trace (p : α → Bool) (k : Snk σ α)
    (c : ((σ × List (Ev α)) × List (Ev α)) × Bool) (ops : List (Op α))
    (h : c.1.1.2 = filterMapEv (fun x => if p x then some x else none) c.1.2) :
    (runOps (filter p k.recd).recd c ops).1.1.2 =
      filterMapEv (fun x => if p x then some x else none) (runOps (filter p k.recd).recd c ops).1.2 := by
  induction ops generalizing c with
  | nil => exact h
  | cons op ops ih =>
    simp only [runOps, List.foldl_cons] at ih ⊢
    apply ih
    cases op with
    | send x =>
      simp only [stepOp, filter, Snk.recd, aux_filterMapEv_append, filterMapEv]
      cases hp : p x <;> simp [h]
    | ready => simp [stepOp, filter, Snk.recd, h, aux_filterMapEv_append, filterMapEv]
    | flush => simp [stepOp, filter, Snk.recd, h, aux_filterMapEv_append, filterMapEv]
    | close => simp [stepOp, filter, Snk.recd, h, aux_filterMapEv_append, filterMapEv]

theorem filter_delivers_in_order (p : α → Bool) (k : Snk σ α) (s : σ) (ops : List (Op α)) :
    let r := runOps (filter p k.recd).recd (((s, []), []), true) ops
    (protoOk r.1.2 = true → protoOk r.1.1.2 = true) ∧ sends r.1.1.2 = (sends r.1.2).filter p := by
  intro r
  have h := filter_trace p k (((s, []), []), true) ops rfl
  refine ⟨fun hc => ?_, ?_⟩
  · rw [h]; exact aux_protoOk_filterMapEv _ _ false false id hc
  · rw [h, aux_sends_filterMapEv]
    induction sends r.1.2 with
    | nil => rfl
    | cons x t ih => cases hp : p x <;> simp [List.filterMap_cons, List.filter_cons, hp, ih]

/-- `Inspect`: forwards unchanged and its closure sees every item once, in order -/
theorem inspect_trace (k : Snk σ α) (c : (((σ × List (Ev α)) × List α) × List (Ev α)) × Bool)
    (ops : List (Op α)) (h : c.1.1.1.2 = c.1.2 ∧ c.1.1.2 = sends c.1.2) :
    (runOps (inspect k.recd).recd c ops).1.1.1.2 = (runOps (inspect k.recd).recd c ops).1.2 ∧
    (runOps (inspect k.recd).recd c ops).1.1.2 = sends (runOps (inspect k.recd).recd c ops).1.2 := by
  induction ops generalizing c with
  | nil => exact h
  | cons op ops ih =>
    simp only [runOps, List.foldl_cons] at ih ⊢
    apply ih
    cases op <;> simp [stepOp, inspect, Snk.recd, h.1, h.2, aux_sends_append, sends]


/-! ### projections of a recorded sink (used instead of unfolding `Snk.recd` under `drain`) -/

theorem recd_pollReady (k : Snk σ α) (p : σ × List (Ev α)) :
    k.recd.pollReady p = (((k.pollReady p.1).1, p.2 ++ [.ready (k.pollReady p.1).2]), (k.pollReady p.1).2) := rfl
theorem recd_startSend (k : Snk σ α) (p : σ × List (Ev α)) (x : α) :
    k.recd.startSend p x = (((k.startSend p.1 x).1, p.2 ++ [.send x]), (k.startSend p.1 x).2) := rfl
theorem recd_pollFlush (k : Snk σ α) (p : σ × List (Ev α)) :
    k.recd.pollFlush p = (((k.pollFlush p.1).1, p.2 ++ [.flush (k.pollFlush p.1).2]), (k.pollFlush p.1).2) := rfl
theorem recd_pollClose (k : Snk σ α) (p : σ × List (Ev α)) :
    k.recd.pollClose p = (((k.pollClose p.1).1, p.2 ++ [.close (k.pollClose p.1).2]), (k.pollClose p.1).2) := rfl

theorem aux_sends_snoc_ready (t : List (Ev α)) (b : Bool) : sends (t ++ [.ready b]) = sends t := by
  rw [aux_sends_append]; simp [sends]
theorem aux_sends_snoc_flush (t : List (Ev α)) (b : Bool) : sends (t ++ [.flush b]) = sends t := by
  rw [aux_sends_append]; simp [sends]
theorem aux_sends_snoc_close (t : List (Ev α)) (b : Bool) : sends (t ++ [.close b]) = sends t := by
  rw [aux_sends_append]; simp [sends]
theorem aux_sends_snoc_send (t : List (Ev α)) (x : α) : sends (t ++ [.send x]) = sends t ++ [x] := by
  rw [aux_sends_append]; simp [sends]

/-! ### `FlatMap` / `Flatten` -/

/-- what `poll_ready_impl` does to the inner sink: a self-contained, contract-honouring burst that
sends a prefix of the buffer; `Ready` only when the buffer is empty -/
theorem aux_drain (k : Snk σ β) (buf : List β) : ∀ (s : σ) (it : List (Ev β)),
    ∃ de, (drain k.recd (s, it) buf).1.1.2 = it ++ de ∧ (∀ a, protoOkAux a de = true) ∧
      sends de ++ (drain k.recd (s, it) buf).1.2 = buf ∧
      ((drain k.recd (s, it) buf).2 = true → (drain k.recd (s, it) buf).1.2 = []) := by
  induction buf with
  | nil => intro s it; exact ⟨[], by simp [drain], fun _ => rfl, by simp [drain, sends], fun _ => by simp [drain]⟩
  | cons x r ih =>
    intro s it
    cases hb : (k.pollReady s).2 with
    | false =>
      refine ⟨[.ready false], ?_, ?_, ?_, ?_⟩
      · simp [drain, recd_pollReady, hb]
      · intro a; simp [protoOkAux]
      · simp [drain, recd_pollReady, hb, sends]
      · simp [drain, recd_pollReady, hb]
    | true =>
      obtain ⟨de, h1, h2, h3, h4⟩ := ih (k.startSend (k.pollReady s).1 x).1 (it ++ [.ready true] ++ [.send x])
      have hd : drain k.recd (s, it) (x :: r) =
          drain k.recd ((k.startSend (k.pollReady s).1 x).1, it ++ [.ready true] ++ [.send x]) r := by
        simp only [drain, recd_pollReady, recd_startSend, hb, if_true]
      rw [hd]
      refine ⟨[.ready true, .send x] ++ de, ?_, ?_, ?_, h4⟩
      · rw [h1]; simp
      · intro a; simp [protoOkAux, h2]
      · simp only [List.cons_append, List.nil_append, sends]
        rw [h3]

/-- last call answered `Ready` to a flush or close -/
def lastFlushed : List (Ev α) → Bool
  | [] => false
  | [.flush b] => b
  | [.close b] => b
  | [_] => false
  | _ :: e :: t => lastFlushed (e :: t)

theorem aux_lastFlushed_snoc (t : List (Ev α)) (e : Ev α) :
    lastFlushed (t ++ [e]) = match e with | .flush b => b | .close b => b | _ => false := by
  induction t with
  | nil => cases e <;> rfl
  | cons a t ih =>
    cases t with
    | nil => cases e <;> simp [lastFlushed]
    | cons b t => simp only [List.cons_append] at ih ⊢; simp only [lastFlushed]; exact ih

structure FMInv (g : α → List β) (it : List (Ev β)) (buf : List β) (ct : List (Ev α)) (ok : Bool) : Prop where
  proto : protoOk it = true
  data : sends it ++ buf = (sends ct).flatMap g
  armed : armedAfter false ct = true → buf = []
  flushed : lastFlushed ct = true → buf = []
  ok : ok = true

theorem aux_flatMap_step (g : α → List β) (k : Snk σ β)
    (c : (((σ × List (Ev β)) × List β) × List (Ev α)) × Bool) (op : Op α)
    (hI : FMInv g c.1.1.1.2 c.1.1.2 c.1.2 c.2)
    (hc : protoOk (stepOp (flatMap g k.recd).recd c op).1.2 = true) :
    FMInv g (stepOp (flatMap g k.recd).recd c op).1.1.1.2 (stepOp (flatMap g k.recd).recd c op).1.1.2
      (stepOp (flatMap g k.recd).recd c op).1.2 (stepOp (flatMap g k.recd).recd c op).2 := by
  obtain ⟨⟨⟨⟨s, it⟩, buf⟩, ct⟩, ok⟩ := c
  obtain ⟨p, d, a, fl, o⟩ := hI
  simp only at p d a fl o
  obtain ⟨de, h1, h2, h3, h4⟩ := aux_drain k buf s it
  have hproto : protoOk (it ++ de) = true := by
    simp only [protoOk, aux_protoOkAux_append, Bool.and_eq_true]; exact ⟨p, h2 _⟩
  have hdata : sends (it ++ de) ++ (drain k.recd (s, it) buf).1.2 = (sends ct).flatMap g := by
    rw [aux_sends_append, List.append_assoc, h3]; exact d
  cases op with
  | ready =>
    simp only [stepOp, flatMap, recd_pollReady, recd_startSend, recd_pollFlush, recd_pollClose] at hc ⊢
    refine ⟨by rw [h1]; exact hproto, by rw [h1, aux_sends_snoc_ready]; exact hdata, ?_, ?_, o⟩
    · intro h
      rw [aux_armedAfter_append] at h
      simp only [armedAfter] at h
      exact h4 h
    · intro h; rw [aux_lastFlushed_snoc] at h; cases h
  | send x =>
    simp only [stepOp, flatMap, recd_pollReady, recd_startSend, recd_pollFlush, recd_pollClose] at hc ⊢
    have harm : armedAfter false ct = true := by
      simp only [protoOk, aux_protoOkAux_append, protoOkAux, Bool.and_eq_true, Bool.and_true] at hc
      exact hc.2
    have hb := a harm
    subst hb
    simp only [List.isEmpty_nil, if_true]
    refine ⟨p, ?_, ?_, ?_, by simp [o]⟩
    · rw [aux_sends_append]; simp only [sends, List.flatMap_append, List.flatMap_cons, List.flatMap_nil, List.append_nil]
      rw [← d]; simp
    · intro h; rw [aux_armedAfter_append] at h; simp [armedAfter] at h
    · intro h; rw [aux_lastFlushed_snoc] at h; cases h
  | flush =>
    simp only [stepOp, flatMap, recd_pollReady, recd_startSend, recd_pollFlush, recd_pollClose] at hc ⊢
    cases hb : (drain k.recd (s, it) buf).2 with
    | false =>
      simp only [hb, Bool.false_eq_true, if_false] at hc ⊢
      refine ⟨by rw [h1]; exact hproto, by rw [h1, aux_sends_snoc_flush]; exact hdata, ?_, ?_, o⟩
      · intro h
        rw [aux_armedAfter_append] at h; simp only [armedAfter] at h
        have := a h; subst this
        have := h3; simp only [List.append_eq_nil_iff] at this; exact this.2
      · intro h; rw [aux_lastFlushed_snoc] at h; cases h
    | true =>
      simp only [hb, if_true] at hc ⊢
      have hnil := h4 hb
      refine ⟨?_, ?_, fun _ => hnil, fun _ => hnil, o⟩
      · rw [h1]; simp only [protoOk, aux_protoOkAux_append, Bool.and_eq_true]
        exact ⟨by simpa [protoOk, aux_protoOkAux_append] using hproto, by simp [protoOkAux]⟩
      · rw [h1, aux_sends_snoc_flush, aux_sends_snoc_flush]; exact hdata
  | close =>
    simp only [stepOp, flatMap, recd_pollReady, recd_startSend, recd_pollFlush, recd_pollClose] at hc ⊢
    cases hb : (drain k.recd (s, it) buf).2 with
    | false =>
      simp only [hb, Bool.false_eq_true, if_false] at hc ⊢
      refine ⟨by rw [h1]; exact hproto, by rw [h1, aux_sends_snoc_close]; exact hdata, ?_, ?_, o⟩
      · intro h
        rw [aux_armedAfter_append] at h; simp only [armedAfter] at h
        have := a h; subst this
        have := h3; simp only [List.append_eq_nil_iff] at this; exact this.2
      · intro h; rw [aux_lastFlushed_snoc] at h; cases h
    | true =>
      simp only [hb, if_true] at hc ⊢
      have hnil := h4 hb
      refine ⟨?_, ?_, fun _ => hnil, fun _ => hnil, o⟩
      · rw [h1]; simp only [protoOk, aux_protoOkAux_append, Bool.and_eq_true]
        exact ⟨by simpa [protoOk, aux_protoOkAux_append] using hproto, by simp [protoOkAux]⟩
      · rw [h1, aux_sends_snoc_close, aux_sends_snoc_close]; exact hdata

theorem aux_stepOp_ct_flatMap (g : α → List β) (k : Snk σ β)
    (c : (((σ × List (Ev β)) × List β) × List (Ev α)) × Bool) (op : Op α) :
    ∃ e, (stepOp (flatMap g k.recd).recd c op).1.2 = c.1.2 ++ [e] := by
  cases op <;> simp [stepOp, recd_pollReady, recd_startSend, recd_pollFlush, recd_pollClose]

theorem aux_flatMap_run (g : α → List β) (k : Snk σ β) (ops : List (Op α)) :
    ∀ (c : (((σ × List (Ev β)) × List β) × List (Ev α)) × Bool),
      (protoOk c.1.2 = true → FMInv g c.1.1.1.2 c.1.1.2 c.1.2 c.2) →
      protoOk (runOps (flatMap g k.recd).recd c ops).1.2 = true →
      FMInv g (runOps (flatMap g k.recd).recd c ops).1.1.1.2 (runOps (flatMap g k.recd).recd c ops).1.1.2
        (runOps (flatMap g k.recd).recd c ops).1.2 (runOps (flatMap g k.recd).recd c ops).2 := by
  induction ops with
  | nil => intro c h hc; exact h hc
  | cons op ops ih =>
    intro c h hc
    simp only [runOps, List.foldl_cons] at ih hc ⊢
    apply ih _ _ hc
    intro hc'
    obtain ⟨e, he⟩ := aux_stepOp_ct_flatMap g k c op
    have hpre : protoOk c.1.2 = true := by rw [he] at hc'; exact aux_protoOk_prefix _ _ hc'
    exact aux_flatMap_step g k c op (h hpre) hc'

/-- **`FlatMap`** (and `Flatten` = `FlatMap id`): for every inner sink and every client that honours
the contract: the inner sink sees a contract-honouring call sequence; what it received followed by
what is still buffered is exactly the flattening of the client's items (order, no loss, no
duplicate); `start_send` never hits the "Sink not ready" assertion; and once a flush or close
answered `Ready` nothing is buffered any more. -/
theorem flatMap_delivers_in_order (g : α → List β) (k : Snk σ β) (s : σ) (ops : List (Op α)) :
    let r := runOps (flatMap g k.recd).recd ((((s, []), []), []), true) ops
    protoOk r.1.2 = true →
      protoOk r.1.1.1.2 = true ∧ sends r.1.1.1.2 ++ r.1.1.2 = (sends r.1.2).flatMap g ∧ r.2 = true ∧
      (lastFlushed r.1.2 = true → sends r.1.1.1.2 = (sends r.1.2).flatMap g) := by
  intro r hc
  have h := aux_flatMap_run g k ops ((((s, []), []), []), true)
    (fun _ => ⟨rfl, rfl, fun _ => rfl, fun _ => rfl, rfl⟩) hc
  refine ⟨h.proto, h.data, h.ok, fun hf => ?_⟩
  have := h.data; rw [h.flushed hf, List.append_nil] at this; exact this

theorem flatten_delivers_in_order (k : Snk σ β) (s : σ) (ops : List (Op (List β))) :
    let r := runOps (flatten k.recd).recd ((((s, []), []), []), true) ops
    protoOk r.1.2 = true →
      protoOk r.1.1.1.2 = true ∧ sends r.1.1.1.2 ++ r.1.1.2 = (sends r.1.2).flatMap id ∧ r.2 = true :=
  fun hc => let h := flatMap_delivers_in_order id k s ops hc; ⟨h.1, h.2.1, h.2.2.1⟩

end HvSink.Sink
