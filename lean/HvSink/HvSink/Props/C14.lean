/-
C14 — Sink adaptors route every item to the right sink, once, in order.

Setting.  An adaptor `A` is built over an *arbitrary* inner sink `k` (any state machine — so
"every readiness pattern" is every behaviour of `k`).  Both interfaces are recorded
(`Snk.recd`): `ct` = the calls the client makes on `A` with their answers, `it` = the calls `A`
makes on `k`.  A client is any list of operations `ops`; it honours the `Sink` contract iff
`protoOk ct`.  Theorems have the compositional form
   client honours the contract on `A`  ⟹  `A` honours it on `k`, and `sends it` = spec (`sends ct`)
so they chain through stacked adaptors.  Helper lemmas are `aux_*`.
-/
import HvSink.Model.Sink

namespace HvSink.Sink
open List

variable {σ α β : Type}

inductive Op (α : Type) | ready | send (x : α) | flush | close
  deriving Repr, DecidableEq

/-- one client call; the Boolean accumulates "no `start_send` has panicked so far" -/
def stepOp (k : Snk σ α) (c : σ × Bool) : Op α → σ × Bool
  | .ready => ((k.pollReady c.1).1, c.2)
  | .send x => ((k.startSend c.1 x).1, c.2 && (k.startSend c.1 x).2)
  | .flush => ((k.pollFlush c.1).1, c.2)
  | .close => ((k.pollClose c.1).1, c.2)

def runOps (k : Snk σ α) (c : σ × Bool) (ops : List (Op α)) : σ × Bool := ops.foldl (stepOp k) c

theorem aux_runOps_snoc (k : Snk σ α) (c : σ × Bool) (ops : List (Op α)) (op : Op α) :
    runOps k c (ops ++ [op]) = stepOp k (runOps k c ops) op := by
  simp [runOps, List.foldl_append]

/-! ### the contract on traces -/

def armedAfter : Bool → List (Ev α) → Bool
  | a, [] => a
  | _, .ready b :: t => armedAfter b t
  | _, .send _ :: t => armedAfter false t
  | a, .flush _ :: t => armedAfter a t
  | a, .close _ :: t => armedAfter a t

theorem aux_protoOkAux_append (a : Bool) (t₁ t₂ : List (Ev α)) :
    protoOkAux a (t₁ ++ t₂) = (protoOkAux a t₁ && protoOkAux (armedAfter a t₁) t₂) := by
  induction t₁ generalizing a with
  | nil => simp [protoOkAux, armedAfter]
  | cons e t ih => cases e <;> simp [protoOkAux, armedAfter, ih, Bool.and_assoc]

theorem aux_armedAfter_append (a : Bool) (t₁ t₂ : List (Ev α)) :
    armedAfter a (t₁ ++ t₂) = armedAfter (armedAfter a t₁) t₂ := by
  induction t₁ generalizing a with
  | nil => rfl
  | cons e t ih => cases e <;> simp [armedAfter, ih]

theorem aux_sends_append (t₁ t₂ : List (Ev α)) : sends (t₁ ++ t₂) = sends t₁ ++ sends t₂ := by
  induction t₁ with
  | nil => rfl
  | cons e t ih => cases e <;> simp [sends, ih]

theorem aux_protoOk_prefix (t₁ t₂ : List (Ev α)) (h : protoOk (t₁ ++ t₂) = true) : protoOk t₁ = true := by
  simp only [protoOk, aux_protoOkAux_append, Bool.and_eq_true] at h
  exact h.1

theorem aux_protoOkAux_mono (t : List (Ev α)) (h : protoOkAux false t = true) (a : Bool) :
    protoOkAux a t = true := by
  induction t with
  | nil => rfl
  | cons e t ih => cases e <;> simp_all [protoOkAux]

/-! ### `Map` -/

def mapEv (f : α → β) : Ev α → Ev β
  | .ready b => .ready b
  | .send x => .send (f x)
  | .flush b => .flush b
  | .close b => .close b

theorem aux_protoOkAux_map (f : α → β) (a : Bool) (t : List (Ev α)) :
    protoOkAux a (t.map (mapEv f)) = protoOkAux a t := by
  induction t generalizing a with
  | nil => rfl
  | cons e t ih => cases e <;> simp [protoOkAux, mapEv, ih]

theorem aux_sends_map (f : α → β) (t : List (Ev α)) : sends (t.map (mapEv f)) = (sends t).map f := by
  induction t with
  | nil => rfl
  | cons e t ih => cases e <;> simp [sends, mapEv, ih]

/-- `Map` forwards every call one-to-one: the inner trace is the client trace with `f` applied to
the items — for every inner sink and every client. -/
theorem map_trace (f : α → β) (k : Snk σ β) (c : ((σ × List (Ev β)) × List (Ev α)) × Bool)
    (ops : List (Op α)) (h : c.1.1.2 = c.1.2.map (mapEv f)) :
    (runOps (map f k.recd).recd c ops).1.1.2 = (runOps (map f k.recd).recd c ops).1.2.map (mapEv f) := by
  induction ops generalizing c with
  | nil => exact h
  | cons op ops ih =>
    simp only [runOps, List.foldl_cons] at ih ⊢
    apply ih
    cases op <;> simp [stepOp, map, Snk.recd, h, mapEv]

/-- `Map`: honours the contract downstream iff the client does, and delivers exactly `f` of every
item, in order, once. -/
theorem map_delivers_in_order (f : α → β) (k : Snk σ β) (s : σ) (ops : List (Op α)) :
    let r := runOps (map f k.recd).recd (((s, []), []), true) ops
    protoOk r.1.1.2 = protoOk r.1.2 ∧ sends r.1.1.2 = (sends r.1.2).map f := by
  intro r
  have h := map_trace f k (((s, []), []), true) ops rfl
  exact ⟨by rw [h]; exact aux_protoOkAux_map f false _, by rw [h]; exact aux_sends_map f _⟩

/-! ### `Filter`, `FilterMap` -/

def filterMapEv (g : α → Option β) : List (Ev α) → List (Ev β)
  | [] => []
  | .ready b :: t => .ready b :: filterMapEv g t
  | .send x :: t => match g x with
    | some y => .send y :: filterMapEv g t
    | none => filterMapEv g t
  | .flush b :: t => .flush b :: filterMapEv g t
  | .close b :: t => .close b :: filterMapEv g t

theorem aux_filterMapEv_append (g : α → Option β) (t₁ t₂ : List (Ev α)) :
    filterMapEv g (t₁ ++ t₂) = filterMapEv g t₁ ++ filterMapEv g t₂ := by
  induction t₁ with
  | nil => rfl
  | cons e t ih =>
    cases e with
    | send x => simp only [List.cons_append, filterMapEv]; cases g x <;> simp [ih]
    | ready b => simp [filterMapEv, ih]
    | flush b => simp [filterMapEv, ih]
    | close b => simp [filterMapEv, ih]

/-- dropping `send`s never breaks the contract -/
theorem aux_protoOk_filterMapEv (g : α → Option β) (t : List (Ev α)) :
    ∀ a b : Bool, (a = true → b = true) → protoOkAux a t = true → protoOkAux b (filterMapEv g t) = true := by
  induction t with
  | nil => intros; rfl
  | cons e t ih =>
    intro a b hab h
    cases e with
    | ready r => simp only [protoOkAux, filterMapEv] at h ⊢; exact ih r r id h
    | flush r => simp only [protoOkAux, filterMapEv] at h ⊢; exact ih a b hab h
    | close r => simp only [protoOkAux, filterMapEv] at h ⊢; exact ih a b hab h
    | send x =>
      simp only [protoOkAux, Bool.and_eq_true] at h
      simp only [filterMapEv]
      cases g x with
      | some y => simp only [protoOkAux, Bool.and_eq_true]; exact ⟨hab h.1, ih false false id h.2⟩
      | none => exact ih false b (by intro h'; cases h') h.2

theorem aux_sends_filterMapEv (g : α → Option β) (t : List (Ev α)) :
    sends (filterMapEv g t) = (sends t).filterMap g := by
  induction t with
  | nil => rfl
  | cons e t ih =>
    cases e with
    | send x => simp only [filterMapEv, sends, List.filterMap_cons]; cases g x <;> simp [sends, ih]
    | ready b => simp [filterMapEv, sends, ih]
    | flush b => simp [filterMapEv, sends, ih]
    | close b => simp [filterMapEv, sends, ih]

theorem filterMap_trace (g : α → Option β) (k : Snk σ β)
    (c : ((σ × List (Ev β)) × List (Ev α)) × Bool) (ops : List (Op α))
    (h : c.1.1.2 = filterMapEv g c.1.2) :
    (runOps (filterMap g k.recd).recd c ops).1.1.2 =
      filterMapEv g (runOps (filterMap g k.recd).recd c ops).1.2 := by
  induction ops generalizing c with
  | nil => exact h
  | cons op ops ih =>
    simp only [runOps, List.foldl_cons] at ih ⊢
    apply ih
    cases op with
    | send x =>
      simp only [stepOp, filterMap, Snk.recd, aux_filterMapEv_append, filterMapEv]
      cases hg : g x <;> simp [h]
    | ready => simp [stepOp, filterMap, Snk.recd, h, aux_filterMapEv_append, filterMapEv]
    | flush => simp [stepOp, filterMap, Snk.recd, h, aux_filterMapEv_append, filterMapEv]
    | close => simp [stepOp, filterMap, Snk.recd, h, aux_filterMapEv_append, filterMapEv]

/-- `FilterMap`: a contract-honouring client yields a contract-honouring inner trace, and the inner
sink receives exactly the `Some` images, in order, once. -/
theorem filterMap_delivers_in_order (g : α → Option β) (k : Snk σ β) (s : σ) (ops : List (Op α)) :
    let r := runOps (filterMap g k.recd).recd (((s, []), []), true) ops
    (protoOk r.1.2 = true → protoOk r.1.1.2 = true) ∧ sends r.1.1.2 = (sends r.1.2).filterMap g := by
  intro r
  have h := filterMap_trace g k (((s, []), []), true) ops rfl
  refine ⟨fun hc => ?_, by rw [h]; exact aux_sends_filterMapEv g _⟩
  rw [h]; exact aux_protoOk_filterMapEv g _ false false id hc

/-- `Filter p` behaves as `FilterMap (fun x => if p x then some x else none)` -/
theorem filter_trace (p : α → Bool) (k : Snk σ α)
    (c : ((σ × List (Ev α)) × List (Ev α)) × Bool) (ops : List (Op α))
    (h : c.1.1.2 = filterMapEv (fun x => if p x then some x else none) c.1.2) :
    (runOps (filter p k.recd).recd c ops).1.1.2 =
      filterMapEv (fun x => if p x then some x else none) (runOps (filter p k.recd).recd c ops).1.2 := by
  induction ops generalizing c with
  | nil => exact h
  | cons op ops ih =>
    simp only [runOps, List.foldl_cons] at ih ⊢
    apply ih
    cases op with
    | send x =>
      simp only [stepOp, filter, Snk.recd, aux_filterMapEv_append, filterMapEv]
      cases hp : p x <;> simp [h]
    | ready => simp [stepOp, filter, Snk.recd, h, aux_filterMapEv_append, filterMapEv]
    | flush => simp [stepOp, filter, Snk.recd, h, aux_filterMapEv_append, filterMapEv]
    | close => simp [stepOp, filter, Snk.recd, h, aux_filterMapEv_append, filterMapEv]

theorem filter_delivers_in_order (p : α → Bool) (k : Snk σ α) (s : σ) (ops : List (Op α)) :
    let r := runOps (filter p k.recd).recd (((s, []), []), true) ops
    (protoOk r.1.2 = true → protoOk r.1.1.2 = true) ∧ sends r.1.1.2 = (sends r.1.2).filter p := by
  intro r
  have h := filter_trace p k (((s, []), []), true) ops rfl
  refine ⟨fun hc => ?_, ?_⟩
  · rw [h]; exact aux_protoOk_filterMapEv _ _ false false id hc
  · rw [h, aux_sends_filterMapEv]
    induction sends r.1.2 with
    | nil => rfl
    | cons x t ih => cases hp : p x <;> simp [List.filterMap_cons, List.filter_cons, hp, ih]

/-- `Inspect`: forwards unchanged and its closure sees every item once, in order -/
theorem inspect_trace (k : Snk σ α) (c : (((σ × List (Ev α)) × List α) × List (Ev α)) × Bool)
    (ops : List (Op α)) (h : c.1.1.1.2 = c.1.2 ∧ c.1.1.2 = sends c.1.2) :
    (runOps (inspect k.recd).recd c ops).1.1.1.2 = (runOps (inspect k.recd).recd c ops).1.2 ∧
    (runOps (inspect k.recd).recd c ops).1.1.2 = sends (runOps (inspect k.recd).recd c ops).1.2 := by
  induction ops generalizing c with
  | nil => exact h
  | cons op ops ih =>
    simp only [runOps, List.foldl_cons] at ih ⊢
    apply ih
    cases op <;> simp [stepOp, inspect, Snk.recd, h.1, h.2, aux_sends_append, sends]


/-! ### projections of a recorded sink (used instead of unfolding `Snk.recd` under `drain`) -/

theorem aux_recd_pollReady (k : Snk σ α) (p : σ × List (Ev α)) :
    k.recd.pollReady p = (((k.pollReady p.1).1, p.2 ++ [.ready (k.pollReady p.1).2]), (k.pollReady p.1).2) := rfl
theorem aux_recd_startSend (k : Snk σ α) (p : σ × List (Ev α)) (x : α) :
    k.recd.startSend p x = (((k.startSend p.1 x).1, p.2 ++ [.send x]), (k.startSend p.1 x).2) := rfl
theorem aux_recd_pollFlush (k : Snk σ α) (p : σ × List (Ev α)) :
    k.recd.pollFlush p = (((k.pollFlush p.1).1, p.2 ++ [.flush (k.pollFlush p.1).2]), (k.pollFlush p.1).2) := rfl
theorem aux_recd_pollClose (k : Snk σ α) (p : σ × List (Ev α)) :
    k.recd.pollClose p = (((k.pollClose p.1).1, p.2 ++ [.close (k.pollClose p.1).2]), (k.pollClose p.1).2) := rfl

theorem aux_sends_snoc_ready (t : List (Ev α)) (b : Bool) : sends (t ++ [.ready b]) = sends t := by
  rw [aux_sends_append]; simp [sends]
theorem aux_sends_snoc_flush (t : List (Ev α)) (b : Bool) : sends (t ++ [.flush b]) = sends t := by
  rw [aux_sends_append]; simp [sends]
theorem aux_sends_snoc_close (t : List (Ev α)) (b : Bool) : sends (t ++ [.close b]) = sends t := by
  rw [aux_sends_append]; simp [sends]
theorem aux_sends_snoc_send (t : List (Ev α)) (x : α) : sends (t ++ [.send x]) = sends t ++ [x] := by
  rw [aux_sends_append]; simp [sends]

/-! ### `FlatMap` / `Flatten` -/

/-- what `poll_ready_impl` does to the inner sink: a self-contained, contract-honouring burst that
sends a prefix of the buffer; `Ready` only when the buffer is empty -/
theorem aux_drain (k : Snk σ β) (buf : List β) : ∀ (s : σ) (it : List (Ev β)),
    ∃ de, (drain k.recd (s, it) buf).1.1.2 = it ++ de ∧ (∀ a, protoOkAux a de = true) ∧
      sends de ++ (drain k.recd (s, it) buf).1.2 = buf ∧
      ((drain k.recd (s, it) buf).2 = true → (drain k.recd (s, it) buf).1.2 = []) := by
  induction buf with
  | nil => intro s it; exact ⟨[], by simp [drain], fun _ => rfl, by simp [drain, sends], fun _ => by simp [drain]⟩
  | cons x r ih =>
    intro s it
    cases hb : (k.pollReady s).2 with
    | false =>
      refine ⟨[.ready false], ?_, ?_, ?_, ?_⟩
      · simp [drain, aux_recd_pollReady, hb]
      · intro a; simp [protoOkAux]
      · simp [drain, aux_recd_pollReady, hb, sends]
      · simp [drain, aux_recd_pollReady, hb]
    | true =>
      obtain ⟨de, h1, h2, h3, h4⟩ := ih (k.startSend (k.pollReady s).1 x).1 (it ++ [.ready true] ++ [.send x])
      have hd : drain k.recd (s, it) (x :: r) =
          drain k.recd ((k.startSend (k.pollReady s).1 x).1, it ++ [.ready true] ++ [.send x]) r := by
        simp only [drain, aux_recd_pollReady, aux_recd_startSend, hb, if_true]
      rw [hd]
      refine ⟨[.ready true, .send x] ++ de, ?_, ?_, ?_, h4⟩
      · rw [h1]; simp
      · intro a; simp [protoOkAux, h2]
      · simp only [List.cons_append, List.nil_append, sends]
        rw [h3]

/-- last call answered `Ready` to a flush or close -/
def lastFlushed : List (Ev α) → Bool
  | [] => false
  | [.flush b] => b
  | [.close b] => b
  | [_] => false
  | _ :: e :: t => lastFlushed (e :: t)

theorem aux_lastFlushed_snoc (t : List (Ev α)) (e : Ev α) :
    lastFlushed (t ++ [e]) = match e with | .flush b => b | .close b => b | _ => false := by
  induction t with
  | nil => cases e <;> rfl
  | cons a t ih =>
    cases t with
    | nil => cases e <;> simp [lastFlushed]
    | cons b t => simp only [List.cons_append] at ih ⊢; simp only [lastFlushed]; exact ih

structure FMInv (g : α → List β) (it : List (Ev β)) (buf : List β) (ct : List (Ev α)) (ok : Bool) : Prop where
  proto : protoOk it = true
  data : sends it ++ buf = (sends ct).flatMap g
  armed : armedAfter false ct = true → buf = []
  flushed : lastFlushed ct = true → buf = []
  ok : ok = true

theorem aux_flatMap_step (g : α → List β) (k : Snk σ β)
    (c : (((σ × List (Ev β)) × List β) × List (Ev α)) × Bool) (op : Op α)
    (hI : FMInv g c.1.1.1.2 c.1.1.2 c.1.2 c.2)
    (hc : protoOk (stepOp (flatMap g k.recd).recd c op).1.2 = true) :
    FMInv g (stepOp (flatMap g k.recd).recd c op).1.1.1.2 (stepOp (flatMap g k.recd).recd c op).1.1.2
      (stepOp (flatMap g k.recd).recd c op).1.2 (stepOp (flatMap g k.recd).recd c op).2 := by
  obtain ⟨⟨⟨⟨s, it⟩, buf⟩, ct⟩, ok⟩ := c
  obtain ⟨p, d, a, fl, o⟩ := hI
  simp only at p d a fl o
  obtain ⟨de, h1, h2, h3, h4⟩ := aux_drain k buf s it
  have hproto : protoOk (it ++ de) = true := by
    simp only [protoOk, aux_protoOkAux_append, Bool.and_eq_true]; exact ⟨p, h2 _⟩
  have hdata : sends (it ++ de) ++ (drain k.recd (s, it) buf).1.2 = (sends ct).flatMap g := by
    rw [aux_sends_append, List.append_assoc, h3]; exact d
  cases op with
  | ready =>
    simp only [stepOp, flatMap, aux_recd_pollReady, aux_recd_startSend, aux_recd_pollFlush, aux_recd_pollClose] at hc ⊢
    refine ⟨by rw [h1]; exact hproto, by rw [h1, aux_sends_snoc_ready]; exact hdata, ?_, ?_, o⟩
    · intro h
      rw [aux_armedAfter_append] at h
      simp only [armedAfter] at h
      exact h4 h
    · intro h; rw [aux_lastFlushed_snoc] at h; cases h
  | send x =>
    simp only [stepOp, flatMap, aux_recd_pollReady, aux_recd_startSend, aux_recd_pollFlush, aux_recd_pollClose] at hc ⊢
    have harm : armedAfter false ct = true := by
      simp only [protoOk, aux_protoOkAux_append, protoOkAux, Bool.and_eq_true, Bool.and_true] at hc
      exact hc.2
    have hb := a harm
    subst hb
    simp only [List.isEmpty_nil, if_true]
    refine ⟨p, ?_, ?_, ?_, by simp [o]⟩
    · rw [aux_sends_append]; simp only [sends, List.flatMap_append, List.flatMap_cons, List.flatMap_nil, List.append_nil]
      rw [← d]; simp
    · intro h; rw [aux_armedAfter_append] at h; simp [armedAfter] at h
    · intro h; rw [aux_lastFlushed_snoc] at h; cases h
  | flush =>
    simp only [stepOp, flatMap, aux_recd_pollReady, aux_recd_startSend, aux_recd_pollFlush, aux_recd_pollClose] at hc ⊢
    cases hb : (drain k.recd (s, it) buf).2 with
    | false =>
      simp only [hb, Bool.false_eq_true, if_false] at hc ⊢
      refine ⟨by rw [h1]; exact hproto, by rw [h1, aux_sends_snoc_flush]; exact hdata, ?_, ?_, o⟩
      · intro h
        rw [aux_armedAfter_append] at h; simp only [armedAfter] at h
        have := a h; subst this
        have := h3; simp only [List.append_eq_nil_iff] at this; exact this.2
      · intro h; rw [aux_lastFlushed_snoc] at h; cases h
    | true =>
      simp only [hb, if_true] at hc ⊢
      have hnil := h4 hb
      refine ⟨?_, ?_, fun _ => hnil, fun _ => hnil, o⟩
      · rw [h1]; simp only [protoOk, aux_protoOkAux_append, Bool.and_eq_true]
        exact ⟨by simpa [protoOk, aux_protoOkAux_append] using hproto, by simp [protoOkAux]⟩
      · rw [h1, aux_sends_snoc_flush, aux_sends_snoc_flush]; exact hdata
  | close =>
    simp only [stepOp, flatMap, aux_recd_pollReady, aux_recd_startSend, aux_recd_pollFlush, aux_recd_pollClose] at hc ⊢
    cases hb : (drain k.recd (s, it) buf).2 with
    | false =>
      simp only [hb, Bool.false_eq_true, if_false] at hc ⊢
      refine ⟨by rw [h1]; exact hproto, by rw [h1, aux_sends_snoc_close]; exact hdata, ?_, ?_, o⟩
      · intro h
        rw [aux_armedAfter_append] at h; simp only [armedAfter] at h
        have := a h; subst this
        have := h3; simp only [List.append_eq_nil_iff] at this; exact this.2
      · intro h; rw [aux_lastFlushed_snoc] at h; cases h
    | true =>
      simp only [hb, if_true] at hc ⊢
      have hnil := h4 hb
      refine ⟨?_, ?_, fun _ => hnil, fun _ => hnil, o⟩
      · rw [h1]; simp only [protoOk, aux_protoOkAux_append, Bool.and_eq_true]
        exact ⟨by simpa [protoOk, aux_protoOkAux_append] using hproto, by simp [protoOkAux]⟩
      · rw [h1, aux_sends_snoc_close, aux_sends_snoc_close]; exact hdata

theorem aux_stepOp_ct_flatMap (g : α → List β) (k : Snk σ β)
    (c : (((σ × List (Ev β)) × List β) × List (Ev α)) × Bool) (op : Op α) :
    ∃ e, (stepOp (flatMap g k.recd).recd c op).1.2 = c.1.2 ++ [e] := by
  cases op <;> simp [stepOp, aux_recd_pollReady, aux_recd_startSend, aux_recd_pollFlush, aux_recd_pollClose]

theorem aux_flatMap_run (g : α → List β) (k : Snk σ β) (ops : List (Op α)) :
    ∀ (c : (((σ × List (Ev β)) × List β) × List (Ev α)) × Bool),
      (protoOk c.1.2 = true → FMInv g c.1.1.1.2 c.1.1.2 c.1.2 c.2) →
      protoOk (runOps (flatMap g k.recd).recd c ops).1.2 = true →
      FMInv g (runOps (flatMap g k.recd).recd c ops).1.1.1.2 (runOps (flatMap g k.recd).recd c ops).1.1.2
        (runOps (flatMap g k.recd).recd c ops).1.2 (runOps (flatMap g k.recd).recd c ops).2 := by
  induction ops with
  | nil => intro c h hc; exact h hc
  | cons op ops ih =>
    intro c h hc
    simp only [runOps, List.foldl_cons] at ih hc ⊢
    apply ih _ _ hc
    intro hc'
    obtain ⟨e, he⟩ := aux_stepOp_ct_flatMap g k c op
    have hpre : protoOk c.1.2 = true := by rw [he] at hc'; exact aux_protoOk_prefix _ _ hc'
    exact aux_flatMap_step g k c op (h hpre) hc'

/-- **`FlatMap`** (and `Flatten` = `FlatMap id`): for every inner sink and every client that honours
the contract: the inner sink sees a contract-honouring call sequence; what it received followed by
what is still buffered is exactly the flattening of the client's items (order, no loss, no
duplicate); `start_send` never hits the "Sink not ready" assertion; and once a flush or close
answered `Ready` nothing is buffered any more. -/
theorem flatMap_delivers_in_order (g : α → List β) (k : Snk σ β) (s : σ) (ops : List (Op α)) :
    let r := runOps (flatMap g k.recd).recd ((((s, []), []), []), true) ops
    protoOk r.1.2 = true →
      protoOk r.1.1.1.2 = true ∧ sends r.1.1.1.2 ++ r.1.1.2 = (sends r.1.2).flatMap g ∧ r.2 = true ∧
      (lastFlushed r.1.2 = true → sends r.1.1.1.2 = (sends r.1.2).flatMap g) := by
  intro r hc
  have h := aux_flatMap_run g k ops ((((s, []), []), []), true)
    (fun _ => ⟨rfl, rfl, fun _ => rfl, fun _ => rfl, rfl⟩) hc
  refine ⟨h.proto, h.data, h.ok, fun hf => ?_⟩
  have := h.data; rw [h.flushed hf, List.append_nil] at this; exact this

theorem flatten_delivers_in_order (k : Snk σ β) (s : σ) (ops : List (Op (List β))) :
    let r := runOps (flatten k.recd).recd ((((s, []), []), []), true) ops
    protoOk r.1.2 = true →
      protoOk r.1.1.1.2 = true ∧ sends r.1.1.1.2 ++ r.1.1.2 = (sends r.1.2).flatMap id ∧ r.2 = true :=
  fun hc => let h := flatMap_delivers_in_order id k s ops hc; ⟨h.1, h.2.1, h.2.2.1⟩


/-! ### `Unzip` -/

structure UZInv {γ : Type} (it₀ : List (Ev α)) (it₁ : List (Ev γ)) (ct : List (Ev (α × γ))) : Prop where
  p₀ : protoOk it₀ = true
  p₁ : protoOk it₁ = true
  d₀ : sends it₀ = (sends ct).map (·.1)
  d₁ : sends it₁ = (sends ct).map (·.2)
  armed : armedAfter false ct = true → armedAfter false it₀ = true ∧ armedAfter false it₁ = true

theorem aux_protoOk_snoc_poll (t : List (Ev α)) (e : Ev α) (h : protoOk t = true)
    (he : ∀ x, e ≠ .send x) : protoOk (t ++ [e]) = true := by
  simp only [protoOk, aux_protoOkAux_append, Bool.and_eq_true]
  refine ⟨h, ?_⟩
  cases e with
  | send x => exact absurd rfl (he x)
  | ready b => simp [protoOkAux]
  | flush b => simp [protoOkAux]
  | close b => simp [protoOkAux]

theorem aux_unzip_step {γ τ : Type} (k₀ : Snk σ α) (k₁ : Snk τ γ)
    (c : (((σ × List (Ev α)) × (τ × List (Ev γ))) × List (Ev (α × γ))) × Bool) (op : Op (α × γ))
    (hI : UZInv c.1.1.1.2 c.1.1.2.2 c.1.2)
    (hc : protoOk (stepOp (unzip k₀.recd k₁.recd).recd c op).1.2 = true) :
    UZInv (stepOp (unzip k₀.recd k₁.recd).recd c op).1.1.1.2
      (stepOp (unzip k₀.recd k₁.recd).recd c op).1.1.2.2 (stepOp (unzip k₀.recd k₁.recd).recd c op).1.2 := by
  obtain ⟨⟨⟨⟨s₀, it₀⟩, ⟨s₁, it₁⟩⟩, ct⟩, ok⟩ := c
  obtain ⟨p₀, p₁, d₀, d₁, ar⟩ := hI
  simp only at p₀ p₁ d₀ d₁ ar
  cases op with
  | ready =>
    simp only [stepOp, unzip, aux_recd_pollReady] at hc ⊢
    refine ⟨aux_protoOk_snoc_poll _ _ p₀ (by simp), aux_protoOk_snoc_poll _ _ p₁ (by simp),
      by rw [aux_sends_snoc_ready, aux_sends_snoc_ready]; exact d₀,
      by rw [aux_sends_snoc_ready, aux_sends_snoc_ready]; exact d₁, ?_⟩
    intro h
    simp only [aux_armedAfter_append, armedAfter, Bool.and_eq_true] at h ⊢
    exact h
  | send x =>
    simp only [stepOp, unzip, aux_recd_startSend] at hc ⊢
    have harm : armedAfter false ct = true := by
      simp only [protoOk, aux_protoOkAux_append, protoOkAux, Bool.and_eq_true, Bool.and_true] at hc
      exact hc.2
    obtain ⟨a₀, a₁⟩ := ar harm
    refine ⟨?_, ?_, by rw [aux_sends_snoc_send, aux_sends_snoc_send, d₀]; simp,
      by rw [aux_sends_snoc_send, aux_sends_snoc_send, d₁]; simp, ?_⟩
    · simp only [protoOk, aux_protoOkAux_append, protoOkAux, Bool.and_eq_true, Bool.and_true]
      exact ⟨p₀, a₀⟩
    · simp only [protoOk, aux_protoOkAux_append, protoOkAux, Bool.and_eq_true, Bool.and_true]
      exact ⟨p₁, a₁⟩
    · intro h; simp [aux_armedAfter_append, armedAfter] at h
  | flush =>
    simp only [stepOp, unzip, aux_recd_pollFlush] at hc ⊢
    refine ⟨aux_protoOk_snoc_poll _ _ p₀ (by simp), aux_protoOk_snoc_poll _ _ p₁ (by simp),
      by rw [aux_sends_snoc_flush, aux_sends_snoc_flush]; exact d₀,
      by rw [aux_sends_snoc_flush, aux_sends_snoc_flush]; exact d₁, ?_⟩
    intro h
    simp only [aux_armedAfter_append, armedAfter] at h ⊢
    exact ar h
  | close =>
    simp only [stepOp, unzip, aux_recd_pollClose] at hc ⊢
    refine ⟨aux_protoOk_snoc_poll _ _ p₀ (by simp), aux_protoOk_snoc_poll _ _ p₁ (by simp),
      by rw [aux_sends_snoc_close, aux_sends_snoc_close]; exact d₀,
      by rw [aux_sends_snoc_close, aux_sends_snoc_close]; exact d₁, ?_⟩
    intro h
    simp only [aux_armedAfter_append, armedAfter] at h ⊢
    exact ar h

theorem aux_unzip_run {γ τ : Type} (k₀ : Snk σ α) (k₁ : Snk τ γ) (ops : List (Op (α × γ))) :
    ∀ (c : (((σ × List (Ev α)) × (τ × List (Ev γ))) × List (Ev (α × γ))) × Bool),
      (protoOk c.1.2 = true → UZInv c.1.1.1.2 c.1.1.2.2 c.1.2) →
      protoOk (runOps (unzip k₀.recd k₁.recd).recd c ops).1.2 = true →
      UZInv (runOps (unzip k₀.recd k₁.recd).recd c ops).1.1.1.2
        (runOps (unzip k₀.recd k₁.recd).recd c ops).1.1.2.2 (runOps (unzip k₀.recd k₁.recd).recd c ops).1.2 := by
  induction ops with
  | nil => intro c h hc; exact h hc
  | cons op ops ih =>
    intro c h hc
    simp only [runOps, List.foldl_cons] at ih hc ⊢
    apply ih _ _ hc
    intro hc'
    have hpre : protoOk c.1.2 = true := by
      have : ∃ e, (stepOp (unzip k₀.recd k₁.recd).recd c op).1.2 = c.1.2 ++ [e] := by
        cases op <;> simp [stepOp, aux_recd_pollReady, aux_recd_startSend, aux_recd_pollFlush, aux_recd_pollClose]
      obtain ⟨e, he⟩ := this
      rw [he] at hc'; exact aux_protoOk_prefix _ _ hc'
    exact aux_unzip_step k₀ k₁ c op (h hpre) hc'

/-- **`Unzip`**: for all inner sinks and every contract-honouring client, both inner sinks see a
contract-honouring call sequence, the first receives exactly the first components and the second
exactly the second components, in order, once. -/
theorem unzip_routes_in_order {γ τ : Type} (k₀ : Snk σ α) (k₁ : Snk τ γ) (s₀ : σ) (s₁ : τ)
    (ops : List (Op (α × γ))) :
    let r := runOps (unzip k₀.recd k₁.recd).recd ((((s₀, []), (s₁, [])), []), true) ops
    protoOk r.1.2 = true →
      protoOk r.1.1.1.2 = true ∧ protoOk r.1.1.2.2 = true ∧
      sends r.1.1.1.2 = (sends r.1.2).map (·.1) ∧ sends r.1.1.2.2 = (sends r.1.2).map (·.2) := by
  intro r hc
  have h := aux_unzip_run k₀ k₁ ops ((((s₀, []), (s₁, [])), []), true)
    (fun _ => ⟨rfl, rfl, rfl, rfl, fun h => by simp [armedAfter] at h⟩) hc
  exact ⟨h.p₀, h.p₁, h.d₀, h.d₁⟩

/-! ### `DemuxVar` (routing by index) -/

theorem aux_pollAll (op : σ → σ × Bool) (ss : List σ) :
    pollAll op ss = (ss.map (fun s => (op s).1), ss.all (fun s => (op s).2)) := by
  induction ss with
  | nil => rfl
  | cons s rest ih => simp [pollAll, ih]

/-- the items addressed to sink `i` -/
def sel (i : Nat) (e : Nat × α) : Option α := if e.1 = i then some e.2 else none

structure DVInv (ss : List (σ × List (Ev α))) (ct : List (Ev (Nat × α))) : Prop where
  each : ∀ (i : Nat) (p : σ × List (Ev α)), ss[i]? = some p →
    protoOk p.2 = true ∧ sends p.2 = (sends ct).filterMap (sel i) ∧
    (armedAfter false ct = true → armedAfter false p.2 = true)

theorem aux_demuxVar_step (k : Snk σ α)
    (c : (List (σ × List (Ev α)) × List (Ev (Nat × α))) × Bool) (op : Op (Nat × α))
    (hI : DVInv c.1.1 c.1.2)
    (hc : protoOk (stepOp (demuxVar k.recd).recd c op).1.2 = true) :
    DVInv (stepOp (demuxVar k.recd).recd c op).1.1 (stepOp (demuxVar k.recd).recd c op).1.2 := by
  obtain ⟨⟨ss, ct⟩, ok⟩ := c
  obtain ⟨hE⟩ := hI
  simp only at hE
  cases op with
  | ready =>
    simp only [stepOp, aux_recd_pollReady, demuxVar, aux_pollAll] at hc ⊢
    constructor
    intro i p hp
    rw [List.getElem?_map] at hp
    cases hq : ss[i]? with
    | none => simp [hq] at hp
    | some q =>
      simp only [hq, Option.map_some, Option.some.injEq] at hp
      subst hp
      obtain ⟨e1, e2, e3⟩ := hE i q hq
      refine ⟨aux_protoOk_snoc_poll _ _ e1 (by simp), by rw [aux_sends_snoc_ready, aux_sends_snoc_ready]; exact e2, ?_⟩
      intro h
      simp only [aux_armedAfter_append, armedAfter, List.all_eq_true] at h ⊢
      exact h q (List.mem_of_getElem? hq)
  | flush =>
    simp only [stepOp, aux_recd_pollFlush, demuxVar, aux_pollAll] at hc ⊢
    constructor
    intro i p hp
    rw [List.getElem?_map] at hp
    cases hq : ss[i]? with
    | none => simp [hq] at hp
    | some q =>
      simp only [hq, Option.map_some, Option.some.injEq] at hp
      subst hp
      obtain ⟨e1, e2, e3⟩ := hE i q hq
      refine ⟨aux_protoOk_snoc_poll _ _ e1 (by simp), by rw [aux_sends_snoc_flush, aux_sends_snoc_flush]; exact e2, ?_⟩
      intro h
      simp only [aux_armedAfter_append, armedAfter] at h ⊢
      exact e3 h
  | close =>
    simp only [stepOp, aux_recd_pollClose, demuxVar, aux_pollAll] at hc ⊢
    constructor
    intro i p hp
    rw [List.getElem?_map] at hp
    cases hq : ss[i]? with
    | none => simp [hq] at hp
    | some q =>
      simp only [hq, Option.map_some, Option.some.injEq] at hp
      subst hp
      obtain ⟨e1, e2, e3⟩ := hE i q hq
      refine ⟨aux_protoOk_snoc_poll _ _ e1 (by simp), by rw [aux_sends_snoc_close, aux_sends_snoc_close]; exact e2, ?_⟩
      intro h
      simp only [aux_armedAfter_append, armedAfter] at h ⊢
      exact e3 h
  | send x =>
    simp only [stepOp, aux_recd_startSend, demuxVar] at hc ⊢
    have harm : armedAfter false ct = true := by
      simp only [protoOk, aux_protoOkAux_append, protoOkAux, Bool.and_eq_true, Bool.and_true] at hc
      exact hc.2
    constructor
    intro i p hp
    cases hx : ss[x.1]? with
    | none =>
      -- index out of range: `panic!`, nothing is sent anywhere
      simp only [hx] at hp
      obtain ⟨e1, e2, e3⟩ := hE i p hp
      have hne : x.1 ≠ i := by
        intro h; rw [h] at hx; rw [hx] at hp; cases hp
      refine ⟨e1, ?_, ?_⟩
      · rw [aux_sends_snoc_send, List.filterMap_append]; simp [sel, hne, e2]
      · intro h; simp [aux_armedAfter_append, armedAfter] at h
    | some q =>
      simp only [hx] at hp
      have hlt : x.1 < ss.length := (List.getElem?_eq_some_iff.mp hx).1
      by_cases hi : x.1 = i
      · subst hi
        rw [List.getElem?_set_self hlt] at hp
        simp only [Option.some.injEq] at hp
        subst hp
        obtain ⟨e1, e2, e3⟩ := hE x.1 q hx
        refine ⟨?_, ?_, ?_⟩
        · simp only [protoOk, aux_protoOkAux_append, protoOkAux, Bool.and_eq_true, Bool.and_true]
          exact ⟨e1, e3 harm⟩
        · rw [aux_sends_snoc_send, aux_sends_snoc_send, List.filterMap_append, e2]; simp [sel]
        · intro h; simp [aux_armedAfter_append, armedAfter] at h
      · rw [List.getElem?_set_ne hi] at hp
        obtain ⟨e1, e2, e3⟩ := hE i p hp
        refine ⟨e1, ?_, ?_⟩
        · rw [aux_sends_snoc_send, List.filterMap_append]; simp [sel, hi, e2]
        · intro h; simp [aux_armedAfter_append, armedAfter] at h

theorem aux_demuxVar_run (k : Snk σ α) (ops : List (Op (Nat × α))) :
    ∀ (c : (List (σ × List (Ev α)) × List (Ev (Nat × α))) × Bool),
      (protoOk c.1.2 = true → DVInv c.1.1 c.1.2) →
      protoOk (runOps (demuxVar k.recd).recd c ops).1.2 = true →
      DVInv (runOps (demuxVar k.recd).recd c ops).1.1 (runOps (demuxVar k.recd).recd c ops).1.2 := by
  induction ops with
  | nil => intro c h hc; exact h hc
  | cons op ops ih =>
    intro c h hc
    simp only [runOps, List.foldl_cons] at ih hc ⊢
    apply ih _ _ hc
    intro hc'
    have hpre : protoOk c.1.2 = true := by
      have : ∃ e, (stepOp (demuxVar k.recd).recd c op).1.2 = c.1.2 ++ [e] := by
        cases op <;> simp [stepOp, aux_recd_pollReady, aux_recd_startSend, aux_recd_pollFlush, aux_recd_pollClose]
      obtain ⟨e, he⟩ := this
      rw [he] at hc'; exact aux_protoOk_prefix _ _ hc'
    exact aux_demuxVar_step k c op (h hpre) hc'

/-- **`DemuxVar`** (`demux_var`): for any number of inner sinks and every contract-honouring client,
every inner sink `i` sees a contract-honouring call sequence and receives exactly the items
addressed to index `i`, in order, once (an out-of-range index sends nothing anywhere — it is the
documented `panic!`). -/
theorem demuxVar_routes_in_order (k : Snk σ α) (states : List σ) (ops : List (Op (Nat × α))) :
    let r := runOps (demuxVar k.recd).recd ((states.map (fun s => (s, [])), []), true) ops
    protoOk r.1.2 = true →
      ∀ (i : Nat) (p : σ × List (Ev α)), r.1.1[i]? = some p →
        protoOk p.2 = true ∧ sends p.2 = (sends r.1.2).filterMap (sel i) := by
  intro r hc i p hp
  have h := aux_demuxVar_run k ops ((states.map (fun s => (s, [])), []), true) (fun _ => ⟨by
    intro i p hp
    rw [List.getElem?_map] at hp
    cases hq : states[i]? with
    | none => simp [hq] at hp
    | some q =>
      simp only [hq, Option.map_some, Option.some.injEq] at hp
      subst hp
      exact ⟨rfl, rfl, fun h => by simp [armedAfter] at h⟩⟩) hc
  obtain ⟨e1, e2, _⟩ := h.each i p hp
  exact ⟨e1, e2⟩

/-! ### `DemuxMap` (routing by key) -/

theorem aux_pollAllKeyed (op : σ → σ × Bool) (ss : List (Nat × σ)) :
    pollAllKeyed op ss = (ss.map (fun e => (e.1, (op e.2).1)), ss.all (fun e => (op e.2).2)) := by
  induction ss with
  | nil => rfl
  | cons e rest ih => obtain ⟨key, s⟩ := e; simp [pollAllKeyed, ih]

/-- `start_send` into a keyed table with pairwise different keys: exactly the entry with that key
is touched; `none` iff the key is missing -/
theorem aux_sendKeyed (k : Snk σ α) (key : Nat) (x : α) :
    ∀ (ss : List (Nat × σ)), (ss.map (·.1)).Nodup →
      (key ∉ ss.map (·.1) → sendKeyed k ss key x = none) ∧
      (key ∈ ss.map (·.1) → ∃ r, sendKeyed k ss key x = some r ∧
        r.1 = ss.map (fun e => if e.1 = key then (e.1, (k.startSend e.2 x).1) else e)) := by
  intro ss
  induction ss with
  | nil => intro _; exact ⟨fun _ => rfl, fun h => by simp at h⟩
  | cons e rest ih =>
    obtain ⟨key', s⟩ := e
    intro hn
    simp only [List.map_cons, List.nodup_cons] at hn
    obtain ⟨ih1, ih2⟩ := ih hn.2
    by_cases hk : key' = key
    · subst hk
      refine ⟨fun h => by simp at h, fun _ => ?_⟩
      have hrest : rest.map (fun e => if e.1 = key' then (e.1, (k.startSend e.2 x).1) else e) = rest := by
        have hall : ∀ a ∈ rest, (fun e : Nat × σ => if e.1 = key' then (e.1, (k.startSend e.2 x).1) else e) a = id a := by
          intro a ha
          have : a.1 ≠ key' := fun h => hn.1 (List.mem_map.mpr ⟨a, ha, h⟩)
          simp [this]
        rw [List.map_congr_left hall, List.map_id]
      exact ⟨((key', (k.startSend s x).1) :: rest, (k.startSend s x).2), by simp [sendKeyed], by simp [hrest]⟩
    · constructor
      · intro h
        have : key ∉ rest.map (·.1) := fun h' => h (by simp [h'])
        simp [sendKeyed, hk, ih1 this]
      · intro h
        have hin : key ∈ rest.map (·.1) := by
          simp only [List.map_cons, List.mem_cons] at h
          rcases h with h | h
          · exact absurd h.symm hk
          · exact h
        obtain ⟨r, hr1, hr2⟩ := ih2 hin
        exact ⟨((key', s) :: r.1, r.2), by simp [sendKeyed, hk, hr1], by simp [hk, hr2]⟩

structure DMInv (ss : List (Nat × (σ × List (Ev α)))) (ct : List (Ev (Nat × α))) (keys : List Nat) : Prop where
  keys : ss.map (·.1) = keys
  each : ∀ (e : Nat × (σ × List (Ev α))), e ∈ ss →
    protoOk e.2.2 = true ∧ sends e.2.2 = (sends ct).filterMap (sel e.1) ∧
    (armedAfter false ct = true → armedAfter false e.2.2 = true)

theorem aux_demuxMap_step (k : Snk σ α) (keys : List Nat) (hn : keys.Nodup)
    (c : (List (Nat × (σ × List (Ev α))) × List (Ev (Nat × α))) × Bool) (op : Op (Nat × α))
    (hI : DMInv c.1.1 c.1.2 keys)
    (hc : protoOk (stepOp (demuxMap k.recd).recd c op).1.2 = true) :
    DMInv (stepOp (demuxMap k.recd).recd c op).1.1 (stepOp (demuxMap k.recd).recd c op).1.2 keys := by
  obtain ⟨⟨ss, ct⟩, ok⟩ := c
  obtain ⟨hK, hE⟩ := hI
  simp only at hK hE
  have hpoll : ∀ (opk : (σ × List (Ev α)) → (σ × List (Ev α)) × Bool) (mkEv : Bool → Ev α) (ctEv : Ev (Nat × α))
      (isReady : Bool),
      (∀ p, (opk p).1.2 = p.2 ++ [mkEv (opk p).2]) → (∀ b x, mkEv b ≠ .send x) →
      (∀ a b, armedAfter a [mkEv b] = if isReady then b else a) →
      (∀ x, ctEv ≠ .send x) →
      (armedAfter false (ct ++ [ctEv]) = true →
        if isReady then (∀ e ∈ ss, (opk e.2).2 = true) else armedAfter false ct = true) →
      DMInv (ss.map (fun e => (e.1, (opk e.2).1))) (ct ++ [ctEv]) keys := by
    intro opk mkEv ctEv isReady h1 h2 h3 h4 h5
    refine ⟨by rw [List.map_map]; simpa [Function.comp_def] using hK, ?_⟩
    intro e he
    obtain ⟨q, hq, rfl⟩ := List.mem_map.mp he
    obtain ⟨e1, e2, e3⟩ := hE q hq
    have hs : sends (ct ++ [ctEv]) = sends ct := by
      rw [aux_sends_append]
      cases hce : ctEv with
      | send x => exact absurd hce (h4 x)
      | ready _ => simp [sends]
      | flush _ => simp [sends]
      | close _ => simp [sends]
    have hs2 : sends (q.2.2 ++ [mkEv (opk q.2).2]) = sends q.2.2 := by
      rw [aux_sends_append]
      cases hce : mkEv (opk q.2).2 with
      | send x => exact absurd hce (h2 _ x)
      | ready _ => simp [sends]
      | flush _ => simp [sends]
      | close _ => simp [sends]
    refine ⟨by simp only; rw [h1]; exact aux_protoOk_snoc_poll _ _ e1 (h2 _), by simp only; rw [h1, hs, hs2]; exact e2, ?_⟩
    intro h
    have h5' := h5 h
    simp only
    rw [h1, aux_armedAfter_append, h3]
    cases isReady
    · simp only [Bool.false_eq_true, if_false] at h5' ⊢; exact e3 h5'
    · simp only [if_true] at h5' ⊢; exact h5' q hq
  cases op with
  | ready =>
    simp only [stepOp, aux_recd_pollReady, demuxMap, aux_pollAllKeyed] at hc ⊢
    exact hpoll k.recd.pollReady .ready _ true (fun p => by rw [aux_recd_pollReady]) (by simp)
      (by intro a b; simp [armedAfter]) (by simp)
      (by intro h; simp only [aux_armedAfter_append, armedAfter, List.all_eq_true, if_true] at h ⊢; exact h)
  | flush =>
    simp only [stepOp, aux_recd_pollFlush, demuxMap, aux_pollAllKeyed] at hc ⊢
    exact hpoll k.recd.pollFlush .flush _ false (fun p => by rw [aux_recd_pollFlush]) (by simp)
      (by intro a b; simp [armedAfter]) (by simp)
      (by intro h; simpa [aux_armedAfter_append, armedAfter] using h)
  | close =>
    simp only [stepOp, aux_recd_pollClose, demuxMap, aux_pollAllKeyed] at hc ⊢
    exact hpoll k.recd.pollClose .close _ false (fun p => by rw [aux_recd_pollClose]) (by simp)
      (by intro a b; simp [armedAfter]) (by simp)
      (by intro h; simpa [aux_armedAfter_append, armedAfter] using h)
  | send x =>
    simp only [stepOp, aux_recd_startSend, demuxMap] at hc ⊢
    have harm : armedAfter false ct = true := by
      simp only [protoOk, aux_protoOkAux_append, protoOkAux, Bool.and_eq_true, Bool.and_true] at hc
      exact hc.2
    obtain ⟨s1, s2⟩ := aux_sendKeyed k.recd x.1 x.2 ss (by rw [hK]; exact hn)
    by_cases hin : x.1 ∈ ss.map (·.1)
    · obtain ⟨r, hr1, hr2⟩ := s2 hin
      simp only [hr1]
      refine ⟨by rw [hr2, List.map_map, ← hK]; apply List.map_congr_left; intro a _; simp only [Function.comp]; split <;> rfl, ?_⟩
      intro e he
      rw [hr2] at he
      obtain ⟨q, hq, rfl⟩ := List.mem_map.mp he
      obtain ⟨e1, e2, e3⟩ := hE q hq
      by_cases hk : q.1 = x.1
      · simp only [hk, if_true, aux_recd_startSend]
        refine ⟨?_, ?_, ?_⟩
        · simp only [protoOk, aux_protoOkAux_append, protoOkAux, Bool.and_eq_true, Bool.and_true]
          exact ⟨e1, e3 harm⟩
        · rw [aux_sends_snoc_send, aux_sends_snoc_send, List.filterMap_append, e2]; simp [sel, hk.symm]
        · intro h; simp [aux_armedAfter_append, armedAfter] at h
      · simp only [hk, if_false]
        refine ⟨e1, ?_, ?_⟩
        · rw [aux_sends_snoc_send, List.filterMap_append]
          have : x.1 ≠ q.1 := fun h => hk h.symm
          simp [sel, this, e2]
        · intro h; simp [aux_armedAfter_append, armedAfter] at h
    · -- missing key: `panic!`, nothing is sent
      simp only [s1 hin]
      refine ⟨hK, ?_⟩
      intro e he
      obtain ⟨e1, e2, e3⟩ := hE e he
      have hne : x.1 ≠ e.1 := fun h => hin (List.mem_map.mpr ⟨e, he, h.symm⟩)
      refine ⟨e1, ?_, ?_⟩
      · rw [aux_sends_snoc_send, List.filterMap_append]; simp [sel, hne, e2]
      · intro h; simp [aux_armedAfter_append, armedAfter] at h

theorem aux_demuxMap_run (k : Snk σ α) (keys : List Nat) (hn : keys.Nodup) (ops : List (Op (Nat × α))) :
    ∀ (c : (List (Nat × (σ × List (Ev α))) × List (Ev (Nat × α))) × Bool),
      (protoOk c.1.2 = true → DMInv c.1.1 c.1.2 keys) →
      protoOk (runOps (demuxMap k.recd).recd c ops).1.2 = true →
      DMInv (runOps (demuxMap k.recd).recd c ops).1.1 (runOps (demuxMap k.recd).recd c ops).1.2 keys := by
  induction ops with
  | nil => intro c h hc; exact h hc
  | cons op ops ih =>
    intro c h hc
    simp only [runOps, List.foldl_cons] at ih hc ⊢
    apply ih _ _ hc
    intro hc'
    have hpre : protoOk c.1.2 = true := by
      have : ∃ e, (stepOp (demuxMap k.recd).recd c op).1.2 = c.1.2 ++ [e] := by
        cases op <;> simp [stepOp, aux_recd_pollReady, aux_recd_startSend, aux_recd_pollFlush, aux_recd_pollClose]
      obtain ⟨e, he⟩ := this
      rw [he] at hc'; exact aux_protoOk_prefix _ _ hc'
    exact aux_demuxMap_step k keys hn c op (h hpre) hc'

/-- **`DemuxMap`** (`demux_map`): for any table of inner sinks with pairwise different keys and every
contract-honouring client, the sink stored under `key` sees a contract-honouring call sequence and
receives exactly the items addressed to `key`, in order, once; the key set never changes (a missing
key sends nothing — the documented `panic!`). -/
theorem demuxMap_routes_in_order (k : Snk σ α) (table : List (Nat × σ)) (hn : (table.map (·.1)).Nodup)
    (ops : List (Op (Nat × α))) :
    let r := runOps (demuxMap k.recd).recd ((table.map (fun e => (e.1, (e.2, []))), []), true) ops
    protoOk r.1.2 = true →
      r.1.1.map (·.1) = table.map (·.1) ∧
      ∀ e ∈ r.1.1, protoOk e.2.2 = true ∧ sends e.2.2 = (sends r.1.2).filterMap (sel e.1) := by
  intro r hc
  have h := aux_demuxMap_run k (table.map (·.1)) hn ops ((table.map (fun e => (e.1, (e.2, []))), []), true)
    (fun _ => ⟨by simp [List.map_map, Function.comp_def], by
      intro e he
      obtain ⟨q, _, rfl⟩ := List.mem_map.mp he
      exact ⟨rfl, rfl, fun h => by simp [armedAfter] at h⟩⟩) hc
  exact ⟨h.keys, fun e he => ⟨(h.each e he).1, (h.each e he).2.1⟩⟩

/-! ### `LazyDemuxSink` (`demux_map_lazy`): routing by key with sinks created on first use -/

theorem aux_armedAfter_mono (t : List (Ev α)) (h : armedAfter false t = true) : armedAfter true t = true := by
  induction t with
  | nil => rfl
  | cons e t ih => cases e <;> simp_all [armedAfter]

/-- the per-sink invariant of `LazyDemuxSink`: every sink of the table sees a call sequence that
honours the contract *except that its very first call is the `start_send` that created it*
(`protoOkAux true`: as if a `Ready` had been answered before the sink existed — finding F5), it has
received exactly the items addressed to its key, and a key without a sink has been sent nothing -/
structure LDInv (ss : List (Nat × (σ × List (Ev α)))) (ct : List (Ev (Nat × α))) : Prop where
  nodup : (ss.map (·.1)).Nodup
  each : ∀ (e : Nat × (σ × List (Ev α))), e ∈ ss →
    protoOkAux true e.2.2 = true ∧ sends e.2.2 = (sends ct).filterMap (sel e.1) ∧
    (armedAfter false ct = true → armedAfter false e.2.2 = true) ∧
    (∃ x rest, e.2.2 = .send x :: rest)
  absent : ∀ key, key ∉ ss.map (·.1) → (sends ct).filterMap (sel key) = []

theorem aux_lazyDemux_step (k : Snk σ α) (mk : Nat → σ)
    (c : (List (Nat × (σ × List (Ev α))) × List (Ev (Nat × α))) × Bool) (op : Op (Nat × α))
    (hI : LDInv c.1.1 c.1.2)
    (hc : protoOk (stepOp (lazyDemux (fun key => (mk key, [])) k.recd).recd c op).1.2 = true) :
    LDInv (stepOp (lazyDemux (fun key => (mk key, [])) k.recd).recd c op).1.1
      (stepOp (lazyDemux (fun key => (mk key, [])) k.recd).recd c op).1.2 := by
  obtain ⟨⟨ss, ct⟩, ok⟩ := c
  obtain ⟨hN, hE, hA⟩ := hI
  simp only at hN hE hA
  have hpoll : ∀ (opk : (σ × List (Ev α)) → (σ × List (Ev α)) × Bool) (mkEv : Bool → Ev α) (ctEv : Ev (Nat × α))
      (isReady : Bool),
      (∀ p, (opk p).1.2 = p.2 ++ [mkEv (opk p).2]) → (∀ b x, mkEv b ≠ .send x) →
      (∀ a b, armedAfter a [mkEv b] = if isReady then b else a) →
      (∀ x, ctEv ≠ .send x) →
      (armedAfter false (ct ++ [ctEv]) = true →
        if isReady then (∀ e ∈ ss, (opk e.2).2 = true) else armedAfter false ct = true) →
      LDInv (ss.map (fun e => (e.1, (opk e.2).1))) (ct ++ [ctEv]) := by
    intro opk mkEv ctEv isReady h1 h2 h3 h4 h5
    have hs : sends (ct ++ [ctEv]) = sends ct := by
      rw [aux_sends_append]
      cases hce : ctEv with
      | send x => exact absurd hce (h4 x)
      | ready _ => simp [sends]
      | flush _ => simp [sends]
      | close _ => simp [sends]
    have hkeys : (ss.map (fun e => (e.1, (opk e.2).1))).map (·.1) = ss.map (·.1) := by
      rw [List.map_map]; rfl
    refine ⟨by rw [hkeys]; exact hN, ?_, by rw [hkeys, hs]; exact hA⟩
    intro e he
    obtain ⟨q, hq, rfl⟩ := List.mem_map.mp he
    obtain ⟨e1, e2, e3, x0, rest0, e4⟩ := hE q hq
    have hs2 : sends (q.2.2 ++ [mkEv (opk q.2).2]) = sends q.2.2 := by
      rw [aux_sends_append]
      cases hce : mkEv (opk q.2).2 with
      | send x => exact absurd hce (h2 _ x)
      | ready _ => simp [sends]
      | flush _ => simp [sends]
      | close _ => simp [sends]
    refine ⟨?_, by simp only; rw [h1, hs, hs2]; exact e2, ?_, x0, rest0 ++ [mkEv (opk q.2).2], by simp only; rw [h1, e4]; rfl⟩
    · simp only; rw [h1, aux_protoOkAux_append, e1, Bool.true_and]
      cases hce : mkEv (opk q.2).2 with
      | send x => exact absurd hce (h2 _ x)
      | ready _ => simp [protoOkAux]
      | flush _ => simp [protoOkAux]
      | close _ => simp [protoOkAux]
    · intro h
      have h5' := h5 h
      simp only
      rw [h1, aux_armedAfter_append, h3]
      cases isReady
      · simp only [Bool.false_eq_true, if_false] at h5' ⊢; exact e3 h5'
      · simp only [if_true] at h5' ⊢; exact h5' q hq
  cases op with
  | ready =>
    simp only [stepOp, aux_recd_pollReady, lazyDemux, aux_pollAllKeyed] at hc ⊢
    exact hpoll k.recd.pollReady .ready _ true (fun p => by rw [aux_recd_pollReady]) (by simp)
      (by intro a b; simp [armedAfter]) (by simp)
      (by intro h; simp only [aux_armedAfter_append, armedAfter, List.all_eq_true, if_true] at h ⊢; exact h)
  | flush =>
    simp only [stepOp, aux_recd_pollFlush, lazyDemux, aux_pollAllKeyed] at hc ⊢
    exact hpoll k.recd.pollFlush .flush _ false (fun p => by rw [aux_recd_pollFlush]) (by simp)
      (by intro a b; simp [armedAfter]) (by simp)
      (by intro h; simpa [aux_armedAfter_append, armedAfter] using h)
  | close =>
    simp only [stepOp, aux_recd_pollClose, lazyDemux, aux_pollAllKeyed] at hc ⊢
    exact hpoll k.recd.pollClose .close _ false (fun p => by rw [aux_recd_pollClose]) (by simp)
      (by intro a b; simp [armedAfter]) (by simp)
      (by intro h; simpa [aux_armedAfter_append, armedAfter] using h)
  | send x =>
    simp only [stepOp, aux_recd_startSend, lazyDemux] at hc ⊢
    have harm : armedAfter false ct = true := by
      simp only [protoOk, aux_protoOkAux_append, protoOkAux, Bool.and_eq_true, Bool.and_true] at hc
      exact hc.2
    obtain ⟨s1, s2⟩ := aux_sendKeyed k.recd x.1 x.2 ss hN
    have hna : armedAfter false (ct ++ [Ev.send x]) = true → False := by
      intro h; simp [aux_armedAfter_append, armedAfter] at h
    by_cases hin : x.1 ∈ ss.map (·.1)
    · -- the key has a sink already: exactly `DemuxMap`
      obtain ⟨r, hr1, hr2⟩ := s2 hin
      simp only [hr1]
      have hkeys : r.1.map (·.1) = ss.map (·.1) := by
        rw [hr2, List.map_map]; apply List.map_congr_left; intro a _; simp only [Function.comp]; split <;> rfl
      refine ⟨by rw [hkeys]; exact hN, ?_, ?_⟩
      · intro e he
        rw [hr2] at he
        obtain ⟨q, hq, rfl⟩ := List.mem_map.mp he
        obtain ⟨e1, e2, e3, x0, rest0, e4⟩ := hE q hq
        by_cases hk : q.1 = x.1
        · simp only [hk, if_true, aux_recd_startSend]
          refine ⟨?_, ?_, fun h => (hna h).elim, x0, rest0 ++ [.send x.2], by rw [e4]; rfl⟩
          · rw [aux_protoOkAux_append, e1, Bool.true_and]
            simp only [protoOkAux, Bool.and_true]
            exact aux_armedAfter_mono _ (e3 harm)
          · rw [aux_sends_snoc_send, aux_sends_snoc_send, List.filterMap_append, e2]; simp [sel, hk.symm]
        · simp only [hk, if_false]
          refine ⟨e1, ?_, fun h => (hna h).elim, x0, rest0, e4⟩
          rw [aux_sends_snoc_send, List.filterMap_append]
          have : x.1 ≠ q.1 := fun h => hk h.symm
          simp [sel, this, e2]
      · intro key hkey
        rw [hkeys] at hkey
        have hne : x.1 ≠ key := fun h => hkey (h ▸ hin)
        rw [aux_sends_snoc_send, List.filterMap_append, hA key hkey]; simp [sel, hne]
    · -- first use of the key: the sink is created and gets `start_send` at once (F5)
      simp only [s1 hin, aux_recd_startSend]
      refine ⟨?_, ?_, ?_⟩
      · rw [List.map_append, List.nodup_append]
        refine ⟨hN, by simp, ?_⟩
        intro a ha b hb
        simp only [List.map_cons, List.map_nil, List.mem_singleton] at hb
        subst hb; intro hab; exact hin (hab ▸ ha)
      · intro e he
        rcases List.mem_append.mp he with he | he
        · obtain ⟨e1, e2, e3, e4⟩ := hE e he
          have hne : x.1 ≠ e.1 := fun h => hin (List.mem_map.mpr ⟨e, he, h.symm⟩)
          refine ⟨e1, ?_, fun h => (hna h).elim, e4⟩
          rw [aux_sends_snoc_send, List.filterMap_append]; simp [sel, hne, e2]
        · simp only [List.mem_singleton] at he
          subst he
          refine ⟨by simp [protoOkAux], ?_, fun h => (hna h).elim, x.2, [], rfl⟩
          rw [aux_sends_snoc_send ct x, List.filterMap_append, hA x.1 hin]; simp [sends, sel]
      · intro key hkey
        have hk1 : key ∉ ss.map (·.1) := fun h => hkey (by simp [h])
        have hne : x.1 ≠ key := fun h => hkey (by simp [h])
        rw [aux_sends_snoc_send, List.filterMap_append, hA key hk1]; simp [sel, hne]

theorem aux_lazyDemux_run (k : Snk σ α) (mk : Nat → σ) (ops : List (Op (Nat × α))) :
    ∀ (c : (List (Nat × (σ × List (Ev α))) × List (Ev (Nat × α))) × Bool),
      (protoOk c.1.2 = true → LDInv c.1.1 c.1.2) →
      protoOk (runOps (lazyDemux (fun key => (mk key, [])) k.recd).recd c ops).1.2 = true →
      LDInv (runOps (lazyDemux (fun key => (mk key, [])) k.recd).recd c ops).1.1
        (runOps (lazyDemux (fun key => (mk key, [])) k.recd).recd c ops).1.2 := by
  induction ops with
  | nil => intro c h hc; exact h hc
  | cons op ops ih =>
    intro c h hc
    simp only [runOps, List.foldl_cons] at ih hc ⊢
    apply ih _ _ hc
    intro hc'
    have hpre : protoOk c.1.2 = true := by
      have : ∃ e, (stepOp (lazyDemux (fun key => (mk key, [])) k.recd).recd c op).1.2 = c.1.2 ++ [e] := by
        cases op <;> simp [stepOp, aux_recd_pollReady, aux_recd_startSend, aux_recd_pollFlush, aux_recd_pollClose]
      obtain ⟨e, he⟩ := this
      rw [he] at hc'; exact aux_protoOk_prefix _ _ hc'
    exact aux_lazyDemux_step k mk c op (h hpre) hc'

/-- **`LazyDemuxSink`** (`demux_map_lazy`), all keys — new and existing: for any inner sink type, any
sink factory `mk` and every contract-honouring client, starting from the empty table
 * keys stay pairwise different (a sink is created at most once per key, on first use);
 * the sink of `key` receives exactly the items addressed to `key`, in order, once, and an item
   addressed to a key is never dropped (a key without a sink has been sent nothing);
 * every sink's call sequence starts with the `start_send` that created it and, *from then on*,
   honours the contract (`protoOkAux true`: the contract with that first `start_send` excused).
The first `start_send` itself is unreadied on the code as it is: that is finding F5
(`lazyDemux_send_after_ready_refuted`), the only way this adaptor breaks the inner contract. -/
theorem lazyDemux_routes_in_order_partial (k : Snk σ α) (mk : Nat → σ) (ops : List (Op (Nat × α))) :
    let r := runOps (lazyDemux (fun key => (mk key, [])) k.recd).recd (([], []), true) ops
    protoOk r.1.2 = true →
      (r.1.1.map (·.1)).Nodup ∧
      (∀ e ∈ r.1.1, sends e.2.2 = (sends r.1.2).filterMap (sel e.1) ∧
        ∃ x rest, e.2.2 = .send x :: rest ∧ protoOk rest = true) ∧
      (∀ key, key ∉ r.1.1.map (·.1) → (sends r.1.2).filterMap (sel key) = []) := by
  intro r hc
  have h := aux_lazyDemux_run k mk ops (([], []), true)
    (fun _ => ⟨by simp, by intro e he; simp at he, by intro key _; rfl⟩) hc
  refine ⟨h.nodup, fun e he => ?_, h.absent⟩
  obtain ⟨e1, e2, _, x0, rest0, e4⟩ := h.each e he
  refine ⟨e2, x0, rest0, e4, ?_⟩
  rw [e4] at e1
  simpa [protoOkAux, protoOk] using e1

/-- the full clause for `demux_map_lazy` (every inner sink's call sequence honours the contract from
its first call on); refuted by F5 on the code as it is -/
def LazyDemuxContractStatement : Prop :=
  ∀ (σ α : Type) (k : Snk σ α) (mk : Nat → σ) (ops : List (Op (Nat × α))),
    let r := runOps (lazyDemux (fun key => (mk key, [])) k.recd).recd (([], []), true) ops
    protoOk r.1.2 = true → ∀ e ∈ r.1.1, protoOk e.2.2 = true

example :
    let r := runOps (lazyDemux (fun _ => (⟨[true, false, true], [], []⟩, [])) dsnk).recd (([], []), true)
      [.ready, .send (1, 5), .ready, .ready, .ready, .send (2, 6), .ready, .send (1, 7), .flush]
    protoOk r.1.2 = true ∧ r.1.1.map (fun e => (e.1, sends e.2.2)) = [(1, [5, 7]), (2, [6])] := by
  decide

/-! ### the drivers are contract-honouring clients -/

/-- one `SendIter::poll` appends a self-contained, contract-honouring burst of calls that sends a
prefix of the remaining items; it returns `Ready` only when every item was sent and the final
flush answered `Ready`. -/
theorem sendIter_is_polite_client (k : Snk σ α) (items : List α) : ∀ (s : σ) (ct : List (Ev α)),
    ∃ de, (sendIterPoll k.recd (s, ct) items).1.2 = ct ++ de ∧ (∀ a, protoOkAux a de = true) ∧
      sends de ++ (sendIterPoll k.recd (s, ct) items).2.1 = items ∧
      ((sendIterPoll k.recd (s, ct) items).2.2 = true →
        (sendIterPoll k.recd (s, ct) items).2.1 = [] ∧ lastFlushed (ct ++ de) = true) := by
  induction items with
  | nil =>
    intro s ct
    cases hb : (k.pollReady s).2 with
    | false =>
      exact ⟨[.ready false], by simp [sendIterPoll, aux_recd_pollReady, hb], fun a => by simp [protoOkAux],
        by simp [sendIterPoll, aux_recd_pollReady, hb, sends], by simp [sendIterPoll, aux_recd_pollReady, hb]⟩
    | true =>
      refine ⟨[.ready true, .flush (k.pollFlush (k.pollReady s).1).2], ?_, fun a => by simp [protoOkAux], ?_, ?_⟩
      · simp [sendIterPoll, aux_recd_pollReady, aux_recd_pollFlush, hb]
      · simp [sendIterPoll, aux_recd_pollReady, aux_recd_pollFlush, hb, sends]
      · intro h
        simp only [sendIterPoll, aux_recd_pollReady, aux_recd_pollFlush, hb, if_true] at h ⊢
        refine ⟨trivial, ?_⟩
        have : ct ++ [Ev.ready true, Ev.flush (k.pollFlush (k.pollReady s).1).2] =
            (ct ++ [Ev.ready true]) ++ [Ev.flush (k.pollFlush (k.pollReady s).1).2] := by simp
        rw [this, aux_lastFlushed_snoc]; exact h
  | cons x rest ih =>
    intro s ct
    cases hb : (k.pollReady s).2 with
    | false =>
      exact ⟨[.ready false], by simp [sendIterPoll, aux_recd_pollReady, hb], fun a => by simp [protoOkAux],
        by simp [sendIterPoll, aux_recd_pollReady, hb, sends], by simp [sendIterPoll, aux_recd_pollReady, hb]⟩
    | true =>
      obtain ⟨de, h1, h2, h3, h4⟩ := ih (k.startSend (k.pollReady s).1 x).1 (ct ++ [.ready true] ++ [.send x])
      have hd : sendIterPoll k.recd (s, ct) (x :: rest) =
          sendIterPoll k.recd ((k.startSend (k.pollReady s).1 x).1, ct ++ [.ready true] ++ [.send x]) rest := by
        simp only [sendIterPoll, aux_recd_pollReady, aux_recd_startSend, hb, if_true]
      rw [hd]
      refine ⟨[.ready true, .send x] ++ de, by rw [h1]; simp, fun a => by simp [protoOkAux, h2], ?_, ?_⟩
      · simp only [List.cons_append, List.nil_append, sends]; rw [h3]
      · intro h
        obtain ⟨e1, e2⟩ := h4 h
        refine ⟨e1, ?_⟩
        have : ct ++ ([Ev.ready true, Ev.send x] ++ de) = ct ++ [Ev.ready true] ++ [Ev.send x] ++ de := by simp
        rw [this]; exact e2

/-! ### `LazySink` -/

def lzTrace : LZ (σ × List (Ev α)) α → List (Ev α)
  | .uninit _ mk => mk.2
  | .thunk _ mk _ => mk.2
  | .done s _ => s.2

def lzPending {τ : Type} : LZ τ α → List α
  | .thunk _ _ x => [x]
  | .done _ (some x) => [x]
  | _ => []

def lzUninit {τ : Type} : LZ τ α → Bool
  | .uninit _ _ => true
  | _ => false

/-- in which states the client may legitimately call `start_send` -/
def lzArmedOk : LZ (σ × List (Ev α)) α → Bool
  | .uninit _ _ => true
  | .done s none => armedAfter false s.2
  | _ => false

/-- the last call was a poll that answered `Ready` -/
def lastTrue : List (Ev α) → Bool
  | [] => false
  | [.ready b] => b
  | [.flush b] => b
  | [.close b] => b
  | [_] => false
  | _ :: e :: t => lastTrue (e :: t)

theorem aux_lastTrue_snoc (t : List (Ev α)) (e : Ev α) :
    lastTrue (t ++ [e]) = match e with | .ready b => b | .flush b => b | .close b => b | _ => false := by
  induction t with
  | nil => cases e <;> rfl
  | cons a t ih =>
    cases t with
    | nil => cases e <;> simp [lastTrue]
    | cons b t => simp only [List.cons_append] at ih ⊢; simp only [lastTrue]; exact ih

structure LZInv (l : LazySt (σ × List (Ev α)) α) (ct : List (Ev α)) (ok : Bool) : Prop where
  proto : protoOk (lzTrace l.st) = true
  data : sends (lzTrace l.st) ++ lzPending l.st = sends ct
  once : (lzUninit l.st = true → l.inits = 0) ∧ (lzUninit l.st = false → l.inits = 1)
  armed : armedAfter false ct = true → lzArmedOk l.st = true
  polled : lastTrue ct = true → lzPending l.st = []

/-- the effect of `poll_sink_op` with one of the three polls of a recorded inner sink: `mkEv` is the
event that poll records, `isReady` says whether it is `poll_ready` -/
theorem aux_lazyOp (k : Snk σ α) (op : σ × List (Ev α) → (σ × List (Ev α)) × Bool) (mkEv : Bool → Ev α)
    (isReady : Bool)
    (hop : ∀ p, (op p).1.2 = p.2 ++ [mkEv (op p).2])
    (hns : ∀ b x, mkEv b ≠ .send x)
    (harm : ∀ a b, armedAfter a [mkEv b] = if isReady then b else a)
    (hlast : ∀ t b, lastTrue (t ++ [mkEv b]) = b)
    (l : LazySt (σ × List (Ev α)) α) (ct : List (Ev α)) (ok : Bool) (hI : LZInv l ct ok)
    (harmed : armedAfter false ct = true → isReady = false → True) :
    LZInv (lazyOp k.recd op l).1 (ct ++ [mkEv (lazyOp k.recd op l).2]) ok := by
  obtain ⟨inits, p, d, on, ar, po⟩ : ∃ i, protoOk (lzTrace l.st) = true ∧ _ ∧ _ ∧ _ ∧ _ :=
    ⟨l.inits, hI.proto, hI.data, hI.once, hI.armed, hI.polled⟩
  have hsn : ∀ (t : List (Ev α)) b, sends (t ++ [mkEv b]) = sends t := by
    intro t b; rw [aux_sends_append]
    cases h : mkEv b with
    | send x => exact absurd h (hns b x)
    | ready _ => simp [sends]
    | flush _ => simp [sends]
    | close _ => simp [sends]
  have hpo : ∀ (t : List (Ev α)) b, protoOk t = true → protoOk (t ++ [mkEv b]) = true :=
    fun t b h => aux_protoOk_snoc_poll t _ h (hns b)
  have hburst : ∀ (t : List (Ev α)) (x : α), protoOk t = true →
      protoOk (t ++ [.ready true] ++ [.send x]) = true := by
    intro t x h
    simp only [protoOk, aux_protoOkAux_append, protoOkAux, armedAfter, Bool.and_eq_true, Bool.and_true] at h ⊢
    simp [h, aux_armedAfter_append, armedAfter]
  rcases l with ⟨st, ini⟩
  cases st with
  | uninit fut mk =>
    simp only [lazyOp]
    refine ⟨p, by rw [hsn]; exact d, on, ?_, fun _ => rfl⟩
    intro _; rfl
  | thunk fut mk item =>
    simp only [lzTrace, lzPending, lzUninit] at p d on
    simp only [lazyOp]
    cases hf : (futPoll fut).2 with
    | false =>
      simp only [hf, Bool.false_eq_true, if_false]
      refine ⟨p, by rw [hsn]; exact d, by simpa [lzUninit] using on, ?_, ?_⟩
      · intro h; rw [aux_armedAfter_append, harm] at h
        cases isReady <;> simp_all [lzArmedOk]
      · intro h; rw [hlast] at h; cases h
    | true =>
      simp only [hf, if_true, aux_recd_pollReady, aux_recd_startSend]
      by_cases hb0 : (k.pollReady mk.1).2 = true
      case neg =>
        have hb : (k.pollReady mk.1).2 = false := by simpa using hb0
        simp only [hb, Bool.false_eq_true, if_false]
        refine ⟨by simp only [lzTrace]; exact aux_protoOk_snoc_poll _ _ p (by simp),
          by simp only [lzTrace, lzPending]; rw [hsn, aux_sends_snoc_ready]; exact d,
          by simpa [lzUninit] using on, ?_, ?_⟩
        · intro h; rw [aux_armedAfter_append, harm] at h
          cases isReady <;> simp_all [lzArmedOk]
        · intro h; rw [hlast] at h; cases h
      case pos =>
        simp only [hb0, if_true]
        refine ⟨?_, ?_, by simpa [lzUninit] using on, ?_, fun _ => rfl⟩
        · simp only [lzTrace]; rw [hop]; exact hpo _ _ (hburst _ _ p)
        · simp only [lzTrace, lzPending, List.append_nil]
          rw [hop, hsn, hsn, aux_sends_snoc_send, aux_sends_snoc_ready]; exact d
        · intro h
          rw [aux_armedAfter_append, harm] at h
          simp only [lzArmedOk]
          rw [hop, aux_armedAfter_append, harm]
          cases isReady
          · simp only [Bool.false_eq_true, if_false] at h ⊢
            have := ar h; simp [lzArmedOk] at this
          · simpa using h
  | done s buf =>
    simp only [lzTrace, lzPending, lzUninit] at p d on
    cases buf with
    | some item =>
      simp only [lazyOp, aux_recd_pollReady, aux_recd_startSend]
      by_cases hb0 : (k.pollReady s.1).2 = true
      case neg =>
        have hb : (k.pollReady s.1).2 = false := by simpa using hb0
        simp only [hb, Bool.false_eq_true, if_false]
        refine ⟨by simp only [lzTrace]; exact aux_protoOk_snoc_poll _ _ p (by simp),
          by simp only [lzTrace, lzPending]; rw [hsn, aux_sends_snoc_ready]; exact d,
          by simpa [lzUninit] using on, ?_, ?_⟩
        · intro h; rw [aux_armedAfter_append, harm] at h
          cases isReady <;> simp_all [lzArmedOk]
        · intro h; rw [hlast] at h; cases h
      case pos =>
        simp only [hb0, if_true]
        refine ⟨?_, ?_, by simpa [lzUninit] using on, ?_, fun _ => rfl⟩
        · simp only [lzTrace]; rw [hop]; exact hpo _ _ (hburst _ _ p)
        · simp only [lzTrace, lzPending, List.append_nil]
          rw [hop, hsn, hsn, aux_sends_snoc_send, aux_sends_snoc_ready]; exact d
        · intro h
          rw [aux_armedAfter_append, harm] at h
          simp only [lzArmedOk]
          rw [hop, aux_armedAfter_append, harm]
          cases isReady
          · simp only [Bool.false_eq_true, if_false] at h ⊢
            have := ar h; simp [lzArmedOk] at this
          · simpa using h
    | none =>
      simp only [lazyOp]
      refine ⟨by simp only [lzTrace]; rw [hop]; exact hpo _ _ p,
        by simp only [lzTrace, lzPending]; rw [hop, hsn, hsn]; exact d,
        by simpa [lzUninit] using on, ?_, fun _ => rfl⟩
      intro h
      rw [aux_armedAfter_append, harm] at h
      simp only [lzArmedOk]
      rw [hop, aux_armedAfter_append, harm]
      cases isReady
      · simp only [Bool.false_eq_true, if_false] at h ⊢
        have := ar h; simpa [lzArmedOk] using this
      · simpa using h

theorem aux_lazy_step (k : Snk σ α) (c : (LazySt (σ × List (Ev α)) α × List (Ev α)) × Bool) (op : Op α)
    (hI : LZInv c.1.1 c.1.2 c.2)
    (hc : protoOk (stepOp (lazySink k.recd).recd c op).1.2 = true) :
    LZInv (stepOp (lazySink k.recd).recd c op).1.1 (stepOp (lazySink k.recd).recd c op).1.2
      (stepOp (lazySink k.recd).recd c op).2 := by
  obtain ⟨⟨l, ct⟩, ok⟩ := c
  cases op with
  | ready =>
    simp only [stepOp, aux_recd_pollReady, lazySink]
    exact aux_lazyOp k k.recd.pollReady .ready true (fun p => by rw [aux_recd_pollReady]) (by simp)
      (by intro a b; simp [armedAfter]) (by intro t b; rw [aux_lastTrue_snoc]) l ct ok hI (fun _ _ => trivial)
  | flush =>
    simp only [stepOp, aux_recd_pollFlush, lazySink]
    exact aux_lazyOp k k.recd.pollFlush .flush false (fun p => by rw [aux_recd_pollFlush]) (by simp)
      (by intro a b; simp [armedAfter]) (by intro t b; rw [aux_lastTrue_snoc]) l ct ok hI (fun _ _ => trivial)
  | close =>
    simp only [stepOp, aux_recd_pollClose, lazySink]
    exact aux_lazyOp k k.recd.pollClose .close false (fun p => by rw [aux_recd_pollClose]) (by simp)
      (by intro a b; simp [armedAfter]) (by intro t b; rw [aux_lastTrue_snoc]) l ct ok hI (fun _ _ => trivial)
  | send x =>
    simp only [stepOp, aux_recd_startSend] at hc ⊢
    have harm : armedAfter false ct = true := by
      simp only [protoOk, aux_protoOkAux_append, protoOkAux, Bool.and_eq_true, Bool.and_true] at hc
      exact hc.2
    obtain ⟨p, d, on, ar, po⟩ := hI
    simp only at p d on ar po
    have hok := ar harm
    rcases l with ⟨st, ini⟩
    cases st with
    | uninit fut mk =>
      simp only [lzTrace, lzPending, lzUninit] at p d on
      simp only [lazySink]
      refine ⟨p, by simp only [lzTrace, lzPending]; rw [aux_sends_snoc_send, ← d]; simp, ?_, ?_, ?_⟩
      · simp only [lzUninit]; constructor
        · intro h; cases h
        · intro _; have := on.1 trivial; omega
      · intro h; simp [aux_armedAfter_append, armedAfter] at h
      · intro h; rw [aux_lastTrue_snoc] at h; cases h
    | thunk fut mk item => simp [lzArmedOk] at hok
    | done s buf =>
      cases buf with
      | some item => simp [lzArmedOk] at hok
      | none =>
        simp only [lzArmedOk] at hok
        simp only [lzTrace, lzPending, lzUninit] at p d on
        simp only [lazySink, aux_recd_startSend]
        refine ⟨?_, by simp only [lzTrace, lzPending]; rw [aux_sends_snoc_send, aux_sends_snoc_send, ← d]; simp,
          by simpa [lzUninit] using on, ?_, ?_⟩
        · simp only [lzTrace, protoOk, aux_protoOkAux_append, protoOkAux, Bool.and_eq_true, Bool.and_true]
          exact ⟨p, hok⟩
        · intro h; simp [aux_armedAfter_append, armedAfter] at h
        · intro h; rw [aux_lastTrue_snoc] at h; cases h

theorem aux_lazy_run (k : Snk σ α) (ops : List (Op α)) :
    ∀ (c : (LazySt (σ × List (Ev α)) α × List (Ev α)) × Bool),
      (protoOk c.1.2 = true → LZInv c.1.1 c.1.2 c.2) →
      protoOk (runOps (lazySink k.recd).recd c ops).1.2 = true →
      LZInv (runOps (lazySink k.recd).recd c ops).1.1 (runOps (lazySink k.recd).recd c ops).1.2
        (runOps (lazySink k.recd).recd c ops).2 := by
  induction ops with
  | nil => intro c h hc; exact h hc
  | cons op ops ih =>
    intro c h hc
    simp only [runOps, List.foldl_cons] at ih hc ⊢
    apply ih _ _ hc
    intro hc'
    have hpre : protoOk c.1.2 = true := by
      have : ∃ e, (stepOp (lazySink k.recd).recd c op).1.2 = c.1.2 ++ [e] := by
        cases op <;> simp [stepOp, aux_recd_pollReady, aux_recd_startSend, aux_recd_pollFlush, aux_recd_pollClose]
      obtain ⟨e, he⟩ := this
      rw [he] at hc'; exact aux_protoOk_prefix _ _ hc'
    exact aux_lazy_step k c op (h hpre) hc'

/-- **`LazySink`** over any inner sink `k` (fresh state `s`), any init-future script `fut`, any
contract-honouring client:
 * the inner sink sees a contract-honouring call sequence (`start_send` only after its own `Ready`);
 * *no item lost*: what the inner sink received, followed by the one item that may still be held
   (sent before or during initialisation), is exactly what the client sent, in order, once;
 * *initialised at most once*: the init closure ran 0 times while `Uninit`, exactly once afterwards;
 * whenever the client may send (`Ready` was answered) the sink is `Uninit` or `Done` with an empty
   buffer — the "`LazySink` not ready" panic is unreachable;
 * once any poll answered `Ready`, nothing is held back any more. -/
theorem lazySink_no_item_lost_init_once (k : Snk σ α) (s : σ) (fut : List Bool) (ops : List (Op α)) :
    let r := runOps (lazySink k.recd).recd ((⟨.uninit fut (s, []), 0⟩, []), true) ops
    protoOk r.1.2 = true →
      protoOk (lzTrace r.1.1.st) = true ∧
      sends (lzTrace r.1.1.st) ++ lzPending r.1.1.st = sends r.1.2 ∧
      r.1.1.inits ≤ 1 ∧ (r.1.1.inits = 0 ↔ lzUninit r.1.1.st = true) ∧
      (armedAfter false r.1.2 = true → lzArmedOk r.1.1.st = true) ∧
      (lastTrue r.1.2 = true → sends (lzTrace r.1.1.st) = sends r.1.2) := by
  intro r hc
  have h := aux_lazy_run k ops ((⟨.uninit fut (s, []), 0⟩, []), true)
    (fun _ => ⟨rfl, rfl, ⟨fun _ => rfl, fun h => by simp [lzUninit] at h⟩, fun _ => rfl, fun _ => rfl⟩) hc
  have h1 : lzUninit r.1.1.st = true → r.1.1.inits = 0 := h.once.1
  have h2 : lzUninit r.1.1.st = false → r.1.1.inits = 1 := h.once.2
  refine ⟨h.proto, h.data, ?_, ?_, h.armed, fun hl => ?_⟩
  · cases hu : lzUninit r.1.1.st with
    | true => have := h1 hu; omega
    | false => have := h2 hu; omega
  · constructor
    · intro h0
      cases hu : lzUninit r.1.1.st with
      | true => rfl
      | false => have := h2 hu; omega
    · exact h1
  · have := h.data; rw [h.polled hl, List.append_nil] at this; exact this

/-- one `SendStream::poll` over a scripted stream is a contract-honouring burst as well (a pending
stream between `poll_ready` and `start_send` only leads to a second `poll_ready`) -/
theorem sendStream_is_polite_client (k : Snk σ Nat) (script : List (Option Nat)) :
    ∀ (s : σ) (ct : List (Ev Nat)),
    ∃ de, (sendStreamPoll k.recd (s, ct) script).1.2 = ct ++ de ∧ (∀ a, protoOkAux a de = true) ∧
      sends de ++ (sendStreamPoll k.recd (s, ct) script).2.1.filterMap id = script.filterMap id ∧
      ((sendStreamPoll k.recd (s, ct) script).2.2 = true →
        (sendStreamPoll k.recd (s, ct) script).2.1 = [] ∧ lastFlushed (ct ++ de) = true) := by
  induction script with
  | nil =>
    intro s ct
    by_cases hb0 : (k.pollReady s).2 = true
    · refine ⟨[.ready true, .flush (k.pollFlush (k.pollReady s).1).2], ?_, fun a => by simp [protoOkAux], ?_, ?_⟩
      · simp [sendStreamPoll, aux_recd_pollReady, aux_recd_pollFlush, hb0]
      · simp [sendStreamPoll, aux_recd_pollReady, aux_recd_pollFlush, hb0, sends]
      · intro h
        simp only [sendStreamPoll, aux_recd_pollReady, aux_recd_pollFlush, hb0, if_true] at h ⊢
        refine ⟨trivial, ?_⟩
        have : ct ++ [Ev.ready true, Ev.flush (k.pollFlush (k.pollReady s).1).2] =
            (ct ++ [Ev.ready true]) ++ [Ev.flush (k.pollFlush (k.pollReady s).1).2] := by simp
        rw [this, aux_lastFlushed_snoc]; exact h
    · have hb : (k.pollReady s).2 = false := by simpa using hb0
      exact ⟨[.ready false], by simp [sendStreamPoll, aux_recd_pollReady, hb], fun a => by simp [protoOkAux],
        by simp [sendStreamPoll, aux_recd_pollReady, hb, sends], by simp [sendStreamPoll, aux_recd_pollReady, hb]⟩
  | cons e rest ih =>
    intro s ct
    cases e with
    | none =>
      refine ⟨[.ready (k.pollReady s).2], by simp [sendStreamPoll, aux_recd_pollReady], fun a => by simp [protoOkAux], ?_,
        by simp [sendStreamPoll]⟩
      simp only [sendStreamPoll, aux_recd_pollReady, sends, List.nil_append]
      by_cases hb : (k.pollReady s).2 = true <;> simp [hb]
    | some x =>
      by_cases hb0 : (k.pollReady s).2 = true
      · obtain ⟨de, h1, h2, h3, h4⟩ := ih (k.startSend (k.pollReady s).1 x).1 (ct ++ [.ready true] ++ [.send x])
        have hd : sendStreamPoll k.recd (s, ct) (some x :: rest) =
            sendStreamPoll k.recd ((k.startSend (k.pollReady s).1 x).1, ct ++ [.ready true] ++ [.send x]) rest := by
          simp only [sendStreamPoll, aux_recd_pollReady, aux_recd_startSend, hb0, if_true]
        rw [hd]
        refine ⟨[.ready true, .send x] ++ de, by rw [h1]; simp, fun a => by simp [protoOkAux, h2], ?_, ?_⟩
        · simp only [List.cons_append, List.nil_append, sends, List.filterMap_cons, id]; rw [h3]
        · intro h
          obtain ⟨e1, e2⟩ := h4 h
          refine ⟨e1, ?_⟩
          have : ct ++ ([Ev.ready true, Ev.send x] ++ de) = ct ++ [Ev.ready true] ++ [Ev.send x] ++ de := by simp
          rw [this]; exact e2
      · have hb : (k.pollReady s).2 = false := by simpa using hb0
        exact ⟨[.ready false], by simp [sendStreamPoll, aux_recd_pollReady, hb], fun a => by simp [protoOkAux],
          by simp [sendStreamPoll, aux_recd_pollReady, hb, sends], by simp [sendStreamPoll, aux_recd_pollReady, hb]⟩

/-! ### `LazySource` -/

/-- what a scripted stream still has to deliver -/
def streamItems (sc : List (Option Nat)) : List Nat := sc.filterMap id

def lsrcStream : LSrc → List (Option Nat)
  | .uninit _ s => s
  | .thunk _ s => s
  | .done s => s

def lsrcRun : LSrc → Nat → List SRes
  | _, 0 => []
  | l, n + 1 => (lazySourceNext l).2 :: lsrcRun (lazySourceNext l).1 n

def sresItems : List SRes → List Nat
  | [] => []
  | .item x :: t => x :: sresItems t
  | _ :: t => sresItems t

theorem aux_lsrc_step (l : LSrc) :
    (match (lazySourceNext l).2 with | .item x => [x] | _ => []) ++
      streamItems (lsrcStream (lazySourceNext l).1) = streamItems (lsrcStream l) ∧
    ((lazySourceNext l).2 = .ended → streamItems (lsrcStream l) = []) := by
  have hs : ∀ sc : List (Option Nat),
      (match (streamPoll sc).2 with | .item x => [x] | _ => []) ++ streamItems (streamPoll sc).1 =
        streamItems sc ∧ ((streamPoll sc).2 = .ended → streamItems sc = []) := by
    intro sc
    cases sc with
    | nil => simp [streamPoll, streamItems]
    | cons a t => cases a <;> simp [streamPoll, streamItems]
  cases l with
  | uninit fut s =>
    by_cases hf : (futPoll fut).2 = true
    · simp only [lazySourceNext, hf, if_true, lsrcStream]; exact hs s
    · simp [lazySourceNext, hf, lsrcStream]
  | thunk fut s =>
    by_cases hf : (futPoll fut).2 = true
    · simp only [lazySourceNext, hf, if_true, lsrcStream]; exact hs s
    · simp [lazySourceNext, hf, lsrcStream]
  | done s => exact hs s

/-- **`LazySource`**: whatever the init future's and the stream's pending pattern, the items it yields
are the stream's items in order, none lost, none repeated: yielded ++ still-to-come = stream. -/
theorem lazySource_yields_stream_in_order (l : LSrc) (n : Nat) :
    ∃ rest, sresItems (lsrcRun l n) ++ rest = streamItems (lsrcStream l) := by
  induction n generalizing l with
  | zero => exact ⟨_, rfl⟩
  | succ n ih =>
    obtain ⟨rest, hr⟩ := ih (lazySourceNext l).1
    obtain ⟨h1, _⟩ := aux_lsrc_step l
    refine ⟨rest, ?_⟩
    simp only [lsrcRun]
    cases hres : (lazySourceNext l).2 with
    | item x => simp only [hres] at h1; simp only [sresItems]; rw [← h1, ← hr]; simp
    | pending => simp only [hres] at h1; simp only [sresItems]; rw [← h1, ← hr]; simp
    | ended => simp only [hres] at h1; simp only [sresItems]; rw [← h1, ← hr]; simp

def lsrcUninit : LSrc → Bool
  | .uninit _ _ => true
  | _ => false

/-- the state after `n` polls -/
def lsrcAfter : LSrc → Nat → LSrc
  | l, 0 => l
  | l, n + 1 => lsrcAfter (lazySourceNext l).1 n

/-- **`LazySource` is initialised at most once**: the init closure runs exactly in the transition
out of `Uninit` (`func.take().unwrap()`); the first poll leaves `Uninit` and no later poll returns to
it — whatever the init future and the stream answer. -/
theorem lazySource_init_once (l : LSrc) (n : Nat) : lsrcUninit (lsrcAfter l (n + 1)) = false := by
  have h1 : ∀ l : LSrc, lsrcUninit (lazySourceNext l).1 = false := by
    intro l
    cases l with
    | uninit fut s => simp only [lazySourceNext]; split <;> rfl
    | thunk fut s => simp only [lazySourceNext]; split <;> rfl
    | done s => rfl
  have h2 : ∀ (m : Nat) (l : LSrc), lsrcUninit l = false → lsrcUninit (lsrcAfter l m) = false := by
    intro m
    induction m with
    | zero => intro l h; exact h
    | succ m ih => intro l _; exact ih _ (h1 l)
  exact h2 n _ (h1 l)

/-! ### `LazySinkSource`: both halves, arbitrarily interleaved -/

/-- a call on either half -/
inductive LOp (α : Type) | snk (o : Op α) | next
  deriving Repr, DecidableEq

/-- the state of a run: the shared state (inner sink recorded), the trace of the client's calls on
the sink half, the items the source half has yielded, "no `start_send` has panicked" -/
structure LRun (σ α : Type) where
  l : LssSt (σ × List (Ev α)) α
  ct : List (Ev α)
  got : List Nat
  ok : Bool

def sresItem : SRes → List Nat
  | .item x => [x]
  | _ => []

def lssStep (k : Snk σ α) (c : LRun σ α) : LOp α → LRun σ α
  | .snk o =>
    let r := stepOp (lssSink k.recd).recd ((c.l, c.ct), c.ok) o
    { c with l := r.1.1, ct := r.1.2, ok := r.2 }
  | .next =>
    let r := lssNext c.l
    { c with l := r.1, got := c.got ++ sresItem r.2 }

def lssRun (k : Snk σ α) (c : LRun σ α) (ops : List (LOp α)) : LRun σ α := ops.foldl (lssStep k) c

def lssTrace : LSS (σ × List (Ev α)) α → List (Ev α)
  | .uninit _ _ mk => mk.2
  | .thunk _ _ mk _ => mk.2
  | .done _ s _ _ => s.2

def lssPending {τ : Type} : LSS τ α → List α
  | .thunk _ _ _ (some x) => [x]
  | .done _ _ (some x) _ => [x]
  | _ => []

def lssUninit {τ : Type} : LSS τ α → Bool
  | .uninit _ _ _ => true
  | _ => false

def lssStream {τ : Type} : LSS τ α → List (Option Nat)
  | .uninit _ st _ => st
  | .thunk _ st _ _ => st
  | .done st _ _ _ => st

/-- `sink_ready` is only set while nothing is held back and the inner sink is armed -/
def lssRdyOk : LSS (σ × List (Ev α)) α → Bool
  | .done _ s none true => armedAfter false s.2
  | .done _ _ (some _) true => false
  | _ => true

structure LSSInv (l : LssSt (σ × List (Ev α)) α) (ct : List (Ev α)) : Prop where
  proto : protoOk (lssTrace l.st) = true
  data : sends (lssTrace l.st) ++ lssPending l.st = sends ct
  once : (lssUninit l.st = true → l.inits = 0) ∧ (lssUninit l.st = false → l.inits = 1)
  rdy : lssRdyOk l.st = true
  armed : armedAfter false ct = true → lssPending l.st = []
  polled : lastTrue ct = true → lssPending l.st = []

/-- one `poll_ready` / `poll_flush` / `poll_close` of the sink half -/
theorem aux_lssOp (k : Snk σ α) (op : σ × List (Ev α) → (σ × List (Ev α)) × Bool) (mkEv : Bool → Ev α)
    (isReady : Bool)
    (hop : ∀ p, (op p).1.2 = p.2 ++ [mkEv (op p).2])
    (hns : ∀ b x, mkEv b ≠ .send x)
    (harm : ∀ a b, armedAfter a [mkEv b] = if isReady then b else a)
    (hlast : ∀ t b, lastTrue (t ++ [mkEv b]) = b)
    (l : LssSt (σ × List (Ev α)) α) (ct : List (Ev α)) (hI : LSSInv l ct) :
    LSSInv (lssOp k.recd op isReady l).1 (ct ++ [mkEv (lssOp k.recd op isReady l).2]) := by
  obtain ⟨p, d, on, rd, ar, po⟩ := hI
  have hsn : ∀ (t : List (Ev α)) b, sends (t ++ [mkEv b]) = sends t := by
    intro t b; rw [aux_sends_append]
    cases h : mkEv b with
    | send x => exact absurd h (hns b x)
    | ready _ => simp [sends]
    | flush _ => simp [sends]
    | close _ => simp [sends]
  have hpo : ∀ (t : List (Ev α)) b, protoOk t = true → protoOk (t ++ [mkEv b]) = true :=
    fun t b h => aux_protoOk_snoc_poll t _ h (hns b)
  have hburst : ∀ (t : List (Ev α)) (x : α), protoOk t = true →
      protoOk (t ++ [.ready true] ++ [.send x]) = true := by
    intro t x h
    simp only [protoOk, aux_protoOkAux_append, protoOkAux, armedAfter, Bool.and_eq_true, Bool.and_true] at h ⊢
    simp [h, aux_armedAfter_append, armedAfter]
  -- the common tail: the state is (or has just become) `Done`
  have hdone : ∀ (stream : List (Option Nat)) (s : σ × List (Ev α)) (buf : Option α) (rdy : Bool) (ini : Nat),
      protoOk s.2 = true → sends s.2 ++ (match buf with | some x => [x] | none => []) = sends ct →
      ini = 1 → (rdy = true → buf = none ∧ armedAfter false s.2 = true) →
      (armedAfter false ct = true → buf = none) →
      LSSInv (lssOp k.recd op isReady ⟨.done stream s buf rdy, ini⟩).1
        (ct ++ [mkEv (lssOp k.recd op isReady ⟨.done stream s buf rdy, ini⟩).2]) := by
    intro stream s buf rdy ini p d hi hr ha
    cases buf with
    | some item =>
      have hrf : rdy = false := by
        cases rdy with
        | false => rfl
        | true => have := (hr rfl).1; cases this
      subst hrf
      simp only [lssOp, aux_recd_pollReady, aux_recd_startSend]
      by_cases hb0 : (k.pollReady s.1).2 = true
      case neg =>
        have hb : (k.pollReady s.1).2 = false := by simpa using hb0
        simp only [hb, Bool.false_eq_true, if_false]
        refine ⟨by simp only [lssTrace]; exact aux_protoOk_snoc_poll _ _ p (by simp),
          by simp only [lssTrace, lssPending]; rw [hsn, aux_sends_snoc_ready]; exact d,
          ⟨by simp [lssUninit], fun _ => hi⟩, rfl, ?_, ?_⟩
        · intro h; rw [aux_armedAfter_append, harm] at h
          cases isReady
          · simp only [Bool.false_eq_true, if_false] at h; have := ha h; cases this
          · simp at h
        · intro h; rw [hlast] at h; cases h
      case pos =>
        simp only [hb0, if_true]
        refine ⟨?_, ?_, ⟨by simp [lssUninit], fun _ => hi⟩, ?_, fun _ => rfl, fun _ => rfl⟩
        · simp only [lssTrace]; rw [hop]; exact hpo _ _ (hburst _ _ p)
        · simp only [lssTrace, lssPending, List.append_nil]
          rw [hop, hsn, hsn, aux_sends_snoc_send, aux_sends_snoc_ready]; exact d
        · cases isReady
          · rfl
          · simp only [if_true]
            cases hr2 : (op ((k.startSend (k.pollReady s.1).1 item).1, s.2 ++ [Ev.ready true] ++ [Ev.send item])).2 with
            | false => rfl
            | true =>
              simp only [lssRdyOk]
              rw [hop, aux_armedAfter_append, harm, hr2]; rfl
    | none =>
      simp only [lssOp]
      refine ⟨by simp only [lssTrace]; rw [hop]; exact hpo _ _ p,
        by simp only [lssTrace, lssPending]; rw [hop, hsn, hsn]; simpa using d,
        ⟨by simp [lssUninit], fun _ => hi⟩, ?_, fun _ => rfl, fun _ => rfl⟩
      cases isReady
      · simp only [Bool.false_eq_true, if_false]
        cases rdy with
        | false => rfl
        | true =>
          simp only [lssRdyOk]
          rw [hop, aux_armedAfter_append, harm]; simpa using (hr rfl).2
      · simp only [if_true]
        cases hr2 : (op s).2 with
        | false => rfl
        | true =>
          simp only [lssRdyOk]
          rw [hop, aux_armedAfter_append, harm, hr2]; rfl
  rcases l with ⟨st, ini⟩
  cases st with
  | uninit fut stream mk =>
    simp only [lssOp]
    exact ⟨p, by rw [hsn]; exact d, on, rd, fun _ => rfl, fun _ => rfl⟩
  | thunk fut stream mk item =>
    simp only [lssTrace] at p d
    by_cases hf : (futPoll fut).2 = true
    case neg =>
      have hf' : (futPoll fut).2 = false := by simpa using hf
      simp only [lssOp, hf', Bool.false_eq_true, if_false]
      have hpe : lssPending (LSS.thunk (futPoll fut).1 stream mk item) = lssPending (LSS.thunk fut stream mk item) := by
        cases item <;> rfl
      refine ⟨p, by rw [hsn]; simp only [lssTrace]; rw [hpe]; exact d,
        ⟨by simp [lssUninit], fun _ => on.2 rfl⟩, rfl, ?_, ?_⟩
      · intro h; rw [aux_armedAfter_append, harm] at h
        cases isReady
        · simp only [Bool.false_eq_true, if_false] at h; exact hpe.trans (ar h)
        · simp at h
      · intro h; rw [hlast] at h; cases h
    case pos =>
      have := hdone stream mk item false ini p (by cases item <;> simpa [lssPending] using d) (on.2 rfl)
        (by intro h; cases h) (by intro h; have := ar h; cases item <;> simp_all [lssPending])
      simpa only [lssOp, hf, if_true] using this
  | done stream s buf rdy =>
    simp only [lssTrace] at p d
    exact hdone stream s buf rdy ini p (by cases buf <;> simpa [lssPending] using d) (on.2 rfl)
      (by intro h; subst h; cases buf <;> simp_all [lssRdyOk])
      (by intro h; have := ar h; cases buf <;> simp_all [lssPending])

theorem aux_lssOp_stream {τ : Type} (k : Snk τ α) (op : τ → τ × Bool) (isReady : Bool) (l : LssSt τ α) :
    lssStream (lssOp k op isReady l).1.st = lssStream l.st := by
  rcases l with ⟨st, ini⟩
  cases st with
  | uninit fut stream mk => rfl
  | thunk fut stream mk item =>
    simp only [lssOp]
    split
    · cases item with
      | none => rfl
      | some x => simp only []; split <;> rfl
    · rfl
  | done stream s buf rdy =>
    cases buf with
    | none => rfl
    | some x => simp only [lssOp]; split <;> rfl

theorem aux_lssSend_stream {τ : Type} (k : Snk τ α) (l : LssSt τ α) (x : α) :
    lssStream ((lssSink k).startSend l x).1.st = lssStream l.st := by
  rcases l with ⟨st, ini⟩
  cases st with
  | uninit fut stream mk => rfl
  | thunk fut stream mk item => cases item <;> rfl
  | done stream s buf rdy => cases rdy <;> rfl

/-- one call on the sink half by a contract-honouring client -/
theorem aux_lss_sink_step (k : Snk σ α) (l : LssSt (σ × List (Ev α)) α) (ct : List (Ev α)) (ok : Bool) (o : Op α)
    (hI : LSSInv l ct)
    (hc : protoOk (stepOp (lssSink k.recd).recd ((l, ct), ok) o).1.2 = true) :
    LSSInv (stepOp (lssSink k.recd).recd ((l, ct), ok) o).1.1 (stepOp (lssSink k.recd).recd ((l, ct), ok) o).1.2 ∧
    ((∀ s x, (k.startSend s x).2 = true) → ok = true →
      (stepOp (lssSink k.recd).recd ((l, ct), ok) o).2 = true) := by
  cases o with
  | ready =>
    simp only [stepOp, aux_recd_pollReady, lssSink]
    exact ⟨aux_lssOp k k.recd.pollReady .ready true (fun p => by rw [aux_recd_pollReady]) (by simp)
      (by intro a b; simp [armedAfter]) (by intro t b; rw [aux_lastTrue_snoc]) l ct hI, fun _ h => h⟩
  | flush =>
    simp only [stepOp, aux_recd_pollFlush, lssSink]
    exact ⟨aux_lssOp k k.recd.pollFlush .flush false (fun p => by rw [aux_recd_pollFlush]) (by simp)
      (by intro a b; simp [armedAfter]) (by intro t b; rw [aux_lastTrue_snoc]) l ct hI, fun _ h => h⟩
  | close =>
    simp only [stepOp, aux_recd_pollClose, lssSink]
    exact ⟨aux_lssOp k k.recd.pollClose .close false (fun p => by rw [aux_recd_pollClose]) (by simp)
      (by intro a b; simp [armedAfter]) (by intro t b; rw [aux_lastTrue_snoc]) l ct hI, fun _ h => h⟩
  | send x =>
    simp only [stepOp, aux_recd_startSend] at hc ⊢
    have harm : armedAfter false ct = true := by
      simp only [protoOk, aux_protoOkAux_append, protoOkAux, Bool.and_eq_true, Bool.and_true] at hc
      exact hc.2
    obtain ⟨p, d, on, rd, ar, po⟩ := hI
    have hfree := ar harm
    have hna : armedAfter false (ct ++ [Ev.send x]) = true → False := by
      intro h; simp [aux_armedAfter_append, armedAfter] at h
    have hnl : lastTrue (ct ++ [Ev.send x]) = true → False := by
      intro h; rw [aux_lastTrue_snoc] at h; cases h
    rcases l with ⟨st, ini⟩
    cases st with
    | uninit fut stream mk =>
      simp only [lssTrace, lssPending] at p d
      simp only [lssSink]
      refine ⟨⟨p, by simp only [lssTrace, lssPending]; rw [aux_sends_snoc_send, ← d]; simp, ?_, rfl,
        fun h => (hna h).elim, fun h => (hnl h).elim⟩, fun _ h => by simp [h]⟩
      refine ⟨(by intro h; cases h), fun _ => ?_⟩
      have := on.1 rfl
      simp only at this ⊢; omega
    | thunk fut stream mk item =>
      cases item with
      | some y => simp [lssPending] at hfree
      | none =>
        simp only [lssTrace, lssPending] at p d
        simp only [lssSink]
        exact ⟨⟨p, by simp only [lssTrace, lssPending]; rw [aux_sends_snoc_send, ← d]; simp,
          ⟨(by intro h; cases h), fun _ => on.2 rfl⟩, rfl, fun h => (hna h).elim, fun h => (hnl h).elim⟩,
          fun _ h => by simp [h]⟩
    | done stream s buf rdy =>
      cases buf with
      | some y => simp [lssPending] at hfree
      | none =>
        simp only [lssTrace, lssPending] at p d
        cases rdy with
        | false =>
          simp only [lssSink]
          exact ⟨⟨p, by simp only [lssTrace, lssPending]; rw [aux_sends_snoc_send, ← d]; simp,
            ⟨(by intro h; cases h), fun _ => on.2 rfl⟩, rfl, fun h => (hna h).elim, fun h => (hnl h).elim⟩,
            fun _ h => by simp [h]⟩
        | true =>
          have hia : armedAfter false s.2 = true := by simpa [lssRdyOk] using rd
          simp only [lssSink, aux_recd_startSend, if_true]
          refine ⟨⟨?_, by simp only [lssTrace, lssPending]; rw [aux_sends_snoc_send, aux_sends_snoc_send, ← d]; simp,
            ⟨(by intro h; cases h), fun _ => on.2 rfl⟩, rfl, fun h => (hna h).elim, fun h => (hnl h).elim⟩,
            fun hk h => by simp [h, hk]⟩
          simp only [lssTrace, protoOk, aux_protoOkAux_append, protoOkAux, Bool.and_eq_true, Bool.and_true]
          exact ⟨p, hia⟩

/-- one poll of the source half: nothing the sink half relies on changes; the yielded item comes off
the front of the stream -/
theorem aux_lss_next_step (l : LssSt (σ × List (Ev α)) α) (ct : List (Ev α)) (hI : LSSInv l ct) :
    LSSInv (lssNext l).1 ct ∧
    sresItem (lssNext l).2 ++ streamItems (lssStream (lssNext l).1.st) = streamItems (lssStream l.st) := by
  have hs : ∀ sc : List (Option Nat),
      sresItem (streamPoll sc).2 ++ streamItems (streamPoll sc).1 = streamItems sc := by
    intro sc
    cases sc with
    | nil => simp [streamPoll, streamItems, sresItem]
    | cons a t => cases a <;> simp [streamPoll, streamItems, sresItem]
  obtain ⟨p, d, on, rd, ar, po⟩ := hI
  rcases l with ⟨st, ini⟩
  cases st with
  | uninit fut stream mk =>
    simp only [lssTrace, lssPending] at p d
    have hi : ini = 0 := on.1 rfl
    by_cases hf : (futPoll fut).2 = true
    · simp only [lssNext, hf, if_true]
      exact ⟨⟨p, d, ⟨(by intro h; cases h), fun _ => by simp [hi]⟩, rfl, fun _ => rfl, fun _ => rfl⟩, hs stream⟩
    · have hf' : (futPoll fut).2 = false := by simpa using hf
      simp only [lssNext, hf', Bool.false_eq_true, if_false]
      exact ⟨⟨p, d, ⟨(by intro h; cases h), fun _ => by simp [hi]⟩, rfl, fun _ => rfl, fun _ => rfl⟩,
        by simp [sresItem, lssStream]⟩
  | thunk fut stream mk item =>
    simp only [lssTrace] at p d
    by_cases hf : (futPoll fut).2 = true
    · simp only [lssNext, hf, if_true]
      refine ⟨⟨p, by cases item <;> exact d, ⟨(by intro h; cases h), fun _ => on.2 rfl⟩, by cases item <;> rfl,
        fun h => by have := ar h; cases item <;> simp_all [lssPending],
        fun h => by have := po h; cases item <;> simp_all [lssPending]⟩, hs stream⟩
    · have hf' : (futPoll fut).2 = false := by simpa using hf
      simp only [lssNext, hf', Bool.false_eq_true, if_false]
      refine ⟨⟨p, by cases item <;> exact d, ⟨(by intro h; cases h), fun _ => on.2 rfl⟩, rfl,
        fun h => by have := ar h; cases item <;> simp_all [lssPending],
        fun h => by have := po h; cases item <;> simp_all [lssPending]⟩, by simp [sresItem, lssStream]⟩
  | done stream s buf rdy =>
    simp only [lssNext]
    refine ⟨⟨p, by cases buf <;> exact d, ⟨(by intro h; cases h), fun _ => on.2 rfl⟩, ?_,
      fun h => by have := ar h; cases buf <;> simp_all [lssPending],
      fun h => by have := po h; cases buf <;> simp_all [lssPending]⟩, hs stream⟩
    cases buf <;> cases rdy <;> simp_all [lssRdyOk]

structure LRunInv (k : Snk σ α) (stream₀ : List (Option Nat)) (c : LRun σ α) : Prop where
  inv : LSSInv c.l c.ct
  src : c.got ++ streamItems (lssStream c.l.st) = streamItems stream₀
  ok : (∀ s x, (k.startSend s x).2 = true) → c.ok = true

theorem aux_lss_sink_stream (k : Snk σ α) (l : LssSt (σ × List (Ev α)) α) (ct : List (Ev α)) (ok : Bool) (o : Op α) :
    lssStream (stepOp (lssSink k.recd).recd ((l, ct), ok) o).1.1.st = lssStream l.st ∧
    ∃ e, (stepOp (lssSink k.recd).recd ((l, ct), ok) o).1.2 = ct ++ [e] := by
  cases o with
  | ready => exact ⟨by simp only [stepOp, aux_recd_pollReady, lssSink]; exact aux_lssOp_stream _ _ _ _, _, by simp only [stepOp, aux_recd_pollReady]; rfl⟩
  | flush => exact ⟨by simp only [stepOp, aux_recd_pollFlush, lssSink]; exact aux_lssOp_stream _ _ _ _, _, by simp only [stepOp, aux_recd_pollFlush]; rfl⟩
  | close => exact ⟨by simp only [stepOp, aux_recd_pollClose, lssSink]; exact aux_lssOp_stream _ _ _ _, _, by simp only [stepOp, aux_recd_pollClose]; rfl⟩
  | send x => exact ⟨by simp only [stepOp, aux_recd_startSend]; exact aux_lssSend_stream _ _ _, _, by simp only [stepOp, aux_recd_startSend]; rfl⟩

theorem aux_lss_run (k : Snk σ α) (stream₀ : List (Option Nat)) (ops : List (LOp α)) :
    ∀ (c : LRun σ α), (protoOk c.ct = true → LRunInv k stream₀ c) →
      protoOk (lssRun k c ops).ct = true → LRunInv k stream₀ (lssRun k c ops) := by
  induction ops with
  | nil => intro c h hc; exact h hc
  | cons op ops ih =>
    intro c h hc
    simp only [lssRun, List.foldl_cons] at ih hc ⊢
    apply ih _ _ hc
    intro hc'
    cases op with
    | next =>
      simp only [lssStep] at hc' ⊢
      obtain ⟨hI, hs, hk⟩ := h hc'
      obtain ⟨h1, h2⟩ := aux_lss_next_step c.l c.ct hI
      exact ⟨h1, by simp only []; rw [List.append_assoc, h2]; exact hs, hk⟩
    | snk o =>
      simp only [lssStep] at hc' ⊢
      obtain ⟨hst, e, he⟩ := aux_lss_sink_stream k c.l c.ct c.ok o
      have hpre : protoOk c.ct = true := by rw [he] at hc'; exact aux_protoOk_prefix _ _ hc'
      obtain ⟨hI, hs, hk⟩ := h hpre
      obtain ⟨h1, h2⟩ := aux_lss_sink_step k c.l c.ct c.ok o hI hc'
      exact ⟨h1, by simp only []; rw [hst]; exact hs, fun hh => h2 hh (hk hh)⟩

/-- **`LazySinkSource`, both halves, every interleaving** (after the repair of F4 / F4b).  Over any
inner sink `k` (fresh state `s`), any init-future script, any stream script, and any sequence of
calls on the two halves in which the calls on the sink half honour the `Sink` contract — the polls of
the source half may fall anywhere, in particular between a `Ready` and the `start_send` it allows,
before, during and after the initialisation:
 * the inner sink sees a contract-honouring call sequence (`start_send` only after its own `Ready`);
 * *no item lost*: what the inner sink received, followed by the one item that may still be held
   (sent before or during initialisation, or while the inner sink was not readied), is exactly what
   the client sent, in order, once;
 * *initialised at most once*, whichever half started it;
 * whenever the client may send, the one-item slot is free: the "`LazySinkHalf` not ready" panic is
   unreachable, and if the inner sink never panics no `start_send` of the sink half does;
 * once any poll of the sink half answered `Ready`, nothing is held back any more;
 * the source half yields the stream's items in order, none lost, none repeated. -/
theorem lazySinkSource_interleaved_no_item_lost_init_once (k : Snk σ α) (s : σ) (fut : List Bool)
    (stream : List (Option Nat)) (ops : List (LOp α)) :
    let r := lssRun k ⟨⟨.uninit fut stream (s, []), 0⟩, [], [], true⟩ ops
    protoOk r.ct = true →
      protoOk (lssTrace r.l.st) = true ∧
      sends (lssTrace r.l.st) ++ lssPending r.l.st = sends r.ct ∧
      r.l.inits ≤ 1 ∧ (r.l.inits = 0 ↔ lssUninit r.l.st = true) ∧
      (armedAfter false r.ct = true → lssPending r.l.st = []) ∧
      ((∀ s x, (k.startSend s x).2 = true) → r.ok = true) ∧
      (lastTrue r.ct = true → sends (lssTrace r.l.st) = sends r.ct) ∧
      r.got ++ streamItems (lssStream r.l.st) = streamItems stream := by
  intro r hc
  have h := aux_lss_run k stream ops ⟨⟨.uninit fut stream (s, []), 0⟩, [], [], true⟩
    (fun _ => ⟨⟨rfl, rfl, ⟨fun _ => rfl, fun h => by simp [lssUninit] at h⟩, rfl, fun _ => rfl, fun _ => rfl⟩,
      by simp [lssStream], fun _ => rfl⟩) hc
  have h1 : lssUninit r.l.st = true → r.l.inits = 0 := h.inv.once.1
  have h2 : lssUninit r.l.st = false → r.l.inits = 1 := h.inv.once.2
  refine ⟨h.inv.proto, h.inv.data, ?_, ?_, h.inv.armed, h.ok, fun hl => ?_, h.src⟩
  · cases hu : lssUninit r.l.st with
    | true => have := h1 hu; omega
    | false => have := h2 hu; omega
  · constructor
    · intro h0
      cases hu : lssUninit r.l.st with
      | true => rfl
      | false => have := h2 hu; omega
    · exact h1
  · have := h.inv.data; rw [h.inv.polled hl, List.append_nil] at this; exact this

/-- non-vacuity, on the F4 / F4b interleavings themselves: `Ready` while `Uninit`, the source half
polled (init pending, then complete), `start_send`, … — the client honours the contract, the inner
sink is honoured too and has received both items after the flush -/
example :
    let r := lssRun D.snk ⟨⟨.uninit [false, true] [none, some 7] (⟨[true, false, true], [], []⟩, []), 0⟩, [], [], true⟩
      [.snk .ready, .next, .snk (.send 1), .next, .snk .ready, .next, .snk .ready, .snk .ready, .snk (.send 2), .snk .flush]
    protoOk r.ct = true ∧ r.ok = true ∧ sends (lssTrace r.l.st) = [1, 2] ∧ protoOk (lssTrace r.l.st) = true ∧
      r.got = [7] ∧ r.l.inits = 1 := by
  decide

/-! ### stacked adaptors: simulations lift through adaptors, so the single-adaptor theorems chain -/

/-- `K₁` and `K₂` answer alike and keep their states related by `R` -/
structure Sim {σ₁ σ₂ : Type} (K₁ : Snk σ₁ α) (K₂ : Snk σ₂ α) (R : σ₁ → σ₂ → Prop) : Prop where
  ready : ∀ a b, R a b → R (K₁.pollReady a).1 (K₂.pollReady b).1 ∧ (K₁.pollReady a).2 = (K₂.pollReady b).2
  send : ∀ a b x, R a b → R (K₁.startSend a x).1 (K₂.startSend b x).1 ∧ (K₁.startSend a x).2 = (K₂.startSend b x).2
  flush : ∀ a b, R a b → R (K₁.pollFlush a).1 (K₂.pollFlush b).1 ∧ (K₁.pollFlush a).2 = (K₂.pollFlush b).2
  close : ∀ a b, R a b → R (K₁.pollClose a).1 (K₂.pollClose b).1 ∧ (K₁.pollClose a).2 = (K₂.pollClose b).2

theorem aux_sim_recd {σ₁ σ₂ : Type} {K₁ : Snk σ₁ α} {K₂ : Snk σ₂ α} {R : σ₁ → σ₂ → Prop} (h : Sim K₁ K₂ R) :
    Sim K₁.recd K₂.recd (fun a b => R a.1 b.1 ∧ a.2 = b.2) := by
  refine ⟨?_, ?_, ?_, ?_⟩
  · intro a b hr; obtain ⟨h1, h2⟩ := h.ready a.1 b.1 hr.1
    simp only [aux_recd_pollReady]; exact ⟨⟨h1, by rw [hr.2, h2]⟩, h2⟩
  · intro a b x hr; obtain ⟨h1, h2⟩ := h.send a.1 b.1 x hr.1
    simp only [aux_recd_startSend]; exact ⟨⟨h1, by rw [hr.2]⟩, h2⟩
  · intro a b hr; obtain ⟨h1, h2⟩ := h.flush a.1 b.1 hr.1
    simp only [aux_recd_pollFlush]; exact ⟨⟨h1, by rw [hr.2, h2]⟩, h2⟩
  · intro a b hr; obtain ⟨h1, h2⟩ := h.close a.1 b.1 hr.1
    simp only [aux_recd_pollClose]; exact ⟨⟨h1, by rw [hr.2, h2]⟩, h2⟩

theorem aux_sim_map {γ σ₁ σ₂ : Type} (f : γ → α) {K₁ : Snk σ₁ α} {K₂ : Snk σ₂ α} {R : σ₁ → σ₂ → Prop}
    (h : Sim K₁ K₂ R) : Sim (map f K₁) (map f K₂) R :=
  ⟨h.ready, fun a b x hr => h.send a b (f x) hr, h.flush, h.close⟩

theorem aux_sim_drain {σ₁ σ₂ : Type} {K₁ : Snk σ₁ α} {K₂ : Snk σ₂ α} {R : σ₁ → σ₂ → Prop} (h : Sim K₁ K₂ R)
    (buf : List α) : ∀ a b, R a b →
      R (drain K₁ a buf).1.1 (drain K₂ b buf).1.1 ∧ (drain K₁ a buf).1.2 = (drain K₂ b buf).1.2 ∧
      (drain K₁ a buf).2 = (drain K₂ b buf).2 := by
  induction buf with
  | nil => intro a b hr; exact ⟨hr, rfl, rfl⟩
  | cons x r ih =>
    intro a b hr
    obtain ⟨h1, h2⟩ := h.ready a b hr
    simp only [drain]
    rw [← h2]
    cases (K₁.pollReady a).2 with
    | false => exact ⟨h1, rfl, rfl⟩
    | true => simp only [if_true]; exact ih _ _ (h.send _ _ x h1).1

theorem aux_sim_flatMap {γ σ₁ σ₂ : Type} (g : γ → List α) {K₁ : Snk σ₁ α} {K₂ : Snk σ₂ α} {R : σ₁ → σ₂ → Prop}
    (h : Sim K₁ K₂ R) : Sim (flatMap g K₁) (flatMap g K₂) (fun a b => R a.1 b.1 ∧ a.2 = b.2) := by
  refine ⟨?_, ?_, ?_, ?_⟩
  · intro a b hr
    obtain ⟨h1, h2, h3⟩ := aux_sim_drain h a.2 a.1 b.1 hr.1
    simp only [flatMap]; rw [← hr.2]; exact ⟨⟨h1, h2⟩, h3⟩
  · intro a b x hr
    simp only [flatMap]; rw [← hr.2]
    cases a.2.isEmpty with
    | true => exact ⟨⟨hr.1, rfl⟩, rfl⟩
    | false => exact ⟨⟨hr.1, rfl⟩, rfl⟩
  · intro a b hr
    obtain ⟨h1, h2, h3⟩ := aux_sim_drain h a.2 a.1 b.1 hr.1
    simp only [flatMap]; rw [← hr.2]
    cases hd : (drain K₁ a.1 a.2).2 with
    | false =>
      have hd2 : (drain K₂ b.1 a.2).2 = false := by rw [← h3]; exact hd
      simp only [hd2, Bool.false_eq_true, if_false]
      exact ⟨⟨h1, h2⟩, by rw [hd]⟩
    | true =>
      have hd2 : (drain K₂ b.1 a.2).2 = true := by rw [← h3]; exact hd
      simp only [hd2, if_true]
      obtain ⟨f1, f2⟩ := h.flush _ _ h1
      exact ⟨⟨f1, h2⟩, f2⟩
  · intro a b hr
    obtain ⟨h1, h2, h3⟩ := aux_sim_drain h a.2 a.1 b.1 hr.1
    simp only [flatMap]; rw [← hr.2]
    cases hd : (drain K₁ a.1 a.2).2 with
    | false =>
      have hd2 : (drain K₂ b.1 a.2).2 = false := by rw [← h3]; exact hd
      simp only [hd2, Bool.false_eq_true, if_false]
      exact ⟨⟨h1, h2⟩, by rw [hd]⟩
    | true =>
      have hd2 : (drain K₂ b.1 a.2).2 = true := by rw [← h3]; exact hd
      simp only [hd2, if_true]
      obtain ⟨f1, f2⟩ := h.close _ _ h1
      exact ⟨⟨f1, h2⟩, f2⟩

theorem aux_sim_run {σ₁ σ₂ : Type} {K₁ : Snk σ₁ α} {K₂ : Snk σ₂ α} {R : σ₁ → σ₂ → Prop} (h : Sim K₁ K₂ R)
    (ops : List (Op α)) : ∀ (c₁ : σ₁ × Bool) (c₂ : σ₂ × Bool), R c₁.1 c₂.1 → c₁.2 = c₂.2 →
      R (runOps K₁ c₁ ops).1 (runOps K₂ c₂ ops).1 ∧ (runOps K₁ c₁ ops).2 = (runOps K₂ c₂ ops).2 := by
  induction ops with
  | nil => intro c₁ c₂ hr ho; exact ⟨hr, ho⟩
  | cons op ops ih =>
    intro c₁ c₂ hr ho
    simp only [runOps, List.foldl_cons] at ih ⊢
    apply ih
    · cases op with
      | ready => exact (h.ready _ _ hr).1
      | send x => exact (h.send _ _ x hr).1
      | flush => exact (h.flush _ _ hr).1
      | close => exact (h.close _ _ hr).1
    · cases op with
      | send x => simp only [stepOp]; rw [ho, (h.send _ _ x hr).2]
      | ready => exact ho
      | flush => exact ho
      | close => exact ho

/-- `Filter` over a recorded sink records the filtered trace of the recorded `Filter` -/
theorem aux_sim_filter (p : α → Bool) (k : Snk σ α) :
    Sim (filter p k).recd (filter p k.recd)
      (fun a b => a.1 = b.1 ∧ b.2 = filterMapEv (fun x => if p x then some x else none) a.2) := by
  refine ⟨?_, ?_, ?_, ?_⟩
  · intro a b hr; obtain ⟨a1, a2⟩ := a; obtain ⟨b1, b2⟩ := b; obtain ⟨h1, h2⟩ := hr
    simp only at h1 h2; subst h1; subst h2
    simp [filter, Snk.recd, aux_filterMapEv_append, filterMapEv]
  · intro a b x hr; obtain ⟨a1, a2⟩ := a; obtain ⟨b1, b2⟩ := b; obtain ⟨h1, h2⟩ := hr
    simp only at h1 h2; subst h1; subst h2
    cases hp : p x <;> simp [filter, Snk.recd, aux_filterMapEv_append, filterMapEv, hp]
  · intro a b hr; obtain ⟨a1, a2⟩ := a; obtain ⟨b1, b2⟩ := b; obtain ⟨h1, h2⟩ := hr
    simp only at h1 h2; subst h1; subst h2
    simp [filter, Snk.recd, aux_filterMapEv_append, filterMapEv]
  · intro a b hr; obtain ⟨a1, a2⟩ := a; obtain ⟨b1, b2⟩ := b; obtain ⟨h1, h2⟩ := hr
    simp only at h1 h2; subst h1; subst h2
    simp [filter, Snk.recd, aux_filterMapEv_append, filterMapEv]

def opMap {γ : Type} (f : γ → α) : Op γ → Op α
  | .ready => .ready
  | .send x => .send (f x)
  | .flush => .flush
  | .close => .close

/-- `Map` is a translation of the client's calls: running `map f K` is running `K` on the mapped calls -/
theorem aux_map_run {γ τ : Type} (f : γ → α) (K : Snk τ α) (ops : List (Op γ)) :
    ∀ (c : (τ × List (Ev γ)) × Bool),
      (runOps (map f K).recd c ops).1.1 = (runOps K.recd ((c.1.1, c.1.2.map (mapEv f)), c.2) (ops.map (opMap f))).1.1 ∧
      (runOps (map f K).recd c ops).1.2.map (mapEv f) =
        (runOps K.recd ((c.1.1, c.1.2.map (mapEv f)), c.2) (ops.map (opMap f))).1.2 ∧
      (runOps (map f K).recd c ops).2 = (runOps K.recd ((c.1.1, c.1.2.map (mapEv f)), c.2) (ops.map (opMap f))).2 := by
  induction ops with
  | nil => intro c; exact ⟨rfl, rfl, rfl⟩
  | cons op ops ih =>
    intro c
    simp only [runOps, List.foldl_cons, List.map_cons] at ih ⊢
    have hstep : stepOp K.recd ((c.1.1, c.1.2.map (mapEv f)), c.2) (opMap f op) =
        (((stepOp (map f K).recd c op).1.1, (stepOp (map f K).recd c op).1.2.map (mapEv f)),
          (stepOp (map f K).recd c op).2) := by
      cases op <;> simp [stepOp, opMap, map, Snk.recd, mapEv]
    rw [hstep]
    exact ih _

/-- **a stacked chain** `map f ∘ flat_map g ∘ filter p` (the 3-stage chain of the correspondence, for
arbitrary closures, any inner sink and every contract-honouring client): the innermost sink sees a
contract-honouring call sequence; what it received followed by what `flat_map` still buffers (after
the filter) is exactly `filter p (flat_map g (map f items))` of the client's items, in order, once;
no `start_send` panics; after a `Ready` flush/close nothing is buffered.  Derived from the
single-adaptor theorems (`flatMap_delivers_in_order`, the `Filter` trace lemma, `Map` as a call
translation) through the simulation-lifting lemmas `aux_sim_*`, which is how any other stack chains. -/
theorem chain_map_flatMap_filter_delivers_in_order {γ δ : Type} (f : γ → δ) (g : δ → List α) (p : α → Bool)
    (k : Snk σ α) (s : σ) (ops : List (Op γ)) :
    let r := runOps (map f (flatMap g (filter p k.recd))).recd ((((s, []), []), []), true) ops
    protoOk r.1.2 = true →
      protoOk r.1.1.1.2 = true ∧
      sends r.1.1.1.2 ++ r.1.1.2.filter p = (((sends r.1.2).map f).flatMap g).filter p ∧ r.2 = true ∧
      (lastFlushed r.1.2 = true → sends r.1.1.1.2 = (((sends r.1.2).map f).flatMap g).filter p) := by
  intro r hc
  -- the same run with the `Filter` stage recorded as a whole
  let r' := runOps (map f (flatMap g (filter p k).recd)).recd ((((s, []), []), []), true) ops
  have hsim := aux_sim_run (aux_sim_recd (aux_sim_map f (aux_sim_flatMap g (aux_sim_filter p k)))) ops
    ((((s, []), []), []), true) ((((s, []), []), []), true) ⟨⟨⟨rfl, rfl⟩, rfl⟩, rfl⟩ rfl
  obtain ⟨⟨⟨⟨hs, ht⟩, hbuf⟩, hct⟩, hok⟩ := hsim
  change (r'.1.1.1.1 = r.1.1.1.1) at hs
  change (r.1.1.1.2 = filterMapEv (fun x => if p x then some x else none) r'.1.1.1.2) at ht
  change (r'.1.1.2 = r.1.1.2) at hbuf
  change (r'.1.2 = r.1.2) at hct
  change (r'.2 = r.2) at hok
  -- peel `Map` off, then `flatMap_delivers_in_order` over the inner sink `filter p k`
  obtain ⟨m1, m2, m3⟩ := aux_map_run f (flatMap g (filter p k).recd) ops ((((s, []), []), []), true)
  have hfm := flatMap_delivers_in_order g (filter p k) s (ops.map (opMap f))
  simp only [List.map_nil] at m1 m2 m3
  simp only at hfm
  rw [← m1, ← m2, ← m3] at hfm
  have hc' : protoOk (r'.1.2.map (mapEv f)) = true := by
    rw [hct]; simpa [protoOk, aux_protoOkAux_map] using hc
  obtain ⟨q1, q2, q3, q4⟩ := hfm hc'
  have hsends : sends r.1.1.1.2 = (sends r'.1.1.1.2).filter p := by
    rw [ht, aux_sends_filterMapEv]
    induction sends r'.1.1.1.2 with
    | nil => rfl
    | cons x t ih => cases hp : p x <;> simp [List.filterMap_cons, List.filter_cons, hp, ih]
  have hmapct : sends (r'.1.2.map (mapEv f)) = (sends r.1.2).map f := by rw [aux_sends_map, hct]
  refine ⟨by rw [ht]; exact aux_protoOk_filterMapEv _ _ false false id q1, ?_, by rw [← hok]; exact q3, ?_⟩
  · rw [hsends, ← hbuf, ← List.filter_append, q2, hmapct]
  · intro hl
    have hl' : lastFlushed (r'.1.2.map (mapEv f)) = true := by
      rw [hct]
      have : ∀ t : List (Ev γ), lastFlushed (t.map (mapEv f)) = lastFlushed t := by
        intro t
        induction t with
        | nil => rfl
        | cons a t ih =>
          cases t with
          | nil => cases a <;> rfl
          | cons b t => simp only [List.map_cons, lastFlushed] at ih ⊢; exact ih
      rw [this]; exact hl
    rw [hsends, q4 hl', hmapct]

example :
    let r := runOps (map (fun x => 2 * x + 1) (flatMap (fun x => [x, x + 1]) (filter (fun x => x % 3 != 0) dsnk))).recd
      ((((⟨[false, true, false], [], []⟩, []), []), []), true) [.ready, .send 1, .ready, .ready, .ready, .send 2, .flush]
    protoOk r.1.2 = true ∧ sends r.1.1.1.2 = [4, 5] ∧ lastFlushed r.1.2 = true := by
  decide

/-! ### findings: F4 / F4b (repaired in /repo, refuted on the code as it was), F5 (known) -/

/-- F4, before the repair: `LazySinkHalf::poll_ready` answers `Ready` in `Uninit`; the source half is
polled while the init future is pending; the client's `start_send` — allowed by the contract — panics. -/
theorem lazySinkSource_send_after_ready_refuted_before_fix :
    let l₀ : LssSt DR Nat := ⟨.uninit [false, true] [none, some 7] (⟨[], [], []⟩, []), 0⟩
    let r₁ := (lssSink dsnk).pollReady l₀
    let r₂ := lssNext r₁.1
    r₁.2 = true ∧ r₂.2 = .pending ∧ (lssStartSendBeforeFix dsnk r₂.1 1).2 = false := by
  decide

/-- F4b, before the repair: same interleaving with a future that is ready at once: the item reaches
the inner sink's `start_send` although the inner sink was never asked `poll_ready`. -/
theorem lazySinkSource_inner_contract_refuted_before_fix :
    let l₀ : LssSt DR Nat := ⟨.uninit [true] [some 7] (⟨[], [], []⟩, []), 0⟩
    let r₁ := (lssSink dsnk).pollReady l₀
    let r₂ := lssNext r₁.1
    let r₃ := lssStartSendBeforeFix dsnk r₂.1 1
    r₁.2 = true ∧ r₂.2 = .item 7 ∧ r₃.2 = true ∧
      (match r₃.1.st with | .done _ d _ _ => protoOk d.2 | _ => true) = false := by
  decide

/-- F5: `LazyDemuxSink`: `poll_ready` over the (empty) map answers `Ready`, `start_send` for a new
key calls the fresh sink's `start_send` without `poll_ready`. -/
theorem lazyDemux_send_after_ready_refuted :
    let mk : Nat → DR := fun _ => (⟨[], [], []⟩, [])
    let r₁ := (lazyDemux mk dsnk).pollReady []
    let r₂ := (lazyDemux mk dsnk).startSend r₁.1 (1, 5)
    r₁.2 = true ∧ r₂.2 = true ∧ (r₂.1.map fun e => protoOk e.2.2) = [false] := by
  decide

/-! ### non-vacuity -/

example : protoOk ([.ready false, .ready true, .send 3, .flush true] : List (Ev Nat)) = true := by decide
example : protoOk ([.ready true, .send 3, .send 4] : List (Ev Nat)) = false := by decide

/-- a `flat_map` run over a downstream that is pending twice: contract kept, everything delivered -/
example :
    let r := runOps (flatMap (fun x => [x, x + 1]) dsnk).recd
      ((((⟨[false, true, false], [], []⟩, []), []), []), true) [.ready, .send 1, .ready, .ready, .ready, .send 5, .flush]
    protoOk r.1.2 = true ∧ sends r.1.1.1.2 = [1, 2, 5, 6] ∧ lastFlushed r.1.2 = true := by
  decide

end HvSink.Sink
