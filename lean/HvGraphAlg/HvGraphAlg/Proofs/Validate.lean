/-
`validate_topo_sort` accepts exactly the orders that respect every edge.
-/
import HvGraphAlg.Proofs.SMMergeAux
namespace HvGraphAlg

theorem foldl_lastIdx (k : Nat) : ∀ (l : List Nat) (start : Nat) (m0 : Option Nat), l.Nodup →
    (l.zipIdx start).foldl (fun (m : Option Nat) (p : Nat × Nat) => if p.1 = k then some p.2 else m) m0 =
      if k ∈ l then some (start + l.idxOf k) else m0
  | [], _, _, _ => by simp
  | a :: t, start, m0, hn => by
    have hn' := List.nodup_cons.1 hn
    simp only [List.zipIdx_cons, List.foldl_cons]
    rw [foldl_lastIdx k t (start + 1) _ hn'.2]
    by_cases hkt : k ∈ t
    · have hka : a ≠ k := by intro h; subst h; exact hn'.1 hkt
      have : (a == k) = false := by simp [hka]
      simp [hkt, List.idxOf_cons, this]; omega
    · by_cases hka : a = k
      · subst hka; simp [hkt]
      · have : k ≠ a := fun h => hka h.symm
        simp [hkt, hka, this]

theorem lastIdx_nodup {order : List Nat} (hn : order.Nodup) (k : Nat) :
    lastIdx order k = if k ∈ order then some (order.idxOf k) else none := by
  unfold lastIdx
  rw [foldl_lastIdx k order 0 none hn]; simp

theorem valPreds_ok {order : List Nat} (hn : order.Nodup) (succ si : Nat) : ∀ (ps : List Nat),
    valPreds order succ si ps = .ok ↔ ∀ p ∈ ps, p ∈ order ∧ order.idxOf p < si
  | [] => by simp [valPreds]
  | p :: ps => by
    unfold valPreds
    rw [lastIdx_nodup hn p]
    by_cases hp : p ∈ order
    · simp only [hp, if_true]
      by_cases hlt : si ≤ order.idxOf p
      · simp only [hlt, if_true]
        constructor
        · intro h; cases h
        · intro h; have := (h p (by simp)).2; omega
      · simp only [hlt, if_false]
        rw [valPreds_ok hn succ si ps]
        constructor
        · intro h q hq
          rcases List.mem_cons.1 hq with rfl | hq'
          · exact ⟨hp, by omega⟩
          · exact h q hq'
        · intro h q hq; exact h q (List.mem_cons_of_mem _ hq)
    · simp only [hp, if_false]
      constructor
      · intro h; cases h
      · intro h; exact absurd (h p (by simp)).1 hp

theorem valLoop_ok {order : List Nat} (hn : order.Nodup) (P : Nat → List Nat) : ∀ (ss : List Nat),
    valLoop order P ss = .ok ↔
      ∀ s ∈ ss, ∀ p ∈ P s, p ∈ order ∧ order.idxOf p < (lastIdx order s).getD 0
  | [] => by simp [valLoop]
  | s :: ss => by
    unfold valLoop
    cases hv : valPreds order s ((lastIdx order s).getD 0) (P s) with
    | ok =>
      simp only
      rw [valLoop_ok hn P ss]
      have := (valPreds_ok hn s _ (P s)).1 hv
      constructor
      · intro h t ht
        rcases List.mem_cons.1 ht with rfl | ht'
        · exact this
        · exact h t ht'
      · intro h t ht; exact h t (List.mem_cons_of_mem _ ht)
    | err a b =>
      simp only
      constructor
      · intro h; cases h
      · intro h
        have := (valPreds_ok hn s _ (P s)).2 (h s (by simp))
        rw [hv] at this; cases this
    | panic =>
      simp only
      constructor
      · intro h; cases h
      · intro h
        have := (valPreds_ok hn s _ (P s)).2 (h s (by simp))
        rw [hv] at this; cases this

/-- For a duplicate-free `order`: `validate_topo_sort` answers `Ok(())` iff every predecessor of
every listed node is listed strictly earlier. -/
theorem validate_ok_iff {order : List Nat} (hn : order.Nodup) (P : Nat → List Nat) :
    validateTopoSort order P = .ok ↔
      ∀ s ∈ order, ∀ p ∈ P s, p ∈ order ∧ order.idxOf p < order.idxOf s := by
  unfold validateTopoSort
  rw [valLoop_ok hn P]
  constructor
  · intro h s hs p hp
    have := h s (mem_toSortedSet.2 hs) p hp
    rw [lastIdx_nodup hn s] at this
    simpa [hs] using this
  · intro h s hs p hp
    have hs' := mem_toSortedSet.1 hs
    rw [lastIdx_nodup hn s]
    simpa [hs'] using h s hs' p hp

end HvGraphAlg
