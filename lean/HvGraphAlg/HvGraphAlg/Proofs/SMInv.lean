/-
The invariant of `SubgraphMerge` and its establishment by `new`.

Ghost data: `G` (the node-level predecessor function given to `new`), `E` (the enemy pairs given
to `new`) and `gs`, the list of groups in layout order (`order = gs.flatten`).
-/
import HvGraphAlg.Model.SubgraphMerge
import HvGraphAlg.Proofs.UFHistory
namespace HvGraphAlg

/-! ### representative as a function -/

open Classical in
/-- the root of `x` (total function; meaningful when the link map is a forest) -/
noncomputable def rootFn (l : Links) (x : Nat) : Nat :=
  if h : ∃ r, RootOf l x r then Classical.choose h else x

theorem rootFn_spec {n : Nat} {l : Links} (hok : UFOk n l) (x : Nat) : RootOf l x (rootFn l x) := by
  unfold rootFn
  have h := hok.total x
  rw [dif_pos h]
  exact Classical.choose_spec h

theorem rootFn_eq {n : Nat} {l : Links} (hok : UFOk n l) {x r : Nat} (h : RootOf l x r) :
    rootFn l x = r :=
  RootOf.unique (rootFn_spec hok x) h

theorem rootFn_congr {n : Nat} {l l' : Links} (hok : UFOk n l) (hok' : UFOk n l')
    (hs : ∀ j rj, RootOf l j rj ↔ RootOf l' j rj) : rootFn l' = rootFn l := by
  funext x
  exact rootFn_eq hok' ((hs _ _).1 (rootFn_spec hok x))

theorem rootFn_idem {n : Nat} {l : Links} (hok : UFOk n l) (x : Nat) :
    rootFn l (rootFn l x) = rootFn l x :=
  rootFn_eq hok (.root (rootFn_spec hok x).isRoot)

theorem rootFn_lt {n : Nat} {l : Links} (hok : UFOk n l) {x : Nat} (hx : x < n) : rootFn l x < n :=
  RootOf.lt_n hok (rootFn_spec hok x) hx

theorem rootFn_empty (x : Nat) : rootFn SMap.empty x = x :=
  rootFn_eq (UFOk.empty 0) (.root (by simp [par, SMap.empty]))

/-- `findN` returns `rootFn` and does not change it -/
theorem findN_rootFn {n : Nat} {l : Links} {k : Nat} (hok : UFOk n l) (hk : k < n) :
    UFOk n (findN n l k).1 ∧ (findN n l k).2 = rootFn l k ∧ rootFn (findN n l k).1 = rootFn l := by
  have h := findN_spec hok hk
  exact ⟨h.ok, (rootFn_eq hok h.root).symm, rootFn_congr hok h.ok h.same⟩

theorem mapFind_rootFn {n : Nat} {l : Links} {ks : List Nat} (hok : UFOk n l) (hks : ∀ k ∈ ks, k < n) :
    UFOk n (mapFind n l ks).1 ∧ (mapFind n l ks).2 = ks.map (rootFn l) ∧
      rootFn (mapFind n l ks).1 = rootFn l := by
  have h := mapFind_spec (rootFn l) ks l hok hks (fun k _ => rootFn_spec hok k)
  exact ⟨h.1, h.2.2, rootFn_congr hok h.1 h.2.1⟩

theorem ufUnion_rootFn {n : Nat} {l : Links} {u v : Nat} (hok : UFOk n l) (hu : u < n) (hv : v < n)
    (hur : rootFn l u = u) (hvr : rootFn l v = v) :
    UFOk n (ufUnion n l u v).1 ∧
      ∀ x, rootFn (ufUnion n l u v).1 x = if rootFn l x = v then u else rootFn l x := by
  obtain ⟨i, j, hi, hj, _, hok', hroots⟩ := ufUnion_spec hok hu hv
  have ei : i = u := by rw [← rootFn_eq hok hi, hur]
  have ej : j = v := by rw [← rootFn_eq hok hj, hvr]
  subst ei; subst ej
  exact ⟨hok', fun x => rootFn_eq hok' (hroots x _ (rootFn_spec hok x))⟩

/-! ### the invariant -/

/-- groups `gs` laid out from position `pos`: each group is non-empty, its head is the
representative of all its members, and `sg_idx` / `sg_len` of the head describe the range -/
def Layout (sgIdx sgLen : SMap Nat) (rep : Nat → Nat) : Nat → List (List Nat) → Prop
  | _, [] => True
  | pos, g :: gs =>
    (∃ r rest, g = r :: rest ∧ sgIdx r = some pos ∧ sgLen r = some g.length ∧ ∀ y ∈ g, rep y = r) ∧
      Layout sgIdx sgLen rep (pos + g.length) gs

/-- no later element is a predecessor of an earlier one -/
def NoBack (G : Nat → List Nat) (a b : Nat) : Prop := b ∉ G a

structure Inv (G : Nat → List Nat) (E : List (Nat × Nat)) (sm : SM) (gs : List (List Nat)) : Prop where
  gbound : ∀ k, k < sm.n → ∀ p ∈ G k, p < sm.n
  ebound : ∀ a b, (a, b) ∈ E → a < sm.n ∧ b < sm.n
  ufok : UFOk sm.n sm.uf
  order_eq : sm.order = gs.flatten
  perm : sm.order.Perm (List.range sm.n)
  layout : Layout sm.sgIdx sm.sgLen (rootFn sm.uf) 0 gs
  topo : sm.order.Pairwise (NoBack G)
  preds : ∀ r, r < sm.n → rootFn sm.uf r = r → ∃ ps, sm.preds r = some ps ∧ (∀ p ∈ ps, p < sm.n) ∧
    ∀ a, a ≠ r → ((∃ p ∈ ps, rootFn sm.uf p = a) ↔
      ∃ x p, x < sm.n ∧ rootFn sm.uf x = r ∧ p ∈ G x ∧ rootFn sm.uf p = a)
  enemies : ∀ r, r < sm.n → rootFn sm.uf r = r → ∀ w, w ∈ getL sm.enemies r ↔
    ∃ a b, ((a, b) ∈ E ∨ (b, a) ∈ E) ∧ rootFn sm.uf a = r ∧ rootFn sm.uf b = w
  apart : ∀ a b, (a, b) ∈ E → rootFn sm.uf a ≠ rootFn sm.uf b
  preds_bound : ∀ k ps, sm.preds k = some ps → ∀ p ∈ ps, p < sm.n
  preds_noself : ∀ r ps, r < sm.n → rootFn sm.uf r = r → sm.preds r = some ps →
    ∀ p ∈ ps, rootFn sm.uf p ≠ r

/-! ### `new` -/

theorem resp_pairwise {P : Nat → List Nat} {o : List Nat} (h : Resp P o) (hn : o.Nodup) :
    o.Pairwise (NoBack P) := by
  induction h with
  | nil => exact .nil
  | @snoc l a hl ha ih =>
    have hn' := List.nodup_append.1 hn
    rw [List.pairwise_append]
    refine ⟨ih hn'.1, by simp, ?_⟩
    intro x hx b hb
    simp at hb; subst hb
    intro hbx
    have : b ∈ l := hl.closed x hx b hbx
    exact hn'.2.2 b this b (by simp) rfl

theorem foldl_zipIdx_set (l : List Nat) (hn : l.Nodup) : ∀ (k : Nat) (m0 : SMap Nat) (x : Nat),
    (l.zipIdx k).foldl (fun m p => m.set p.1 p.2) m0 x =
      if x ∈ l then some (k + l.idxOf x) else m0 x := by
  induction l with
  | nil => intro k m0 x; simp
  | cons a t ih =>
    intro k m0 x
    have hn' := List.nodup_cons.1 hn
    simp only [List.zipIdx_cons, List.foldl_cons]
    rw [ih hn'.2]
    by_cases hxt : x ∈ t
    · have hxa : x ≠ a := by intro h; subst h; exact hn'.1 hxt
      have hax : (a == x) = false := by simp [Ne.symm hxa]
      simp [hxt, List.idxOf_cons, hax]
      omega
    · by_cases hxa : x = a
      · subst hxa; simp [hxt, SMap.set]
      · simp [hxt, hxa, SMap.set]

theorem foldl_set_one (l : List Nat) : ∀ (m0 : SMap Nat) (x : Nat),
    l.foldl (fun m k => m.set k 1) m0 x = if x ∈ l then some 1 else m0 x := by
  induction l with
  | nil => intro m0 x; simp
  | cons a t ih =>
    intro m0 x
    simp only [List.foldl_cons]
    rw [ih]
    by_cases hxt : x ∈ t
    · simp [hxt]
    · by_cases hxa : x = a
      · subst hxa; simp [hxt, SMap.set]
      · simp [hxt, hxa, SMap.set]

theorem mem_hsInsert {s : List Nat} {x y : Nat} : y ∈ hsInsert s x ↔ y ∈ s ∨ y = x := by
  unfold hsInsert
  split
  · rename_i h
    have hx : x ∈ s := by simpa using h
    constructor
    · exact Or.inl
    · rintro (h' | h')
      · exact h'
      · subst h'; exact hx
  · simp

theorem enemiesNew_spec : ∀ (E : List (Nat × Nat)) (e0 e : SMap (List Nat)),
    enemiesNew E e0 = some e →
    (∀ a b, (a, b) ∈ E → a ≠ b) ∧
      ∀ r w, w ∈ getL e r ↔ (w ∈ getL e0 r ∨ (r, w) ∈ E ∨ (w, r) ∈ E)
  | [], e0, e, h => by
    simp [enemiesNew] at h; subst h; simp
  | (a, b) :: rest, e0, e, h => by
    unfold enemiesNew at h
    by_cases hab : a = b
    · simp [hab] at h
    · simp only [hab, if_false] at h
      obtain ⟨h1, h2⟩ := enemiesNew_spec rest _ e h
      refine ⟨?_, ?_⟩
      · intro x y hxy
        rcases List.mem_cons.1 hxy with h | h
        · cases h; exact hab
        · exact h1 x y h
      · intro r w
        rw [h2 r w]
        have key : w ∈ getL (addEnemy (addEnemy e0 a b) b a) r ↔
            (w ∈ getL e0 r ∨ (r = a ∧ w = b) ∨ (r = b ∧ w = a)) := by
          unfold addEnemy getL SMap.set
          by_cases hrb : r = b
          · subst hrb
            have hra : r ≠ a := fun h => hab h.symm
            simp [hra, mem_hsInsert]
          · by_cases hra : r = a
            · subst hra
              simp [hrb, mem_hsInsert]
            · simp [hrb, hra]
        rw [key]
        simp only [List.mem_cons, Prod.mk.injEq]
        constructor
        · rintro ((h | h | h) | h | h)
          · exact Or.inl h
          · exact Or.inr (Or.inl (Or.inl h))
          · exact Or.inr (Or.inr (Or.inl ⟨h.2, h.1⟩))
          · exact Or.inr (Or.inl (Or.inr h))
          · exact Or.inr (Or.inr (Or.inr h))
        · rintro (h | (h | h) | (h | h))
          · exact Or.inl (Or.inl h)
          · exact Or.inl (Or.inr (Or.inl h))
          · exact Or.inr (Or.inl h)
          · exact Or.inl (Or.inr (Or.inr ⟨h.2, h.1⟩))
          · exact Or.inr (Or.inr h)

theorem layout_singletons (sgIdx sgLen : SMap Nat) (rep : Nat → Nat) (hrep : ∀ x, rep x = x) :
    ∀ (l : List Nat) (pos : Nat), (∀ x ∈ l, sgLen x = some 1) →
      (∀ pre x post, l = pre ++ x :: post → sgIdx x = some (pos + pre.length)) →
      Layout sgIdx sgLen rep pos (l.map (fun x => [x]))
  | [], _, _, _ => trivial
  | a :: t, pos, hlen, hidx => by
    refine ⟨⟨a, [], rfl, ?_, ?_, ?_⟩, ?_⟩
    · simpa using hidx [] a t rfl
    · simpa using hlen a (by simp)
    · intro y hy; simp at hy; subst hy; exact hrep y
    · apply layout_singletons sgIdx sgLen rep hrep t (pos + [a].length)
        (fun x hx => hlen x (List.mem_cons_of_mem _ hx))
      intro pre x post hl
      have := hidx (a :: pre) x post (by simp [hl])
      simp at this ⊢
      rw [this]; congr 1; omega

theorem flatten_singletons : ∀ (l : List Nat), (l.map (fun x => [x])).flatten = l
  | [] => rfl
  | a :: t => by simp [flatten_singletons t]

/-- `new` establishes the invariant (every node its own group). -/
theorem new_inv {n : Nat} {G : Nat → List Nat} {E : List (Nat × Nat)} {sm : SM}
    (hG : ∀ k, k < n → ∀ p ∈ G k, p < n) (hE : ∀ a b, (a, b) ∈ E → a < n ∧ b < n)
    (h : SM.new n G E = .ok sm) : Inv G E sm (sm.order.map (fun x => [x])) ∧ sm.n = n := by
  unfold SM.new at h
  simp only at h
  let P' : Nat → List Nat := fun k => getL (fun k => if k < n then some (G k) else none) k
  have hP' : ∀ k, k < n → P' k = G k := by intro k hk; simp [P', getL, hk]
  have hb : ∀ k, k < n → ∀ p ∈ P' k, p < n := by
    intro k hk p hp; rw [hP' k hk] at hp; exact hG k hk p hp
  have hspec := topoSortS_spec (σ := Unit) (fun s k => (s, P' k)) (P := P')
    (R := fun x => x < n) (I := fun _ => True) (n := n)
    (fun _ _ _ => rfl) (fun _ _ _ => trivial) (fun x hx p hp => hb x hx p hp) (fun x hx => hx)
    (List.range n) () (fun i hi => List.mem_range.1 hi) trivial
  have htop : topoSort n (List.range n) P' = (topoSortS n (List.range n) (fun (s : Unit) k => (s, P' k)) ()).1 := rfl
  change (match topoSort n (List.range n) P' with
    | .cyc c => NewRes.cyc c
    | .fuel => NewRes.fuel
    | .ok order => _) = _ at h
  rw [htop] at h
  generalize topoSortS n (List.range n) (fun (s : Unit) k => (s, P' k)) () = out at h hspec
  obtain ⟨r, s'⟩ := out
  cases r with
  | cyc c => simp at h
  | fuel => simp at h
  | ok o =>
    obtain ⟨hnd, hresp, hids, hR, _⟩ := hspec
    simp only at h
    cases hen : enemiesNew E SMap.empty with
    | none => rw [hen] at h; simp at h
    | some en =>
      rw [hen] at h
      simp only [NewRes.ok.injEq] at h
      subst h
      obtain ⟨hne, hmem⟩ := enemiesNew_spec E _ en hen
      have hperm : o.Perm (List.range n) := by
        rw [List.perm_iff_count]
        intro a
        rw [hnd.count, List.nodup_range.count]
        have : a ∈ o ↔ a ∈ List.range n :=
          ⟨fun ha => List.mem_range.2 (hR a ha), fun ha => hids a ha⟩
        simp [this]
      have hrep : ∀ x, rootFn (SMap.empty : Links) x = x := rootFn_empty
      refine ⟨⟨hG, hE, UFOk.empty n, (flatten_singletons o).symm, hperm, ?_, ?_, ?_, ?_, ?_, ?_, ?_⟩, rfl⟩
      · apply layout_singletons _ _ _ hrep o 0
        · intro x hx
          show (o.foldl (fun m k => m.set k 1) SMap.empty) x = some 1
          rw [foldl_set_one]; simp [hx]
        · intro pre x post hl
          show (o.zipIdx.foldl (fun m p => m.set p.1 p.2) SMap.empty) x = some (0 + pre.length)
          rw [foldl_zipIdx_set o hnd 0]
          have hx : x ∈ o := by rw [hl]; simp
          have hxpre : x ∉ pre := by
            intro hxp; rw [hl] at hnd
            exact (List.nodup_append.1 hnd).2.2 x hxp x (by simp) rfl
          simp [hx, hl, List.idxOf_append, hxpre]
      · show o.Pairwise (NoBack G)
        apply List.Pairwise.imp_of_mem _ (resp_pairwise hresp hnd)
        intro a b ha _ hab
        unfold NoBack at hab ⊢
        rwa [hP' a (hR a ha)] at hab
      · intro r hr _
        refine ⟨G r, by simp [hr], hG r hr, ?_⟩
        intro a _
        simp only [hrep]
        constructor
        · rintro ⟨p, hp, rfl⟩; exact ⟨r, p, hr, rfl, hp, rfl⟩
        · rintro ⟨x, p, _, rfl, hp, rfl⟩; exact ⟨p, hp, rfl⟩
      · intro r _ _ w
        show w ∈ getL en r ↔ _
        rw [hmem r w]
        simp only [hrep]
        constructor
        · rintro (h | h | h)
          · simp [getL, SMap.empty] at h
          · exact ⟨r, w, Or.inl h, rfl, rfl⟩
          · exact ⟨r, w, Or.inr h, rfl, rfl⟩
        · rintro ⟨a, b, h, rfl, rfl⟩
          exact Or.inr h
      · intro a b hab
        simp only [hrep]
        exact hne a b hab
      · intro k ps hk p hp
        by_cases hkn : k < n
        · simp [hkn] at hk; subst hk; exact hG k hkn p hp
        · simp [hkn] at hk
      · intro r ps hkn _ hk p hp
        simp only [hrep]
        by_cases hkn' : r < n
        · simp [hkn] at hk; subst hk
          intro hpr; subst hpr
          -- `p ∈ G p` contradicts the topological order
          have hpo : p ∈ o := hids p (List.mem_range.2 hkn)
          obtain ⟨l1, l2, hs⟩ := List.append_of_mem hpo
          have hp' : p ∈ P' p := by rw [hP' p hkn]; exact hp
          have := hresp.split l1 p l2 hs p hp'
          rw [hs] at hnd
          exact (List.nodup_append.1 hnd).2.2 p this p (by simp) rfl
        · exact absurd hkn hkn'

end HvGraphAlg
