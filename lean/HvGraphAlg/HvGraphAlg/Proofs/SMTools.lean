/-
Consequences of the `SubgraphMerge` invariant used by the `try_merge` proofs.
-/
import HvGraphAlg.Proofs.SMInv
namespace HvGraphAlg

theorem flatten_length_cons (g : List Nat) (gs : List (List Nat)) :
    (g :: gs).flatten.length = g.length + gs.flatten.length := by simp

theorem Layout.append {I L : SMap Nat} {rep : Nat → Nat} : ∀ (A B : List (List Nat)) (pos : Nat),
    Layout I L rep pos (A ++ B) ↔ Layout I L rep pos A ∧ Layout I L rep (pos + A.flatten.length) B
  | [], B, pos => by simp [Layout]
  | g :: A, B, pos => by
    simp only [List.cons_append, Layout, flatten_length_cons]
    rw [Layout.append A B (pos + g.length), Nat.add_assoc]
    exact and_assoc.symm

theorem Layout.congr {I L I' L' : SMap Nat} {rep rep' : Nat → Nat} : ∀ (gs : List (List Nat)) (pos : Nat),
    (∀ g ∈ gs, ∀ r, g.head? = some r → I' r = I r ∧ L' r = L r) →
    (∀ g ∈ gs, ∀ y ∈ g, rep' y = rep y) → Layout I L rep pos gs → Layout I' L' rep' pos gs
  | [], _, _, _, _ => trivial
  | g :: gs, pos, h1, h2, ⟨⟨r, rest, hg, hi, hl, hr⟩, ht⟩ => by
    have := h1 g (by simp) r (by simp [hg])
    refine ⟨⟨r, rest, hg, by rw [this.1]; exact hi, by rw [this.2]; exact hl, ?_⟩, ?_⟩
    · intro y hy; rw [h2 g (by simp) y hy]; exact hr y hy
    · exact Layout.congr gs _ (fun g' hg' => h1 g' (List.mem_cons_of_mem _ hg'))
        (fun g' hg' => h2 g' (List.mem_cons_of_mem _ hg')) ht

theorem Layout.group {I L : SMap Nat} {rep : Nat → Nat} : ∀ {gs : List (List Nat)} {pos : Nat},
    Layout I L rep pos gs → ∀ g ∈ gs, ∃ r rest, g = r :: rest ∧ ∀ y ∈ g, rep y = r
  | [], _, _, g, hg => by cases hg
  | g0 :: gs, pos, ⟨⟨r, rest, hg0, _, _, hr⟩, ht⟩, g, hg => by
    rcases List.mem_cons.1 hg with h | h
    · subst h; exact ⟨r, rest, hg0, hr⟩
    · exact Layout.group ht g h

theorem flatten_nodup_unique {r : Nat} : ∀ (gs : List (List Nat)), gs.flatten.Nodup →
    ∀ g ∈ gs, ∀ g' ∈ gs, r ∈ g → r ∈ g' → g = g'
  | [], _, g, hg, _, _, _, _ => by cases hg
  | g0 :: t, hnd, g, hg, g', hg', hr, hr' => by
    rw [List.flatten_cons, List.nodup_append] at hnd
    rcases List.mem_cons.1 hg with h1 | h1 <;> rcases List.mem_cons.1 hg' with h2 | h2
    · rw [h1, h2]
    · exfalso; subst h1
      exact hnd.2.2 r hr r (List.mem_flatten.2 ⟨g', h2, hr'⟩) rfl
    · exfalso; subst h2
      exact hnd.2.2 r hr' r (List.mem_flatten.2 ⟨g, h1, hr⟩) rfl
    · exact flatten_nodup_unique t hnd.2.1 g h1 g' h2 hr hr'

section inv
variable {G : Nat → List Nat} {E : List (Nat × Nat)} {sm : SM} {gs : List (List Nat)}

theorem Inv.nodup (h : Inv G E sm gs) : sm.order.Nodup :=
  (h.perm.nodup_iff).2 List.nodup_range

theorem Inv.mem_order (h : Inv G E sm gs) {x : Nat} : x ∈ sm.order ↔ x < sm.n := by
  rw [h.perm.mem_iff, List.mem_range]

theorem Inv.group_mem_lt (h : Inv G E sm gs) {g : List Nat} (hg : g ∈ gs) {y : Nat} (hy : y ∈ g) :
    y < sm.n := by
  apply h.mem_order.1
  rw [h.order_eq, List.mem_flatten]
  exact ⟨g, hg, hy⟩

/-- the group of a representative and its position -/
theorem Inv.rep_group (h : Inv G E sm gs) {r : Nat} (hr : r < sm.n) (hrep : rootFn sm.uf r = r) :
    ∃ A rest B, gs = A ++ (r :: rest) :: B ∧ sm.sgIdx r = some A.flatten.length ∧
      sm.sgLen r = some (r :: rest).length ∧ ∀ y ∈ r :: rest, rootFn sm.uf y = r := by
  have hr' : r ∈ gs.flatten := by rw [← h.order_eq]; exact h.mem_order.2 hr
  obtain ⟨g, hg, hrg⟩ := List.mem_flatten.1 hr'
  obtain ⟨A, B, rfl⟩ := List.append_of_mem hg
  have hl := h.layout
  rw [Layout.append] at hl
  obtain ⟨⟨r0, rest, hg0, hi, hlen, hrr⟩, _⟩ := hl.2
  have : r0 = r := by rw [← hrr r hrg, hrep]
  subst this
  subst hg0
  exact ⟨A, rest, B, rfl, by simpa using hi, hlen, hrr⟩

theorem Inv.rep_of_mem (h : Inv G E sm gs) {x : Nat} (hx : x < sm.n) :
    rootFn sm.uf x < sm.n ∧ rootFn sm.uf (rootFn sm.uf x) = rootFn sm.uf x :=
  ⟨rootFn_lt h.ufok hx, rootFn_idem h.ufok x⟩

/-- every node whose representative is `r` lies in `r`'s group -/
theorem Inv.mem_group (h : Inv G E sm gs) {r : Nat} {rest : List Nat} (hg : (r :: rest) ∈ gs)
    {x : Nat} (hx : x < sm.n) (hxr : rootFn sm.uf x = r) : x ∈ r :: rest := by
  have hx' : x ∈ gs.flatten := by rw [← h.order_eq]; exact h.mem_order.2 hx
  obtain ⟨g, hgm, hxg⟩ := List.mem_flatten.1 hx'
  obtain ⟨r0, rest0, hg0, hr0⟩ := h.layout.group g hgm
  have e0 : r0 = r := by rw [← hr0 x hxg, hxr]
  subst e0
  have hnd := h.nodup
  rw [h.order_eq] at hnd
  have := flatten_nodup_unique (r := r0) gs hnd g hgm (r0 :: rest) hg (by rw [hg0]; simp) (by simp)
  rw [← this]; exact hxg

/-- two distinct representatives: their groups, in layout order -/
theorem Inv.two_groups (h : Inv G E sm gs) {a b : Nat} (ha : a < sm.n) (hb : b < sm.n)
    (hra : rootFn sm.uf a = a) (hrb : rootFn sm.uf b = b) (hab : a ≠ b) :
    ∃ A ra M rb B, (gs = A ++ (a :: ra) :: (M ++ (b :: rb) :: B) ∨
      gs = A ++ (b :: rb) :: (M ++ (a :: ra) :: B)) := by
  obtain ⟨A, ra, B, hgs, _, _, hrepa⟩ := h.rep_group ha hra
  have hb' : b ∈ gs.flatten := by rw [← h.order_eq]; exact h.mem_order.2 hb
  obtain ⟨g, hg, hbg⟩ := List.mem_flatten.1 hb'
  obtain ⟨r0, rb0, hg0, hr0⟩ := h.layout.group g hg
  have e0 : r0 = b := by rw [← hr0 b hbg, hrb]
  subst e0
  rw [hgs] at hg
  rcases List.mem_append.1 hg with hgA | hgB
  · obtain ⟨A1, A2, rfl⟩ := List.append_of_mem hgA
    refine ⟨A1, ra, A2, rb0, B, Or.inr ?_⟩
    rw [hgs, hg0]; simp
  · rcases List.mem_cons.1 hgB with hgeq | hgB'
    · exfalso
      rw [hg0] at hgeq
      injection hgeq with h1 _
      exact hab h1.symm
    · obtain ⟨B1, B2, rfl⟩ := List.append_of_mem hgB'
      exact ⟨A, ra, B1, rb0, B2, Or.inl (by rw [hgs, hg0])⟩

/-- layout facts for two groups in this order -/
theorem Inv.ordered_groups (h : Inv G E sm gs) {a b : Nat} {A M B : List (List Nat)} {ra rb : List Nat}
    (hgs : gs = A ++ (a :: ra) :: (M ++ (b :: rb) :: B)) :
    sm.sgIdx a = some A.flatten.length ∧ sm.sgLen a = some (a :: ra).length ∧
    sm.sgIdx b = some (A.flatten.length + (a :: ra).length + M.flatten.length) ∧
    sm.sgLen b = some (b :: rb).length ∧
    (∀ y ∈ a :: ra, rootFn sm.uf y = a) ∧ (∀ y ∈ b :: rb, rootFn sm.uf y = b) ∧
    (∀ x ∈ a :: ra, ∀ y ∈ b :: rb, NoBack G x y) := by
  have hl := h.layout
  rw [hgs, Layout.append] at hl
  obtain ⟨⟨r1, rest1, hg1, hi1, hl1, hr1⟩, ht⟩ := hl.2
  injection hg1 with e1 e1'
  subst e1; subst e1'
  rw [Layout.append] at ht
  obtain ⟨⟨r2, rest2, hg2, hi2, hl2, hr2⟩, _⟩ := ht.2
  injection hg2 with e2 e2'
  subst e2; subst e2'
  refine ⟨by simpa using hi1, hl1, by simpa [Nat.add_assoc] using hi2, hl2, hr1, hr2, ?_⟩
  have ht := h.topo
  rw [h.order_eq, hgs, List.pairwise_flatten] at ht
  have hp := ht.2
  rw [List.pairwise_append] at hp
  have hp2 := hp.2.1
  rw [List.pairwise_cons] at hp2
  intro x hx y hy
  exact hp2.1 (b :: rb) (by simp) x hx y hy

/-- quotient edge `a → b` between representatives (some node of `b`'s class has a predecessor
in `a`'s class) -/
def QE (G : Nat → List Nat) (sm : SM) (a b : Nat) : Prop :=
  a ≠ b ∧ ∃ x p, x < sm.n ∧ rootFn sm.uf x = b ∧ p ∈ G x ∧ rootFn sm.uf p = a

theorem QE.reps (h : Inv G E sm gs) {a b : Nat} (he : QE G sm a b) :
    a < sm.n ∧ b < sm.n ∧ rootFn sm.uf a = a ∧ rootFn sm.uf b = b := by
  obtain ⟨_, x, p, hx, hxb, hp, hpa⟩ := he
  have hp' : p < sm.n := h.gbound x hx p hp
  subst hxb; subst hpa
  exact ⟨rootFn_lt h.ufok hp', rootFn_lt h.ufok hx, rootFn_idem h.ufok p, rootFn_idem h.ufok x⟩

/-- the layout is a topological order of the quotient graph -/
theorem Inv.qe_idx_lt (h : Inv G E sm gs) {a b : Nat} (he : QE G sm a b) :
    getN sm.sgIdx a < getN sm.sgIdx b := by
  obtain ⟨ha, hb, hra, hrb⟩ := he.reps h
  obtain ⟨hab, x, p, hx, hxb, hp, hpa⟩ := he
  obtain ⟨A, ra, M, rb, B, hgs | hgs⟩ := h.two_groups ha hb hra hrb hab
  · obtain ⟨hi1, _, hi2, _, _, _, _⟩ := h.ordered_groups hgs
    simp only [getN, hi1, hi2, Option.getD_some, List.length_cons]
    omega
  · exfalso
    obtain ⟨_, _, _, _, hrb', hra', hno⟩ := h.ordered_groups hgs
    have hp' : p < sm.n := h.gbound x hx p hp
    have hxg : x ∈ b :: rb := h.mem_group (by rw [hgs]; simp) hx hxb
    have hpg : p ∈ a :: ra := h.mem_group (by rw [hgs]; simp) hp' hpa
    exact hno x hxg p hpg hp

end inv
end HvGraphAlg
