/-
Correctness of the cycle check of `try_merge` (the `while let Some(x) = stack.pop()` loop):
it reports a cycle exactly when some group `x ∉ {u, v}` has `u → x ⇝ v` in the quotient graph.
-/
import HvGraphAlg.Proofs.SMTools
namespace HvGraphAlg

section cyc
variable {G : Nat → List Nat} {E : List (Nat × Nat)} {sm : SM} {gs : List (List Nat)}

/-- reflexive-transitive closure of the quotient edges -/
inductive QStar (G : Nat → List Nat) (sm : SM) : Nat → Nat → Prop
  | refl (a : Nat) : QStar G sm a a
  | head {a b c : Nat} : QE G sm a b → QStar G sm b c → QStar G sm a c

/-- merging `u` and `v` would close a cycle through a third group `x`: `u → x ⇝ v` -/
def MergeCycle (G : Nat → List Nat) (sm : SM) (u v : Nat) : Prop :=
  ∃ x, x ≠ v ∧ QE G sm u x ∧ QStar G sm x v

theorem Inv.qstar_idx_le (h : Inv G E sm gs) {a b : Nat} (hs : QStar G sm a b) :
    getN sm.sgIdx a ≤ getN sm.sgIdx b := by
  induction hs with
  | refl _ => exact Nat.le_refl _
  | head he _ ih => exact Nat.le_of_lt (Nat.lt_of_lt_of_le (h.qe_idx_lt he) ih)

/-- the predecessor list of a representative describes its incoming quotient edges -/
theorem Inv.preds_qe (h : Inv G E sm gs) {x : Nat} (hx : x < sm.n) (hrx : rootFn sm.uf x = x) :
    (∀ p ∈ getL sm.preds x, p < sm.n) ∧
    ∀ a, a ≠ x → ((∃ p ∈ getL sm.preds x, rootFn sm.uf p = a) ↔ QE G sm a x) := by
  obtain ⟨ps, hps, hlt, hiff⟩ := h.preds x hx hrx
  have : getL sm.preds x = ps := by simp [getL, hps]
  rw [this]
  refine ⟨hlt, fun a ha => ?_⟩
  rw [hiff a ha]
  exact ⟨fun hh => ⟨ha, hh⟩, fun hh => hh.2⟩

variable (u v lo hi : Nat)

/-- `x` has been fully expanded by the search -/
def Processed (sm : SM) (u v lo hi : Nat) (vis : List Nat) (x : Nat) : Prop :=
  ∀ p ∈ getL sm.preds x, (rootFn sm.uf p = u → x = v) ∧
    (rootFn sm.uf p ≠ u → inWin lo hi (getN sm.sgIdx (rootFn sm.uf p)) = true → rootFn sm.uf p ∈ vis)

theorem cycInner_spec (x : Nat) : ∀ (ps : List Nat) (uf : Links) (st vis : List Nat),
    UFOk sm.n uf → rootFn uf = rootFn sm.uf → (∀ p ∈ ps, p < sm.n) →
    let out := cycInner sm.n sm.sgIdx lo hi u v x ps uf st vis
    UFOk sm.n out.1 ∧ rootFn out.1 = rootFn sm.uf ∧
    (out.2.2.2 = true → x ≠ v ∧ ∃ p ∈ ps, rootFn sm.uf p = u) ∧
    (out.2.2.2 = false →
      ∃ new, out.2.1 = new ++ st ∧ out.2.2.1 = new ++ vis ∧
        (∀ w ∈ new, w ∉ vis ∧ w ≠ u ∧ ∃ p ∈ ps, rootFn sm.uf p = w) ∧ (vis.Nodup → (new ++ vis).Nodup) ∧
        ∀ p ∈ ps, (rootFn sm.uf p = u → x = v) ∧
          (rootFn sm.uf p ≠ u → inWin lo hi (getN sm.sgIdx (rootFn sm.uf p)) = true →
            rootFn sm.uf p ∈ new ++ vis))
  | [], uf, st, vis, hok, hrep, _ => by
    simp only [cycInner]
    exact ⟨hok, hrep, by simp, fun _ => ⟨[], rfl, rfl, by simp, by simp, by simp⟩⟩
  | p :: ps, uf, st, vis, hok, hrep, hps => by
    have hp : p < sm.n := hps p (by simp)
    have hps' : ∀ q ∈ ps, q < sm.n := fun q hq => hps q (List.mem_cons_of_mem _ hq)
    obtain ⟨hok1, hr1, hrep1⟩ := findN_rootFn hok hp
    rw [hrep] at hr1 hrep1
    simp only [cycInner]
    rw [hr1]
    by_cases hpu : rootFn sm.uf p = u
    · simp only [hpu, if_true]
      by_cases hxv : x = v
      · rw [if_pos hxv]
        have ih := cycInner_spec x ps (findN sm.n uf p).1 st vis hok1 hrep1 hps'
        refine ⟨ih.1, ih.2.1, ?_, ?_⟩
        · intro hf; exact absurd hxv (ih.2.2.1 hf).1
        · intro hf
          obtain ⟨new, h1, h2, h4, h5, h6⟩ := ih.2.2.2 hf
          refine ⟨new, h1, h2, ?_, h5, ?_⟩
          · intro w hw
            obtain ⟨a, b, q, hq, hqw⟩ := h4 w hw
            exact ⟨a, b, q, List.mem_cons_of_mem _ hq, hqw⟩
          · intro q hq
            rcases List.mem_cons.1 hq with he | hq'
            · subst he
              exact ⟨fun _ => hxv, fun hne => absurd hpu hne⟩
            · exact h6 q hq'
      · rw [if_neg hxv]
        exact ⟨hok1, hrep1, fun _ => ⟨hxv, p, by simp, hpu⟩, by simp⟩
    · simp only [hpu, if_false]
      by_cases hpush : (inWin lo hi (getN sm.sgIdx (rootFn sm.uf p)) && !vis.contains (rootFn sm.uf p)) = true
      · simp only [hpush, if_true]
        have hin : inWin lo hi (getN sm.sgIdx (rootFn sm.uf p)) = true := by
          simp only [Bool.and_eq_true] at hpush; exact hpush.1
        have hnv : rootFn sm.uf p ∉ vis := by
          simp only [Bool.and_eq_true, Bool.not_eq_true', List.contains_eq_mem, decide_eq_false_iff_not] at hpush
          exact hpush.2
        have ih := cycInner_spec x ps (findN sm.n uf p).1 (rootFn sm.uf p :: st) (rootFn sm.uf p :: vis)
          hok1 hrep1 hps'
        refine ⟨ih.1, ih.2.1, ?_, ?_⟩
        · intro hf
          obtain ⟨h1, q, hq, hqu⟩ := ih.2.2.1 hf
          exact ⟨h1, q, List.mem_cons_of_mem _ hq, hqu⟩
        · intro hf
          obtain ⟨new, h1, h2, h4, h5, h6⟩ := ih.2.2.2 hf
          refine ⟨new ++ [rootFn sm.uf p], by simp [h1], by simp [h2], ?_, ?_, ?_⟩
          · intro w hw
            rcases List.mem_append.1 hw with hw' | hw'
            · obtain ⟨a, b, q, hq, hqw⟩ := h4 w hw'
              exact ⟨fun hh => a (List.mem_cons_of_mem _ hh), b, q, List.mem_cons_of_mem _ hq, hqw⟩
            · simp at hw'; subst hw'
              exact ⟨hnv, hpu, p, by simp, rfl⟩
          · intro hnd
            have := h5 (List.nodup_cons.2 ⟨hnv, hnd⟩)
            simpa using this
          · intro q hq
            rcases List.mem_cons.1 hq with he | hq'
            · subst he
              refine ⟨fun hh => absurd hh hpu, fun _ _ => ?_⟩
              simp
            · have := h6 q hq'
              refine ⟨this.1, fun a b => ?_⟩
              have := this.2 a b
              simpa using this
      · simp only [hpush, if_false]
        have ih := cycInner_spec x ps (findN sm.n uf p).1 st vis hok1 hrep1 hps'
        refine ⟨ih.1, ih.2.1, ?_, ?_⟩
        · intro hf
          obtain ⟨h1, q, hq, hqu⟩ := ih.2.2.1 hf
          exact ⟨h1, q, List.mem_cons_of_mem _ hq, hqu⟩
        · intro hf
          obtain ⟨new, h1, h2, h4, h5, h6⟩ := ih.2.2.2 hf
          refine ⟨new, h1, h2, ?_, h5, ?_⟩
          · intro w hw
            obtain ⟨a, b, q, hq, hqw⟩ := h4 w hw
            exact ⟨a, b, q, List.mem_cons_of_mem _ hq, hqw⟩
          · intro q hq
            rcases List.mem_cons.1 hq with he | hq'
            · subst he
              refine ⟨fun hh => absurd hh hpu, fun _ hin => ?_⟩
              by_cases hmem : rootFn sm.uf q ∈ vis
              · exact List.mem_append_right _ hmem
              · exfalso; apply hpush; simp [hin, hmem]
            · exact h6 q hq'

structure CInv (G : Nat → List Nat) (sm : SM) (u v lo hi : Nat) (st vis : List Nat) : Prop where
  sub : ∀ x ∈ st, x ∈ vis
  vin : v ∈ vis
  proc : ∀ x ∈ vis, x ∉ st → Processed sm u v lo hi vis x
  good : ∀ x ∈ vis, x < sm.n ∧ rootFn sm.uf x = x ∧ x ≠ u ∧ QStar G sm x v
  nd : vis.Nodup

theorem Processed.mono {vis vis' : List Nat} {x : Nat} (hsub : ∀ y ∈ vis, y ∈ vis')
    (h : Processed sm u v lo hi vis x) : Processed sm u v lo hi vis' x :=
  fun p hp => ⟨(h p hp).1, fun a b => hsub _ ((h p hp).2 a b)⟩

theorem vis_length_le {n : Nat} {vis : List Nat} (hnd : vis.Nodup) (hlt : ∀ x ∈ vis, x < n) :
    vis.length ≤ n := by
  have := hnd.length_le_of_subset (l₂ := List.range n) (fun x hx => List.mem_range.2 (hlt x hx))
  simpa using this

theorem cycLoop_spec (hinv : Inv G E sm gs) : ∀ (fuel : Nat) (st vis : List Nat) (uf : Links),
    UFOk sm.n uf → rootFn uf = rootFn sm.uf → CInv G sm u v lo hi st vis →
    st.length + (sm.n - vis.length) < fuel →
    let out := cycLoop sm.n sm.preds sm.sgIdx lo hi u v fuel st vis uf
    UFOk sm.n out.1 ∧ rootFn out.1 = rootFn sm.uf ∧
      match out.2 with
      | .cyc => MergeCycle G sm u v
      | .ok => ∃ vis', v ∈ vis' ∧ (∀ x ∈ vis', Processed sm u v lo hi vis' x) ∧
          ∀ x ∈ vis', x < sm.n ∧ rootFn sm.uf x = x ∧ x ≠ u ∧ QStar G sm x v
      | .fuel => False := by
  intro fuel
  induction fuel with
  | zero => intro _ _ _ _ _ _ h; omega
  | succ fuel ih =>
    intro st vis uf hok hrep hc hfuel
    cases st with
    | nil =>
      simp only [cycLoop]
      exact ⟨hok, hrep, vis, hc.vin, fun x hx => hc.proc x hx (by simp), hc.good⟩
    | cons x st' =>
      simp only [cycLoop]
      obtain ⟨hx_n, hx_rep, hx_u, hx_v⟩ := hc.good x (hc.sub x (by simp))
      obtain ⟨hpb, hqe⟩ := hinv.preds_qe hx_n hx_rep
      have hin := cycInner_spec (sm := sm) u v lo hi x (getL sm.preds x) uf st' vis hok hrep hpb
      generalize cycInner sm.n sm.sgIdx lo hi u v x (getL sm.preds x) uf st' vis = out at hin
      obtain ⟨uf', st'', vis'', b⟩ := out
      simp only at hin
      obtain ⟨hok', hrep', hfound, hnot⟩ := hin
      cases b with
      | true =>
        simp only
        obtain ⟨hxv, p, hp, hpu⟩ := hfound rfl
        exact ⟨hok', hrep', x, hxv, (hqe u (Ne.symm hx_u)).1 ⟨p, hp, hpu⟩, hx_v⟩
      | false =>
        simp only
        obtain ⟨new, rfl, rfl, hnew, hnd, hproc⟩ := hnot rfl
        have hgood : ∀ y ∈ new ++ vis, y < sm.n ∧ rootFn sm.uf y = y ∧ y ≠ u ∧ QStar G sm y v := by
          intro y hy
          rcases List.mem_append.1 hy with hy' | hy'
          · obtain ⟨hyv, hyu, p, hp, hpy⟩ := hnew y hy'
            have hyx : y ≠ x := by intro h; subst h; exact hyv (hc.sub _ (by simp))
            have he : QE G sm y x := (hqe y hyx).1 ⟨p, hp, hpy⟩
            obtain ⟨h1, _, h3, _⟩ := he.reps hinv
            exact ⟨h1, h3, hyu, .head he hx_v⟩
          · exact hc.good y hy'
        have hc' : CInv G sm u v lo hi (new ++ st') (new ++ vis) := by
          refine ⟨?_, List.mem_append_right _ hc.vin, ?_, hgood, hnd hc.nd⟩
          · intro y hy
            rcases List.mem_append.1 hy with h | h
            · exact List.mem_append_left _ h
            · exact List.mem_append_right _ (hc.sub y (List.mem_cons_of_mem _ h))
          · intro y hy hyst
            have hy1 : y ∉ new := fun h => hyst (List.mem_append_left _ h)
            have hy2 : y ∉ st' := fun h => hyst (List.mem_append_right _ h)
            have hyvis : y ∈ vis := by
              rcases List.mem_append.1 hy with h | h
              · exact absurd h hy1
              · exact h
            by_cases hyx : y = x
            · subst hyx; exact hproc
            · apply Processed.mono u v lo hi (fun z hz => List.mem_append_right _ hz)
              apply hc.proc y hyvis
              intro h
              rcases List.mem_cons.1 h with h | h
              · exact hyx h
              · exact hy2 h
        have hlen : (new ++ vis).length ≤ sm.n :=
          vis_length_le (hnd hc.nd) (fun y hy => (hgood y hy).1)
        have hfuel' : (new ++ st').length + (sm.n - (new ++ vis).length) < fuel := by
          simp only [List.length_append, List.length_cons] at hfuel hlen ⊢
          omega
        exact ih (new ++ st') (new ++ vis) uf' hok' hrep' hc' hfuel'

/-- The cycle check of `try_merge`, for representatives `u` before `v`: it terminates within the
model's fuel, and reports a cycle iff `u → x ⇝ v` for some third group `x`. -/
theorem cycCheck_spec (hinv : Inv G E sm gs) {uf : Links} (hok : UFOk sm.n uf)
    (hrep : rootFn uf = rootFn sm.uf) (hu : u < sm.n) (hv : v < sm.n)
    (hru : rootFn sm.uf u = u) (hrv : rootFn sm.uf v = v) (huv : u ≠ v)
    (hlo : lo = getN sm.sgIdx u) (hhi : getN sm.sgIdx v < hi) :
    let out := cycLoop sm.n sm.preds sm.sgIdx lo hi u v (sm.n + 1) [v] [v] uf
    UFOk sm.n out.1 ∧ rootFn out.1 = rootFn sm.uf ∧ out.2 ≠ .fuel ∧
      (out.2 = .cyc ↔ MergeCycle G sm u v) := by
  have hc0 : CInv G sm u v lo hi [v] [v] := by
    refine ⟨fun x hx => hx, by simp, ?_, ?_, by simp⟩
    · intro x hx hx'; exact absurd hx hx'
    · intro x hx
      simp at hx; subst hx
      exact ⟨hv, hrv, Ne.symm huv, .refl _⟩
  have h := cycLoop_spec u v lo hi hinv (sm.n + 1) [v] [v] uf hok hrep hc0 (by simp; omega)
  simp only at h ⊢
  obtain ⟨h1, h2, h3⟩ := h
  refine ⟨h1, h2, ?_, ?_⟩
  · intro hf; rw [hf] at h3; exact h3
  · cases hr : (cycLoop sm.n sm.preds sm.sgIdx lo hi u v (sm.n + 1) [v] [v] uf).2 with
    | cyc => rw [hr] at h3; simp only [true_iff]; exact h3
    | fuel => rw [hr] at h3; exact absurd h3 id
    | ok =>
      rw [hr] at h3
      simp only [reduceCtorEq, false_iff]
      obtain ⟨vis', hvin, hproc, hgood⟩ := h3
      rintro ⟨x, hxv, hux, hxs⟩
      -- every node on the path from `x` to `v` has been visited
      have key : ∀ y c, QStar G sm y c → c ∈ vis' → getN sm.sgIdx c < hi →
          getN sm.sgIdx u < getN sm.sgIdx y → y ∈ vis' := by
        intro y c hy
        induction hy with
        | refl _ => intro hc _ _; exact hc
        | @head a b c hab hbc ih =>
          intro hc hchi hua
          have hlt := hinv.qe_idx_lt hab
          have hb : b ∈ vis' := ih hc hchi (by omega)
          obtain ⟨hb_n, hb_rep, _, _⟩ := hgood b hb
          obtain ⟨_, hqe⟩ := hinv.preds_qe hb_n hb_rep
          obtain ⟨p, hp, hpa⟩ := (hqe a hab.1).2 hab
          have hau : a ≠ u := by intro h; subst h; omega
          have hble := hinv.qstar_idx_le hbc
          have := (hproc b hb p hp).2 (by rw [hpa]; exact hau)
            (by rw [hpa]; simp [inWin]; omega)
          rwa [hpa] at this
      have hxvis := key x v hxs hvin hhi (hinv.qe_idx_lt hux)
      obtain ⟨hx_n, hx_rep, _, _⟩ := hgood x hxvis
      obtain ⟨_, hqe⟩ := hinv.preds_qe hx_n hx_rep
      obtain ⟨p, hp, hpu⟩ := (hqe u hux.1).2 hux
      exact hxv ((hproc x hxvis p hp).1 hpu)

end cyc
end HvGraphAlg
