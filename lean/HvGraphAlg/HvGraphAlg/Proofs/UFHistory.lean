/-
Union-find over whole histories: after any sequence of `union` / `find` / `same_set` calls
starting from the empty structure, two keys have the same representative iff they are connected
by the unioned pairs.
-/
import HvGraphAlg.Proofs.UnionFind
namespace HvGraphAlg

inductive UfOp
  | union (a b : Nat)
  | find (a : Nat)
  | same (a b : Nat)

def UfOp.bounded (n : Nat) : UfOp → Prop
  | .union a b => a < n ∧ b < n
  | .find a => a < n
  | .same a b => a < n ∧ b < n

def ufStep (n : Nat) (l : Links) : UfOp → Links
  | .union a b => (ufUnion n l a b).1
  | .find a => (findN n l a).1
  | .same a b => (ufSame n l a b).1

/-- the structure after a history (oldest operation first) -/
def ufRun (n : Nat) (ops : List UfOp) : Links := ops.foldl (ufStep n) SMap.empty

def unionedPairs : List UfOp → List (Nat × Nat)
  | [] => []
  | .union a b :: r => (a, b) :: unionedPairs r
  | _ :: r => unionedPairs r

/-- equivalence closure of a list of pairs -/
inductive Conn (ps : List (Nat × Nat)) : Nat → Nat → Prop
  | refl (a : Nat) : Conn ps a a
  | pair {a b : Nat} : (a, b) ∈ ps → Conn ps a b
  | symm {a b : Nat} : Conn ps a b → Conn ps b a
  | trans {a b c : Nat} : Conn ps a b → Conn ps b c → Conn ps a c

theorem Conn.mono {ps qs : List (Nat × Nat)} (h : ∀ p ∈ ps, p ∈ qs) {a b : Nat} (hc : Conn ps a b) :
    Conn qs a b := by
  induction hc with
  | refl a => exact .refl a
  | pair hm => exact .pair (h _ hm)
  | symm _ ih => exact .symm ih
  | trans _ _ ih1 ih2 => exact .trans ih1 ih2

def SameRoot (l : Links) (x y : Nat) : Prop := ∃ r, RootOf l x r ∧ RootOf l y r

structure UInv (n : Nat) (ps : List (Nat × Nat)) (l : Links) : Prop where
  ok : UFOk n l
  conn : ∀ x y, SameRoot l x y ↔ Conn ps x y

theorem UInv.of_same_roots {n : Nat} {ps : List (Nat × Nat)} {l l' : Links} (h : UInv n ps l)
    (hok : UFOk n l') (hs : ∀ j rj, RootOf l j rj ↔ RootOf l' j rj) : UInv n ps l' := by
  refine ⟨hok, fun x y => ?_⟩
  rw [← h.conn x y]
  constructor
  · rintro ⟨r, h1, h2⟩; exact ⟨r, (hs _ _).2 h1, (hs _ _).2 h2⟩
  · rintro ⟨r, h1, h2⟩; exact ⟨r, (hs _ _).1 h1, (hs _ _).1 h2⟩

theorem UInv.union {n : Nat} {ps : List (Nat × Nat)} {l : Links} (h : UInv n ps l) {a b : Nat}
    (ha : a < n) (hb : b < n) : UInv n (ps ++ [(a, b)]) (ufUnion n l a b).1 := by
  obtain ⟨i, j, hai, hbj, _, hok', hroots⟩ := ufUnion_spec h.ok ha hb
  refine ⟨hok', fun x y => ?_⟩
  have hmono : ∀ {u v}, Conn ps u v → Conn (ps ++ [(a, b)]) u v :=
    fun hc => hc.mono (fun p hp => List.mem_append_left _ hp)
  have hab : Conn (ps ++ [(a, b)]) a b := .pair (by simp)
  -- the new root of a node as a function of the old one
  have hnew : ∀ z, ∃ rz, RootOf l z rz ∧ RootOf (ufUnion n l a b).1 z (if rz = j then i else rz) := by
    intro z
    obtain ⟨rz, hz⟩ := h.ok.total z
    exact ⟨rz, hz, hroots z rz hz⟩
  constructor
  · rintro ⟨r, hx, hy⟩
    obtain ⟨rx, hx0, hx1⟩ := hnew x
    obtain ⟨ry, hy0, hy1⟩ := hnew y
    have ex := RootOf.unique hx hx1
    have ey := RootOf.unique hy hy1
    have hxa : rx = j → Conn ps x b := fun e => (h.conn x b).1 ⟨j, e ▸ hx0, hbj⟩
    have hya : ry = j → Conn ps y b := fun e => (h.conn y b).1 ⟨j, e ▸ hy0, hbj⟩
    have hxi : rx = i → Conn ps x a := fun e => (h.conn x a).1 ⟨i, e ▸ hx0, hai⟩
    have hyi : ry = i → Conn ps y a := fun e => (h.conn y a).1 ⟨i, e ▸ hy0, hai⟩
    by_cases h1 : rx = j <;> by_cases h2 : ry = j
    · exact .trans (hmono (hxa h1)) (.symm (hmono (hya h2)))
    · simp only [h1, h2, if_true, if_false] at ex ey
      have : ry = i := by rw [← ey, ex]
      exact .trans (hmono (hxa h1)) (.trans (.symm hab) (.symm (hmono (hyi this))))
    · simp only [h1, h2, if_true, if_false] at ex ey
      have : rx = i := by rw [← ex, ey]
      exact .trans (hmono (hxi this)) (.trans hab (.symm (hmono (hya h2))))
    · simp only [h1, h2, if_false] at ex ey
      have : rx = ry := by rw [← ex, ey]
      exact hmono ((h.conn x y).1 ⟨rx, hx0, this ▸ hy0⟩)
  · intro hc
    induction hc with
    | refl z =>
      obtain ⟨rz, _, hz1⟩ := hnew z
      exact ⟨_, hz1, hz1⟩
    | @pair u v hm =>
      rcases List.mem_append.1 hm with hm | hm
      · obtain ⟨r, hu, hv⟩ := (h.conn u v).2 (.pair hm)
        exact ⟨_, hroots u r hu, hroots v r hv⟩
      · simp at hm
        obtain ⟨rfl, rfl⟩ := hm
        have h1 := hroots u i hai
        have h2 := hroots v j hbj
        simp only [if_true] at h2
        by_cases hij : i = j
        · simp only [hij, if_true] at h1; exact ⟨_, hij ▸ h1, h2⟩
        · simp only [hij, if_false] at h1; exact ⟨_, h1, h2⟩
    | symm _ ih =>
      obtain ⟨r, h1, h2⟩ := ih
      exact ⟨r, h2, h1⟩
    | trans _ _ ih1 ih2 =>
      obtain ⟨r1, h1, h2⟩ := ih1
      obtain ⟨r2, h3, h4⟩ := ih2
      have := RootOf.unique h2 h3
      subst this
      exact ⟨r1, h1, h4⟩

theorem UInv.empty (n : Nat) : UInv n [] SMap.empty := by
  refine ⟨UFOk.empty n, fun x y => ?_⟩
  constructor
  · rintro ⟨r, h1, h2⟩
    have e1 := RootOf.unique h1 (.root (by simp [par, SMap.empty]))
    have e2 := RootOf.unique h2 (.root (by simp [par, SMap.empty]))
    rw [← e1, e2]; exact .refl _
  · intro hc
    have : ∀ {u v}, Conn [] u v → u = v := by
      intro u v h
      induction h with
      | refl _ => rfl
      | pair hm => simp at hm
      | symm _ ih => exact ih.symm
      | trans _ _ i1 i2 => exact i1.trans i2
    have e := this hc
    subst e
    exact ⟨x, .root (by simp [par, SMap.empty]), .root (by simp [par, SMap.empty])⟩

theorem ufFold_inv {n : Nat} : ∀ (ops : List UfOp) (ps : List (Nat × Nat)) (l : Links),
    UInv n ps l → (∀ op ∈ ops, op.bounded n) →
    UInv n (ps ++ unionedPairs ops) (ops.foldl (ufStep n) l)
  | [], ps, l, h, _ => by simpa [unionedPairs] using h
  | op :: ops, ps, l, h, hb => by
    have hop := hb op (by simp)
    have hrest : ∀ o ∈ ops, o.bounded n := fun o ho => hb o (List.mem_cons_of_mem _ ho)
    rw [List.foldl_cons]
    cases op with
    | union a b =>
      have := ufFold_inv ops (ps ++ [(a, b)]) _ (h.union hop.1 hop.2) hrest
      simpa [unionedPairs, ufStep] using this
    | find a =>
      have hs := findN_spec h.ok hop
      have := ufFold_inv ops ps _ (h.of_same_roots hs.ok hs.same) hrest
      simpa [unionedPairs, ufStep] using this
    | same a b =>
      have hs := ufSame_spec h.ok hop.1 hop.2
      have := ufFold_inv ops ps _ (h.of_same_roots hs.1 hs.2.1) hrest
      simpa [unionedPairs, ufStep] using this

theorem ufRun_inv {n : Nat} (ops : List UfOp) (hb : ∀ op ∈ ops, op.bounded n) :
    UInv n (unionedPairs ops) (ufRun n ops) := by
  have := ufFold_inv ops [] SMap.empty (UInv.empty n) hb
  simpa [ufRun] using this

end HvGraphAlg
