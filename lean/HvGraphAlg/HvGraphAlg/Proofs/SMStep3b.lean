/-
Step 3 of `try_merge`, part b: which representatives are in the window, and the quotient graph
of the window after the merge is acyclic (so the re-sort cannot hit the `expect("bug: …")`).
-/
import HvGraphAlg.Proofs.SMStep3a
namespace HvGraphAlg

/-- representatives of the groups of the window after the merge -/
def WR (u : Nat) (M : List (List Nat)) (x : Nat) : Prop := x = u ∨ ∃ mg ∈ M, mg.head? = some x

section
variable {G : Nat → List Nat} {E : List (Nat × Nat)} {sm : SM} {gs : List (List Nat)}
  {uf0 : Links} {u v : Nat}

theorem Win.in_window (c : MergeCtx G E sm gs uf0 u v) {A M B : List (List Nat)} {ru rv : List Nat}
    (hgs : gs = A ++ (u :: ru) :: (M ++ (v :: rv) :: B)) (w : Win G E sm u v A ru M rv B)
    {p : Nat} (hp : p < sm.n) (hpr : rootFn sm.uf p = p) (hpu : p ≠ u) (hpv : p ≠ v)
    (hlo : A.flatten.length ≤ getN sm.sgIdx p)
    (hhi : getN sm.sgIdx p < A.flatten.length + (u :: ru).length + M.flatten.length + (v :: rv).length) :
    ∃ mg ∈ M, mg.head? = some p := by
  obtain ⟨A', rest, B', hgs', hidx, _, _⟩ := c.inv.rep_group hp hpr
  have hmem : (p :: rest) ∈ gs := by rw [hgs']; simp
  rw [hgs] at hmem
  simp only [List.mem_append, List.mem_cons] at hmem
  rcases hmem with h | h | h | h | h
  · obtain ⟨i, hi, _, hi2⟩ := w.layA.idx_bounds p rest h
    simp only [getN, hi, Option.getD_some, List.length_cons] at hlo hi2
    omega
  · injection h with h1 _; exact absurd h1 hpu
  · exact ⟨_, h, rfl⟩
  · injection h with h1 _; exact absurd h1 hpv
  · obtain ⟨i, hi, hi1, _⟩ := w.layB.idx_bounds p rest h
    simp only [getN, hi, Option.getD_some] at hhi
    omega

theorem Inv.idx_lt_n (h : Inv G E sm gs) {r : Nat} (hr : r < sm.n) (hrr : rootFn sm.uf r = r) :
    getN sm.sgIdx r < sm.n := by
  obtain ⟨A, rest, B, hgs, hidx, _, _⟩ := h.rep_group hr hrr
  have hlen : sm.order.length = sm.n := by rw [h.perm.length_eq]; simp
  rw [h.order_eq, hgs] at hlen
  simp only [List.flatten_append, List.flatten_cons, List.length_append, List.length_cons] at hlen
  simp only [getN, hidx, Option.getD_some]
  omega

theorem QStar.snoc {a b d : Nat} (h : QStar G sm a b) (he : QE G sm b d) : QStar G sm a d := by
  induction h with
  | refl _ => exact .head he (.refl _)
  | head h1 _ ih => exact .head h1 (ih he)

/-- at least one quotient edge -/
def QPlus (G : Nat → List Nat) (sm : SM) (a b : Nat) : Prop := ∃ m, QE G sm a m ∧ QStar G sm m b

theorem QPlus.idx_lt (h : Inv G E sm gs) {a b : Nat} (hp : QPlus G sm a b) :
    getN sm.sgIdx a < getN sm.sgIdx b := by
  obtain ⟨m, h1, h2⟩ := hp
  exact Nat.lt_of_lt_of_le (h.qe_idx_lt h1) (h.qstar_idx_le h2)

theorem QPlus.snoc {a b d : Nat} (h : QPlus G sm a b) (he : QE G sm b d) : QPlus G sm a d := by
  obtain ⟨m, h1, h2⟩ := h
  exact ⟨m, h1, h2.snoc he⟩

open Classical in
/-- a rank that increases along every edge of the merged quotient graph -/
noncomputable def mrank (G : Nat → List Nat) (sm : SM) (u v : Nat) (x : Nat) : Nat :=
  if x = u then sm.n
  else if QPlus G sm u x ∨ QPlus G sm v x then sm.n + 1 + getN sm.sgIdx x
  else getN sm.sgIdx x

/-- `mrank` increases along every old quotient edge, seen through `rep1` -/
theorem mrank_lt_of (hinv : Inv G E sm gs) (c_huv : u ≠ v)
    (c_hlt : getN sm.sgIdx u < getN sm.sgIdx v) (c_nocyc : ¬ MergeCycle G sm u v)
    {a b : Nat} (he : QE G sm a b) (hne : rep1 sm u v a ≠ rep1 sm u v b) :
    mrank G sm u v (rep1 sm u v a) < mrank G sm u v (rep1 sm u v b) := by
  obtain ⟨ha, hb, hra, hrb⟩ := he.reps hinv
  have hlt := hinv.qe_idx_lt he
  have hltuv := c_hlt
  have r1a : rep1 sm u v a = if a = v then u else a := by unfold rep1; rw [hra]
  have r1b : rep1 sm u v b = if b = v then u else b := by unfold rep1; rw [hrb]
  rw [r1a, r1b] at hne ⊢
  have ha_n := hinv.idx_lt_n ha hra
  have hb_n := hinv.idx_lt_n hb hrb
  by_cases hbuv : b = u ∨ b = v
  · -- the edge enters the merged group
    have hb' : (if b = v then u else b) = u := by
      rcases hbuv with h | h
      · subst h; simp [c_huv]
      · simp [h]
    rw [hb'] at hne ⊢
    have hau : a ≠ u := by
      intro h; apply hne; simp [h, c_huv]
    have hav : a ≠ v := by
      intro h; apply hne; simp [h]
    simp only [hav, if_false]
    have hnd : ¬ (QPlus G sm u a ∨ QPlus G sm v a) := by
      rintro (hq | hq)
      · rcases hbuv with h | h
        · subst h
          have := hq.idx_lt hinv; omega
        · subst h
          obtain ⟨m, h1, h2⟩ := hq
          have hm_le := hinv.qstar_idx_le h2
          exact c_nocyc ⟨m, by intro hm; subst hm; omega, h1, h2.snoc he⟩
      · have := hq.idx_lt hinv
        rcases hbuv with h | h <;> subst h <;> omega
    unfold mrank
    simp only [hau, if_false, hnd, if_true]
    exact ha_n
  · have hbu : b ≠ u := fun h => hbuv (Or.inl h)
    have hbv : b ≠ v := fun h => hbuv (Or.inr h)
    simp only [hbv, if_false] at hne ⊢
    by_cases hauv : a = u ∨ a = v
    · -- the edge leaves the merged group
      have ha' : (if a = v then u else a) = u := by
        rcases hauv with h | h
        · subst h; simp [c_huv]
        · simp [h]
      rw [ha']
      have hd : QPlus G sm u b ∨ QPlus G sm v b := by
        rcases hauv with h | h
        · subst h; exact Or.inl ⟨b, he, .refl _⟩
        · subst h; exact Or.inr ⟨b, he, .refl _⟩
      unfold mrank
      simp only [if_true, hbu, if_false, hd]
      omega
    · have hau : a ≠ u := fun h => hauv (Or.inl h)
      have hav : a ≠ v := fun h => hauv (Or.inr h)
      simp only [hav, if_false]
      unfold mrank
      simp only [hau, hbu, if_false]
      by_cases hda : QPlus G sm u a ∨ QPlus G sm v a
      · have hdb : QPlus G sm u b ∨ QPlus G sm v b := by
          rcases hda with h | h
          · exact Or.inl (h.snoc he)
          · exact Or.inr (h.snoc he)
        simp only [hda, hdb, if_true]; omega
      · simp only [hda, if_false]
        by_cases hdb : QPlus G sm u b ∨ QPlus G sm v b
        · simp only [hdb, if_true]; omega
        · simp only [hdb, if_false]; exact hlt


/-- `mrank` increases along every old quotient edge, seen through `rep1` -/
theorem mrank_lt (c : MergeCtx G E sm gs uf0 u v) {a b : Nat} (he : QE G sm a b)
    (hne : rep1 sm u v a ≠ rep1 sm u v b) :
    mrank G sm u v (rep1 sm u v a) < mrank G sm u v (rep1 sm u v b) :=
  mrank_lt_of c.inv c.huv c.hlt c.nocyc he hne

end
end HvGraphAlg
