/-
`try_merge`: when it refuses, and what a refused / no-op call leaves behind.
-/
import HvGraphAlg.Proofs.SMCycle
namespace HvGraphAlg

section
variable {G : Nat → List Nat} {E : List (Nat × Nat)} {sm : SM} {gs : List (List Nat)}

/-- the invariant sees the union-find only through its representative function -/
theorem Inv.with_uf (h : Inv G E sm gs) {uf : Links} (hok : UFOk sm.n uf)
    (hrep : rootFn uf = rootFn sm.uf) : Inv G E { sm with uf := uf } gs := by
  refine ⟨h.gbound, h.ebound, hok, h.order_eq, h.perm, ?_, h.topo, ?_, ?_, ?_, h.preds_bound, ?_⟩
  · show Layout sm.sgIdx sm.sgLen (rootFn uf) 0 gs
    rw [hrep]; exact h.layout
  · show ∀ r, r < sm.n → rootFn uf r = r → _
    rw [hrep]; exact h.preds
  · show ∀ r, r < sm.n → rootFn uf r = r → _
    rw [hrep]; exact h.enemies
  · show ∀ a b, (a, b) ∈ E → rootFn uf a ≠ rootFn uf b
    rw [hrep]; exact h.apart
  · show ∀ r ps, r < sm.n → rootFn uf r = r → _
    rw [hrep]; exact h.preds_noself

/-- an enemy pair joins the classes of representatives `a` and `b` -/
def EnemyConflict (E : List (Nat × Nat)) (sm : SM) (a b : Nat) : Prop :=
  ∃ x y, ((x, y) ∈ E ∨ (y, x) ∈ E) ∧ rootFn sm.uf x = a ∧ rootFn sm.uf y = b

theorem Inv.enemy_check (h : Inv G E sm gs) {a : Nat} (ha : a < sm.n) (hra : rootFn sm.uf a = a)
    (b : Nat) :
    enemyHas sm.enemies a b = true ↔ EnemyConflict E sm a b := by
  unfold EnemyConflict enemyHas
  rw [← h.enemies a ha hra b]
  unfold getL
  cases sm.enemies a with
  | none => simp
  | some s => simp

theorem MergeCycle.idx_lt (h : Inv G E sm gs) {u v : Nat} (hc : MergeCycle G sm u v) :
    getN sm.sgIdx u < getN sm.sgIdx v := by
  obtain ⟨x, _, hux, hxv⟩ := hc
  exact Nat.lt_of_lt_of_le (h.qe_idx_lt hux) (h.qstar_idx_le hxv)

/-- distinct representatives have distinct, positive-length ranges -/
theorem Inv.idx_ne (h : Inv G E sm gs) {a b : Nat} (ha : a < sm.n) (hb : b < sm.n)
    (hra : rootFn sm.uf a = a) (hrb : rootFn sm.uf b = b) (hab : a ≠ b) :
    getN sm.sgIdx a ≠ getN sm.sgIdx b := by
  obtain ⟨A, ra, M, rb, B, hgs | hgs⟩ := h.two_groups ha hb hra hrb hab
  · obtain ⟨hi1, _, hi2, _⟩ := h.ordered_groups hgs
    simp only [getN, hi1, hi2, Option.getD_some, List.length_cons]; omega
  · obtain ⟨hi1, _, hi2, _⟩ := h.ordered_groups hgs
    simp only [getN, hi1, hi2, Option.getD_some, List.length_cons]; omega

theorem Inv.len_pos (h : Inv G E sm gs) {a : Nat} (ha : a < sm.n) (hra : rootFn sm.uf a = a) :
    0 < getN sm.sgLen a := by
  obtain ⟨_, rest, _, _, _, hl, _⟩ := h.rep_group ha hra
  simp [getN, hl]

/-- Which of the three outcomes `try_merge` takes before step 2, in terms of the invariant's
abstract data.  `a`, `b` are the representatives of the arguments. -/
theorem tryMerge_cases (h : Inv G E sm gs) {u0 v0 : Nat} (hu0 : u0 < sm.n) (hv0 : v0 < sm.n)
    {a b : Nat} (hadef : rootFn sm.uf u0 = a) (hbdef : rootFn sm.uf v0 = b) :
    (a = b → (sm.tryMerge u0 v0).2 = .merged ∧
      ∃ uf, (sm.tryMerge u0 v0).1 = { sm with uf := uf } ∧ UFOk sm.n uf ∧ rootFn uf = rootFn sm.uf) ∧
    (a ≠ b → (EnemyConflict E sm a b ∨ MergeCycle G sm a b ∨ MergeCycle G sm b a) →
      (sm.tryMerge u0 v0).2 = .refused ∧
      ∃ uf, (sm.tryMerge u0 v0).1 = { sm with uf := uf } ∧ UFOk sm.n uf ∧ rootFn uf = rootFn sm.uf) ∧
    (a ≠ b → ¬ (EnemyConflict E sm a b ∨ MergeCycle G sm a b ∨ MergeCycle G sm b a) →
      ∃ uf u v, UFOk sm.n uf ∧ rootFn uf = rootFn sm.uf ∧
        ((u = a ∧ v = b) ∨ (u = b ∧ v = a)) ∧ getN sm.sgIdx u < getN sm.sgIdx v ∧
        sm.tryMerge u0 v0 = sm.doMerge uf u v) := by
  obtain ⟨hok1, hr1, hrep1⟩ := findN_rootFn h.ufok hu0
  obtain ⟨hok2, hr2, hrep2⟩ := findN_rootFn hok1 hv0
  rw [hrep1] at hr2 hrep2
  rw [hadef] at hr1
  rw [hbdef] at hr2
  have ha : a < sm.n := by rw [← hadef]; exact rootFn_lt h.ufok hu0
  have hb : b < sm.n := by rw [← hbdef]; exact rootFn_lt h.ufok hv0
  have hra : rootFn sm.uf a = a := by rw [← hadef]; exact rootFn_idem h.ufok u0
  have hrb : rootFn sm.uf b = b := by rw [← hbdef]; exact rootFn_idem h.ufok v0
  refine ⟨?_, ?_, ?_⟩
  · intro hab
    unfold SM.tryMerge
    simp only [hr1, hr2]
    rw [if_pos hab]
    exact ⟨rfl, _, rfl, hok2, hrep2⟩
  · intro hab hcond
    unfold SM.tryMerge
    simp only [hr1, hr2]
    rw [if_neg hab]
    by_cases hen : EnemyConflict E sm a b
    · rw [if_pos ((h.enemy_check ha hra b).2 hen)]
      exact ⟨rfl, _, rfl, hok2, hrep2⟩
    · rw [if_neg (fun hh => hen ((h.enemy_check ha hra b).1 hh))]
      have hcyc : MergeCycle G sm a b ∨ MergeCycle G sm b a := by
        rcases hcond with h1 | h1
        · exact absurd h1 hen
        · exact h1
      by_cases hlt : getN sm.sgIdx a < getN sm.sgIdx b
      · simp only [hlt, if_true]
        have hmc : MergeCycle G sm a b := by
          rcases hcyc with h1 | h1
          · exact h1
          · have := h1.idx_lt h; omega
        have hspec := cycCheck_spec a b (getN sm.sgIdx a) (getN sm.sgIdx b + getN sm.sgLen b) h hok2 hrep2
          ha hb hra hrb hab rfl (by have := h.len_pos hb hrb; omega)
        simp only at hspec
        generalize cycLoop sm.n sm.preds sm.sgIdx (getN sm.sgIdx a) (getN sm.sgIdx b + getN sm.sgLen b) a b
          (sm.n + 1) [b] [b] (findN sm.n (findN sm.n sm.uf u0).1 v0).1 = out at hspec
        obtain ⟨uf', r⟩ := out
        have hr : r = .cyc := hspec.2.2.2.2 hmc
        subst hr
        exact ⟨rfl, _, rfl, hspec.1, hspec.2.1⟩
      · simp only [hlt, if_false]
        have hmc : MergeCycle G sm b a := by
          rcases hcyc with h1 | h1
          · have := h1.idx_lt h; omega
          · exact h1
        have hlt' : getN sm.sgIdx b < getN sm.sgIdx a := by
          have := h.idx_ne ha hb hra hrb hab; omega
        have hspec := cycCheck_spec b a (getN sm.sgIdx b) (getN sm.sgIdx a + getN sm.sgLen a) h hok2 hrep2
          hb ha hrb hra (Ne.symm hab) rfl (by have := h.len_pos ha hra; omega)
        simp only at hspec
        generalize cycLoop sm.n sm.preds sm.sgIdx (getN sm.sgIdx b) (getN sm.sgIdx a + getN sm.sgLen a) b a
          (sm.n + 1) [a] [a] (findN sm.n (findN sm.n sm.uf u0).1 v0).1 = out at hspec
        obtain ⟨uf', r⟩ := out
        have hr : r = .cyc := hspec.2.2.2.2 hmc
        subst hr
        exact ⟨rfl, _, rfl, hspec.1, hspec.2.1⟩
  · intro hab hcond
    have hen : ¬ EnemyConflict E sm a b := fun hh => hcond (Or.inl hh)
    unfold SM.tryMerge
    simp only [hr1, hr2]
    rw [if_neg hab, if_neg (fun hh => hen ((h.enemy_check ha hra b).1 hh))]
    by_cases hlt : getN sm.sgIdx a < getN sm.sgIdx b
    · simp only [hlt, if_true]
      have hspec := cycCheck_spec a b (getN sm.sgIdx a) (getN sm.sgIdx b + getN sm.sgLen b) h hok2 hrep2
        ha hb hra hrb hab rfl (by have := h.len_pos hb hrb; omega)
      simp only at hspec
      generalize cycLoop sm.n sm.preds sm.sgIdx (getN sm.sgIdx a) (getN sm.sgIdx b + getN sm.sgLen b) a b
        (sm.n + 1) [b] [b] (findN sm.n (findN sm.n sm.uf u0).1 v0).1 = out at hspec
      obtain ⟨uf', r⟩ := out
      cases r with
      | cyc => exact absurd (Or.inr (Or.inl (hspec.2.2.2.1 rfl))) hcond
      | fuel => exact absurd rfl hspec.2.2.1
      | ok => exact ⟨uf', a, b, hspec.1, hspec.2.1, Or.inl ⟨rfl, rfl⟩, hlt, rfl⟩
    · simp only [hlt, if_false]
      have hlt' : getN sm.sgIdx b < getN sm.sgIdx a := by
        have := h.idx_ne ha hb hra hrb hab; omega
      have hspec := cycCheck_spec b a (getN sm.sgIdx b) (getN sm.sgIdx a + getN sm.sgLen a) h hok2 hrep2
        hb ha hrb hra (Ne.symm hab) rfl (by have := h.len_pos ha hra; omega)
      simp only at hspec
      generalize cycLoop sm.n sm.preds sm.sgIdx (getN sm.sgIdx b) (getN sm.sgIdx a + getN sm.sgLen a) b a
        (sm.n + 1) [a] [a] (findN sm.n (findN sm.n sm.uf u0).1 v0).1 = out at hspec
      obtain ⟨uf', r⟩ := out
      cases r with
      | cyc => exact absurd (Or.inr (Or.inr (hspec.2.2.2.1 rfl))) hcond
      | fuel => exact absurd rfl hspec.2.2.1
      | ok => exact ⟨uf', b, a, hspec.1, hspec.2.1, Or.inr ⟨rfl, rfl⟩, hlt', rfl⟩

theorem doMerge_ne_refused (sm : SM) (uf : Links) (u v : Nat) : (sm.doMerge uf u v).2 ≠ .refused := by
  unfold SM.doMerge SM.resortWindow
  simp only
  split <;> simp

/-- `try_merge` answers `false` exactly when the two groups are distinct and either an enemy pair
joins them or a third group lies on a quotient path between them. -/
theorem tryMerge_refused_iff (h : Inv G E sm gs) {u0 v0 : Nat} (hu0 : u0 < sm.n) (hv0 : v0 < sm.n) :
    (sm.tryMerge u0 v0).2 = .refused ↔
      rootFn sm.uf u0 ≠ rootFn sm.uf v0 ∧
        (EnemyConflict E sm (rootFn sm.uf u0) (rootFn sm.uf v0) ∨
          MergeCycle G sm (rootFn sm.uf u0) (rootFn sm.uf v0) ∨
          MergeCycle G sm (rootFn sm.uf v0) (rootFn sm.uf u0)) := by
  obtain ⟨h1, h2, h3⟩ := tryMerge_cases h hu0 hv0 rfl rfl
  constructor
  · intro hr
    by_cases hab : rootFn sm.uf u0 = rootFn sm.uf v0
    · rw [(h1 hab).1] at hr; cases hr
    · refine ⟨hab, ?_⟩
      apply Classical.byContradiction
      intro hc
      obtain ⟨uf, u, v, _, _, _, _, he⟩ := h3 hab hc
      rw [he] at hr
      exact doMerge_ne_refused _ _ _ _ hr
  · rintro ⟨hab, hc⟩
    exact (h2 hab hc).1

/-- A refused call and a call on two nodes of the same group change nothing but the internal
links of the union-find (path compression): same order, same groups, invariant kept. -/
theorem tryMerge_noop_inv (h : Inv G E sm gs) {u0 v0 : Nat} (hu0 : u0 < sm.n) (hv0 : v0 < sm.n)
    (hr : (sm.tryMerge u0 v0).2 = .refused ∨ rootFn sm.uf u0 = rootFn sm.uf v0) :
    Inv G E (sm.tryMerge u0 v0).1 gs ∧ (sm.tryMerge u0 v0).1.order = sm.order ∧
      rootFn (sm.tryMerge u0 v0).1.uf = rootFn sm.uf ∧
      ((sm.tryMerge u0 v0).2 = .refused ∨ (sm.tryMerge u0 v0).2 = .merged) := by
  obtain ⟨h1, h2, _⟩ := tryMerge_cases h hu0 hv0 rfl rfl
  by_cases hab : rootFn sm.uf u0 = rootFn sm.uf v0
  · obtain ⟨hm, uf, he, hok, hrep⟩ := h1 hab
    rw [he]
    exact ⟨h.with_uf hok hrep, rfl, hrep, Or.inr hm⟩
  · have hr' : (sm.tryMerge u0 v0).2 = .refused := by
      rcases hr with hr | hr
      · exact hr
      · exact absurd hr hab
    have hc := ((tryMerge_refused_iff h hu0 hv0).1 hr').2
    obtain ⟨hm, uf, he, hok, hrep⟩ := h2 hab hc
    rw [he]
    exact ⟨h.with_uf hok hrep, rfl, hrep, Or.inl hm⟩

end
end HvGraphAlg
