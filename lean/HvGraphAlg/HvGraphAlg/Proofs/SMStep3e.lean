/-
Step 3 of `try_merge`, part e: the re-sort succeeds and the rebuilt state satisfies the invariant.
-/
import HvGraphAlg.Proofs.SMStep3d
namespace HvGraphAlg

section
variable {G : Nat → List Nat} {E : List (Nat × Nat)} {sm : SM} {gs : List (List Nat)}
  {uf0 : Links} {u v : Nat} {A M B : List (List Nat)} {ru rv : List Nat}

theorem resort_inv (c : MergeCtx G E sm gs uf0 u v)
    (hgs : gs = A ++ (u :: ru) :: (M ++ (v :: rv) :: B)) (w : Win G E sm u v A ru M rv B)
    {S2 : SM} (f : S2Facts G E sm S2 u v A ru M rv B) :
    ∃ gs', (S2.resortWindow u A.flatten.length
        (A.flatten.length + (u :: ru).length + M.flatten.length + (v :: rv).length) (u :: ru) (v :: rv)).2
          = .merged ∧
      Inv G E (S2.resortWindow u A.flatten.length
        (A.flatten.length + (u :: ru).length + M.flatten.length + (v :: rv).length) (u :: ru) (v :: rv)).1 gs' ∧
      rootFn (S2.resortWindow u A.flatten.length
        (A.flatten.length + (u :: ru).length + M.flatten.length + (v :: rv).length) (u :: ru) (v :: rv)).1.uf
          = rep1 sm u v ∧
      (S2.resortWindow u A.flatten.length
        (A.flatten.length + (u :: ru).length + M.flatten.length + (v :: rv).length) (u :: ru) (v :: rv)).1.n
          = sm.n := by
  have hinv := c.inv
  have hgu_pos : 0 < (u :: ru).length := by simp
  have hgv_pos : 0 < (v :: rv).length := by simp
  -- the window
  have hW : ∃ W, W = (u :: ru) ++ (M.flatten ++ (v :: rv)) := ⟨_, rfl⟩
  obtain ⟨W, hWdef⟩ := hW
  have horder : sm.order = A.flatten ++ W ++ B.flatten := by
    rw [w.order_eq, hWdef]; simp [List.append_assoc]
  have hWlen : A.flatten.length + (u :: ru).length + M.flatten.length + (v :: rv).length - A.flatten.length
      = W.length := by
    rw [hWdef]; simp only [List.length_append]; omega
  have hhi : A.flatten.length + (u :: ru).length + M.flatten.length + (v :: rv).length =
      (A.flatten ++ W).length := by
    rw [hWdef]; simp only [List.length_append]; omega
  have e_W : slice S2.order A.flatten.length
      (A.flatten.length + (u :: ru).length + M.flatten.length + (v :: rv).length - A.flatten.length) = W := by
    rw [f.order_eq, horder, hWlen]; exact slice_append _ _ _
  have e_take : S2.order.take A.flatten.length = A.flatten := by
    rw [f.order_eq, horder, List.append_assoc, List.take_left]
  have e_drop : S2.order.drop (A.flatten.length + (u :: ru).length + M.flatten.length + (v :: rv).length)
      = B.flatten := by
    rw [f.order_eq, horder, hhi, List.drop_left]
  have hnd_order := hinv.nodup
  rw [horder] at hnd_order
  have hW_nd : W.Nodup := (List.nodup_append.1 (List.nodup_append.1 hnd_order).1).2.1
  have hWlt : ∀ k ∈ W, k < sm.n := by
    intro k hk
    apply hinv.mem_order.1
    rw [horder]; simp [hk]
  -- `rep1` of a window node is a window representative
  have hWrep : ∀ y ∈ W, WR u M (rep1 sm u v y) := by
    intro y hy
    rw [hWdef] at hy
    rcases List.mem_append.1 hy with h | h
    · left; unfold rep1; rw [w.rep_u y h]; simp [c.huv]
    · rcases List.mem_append.1 h with h | h
      · obtain ⟨mg, hmg, hymg⟩ := List.mem_flatten.1 h
        obtain ⟨hd, rest, hmg', _, hv', _, _, hrep, _⟩ := w.mid_group c hgs hmg
        right
        refine ⟨mg, hmg, ?_⟩
        unfold rep1; rw [hrep y hymg]; simp [hv', hmg']
      · left; unfold rep1; rw [w.rep_v y h]; simp
  obtain ⟨hok3, hmap3, hrep3⟩ := mapFind_rootFn f.ufok hWlt
  rw [f.rep] at hmap3 hrep3
  -- the stateful predecessor closure computes `winP`
  have hP : ∀ (s : Links) k, (UFOk sm.n s ∧ rootFn s = rep1 sm u v) →
      (windowPreds sm.n S2.preds S2.sgIdx A.flatten.length
        (A.flatten.length + (u :: ru).length + M.flatten.length + (v :: rv).length) s k).2 =
      winP sm S2 u v A.flatten.length
        (A.flatten.length + (u :: ru).length + M.flatten.length + (v :: rv).length) k := by
    intro s k hs
    obtain ⟨_, hm, _⟩ := mapFind_rootFn hs.1 (f.pbound k)
    unfold windowPreds winP
    simp only [hm, hs.2]
  have hI : ∀ (s : Links) k, (UFOk sm.n s ∧ rootFn s = rep1 sm u v) →
      (UFOk sm.n (windowPreds sm.n S2.preds S2.sgIdx A.flatten.length
        (A.flatten.length + (u :: ru).length + M.flatten.length + (v :: rv).length) s k).1 ∧
       rootFn (windowPreds sm.n S2.preds S2.sgIdx A.flatten.length
        (A.flatten.length + (u :: ru).length + M.flatten.length + (v :: rv).length) s k).1 = rep1 sm u v) := by
    intro s k hs
    obtain ⟨h1, _, h3⟩ := mapFind_rootFn hs.1 (f.pbound k)
    exact ⟨h1, by rw [← hs.2]; exact h3⟩
  have hids : ∀ i ∈ toSortedSet (mapFind sm.n S2.uf W).2, WR u M i := by
    intro i hi
    rw [mem_toSortedSet, hmap3, List.mem_map] at hi
    obtain ⟨y, hy, rfl⟩ := hi
    exact hWrep y hy
  have hspec := topoSortS_spec
    (windowPreds sm.n S2.preds S2.sgIdx A.flatten.length
      (A.flatten.length + (u :: ru).length + M.flatten.length + (v :: rv).length))
    (P := winP sm S2 u v A.flatten.length
      (A.flatten.length + (u :: ru).length + M.flatten.length + (v :: rv).length))
    (R := WR u M) (I := fun s => UFOk sm.n s ∧ rootFn s = rep1 sm u v) (n := sm.n)
    hP hI (fun x hx p hp => f.pspec x p hx hp) (fun x hx => (f.wr x hx).1)
    (toSortedSet (mapFind sm.n S2.uf W).2) (mapFind sm.n S2.uf W).1 hids ⟨hok3, hrep3⟩
  unfold SM.resortWindow
  simp only [f.n_eq, e_W, e_take, e_drop]
  generalize topoSortS sm.n (toSortedSet (mapFind sm.n S2.uf W).2)
    (windowPreds sm.n S2.preds S2.sgIdx A.flatten.length
      (A.flatten.length + (u :: ru).length + M.flatten.length + (v :: rv).length))
    (mapFind sm.n S2.uf W).1 = out at hspec
  obtain ⟨r, uf4⟩ := out
  cases r with
  | fuel => exact absurd hspec id
  | cyc cyc => exact absurd (f.acyc cyc hspec.1 hspec.2.1) id
  | ok sorted =>
    obtain ⟨hnd, hresp, hidsub, hWR, hok4, hrep4⟩ := hspec
    simp only
    rw [rebuildBuf_eq]
    -- the groups laid out by the re-sort
    have hF : (fun g => if g = u then (u :: ru) ++ (v :: rv) else slice S2.order (getN S2.sgIdx g) (getN S2.sgLen g))
        = winGroup sm S2 u (u :: ru) (v :: rv) := rfl
    rw [hF]
    generalize hFdef : winGroup sm S2 u (u :: ru) (v :: rv) = F
    have hwr : ∀ g, WR u M g → g < sm.n ∧ rep1 sm u v g = g ∧ g ≠ v ∧
        inWin A.flatten.length (A.flatten.length + (u :: ru).length + M.flatten.length + (v :: rv).length)
          (getN S2.sgIdx g) = true ∧
        ∃ rest, F g = g :: rest ∧ S2.sgLen g = some (F g).length ∧
          (∀ y ∈ F g, y < sm.n ∧ rep1 sm u v y = g) ∧ (F g).Pairwise (NoBack G) ∧ (F g).Nodup ∧
          (∀ y ∈ F g, y ∈ W) ∧ (g ≠ u → F g ∈ M) := by
      intro g hg; rw [← hFdef, hWdef]; exact f.wr g hg
    -- membership in the rebuilt window
    have hM_nd : M.flatten.Nodup := by
      rw [hWdef] at hW_nd
      exact (List.nodup_append.1 (List.nodup_append.1 hW_nd).2.1).1
    have hu_sorted : ∀ y ∈ W, rep1 sm u v y ∈ sorted := by
      intro y hy
      apply hidsub
      rw [mem_toSortedSet, hmap3, List.mem_map]
      exact ⟨y, hy, rfl⟩
    have hmem : ∀ y, y ∈ (sorted.map F).flatten ↔ y ∈ W := by
      intro y
      constructor
      · intro hy
        obtain ⟨l, hl, hyl⟩ := List.mem_flatten.1 hy
        obtain ⟨g, hg, rfl⟩ := List.mem_map.1 hl
        obtain ⟨_, _, _, _, _, _, _, _, _, _, hsub, _⟩ := hwr g (hWR g hg)
        exact hsub y hyl
      · intro hy
        have hg := hu_sorted y hy
        refine List.mem_flatten.2 ⟨F (rep1 sm u v y), List.mem_map.2 ⟨_, hg, rfl⟩, ?_⟩
        obtain ⟨_, _, _, _, rest, hFg, _, hrepF, _, _, _, hFM⟩ := hwr _ (hWR _ hg)
        have hy' := hy
        rw [hWdef] at hy'
        by_cases hgu : rep1 sm u v y = u
        · rw [hgu, ← hFdef]
          simp only [winGroup, if_true]
          rcases List.mem_append.1 hy' with h | h
          · exact List.mem_append_left _ h
          · rcases List.mem_append.1 h with h | h
            · exfalso
              obtain ⟨mg, hmg, hymg⟩ := List.mem_flatten.1 h
              obtain ⟨hd, rest', hmg', hu', hv', _, _, hrep, _⟩ := w.mid_group c hgs hmg
              have : rep1 sm u v y = hd := by unfold rep1; rw [hrep y hymg]; simp [hv']
              exact hu' (this.symm.trans hgu)
            · exact List.mem_append_right _ h
        · have hFM' := hFM hgu
          rcases List.mem_append.1 hy' with h | h
          · exfalso; apply hgu; unfold rep1; rw [w.rep_u y h]; simp [c.huv]
          · rcases List.mem_append.1 h with h | h
            · obtain ⟨mg, hmg, hymg⟩ := List.mem_flatten.1 h
              obtain ⟨hd, rest', hmg', hu', hv', _, _, hrep, _⟩ := w.mid_group c hgs hmg
              have hyd : rep1 sm u v y = hd := by unfold rep1; rw [hrep y hymg]; simp [hv']
              have : mg = F (rep1 sm u v y) :=
                flatten_nodup_unique (r := hd) M hM_nd mg hmg _ hFM' (by rw [hmg']; simp)
                  (by rw [hFg, hyd]; simp)
              rw [← this]; exact hymg
            · exfalso; apply hgu; unfold rep1; rw [w.rep_v y h]; simp
    have hbuf_nd : (sorted.map F).flatten.Nodup := by
      unfold List.Nodup
      rw [List.pairwise_flatten]
      constructor
      · intro l hl
        obtain ⟨g, hg, rfl⟩ := List.mem_map.1 hl
        obtain ⟨_, _, _, _, _, _, _, _, _, hn, _⟩ := hwr g (hWR g hg)
        exact hn
      · rw [List.pairwise_map]
        apply List.Pairwise.imp_of_mem _ hnd
        intro a b ha hb hab x hx y hy hxy
        subst hxy
        obtain ⟨_, _, _, _, _, _, _, hra, _⟩ := hwr a (hWR a ha)
        obtain ⟨_, _, _, _, _, _, _, hrb, _⟩ := hwr b (hWR b hb)
        exact hab ((hra x hx).2.symm.trans (hrb x hy).2)
    have hperm : ((sorted.map F).flatten).Perm W := perm_of_nodup_mem_iff hbuf_nd hW_nd hmem
    have hlen : (sorted.map F).flatten.length = W.length := hperm.length_eq
    -- the relation between old and new positions of window representatives
    have hwin_idx : ∀ g, WR u M g → A.flatten.length ≤ getN S2.sgIdx g ∧
        getN S2.sgIdx g < A.flatten.length + (u :: ru).length + M.flatten.length + (v :: rv).length := by
      intro g hg
      obtain ⟨_, _, _, hin, _⟩ := hwr g hg
      simpa [inWin] using hin
    refine ⟨A ++ (sorted.map F ++ B), trivial, ?_, hrep4, trivial⟩
    have hpw_old := hinv.topo
    rw [horder] at hpw_old
    obtain ⟨hpAW, hpB, hcrossB⟩ := List.pairwise_append.1 hpw_old
    obtain ⟨hpA, hpW, hcrossA⟩ := List.pairwise_append.1 hpAW
    refine ⟨hinv.gbound, hinv.ebound, hok4, ?_, ?_, ?_, ?_, ?_, ?_, ?_, f.pbound', ?_⟩
    · -- order = gs'.flatten
      show A.flatten ++ (sorted.map F).flatten ++ B.flatten = _
      simp [List.flatten_append, List.append_assoc]
    · -- permutation of the nodes
      show (A.flatten ++ (sorted.map F).flatten ++ B.flatten).Perm (List.range sm.n)
      refine List.Perm.trans ?_ hinv.perm
      rw [horder]
      exact (List.Perm.append_left _ hperm).append_right _
    · -- layout
      show Layout (assignIdx S2.sgLen sorted A.flatten.length S2.sgIdx) S2.sgLen (rootFn uf4) 0
        (A ++ (sorted.map F ++ B))
      rw [hrep4, Layout.append, Layout.append]
      have hnotsorted : ∀ r, (A.flatten.length ≤ getN sm.sgIdx r →
          getN sm.sgIdx r < A.flatten.length + (u :: ru).length + M.flatten.length + (v :: rv).length → False) →
          r ≠ v → r ∉ sorted := by
        intro r hr hrv hs
        have := hwin_idx r (hWR r hs)
        unfold getN at this
        rw [f.idx_ne r hrv] at this
        exact hr this.1 this.2
      refine ⟨?_, ?_, ?_⟩
      · apply Layout.congr A 0 _ _ w.layA
        · intro g hg r hr
          obtain ⟨r0, rest0, hg0, _⟩ := w.layA.group g hg
          have e : r0 = r := by rw [hg0] at hr; simpa using hr
          subst e
          obtain ⟨i, hi, _, hi2⟩ := w.layA.idx_bounds r0 rest0 (hg0 ▸ hg)
          have hrv' : r0 ≠ v := by
            intro h; subst h
            rw [w.idx_v] at hi; injection hi with hi
            simp only [List.length_cons] at hi2; omega
          have hru' : r0 ≠ u := by
            intro h; subst h
            rw [w.idx_u] at hi; injection hi with hi
            simp only [List.length_cons] at hi2; omega
          refine ⟨?_, f.len_ne r0 hru' hrv'⟩
          rw [assignIdx_not_mem, f.idx_ne r0 hrv']
          apply hnotsorted r0 _ hrv'
          intro h1 _
          simp only [getN, hi, Option.getD_some, List.length_cons] at h1 hi2
          omega
        · intro g hg y hy
          obtain ⟨r0, rest0, hg0, hr0⟩ := w.layA.group g hg
          obtain ⟨i, hi, _, hi2⟩ := w.layA.idx_bounds r0 rest0 (hg0 ▸ hg)
          have hrv' : r0 ≠ v := by
            intro h; subst h
            rw [w.idx_v] at hi; injection hi with hi
            simp only [List.length_cons] at hi2; omega
          unfold rep1; rw [hr0 y hy]; simp [hrv']
      · simp only [Nat.zero_add]
        apply assignIdx_layout S2.sgLen (rep1 sm u v) F sorted _ _ hnd
        intro g hg
        obtain ⟨_, _, _, _, rest, hFg, hlen', hrepF, _⟩ := hwr g (hWR g hg)
        exact ⟨rest, hFg, hlen', fun y hy => (hrepF y hy).2⟩
      · rw [hlen, Nat.zero_add]
        have hpos : A.flatten.length + W.length =
            A.flatten.length + (u :: ru).length + M.flatten.length + (v :: rv).length := by
          rw [hWdef]; simp only [List.length_append]; omega
        rw [hpos]
        apply Layout.congr B _ _ _ w.layB
        · intro g hg r hr
          obtain ⟨r0, rest0, hg0, _⟩ := w.layB.group g hg
          have e : r0 = r := by rw [hg0] at hr; simpa using hr
          subst e
          obtain ⟨i, hi, hi1, _⟩ := w.layB.idx_bounds r0 rest0 (hg0 ▸ hg)
          have hrv' : r0 ≠ v := by
            intro h; subst h
            rw [w.idx_v] at hi; injection hi with hi
            omega
          have hru' : r0 ≠ u := by
            intro h; subst h
            rw [w.idx_u] at hi; injection hi with hi
            omega
          refine ⟨?_, f.len_ne r0 hru' hrv'⟩
          rw [assignIdx_not_mem, f.idx_ne r0 hrv']
          apply hnotsorted r0 _ hrv'
          intro _ h2
          simp only [getN, hi, Option.getD_some] at h2
          omega
        · intro g hg y hy
          obtain ⟨r0, rest0, hg0, hr0⟩ := w.layB.group g hg
          obtain ⟨i, hi, hi1, _⟩ := w.layB.idx_bounds r0 rest0 (hg0 ▸ hg)
          have hrv' : r0 ≠ v := by
            intro h; subst h
            rw [w.idx_v] at hi; injection hi with hi
            omega
          unfold rep1; rw [hr0 y hy]; simp [hrv']
    · -- topological order
      show (A.flatten ++ (sorted.map F).flatten ++ B.flatten).Pairwise (NoBack G)
      rw [List.pairwise_append, List.pairwise_append]
      refine ⟨⟨hpA, ?_, ?_⟩, hpB, ?_⟩
      · rw [List.pairwise_flatten]
        constructor
        · intro l hl
          obtain ⟨g, hg, rfl⟩ := List.mem_map.1 hl
          obtain ⟨_, _, _, _, _, _, _, _, hp, _⟩ := hwr g (hWR g hg)
          exact hp
        · rw [List.pairwise_map]
          have hboth := (List.Pairwise.and hnd (resp_pairwise hresp hnd))
          apply List.Pairwise.imp_of_mem _ hboth
          intro a b ha hb hab x hx y hy hyx
          obtain ⟨_, _, _, _, _, _, _, hra, _⟩ := hwr a (hWR a ha)
          obtain ⟨_, _, _, _, _, _, _, hrb, _⟩ := hwr b (hWR b hb)
          exact hab.2 (f.pedge a b (hWR a ha) (hWR b hb) (Ne.symm hab.1) x y (hra x hx).1 (hra x hx).2 hyx
            (hrb y hy).2)
      · intro a ha b hb
        exact hcrossA a ha b ((hmem b).1 hb)
      · intro a ha b hb
        rcases List.mem_append.1 ha with h | h
        · exact hcrossB a (List.mem_append_left _ h) b hb
        · exact hcrossB a (List.mem_append_right _ ((hmem a).1 h)) b hb
    · -- predecessor lists
      show ∀ r, r < sm.n → rootFn uf4 r = r → _
      rw [hrep4]
      intro r hr hrr
      obtain ⟨ps, h1, h2, _, h4⟩ := f.preds r hr hrr
      exact ⟨ps, h1, h2, h4⟩
    · show ∀ r, r < sm.n → rootFn uf4 r = r → _
      rw [hrep4]
      exact f.enemies
    · show ∀ a b, (a, b) ∈ E → rootFn uf4 a ≠ rootFn uf4 b
      rw [hrep4]
      exact step2_apart c
    · show ∀ r ps, r < sm.n → rootFn uf4 r = r → S2.preds r = some ps → ∀ p ∈ ps, rootFn uf4 p ≠ r
      rw [hrep4]
      intro r ps hr hrr hps p hp
      obtain ⟨ps', h1, _, h3, _⟩ := f.preds r hr hrr
      rw [hps] at h1; injection h1 with h1; subst h1
      exact h3 p hp

end
end HvGraphAlg
