/-
`try_merge` preserves the invariant; whole merge sequences.
-/
import HvGraphAlg.Proofs.SMStep3e
namespace HvGraphAlg

section
variable {G : Nat → List Nat} {E : List (Nat × Nat)} {sm : SM} {gs : List (List Nat)}
  {uf0 : Links} {u v : Nat}

/-- steps 2 and 3 succeed and re-establish the invariant -/
theorem doMerge_inv (c : MergeCtx G E sm gs uf0 u v) :
    ∃ gs', (sm.doMerge uf0 u v).2 = .merged ∧ Inv G E (sm.doMerge uf0 u v).1 gs' ∧
      rootFn (sm.doMerge uf0 u v).1.uf = rep1 sm u v ∧ (sm.doMerge uf0 u v).1.n = sm.n := by
  obtain ⟨A, ru, M, rv, B, hgs⟩ := c.decomp
  have w := c.win hgs
  have f := s2_facts c hgs w
  have e1 : getN sm.sgIdx u = A.flatten.length := by simp [getN, w.idx_u]
  have e2 : getN sm.sgLen u = (u :: ru).length := by simp [getN, w.len_u]
  have e3 : getN sm.sgIdx v = A.flatten.length + (u :: ru).length + M.flatten.length := by
    simp [getN, w.idx_v]
  have e4 : getN sm.sgLen v = (v :: rv).length := by simp [getN, w.len_v]
  have e5 : slice sm.order A.flatten.length (u :: ru).length = u :: ru := by
    rw [w.order_eq]
    have : A.flatten ++ ((u :: ru) ++ (M.flatten ++ ((v :: rv) ++ B.flatten))) =
        A.flatten ++ (u :: ru) ++ (M.flatten ++ ((v :: rv) ++ B.flatten)) := by
      simp [List.append_assoc]
    rw [this]; exact slice_append _ _ _
  have e6 : slice sm.order (A.flatten.length + (u :: ru).length + M.flatten.length) (v :: rv).length
      = v :: rv := by
    rw [w.order_eq]
    have : A.flatten ++ ((u :: ru) ++ (M.flatten ++ ((v :: rv) ++ B.flatten))) =
        (A.flatten ++ (u :: ru) ++ M.flatten) ++ (v :: rv) ++ B.flatten := by
      simp [List.append_assoc]
    rw [this]
    have hl : A.flatten.length + (u :: ru).length + M.flatten.length =
        (A.flatten ++ (u :: ru) ++ M.flatten).length := by simp only [List.length_append]
    rw [hl]; exact slice_append _ _ _
  have e : sm.doMerge uf0 u v = (sm.mergeStep2 uf0 u v).resortWindow u A.flatten.length
      (A.flatten.length + (u :: ru).length + M.flatten.length + (v :: rv).length) (u :: ru) (v :: rv) := by
    unfold SM.doMerge
    simp only [e1, e2, e3, e4, e5, e6]
  rw [e]
  exact resort_inv c hgs w f

/-- `try_merge`: the invariant is preserved, the `expect("bug: …")` is never hit, and the
representative function changes exactly by joining the two classes (when the answer is `true`)
or not at all (when it is `false`). -/
theorem tryMerge_inv (h : Inv G E sm gs) {u0 v0 : Nat} (hu0 : u0 < sm.n) (hv0 : v0 < sm.n) :
    ∃ gs', Inv G E (sm.tryMerge u0 v0).1 gs' ∧ (sm.tryMerge u0 v0).1.n = sm.n ∧
      (((sm.tryMerge u0 v0).2 = .refused ∧ gs' = gs ∧ (sm.tryMerge u0 v0).1.order = sm.order ∧
          rootFn (sm.tryMerge u0 v0).1.uf = rootFn sm.uf) ∨
       ((sm.tryMerge u0 v0).2 = .merged ∧ ∀ x y,
          rootFn (sm.tryMerge u0 v0).1.uf x = rootFn (sm.tryMerge u0 v0).1.uf y ↔
            (rootFn sm.uf x = rootFn sm.uf y ∨
              ((rootFn sm.uf x = rootFn sm.uf u0 ∨ rootFn sm.uf x = rootFn sm.uf v0) ∧
               (rootFn sm.uf y = rootFn sm.uf u0 ∨ rootFn sm.uf y = rootFn sm.uf v0))))) := by
  obtain ⟨h1, h2, h3⟩ := tryMerge_cases h hu0 hv0 rfl rfl
  by_cases hab : rootFn sm.uf u0 = rootFn sm.uf v0
  · obtain ⟨hm, uf, he, hok, hrep⟩ := h1 hab
    refine ⟨gs, ?_, ?_, Or.inr ⟨hm, ?_⟩⟩
    · rw [he]; exact h.with_uf hok hrep
    · rw [he]
    · intro x y
      rw [he]
      show rootFn uf x = rootFn uf y ↔ _
      rw [hrep, ← hab]
      constructor
      · exact Or.inl
      · rintro (hxy | ⟨hx, hy⟩)
        · exact hxy
        · have hx' : rootFn sm.uf x = rootFn sm.uf u0 := by rcases hx with h | h <;> exact h
          have hy' : rootFn sm.uf y = rootFn sm.uf u0 := by rcases hy with h | h <;> exact h
          rw [hx', hy']
  · by_cases hc : EnemyConflict E sm (rootFn sm.uf u0) (rootFn sm.uf v0) ∨
        MergeCycle G sm (rootFn sm.uf u0) (rootFn sm.uf v0) ∨
        MergeCycle G sm (rootFn sm.uf v0) (rootFn sm.uf u0)
    · obtain ⟨hm, uf, he, hok, hrep⟩ := h2 hab hc
      refine ⟨gs, ?_, ?_, Or.inl ⟨hm, rfl, ?_, ?_⟩⟩
      · rw [he]; exact h.with_uf hok hrep
      · rw [he]
      · rw [he]
      · rw [he]; exact hrep
    · obtain ⟨uf, u, v, hok, hrep, huv, hlt, he⟩ := h3 hab hc
      have ha : rootFn sm.uf u0 < sm.n := rootFn_lt h.ufok hu0
      have hb : rootFn sm.uf v0 < sm.n := rootFn_lt h.ufok hv0
      have hra := rootFn_idem h.ufok u0
      have hrb := rootFn_idem h.ufok v0
      have hne : ¬ EnemyConflict E sm (rootFn sm.uf u0) (rootFn sm.uf v0) := fun hh => hc (Or.inl hh)
      have c : MergeCtx G E sm gs uf u v := by
        rcases huv with ⟨rfl, rfl⟩ | ⟨rfl, rfl⟩
        · exact ⟨h, hok, hrep, ha, hb, hra, hrb, hab, hlt, fun hh => hc (Or.inr (Or.inl hh)), hne⟩
        · exact ⟨h, hok, hrep, hb, ha, hrb, hra, Ne.symm hab, hlt, fun hh => hc (Or.inr (Or.inr hh)),
            fun hh => hne hh.symm⟩
      obtain ⟨gs', hm, hinv', hrep', hn'⟩ := doMerge_inv c
      rw [he]
      refine ⟨gs', hinv', hn', Or.inr ⟨hm, ?_⟩⟩
      intro x y
      rw [hrep']
      unfold rep1
      rcases huv with ⟨rfl, rfl⟩ | ⟨rfl, rfl⟩
      · generalize rootFn sm.uf x = rx
        generalize rootFn sm.uf y = ry
        generalize rootFn sm.uf u0 = a at hab
        generalize rootFn sm.uf v0 = b at hab
        by_cases hx : rx = b <;> by_cases hy : ry = b <;> simp only [hx, hy, if_true, if_false] <;> grind
      · generalize rootFn sm.uf x = rx
        generalize rootFn sm.uf y = ry
        generalize rootFn sm.uf u0 = a at hab
        generalize rootFn sm.uf v0 = b at hab
        by_cases hx : rx = a <;> by_cases hy : ry = a <;> simp only [hx, hy, if_true, if_false] <;> grind

/-- a sequence of `try_merge` calls -/
def runMerges (sm : SM) : List (Nat × Nat) → SM
  | [] => sm
  | (a, b) :: rest => runMerges (sm.tryMerge a b).1 rest

theorem runMerges_inv : ∀ (ops : List (Nat × Nat)) (sm : SM) (gs : List (List Nat)),
    Inv G E sm gs → (∀ p ∈ ops, p.1 < sm.n ∧ p.2 < sm.n) →
    ∃ gs', Inv G E (runMerges sm ops) gs' ∧ (runMerges sm ops).n = sm.n
  | [], sm, gs, h, _ => ⟨gs, h, rfl⟩
  | (a, b) :: rest, sm, gs, h, hb => by
    obtain ⟨hab, hrest⟩ : (a < sm.n ∧ b < sm.n) ∧ ∀ p ∈ rest, p.1 < sm.n ∧ p.2 < sm.n :=
      ⟨hb (a, b) (by simp), fun p hp => hb p (List.mem_cons_of_mem _ hp)⟩
    obtain ⟨gs1, h1, hn1, _⟩ := tryMerge_inv h hab.1 hab.2
    obtain ⟨gs2, h2, hn2⟩ := runMerges_inv rest _ gs1 h1 (by rw [hn1]; exact hrest)
    exact ⟨gs2, h2, by rw [show runMerges sm ((a, b) :: rest) = runMerges (sm.tryMerge a b).1 rest from rfl, hn2, hn1]⟩

end
end HvGraphAlg
