/-
Correctness of the `UnionFind` model (`Model/UnionFind.lean`): `find` returns the root of the
tree, path compression does not change any root, `union` links one root under the other.
-/
import HvGraphAlg.Model.UnionFind
import HvGraphAlg.Proofs.Topo
namespace HvGraphAlg

/-- the parent of `k` (an absent key behaves as a self link: `find` inserts `k ↦ k`) -/
def par (l : Links) (k : Nat) : Nat := (l k).getD k

/-- `r` is the root reached from `k` by following links -/
inductive RootOf (l : Links) : Nat → Nat → Prop
  | root {r : Nat} : par l r = r → RootOf l r r
  | step {k r : Nat} : par l k ≠ k → RootOf l (par l k) r → RootOf l k r

/-- well-formed link map over keys `< n`: bounded and a forest (a rank decreases along links) -/
structure UFOk (n : Nat) (l : Links) : Prop where
  bound : ∀ k v, l k = some v → k < n ∧ v < n
  rank : ∃ rk : Nat → Nat, ∀ k, par l k ≠ k → rk (par l k) < rk k

theorem par_set (l : Links) (k v x : Nat) : par (l.set k v) x = if x = k then v else par l x := by
  unfold par SMap.set
  by_cases h : x = k <;> simp [h]

theorem RootOf.isRoot {l : Links} {k r : Nat} (h : RootOf l k r) : par l r = r := by
  induction h with
  | root h => exact h
  | step _ _ ih => exact ih

theorem RootOf.unique {l : Links} {k r r' : Nat} (h : RootOf l k r) (h' : RootOf l k r') : r = r' := by
  induction h with
  | root hr =>
    cases h' with
    | root _ => rfl
    | step hne _ => exact absurd hr hne
  | step hne _ ih =>
    cases h' with
    | root hr => exact absurd hr hne
    | step _ h2 => exact ih h2

theorem RootOf.congr {l l' : Links} (hp : ∀ x, par l x = par l' x) {k r : Nat} (h : RootOf l k r) :
    RootOf l' k r := by
  induction h with
  | root hr => exact .root (by rw [← hp]; exact hr)
  | step hne _ ih => exact .step (by rw [← hp]; exact hne) (by rw [← hp]; exact ih)

theorem RootOf.self_of_root {l : Links} {r : Nat} (h : par l r = r) {r' : Nat} (h' : RootOf l r r') : r' = r :=
  (RootOf.unique (.root h) h').symm

theorem RootOf.rank_le {l : Links} {rk : Nat → Nat} (hrk : ∀ k, par l k ≠ k → rk (par l k) < rk k)
    {k r : Nat} (h : RootOf l k r) : rk r ≤ rk k := by
  induction h with
  | root _ => exact Nat.le_refl _
  | step hne _ ih => exact Nat.le_of_lt (Nat.lt_of_le_of_lt ih (hrk _ hne))

theorem RootOf.lt_n {n : Nat} {l : Links} (hok : UFOk n l) {k r : Nat} (h : RootOf l k r) (hk : k < n) :
    r < n := by
  induction h with
  | root _ => exact hk
  | @step k r hne _ ih =>
    apply ih
    unfold par at hne ⊢
    cases hl : l k with
    | none => simp [hl] at hne
    | some v => simp; exact (hok.bound k v hl).2

theorem UFOk.total {n : Nat} {l : Links} (hok : UFOk n l) : ∀ k, ∃ r, RootOf l k r := by
  obtain ⟨rk, hrk⟩ := hok.rank
  intro k
  generalize hm : rk k = m
  induction m using Nat.strongRecOn generalizing k with
  | _ m ih =>
    by_cases hk : par l k = k
    · exact ⟨k, .root hk⟩
    · obtain ⟨r, hr⟩ := ih (rk (par l k)) (by rw [← hm]; exact hrk k hk) (par l k) rfl
      exact ⟨r, .step hk hr⟩

theorem UFOk.empty (n : Nat) : UFOk n SMap.empty :=
  ⟨by intro k v h; simp [SMap.empty] at h, ⟨fun _ => 0, by intro k h; simp [par, SMap.empty] at h⟩⟩

/-- writing a self link at `k` (`insert(k, k)`) keeps the map well-formed -/
theorem UFOk.set_self {n : Nat} {l : Links} (hok : UFOk n l) {k : Nat} (hk : k < n) :
    UFOk n (l.set k k) := by
  refine ⟨?_, ?_⟩
  · intro x v h
    unfold SMap.set at h
    by_cases hx : x = k
    · simp [hx] at h; subst h; subst hx; exact ⟨hk, hk⟩
    · simp [hx] at h; exact hok.bound x v h
  · obtain ⟨rk, hrk⟩ := hok.rank
    refine ⟨rk, ?_⟩
    intro x hx
    rw [par_set] at hx ⊢
    by_cases hxk : x = k
    · simp [hxk] at hx
    · simp [hxk] at hx ⊢; exact hrk x hx

/-- Link lemma: `k` is a root, `t` has root `r ≠ k`; after `links[k] = t` every node whose root was
`k` has root `r`, all other roots are unchanged, and the map is still a forest. -/
theorem link_spec {n : Nat} {l : Links} (hok : UFOk n l) {k t r : Nat} (hkroot : par l k = k)
    (hk : k < n) (ht : t < n) (htr : RootOf l t r) (hrk : r ≠ k) :
    UFOk n (l.set k t) ∧ ∀ j rj, RootOf l j rj → RootOf (l.set k t) j (if rj = k then r else rj) := by
  have htk : t ≠ k := by
    intro h; subst h
    exact hrk (RootOf.self_of_root hkroot htr)
  -- roots other than `k` are unchanged
  have hother : ∀ j rj, RootOf l j rj → rj ≠ k → RootOf (l.set k t) j rj := by
    intro j rj h
    induction h with
    | @root r hr =>
      intro hne
      exact .root (by rw [par_set]; simp [hne, hr])
    | @step j r hne _ ih =>
      intro hrne
      have hjk : j ≠ k := by intro h; subst h; exact hne hkroot
      have hp : par (l.set k t) j = par l j := by rw [par_set]; simp [hjk]
      exact .step (by rw [hp]; exact hne) (by rw [hp]; exact ih hrne)
  have hk' : ∀ j rj, RootOf l j rj → rj = k → RootOf (l.set k t) j r := by
    intro j rj h
    induction h with
    | @root r0 hr =>
      intro he; subst he
      have hp : par (l.set r0 t) r0 = t := by rw [par_set]; simp
      exact .step (by rw [hp]; exact htk) (by rw [hp]; exact hother t r htr hrk)
    | @step j r0 hne _ ih =>
      intro he
      have hjk : j ≠ k := by intro h; subst h; exact hne hkroot
      have hp : par (l.set k t) j = par l j := by rw [par_set]; simp [hjk]
      exact .step (by rw [hp]; exact hne) (by rw [hp]; exact ih he)
  refine ⟨⟨?_, ?_⟩, ?_⟩
  · intro x v h
    unfold SMap.set at h
    by_cases hx : x = k
    · simp [hx] at h; subst h; subst hx; exact ⟨hk, ht⟩
    · simp [hx] at h; exact hok.bound x v h
  · obtain ⟨rk, hrank⟩ := hok.rank
    classical
    refine ⟨fun x => if RootOf l x k then rk x + rk t + 1 else rk x, ?_⟩
    intro x hx
    rw [par_set] at hx ⊢
    by_cases hxk : x = k
    · subst hxk
      simp only [if_true] at hx ⊢
      have h1 : ¬ RootOf l t x := fun h => hrk (RootOf.unique htr h)
      have h2 : RootOf l x x := .root hkroot
      simp only [h1, h2, if_true, if_false]
      omega
    · simp only [hxk, if_false] at hx ⊢
      have hiff : RootOf l (par l x) k ↔ RootOf l x k := by
        constructor
        · intro h; exact .step hx h
        · intro h
          cases h with
          | root hr => exact absurd hr hx
          | step _ h2 => exact h2
      have := hrank x hx
      by_cases hc : RootOf l x k
      · simp only [hc, hiff.2 hc, if_true]; omega
      · have hc' : ¬ RootOf l (par l x) k := fun h => hc (hiff.1 h)
        simp only [hc, hc', if_false]; exact this
  · intro j rj h
    by_cases he : rj = k
    · simp only [he, if_true]; exact hk' j rj h he
    · simp only [he, if_false]; exact hother j rj h he

/-- number of keys below `n` that are not self links -/
def nonSelf (n : Nat) (l : Links) : Nat := cntP n (fun x => par l x != x)

structure FindSpec (n : Nat) (l : Links) (k : Nat) (out : Links × Nat) : Prop where
  ok : UFOk n out.1
  root : RootOf l k out.2
  same : ∀ j rj, RootOf l j rj ↔ RootOf out.1 j rj

theorem findSpec_of_par_eq {n : Nat} {l : Links} (hok : UFOk n l) {k : Nat} (hk : k < n)
    (hroot : par l k = k) : FindSpec n l k (l.set k k, k) := by
  have hp : ∀ x, par l x = par (l.set k k) x := by
    intro x; rw [par_set]; by_cases h : x = k <;> simp [h, hroot]
  exact ⟨hok.set_self hk, .root hroot,
    fun j rj => ⟨RootOf.congr hp, RootOf.congr (fun x => (hp x).symm)⟩⟩

theorem ufFind_spec {n : Nat} : ∀ fuel (l : Links) k, UFOk n l → k < n → nonSelf n l < fuel →
    FindSpec n l k (ufFind fuel l k) := by
  intro fuel
  induction fuel with
  | zero => intro _ _ _ _ h; omega
  | succ fuel ih =>
    intro l k hok hk hfuel
    unfold ufFind
    cases hl : l k with
    | none =>
      exact findSpec_of_par_eq hok hk (by simp [par, hl])
    | some next =>
      by_cases hkn : k = next
      · simp only [hkn, if_true]
        subst hkn
        exact findSpec_of_par_eq hok hk (by simp [par, hl])
      · simp only [hkn, if_false]
        have hpar : par l k = next := by simp [par, hl]
        have hnext : next < n := (hok.bound k next hl).2
        have hok1 : UFOk n (l.set k k) := hok.set_self hk
        have hkroot1 : par (l.set k k) k = k := by rw [par_set]; simp
        have hdec : nonSelf n (l.set k k) < nonSelf n l := by
          apply cntP_lt (k := k) _ hk
          · simp [hpar]; exact fun h => hkn h.symm
          · simp [hkroot1]
          · intro x hx
            rw [par_set] at hx
            by_cases hxk : x = k
            · simp [hxk] at hx
            · simpa [hxk] using hx
        have h1 := ih (l.set k k) next hok1 hnext (by omega)
        generalize ufFind fuel (l.set k k) next = out at h1
        obtain ⟨l2, r⟩ := out
        obtain ⟨hok2, hroot1, hsame12⟩ := h1
        simp only at hok2 hroot1 hsame12 ⊢
        -- `r ≠ k`: the rank of `l` strictly decreases from `k` to `next` and does not increase to `r`
        obtain ⟨rk, hrank⟩ := hok.rank
        have hrank1 : ∀ x, par (l.set k k) x ≠ x → rk (par (l.set k k) x) < rk x := by
          intro x hx
          rw [par_set] at hx ⊢
          by_cases hxk : x = k
          · simp [hxk] at hx
          · simp [hxk] at hx ⊢; exact hrank x hx
        have hrk_le : rk r ≤ rk next := RootOf.rank_le hrank1 hroot1
        have hrk_lt : rk next < rk k := by
          have := hrank k (by rw [hpar]; exact fun h => hkn h.symm)
          rwa [hpar] at this
        have hrk : r ≠ k := by intro h; subst h; omega
        have hr_n : r < n := RootOf.lt_n hok1 hroot1 hnext
        -- `l` is `l1` with `k` linked to `next`
        have hl_eq : l = (l.set k k).set k next := by
          funext x
          unfold SMap.set
          by_cases hx : x = k
          · simp [hx, hl]
          · simp [hx]
        have hA := (link_spec hok1 hkroot1 hk hnext hroot1 hrk).2
        rw [← hl_eq] at hA
        -- the result is `l2` with `k` linked to `r`
        have hkroot2 : par l2 k = k := ((hsame12 k k).1 (.root hkroot1)).isRoot
        have hr_root2 : RootOf l2 r r := (hsame12 r r).1 (.root hroot1.isRoot)
        have hB := link_spec hok2 hkroot2 hk hr_n hr_root2 hrk
        refine ⟨hB.1, ?_, ?_⟩
        · have := hA k k (.root hkroot1)
          simpa using this
        · intro j rj
          obtain ⟨r1, hr1⟩ := hok1.total j
          have hlj := hA j r1 hr1
          have hl'j := hB.2 j r1 ((hsame12 j r1).1 hr1)
          constructor
          · intro h; rw [RootOf.unique h hlj]; exact hl'j
          · intro h; rw [RootOf.unique h hl'j]; exact hlj

theorem nonSelf_le (n : Nat) (l : Links) : nonSelf n l < n + 1 :=
  Nat.lt_succ_of_le (cntP_le_n _ _)

theorem findN_spec {n : Nat} {l : Links} {k : Nat} (hok : UFOk n l) (hk : k < n) :
    FindSpec n l k (findN n l k) :=
  ufFind_spec (n + 1) l k hok hk (nonSelf_le n l)

/-- `union(a, b)`: the result represents both classes by `a`'s old root -/
theorem ufUnion_spec {n : Nat} {l : Links} {a b : Nat} (hok : UFOk n l) (ha : a < n) (hb : b < n) :
    ∃ i j, RootOf l a i ∧ RootOf l b j ∧ (ufUnion n l a b).2 = i ∧ UFOk n (ufUnion n l a b).1 ∧
      ∀ x rx, RootOf l x rx → RootOf (ufUnion n l a b).1 x (if rx = j then i else rx) := by
  unfold ufUnion
  have h1 := findN_spec hok ha
  generalize findN n l a = o1 at h1
  obtain ⟨l1, i⟩ := o1
  obtain ⟨hok1, hri, hs1⟩ := h1
  simp only at hok1 hri hs1 ⊢
  have h2 := findN_spec hok1 hb
  generalize findN n l1 b = o2 at h2
  obtain ⟨l2, j⟩ := o2
  obtain ⟨hok2, hrj, hs2⟩ := h2
  simp only at hok2 hrj hs2 ⊢
  have hrj' : RootOf l b j := (hs1 b j).2 hrj
  have hi_n : i < n := RootOf.lt_n hok hri ha
  have hj_n : j < n := RootOf.lt_n hok hrj' hb
  have hto2 : ∀ x rx, RootOf l x rx → RootOf l2 x rx := fun x rx h => (hs2 x rx).1 ((hs1 x rx).1 h)
  have hjroot2 : par l2 j = j := (hto2 j j (.root hrj'.isRoot)).isRoot
  refine ⟨i, j, hri, hrj', rfl, ?_⟩
  by_cases hij : i = j
  · subst hij
    have hp : ∀ x, par l2 x = par (l2.set i i) x := by
      intro x; rw [par_set]; by_cases h : x = i <;> simp [h, hjroot2]
    refine ⟨hok2.set_self hi_n, ?_⟩
    intro x rx h
    have : (if rx = i then i else rx) = rx := by by_cases h : rx = i <;> simp [h]
    rw [this]
    exact RootOf.congr hp (hto2 x rx h)
  · have hi2 : RootOf l2 i i := hto2 i i (.root hri.isRoot)
    have hL := link_spec hok2 hjroot2 hj_n hi_n hi2 hij
    exact ⟨hL.1, fun x rx h => hL.2 x rx (hto2 x rx h)⟩

theorem ufSame_spec {n : Nat} {l : Links} {a b : Nat} (hok : UFOk n l) (ha : a < n) (hb : b < n) :
    UFOk n (ufSame n l a b).1 ∧ (∀ j rj, RootOf l j rj ↔ RootOf (ufSame n l a b).1 j rj) ∧
      ((ufSame n l a b).2 = true ↔ ∃ r, RootOf l a r ∧ RootOf l b r) := by
  unfold ufSame
  have h1 := findN_spec hok ha
  generalize findN n l a = o1 at h1
  obtain ⟨l1, i⟩ := o1
  obtain ⟨hok1, hri, hs1⟩ := h1
  simp only at hok1 hri hs1 ⊢
  have h2 := findN_spec hok1 hb
  generalize findN n l1 b = o2 at h2
  obtain ⟨l2, j⟩ := o2
  obtain ⟨hok2, hrj, hs2⟩ := h2
  simp only at hok2 hrj hs2 ⊢
  have hrj' : RootOf l b j := (hs1 b j).2 hrj
  refine ⟨hok2, fun x rx => (hs1 x rx).trans (hs2 x rx), ?_⟩
  constructor
  · intro h
    have : i = j := by simpa using h
    subst this
    exact ⟨i, hri, hrj'⟩
  · rintro ⟨r, hra, hrb⟩
    have e1 := RootOf.unique hri hra
    have e2 := RootOf.unique hrj' hrb
    simp [e1, e2]

theorem mapFind_spec {n : Nat} (f : Nat → Nat) : ∀ (ks : List Nat) (l : Links), UFOk n l →
    (∀ k ∈ ks, k < n) → (∀ k ∈ ks, RootOf l k (f k)) →
    UFOk n (mapFind n l ks).1 ∧ (∀ j rj, RootOf l j rj ↔ RootOf (mapFind n l ks).1 j rj) ∧
      (mapFind n l ks).2 = ks.map f
  | [], l, hok, _, _ => ⟨hok, fun _ _ => Iff.rfl, rfl⟩
  | k :: ks, l, hok, hks, hf => by
    unfold mapFind
    have h1 := findN_spec hok (hks k (by simp))
    generalize findN n l k = o1 at h1
    obtain ⟨l1, r⟩ := o1
    obtain ⟨hok1, hr, hs1⟩ := h1
    simp only at hok1 hr hs1 ⊢
    have ih := mapFind_spec f ks l1 hok1 (fun x hx => hks x (List.mem_cons_of_mem _ hx))
      (fun x hx => (hs1 _ _).1 (hf x (List.mem_cons_of_mem _ hx)))
    refine ⟨ih.1, fun j rj => (hs1 j rj).trans (ih.2.1 j rj), ?_⟩
    rw [ih.2.2, List.map_cons, RootOf.unique hr (hf k (by simp))]

end HvGraphAlg
