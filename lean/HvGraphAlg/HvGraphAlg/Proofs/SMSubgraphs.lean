/-
`subgraphs()` yields exactly the invariant's group list.
-/
import HvGraphAlg.Proofs.SMMerge
namespace HvGraphAlg

theorem Layout.length_le {I L : SMap Nat} {rep : Nat → Nat} : ∀ {gs : List (List Nat)} {pos : Nat},
    Layout I L rep pos gs → gs.length ≤ gs.flatten.length
  | [], _, _ => Nat.le_refl _
  | g :: gs, pos, ⟨⟨r, rest, hg, _⟩, ht⟩ => by
    have := Layout.length_le ht
    simp only [List.length_cons, List.flatten_cons, List.length_append, hg]
    omega

theorem subgraphsAux_layout (sm : SM) (rep : Nat → Nat) : ∀ (gs : List (List Nat)) (pre : List Nat) (fuel : Nat),
    sm.order = pre ++ gs.flatten → Layout sm.sgIdx sm.sgLen rep pre.length gs → gs.length ≤ fuel →
    subgraphsAux sm fuel pre.length = some gs
  | [], pre, fuel, ho, _, _ => by
    have hlen : sm.order.length = pre.length := by rw [ho]; simp
    cases fuel with
    | zero => simp [subgraphsAux, hlen]
    | succ f =>
      have : sm.order[pre.length]? = none := by
        rw [List.getElem?_eq_none_iff]; omega
      simp [subgraphsAux, this]
  | g :: t, pre, fuel, ho, ⟨⟨r, rest, hg, hi, hl, _⟩, ht⟩, hf => by
    cases fuel with
    | zero => simp at hf
    | succ f =>
      have ho' : sm.order = (pre ++ g) ++ t.flatten := by rw [ho]; simp
      have hget : sm.order[pre.length]? = some r := by
        rw [ho, hg]; simp
      have hlen : pre.length + g.length ≤ sm.order.length := by
        rw [ho']; simp only [List.length_append]; omega
      have ih := subgraphsAux_layout sm rep t (pre ++ g) f ho'
        (by simpa using ht) (by simp at hf; omega)
      have hsl : slice sm.order pre.length g.length = g := by
        rw [ho']; exact slice_append _ _ _
      simp only [List.length_append] at ih
      simp [subgraphsAux, hget, hl, hi, hlen, ih, hsl]

/-- Under the invariant, `subgraphs()` does not panic and yields the groups in layout order. -/
theorem subgraphs_eq {G : Nat → List Nat} {E : List (Nat × Nat)} {sm : SM} {gs : List (List Nat)}
    (h : Inv G E sm gs) : sm.subgraphs = some gs := by
  unfold SM.subgraphs
  have := subgraphsAux_layout sm (rootFn sm.uf) gs [] (sm.order.length + 1)
    (by simpa using h.order_eq) (by simpa using h.layout)
    (by have := h.layout.length_le; rw [h.order_eq]; omega)
  simpa using this

end HvGraphAlg
