/-
Helper lemmas for steps 2 and 3 of `try_merge` (`SM.doMerge`).
-/
import HvGraphAlg.Proofs.SMRefuse
namespace HvGraphAlg

/-! ### sorted sets, slices, permutations -/

theorem mem_insertSorted {x y : Nat} : ∀ {l : List Nat}, y ∈ insertSorted x l ↔ y = x ∨ y ∈ l
  | [] => by simp [insertSorted]
  | a :: t => by
    unfold insertSorted
    by_cases h1 : x < a
    · simp [h1]
    · by_cases h2 : x = a
      · subst h2; simp
      · simp only [h1, h2, if_false, List.mem_cons, mem_insertSorted (l := t)]
        constructor
        · rintro (h | h | h)
          · exact Or.inr (Or.inl h)
          · exact Or.inl h
          · exact Or.inr (Or.inr h)
        · rintro (h | h | h)
          · exact Or.inr (Or.inl h)
          · exact Or.inl h
          · exact Or.inr (Or.inr h)

theorem mem_foldl_insertSorted {y : Nat} : ∀ (l acc : List Nat),
    y ∈ l.foldl (fun acc x => insertSorted x acc) acc ↔ y ∈ acc ∨ y ∈ l
  | [], acc => by simp
  | a :: t, acc => by
    simp only [List.foldl_cons, mem_foldl_insertSorted t, mem_insertSorted, List.mem_cons]
    constructor
    · rintro ((h | h) | h)
      · exact Or.inr (Or.inl h)
      · exact Or.inl h
      · exact Or.inr (Or.inr h)
    · rintro (h | h | h)
      · exact Or.inl (Or.inr h)
      · exact Or.inl (Or.inl h)
      · exact Or.inr h

theorem mem_toSortedSet {y : Nat} {l : List Nat} : y ∈ toSortedSet l ↔ y ∈ l := by
  unfold toSortedSet
  rw [mem_foldl_insertSorted]; simp

theorem slice_append (pre g post : List Nat) : slice (pre ++ g ++ post) pre.length g.length = g := by
  unfold slice
  rw [List.append_assoc, List.drop_left, List.take_left]

theorem perm_of_nodup_mem_iff {l1 l2 : List Nat} (h1 : l1.Nodup) (h2 : l2.Nodup)
    (h : ∀ x, x ∈ l1 ↔ x ∈ l2) : l1.Perm l2 := by
  rw [List.perm_iff_count]
  intro a
  rw [h1.count, h2.count]
  simp [h a]

/-! ### `assignIdx`, `rebuildBuf` -/

theorem assignIdx_not_mem (L : SMap Nat) : ∀ (gs : List Nat) (pos : Nat) (m : SMap Nat) (k : Nat),
    k ∉ gs → assignIdx L gs pos m k = m k
  | [], _, _, _, _ => rfl
  | g :: gs, pos, m, k, hk => by
    simp only [assignIdx]
    rw [assignIdx_not_mem L gs _ _ k (fun h => hk (List.mem_cons_of_mem _ h))]
    unfold SMap.set
    have : k ≠ g := fun h => hk (by simp [h])
    simp [this]

theorem assignIdx_layout (L : SMap Nat) (rep : Nat → Nat) (F : Nat → List Nat) :
    ∀ (gs : List Nat) (pos : Nat) (m : SMap Nat), gs.Nodup →
    (∀ g ∈ gs, ∃ rest, F g = g :: rest ∧ L g = some (F g).length ∧ ∀ y ∈ F g, rep y = g) →
    Layout (assignIdx L gs pos m) L rep pos (gs.map F)
  | [], _, _, _, _ => trivial
  | g :: gs, pos, m, hnd, hF => by
    have hnd' := List.nodup_cons.1 hnd
    obtain ⟨rest, hFg, hLg, hrep⟩ := hF g (by simp)
    simp only [assignIdx, List.map_cons]
    refine ⟨⟨g, rest, hFg, ?_, hLg, hrep⟩, ?_⟩
    · rw [assignIdx_not_mem L gs _ _ g hnd'.1]; simp [SMap.set]
    · have : getN L g = (F g).length := by simp [getN, hLg]
      rw [this]
      exact assignIdx_layout L rep F gs _ _ hnd'.2 (fun g' hg' => hF g' (List.mem_cons_of_mem _ hg'))

theorem rebuildBuf_eq (order : List Nat) (I L : SMap Nat) (u : Nat) (uN vN : List Nat) :
    ∀ (gs : List Nat), rebuildBuf order I L u uN vN gs =
      (gs.map (fun g => if g = u then uN ++ vN else slice order (getN I g) (getN L g))).flatten
  | [] => rfl
  | g :: gs => by simp [rebuildBuf, rebuildBuf_eq order I L u uN vN gs]

/-! ### positions of groups -/

theorem Layout.idx_bounds {I L : SMap Nat} {rep : Nat → Nat} : ∀ {gs : List (List Nat)} {pos : Nat},
    Layout I L rep pos gs → ∀ r rest, (r :: rest) ∈ gs →
      ∃ i, I r = some i ∧ pos ≤ i ∧ i + (r :: rest).length ≤ pos + gs.flatten.length
  | [], _, _, _, _, h => by cases h
  | g0 :: gs, pos, ⟨⟨r0, rest0, hg0, hi, _, _⟩, ht⟩, r, rest, hm => by
    rcases List.mem_cons.1 hm with h | h
    · rw [hg0] at h
      injection h with h1 h2
      subst h1; subst h2
      refine ⟨pos, hi, Nat.le_refl _, ?_⟩
      rw [hg0]; simp
    · obtain ⟨i, h1, h2, h3⟩ := Layout.idx_bounds ht r rest h
      refine ⟨i, h1, by omega, ?_⟩
      simp only [List.flatten_cons, List.length_append] at h3 ⊢
      omega

/-! ### acyclicity from a rank function -/

theorem path_rank_le {P : Nat → List Nat} (rk : Nat → Nat) :
    ∀ (l : List Nat), IsPath P l → (∀ x ∈ l, ∀ p ∈ P x, p ∈ l → rk p < rk x) →
      ∀ a b, l.head? = some a → l.getLast? = some b → rk a ≤ rk b
  | [], _, _, a, b, h, _ => by simp at h
  | [x], _, _, a, b, h1, h2 => by
    simp at h1 h2; subst h1; subst h2; exact Nat.le_refl _
  | x :: y :: r, hp, hrk, a, b, h1, h2 => by
    simp only [List.head?_cons, Option.some.injEq] at h1
    subst h1
    rw [List.getLast?_cons_cons] at h2
    have ih := path_rank_le rk (y :: r) hp.2
      (fun z hz p hp' hpl => hrk z (List.mem_cons_of_mem _ hz) p hp' (List.mem_cons_of_mem _ hpl)) y b rfl h2
    have := hrk y (by simp) x hp.1 (by simp)
    omega

theorem no_cycle_of_rank {P : Nat → List Nat} (rk : Nat → Nat) {c : List Nat} (hc : RealCycle P c)
    (hrk : ∀ x ∈ c, ∀ p ∈ P x, p ∈ c → rk p < rk x) : False := by
  cases hca : c.head? with
  | none => exact hc.ne (List.head?_eq_none_iff.1 hca)
  | some a =>
    cases hcb : c.getLast? with
    | none => exact hc.ne (List.getLast?_eq_none_iff.1 hcb)
    | some b =>
      have h1 := path_rank_le rk c hc.path hrk a b hca hcb
      have h2 : b ∈ P a := hc.closes a b hca hcb
      have := hrk a (List.mem_of_mem_head? hca) b h2 (List.mem_of_mem_getLast? hcb)
      omega

end HvGraphAlg
