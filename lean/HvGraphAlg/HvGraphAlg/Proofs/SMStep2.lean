/-
Step 2 of `try_merge` (`SM.mergeStep2`): the union-find, predecessor lists and enemy sets after
merging the classes of representatives `u` and `v`.
-/
import HvGraphAlg.Proofs.SMMergeAux
namespace HvGraphAlg

/-- the representative function after `union(u, v)` -/
noncomputable def rep1 (sm : SM) (u v : Nat) (x : Nat) : Nat :=
  if rootFn sm.uf x = v then u else rootFn sm.uf x

/-- the situation in which steps 2 and 3 run -/
structure MergeCtx (G : Nat → List Nat) (E : List (Nat × Nat)) (sm : SM) (gs : List (List Nat))
    (uf0 : Links) (u v : Nat) : Prop where
  inv : Inv G E sm gs
  ok0 : UFOk sm.n uf0
  rep0 : rootFn uf0 = rootFn sm.uf
  hu : u < sm.n
  hv : v < sm.n
  hru : rootFn sm.uf u = u
  hrv : rootFn sm.uf v = v
  huv : u ≠ v
  hlt : getN sm.sgIdx u < getN sm.sgIdx v
  nocyc : ¬ MergeCycle G sm u v
  noen : ¬ EnemyConflict E sm u v

section
variable {G : Nat → List Nat} {E : List (Nat × Nat)} {sm : SM} {gs : List (List Nat)}
  {uf0 : Links} {u v : Nat}

theorem rep1_idem (c : MergeCtx G E sm gs uf0 u v) (x : Nat) : rep1 sm u v (rep1 sm u v x) = rep1 sm u v x := by
  unfold rep1
  by_cases h : rootFn sm.uf x = v
  · simp [h, c.hru, c.huv]
  · simp [h, rootFn_idem c.inv.ufok]

theorem rep1_eq_u (c : MergeCtx G E sm gs uf0 u v) {x : Nat} :
    rep1 sm u v x = u ↔ rootFn sm.uf x = u ∨ rootFn sm.uf x = v := by
  unfold rep1
  by_cases h : rootFn sm.uf x = v
  · simp [h]
  · simp [h]

theorem rep1_eq_of_ne_u (c : MergeCtx G E sm gs uf0 u v) {x r : Nat} (hr : r ≠ u) :
    rep1 sm u v x = r ↔ (rootFn sm.uf x = r ∧ r ≠ v) := by
  unfold rep1
  by_cases h : rootFn sm.uf x = v
  · simp only [h, if_true]
    constructor
    · intro h'; exact absurd h'.symm hr
    · rintro ⟨h1, h2⟩; exact absurd h1.symm h2
  · simp only [h, if_false]
    constructor
    · intro h'; exact ⟨h', fun hv => h (h' ▸ hv)⟩
    · exact fun h' => h'.1

theorem rep1_ne_v (c : MergeCtx G E sm gs uf0 u v) (x : Nat) : rep1 sm u v x ≠ v := by
  unfold rep1
  by_cases h : rootFn sm.uf x = v
  · simp [h, c.huv]
  · simp [h]

theorem rep1_lt (c : MergeCtx G E sm gs uf0 u v) {x : Nat} (hx : x < sm.n) : rep1 sm u v x < sm.n := by
  unfold rep1
  by_cases h : rootFn sm.uf x = v
  · simp [h, c.hu]
  · simp [h, rootFn_lt c.inv.ufok hx]

/-- `rep1` depends on `x` only through its old representative -/
theorem rep1_congr {x y : Nat} (h : rootFn sm.uf x = rootFn sm.uf y) : rep1 sm u v x = rep1 sm u v y := by
  unfold rep1; rw [h]

/-- a fixed point of `rep1` below `n` is an old representative other than `v` -/
theorem rep1_fix (c : MergeCtx G E sm gs uf0 u v) {r : Nat} (h : rep1 sm u v r = r) :
    rootFn sm.uf r = r ∧ r ≠ v := by
  by_cases hr : r = u
  · subst hr; exact ⟨c.hru, c.huv⟩
  · exact (rep1_eq_of_ne_u c hr).1 h

theorem step2_uf (c : MergeCtx G E sm gs uf0 u v) :
    UFOk sm.n (sm.mergeStep2 uf0 u v).uf ∧ rootFn (sm.mergeStep2 uf0 u v).uf = rep1 sm u v := by
  have hu' : rootFn uf0 u = u := by rw [c.rep0]; exact c.hru
  have hv' : rootFn uf0 v = v := by rw [c.rep0]; exact c.hrv
  obtain ⟨hok1, hrep1⟩ := ufUnion_rootFn c.ok0 c.hu c.hv hu' hv'
  have hbound : ∀ k ∈ getL (sm.preds.del v) u ++ getL sm.preds v, k < sm.n := by
    intro k hk
    rcases List.mem_append.1 hk with h | h
    · have : getL (sm.preds.del v) u = getL sm.preds u := by simp [getL, SMap.del, c.huv]
      rw [this] at h
      unfold getL at h
      cases hp : sm.preds u with
      | none => simp [hp] at h
      | some ps => simp [hp] at h; exact c.inv.preds_bound u ps hp k h
    · unfold getL at h
      cases hp : sm.preds v with
      | none => simp [hp] at h
      | some ps => simp [hp] at h; exact c.inv.preds_bound v ps hp k h
  obtain ⟨hok2, _, hrep2⟩ := mapFind_rootFn hok1 hbound
  refine ⟨hok2, ?_⟩
  show rootFn (mapFind sm.n (ufUnion sm.n uf0 u v).1 _).1 = _
  rw [hrep2]
  funext x
  rw [hrep1 x, c.rep0]
  rfl

theorem getL_of_some {m : SMap (List Nat)} {k : Nat} {ps : List Nat} (h : m k = some ps) : getL m k = ps := by
  simp [getL, h]

/-- the predecessor list of every new representative describes the incoming edges of its class
in the new quotient graph -/
theorem step2_preds (c : MergeCtx G E sm gs uf0 u v) (r : Nat) (hr : r < sm.n)
    (hrr : rep1 sm u v r = r) :
    ∃ ps, (sm.mergeStep2 uf0 u v).preds r = some ps ∧ (∀ p ∈ ps, p < sm.n) ∧
      (∀ p ∈ ps, rep1 sm u v p ≠ r) ∧
      ∀ a, a ≠ r → ((∃ p ∈ ps, rep1 sm u v p = a) ↔
        ∃ x q, x < sm.n ∧ rep1 sm u v x = r ∧ q ∈ G x ∧ rep1 sm u v q = a) := by
  have hinv := c.inv
  obtain ⟨hr_rep, hr_v⟩ := rep1_fix c hrr
  obtain ⟨ups, hups, hups_lt, hups_iff⟩ := hinv.preds u c.hu c.hru
  obtain ⟨vps, hvps, hvps_lt, hvps_iff⟩ := hinv.preds v c.hv c.hrv
  by_cases hru : r = u
  · subst hru
    -- the rebuilt list of `u`
    have hmf := mapFind_rootFn (l := (ufUnion sm.n uf0 r v).1)
      (ks := getL (sm.preds.del v) r ++ getL sm.preds v) (n := sm.n)
    have hu' : rootFn uf0 r = r := by rw [c.rep0]; exact c.hru
    have hv' : rootFn uf0 v = v := by rw [c.rep0]; exact c.hrv
    obtain ⟨hok1, hrep1⟩ := ufUnion_rootFn c.ok0 c.hu c.hv hu' hv'
    have hl1 : getL (sm.preds.del v) r = ups := by
      have : (sm.preds.del v) r = some ups := by simp [SMap.del, c.huv, hups]
      exact getL_of_some this
    have hl2 : getL sm.preds v = vps := getL_of_some hvps
    rw [hl1, hl2] at hmf
    have hbound : ∀ k ∈ ups ++ vps, k < sm.n := by
      intro k hk
      rcases List.mem_append.1 hk with h | h
      · exact hups_lt k h
      · exact hvps_lt k h
    obtain ⟨_, hmap, _⟩ := hmf hok1 hbound
    have hrf : rootFn (ufUnion sm.n uf0 r v).1 = rep1 sm r v := by
      funext x; rw [hrep1 x, c.rep0]; rfl
    rw [hrf] at hmap
    have hpreds : (sm.mergeStep2 uf0 r v).preds r =
        some (toSortedSet (((ups ++ vps).map (rep1 sm r v)).filter (fun x => x != r))) := by
      show ((sm.preds.del v).set r _) r = _
      simp only [SMap.set, if_true, hl1, hl2, hmap]
    refine ⟨_, hpreds, ?_, ?_, ?_⟩
    · intro p hp
      rw [mem_toSortedSet, List.mem_filter, List.mem_map] at hp
      obtain ⟨⟨q, hq, rfl⟩, _⟩ := hp
      exact rep1_lt c (hbound q hq)
    · intro p hp
      rw [mem_toSortedSet, List.mem_filter, List.mem_map] at hp
      obtain ⟨⟨q, hq, rfl⟩, hne⟩ := hp
      rw [rep1_idem c]
      simpa using hne
    · intro a ha
      have hmem : (∃ p ∈ toSortedSet (((ups ++ vps).map (rep1 sm r v)).filter (fun x => x != r)),
          rep1 sm r v p = a) ↔ ∃ q ∈ ups ++ vps, rep1 sm r v q = a := by
        constructor
        · rintro ⟨p, hp, hpa⟩
          rw [mem_toSortedSet, List.mem_filter, List.mem_map] at hp
          obtain ⟨⟨q, hq, rfl⟩, _⟩ := hp
          rw [rep1_idem c] at hpa
          exact ⟨q, hq, hpa⟩
        · rintro ⟨q, hq, hqa⟩
          refine ⟨a, ?_, by rw [← hqa]; exact rep1_idem c q⟩
          rw [mem_toSortedSet, List.mem_filter, List.mem_map]
          exact ⟨⟨q, hq, hqa⟩, by simpa using ha⟩
      rw [hmem]
      constructor
      · rintro ⟨q, hq, hqa⟩
        rcases List.mem_append.1 hq with hq' | hq'
        · have hne : rootFn sm.uf q ≠ r := by
            intro h; apply ha; rw [← hqa]; exact (rep1_eq_u c).2 (Or.inl h)
          obtain ⟨x, qq, hx, hxr, hqq, hqqa⟩ := (hups_iff _ hne).1 ⟨q, hq', rfl⟩
          exact ⟨x, qq, hx, (rep1_eq_u c).2 (Or.inl hxr), hqq, by rw [← hqa]; exact rep1_congr hqqa⟩
        · have hne : rootFn sm.uf q ≠ v := by
            intro h; apply ha; rw [← hqa]; exact (rep1_eq_u c).2 (Or.inr h)
          obtain ⟨x, qq, hx, hxr, hqq, hqqa⟩ := (hvps_iff _ hne).1 ⟨q, hq', rfl⟩
          exact ⟨x, qq, hx, (rep1_eq_u c).2 (Or.inr hxr), hqq, by rw [← hqa]; exact rep1_congr hqqa⟩
      · rintro ⟨x, qq, hx, hxr, hqq, hqqa⟩
        have ha' := (rep1_eq_of_ne_u c ha).1 hqqa
        rcases (rep1_eq_u c).1 hxr with hxu | hxv
        · obtain ⟨p, hp, hpa⟩ := (hups_iff a ha).2 ⟨x, qq, hx, hxu, hqq, ha'.1⟩
          exact ⟨p, List.mem_append_left _ hp, (rep1_eq_of_ne_u c ha).2 ⟨hpa, ha'.2⟩⟩
        · obtain ⟨p, hp, hpa⟩ := (hvps_iff a ha'.2).2 ⟨x, qq, hx, hxv, hqq, ha'.1⟩
          exact ⟨p, List.mem_append_right _ hp, (rep1_eq_of_ne_u c ha).2 ⟨hpa, ha'.2⟩⟩
  · -- any other representative keeps its list
    obtain ⟨ps, hps, hps_lt, hps_iff⟩ := hinv.preds r hr hr_rep
    have hpreds : (sm.mergeStep2 uf0 u v).preds r = some ps := by
      show ((sm.preds.del v).set u _) r = _
      simp [SMap.set, SMap.del, hru, hr_v, hps]
    refine ⟨ps, hpreds, hps_lt, ?_, ?_⟩
    · intro p hp hpr
      have := (rep1_eq_of_ne_u c hru).1 hpr
      exact hinv.preds_noself r ps hr hr_rep hps p hp this.1
    · intro a ha
      constructor
      · rintro ⟨p, hp, hpa⟩
        have hne : rootFn sm.uf p ≠ r := by
          intro h; apply ha; rw [← hpa]; exact (rep1_eq_of_ne_u c hru).2 ⟨h, hr_v⟩
        obtain ⟨x, qq, hx, hxr, hqq, hqqa⟩ := (hps_iff _ hne).1 ⟨p, hp, rfl⟩
        exact ⟨x, qq, hx, (rep1_eq_of_ne_u c hru).2 ⟨hxr, hr_v⟩, hqq, by rw [← hpa]; exact rep1_congr hqqa⟩
      · rintro ⟨x, qq, hx, hxr, hqq, hqqa⟩
        have hxr' := ((rep1_eq_of_ne_u c hru).1 hxr).1
        have hne : rootFn sm.uf qq ≠ r := by
          intro h; apply ha; rw [← hqqa]; exact (rep1_eq_of_ne_u c hru).2 ⟨h, hr_v⟩
        obtain ⟨p, hp, hpa⟩ := (hps_iff _ hne).2 ⟨x, qq, hx, hxr', hqq, rfl⟩
        exact ⟨p, hp, by rw [← hqqa]; exact rep1_congr hpa⟩

/-! ### enemy sets -/

theorem mergeEnemiesLoop_spec (huv : u ≠ v) : ∀ (ws : List Nat) (e : SMap (List Nat)), u ∉ ws →
    ∀ r z, z ∈ getL (mergeEnemiesLoop u v ws e) r ↔
      ((z ∈ getL e r ∧ ¬ (r ∈ ws ∧ z = v)) ∨ (r = u ∧ z ∈ ws) ∨ (r ∈ ws ∧ z = u))
  | [], e, _, r, z => by simp [mergeEnemiesLoop]
  | w :: ws, e, hu, r, z => by
    have hwu : w ≠ u := fun h => hu (by simp [h])
    have hu' : u ∉ ws := fun h => hu (List.mem_cons_of_mem _ h)
    simp only [mergeEnemiesLoop]
    rw [mergeEnemiesLoop_spec huv ws _ hu' r z]
    have h1 : getL ((e.set u (hsInsert (getL e u) w)).set w
        (hsInsert ((getL (e.set u (hsInsert (getL e u) w)) w).filter (fun z => z != v)) u)) r =
        if r = w then hsInsert ((getL e w).filter (fun z => z != v)) u
        else if r = u then hsInsert (getL e u) w else getL e r := by
      unfold getL SMap.set
      by_cases hrw : r = w
      · subst hrw; simp [hwu]
      · by_cases hru : r = u
        · subst hru; simp [hrw]
        · simp [hrw, hru]
    rw [h1]
    by_cases hrw : r = w
    · subst hrw
      simp only [if_true, mem_hsInsert, List.mem_filter, List.mem_cons, true_or, true_and]
      have : (z != v) = true ↔ z ≠ v := by simp
      rw [this]
      constructor
      · rintro ((⟨(⟨h1, h2⟩ | h1), h3⟩) | h | h)
        · exact Or.inl ⟨h1, h2⟩
        · exact Or.inr (Or.inr h1)
        · exact absurd h.1 hwu
        · exact Or.inr (Or.inr h.2)
      · rintro (⟨h1, h2⟩ | h | h)
        · exact Or.inl ⟨Or.inl ⟨h1, h2⟩, fun hh => h2 hh.2⟩
        · exact absurd h.1 hwu
        · exact Or.inl ⟨Or.inr h, fun hh => huv (h ▸ hh.2)⟩
    · by_cases hru : r = u
      · subst hru
        simp only [hrw, if_false, if_true, mem_hsInsert, List.mem_cons, false_or, true_and]
        constructor
        · rintro (⟨h1 | h1, h2⟩ | h | h)
          · exact Or.inl ⟨h1, fun hh => hu' hh.1⟩
          · exact Or.inr (Or.inl (Or.inl h1))
          · exact Or.inr (Or.inl (Or.inr h))
          · exact absurd h.1 hu'
        · rintro (⟨h1, _⟩ | (h | h) | h)
          · exact Or.inl ⟨Or.inl h1, fun hh => hu' hh.1⟩
          · exact Or.inl ⟨Or.inr h, fun hh => hu' hh.1⟩
          · exact Or.inr (Or.inl h)
          · exact absurd h.1 hu'
      · simp only [hrw, hru, if_false, List.mem_cons, false_or, false_and]

theorem mergeEnemies_spec (huv : u ≠ v) (e : SMap (List Nat)) (hu : u ∉ getL e v) (r z : Nat) :
    z ∈ getL (mergeEnemies e u v) r ↔
      ((r ≠ v ∧ z ∈ getL e r ∧ ¬ (r ∈ getL e v ∧ z = v)) ∨ (r = u ∧ z ∈ getL e v) ∨
        (r ∈ getL e v ∧ z = u)) := by
  unfold mergeEnemies
  cases hv : e v with
  | none =>
    have : getL e v = [] := by simp [getL, hv]
    simp only [this, List.not_mem_nil, false_and, not_false_eq_true, and_true, or_false, and_false]
    constructor
    · intro h
      refine ⟨?_, h⟩
      intro hr; subst hr; rw [this] at h; cases h
    · exact fun h => h.2
  | some ws =>
    have hws : getL e v = ws := by simp [getL, hv]
    rw [hws] at hu ⊢
    simp only
    rw [mergeEnemiesLoop_spec huv ws _ hu r z]
    have : getL (e.del v) r = if r = v then [] else getL e r := by
      unfold getL SMap.del; by_cases h : r = v <;> simp [h]
    rw [this]
    by_cases hr : r = v
    · simp [hr]
    · simp [hr]

theorem EnemyConflict.symm {a b : Nat} (h : EnemyConflict E sm a b) : EnemyConflict E sm b a := by
  obtain ⟨x, y, hp, hx, hy⟩ := h
  exact ⟨y, x, hp.symm, hy, hx⟩

theorem step2_apart (c : MergeCtx G E sm gs uf0 u v) (a b : Nat) (hab : (a, b) ∈ E) :
    rep1 sm u v a ≠ rep1 sm u v b := by
  have hne := c.inv.apart a b hab
  intro he
  unfold rep1 at he
  by_cases h1 : rootFn sm.uf a = v <;> by_cases h2 : rootFn sm.uf b = v
  · exact hne (h1.trans h2.symm)
  · simp only [h1, h2, if_true, if_false] at he
    exact c.noen ⟨b, a, Or.inr hab, he.symm, h1⟩
  · simp only [h1, h2, if_true, if_false] at he
    exact c.noen ⟨a, b, Or.inl hab, he, h2⟩
  · simp only [h1, h2, if_false] at he
    exact hne he

theorem step2_enemies (c : MergeCtx G E sm gs uf0 u v) (r : Nat) (hr : r < sm.n)
    (hrr : rep1 sm u v r = r) (z : Nat) :
    z ∈ getL (sm.mergeStep2 uf0 u v).enemies r ↔
      ∃ a b, ((a, b) ∈ E ∨ (b, a) ∈ E) ∧ rep1 sm u v a = r ∧ rep1 sm u v b = z := by
  have hinv := c.inv
  obtain ⟨hr_rep, hr_v⟩ := rep1_fix c hrr
  have hen_v := hinv.enemies v c.hv c.hrv
  have hen_r := hinv.enemies r hr hr_rep
  have hF1 : u ∉ getL sm.enemies v := by
    intro h
    obtain ⟨a, b, hp, ha, hb⟩ := (hen_v u).1 h
    exact c.noen ⟨b, a, hp.symm, hb, ha⟩
  have hapart : ∀ a b, ((a, b) ∈ E ∨ (b, a) ∈ E) → rootFn sm.uf a ≠ rootFn sm.uf b := by
    intro a b hp
    rcases hp with hp | hp
    · exact hinv.apart a b hp
    · exact fun h => hinv.apart b a hp h.symm
  show z ∈ getL (mergeEnemies sm.enemies u v) r ↔ _
  rw [mergeEnemies_spec c.huv sm.enemies hF1 r z]
  constructor
  · rintro (⟨_, hz, hnot⟩ | ⟨hru, hz⟩ | ⟨hrv', hzu⟩)
    · obtain ⟨a, b, hp, ha, hb⟩ := (hen_r z).1 hz
      have hzv : z ≠ v := by
        intro hzv
        apply hnot
        refine ⟨(hen_v r).2 ⟨b, a, hp.symm, by rw [hb, hzv], ha⟩, hzv⟩
      refine ⟨a, b, hp, ?_, ?_⟩
      · unfold rep1; rw [ha]; simp [hr_v]
      · unfold rep1; rw [hb]; simp [hzv]
    · subst hru
      obtain ⟨a, b, hp, ha, hb⟩ := (hen_v z).1 hz
      have hzv : z ≠ v := by
        intro hzv; exact hapart a b hp (by rw [ha, hb, hzv])
      refine ⟨a, b, hp, ?_, ?_⟩
      · unfold rep1; rw [ha]; simp
      · unfold rep1; rw [hb]; simp [hzv]
    · subst hzu
      obtain ⟨a, b, hp, ha, hb⟩ := (hen_v r).1 hrv'
      refine ⟨b, a, hp.symm, ?_, ?_⟩
      · unfold rep1; rw [hb]; simp [hr_v]
      · unfold rep1; rw [ha]; simp
  · rintro ⟨a, b, hp, ha, hb⟩
    have hne := hapart a b hp
    unfold rep1 at ha hb
    by_cases hbv : rootFn sm.uf b = v
    · simp only [hbv, if_true] at hb
      have hav : rootFn sm.uf a ≠ v := fun h => hne (h.trans hbv.symm)
      simp only [hav, if_false] at ha
      right; right
      exact ⟨(hen_v r).2 ⟨b, a, hp.symm, hbv, ha⟩, hb.symm⟩
    · simp only [hbv, if_false] at hb
      by_cases hav : rootFn sm.uf a = v
      · simp only [hav, if_true] at ha
        right; left
        exact ⟨ha.symm, (hen_v z).2 ⟨a, b, hp, hav, hb⟩⟩
      · simp only [hav, if_false] at ha
        left
        refine ⟨hr_v, (hen_r z).2 ⟨a, b, hp, ha, hb⟩, ?_⟩
        rintro ⟨_, hzv⟩
        exact hbv (hb.trans hzv)

end
end HvGraphAlg
