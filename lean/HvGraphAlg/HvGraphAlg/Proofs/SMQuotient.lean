/-
What "merging would create a cycle between groups" means, independently of how `try_merge`
looks for it: the quotient graph of the partition in which the groups of `u` and `v` are one
group has a cycle.  `mergeWouldCycle_iff` shows that this is exactly the `MergeCycle` condition
(`u → x ⇝ v` or `v → x ⇝ u` through a third group `x`) that `tryMerge_refused_iff` characterises.
-/
import HvGraphAlg.Proofs.SMRefuse
import HvGraphAlg.Proofs.SMStep3b
namespace HvGraphAlg

/-- `x` and `y` are in one group once the groups with representatives `u` and `v` are merged -/
def MergedSame (sm : SM) (u v x y : Nat) : Prop :=
  rootFn sm.uf x = rootFn sm.uf y ∨
    ((rootFn sm.uf x = u ∨ rootFn sm.uf x = v) ∧ (rootFn sm.uf y = u ∨ rootFn sm.uf y = v))

/-- edge of the merged quotient graph, on nodes: the (merged) groups of `x` and `y` differ and
some node of `y`'s group has a predecessor in `x`'s group -/
def MEdge (G : Nat → List Nat) (sm : SM) (u v x y : Nat) : Prop :=
  ¬ MergedSame sm u v x y ∧
    ∃ p y', y' < sm.n ∧ p ∈ G y' ∧ MergedSame sm u v p x ∧ MergedSame sm u v y' y

/-- one or more merged-quotient edges -/
inductive MPlus (G : Nat → List Nat) (sm : SM) (u v : Nat) : Nat → Nat → Prop
  | single {x y : Nat} : MEdge G sm u v x y → MPlus G sm u v x y
  | head {x y z : Nat} : MEdge G sm u v x y → MPlus G sm u v y z → MPlus G sm u v x z

/-- merging the groups of `u` and `v` would create a cycle between groups -/
def MergeWouldCycle (G : Nat → List Nat) (sm : SM) (u v : Nat) : Prop :=
  ∃ x, MPlus G sm u v x x

section
variable {G : Nat → List Nat} {E : List (Nat × Nat)} {sm : SM} {gs : List (List Nat)} {u v : Nat}

theorem mergedSame_iff_rep1 {x y : Nat} :
    MergedSame sm u v x y ↔ rep1 sm u v x = rep1 sm u v y := by
  unfold MergedSame rep1
  generalize rootFn sm.uf x = a
  generalize rootFn sm.uf y = b
  split <;> split <;> omega

theorem mergedSame_swap {x y : Nat} : MergedSame sm u v x y ↔ MergedSame sm v u x y := by
  unfold MergedSame
  constructor <;> rintro (h | ⟨h1, h2⟩)
  · exact Or.inl h
  · exact Or.inr ⟨h1.symm, h2.symm⟩
  · exact Or.inl h
  · exact Or.inr ⟨h1.symm, h2.symm⟩

theorem medge_swap {x y : Nat} : MEdge G sm u v x y → MEdge G sm v u x y := by
  rintro ⟨h1, p, y', hy', hp, h2, h3⟩
  exact ⟨fun h => h1 (mergedSame_swap.2 h), p, y', hy', hp, mergedSame_swap.1 h2, mergedSame_swap.1 h3⟩

theorem mplus_swap {x y : Nat} (h : MPlus G sm u v x y) : MPlus G sm v u x y := by
  induction h with
  | single he => exact .single (medge_swap he)
  | head he _ ih => exact .head (medge_swap he) ih

/-- a merged-quotient edge comes from an old quotient edge, and the rank of `mrank_lt_of`
increases along it -/
theorem medge_rank_lt (hinv : Inv G E sm gs) (huv : u ≠ v)
    (hlt : getN sm.sgIdx u < getN sm.sgIdx v) (nocyc : ¬ MergeCycle G sm u v) {x y : Nat}
    (he : MEdge G sm u v x y) :
    mrank G sm u v (rep1 sm u v x) < mrank G sm u v (rep1 sm u v y) := by
  obtain ⟨hne, p, y', hy', hp, hpx, hy'y⟩ := he
  rw [mergedSame_iff_rep1] at hne hpx hy'y
  have hpy : rep1 sm u v p ≠ rep1 sm u v y' := by rw [hpx, hy'y]; exact hne
  have hroot : rootFn sm.uf p ≠ rootFn sm.uf y' := fun h => hpy (rep1_congr h)
  have hqe : QE G sm (rootFn sm.uf p) (rootFn sm.uf y') := ⟨hroot, y', p, hy', rfl, hp, rfl⟩
  have e1 : rep1 sm u v (rootFn sm.uf p) = rep1 sm u v p := rep1_congr (rootFn_idem hinv.ufok p)
  have e2 : rep1 sm u v (rootFn sm.uf y') = rep1 sm u v y' := rep1_congr (rootFn_idem hinv.ufok y')
  have := mrank_lt_of hinv huv hlt nocyc hqe (by rw [e1, e2]; exact hpy)
  rw [e1, e2, hpx, hy'y] at this
  exact this

theorem mplus_rank_lt (hinv : Inv G E sm gs) (huv : u ≠ v)
    (hlt : getN sm.sgIdx u < getN sm.sgIdx v) (nocyc : ¬ MergeCycle G sm u v) {x y : Nat}
    (h : MPlus G sm u v x y) :
    mrank G sm u v (rep1 sm u v x) < mrank G sm u v (rep1 sm u v y) := by
  induction h with
  | single he => exact medge_rank_lt hinv huv hlt nocyc he
  | head he _ ih => exact Nat.lt_trans (medge_rank_lt hinv huv hlt nocyc he) ih

/-- a quotient path `x ⇝ t` that starts after `s` in the layout, `{s, t} = {u, v}`, is a path of the
merged quotient graph from `x` back to (the merged group of) `s` -/
theorem qstar_mplus (hinv : Inv G E sm gs) {s t : Nat} (hst : (s = u ∧ t = v) ∨ (s = v ∧ t = u))
    (hrs : rootFn sm.uf s = s) {x : Nat} (hq : QStar G sm x t) :
    x ≠ t → getN sm.sgIdx s < getN sm.sgIdx x → rootFn sm.uf x = x → MPlus G sm u v x s := by
  induction hq with
  | refl _ => intro h; exact absurd rfl h
  | @head a b c he hq ih =>
    intro hat hsa hra
    obtain ⟨_, hb, _, hrb⟩ := he.reps hinv
    have hlt := hinv.qe_idx_lt he
    have has : a ≠ s := by intro h; subst h; omega
    have hauv : ¬ (a = u ∨ a = v) := by
      rcases hst with ⟨rfl, rfl⟩ | ⟨rfl, rfl⟩
      · rintro (h | h); exact has h; exact hat h
      · rintro (h | h); exact hat h; exact has h
    obtain ⟨hab, y', p, hy', hy'b, hp, hpa⟩ := he
    have hpa' : MergedSame sm u v p a := Or.inl (by rw [hpa, hra])
    by_cases hbc : b = c
    · -- last edge: retarget it from `t` to `s`
      subst hbc
      refine .single ⟨?_, p, y', hy', hp, hpa', ?_⟩
      · rintro (h | ⟨h, _⟩)
        · rw [hra, hrs] at h; exact has h
        · rw [hra] at h; exact hauv h
      · refine Or.inr ⟨?_, ?_⟩
        · rw [hy'b]; rcases hst with ⟨_, rfl⟩ | ⟨_, rfl⟩; exact Or.inr rfl; exact Or.inl rfl
        · rw [hrs]; rcases hst with ⟨rfl, _⟩ | ⟨rfl, _⟩; exact Or.inl rfl; exact Or.inr rfl
    · have e1 : MEdge G sm u v a b := by
        refine ⟨?_, p, y', hy', hp, hpa', Or.inl (by rw [hy'b, hrb])⟩
        rintro (h | ⟨h, _⟩)
        · rw [hra, hrb] at h; exact hab h
        · rw [hra] at h; exact hauv h
      exact .head e1 (ih hst hbc (by omega) hrb)

theorem mergeCycle_mplus (hinv : Inv G E sm gs) {s t : Nat}
    (hst : (s = u ∧ t = v) ∨ (s = v ∧ t = u)) (hc : MergeCycle G sm s t) : MPlus G sm u v s s := by
  obtain ⟨x, hxt, hsx, hxs⟩ := hc
  obtain ⟨_, hx, hrs, hrx⟩ := hsx.reps hinv
  have hlt := hinv.qe_idx_lt hsx
  have h2 := qstar_mplus hinv hst hrs hxs hxt hlt hrx
  obtain ⟨hsx', y', p, hy', hy'x, hp, hps⟩ := hsx
  have hxuv : ¬ (x = u ∨ x = v) := by
    rcases hst with ⟨rfl, rfl⟩ | ⟨rfl, rfl⟩
    · rintro (h | h); exact hsx' h.symm; exact hxt h
    · rintro (h | h); exact hxt h; exact hsx' h.symm
  refine .head ⟨?_, p, y', hy', hp, Or.inl (by rw [hps, hrs]), Or.inl (by rw [hy'x, hrx])⟩ h2
  rintro (h | ⟨_, h⟩)
  · rw [hrs, hrx] at h; exact hsx' h
  · rw [hrx] at h; exact hxuv h

/-- Merging the groups of two distinct representatives `u`, `v` makes the quotient graph cyclic
exactly when a third group lies on a quotient path from one to the other. -/
theorem mergeWouldCycle_iff (hinv : Inv G E sm gs) (hu : u < sm.n) (hv : v < sm.n)
    (hru : rootFn sm.uf u = u) (hrv : rootFn sm.uf v = v) (huv : u ≠ v) :
    MergeWouldCycle G sm u v ↔ (MergeCycle G sm u v ∨ MergeCycle G sm v u) := by
  constructor
  · rintro ⟨x, hx⟩
    apply Classical.byContradiction
    intro hno
    have hne := hinv.idx_ne hu hv hru hrv huv
    rcases Nat.lt_or_gt_of_ne hne with hlt | hlt
    · exact Nat.lt_irrefl _ (mplus_rank_lt hinv huv hlt (fun h => hno (Or.inl h)) hx)
    · exact Nat.lt_irrefl _
        (mplus_rank_lt hinv (Ne.symm huv) hlt (fun h => hno (Or.inr h)) (mplus_swap hx))
  · rintro (h | h)
    · exact ⟨u, mergeCycle_mplus hinv (Or.inl ⟨rfl, rfl⟩) h⟩
    · exact ⟨v, mergeCycle_mplus hinv (Or.inr ⟨rfl, rfl⟩) h⟩

end
end HvGraphAlg
