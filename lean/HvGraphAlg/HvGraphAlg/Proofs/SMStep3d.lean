/-
Step 3 of `try_merge`, part d: the re-sort succeeds and the rebuilt state satisfies the invariant.
-/
import HvGraphAlg.Proofs.SMStep3c
namespace HvGraphAlg

section
variable {G : Nat → List Nat} {E : List (Nat × Nat)} {sm : SM} {gs : List (List Nat)}
  {uf0 : Links} {u v : Nat}

/-- everything step 3 needs to know about the state `S2` after step 2 -/
structure S2Facts (G : Nat → List Nat) (E : List (Nat × Nat)) (sm S2 : SM) (u v : Nat)
    (A : List (List Nat)) (ru : List Nat) (M : List (List Nat)) (rv : List Nat) (B : List (List Nat)) :
    Prop where
  n_eq : S2.n = sm.n
  order_eq : S2.order = sm.order
  ufok : UFOk sm.n S2.uf
  rep : rootFn S2.uf = rep1 sm u v
  idx_ne : ∀ x, x ≠ v → S2.sgIdx x = sm.sgIdx x
  len_ne : ∀ x, x ≠ u → x ≠ v → S2.sgLen x = sm.sgLen x
  pbound : ∀ k p, p ∈ getL S2.preds k → p < sm.n
  pbound' : ∀ k ps, S2.preds k = some ps → ∀ p ∈ ps, p < sm.n
  preds : ∀ r, r < sm.n → rep1 sm u v r = r → ∃ ps, S2.preds r = some ps ∧ (∀ p ∈ ps, p < sm.n) ∧
      (∀ p ∈ ps, rep1 sm u v p ≠ r) ∧
      ∀ a, a ≠ r → ((∃ p ∈ ps, rep1 sm u v p = a) ↔
        ∃ x q, x < sm.n ∧ rep1 sm u v x = r ∧ q ∈ G x ∧ rep1 sm u v q = a)
  enemies : ∀ r, r < sm.n → rep1 sm u v r = r → ∀ z, z ∈ getL S2.enemies r ↔
      ∃ a b, ((a, b) ∈ E ∨ (b, a) ∈ E) ∧ rep1 sm u v a = r ∧ rep1 sm u v b = z
  wr : ∀ g, WR u M g →
    g < sm.n ∧ rep1 sm u v g = g ∧ g ≠ v ∧
    inWin A.flatten.length (A.flatten.length + (u :: ru).length + M.flatten.length + (v :: rv).length)
      (getN S2.sgIdx g) = true ∧
    ∃ rest, winGroup sm S2 u (u :: ru) (v :: rv) g = g :: rest ∧
      S2.sgLen g = some (winGroup sm S2 u (u :: ru) (v :: rv) g).length ∧
      (∀ y ∈ winGroup sm S2 u (u :: ru) (v :: rv) g, y < sm.n ∧ rep1 sm u v y = g) ∧
      (winGroup sm S2 u (u :: ru) (v :: rv) g).Pairwise (NoBack G) ∧
      (winGroup sm S2 u (u :: ru) (v :: rv) g).Nodup ∧
      (∀ y ∈ winGroup sm S2 u (u :: ru) (v :: rv) g, y ∈ (u :: ru) ++ (M.flatten ++ (v :: rv))) ∧
      (g ≠ u → winGroup sm S2 u (u :: ru) (v :: rv) g ∈ M)
  pspec : ∀ x p, WR u M x → p ∈ winP sm S2 u v A.flatten.length
      (A.flatten.length + (u :: ru).length + M.flatten.length + (v :: rv).length) x → WR u M p
  pedge : ∀ a b, WR u M a → WR u M b → b ≠ a → ∀ x y, x < sm.n → rep1 sm u v x = a → y ∈ G x →
      rep1 sm u v y = b → b ∈ winP sm S2 u v A.flatten.length
        (A.flatten.length + (u :: ru).length + M.flatten.length + (v :: rv).length) a
  acyc : ∀ cyc, RealCycle (winP sm S2 u v A.flatten.length
      (A.flatten.length + (u :: ru).length + M.flatten.length + (v :: rv).length)) cyc →
      (∀ x ∈ cyc, WR u M x) → False

theorem s2_facts (c : MergeCtx G E sm gs uf0 u v) {A M B : List (List Nat)} {ru rv : List Nat}
    (hgs : gs = A ++ (u :: ru) :: (M ++ (v :: rv) :: B)) (w : Win G E sm u v A ru M rv B) :
    S2Facts G E sm (sm.mergeStep2 uf0 u v) u v A ru M rv B where
  n_eq := rfl
  order_eq := rfl
  ufok := (step2_uf c).1
  rep := (step2_uf c).2
  idx_ne := fun _ hx => s2_sgIdx_of_ne hx
  len_ne := fun _ hxu hxv => s2_sgLen_of_ne hxu hxv
  pbound := s2_preds_bound c
  pbound' := fun k ps hk p hp => s2_preds_bound c k p (by rw [getL_of_some hk]; exact hp)
  preds := step2_preds c
  enemies := step2_enemies c
  wr := fun _ hg => wr_facts c hgs w hg
  pspec := fun _ _ hx hp => (winP_spec c hgs w hx hp).1
  pedge := fun _ _ ha hb hab _ _ hx hxa hy hyb => winP_of_edge c hgs w ha hb hab hx hxa hy hyb
  acyc := fun _ hc hall => winP_acyclic c hgs w hc hall

end
end HvGraphAlg
