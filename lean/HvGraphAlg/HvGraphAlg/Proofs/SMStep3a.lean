/-
Step 3 of `try_merge`, part a: the shape of the window.
`gs = A ++ gu :: (M ++ gv :: B)`; the window is `gu ++ M.flatten ++ gv`.
-/
import HvGraphAlg.Proofs.SMStep2
namespace HvGraphAlg

section
variable {G : Nat → List Nat} {E : List (Nat × Nat)} {sm : SM} {gs : List (List Nat)}
  {uf0 : Links} {u v : Nat}

theorem MergeCtx.decomp (c : MergeCtx G E sm gs uf0 u v) :
    ∃ A ru M rv B, gs = A ++ (u :: ru) :: (M ++ (v :: rv) :: B) := by
  obtain ⟨A, ra, M, rb, B, hgs | hgs⟩ := c.inv.two_groups c.hu c.hv c.hru c.hrv c.huv
  · exact ⟨A, ra, M, rb, B, hgs⟩
  · exfalso
    obtain ⟨hi1, _, hi2, _⟩ := c.inv.ordered_groups hgs
    have := c.hlt
    simp only [getN, hi1, hi2, Option.getD_some, List.length_cons] at this
    omega

/-- everything the proofs need to know about the window, for a fixed decomposition -/
structure Win (G : Nat → List Nat) (E : List (Nat × Nat)) (sm : SM) (u v : Nat)
    (A : List (List Nat)) (ru : List Nat) (M : List (List Nat)) (rv : List Nat) (B : List (List Nat)) :
    Prop where
  order_eq : sm.order = A.flatten ++ ((u :: ru) ++ (M.flatten ++ ((v :: rv) ++ B.flatten)))
  idx_u : sm.sgIdx u = some A.flatten.length
  len_u : sm.sgLen u = some (u :: ru).length
  idx_v : sm.sgIdx v = some (A.flatten.length + (u :: ru).length + M.flatten.length)
  len_v : sm.sgLen v = some (v :: rv).length
  rep_u : ∀ y ∈ u :: ru, rootFn sm.uf y = u
  rep_v : ∀ y ∈ v :: rv, rootFn sm.uf y = v
  cross_uv : ∀ x ∈ u :: ru, ∀ y ∈ v :: rv, NoBack G x y
  layA : Layout sm.sgIdx sm.sgLen (rootFn sm.uf) 0 A
  layM : Layout sm.sgIdx sm.sgLen (rootFn sm.uf) (A.flatten.length + (u :: ru).length) M
  layB : Layout sm.sgIdx sm.sgLen (rootFn sm.uf)
    (A.flatten.length + (u :: ru).length + M.flatten.length + (v :: rv).length) B

theorem MergeCtx.win (c : MergeCtx G E sm gs uf0 u v) {A M B : List (List Nat)} {ru rv : List Nat}
    (hgs : gs = A ++ (u :: ru) :: (M ++ (v :: rv) :: B)) : Win G E sm u v A ru M rv B := by
  obtain ⟨h1, h2, h3, h4, h5, h6, h7⟩ := c.inv.ordered_groups hgs
  have hl := c.inv.layout
  rw [hgs, Layout.append] at hl
  obtain ⟨hlA, hl2⟩ := hl
  have hl3 : Layout sm.sgIdx sm.sgLen (rootFn sm.uf) (0 + A.flatten.length + (u :: ru).length)
      (M ++ (v :: rv) :: B) := hl2.2
  rw [Layout.append] at hl3
  obtain ⟨hlM, hl4⟩ := hl3
  refine ⟨?_, h1, h2, h3, h4, h5, h6, h7, hlA, by simpa using hlM, ?_⟩
  · rw [c.inv.order_eq, hgs]; simp
  · have := hl4.2
    simpa [Nat.add_assoc] using this

/-- facts about a group in the middle of the window -/
theorem Win.mid_group (c : MergeCtx G E sm gs uf0 u v) {A M B : List (List Nat)} {ru rv : List Nat}
    (hgs : gs = A ++ (u :: ru) :: (M ++ (v :: rv) :: B)) (w : Win G E sm u v A ru M rv B)
    {mg : List Nat} (hmg : mg ∈ M) :
    ∃ h rest, mg = h :: rest ∧ h ≠ u ∧ h ≠ v ∧ h < sm.n ∧ rootFn sm.uf h = h ∧
      (∀ y ∈ mg, rootFn sm.uf y = h) ∧ sm.sgLen h = some mg.length ∧
      (∃ i, sm.sgIdx h = some i ∧ A.flatten.length + (u :: ru).length ≤ i ∧
        i + mg.length ≤ A.flatten.length + (u :: ru).length + M.flatten.length ∧
        slice sm.order i mg.length = mg) := by
  have hmem : mg ∈ gs := by rw [hgs]; simp [hmg]
  obtain ⟨h, rest, hmg', hrep⟩ := w.layM.group mg hmg
  have hh : h ∈ mg := by rw [hmg']; simp
  have hhn : h < sm.n := c.inv.group_mem_lt hmem hh
  have hhr : rootFn sm.uf h = h := hrep h hh
  have hnd := c.inv.nodup
  rw [c.inv.order_eq] at hnd
  have hne : ∀ {r rest'}, (r :: rest') ∈ gs → (r :: rest') ≠ mg → h ≠ r := by
    intro r rest' hg' hne' hhr'
    apply hne'
    exact flatten_nodup_unique (r := h) gs hnd _ hg' mg hmem (by rw [hhr']; simp) hh
  -- `mg` is not the group of `u` or `v`: those sit at other positions of the duplicate-free list
  have hpos : ∀ g, g ∈ M → g ≠ u :: ru ∧ g ≠ v :: rv := by
    intro g hg
    have hgne : g ≠ [] := by
      obtain ⟨h', rest', hg', _⟩ := w.layM.group g hg
      rw [hg']; simp
    obtain ⟨x, hx⟩ := List.exists_mem_of_ne_nil g hgne
    have hxm : x ∈ M.flatten := List.mem_flatten.2 ⟨g, hg, hx⟩
    rw [hgs] at hnd
    simp only [List.flatten_append, List.flatten_cons] at hnd
    constructor
    · intro he; subst he
      have h2 := (List.nodup_append.1 hnd).2.1
      have h3 := (List.nodup_append.1 h2).2.2 x hx x (List.mem_append_left _ hxm)
      exact h3 rfl
    · intro he; subst he
      have h2 := (List.nodup_append.1 hnd).2.1
      have h3 := (List.nodup_append.1 h2).2.1
      have h4 := (List.nodup_append.1 h3).2.2 x hxm x (List.mem_append_left _ hx)
      exact h4 rfl
  have hu' : h ≠ u := hne (by rw [hgs]; simp) (fun e => (hpos mg hmg).1 e.symm)
  have hv' : h ≠ v := hne (by rw [hgs]; simp) (fun e => (hpos mg hmg).2 e.symm)
  obtain ⟨i, hi, hlo, hhi⟩ := w.layM.idx_bounds h rest (hmg' ▸ hmg)
  -- the length and the slice: from the position of `mg` inside `M`
  obtain ⟨M1, M2, hM⟩ := List.append_of_mem hmg
  have hlM := w.layM
  rw [hM, Layout.append] at hlM
  obtain ⟨⟨h0, rest0, hg0, hi0, hlen0, _⟩, _⟩ := hlM.2
  have e0 : h0 = h := by rw [hmg'] at hg0; injection hg0 with e _; exact e.symm
  subst e0
  have hi_eq : i = A.flatten.length + (u :: ru).length + M1.flatten.length := by
    rw [hi0] at hi; injection hi with hi; exact hi.symm
  refine ⟨h0, rest, hmg', hu', hv', hhn, hhr, hrep, hlen0, i, hi, hlo, by rw [← hmg'] at hhi; exact hhi, ?_⟩
  rw [w.order_eq, hM, hi_eq]
  have : A.flatten ++ ((u :: ru) ++ ((M1 ++ mg :: M2).flatten ++ ((v :: rv) ++ B.flatten))) =
      (A.flatten ++ (u :: ru) ++ M1.flatten) ++ mg ++ (M2.flatten ++ ((v :: rv) ++ B.flatten)) := by
    simp [List.append_assoc]
  rw [this]
  have hl : A.flatten.length + (u :: ru).length + M1.flatten.length =
      (A.flatten ++ (u :: ru) ++ M1.flatten).length := by
    simp only [List.length_append]
  rw [hl]
  exact slice_append _ _ _

end
end HvGraphAlg
