/-
Step 3 of `try_merge`, part c: facts about the window representatives and the groups that the
re-sort lays out.
-/
import HvGraphAlg.Proofs.SMStep3b
namespace HvGraphAlg

section
variable {G : Nat → List Nat} {E : List (Nat × Nat)} {sm : SM} {gs : List (List Nat)}
  {uf0 : Links} {u v : Nat}

/-- the group laid out for window representative `g` -/
def winGroup (sm s2 : SM) (u : Nat) (gu gv : List Nat) (g : Nat) : List Nat :=
  if g = u then gu ++ gv else slice s2.order (getN s2.sgIdx g) (getN s2.sgLen g)

/-- the predecessor function the re-sort uses (pure form of `windowPreds`) -/
noncomputable def winP (sm s2 : SM) (u v lo hi : Nat) (k : Nat) : List Nat :=
  ((getL s2.preds k).map (rep1 sm u v)).filter (fun p => inWin lo hi (getN s2.sgIdx p))

theorem s2_sgIdx_of_ne {x : Nat} (hx : x ≠ v) : (sm.mergeStep2 uf0 u v).sgIdx x = sm.sgIdx x := by
  show (sm.sgIdx.del v) x = _
  simp [SMap.del, hx]

theorem s2_sgLen_of_ne {x : Nat} (hxu : x ≠ u) (hxv : x ≠ v) :
    (sm.mergeStep2 uf0 u v).sgLen x = sm.sgLen x := by
  show ((sm.sgLen.del v).set u _) x = _
  simp [SMap.del, SMap.set, hxu, hxv]

theorem s2_getIdx_of_ne {x : Nat} (hx : x ≠ v) :
    getN (sm.mergeStep2 uf0 u v).sgIdx x = getN sm.sgIdx x := by
  unfold getN; rw [s2_sgIdx_of_ne hx]

theorem s2_getLen_of_ne {x : Nat} (hxu : x ≠ u) (hxv : x ≠ v) :
    getN (sm.mergeStep2 uf0 u v).sgLen x = getN sm.sgLen x := by
  unfold getN; rw [s2_sgLen_of_ne hxu hxv]

theorem s2_preds_bound (c : MergeCtx G E sm gs uf0 u v) (k p : Nat)
    (hp : p ∈ getL (sm.mergeStep2 uf0 u v).preds k) : p < sm.n := by
  by_cases hku : k = u
  · subst hku
    obtain ⟨ps, hps, hlt, _⟩ := step2_preds c k c.hu (by unfold rep1; simp [c.hru, c.huv])
    rw [getL_of_some hps] at hp
    exact hlt p hp
  · have : (sm.mergeStep2 uf0 u v).preds k = (sm.preds.del v) k := by
      show ((sm.preds.del v).set u _) k = _
      simp [SMap.set, hku]
    unfold getL at hp
    rw [this] at hp
    unfold SMap.del at hp
    by_cases hkv : k = v
    · simp [hkv] at hp
    · simp only [hkv, if_false] at hp
      cases hk : sm.preds k with
      | none => simp [hk] at hp
      | some ps => simp [hk] at hp; exact c.inv.preds_bound k ps hk p hp

variable {A M B : List (List Nat)} {ru rv : List Nat}

/-- facts about a window representative -/
theorem wr_facts (c : MergeCtx G E sm gs uf0 u v)
    (hgs : gs = A ++ (u :: ru) :: (M ++ (v :: rv) :: B)) (w : Win G E sm u v A ru M rv B)
    {g : Nat} (hg : WR u M g) :
    g < sm.n ∧ rep1 sm u v g = g ∧ g ≠ v ∧
    inWin A.flatten.length (A.flatten.length + (u :: ru).length + M.flatten.length + (v :: rv).length)
      (getN (sm.mergeStep2 uf0 u v).sgIdx g) = true ∧
    ∃ rest, winGroup sm (sm.mergeStep2 uf0 u v) u (u :: ru) (v :: rv) g = g :: rest ∧
      (sm.mergeStep2 uf0 u v).sgLen g = some (winGroup sm (sm.mergeStep2 uf0 u v) u (u :: ru) (v :: rv) g).length ∧
      (∀ y ∈ winGroup sm (sm.mergeStep2 uf0 u v) u (u :: ru) (v :: rv) g, y < sm.n ∧ rep1 sm u v y = g) ∧
      (winGroup sm (sm.mergeStep2 uf0 u v) u (u :: ru) (v :: rv) g).Pairwise (NoBack G) ∧
      (winGroup sm (sm.mergeStep2 uf0 u v) u (u :: ru) (v :: rv) g).Nodup ∧
      (∀ y ∈ winGroup sm (sm.mergeStep2 uf0 u v) u (u :: ru) (v :: rv) g,
        y ∈ (u :: ru) ++ (M.flatten ++ (v :: rv))) ∧
      (g ≠ u → winGroup sm (sm.mergeStep2 uf0 u v) u (u :: ru) (v :: rv) g ∈ M) := by
  have hinv := c.inv
  have hgu_mem : (u :: ru) ∈ gs := by rw [hgs]; simp
  have hgv_mem : (v :: rv) ∈ gs := by rw [hgs]; simp
  have hpw := hinv.topo
  rw [hinv.order_eq, List.pairwise_flatten] at hpw
  have hnd := hinv.nodup
  rw [hinv.order_eq] at hnd
  have hndg : ∀ l ∈ gs, l.Nodup := (List.pairwise_flatten.1 hnd).1
  rcases hg with hgu | ⟨mg, hmg, hhead⟩
  · subst hgu
    have hr1 : rep1 sm g v g = g := by unfold rep1; simp [c.hru, c.huv]
    refine ⟨c.hu, hr1, c.huv, ?_, ru ++ (v :: rv), ?_, ?_, ?_, ?_, ?_, ?_, ?_⟩
    · rw [s2_getIdx_of_ne c.huv]
      simp only [getN, w.idx_u, Option.getD_some, inWin, Bool.and_eq_true, decide_eq_true_eq,
        List.length_cons]
      omega
    · simp [winGroup]
    · show ((sm.sgLen.del v).set g _) g = _
      have : getN (sm.sgLen.del v) g = (g :: ru).length := by
        simp [getN, SMap.del, c.huv, w.len_u]
      simp only [SMap.set, if_true, this]
      simp [winGroup, getN, w.len_v]
      omega
    · intro y hy
      simp only [winGroup, if_true] at hy
      rcases List.mem_append.1 hy with h | h
      · refine ⟨hinv.group_mem_lt hgu_mem h, ?_⟩
        unfold rep1; rw [w.rep_u y h]; simp [c.huv]
      · refine ⟨hinv.group_mem_lt hgv_mem h, ?_⟩
        unfold rep1; rw [w.rep_v y h]; simp
    · simp only [winGroup, if_true]
      rw [List.pairwise_append]
      exact ⟨hpw.1 _ hgu_mem, hpw.1 _ hgv_mem, w.cross_uv⟩
    · simp only [winGroup, if_true]
      rw [List.nodup_append]
      refine ⟨hndg _ hgu_mem, hndg _ hgv_mem, ?_⟩
      intro a ha b hb hab
      subst hab
      have h1 := w.rep_u a ha
      have h2 := w.rep_v a hb
      exact c.huv (h1.symm.trans h2)
    · intro y hy
      simp only [winGroup, if_true] at hy
      rcases List.mem_append.1 hy with h | h
      · exact List.mem_append_left _ h
      · exact List.mem_append_right _ (List.mem_append_right _ h)
    · intro h; exact absurd rfl h
  · obtain ⟨h, rest, hmg', hu', hv', hhn, hhr, hrep, hlen, i, hi, hlo, hhi, hslice⟩ :=
      w.mid_group c hgs hmg
    have e : h = g := by rw [hmg'] at hhead; simpa using hhead
    subst e
    have hmg_mem : mg ∈ gs := by rw [hgs]; simp [hmg]
    have hwg : winGroup sm (sm.mergeStep2 uf0 u v) u (u :: ru) (v :: rv) h = mg := by
      simp only [winGroup, hu', if_false]
      rw [s2_getIdx_of_ne hv', s2_getLen_of_ne hu' hv']
      simp only [getN, hi, hlen, Option.getD_some]
      exact hslice
    have hr1 : rep1 sm u v h = h := by unfold rep1; simp [hhr, hv']
    rw [hwg]
    refine ⟨hhn, hr1, hv', ?_, rest, hmg', ?_, ?_, hpw.1 _ hmg_mem, hndg _ hmg_mem, ?_, fun _ => hmg⟩
    · rw [s2_getIdx_of_ne hv']
      have hpos : 0 < mg.length := by rw [hmg']; simp
      simp only [getN, hi, Option.getD_some, inWin, Bool.and_eq_true, decide_eq_true_eq]
      omega
    · rw [s2_sgLen_of_ne hu' hv']; exact hlen
    · intro y hy
      refine ⟨hinv.group_mem_lt hmg_mem hy, ?_⟩
      unfold rep1; rw [hrep y hy]; simp [hv']
    · intro y hy
      exact List.mem_append_right _ (List.mem_append_left _ (List.mem_flatten.2 ⟨mg, hmg, hy⟩))

/-- the window's pure predecessor function stays inside the window representatives, and its
edges are edges of the merged quotient graph -/
theorem winP_spec (c : MergeCtx G E sm gs uf0 u v)
    (hgs : gs = A ++ (u :: ru) :: (M ++ (v :: rv) :: B)) (w : Win G E sm u v A ru M rv B)
    {x p : Nat} (hx : WR u M x)
    (hp : p ∈ winP sm (sm.mergeStep2 uf0 u v) u v A.flatten.length
      (A.flatten.length + (u :: ru).length + M.flatten.length + (v :: rv).length) x) :
    WR u M p ∧ p ≠ x ∧ ∃ y q, y < sm.n ∧ rep1 sm u v y = x ∧ q ∈ G y ∧ rep1 sm u v q = p := by
  obtain ⟨hxn, hxr, _, _, _⟩ := wr_facts c hgs w hx
  obtain ⟨ps, hps, hps_lt, hps_ns, hps_iff⟩ := step2_preds c x hxn hxr
  unfold winP at hp
  rw [getL_of_some hps, List.mem_filter, List.mem_map] at hp
  obtain ⟨⟨q, hq, rfl⟩, hin⟩ := hp
  have hne := hps_ns q hq
  refine ⟨?_, hne, (hps_iff _ hne).1 ⟨q, hq, rfl⟩⟩
  by_cases hpu : rep1 sm u v q = u
  · exact Or.inl hpu
  · right
    have hqn := hps_lt q hq
    obtain ⟨hold, hpv⟩ := (rep1_eq_of_ne_u c hpu).1 (rep1_idem c q)
    have hidx : getN (sm.mergeStep2 uf0 u v).sgIdx (rep1 sm u v q) = getN sm.sgIdx (rep1 sm u v q) :=
      s2_getIdx_of_ne hpv
    rw [hidx] at hin
    simp only [inWin, Bool.and_eq_true, decide_eq_true_eq] at hin
    exact w.in_window c hgs (rep1_lt c hqn) hold hpu hpv hin.1 hin.2

/-- conversely every edge of the merged quotient graph between window representatives is an
edge of the window's predecessor function -/
theorem winP_of_edge (c : MergeCtx G E sm gs uf0 u v)
    (hgs : gs = A ++ (u :: ru) :: (M ++ (v :: rv) :: B)) (w : Win G E sm u v A ru M rv B)
    {a b : Nat} (ha : WR u M a) (hb : WR u M b) (hab : b ≠ a)
    {x y : Nat} (hx : x < sm.n) (hxa : rep1 sm u v x = a) (hy : y ∈ G x) (hyb : rep1 sm u v y = b) :
    b ∈ winP sm (sm.mergeStep2 uf0 u v) u v A.flatten.length
      (A.flatten.length + (u :: ru).length + M.flatten.length + (v :: rv).length) a := by
  obtain ⟨han, har, _, _, _⟩ := wr_facts c hgs w ha
  obtain ⟨_, _, _, hbin, _⟩ := wr_facts c hgs w hb
  obtain ⟨ps, hps, _, _, hps_iff⟩ := step2_preds c a han har
  obtain ⟨q, hq, hqb⟩ := (hps_iff b hab).2 ⟨x, y, hx, hxa, hy, hyb⟩
  unfold winP
  rw [getL_of_some hps, List.mem_filter, List.mem_map]
  exact ⟨⟨q, hq, hqb⟩, hbin⟩

/-- the window's quotient graph after the merge has no cycle -/
theorem winP_acyclic (c : MergeCtx G E sm gs uf0 u v)
    (hgs : gs = A ++ (u :: ru) :: (M ++ (v :: rv) :: B)) (w : Win G E sm u v A ru M rv B)
    {cyc : List Nat}
    (hc : RealCycle (winP sm (sm.mergeStep2 uf0 u v) u v A.flatten.length
      (A.flatten.length + (u :: ru).length + M.flatten.length + (v :: rv).length)) cyc)
    (hall : ∀ x ∈ cyc, WR u M x) : False := by
  apply no_cycle_of_rank (mrank G sm u v) hc
  intro x hx p hp _
  obtain ⟨_, hne, y, q, hy, hyx, hq, hqp⟩ := winP_spec c hgs w (hall x hx) hp
  have hqn : q < sm.n := c.inv.gbound y hy q hq
  -- the old quotient edge behind it
  have hold : QE G sm (rootFn sm.uf q) (rootFn sm.uf y) := by
    refine ⟨?_, y, q, hy, rfl, hq, rfl⟩
    intro he
    apply hne
    rw [← hqp, ← hyx]
    exact rep1_congr he
  have h1 : rep1 sm u v (rootFn sm.uf q) = p := by
    rw [← hqp]; exact rep1_congr (rootFn_idem c.inv.ufok q)
  have h2 : rep1 sm u v (rootFn sm.uf y) = x := by
    rw [← hyx]; exact rep1_congr (rootFn_idem c.inv.ufok y)
  have := mrank_lt c hold (by rw [h1, h2]; exact hne)
  rwa [h1, h2] at this

end
end HvGraphAlg
