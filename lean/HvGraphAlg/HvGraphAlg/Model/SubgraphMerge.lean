/-
Model of `SubgraphMerge` (`dfir_lang/src/graph/graph_algorithms.rs`), transcribed line by line.
Keys are `Nat` (`0 .. n-1` = slotmap insertion order, which is also the `Ord` order of the keys
used by `BTreeSet` / `sort_unstable`).

Conventions
* `SecondaryMap` / `SparseSecondaryMap` = `SMap` (partial function).  `m[k]` on an absent key
  panics in Rust; the model reads a default (`getN`/`getL`).  Under the invariant of
  `Proofs/SMInv.lean` the keys `try_merge` reads are representatives, whose entries exist
  (`Inv.layout`, `Inv.preds`); the harness maps a real panic to the answer `panic`, which the
  model never produces on that path, so it shows up as a difference.
* `HashSet<K>` (enemy sets) = duplicate-free list; only `contains` is observable.
* `sort_unstable(); dedup()` and `collect::<BTreeSet<_>>()` = `toSortedSet` (the ascending
  duplicate-free list of the elements).
* `Vec` used as a stack (`stack.pop()`/`push`) = list with the top at the head.
* The `while let Some(x) = stack.pop()` loop takes fuel `n + 1` (each group is pushed at most once).
* `debug_assert!`s are not modelled, except the one in `subgraphs()` (the harness is built with
  debug assertions on, so a violated one is a `panic` answer).
-/
import HvGraphAlg.Model.Topo
import HvGraphAlg.Model.UnionFind
namespace HvGraphAlg

def getN (m : SMap Nat) (k : Nat) : Nat := (m k).getD 0
def getL (m : SMap (List Nat)) (k : Nat) : List Nat := (m k).getD []

/-- `&v[i .. i + len]` -/
def slice (l : List Nat) (i len : Nat) : List Nat := (l.drop i).take len

/-- `HashSet::insert` -/
def hsInsert (s : List Nat) (x : Nat) : List Nat := if s.contains x then s else s ++ [x]

/-- `window.contains(&i)` for `window = lo..hi` -/
def inWin (lo hi i : Nat) : Bool := decide (lo ≤ i) && decide (i < hi)

structure SM where
  /-- number of keys (bounds the fuel) -/
  n : Nat
  /-- `subgraph_preds` -/
  preds : SMap (List Nat)
  /-- `toposort_node` -/
  order : List Nat
  sgIdx : SMap Nat
  sgLen : SMap Nat
  /-- `subgraph_unionfind.links` -/
  uf : Links
  enemies : SMap (List Nat)

/-! ### `new` -/

/-- `enemies.entry(a).unwrap().or_default().insert(b)` -/
def addEnemy (e : SMap (List Nat)) (a b : Nat) : SMap (List Nat) := e.set a (hsInsert (getL e a) b)

/-- the `for (a, b) in enemies_iter` loop; `none` = the `assert_ne!` panics -/
def enemiesNew : List (Nat × Nat) → SMap (List Nat) → Option (SMap (List Nat))
  | [], e => some e
  | (a, b) :: rest, e =>
    if a = b then none else enemiesNew rest (addEnemy (addEnemy e a b) b a)

inductive NewRes
  | ok (sm : SM)
  | cyc (cycle : List Nat)
  | panic
  | fuel

/-- `SubgraphMerge::new(keys = 0..n, preds_fn, enemies_iter)` -/
def SM.new (n : Nat) (predsFn : Nat → List Nat) (enemyPairs : List (Nat × Nat)) : NewRes :=
  let preds : SMap (List Nat) := fun k => if k < n then some (predsFn k) else none
  match topoSort n (List.range n) (fun k => getL preds k) with
  | .cyc c => .cyc c
  | .fuel => .fuel
  | .ok order =>
    let sgIdx : SMap Nat := order.zipIdx.foldl (fun m p => m.set p.1 p.2) SMap.empty
    let sgLen : SMap Nat := order.foldl (fun m k => m.set k 1) SMap.empty
    match enemiesNew enemyPairs SMap.empty with
    | none => .panic
    | some enemies =>
      .ok { n := n, preds := preds, order := order, sgIdx := sgIdx, sgLen := sgLen,
            uf := SMap.empty, enemies := enemies }

/-! ### `find`, `same_set`, `subgraphs` -/

def SM.find (sm : SM) (k : Nat) : SM × Nat :=
  let r := findN sm.n sm.uf k
  ({ sm with uf := r.1 }, r.2)

def SM.sameSet (sm : SM) (a b : Nat) : SM × Bool :=
  let r := ufSame sm.n sm.uf a b
  ({ sm with uf := r.1 }, r.2)

/-- the `from_fn` iterator of `subgraphs()`; `none` = a panic (missing key, failed
`debug_assert_eq!(i, self.sg_idx[sg_node])`, slice out of range) or no progress -/
def subgraphsAux (sm : SM) : Nat → Nat → Option (List (List Nat))
  | 0, i => if sm.order.length ≤ i then some [] else none
  | fuel + 1, i =>
    match sm.order[i]? with
    | none => some []
    | some node =>
      match sm.sgLen node, sm.sgIdx node with
      | some len, some idx =>
        if idx = i ∧ i + len ≤ sm.order.length then
          (subgraphsAux sm fuel (i + len)).map (fun rest => slice sm.order i len :: rest)
        else none
      | _, _ => none

def SM.subgraphs (sm : SM) : Option (List (List Nat)) := subgraphsAux sm (sm.order.length + 1) 0

/-! ### `try_merge` -/

inductive MergeOut
  | merged     -- `true`
  | refused    -- `false`
  | bug        -- `expect("bug: cycle check passed but re-toposort found cycle")` or fuel exhausted
  deriving DecidableEq, Repr

/-- the `for &p in self.subgraph_preds[x].iter()` loop of the cycle check.
Returns `(uf, stack, visited, cycle_found)`. -/
def cycInner (n : Nat) (sgIdx : SMap Nat) (lo hi u v x : Nat) :
    List Nat → Links → List Nat → List Nat → Links × List Nat × List Nat × Bool
  | [], uf, stack, visited => (uf, stack, visited, false)
  | p :: ps, uf, stack, visited =>
    let r := findN n uf p
    let rootP := r.2
    if rootP = u then
      if x = v then cycInner n sgIdx lo hi u v x ps r.1 stack visited   -- `continue`
      else (r.1, stack, visited, true)                                -- `return false`
    else if inWin lo hi (getN sgIdx rootP) && !visited.contains rootP then
      cycInner n sgIdx lo hi u v x ps r.1 (rootP :: stack) (rootP :: visited)
    else cycInner n sgIdx lo hi u v x ps r.1 stack visited

/-- the `while let Some(x) = stack.pop()` loop.  `Res.cyc` = cycle found (`return false`),
`Res.ok` = loop finished, `Res.fuel` = fuel exhausted (unreachable). -/
def cycLoop (n : Nat) (preds : SMap (List Nat)) (sgIdx : SMap Nat) (lo hi u v : Nat) :
    Nat → List Nat → List Nat → Links → Links × Res
  | 0, _, _, uf => (uf, .fuel)
  | _ + 1, [], _, uf => (uf, .ok)
  | fuel + 1, x :: stack, visited, uf =>
    match cycInner n sgIdx lo hi u v x (getL preds x) uf stack visited with
    | (uf', _, _, true) => (uf', .cyc)
    | (uf', stack', visited', false) => cycLoop n preds sgIdx lo hi u v fuel stack' visited' uf'

/-- `self.enemies.get(u).is_some_and(|enemy_set| enemy_set.contains(&v))` -/
def enemyHas (e : SMap (List Nat)) (u v : Nat) : Bool :=
  match e u with
  | some s => s.contains v
  | none => false

/-- `for w in self.enemies.remove(v).into_iter().flatten() { … }` -/
def mergeEnemiesLoop (u v : Nat) : List Nat → SMap (List Nat) → SMap (List Nat)
  | [], e => e
  | w :: ws, e =>
    let e1 := e.set u (hsInsert (getL e u) w)
    let e2 := e1.set w (hsInsert ((getL e1 w).filter (fun z => z != v)) u)
    mergeEnemiesLoop u v ws e2

def mergeEnemies (e : SMap (List Nat)) (u v : Nat) : SMap (List Nat) :=
  match e v with
  | none => e
  | some ws => mergeEnemiesLoop u v ws (e.del v)

/-- the closure passed to `topo_sort` in step 3:
`subgraph_preds[k].iter().map(|&p| uf.find(p)).filter(|&p| window.contains(&sg_idx[p])).collect()` -/
def windowPreds (n : Nat) (preds : SMap (List Nat)) (sgIdx : SMap Nat) (lo hi : Nat)
    (uf : Links) (k : Nat) : Links × List Nat :=
  let r := mapFind n uf (getL preds k)
  (r.1, r.2.filter (fun p => inWin lo hi (getN sgIdx p)))

/-- `for &group in &sorted_groups { self.sg_idx[group] = pos; pos += self.sg_len[group]; }` -/
def assignIdx (sgLen : SMap Nat) : List Nat → Nat → SMap Nat → SMap Nat
  | [], _, m => m
  | g :: gs, pos, m => assignIdx sgLen gs (pos + getN sgLen g) (m.set g pos)

/-- the `buf` built in step 3 -/
def rebuildBuf (order : List Nat) (sgIdx sgLen : SMap Nat) (u : Nat) (uNodes vNodes : List Nat) :
    List Nat → List Nat
  | [] => []
  | g :: gs =>
    (if g = u then uNodes ++ vNodes else slice order (getN sgIdx g) (getN sgLen g))
      ++ rebuildBuf order sgIdx sgLen u uNodes vNodes gs

/-- step 2 of `try_merge` (union-find, predecessors, `sg_idx`/`sg_len`, enemies); `u` before `v`,
both representatives.  `toposort_node` is not touched. -/
def SM.mergeStep2 (sm : SM) (uf0 : Links) (u v : Nat) : SM :=
  let vLen := getN sm.sgLen v
  -- `UnionFind::union(u, v)`: `u` stays the representative
  let uf1 := (ufUnion sm.n uf0 u v).1
  -- `v_preds = subgraph_preds.remove(v)`, `u_preds.append(v_preds)`
  let vPreds := getL sm.preds v
  let preds1 := sm.preds.del v
  -- `retain_mut(|x| { *x = find(*x); *x != u })`, `sort_unstable()`, `dedup()`
  let mf := mapFind sm.n uf1 (getL preds1 u ++ vPreds)
  let uPreds := toSortedSet (mf.2.filter (fun x => x != u))
  { n := sm.n, preds := preds1.set u uPreds, order := sm.order,
    -- `sg_idx.remove(v)`, `v_len = sg_len.remove(v)`, `sg_len[u] += v_len`
    sgIdx := sm.sgIdx.del v,
    sgLen := (sm.sgLen.del v).set u (getN (sm.sgLen.del v) u + vLen),
    uf := mf.1, enemies := mergeEnemies sm.enemies u v }

/-- step 3 of `try_merge`: re-sort the groups in the window `lo..hi` and rebuild it -/
def SM.resortWindow (s2 : SM) (u lo hi : Nat) (uNodes vNodes : List Nat) : SM × MergeOut :=
  let mw := mapFind s2.n s2.uf (slice s2.order lo (hi - lo))
  let repsInWindow := toSortedSet mw.2
  match topoSortS s2.n repsInWindow (windowPreds s2.n s2.preds s2.sgIdx lo hi) mw.1 with
  | (.ok sorted, uf4) =>
    let buf := rebuildBuf s2.order s2.sgIdx s2.sgLen u uNodes vNodes sorted
    ({ s2 with order := s2.order.take lo ++ buf ++ s2.order.drop hi,
               sgIdx := assignIdx s2.sgLen sorted lo s2.sgIdx, uf := uf4 }, .merged)
  | (_, uf4) => ({ s2 with uf := uf4 }, .bug)

/-- steps 2 and 3 of `try_merge` (after the cycle check passed); `u` before `v`, both representatives -/
def SM.doMerge (sm : SM) (uf0 : Links) (u v : Nat) : SM × MergeOut :=
  let uIdx := getN sm.sgIdx u
  let uLen := getN sm.sgLen u
  let vIdx := getN sm.sgIdx v
  let vLen := getN sm.sgLen v
  -- `u_nodes`, `v_nodes`, `window` are taken before anything is modified
  let uNodes := slice sm.order uIdx uLen
  let vNodes := slice sm.order vIdx vLen
  (sm.mergeStep2 uf0 u v).resortWindow u uIdx (vIdx + vLen) uNodes vNodes

/-- `try_merge` -/
def SM.tryMerge (sm : SM) (u0 v0 : Nat) : SM × MergeOut :=
  -- 0. representatives, short circuit, enemy check, order `u` before `v`
  let r1 := findN sm.n sm.uf u0
  let u1 := r1.2
  let r2 := findN sm.n r1.1 v0
  let v1 := r2.2
  let uf0 := r2.1
  if u1 = v1 then ({ sm with uf := uf0 }, .merged)
  else if enemyHas sm.enemies u1 v1 then
    ({ sm with uf := uf0 }, .refused)
  else
    let u := if getN sm.sgIdx u1 < getN sm.sgIdx v1 then u1 else v1
    let v := if getN sm.sgIdx u1 < getN sm.sgIdx v1 then v1 else u1
    let lo := getN sm.sgIdx u
    let hi := getN sm.sgIdx v + getN sm.sgLen v
    -- 1. cycle check
    match cycLoop sm.n sm.preds sm.sgIdx lo hi u v (sm.n + 1) [v] [v] uf0 with
    | (uf', .cyc) => ({ sm with uf := uf' }, .refused)
    | (uf', .fuel) => ({ sm with uf := uf' }, .bug)
    | (uf', .ok) => SM.doMerge sm uf' u v

end HvGraphAlg
