/-
Model of `dfir_lang/src/union_find.rs` (`UnionFind<K>` over a `SecondaryMap<K, K>`),
transcribed line by line.  Keys are `Nat`; the `SecondaryMap` is a partial function.

`find` is recursive; the model takes fuel (= recursion depth).  `findN n` uses fuel `n + 1`
where `n` bounds the keys; `Proofs/UnionFind.lean` (`ufFind_spec`, exported as `uf_find_spec`) proves
that on every forest over keys `< n` this fuel is not exhausted (each recursive call removes one
non-self link below `n`) and the result is the root.
-/
namespace HvGraphAlg

/-- `SecondaryMap<K, V>` -/
abbrev SMap (α : Type) := Nat → Option α

def SMap.empty {α : Type} : SMap α := fun _ => none
def SMap.set {α : Type} (m : SMap α) (k : Nat) (v : α) : SMap α := fun x => if x = k then some v else m x
def SMap.del {α : Type} (m : SMap α) (k : Nat) : SMap α := fun x => if x = k then none else m x

/-- `UnionFind.links` -/
abbrev Links := SMap Nat

/--
```
pub fn find(&mut self, k: K) -> K {
    if let Some(next) = self.links.insert(k, k) {
        if k == next { return k; }
        self.links[k] = self.find(next);
    }
    self.links[k]
}
```
-/
def ufFind : Nat → Links → Nat → Links × Nat
  | 0, l, k => (l, k)                      -- out of fuel (unreachable, see `ufFind_spec`)
  | fuel + 1, l, k =>
    match l k with
    | none => (l.set k k, k)
    | some next =>
      if k = next then (l.set k k, k)
      else
        let r := ufFind fuel (l.set k k) next
        (r.1.set k r.2, r.2)

/-- `find` with the fuel that suffices for keys `< n` -/
def findN (n : Nat) (l : Links) (k : Nat) : Links × Nat := ufFind (n + 1) l k

/--
```
pub fn union(&mut self, a: K, b: K) -> K {
    let i = self.find(a);
    let j = self.find(b);
    self.links[j] = i;
    i
}
```
-/
def ufUnion (n : Nat) (l : Links) (a b : Nat) : Links × Nat :=
  let r1 := findN n l a
  let r2 := findN n r1.1 b
  (r2.1.set r2.2 r1.2, r1.2)

/-- `same_set`: `self.find(a) == self.find(b)` -/
def ufSame (n : Nat) (l : Links) (a b : Nat) : Links × Bool :=
  let r1 := findN n l a
  let r2 := findN n r1.1 b
  (r2.1, r1.2 == r2.2)

/-- `find` applied to each element of a list in order (iterator `.map(|p| uf.find(p))`) -/
def mapFind (n : Nat) : Links → List Nat → Links × List Nat
  | l, [] => (l, [])
  | l, k :: ks =>
    let r := findN n l k
    let rs := mapFind n r.1 ks
    (rs.1, r.2 :: rs.2)

end HvGraphAlg
