/-
`hvdrv_graphalg`: line-protocol driver for the C17 models.  One output line per input line.

  #case <n> <tags>        reset; echoes the line
  topo <ids> <adj>        `topo_sort(ids, |k| adj[k])`           -> ok <list> | cyc <list>
  validate <order> <adj>  `validate_topo_sort(order, |k| adj[k])` -> ok | err <pred>,<succ> | panic
  uf <n>                  fresh `UnionFind` over keys 0..n-1     -> ok
  union <a> <b>           -> representative
  find <a>                -> representative        (on the live `UnionFind` or `SubgraphMerge`)
  same <a> <b>            -> true | false
  new <adj> <enemies>     `SubgraphMerge::new(0..n, adj, enemies)` -> ok <subgraphs> | cyc <list> | panic
  merge <a> <b>           `try_merge(a, b)` -> true <subgraphs> | false <subgraphs> | panic

<list>      comma separated ids, `-` when empty
<adj>       one <list> per node `0..n-1`, separated by `;` (`.` for the graph without nodes)
<enemies>   pairs `a:b` separated by `;`, `-` when empty
<subgraphs> the slices yielded by `subgraphs()`, each a <list>, separated by `|` (`-` when none,
            `panic` when the iterator panics)
Anything else, or an id out of range -> bad-op.  After a `panic` answer the object is dead
(every further op on it -> bad-op).
-/
import HvGraphAlg.Model.SubgraphMerge
open HvGraphAlg

/-! Driver-only: between two input lines the partial maps of the live object are stored as
tables over the keys `< n` (the model represents maps as closures and every `set` adds a layer,
which makes long cases slow).  `tableLookup (tabulate n m)` agrees with `m` on all keys `< n`,
and no key `≥ n` is ever read or written. -/

@[noinline] def tableLookup {α : Type} (arr : Array (Option α)) : SMap α :=
  fun k => if h : k < arr.size then arr[k] else none

@[noinline] def tabulate {α : Type} (n : Nat) (m : SMap α) : Array (Option α) :=
  Array.ofFn (n := n) (fun i => m i.val)

structure SMT where
  n : Nat
  preds : Array (Option (List Nat))
  order : List Nat
  sgIdx : Array (Option Nat)
  sgLen : Array (Option Nat)
  uf : Array (Option Nat)
  enemies : Array (Option (List Nat))

def SMT.toSM (t : SMT) : SM :=
  { n := t.n, preds := tableLookup t.preds, order := t.order, sgIdx := tableLookup t.sgIdx,
    sgLen := tableLookup t.sgLen, uf := tableLookup t.uf, enemies := tableLookup t.enemies }

def SMT.ofSM (s : SM) : SMT :=
  { n := s.n, preds := tabulate s.n s.preds, order := s.order, sgIdx := tabulate s.n s.sgIdx,
    sgLen := tabulate s.n s.sgLen, uf := tabulate s.n s.uf, enemies := tabulate s.n s.enemies }

inductive Obj
  | none
  | uf (n : Nat) (l : Array (Option Nat))
  | sm (s : SMT)

def parseList (s : String) : Option (List Nat) :=
  if s == "-" then some [] else (s.splitOn ",").mapM (fun p => p.toNat?)

def parseAdj (s : String) : Option (List (List Nat)) :=
  if s == "." then some [] else (s.splitOn ";").mapM parseList

def parsePair (s : String) : Option (Nat × Nat) :=
  match s.splitOn ":" with
  | [a, b] => match a.toNat?, b.toNat? with
    | some x, some y => some (x, y)
    | _, _ => none
  | _ => none

def parsePairs (s : String) : Option (List (Nat × Nat)) :=
  if s == "-" then some [] else (s.splitOn ";").mapM parsePair

def showL (l : List Nat) : String := if l.isEmpty then "-" else ",".intercalate (l.map toString)

def showSubgraphs (sm : SM) : String :=
  match sm.subgraphs with
  | none => "panic"
  | some gs => if gs.isEmpty then "-" else "|".intercalate (gs.map showL)

def adjOk (adj : List (List Nat)) : Bool := adj.all (fun ps => ps.all (fun p => p < adj.length))

def adjFn (adj : List (List Nat)) (k : Nat) : List Nat := adj.getD k []

def showBool (b : Bool) : String := if b then "true" else "false"

def step (st : Obj) (line : String) : Obj × String :=
  let t := line.trimAscii.toString
  match t.splitOn " " with
  | "#case" :: _ => (.none, t)
  | ["topo", ids, adj] =>
    match parseList ids, parseAdj adj with
    | some ids, some adj =>
      if adjOk adj && ids.all (fun i => i < adj.length) then
        match topoSort adj.length ids (adjFn adj) with
        | .ok o => (st, s!"ok {showL o}")
        | .cyc c => (st, s!"cyc {showL c}")
        | .fuel => (st, "fuel")
      else (st, "bad-op")
    | _, _ => (st, "bad-op")
  | ["validate", order, adj] =>
    match parseList order, parseAdj adj with
    | some order, some adj =>
      if adjOk adj && order.all (fun i => i < adj.length) then
        match validateTopoSort order (adjFn adj) with
        | .ok => (st, "ok")
        | .err p s => (st, s!"err {p},{s}")
        | .panic => (st, "panic")
      else (st, "bad-op")
    | _, _ => (st, "bad-op")
  | ["uf", n] =>
    match n.toNat? with
    | some n => (.uf n (tabulate n SMap.empty), "ok")
    | none => (st, "bad-op")
  | ["union", a, b] =>
    match st, a.toNat?, b.toNat? with
    | .uf n l, some a, some b =>
      if a < n && b < n then let r := ufUnion n (tableLookup l) a b; (.uf n (tabulate n r.1), toString r.2) else (st, "bad-op")
    | _, _, _ => (st, "bad-op")
  | ["find", a] =>
    match st, a.toNat? with
    | .uf n l, some a =>
      if a < n then let r := findN n (tableLookup l) a; (.uf n (tabulate n r.1), toString r.2) else (st, "bad-op")
    | .sm s, some a =>
      if a < s.n then let r := s.toSM.find a; (.sm (SMT.ofSM r.1), toString r.2) else (st, "bad-op")
    | _, _ => (st, "bad-op")
  | ["same", a, b] =>
    match st, a.toNat?, b.toNat? with
    | .uf n l, some a, some b =>
      if a < n && b < n then let r := ufSame n (tableLookup l) a b; (.uf n (tabulate n r.1), showBool r.2) else (st, "bad-op")
    | .sm s, some a, some b =>
      if a < s.n && b < s.n then let r := s.toSM.sameSet a b; (.sm (SMT.ofSM r.1), showBool r.2) else (st, "bad-op")
    | _, _, _ => (st, "bad-op")
  | ["new", adj, en] =>
    match parseAdj adj, parsePairs en with
    | some adj, some en =>
      if adjOk adj && en.all (fun p => p.1 < adj.length && p.2 < adj.length) then
        match SM.new adj.length (adjFn adj) en with
        | .ok sm => let t := SMT.ofSM sm; (.sm t, s!"ok {showSubgraphs t.toSM}")
        | .cyc c => (.none, s!"cyc {showL c}")
        | .panic => (.none, "panic")
        | .fuel => (.none, "fuel")
      else (st, "bad-op")
    | _, _ => (st, "bad-op")
  | ["merge", a, b] =>
    match st, a.toNat?, b.toNat? with
    | .sm s, some a, some b =>
      if a < s.n && b < s.n then
        match s.toSM.tryMerge a b with
        | (s', .merged) => let t := SMT.ofSM s'; (.sm t, s!"true {showSubgraphs t.toSM}")
        | (s', .refused) => let t := SMT.ofSM s'; (.sm t, s!"false {showSubgraphs t.toSM}")
        | (_, .bug) => (.none, "panic")
      else (st, "bad-op")
    | _, _, _ => (st, "bad-op")
  | _ => (st, "bad-op")

partial def loop (h : IO.FS.Stream) (out : IO.FS.Stream) (st : Obj) : IO Unit := do
  let line ← h.getLine
  if line.isEmpty then return ()
  let (st', o) := step st line
  out.putStrLn o
  loop h out st'

def main : IO Unit := do
  let stdin ← IO.getStdin
  let stdout ← IO.getStdout
  loop stdin stdout .none
