/-
C17 — graph ordering and subgraph-merging algorithms are correct.

Models: `Model/Topo.lean` (`topo_sort`, `validate_topo_sort`), `Model/UnionFind.lean`
(`dfir_lang::union_find::UnionFind`), `Model/SubgraphMerge.lean` (`SubgraphMerge`), all
transcriptions of `/repo/dfir_lang/src/graph/graph_algorithms.rs` and `union_find.rs`.
Proof scripts of the lemmas used here are in `Proofs/*.lean`.

An edge `p → x` of the graph is `p ∈ P x` (`P` = the predecessor function).
-/
import HvGraphAlg.Proofs.Topo
import HvGraphAlg.Proofs.UFHistory
import HvGraphAlg.Proofs.SMSubgraphs
import HvGraphAlg.Proofs.SMQuotient
import HvGraphAlg.Proofs.Validate
namespace HvGraphAlg

/-! ## `topo_sort` -/

/-- `x` is reachable from one of `ids` by following predecessor edges backwards
(these are exactly the nodes `topo_sort` visits) -/
inductive ReachFrom (P : Nat → List Nat) (ids : List Nat) : Nat → Prop
  | start {i : Nat} : i ∈ ids → ReachFrom P ids i
  | pred {x p : Nat} : ReachFrom P ids x → p ∈ P x → ReachFrom P ids p

/-- the graph is finite: ids and predecessors are `< n` -/
structure Bounded (n : Nat) (ids : List Nat) (P : Nat → List Nat) : Prop where
  ids : ∀ i ∈ ids, i < n
  preds : ∀ k, k < n → ∀ p ∈ P k, p < n

theorem aux_topoSort_spec {n : Nat} {ids : List Nat} {P : Nat → List Nat} (hb : Bounded n ids P) :
    match topoSort n ids P with
    | .ok o => o.Nodup ∧ Resp P o ∧ (∀ i ∈ ids, i ∈ o) ∧ (∀ x ∈ o, x < n ∧ ReachFrom P ids x)
    | .cyc c => RealCycle P c ∧ (∀ x ∈ c, x < n ∧ ReachFrom P ids x)
    | .fuel => False := by
  have h := topoSortS_spec (σ := Unit) (fun s k => (s, P k)) (P := P)
    (R := fun x => x < n ∧ ReachFrom P ids x) (I := fun _ => True) (n := n)
    (fun _ _ _ => rfl) (fun _ _ _ => trivial)
    (fun x hx p hp => ⟨hb.preds x hx.1 p hp, .pred hx.2 hp⟩) (fun x hx => hx.1)
    ids () (fun i hi => ⟨hb.ids i hi, .start hi⟩) trivial
  unfold topoSort
  generalize topoSortS n ids (fun (s : Unit) k => (s, P k)) () = out at h
  obtain ⟨r, s⟩ := out
  cases r with
  | ok o => exact ⟨h.1, h.2.1, h.2.2.1, h.2.2.2.1⟩
  | cyc c => exact ⟨h.1, h.2.1⟩
  | fuel => exact h

/-- The recursion of `topo_sort` terminates: the model's fuel (`n + 1`) is never exhausted. -/
theorem topoSort_total {n : Nat} {ids : List Nat} {P : Nat → List Nat} (hb : Bounded n ids P) :
    topoSort n ids P ≠ .fuel := by
  intro h
  have := aux_topoSort_spec hb
  rw [h] at this
  exact this

theorem aux_resp_idx_lt {P : Nat → List Nat} {o : List Nat} (ho : Resp P o) (hn : o.Nodup) {x p : Nat}
    (hx : x ∈ o) (hp : p ∈ P x) : o.idxOf p < o.idxOf x := by
  obtain ⟨l1, l2, rfl⟩ := List.append_of_mem hx
  have hp1 : p ∈ l1 := ho.split l1 x l2 rfl p hp
  have hxnot : x ∉ l1 := by
    intro hx1
    exact (List.nodup_append.1 hn).2.2 x hx1 x (by simp) rfl
  rw [List.idxOf_append, if_pos hp1, List.idxOf_append, if_neg hxnot]
  have := List.idxOf_lt_length_of_mem hp1
  simp
  omega

/-- On `Ok(order)`: every node is listed once, the nodes are exactly those reachable from `ids`
through predecessor edges, and every edge `p → x` has `p` strictly before `x`. -/
theorem topoSort_ok_respects_edges {n : Nat} {ids : List Nat} {P : Nat → List Nat}
    (hb : Bounded n ids P) {o : List Nat} (h : topoSort n ids P = .ok o) :
    o.Nodup ∧ (∀ x, x ∈ o ↔ ReachFrom P ids x) ∧
      (∀ x ∈ o, ∀ p ∈ P x, p ∈ o ∧ o.idxOf p < o.idxOf x) := by
  have hs := aux_topoSort_spec hb
  rw [h] at hs
  obtain ⟨hnd, hresp, hids, hR⟩ := hs
  refine ⟨hnd, fun x => ⟨fun hx => (hR x hx).2, fun hx => ?_⟩, fun x hx p hp =>
    ⟨hresp.closed x hx p hp, aux_resp_idx_lt hresp hnd hx hp⟩⟩
  induction hx with
  | start hi => exact hids _ hi
  | pred _ hp ih => exact hresp.closed _ ih _ hp

/-- When `ids` lists all nodes `0 .. n-1`, `Ok(order)` is a permutation of the nodes. -/
theorem topoSort_ok_perm {n : Nat} {ids : List Nat} {P : Nat → List Nat}
    (hb : Bounded n ids P) (hall : ∀ x, x < n → x ∈ ids) {o : List Nat}
    (h : topoSort n ids P = .ok o) : o.Perm (List.range n) := by
  have hs := aux_topoSort_spec hb
  rw [h] at hs
  obtain ⟨hnd, _, hids, hR⟩ := hs
  rw [List.perm_iff_count]
  intro a
  rw [hnd.count, List.nodup_range.count]
  have : a ∈ o ↔ a ∈ List.range n := by
    rw [List.mem_range]
    exact ⟨fun ha => (hR a ha).1, fun ha => hids a (hall a ha)⟩
  simp [this]

/-- On `Err(cycle)`: the reported cycle is genuine — non-empty, every node once, consecutive
nodes joined by edges, the last node has an edge to the first — and lies in the visited part. -/
theorem topoSort_err_is_cycle {n : Nat} {ids : List Nat} {P : Nat → List Nat}
    (hb : Bounded n ids P) {c : List Nat} (h : topoSort n ids P = .cyc c) :
    RealCycle P c ∧ ∀ x ∈ c, ReachFrom P ids x := by
  have hs := aux_topoSort_spec hb
  rw [h] at hs
  exact ⟨hs.1, fun x hx => (hs.2 x hx).2⟩

/-- `topo_sort` succeeds exactly when the part of the graph it visits is acyclic. -/
theorem topoSort_ok_iff_acyclic {n : Nat} {ids : List Nat} {P : Nat → List Nat}
    (hb : Bounded n ids P) :
    (∃ o, topoSort n ids P = .ok o) ↔ ¬ ∃ c, RealCycle P c ∧ ∀ x ∈ c, ReachFrom P ids x := by
  constructor
  · rintro ⟨o, ho⟩ ⟨c, hc, hreach⟩
    have hs := aux_topoSort_spec hb
    rw [ho] at hs
    have hspec := topoSort_ok_respects_edges hb ho
    exact resp_no_cycle hs.2.1 hs.1 hc (fun x hx => (hspec.2.1 x).2 (hreach x hx))
  · intro hno
    cases hr : topoSort n ids P with
    | ok o => exact ⟨o, rfl⟩
    | cyc c => exact absurd ⟨c, topoSort_err_is_cycle hb hr⟩ hno
    | fuel => exact absurd hr (topoSort_total hb)

/-- The same guarantees hold when the predecessor closure is stateful (`FnMut`, as the closure
`try_merge` passes) as long as the predecessors it returns are those of a fixed graph `P`
whenever an invariant `I` of the captured state holds; `I` is preserved. -/
theorem topoSortS_ok_or_cycle {σ : Type} {n : Nat} {ids : List Nat} {P : Nat → List Nat}
    (hb : Bounded n ids P) (predsFn : σ → Nat → σ × List Nat) (I : σ → Prop)
    (hP : ∀ s k, I s → (predsFn s k).2 = P k) (hI : ∀ s k, I s → I (predsFn s k).1) (s : σ) (hs : I s) :
    match topoSortS n ids predsFn s with
    | (.ok o, s') => o.Nodup ∧ (∀ i ∈ ids, i ∈ o) ∧
        (∀ x ∈ o, ∀ p ∈ P x, p ∈ o ∧ o.idxOf p < o.idxOf x) ∧ I s'
    | (.cyc c, s') => RealCycle P c ∧ I s'
    | (.fuel, _) => False := by
  have h := topoSortS_spec predsFn (P := P) (R := fun x => x < n ∧ ReachFrom P ids x) (I := I) (n := n)
    hP hI (fun x hx p hp => ⟨hb.preds x hx.1 p hp, .pred hx.2 hp⟩) (fun x hx => hx.1)
    ids s (fun i hi => ⟨hb.ids i hi, .start hi⟩) hs
  generalize topoSortS n ids predsFn s = out at h
  obtain ⟨r, s'⟩ := out
  cases r with
  | ok o =>
    exact ⟨h.1, h.2.2.1, fun x hx p hp => ⟨h.2.1.closed x hx p hp, aux_resp_idx_lt h.2.1 h.1 hx hp⟩,
      h.2.2.2.2⟩
  | cyc c => exact ⟨h.1, h.2.2⟩
  | fuel => exact h

/-- `validate_topo_sort` is exact on duplicate-free orders: `Ok(())` iff every predecessor of every
listed node is listed strictly earlier. -/
theorem validateTopoSort_ok_iff {order : List Nat} (hn : order.Nodup) (P : Nat → List Nat) :
    validateTopoSort order P = .ok ↔
      ∀ s ∈ order, ∀ p ∈ P s, p ∈ order ∧ order.idxOf p < order.idxOf s :=
  validate_ok_iff hn P

example : validateTopoSort [0, 2, 1, 3] (fun k => [[], [0], [1], [1, 2]].getD k []) = .err 1 2 := by decide

-- non-vacuity: the diamond `0 → 1, 0 → 2, 1 → 3, 2 → 3` and the 3-cycle `0 → 1 → 2 → 0`
example : topoSort 4 [3, 2, 1, 0] (fun k => [[], [0], [0], [1, 2]].getD k []) = .ok [0, 1, 2, 3] := by decide
example : topoSort 3 [0, 1, 2] (fun k => [[2], [0], [1]].getD k []) = .cyc [1, 2, 0] := by decide
example : Bounded 3 [0, 1, 2] (fun k => [[2], [0], [1]].getD k []) :=
  ⟨by decide, by
    intro k hk p hp
    have : k = 0 ∨ k = 1 ∨ k = 2 := by omega
    rcases this with rfl | rfl | rfl <;> simp at hp <;> omega⟩

/-! ## `UnionFind` -/

/-- `find` returns the root of `k`'s tree, leaves every root unchanged (path compression is
unobservable), keeps the structure a forest — and its recursion terminates within the model's fuel. -/
theorem uf_find_spec {n : Nat} {l : Links} {k : Nat} (hok : UFOk n l) (hk : k < n) :
    UFOk n (findN n l k).1 ∧ RootOf l k (findN n l k).2 ∧
      ∀ j rj, RootOf l j rj ↔ RootOf (findN n l k).1 j rj :=
  let h := findN_spec hok hk
  ⟨h.ok, h.root, h.same⟩

/-- `union(a, b)` returns `a`'s old representative, which now represents both classes; all other
classes keep their representative ("prefers to keep `a`'s representative unchanged"). -/
theorem uf_union_spec {n : Nat} {l : Links} {a b : Nat} (hok : UFOk n l) (ha : a < n) (hb : b < n) :
    ∃ i j, RootOf l a i ∧ RootOf l b j ∧ (ufUnion n l a b).2 = i ∧ UFOk n (ufUnion n l a b).1 ∧
      ∀ x rx, RootOf l x rx → RootOf (ufUnion n l a b).1 x (if rx = j then i else rx) :=
  ufUnion_spec hok ha hb

/-- The union-find answers connectivity correctly: after *any* history of `union` / `find` /
`same_set` calls on a fresh structure, `same_set(a, b)` is true iff `a` and `b` are connected by
the unioned pairs (equivalence closure). -/
theorem uf_same_iff_connected {n : Nat} (ops : List UfOp) (hb : ∀ op ∈ ops, op.bounded n)
    {a b : Nat} (ha : a < n) (hb' : b < n) :
    (ufSame n (ufRun n ops) a b).2 = true ↔ Conn (unionedPairs ops) a b := by
  have hinv := ufRun_inv ops hb
  rw [(ufSame_spec hinv.ok ha hb').2.2]
  exact hinv.conn a b

/-- … and `find(a)` is a member of `a`'s class, equal for two keys iff they are connected. -/
theorem uf_find_iff_connected {n : Nat} (ops : List UfOp) (hb : ∀ op ∈ ops, op.bounded n)
    {a b : Nat} (ha : a < n) (hb' : b < n) :
    Conn (unionedPairs ops) a (findN n (ufRun n ops) a).2 ∧
      ((findN n (ufRun n ops) a).2 = (findN n (ufRun n ops) b).2 ↔ Conn (unionedPairs ops) a b) := by
  have hinv := ufRun_inv ops hb
  have h1 := findN_spec hinv.ok ha
  have h2 := findN_spec hinv.ok hb'
  refine ⟨(hinv.conn _ _).1 ⟨_, h1.root, .root h1.root.isRoot⟩, ?_⟩
  rw [← hinv.conn a b]
  constructor
  · intro e; exact ⟨_, h1.root, e ▸ h2.root⟩
  · rintro ⟨r, hr1, hr2⟩
    rw [RootOf.unique h1.root hr1, RootOf.unique h2.root hr2]

example : (ufSame 4 (ufRun 4 [.union 0 1, .same 0 3, .union 2 0]) 1 2).2 = true := by decide
example : (ufSame 4 (ufRun 4 [.union 0 1, .same 0 3, .union 2 0]) 1 3).2 = false := by decide

/-! ## `SubgraphMerge`

`Inv G E sm gs` (`Proofs/SMInv.lean`) is the invariant, for the node graph `G` and the enemy pairs
`E` given to `new`, with `gs` the list of groups in layout order:
* `order` is a permutation of the nodes and equals `gs.flatten` — every group is contiguous;
* each group starts with its representative, all its members have that representative
  (so a group is exactly a union-find class), and `sg_idx` / `sg_len` of the representative are
  the start and length of its range (`Layout`);
* `order` is a topological order of the node graph (`Pairwise (NoBack G)`: no later node is a
  predecessor of an earlier one) — in particular of the quotient graph over groups;
* `subgraph_preds` of a representative describes the incoming quotient edges of its group;
* the enemy set of a representative is the set of representatives of the classes joined to it
  by an enemy pair, and no enemy pair lies inside one class (`apart`).
-/

/-- `new` succeeds with every node in its own group and establishes the invariant. -/
theorem new_establishes_Inv {n : Nat} {G : Nat → List Nat} {E : List (Nat × Nat)} {sm : SM}
    (hG : ∀ k, k < n → ∀ p ∈ G k, p < n) (hE : ∀ a b, (a, b) ∈ E → a < n ∧ b < n)
    (h : SM.new n G E = .ok sm) : Inv G E sm (sm.order.map (fun x => [x])) ∧ sm.n = n :=
  new_inv hG hE h

/-- `try_merge` answers `false` exactly when the two nodes are in different groups and either an
enemy pair joins the two groups or a third group lies on a path between them in the quotient
graph (merging would close a cycle through it). -/
theorem tryMerge_refuses_iff {G : Nat → List Nat} {E : List (Nat × Nat)} {sm : SM} {gs : List (List Nat)}
    (h : Inv G E sm gs) {u0 v0 : Nat} (hu0 : u0 < sm.n) (hv0 : v0 < sm.n) :
    (sm.tryMerge u0 v0).2 = .refused ↔
      rootFn sm.uf u0 ≠ rootFn sm.uf v0 ∧
        (EnemyConflict E sm (rootFn sm.uf u0) (rootFn sm.uf v0) ∨
          MergeCycle G sm (rootFn sm.uf u0) (rootFn sm.uf v0) ∨
          MergeCycle G sm (rootFn sm.uf v0) (rootFn sm.uf u0)) :=
  tryMerge_refused_iff h hu0 hv0

/-- "Refuses a merge only when it would create a cycle or conflict", with the cycle stated
independently of how `try_merge` searches for it: `MergeWouldCycle G sm a b` says that the quotient
graph of the partition in which the groups of `a` and `b` are one group (`MergedSame`) has a
cycle (`MPlus … x x`: one or more group-to-group edges from a node's group back to itself).
`try_merge` answers `false` exactly when the nodes are in different groups and an enemy pair joins
the two groups or merging them would make the quotient graph cyclic. -/
theorem tryMerge_refuses_iff_cycle_or_conflict {G : Nat → List Nat} {E : List (Nat × Nat)} {sm : SM}
    {gs : List (List Nat)} (h : Inv G E sm gs) {u0 v0 : Nat} (hu0 : u0 < sm.n) (hv0 : v0 < sm.n) :
    (sm.tryMerge u0 v0).2 = .refused ↔
      rootFn sm.uf u0 ≠ rootFn sm.uf v0 ∧
        (EnemyConflict E sm (rootFn sm.uf u0) (rootFn sm.uf v0) ∨
          MergeWouldCycle G sm (rootFn sm.uf u0) (rootFn sm.uf v0)) := by
  rw [tryMerge_refused_iff h hu0 hv0]
  constructor
  · rintro ⟨hne, hc⟩
    refine ⟨hne, ?_⟩
    rw [mergeWouldCycle_iff h (rootFn_lt h.ufok hu0) (rootFn_lt h.ufok hv0)
      (rootFn_idem h.ufok u0) (rootFn_idem h.ufok v0) hne]
    exact hc
  · rintro ⟨hne, hc⟩
    refine ⟨hne, ?_⟩
    rw [mergeWouldCycle_iff h (rootFn_lt h.ufok hu0) (rootFn_lt h.ufok hv0)
      (rootFn_idem h.ufok u0) (rootFn_idem h.ufok v0) hne] at hc
    exact hc

/-- A refused merge, and a merge of two nodes already in one group, keep the order, the groups
and the invariant (only path compression happens). -/
theorem tryMerge_refused_preserves_Inv {G : Nat → List Nat} {E : List (Nat × Nat)} {sm : SM}
    {gs : List (List Nat)} (h : Inv G E sm gs) {u0 v0 : Nat} (hu0 : u0 < sm.n) (hv0 : v0 < sm.n)
    (hr : (sm.tryMerge u0 v0).2 = .refused ∨ rootFn sm.uf u0 = rootFn sm.uf v0) :
    Inv G E (sm.tryMerge u0 v0).1 gs ∧ (sm.tryMerge u0 v0).1.order = sm.order ∧
      rootFn (sm.tryMerge u0 v0).1.uf = rootFn sm.uf :=
  let h' := tryMerge_noop_inv h hu0 hv0 hr
  ⟨h'.1, h'.2.1, h'.2.2.1⟩

/-- `try_merge` preserves the invariant on every call (so groups stay contiguous ranges of a valid
topological node order, no group contains an enemy pair, and the quotient graph stays acyclic);
a refused call changes neither the order nor the groups; a successful call joins exactly the two
classes.  In particular the `expect("bug: cycle check passed but re-toposort found cycle")`, the
cycle-check fuel and the `topo_sort` fuel are never hit (`.bug` is not an outcome). -/
theorem tryMerge_preserves_Inv {G : Nat → List Nat} {E : List (Nat × Nat)} {sm : SM} {gs : List (List Nat)}
    (h : Inv G E sm gs) {u0 v0 : Nat} (hu0 : u0 < sm.n) (hv0 : v0 < sm.n) :
    ∃ gs', Inv G E (sm.tryMerge u0 v0).1 gs' ∧ (sm.tryMerge u0 v0).1.n = sm.n ∧
      (((sm.tryMerge u0 v0).2 = .refused ∧ gs' = gs ∧ (sm.tryMerge u0 v0).1.order = sm.order ∧
          rootFn (sm.tryMerge u0 v0).1.uf = rootFn sm.uf) ∨
       ((sm.tryMerge u0 v0).2 = .merged ∧ ∀ x y,
          rootFn (sm.tryMerge u0 v0).1.uf x = rootFn (sm.tryMerge u0 v0).1.uf y ↔
            (rootFn sm.uf x = rootFn sm.uf y ∨
              ((rootFn sm.uf x = rootFn sm.uf u0 ∨ rootFn sm.uf x = rootFn sm.uf v0) ∧
               (rootFn sm.uf y = rootFn sm.uf u0 ∨ rootFn sm.uf y = rootFn sm.uf v0))))) :=
  tryMerge_inv h hu0 hv0

/-- … hence by induction after every sequence of merge attempts. -/
theorem merge_sequences_preserve_Inv {G : Nat → List Nat} {E : List (Nat × Nat)}
    (ops : List (Nat × Nat)) (sm : SM) (gs : List (List Nat)) (h : Inv G E sm gs)
    (hb : ∀ p ∈ ops, p.1 < sm.n ∧ p.2 < sm.n) :
    ∃ gs', Inv G E (runMerges sm ops) gs' ∧ (runMerges sm ops).n = sm.n :=
  runMerges_inv ops sm gs h hb

/-- `new` followed by any sequence of merge attempts: the invariant holds. -/
theorem new_then_merges_Inv {n : Nat} {G : Nat → List Nat} {E : List (Nat × Nat)} {sm : SM}
    (hG : ∀ k, k < n → ∀ p ∈ G k, p < n) (hE : ∀ a b, (a, b) ∈ E → a < n ∧ b < n)
    (h : SM.new n G E = .ok sm) (ops : List (Nat × Nat)) (hb : ∀ p ∈ ops, p.1 < n ∧ p.2 < n) :
    ∃ gs', Inv G E (runMerges sm ops) gs' := by
  obtain ⟨hinv, hn⟩ := new_inv hG hE h
  obtain ⟨gs', h', _⟩ := runMerges_inv ops sm _ hinv (by rw [hn]; exact hb)
  exact ⟨gs', h'⟩

/-- The union-find inside `SubgraphMerge` answers group membership: under the invariant
`same_set(a, b)` is true exactly when `a` and `b` lie in one group of `subgraphs()`, and `find(a)`
is the first node of `a`'s group. -/
theorem sameSet_find_agree_with_groups {G : Nat → List Nat} {E : List (Nat × Nat)} {sm : SM}
    {gs : List (List Nat)} (h : Inv G E sm gs) {a b : Nat} (ha : a < sm.n) (hb : b < sm.n) :
    ((sm.sameSet a b).2 = true ↔ ∃ g ∈ gs, a ∈ g ∧ b ∈ g) ∧
      ∃ rest, ((sm.find a).2 :: rest) ∈ gs ∧ a ∈ (sm.find a).2 :: rest := by
  have hfa : (sm.find a).2 = rootFn sm.uf a := (findN_rootFn h.ufok ha).2.1
  obtain ⟨hra, hrra⟩ := h.rep_of_mem ha
  obtain ⟨A, rest, B, hgs, _, _, _⟩ := h.rep_group hra hrra
  have hmem : (rootFn sm.uf a :: rest) ∈ gs := by rw [hgs]; simp
  refine ⟨?_, rest, by rw [hfa]; exact hmem, by rw [hfa]; exact h.mem_group hmem ha rfl⟩
  have hs : (sm.sameSet a b).2 = true ↔ rootFn sm.uf a = rootFn sm.uf b := by
    show (ufSame sm.n sm.uf a b).2 = true ↔ _
    rw [(ufSame_spec h.ufok ha hb).2.2]
    constructor
    · rintro ⟨r, h1, h2⟩; rw [rootFn_eq h.ufok h1, rootFn_eq h.ufok h2]
    · intro e; exact ⟨_, rootFn_spec h.ufok a, e ▸ rootFn_spec h.ufok b⟩
  rw [hs]
  constructor
  · intro e
    exact ⟨_, hmem, h.mem_group hmem ha rfl, h.mem_group hmem hb e.symm⟩
  · rintro ⟨g, hg, hag, hbg⟩
    obtain ⟨r, _, _, hr⟩ := h.layout.group g hg
    rw [hr a hag, hr b hbg]

/-! ### all histories of the public API (`try_merge`, `find`, `same_set`) -/

/-- one call on a live `SubgraphMerge` -/
inductive SmOp
  | merge (a b : Nat)
  | find (a : Nat)
  | same (a b : Nat)

def SmOp.bounded (n : Nat) : SmOp → Prop
  | .merge a b => a < n ∧ b < n
  | .find a => a < n
  | .same a b => a < n ∧ b < n

def smStep (sm : SM) : SmOp → SM
  | .merge a b => (sm.tryMerge a b).1
  | .find a => (sm.find a).1
  | .same a b => (sm.sameSet a b).1

/-- the object after a history of calls (oldest first) -/
def runOps (sm : SM) (ops : List SmOp) : SM := ops.foldl smStep sm

theorem aux_smStep_inv {G : Nat → List Nat} {E : List (Nat × Nat)} {sm : SM} {gs : List (List Nat)}
    (h : Inv G E sm gs) (op : SmOp) (hb : op.bounded sm.n) :
    ∃ gs', Inv G E (smStep sm op) gs' ∧ (smStep sm op).n = sm.n := by
  cases op with
  | merge a b =>
    obtain ⟨gs', h', hn, _⟩ := tryMerge_inv h hb.1 hb.2
    exact ⟨gs', h', hn⟩
  | find a =>
    obtain ⟨hok, _, hrep⟩ := findN_rootFn h.ufok hb
    exact ⟨gs, h.with_uf hok hrep, rfl⟩
  | same a b =>
    obtain ⟨hok, hs, _⟩ := ufSame_spec h.ufok hb.1 hb.2
    exact ⟨gs, h.with_uf hok (rootFn_congr h.ufok hok hs), rfl⟩

theorem aux_runOps_inv {G : Nat → List Nat} {E : List (Nat × Nat)} :
    ∀ (ops : List SmOp) (sm : SM) (gs : List (List Nat)), Inv G E sm gs →
      (∀ op ∈ ops, op.bounded sm.n) → ∃ gs', Inv G E (runOps sm ops) gs' ∧ (runOps sm ops).n = sm.n
  | [], sm, gs, h, _ => ⟨gs, h, rfl⟩
  | op :: rest, sm, gs, h, hb => by
    obtain ⟨gs1, h1, hn1⟩ := aux_smStep_inv h op (hb op (by simp))
    obtain ⟨gs2, h2, hn2⟩ := aux_runOps_inv rest (smStep sm op) gs1 h1
      (by rw [hn1]; exact fun o ho => hb o (List.mem_cons_of_mem _ ho))
    exact ⟨gs2, h2, by rw [show runOps sm (op :: rest) = runOps (smStep sm op) rest from rfl, hn2, hn1]⟩

/-- Every state reachable from `new` by any history of `try_merge` / `find` / `same_set` calls
satisfies the invariant (so everything `inv_meaning` lists holds of it, and `subgraphs()` yields
its groups) … -/
theorem reachable_Inv {n : Nat} {G : Nat → List Nat} {E : List (Nat × Nat)} {sm : SM}
    (hG : ∀ k, k < n → ∀ p ∈ G k, p < n) (hE : ∀ a b, (a, b) ∈ E → a < n ∧ b < n)
    (h : SM.new n G E = .ok sm) (ops : List SmOp) (hb : ∀ op ∈ ops, op.bounded n) :
    ∃ gs', Inv G E (runOps sm ops) gs' ∧ (runOps sm ops).n = n ∧
      (runOps sm ops).subgraphs = some gs' := by
  obtain ⟨hinv, hn⟩ := new_inv hG hE h
  obtain ⟨gs', h', hn'⟩ := aux_runOps_inv ops sm _ hinv (by rw [hn]; exact hb)
  exact ⟨gs', h', by rw [hn', hn], subgraphs_eq h'⟩

/-- … and in every such state `try_merge(a, b)` never panics, and answers `false` exactly when `a`
and `b` are in different groups and an enemy pair (of the pairs given to `new`) joins the two
groups or merging them would make the quotient graph cyclic. -/
theorem reachable_tryMerge_refuses_iff {n : Nat} {G : Nat → List Nat} {E : List (Nat × Nat)} {sm : SM}
    (hG : ∀ k, k < n → ∀ p ∈ G k, p < n) (hE : ∀ a b, (a, b) ∈ E → a < n ∧ b < n)
    (h : SM.new n G E = .ok sm) (ops : List SmOp) (hb : ∀ op ∈ ops, op.bounded n)
    {a b : Nat} (ha : a < n) (hb' : b < n) :
    ((runOps sm ops).tryMerge a b).2 ≠ .bug ∧
    (((runOps sm ops).tryMerge a b).2 = .refused ↔
      rootFn (runOps sm ops).uf a ≠ rootFn (runOps sm ops).uf b ∧
        (EnemyConflict E (runOps sm ops) (rootFn (runOps sm ops).uf a) (rootFn (runOps sm ops).uf b) ∨
          MergeWouldCycle G (runOps sm ops) (rootFn (runOps sm ops).uf a)
            (rootFn (runOps sm ops).uf b))) := by
  obtain ⟨gs', h', hn', _⟩ := reachable_Inv hG hE h ops hb
  have ha' : a < (runOps sm ops).n := by rw [hn']; exact ha
  have hb'' : b < (runOps sm ops).n := by rw [hn']; exact hb'
  refine ⟨?_, tryMerge_refuses_iff_cycle_or_conflict h' ha' hb''⟩
  obtain ⟨_, _, _, hr⟩ := tryMerge_inv h' ha' hb''
  rcases hr with hr | hr
  · rw [hr.1]; intro hh; cases hh
  · rw [hr.1]; intro hh; cases hh

/-- What the invariant says, spelled out in terms of the node graph:
the order is a permutation of the nodes; every group is a contiguous block of it (`order =
gs.flatten`), non-empty, and is exactly one union-find class; no node is listed before one of its
predecessors; no enemy pair shares a group; and every edge between two groups goes forward in the
layout (so the quotient graph is acyclic). -/
theorem inv_meaning {G : Nat → List Nat} {E : List (Nat × Nat)} {sm : SM} {gs : List (List Nat)}
    (h : Inv G E sm gs) :
    sm.order.Perm (List.range sm.n) ∧ sm.order = gs.flatten ∧
    (∀ g ∈ gs, ∃ r rest, g = r :: rest ∧ ∀ x, x ∈ g ↔ (x < sm.n ∧ rootFn sm.uf x = r)) ∧
    sm.order.Pairwise (fun a b => b ∉ G a) ∧
    (∀ a b, (a, b) ∈ E → rootFn sm.uf a ≠ rootFn sm.uf b) ∧
    (∀ a b, QE G sm a b → getN sm.sgIdx a < getN sm.sgIdx b) := by
  refine ⟨h.perm, h.order_eq, ?_, h.topo, h.apart, fun a b he => h.qe_idx_lt he⟩
  intro g hg
  obtain ⟨r, rest, hg', hrep⟩ := h.layout.group g hg
  refine ⟨r, rest, hg', fun x => ⟨fun hx => ⟨h.group_mem_lt hg hx, hrep x hx⟩, fun hx => ?_⟩⟩
  rw [hg']
  exact h.mem_group (hg' ▸ hg) hx.1 hx.2

/-- The observable `subgraphs()` iterator is panic-free under the invariant and yields exactly the
invariant's groups, in layout order (each a slice `toposort_node[sg_idx .. sg_idx + sg_len]`). -/
theorem subgraphs_yields_groups {G : Nat → List Nat} {E : List (Nat × Nat)} {sm : SM}
    {gs : List (List Nat)} (h : Inv G E sm gs) : sm.subgraphs = some gs :=
  subgraphs_eq h

-- non-vacuity: the triangle `0 → 1 → 2, 0 → 2`: `merge 0 2` is refused (cycle through 1),
-- `merge 0 1` succeeds; two unrelated enemies are refused
example : (match SM.new 3 (fun k => [[], [0], [0, 1]].getD k []) [] with
    | .ok sm => (sm.tryMerge 0 2).2
    | _ => .bug) = .refused := by decide
example : (match SM.new 3 (fun k => [[], [0], [0, 1]].getD k []) [] with
    | .ok sm => ((sm.tryMerge 0 1).2, (sm.tryMerge 0 1).1.subgraphs)
    | _ => (.bug, none)) = (.merged, some [[0, 1], [2]]) := by decide
example : (match SM.new 2 (fun _ => []) [(0, 1)] with
    | .ok sm => (sm.tryMerge 0 1).2
    | _ => .bug) = .refused := by decide

-- a history on two unrelated enemies: `same_set`, `find`, then the merge is refused
example : (match SM.new 2 (fun _ => []) [(0, 1)] with
    | .ok sm => ((runOps sm [.same 0 1, .find 0]).tryMerge 0 1).2
    | _ => .bug) = .refused := by decide

-- non-vacuity of `MergeWouldCycle`: on the fresh triangle, merging 0 and 2 would create a cycle
-- between groups (through the group of 1) — obtained from the refused answer, there being no enemies
example (sm : SM) (h : SM.new 3 (fun k => [[], [0], [0, 1]].getD k []) [] = .ok sm) :
    MergeWouldCycle (fun k => [[], [0], [0, 1]].getD k []) sm (rootFn sm.uf 0) (rootFn sm.uf 2) := by
  obtain ⟨hinv, hn⟩ := new_inv (n := 3) (G := fun k => [[], [0], [0, 1]].getD k []) (E := [])
    (by decide) (by simp) h
  have hr : (match SM.new 3 (fun k => [[], [0], [0, 1]].getD k []) [] with
    | .ok sm => (sm.tryMerge 0 2).2
    | _ => .bug) = .refused := by decide
  rw [h] at hr
  obtain ⟨_, hc | hc⟩ :=
    (tryMerge_refuses_iff_cycle_or_conflict hinv (by rw [hn]; decide) (by rw [hn]; decide)).1 hr
  · obtain ⟨x, y, hxy, _⟩ := hc
    simp at hxy
  · exact hc

end HvGraphAlg
