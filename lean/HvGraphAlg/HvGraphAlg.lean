import HvGraphAlg.Model.Topo
import HvGraphAlg.Model.UnionFind
import HvGraphAlg.Model.SubgraphMerge
