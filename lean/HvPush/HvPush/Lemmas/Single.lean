/-
Helpers for combinators whose downstream events all go to one port.
-/
import HvPush.Lemmas.Sim
namespace HvPush

/-- events on port `j` only -/
def onPort (j : Nat) (es : List (Ev β)) : List (PEv β) := es.map (fun e => (j, e))

@[simp] theorem port_onPort_same (j : Nat) (es : List (Ev β)) : port j (onPort j es) = es := by
  induction es with
  | nil => rfl
  | cons e es ih => simp only [onPort, List.map_cons] at ih ⊢; rw [port_cons_same, ih]

theorem port_onPort_ne {i j : Nat} (h : j ≠ i) (es : List (Ev β)) : port i (onPort j es) = [] := by
  induction es with
  | nil => rfl
  | cons e es ih => simp only [onPort, List.map_cons] at ih ⊢; rw [port_cons_ne h, ih]

@[simp] theorem onPort_nil (j : Nat) : onPort j ([] : List (Ev β)) = [] := rfl
theorem onPort_cons (j : Nat) (e : Ev β) (es : List (Ev β)) : onPort j (e :: es) = (j, e) :: onPort j es := rfl
theorem onPort_append (j : Nat) (a b : List (Ev β)) : onPort j (a ++ b) = onPort j a ++ onPort j b := by
  simp [onPort]

theorem drainEv_eq_onPort (i : Nat) (sent : List β) (ok : Bool) :
    drainEv i sent ok = onPort i (sent.flatMap (fun x => [Ev.rdy true, Ev.snd x]) ++ (if ok then [] else [Ev.rdy false])) := by
  induction sent with
  | nil => cases ok <;> simp [drainEv, onPort]
  | cons x xs ih => simp only [drainEv, onPort] at ih ⊢; simp [ih]

/-- replace the state of port `j` -/
def upd (pd : Nat → PSt) (j : Nat) (p : PSt) : Nat → PSt := fun i => if i = j then p else pd i

@[simp] theorem upd_same (pd : Nat → PSt) (j : Nat) (p : PSt) : upd pd j p j = p := by simp [upd]
theorem upd_ne (pd : Nat → PSt) {i j : Nat} (p : PSt) (h : i ≠ j) : upd pd j p i = pd i := by simp [upd, h]

/-- all events on port `j`: only that port's automaton moves -/
theorem run_onPort {pd : Nat → PSt} {j : Nat} {es : List (Ev β)} {p : PSt} (h : (pd j).run es = some p) :
    ∀ i, (pd i).run (port i (onPort j es)) = some (upd pd j p i) := by
  intro i
  by_cases hi : i = j
  · subst hi; simpa using h
  · rw [port_onPort_ne (Ne.symm hi), upd_ne _ _ hi]; rfl

/-- per-port sent items after events on port `j` only -/
theorem sends_onPort (sd : Nat → List β) (j : Nat) (es : List (Ev β)) :
    (fun i => sd i ++ sends (port i (onPort j es))) = fun i => if i = j then sd j ++ sends es else sd i := by
  funext i
  by_cases hi : i = j
  · subst hi; simp
  · simp [port_onPort_ne (Ne.symm hi), hi]

end HvPush

namespace HvPush

/-- single-port invariant shape: caller state, local state, port-0 state, items in, items out -/
abbrev Inv1T (κ α β : Type) := PSt → κ → PSt → List α → List β → Prop

structure SimInv1 (K : Comb κ α β) (P : Inv1T κ α β) : Prop where
  ready : ∀ pu k pd su sd es k1 b, P pu k pd su sd → Emits (K.ready k) es (k1, b) →
    ∃ es0 pd', es = onPort 0 es0 ∧ pd.run es0 = some pd' ∧ P { pu with ready := b } k1 pd' su (sd ++ sends es0)
  send : ∀ pu k pd su sd es k1 x, P pu k pd su sd → pu.ready = true → pu.started = false →
    Emits (K.send k x) es k1 →
    ∃ es0 pd', es = onPort 0 es0 ∧ pd.run es0 = some pd' ∧ P { pu with ready := false } k1 pd' (su ++ [x]) (sd ++ sends es0)
  fin : ∀ pu k pd su sd es k1 b, P pu k pd su sd → Emits (K.fin k) es (k1, b) →
    ∃ es0 pd', es = onPort 0 es0 ∧ pd.run es0 = some pd' ∧
      P { pu with started := true, closed := pu.closed || b } k1 pd' su (sd ++ sends es0)

theorem SimInv1.toSim {K : Comb κ α β} {P : Inv1T κ α β} (h : SimInv1 K P) :
    SimInv K (fun pu k pd su sd => P pu k (pd 0) su (sd 0)) where
  ready := by
    intro pu k pd su sd es k1 b hi he
    obtain ⟨es0, pd', rfl, hr, hp⟩ := h.ready pu k (pd 0) su (sd 0) es k1 b hi he
    exact ⟨upd pd 0 pd', run_onPort hr, by simpa [sends_onPort] using hp⟩
  send := by
    intro pu k pd su sd es k1 x hi h1 h2 he
    obtain ⟨es0, pd', rfl, hr, hp⟩ := h.send pu k (pd 0) su (sd 0) es k1 x hi h1 h2 he
    exact ⟨upd pd 0 pd', run_onPort hr, by simpa [sends_onPort] using hp⟩
  fin := by
    intro pu k pd su sd es k1 b hi he
    obtain ⟨es0, pd', rfl, hr, hp⟩ := h.fin pu k (pd 0) su (sd 0) es k1 b hi he
    exact ⟨upd pd 0 pd', run_onPort hr, by simpa [sends_onPort] using hp⟩

/-- single-port soundness from a single-port invariant -/
theorem SimInv1.sound {K : Comb κ α β} {P : Inv1T κ α β} (h : SimInv1 K P) {k0 : κ}
    {spec : List α → List β → Prop}
    (h0 : P {} k0 {} [] [])
    (hc : ∀ pu k pd su sd, P pu k pd su sd → pd.WF → pu.closed = true → pd.closed = true ∧ spec su sd) :
    K.Sound k0 [0] (fun _ => spec) :=
  h.toSim.sound h0 (by
    intro pu k pd su sd hi hwf hcl i hi'
    simp only [List.mem_singleton] at hi'
    subst hi'
    exact hc _ _ _ _ _ hi (hwf 0) hcl)

end HvPush

namespace HvPush
/-- the single-port invariant holds at the end of every contract-honouring history -/
theorem SimInv1.reach {K : Comb κ α β} {P : Inv1T κ α β} (h : SimInv1 K P) {k0 k' : κ}
    (h0 : P {} k0 {} [] []) {up : List (Ev α)} {down : List (PEv β)}
    (ht : K.Tr k0 up down k') (hok : ProtoOk up) :
    ∃ pu pd, PSt.run {} up = some pu ∧ P pu k' pd (sends up) (sends (port 0 down)) := by
  obtain ⟨pu', hpu⟩ := ProtoOk_iff.1 hok
  obtain ⟨pd', _, hi⟩ := h.toSim.tr ht {} (fun _ => {}) [] (fun _ => []) pu' h0 hpu
  exact ⟨pu', pd' 0, hpu, by simpa using hi⟩
end HvPush
