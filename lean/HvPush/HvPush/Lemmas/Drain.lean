/-
Event shapes of the shared loops `drain`, `drainR`, `thenFin` and the automaton over them.
-/
import HvPush.Lemmas.Single
namespace HvPush
open Prog

/-- the port-level trace of draining `sent`: `ready? true, send x` for each item -/
def drainTr (sent : List β) : List (Ev β) := sent.flatMap (fun x => [Ev.rdy true, Ev.snd x])

@[simp] theorem drainTr_nil : drainTr ([] : List β) = [] := rfl
@[simp] theorem sends_drainTr (sent : List β) (tl : List (Ev β)) : sends (drainTr sent ++ tl) = sent ++ sends tl :=
  sends_drainTrace sent tl
@[simp] theorem sends_drainTr' (sent : List β) : sends (drainTr sent) = sent := by
  have := sends_drainTr sent []; simpa using this

theorem drain_shape {i : Nat} {l rest : List β} {ok : Bool} {es : List (PEv β)}
    (h : Emits (drain i l) es (rest, ok)) :
    ∃ sent, l = sent ++ rest ∧ es = onPort i (drainTr sent ++ (if ok then [] else [Ev.rdy false])) ∧
      (ok = true → rest = []) := by
  obtain ⟨sent, h1, h2, h3⟩ := drain_emits h
  exact ⟨sent, h1, by rw [h2, drainEv_eq_onPort]; rfl, h3⟩

theorem drainR_shape {i : Nat} {l rest : List β} {b : Bool} {es : List (PEv β)}
    (h : Emits (drainR i l) es (rest, b)) :
    ∃ sent, l = sent ++ rest ∧ es = onPort i (drainTr sent ++ [Ev.rdy b]) ∧ (b = true → rest = []) := by
  simp only [drainR, emits_bind] at h
  obtain ⟨es1, ⟨r1, ok⟩, es2, h1, h2, rfl⟩ := h
  obtain ⟨sent, hl, rfl, hok⟩ := drain_shape h1
  cases ok with
  | true =>
    simp only [if_true, emits_rdy, emits_ret] at h2
    obtain ⟨b', es', rfl, rfl, hk⟩ := h2
    cases hk
    have := hok rfl; subst this
    exact ⟨sent, by simpa using hl, by simp [onPort], fun _ => rfl⟩
  | false =>
    simp only [Bool.false_eq_true, if_false, emits_ret] at h2
    obtain ⟨rfl, hk⟩ := h2
    cases hk
    exact ⟨sent, hl, by simp, by simp⟩

theorem thenFin_shape {i : Nat} {p : Prog β (κ × Bool)} {es : List (PEv β)} {k : κ} {b : Bool}
    (h : Emits (thenFin i p) es (k, b)) :
    ∃ es1 b1, Emits p es1 (k, b1) ∧
      ((b1 = true ∧ es = es1 ++ [(i, Ev.fin b)]) ∨ (b1 = false ∧ b = false ∧ es = es1)) := by
  simp only [thenFin, emits_bind] at h
  obtain ⟨es1, ⟨k1, b1⟩, es2, h1, h2, rfl⟩ := h
  cases b1 with
  | true =>
    simp only [if_true, emits_fin, emits_ret] at h2
    obtain ⟨b', es', rfl, rfl, hk⟩ := h2
    cases hk
    exact ⟨es1, true, h1, Or.inl ⟨rfl, rfl⟩⟩
  | false =>
    simp only [Bool.false_eq_true, if_false, emits_ret] at h2
    obtain ⟨rfl, hk⟩ := h2
    cases hk
    exact ⟨es1, false, h1, Or.inr ⟨rfl, rfl, by simp⟩⟩

/-- automaton over `drainTr sent ++ tail` -/
theorem run_drainTr {p : PSt} (sent : List β) (h : sent = [] ∨ p.started = false) :
    p.run (drainTr sent) = some { p with ready := if sent = [] then p.ready else false } := by
  have := run_drainTrace (p := p) sent true h
  simpa [drainTr] using this

theorem run_drainTr_rdy {p : PSt} (sent : List β) (b : Bool) (h : sent = [] ∨ p.started = false) :
    p.run (drainTr sent ++ [Ev.rdy b]) = some { p with ready := b } := by
  rw [PSt.run_append, run_drainTr sent h]
  simp [PSt.run, PSt.step]

theorem run_drainTr_fin {p : PSt} (sent : List β) (b : Bool) (h : sent = [] ∨ p.started = false) :
    p.run (drainTr sent ++ [Ev.fin b]) =
      some { p with ready := if sent = [] then p.ready else false, started := true, closed := p.closed || b } := by
  rw [PSt.run_append, run_drainTr sent h]
  simp [PSt.run, PSt.step]

end HvPush
