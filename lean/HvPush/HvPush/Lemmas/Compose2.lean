/-
Composition under a two-port combinator (`Fanout`, `Unzip`, ...): port 0 feeds `Ka`, port 1 feeds
`Kb`; the downstream ports of the composite are `Ka`'s (below `na`) followed by `Kb`'s (shifted).
-/
import HvPush.Lemmas.Compose
import HvPush.Lemmas.Route
namespace HvPush
open Prog

/-- `c` is an order-preserving interleaving of `a` and `b` -/
inductive Interleave {τ : Type} : List τ → List τ → List τ → Prop
  | nil : Interleave [] [] []
  | left (x : τ) {a b c : List τ} : Interleave a b c → Interleave (x :: a) b (x :: c)
  | right (y : τ) {a b c : List τ} : Interleave a b c → Interleave a (y :: b) (y :: c)

theorem Interleave.prefix_left {τ : Type} {a b c : List τ} (p : List τ) (h : Interleave a b c) :
    Interleave (p ++ a) b (p ++ c) := by
  induction p with
  | nil => exact h
  | cons x p ih => exact .left x ih

theorem Interleave.prefix_right {τ : Type} {a b c : List τ} (p : List τ) (h : Interleave a b c) :
    Interleave a (p ++ b) (p ++ c) := by
  induction p with
  | nil => exact h
  | cons x p ih => exact .right x ih

theorem Interleave.append {τ : Type} {a b c a' b' c' : List τ} (h : Interleave a b c) (h' : Interleave a' b' c') :
    Interleave (a ++ a') (b ++ b') (c ++ c') := by
  induction h with
  | nil => exact h'
  | left x _ ih => exact .left x ih
  | right y _ ih => exact .right y ih

theorem Interleave.port_left {a b c : List (PEv β)} (h : Interleave a b c) (i : Nat) (hb : ∀ e ∈ b, e.1 ≠ i) :
    port i c = port i a := by
  induction h with
  | nil => rfl
  | left x _ ih =>
    obtain ⟨j, e⟩ := x
    by_cases hj : j = i
    · subst hj; rw [port_cons_same, port_cons_same, ih hb]
    · rw [port_cons_ne hj, port_cons_ne hj, ih hb]
  | right y _ ih =>
    obtain ⟨j, e⟩ := y
    have hj : j ≠ i := hb (j, e) (List.mem_cons_self ..)
    rw [port_cons_ne hj]
    exact ih (fun e he => hb e (List.mem_cons_of_mem _ he))

theorem Interleave.port_right {a b c : List (PEv β)} (h : Interleave a b c) (i : Nat) (ha : ∀ e ∈ a, e.1 ≠ i) :
    port i c = port i b := by
  induction h with
  | nil => rfl
  | left x _ ih =>
    obtain ⟨j, e⟩ := x
    have hj : j ≠ i := ha (j, e) (List.mem_cons_self ..)
    rw [port_cons_ne hj]
    exact ih (fun e he => ha e (List.mem_cons_of_mem _ he))
  | right y _ ih =>
    obtain ⟨j, e⟩ := y
    by_cases hj : j = i
    · subst hj; rw [port_cons_same, port_cons_same, ih ha]
    · rw [port_cons_ne hj, port_cons_ne hj, ih ha]

/-- events with ports renumbered -/
def shiftEv (n : Nat) (es : List (PEv β)) : List (PEv β) := es.map fun e => (e.1 + n, e.2)

@[simp] theorem shiftEv_append (n : Nat) (a b : List (PEv β)) : shiftEv n (a ++ b) = shiftEv n a ++ shiftEv n b := by
  simp [shiftEv]

theorem port_shiftEv (n j : Nat) (es : List (PEv β)) : port (j + n) (shiftEv n es) = port j es := by
  induction es with
  | nil => rfl
  | cons e es ih =>
    obtain ⟨i, ev⟩ := e
    simp only [shiftEv, List.map_cons] at ih ⊢
    by_cases hi : i = j
    · subst hi; rw [port_cons_same, port_cons_same, ih]
    · rw [port_cons_ne (by omega), port_cons_ne hi, ih]

theorem shiftEv_ports (n : Nat) (es : List (PEv β)) : ∀ e ∈ shiftEv n es, n ≤ e.1 := by
  intro e he
  simp only [shiftEv, List.mem_map] at he
  obtain ⟨e', _, rfl⟩ := he
  simp

theorem emits_shift {n : Nat} {p : Prog β ρ} {es : List (PEv β)} {r : ρ} (h : Emits (p.shift n) es r) :
    ∃ es', Emits p es' r ∧ es = shiftEv n es' := by
  induction p generalizing es with
  | ret a => simp only [Prog.shift, emits_ret] at h; obtain ⟨rfl, rfl⟩ := h; exact ⟨[], .ret _, rfl⟩
  | rdy i k ih =>
    simp only [Prog.shift, emits_rdy] at h
    obtain ⟨b, es1, rfl, h⟩ := h
    obtain ⟨es', h1, rfl⟩ := ih b h
    exact ⟨(i, .rdy b) :: es', .rdy _ _ _ _ _ h1, rfl⟩
  | snd i x k ih =>
    simp only [Prog.shift, emits_snd] at h
    obtain ⟨es1, rfl, h⟩ := h
    obtain ⟨es', h1, rfl⟩ := ih h
    exact ⟨(i, .snd x) :: es', .snd _ _ _ _ _ h1, rfl⟩
  | fin i k ih =>
    simp only [Prog.shift, emits_fin] at h
    obtain ⟨b, es1, rfl, h⟩ := h
    obtain ⟨es', h1, rfl⟩ := ih b h
    exact ⟨(i, .fin b) :: es', .fin _ _ _ _ _ h1, rfl⟩

/-- the calls on ports other than 0 -/
def portN0 (tr : List (PEv β)) : List (Ev β) := tr.filterMap fun e => if e.1 = 0 then none else some e.2

@[simp] theorem portN0_nil : portN0 ([] : List (PEv β)) = [] := rfl
@[simp] theorem portN0_append (a b : List (PEv β)) : portN0 (a ++ b) = portN0 a ++ portN0 b := by
  simp [portN0, List.filterMap_append]
theorem portN0_cons_zero (e : Ev β) (es : List (PEv β)) : portN0 ((0, e) :: es) = portN0 es := by simp [portN0]
theorem portN0_cons_ne {i : Nat} (h : i ≠ 0) (e : Ev β) (es : List (PEv β)) : portN0 ((i, e) :: es) = e :: portN0 es := by
  simp [portN0, h]

theorem portN0_eq_port1 {tr : List (PEv β)} (h : ∀ e ∈ tr, e.1 < 2) : portN0 tr = port 1 tr := by
  induction tr with
  | nil => rfl
  | cons e es ih =>
    obtain ⟨i, ev⟩ := e
    have hi : i < 2 := h (i, ev) (List.mem_cons_self ..)
    have ih' := ih (fun e he => h e (List.mem_cons_of_mem _ he))
    by_cases h0 : i = 0
    · subst h0; rw [portN0_cons_zero, port_cons_ne (by omega), ih']
    · have : i = 1 := by omega
      subst this; rw [portN0_cons_ne (by omega), port_cons_same, ih']

theorem emits_subst2 (Ka : Comb κa β γ) (Kb : Comb κb β γ) (na : Nat) (p : Prog β ρ) :
    ∀ {ka ka' : κa} {kb kb' : κb} {es : List (PEv γ)} {r : ρ}, Emits (p.subst2 Ka Kb na ka kb) es (r, ka', kb') →
    ∃ mid ea eb, Emits p mid r ∧ Ka.Tr ka (port 0 mid) ea ka' ∧ Kb.Tr kb (portN0 mid) eb kb' ∧
      Interleave ea (shiftEv na eb) es := by
  induction p with
  | ret a =>
    intro ka ka' kb kb' es r h
    simp only [Prog.subst2, emits_ret] at h
    obtain ⟨rfl, hk⟩ := h; cases hk
    exact ⟨[], [], [], .ret _, .nil _, .nil _, .nil⟩
  | rdy i k ih =>
    intro ka ka' kb kb' es r h
    simp only [Prog.subst2] at h
    by_cases hi : i = 0
    · subst hi
      simp only [if_true, emits_bind] at h
      obtain ⟨es1, ⟨ka1, b⟩, es2, h1, h2, rfl⟩ := h
      obtain ⟨mid, ea, eb, hm, hta, htb, hint⟩ := ih b h2
      exact ⟨(0, .rdy b) :: mid, es1 ++ ea, eb, .rdy _ _ _ _ _ hm, by rw [port_cons_same]; exact .rdy h1 hta,
        by rw [portN0_cons_zero]; exact htb, hint.prefix_left es1⟩
    · simp only [hi, if_false, emits_bind] at h
      obtain ⟨es1, ⟨kb1, b⟩, es2, h1, h2, rfl⟩ := h
      obtain ⟨es1', h1', rfl⟩ := emits_shift h1
      obtain ⟨mid, ea, eb, hm, hta, htb, hint⟩ := ih b h2
      exact ⟨(i, .rdy b) :: mid, ea, es1' ++ eb, .rdy _ _ _ _ _ hm, by rw [port_cons_ne hi]; exact hta,
        by rw [portN0_cons_ne hi]; exact .rdy h1' htb, by rw [shiftEv_append]; exact hint.prefix_right _⟩
  | snd i x k ih =>
    intro ka ka' kb kb' es r h
    simp only [Prog.subst2] at h
    by_cases hi : i = 0
    · subst hi
      simp only [if_true, emits_bind] at h
      obtain ⟨es1, ka1, es2, h1, h2, rfl⟩ := h
      obtain ⟨mid, ea, eb, hm, hta, htb, hint⟩ := ih h2
      exact ⟨(0, .snd x) :: mid, es1 ++ ea, eb, .snd _ _ _ _ _ hm, by rw [port_cons_same]; exact .snd h1 hta,
        by rw [portN0_cons_zero]; exact htb, hint.prefix_left es1⟩
    · simp only [hi, if_false, emits_bind] at h
      obtain ⟨es1, kb1, es2, h1, h2, rfl⟩ := h
      obtain ⟨es1', h1', rfl⟩ := emits_shift h1
      obtain ⟨mid, ea, eb, hm, hta, htb, hint⟩ := ih h2
      exact ⟨(i, .snd x) :: mid, ea, es1' ++ eb, .snd _ _ _ _ _ hm, by rw [port_cons_ne hi]; exact hta,
        by rw [portN0_cons_ne hi]; exact .snd h1' htb, by rw [shiftEv_append]; exact hint.prefix_right _⟩
  | fin i k ih =>
    intro ka ka' kb kb' es r h
    simp only [Prog.subst2] at h
    by_cases hi : i = 0
    · subst hi
      simp only [if_true, emits_bind] at h
      obtain ⟨es1, ⟨ka1, b⟩, es2, h1, h2, rfl⟩ := h
      obtain ⟨mid, ea, eb, hm, hta, htb, hint⟩ := ih b h2
      exact ⟨(0, .fin b) :: mid, es1 ++ ea, eb, .fin _ _ _ _ _ hm, by rw [port_cons_same]; exact .fin h1 hta,
        by rw [portN0_cons_zero]; exact htb, hint.prefix_left es1⟩
    · simp only [hi, if_false, emits_bind] at h
      obtain ⟨es1, ⟨kb1, b⟩, es2, h1, h2, rfl⟩ := h
      obtain ⟨es1', h1', rfl⟩ := emits_shift h1
      obtain ⟨mid, ea, eb, hm, hta, htb, hint⟩ := ih b h2
      exact ⟨(i, .fin b) :: mid, ea, es1' ++ eb, .fin _ _ _ _ _ hm, by rw [port_cons_ne hi]; exact hta,
        by rw [portN0_cons_ne hi]; exact .fin h1' htb, by rw [shiftEv_append]; exact hint.prefix_right _⟩

theorem comp2_tr {K1 : Comb κ1 α β} {Ka : Comb κa β γ} {Kb : Comb κb β γ} {na : Nat}
    {k k' : κ1 × κa × κb} {up : List (Ev α)} {down : List (PEv γ)}
    (h : (K1.comp2 Ka Kb na).Tr k up down k') :
    ∃ mid ea eb, K1.Tr k.1 up mid k'.1 ∧ Ka.Tr k.2.1 (port 0 mid) ea k'.2.1 ∧ Kb.Tr k.2.2 (portN0 mid) eb k'.2.2 ∧
      Interleave ea (shiftEv na eb) down := by
  induction h with
  | nil k => exact ⟨[], [], [], .nil _, .nil _, .nil _, .nil⟩
  | @rdy k kx ky b es down up he _ ih =>
    simp only [Comb.comp2, emits_bind, emits_ret] at he
    obtain ⟨es1, ⟨⟨k1a, b1⟩, kaa, kba⟩, es2, h1, ⟨rfl, hk⟩, rfl⟩ := he
    cases hk
    obtain ⟨m1, ea1, eb1, hm1, hta1, htb1, hi1⟩ := emits_subst2 Ka Kb na _ h1
    obtain ⟨m2, ea2, eb2, hm2, hta2, htb2, hi2⟩ := ih
    refine ⟨m1 ++ m2, ea1 ++ ea2, eb1 ++ eb2, .rdy hm1 hm2, by rw [port_append]; exact hta1.append hta2,
      by rw [portN0_append]; exact htb1.append htb2, ?_⟩
    rw [shiftEv_append, List.append_nil]; exact hi1.append hi2
  | @snd k kx ky x es down up he _ ih =>
    simp only [Comb.comp2, emits_bind, emits_ret] at he
    obtain ⟨es1, ⟨k1a, kaa, kba⟩, es2, h1, ⟨rfl, hk⟩, rfl⟩ := he
    cases hk
    obtain ⟨m1, ea1, eb1, hm1, hta1, htb1, hi1⟩ := emits_subst2 Ka Kb na _ h1
    obtain ⟨m2, ea2, eb2, hm2, hta2, htb2, hi2⟩ := ih
    refine ⟨m1 ++ m2, ea1 ++ ea2, eb1 ++ eb2, .snd hm1 hm2, by rw [port_append]; exact hta1.append hta2,
      by rw [portN0_append]; exact htb1.append htb2, ?_⟩
    rw [shiftEv_append, List.append_nil]; exact hi1.append hi2
  | @fin k kx ky b es down up he _ ih =>
    simp only [Comb.comp2, emits_bind, emits_ret] at he
    obtain ⟨es1, ⟨⟨k1a, b1⟩, kaa, kba⟩, es2, h1, ⟨rfl, hk⟩, rfl⟩ := he
    cases hk
    obtain ⟨m1, ea1, eb1, hm1, hta1, htb1, hi1⟩ := emits_subst2 Ka Kb na _ h1
    obtain ⟨m2, ea2, eb2, hm2, hta2, htb2, hi2⟩ := ih
    refine ⟨m1 ++ m2, ea1 ++ ea2, eb1 ++ eb2, .fin hm1 hm2, by rw [port_append]; exact hta1.append hta2,
      by rw [portN0_append]; exact htb1.append htb2, ?_⟩
    rw [shiftEv_append, List.append_nil]; exact hi1.append hi2

/-- along contract-honouring histories all downstream calls go to ports below `n` -/
def Comb.Below (K : Comb κ α β) (k0 : κ) (n : Nat) : Prop :=
  ∀ up down k', K.Tr k0 up down k' → ProtoOk up → ∀ e ∈ down, e.1 < n

theorem Comb.Mono.below {K : Comb κ α β} {k0 : κ} (h : K.Mono k0) : K.Below k0 1 := by
  intro up down k' ht hok e he
  have := h up down k' ht hok e he
  omega

/-- **Tree-shaped pipelines.**  A contract-sound two-port combinator (`Fanout`, `Unzip`,
    `StatePush`) feeding two contract-sound sub-pipelines is contract-sound; `Ka`'s ports keep their
    numbers, `Kb`'s come after them. -/
theorem comp2_sound {K1 : Comb κ1 α β} {Ka : Comb κa β γ} {Kb : Comb κb β γ} {k1 : κ1} {ka : κa} {kb : κb} {na : Nat}
    {S1 : Nat → List α → List β → Prop} {pA pB : List Nat} {SA SB : Nat → List β → List γ → Prop}
    (h1 : K1.Sound k1 [0, 1] S1) (h1b : K1.Below k1 2)
    (hA : Ka.Sound ka pA SA) (hAb : Ka.Below ka na) (hpA : ∀ i ∈ pA, i < na) (hB : Kb.Sound kb pB SB) :
    (K1.comp2 Ka Kb na).Sound (k1, ka, kb) (pA ++ pB.map (· + na))
      (fun i ins outs => if i < na then ∃ mid, S1 0 ins mid ∧ SA i mid outs
        else ∃ mid, S1 1 ins mid ∧ SB (i - na) mid outs) := by
  intro up down k' ht hok
  obtain ⟨mid, ea, eb, ht1, hta, htb, hint⟩ := comp2_tr ht
  obtain ⟨g1, g2⟩ := h1 up mid k'.1 ht1 hok
  have hn0 : portN0 mid = port 1 mid := portN0_eq_port1 (h1b up mid k'.1 ht1 hok)
  rw [hn0] at htb
  obtain ⟨a1, a2⟩ := hA _ ea k'.2.1 hta (g1 0)
  obtain ⟨b1, b2⟩ := hB _ eb k'.2.2 htb (g1 1)
  have hea : ∀ e ∈ ea, e.1 < na := hAb _ ea k'.2.1 hta (g1 0)
  have hportA : ∀ i, i < na → port i down = port i ea := fun i hi =>
    hint.port_left i (fun e he => by have := shiftEv_ports na eb e he; omega)
  have hportB : ∀ j, port (j + na) down = port j eb := fun j => by
    rw [hint.port_right (j + na) (fun e he => by have := hea e he; omega), port_shiftEv]
  refine ⟨fun i => ?_, fun hc i hi => ?_⟩
  · by_cases hi : i < na
    · rw [hportA i hi]; exact a1 i
    · have : i = (i - na) + na := by omega
      rw [this, hportB]; exact b1 _
  · rcases List.mem_append.1 hi with hi | hi
    · have hlt := hpA i hi
      obtain ⟨c0, s0⟩ := g2 hc 0 (by simp)
      obtain ⟨ca, sa⟩ := a2 c0 i hi
      rw [hportA i hlt]
      simp only [hlt, if_true]
      exact ⟨ca, _, s0, sa⟩
    · obtain ⟨j, hj, rfl⟩ := List.mem_map.1 hi
      obtain ⟨c1, s1⟩ := g2 hc 1 (by simp)
      obtain ⟨cb, sb⟩ := b2 c1 j hj
      rw [hportB]
      have hnl : ¬ (j + na < na) := by omega
      simp only [hnl, if_false, Nat.add_sub_cancel]
      exact ⟨cb, _, s1, sb⟩

theorem readyAll_ports {i n : Nat} {es : List (PEv β)} {b : Bool} (h : Emits (readyAll i n) es b) :
    ∀ e ∈ es, e.1 < i + n := by
  induction n generalizing i es b with
  | zero => simp only [readyAll, emits_ret] at h; obtain ⟨rfl, _⟩ := h; intro e he; cases he
  | succ n ih =>
    simp only [readyAll, emits_rdy, emits_bind, emits_ret] at h
    obtain ⟨a, es', rfl, es1, b1, es2, h1, ⟨rfl, rfl⟩, rfl⟩ := h
    intro e he
    rcases List.mem_cons.1 he with rfl | he
    · simp
    · have := ih h1 e (by simpa using he); omega

theorem finAll_ports {i n : Nat} {es : List (PEv β)} {b : Bool} (h : Emits (finAll i n) es b) :
    ∀ e ∈ es, e.1 < i + n := by
  induction n generalizing i es b with
  | zero => simp only [finAll, emits_ret] at h; obtain ⟨rfl, _⟩ := h; intro e he; cases he
  | succ n ih =>
    simp only [finAll, emits_fin, emits_bind, emits_ret] at h
    obtain ⟨a, es', rfl, es1, b1, es2, h1, ⟨rfl, rfl⟩, rfl⟩ := h
    intro e he
    rcases List.mem_cons.1 he with rfl | he
    · simp
    · have := ih h1 e (by simpa using he); omega

theorem sendAll_ports {r : α → Nat → Option β} {x : α} {i n : Nat} {es : List (PEv β)}
    (h : Emits (sendAll r x i n) es ()) : ∀ e ∈ es, e.1 < i + n := by
  induction n generalizing i es with
  | zero => simp only [sendAll, emits_ret] at h; obtain ⟨rfl, _⟩ := h; intro e he; cases he
  | succ n ih =>
    simp only [sendAll] at h
    cases hr : r x i with
    | none => simp only [hr] at h; intro e he; have := ih h e he; omega
    | some y =>
      simp only [hr, emits_snd] at h
      obtain ⟨es', rfl, h⟩ := h
      intro e he
      rcases List.mem_cons.1 he with rfl | he
      · simp
      · have := ih h e he; omega

/-- `Fanout` / `Unzip` / `DemuxVar n` only talk to ports below `n` -/
theorem route_below (n : Nat) (r : α → Nat → Option β) : (routeC n r).Below () n := by
  intro up down k' ht hok
  clear hok
  generalize hk : () = k0 at ht
  clear hk
  induction ht with
  | nil k => intro e he; cases he
  | rdy he _ ih =>
    simp only [routeC, emits_bind, emits_ret] at he
    obtain ⟨es1, b1, es2, h1, ⟨rfl, _⟩, rfl⟩ := he
    intro e hmem
    rcases List.mem_append.1 hmem with hm | hm
    · have := readyAll_ports h1 e (by simpa using hm); omega
    · exact ih e hm
  | snd he _ ih =>
    simp only [routeC] at he
    intro e hmem
    rcases List.mem_append.1 hmem with hm | hm
    · have := sendAll_ports he e hm; omega
    · exact ih e hm
  | fin he _ ih =>
    simp only [routeC, emits_bind, emits_ret] at he
    obtain ⟨es1, b1, es2, h1, ⟨rfl, _⟩, rfl⟩ := he
    intro e hmem
    rcases List.mem_append.1 hmem with hm | hm
    · have := finAll_ports h1 e (by simpa using hm); omega
    · exact ih e hm

end HvPush
