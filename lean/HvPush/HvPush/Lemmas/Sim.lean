/-
The generic simulation argument: an invariant relating the caller-side contract state, the
combinator's local state and the contract state of every downstream port, preserved by each of
the three operations for every downstream behaviour (`Emits`), is preserved along every history.
-/
import HvPush.Lemmas.Basic
namespace HvPush
open Prog

/-- Contract-soundness of a combinator started in `k0`: whenever the caller honours the contract,
    every downstream port sees a contract-honouring trace, and once the caller has seen
    `finalize? true`, every port in `ports` has seen `finalize? true` and received exactly the
    items `spec` relates to the caller's items. -/
def Comb.Sound (K : Comb κ α β) (k0 : κ) (ports : List Nat) (spec : Nat → List α → List β → Prop) : Prop :=
  ∀ up down k', K.Tr k0 up down k' → ProtoOk up →
    (∀ i, ProtoOk (port i down)) ∧
    (Closed up → ∀ i ∈ ports, Closed (port i down) ∧ spec i (sends up) (sends (port i down)))

/-- invariant shape: caller state, local state, port states, items in, items out per port -/
abbrev InvT (κ α β : Type) := PSt → κ → (Nat → PSt) → List α → (Nat → List β) → Prop

structure SimInv (K : Comb κ α β) (Inv : InvT κ α β) : Prop where
  ready : ∀ pu k pd su sd es k1 b, Inv pu k pd su sd → Emits (K.ready k) es (k1, b) →
    ∃ pd', (∀ i, (pd i).run (port i es) = some (pd' i)) ∧
      Inv { pu with ready := b } k1 pd' su (fun i => sd i ++ sends (port i es))
  send : ∀ pu k pd su sd es k1 x, Inv pu k pd su sd → pu.ready = true → pu.started = false →
    Emits (K.send k x) es k1 →
    ∃ pd', (∀ i, (pd i).run (port i es) = some (pd' i)) ∧
      Inv { pu with ready := false } k1 pd' (su ++ [x]) (fun i => sd i ++ sends (port i es))
  fin : ∀ pu k pd su sd es k1 b, Inv pu k pd su sd → Emits (K.fin k) es (k1, b) →
    ∃ pd', (∀ i, (pd i).run (port i es) = some (pd' i)) ∧
      Inv { pu with started := true, closed := pu.closed || b } k1 pd' su (fun i => sd i ++ sends (port i es))

theorem SimInv.tr {K : Comb κ α β} {Inv : InvT κ α β} (h : SimInv K Inv)
    {k k' : κ} {up : List (Ev α)} {down : List (PEv β)} (ht : K.Tr k up down k') :
    ∀ pu pd su sd pu', Inv pu k pd su sd → pu.run up = some pu' →
      ∃ pd', (∀ i, (pd i).run (port i down) = some (pd' i)) ∧
        Inv pu' k' pd' (su ++ sends up) (fun i => sd i ++ sends (port i down)) := by
  induction ht with
  | nil k => intro pu pd su sd pu' hi hr; simp at hr; subst hr; exact ⟨pd, by simp, by simpa using hi⟩
  | @rdy k k1 k2 b es down up he _ ih =>
    intro pu pd su sd pu' hi hr
    rw [PSt.run_cons] at hr
    simp only [PSt.step, Option.bind_some] at hr
    obtain ⟨pd1, hp1, hi1⟩ := h.ready pu k pd su sd es k1 b hi he
    obtain ⟨pd2, hp2, hi2⟩ := ih _ pd1 su _ pu' hi1 hr
    refine ⟨pd2, fun i => ?_, ?_⟩
    · rw [port_append]; exact PSt.run_append_some (hp1 i) (hp2 i)
    · simpa [List.append_assoc] using hi2
  | @snd k k1 k2 x es down up he _ ih =>
    intro pu pd su sd pu' hi hr
    rw [PSt.run_cons] at hr
    simp only [PSt.step] at hr
    split at hr
    · rename_i hc
      simp only [Bool.and_eq_true, Bool.not_eq_true'] at hc
      simp only [Option.bind_some] at hr
      obtain ⟨pd1, hp1, hi1⟩ := h.send pu k pd su sd es k1 x hi hc.1 hc.2 he
      obtain ⟨pd2, hp2, hi2⟩ := ih _ pd1 _ _ pu' hi1 hr
      refine ⟨pd2, fun i => ?_, ?_⟩
      · rw [port_append]; exact PSt.run_append_some (hp1 i) (hp2 i)
      · simpa [List.append_assoc] using hi2
    · simp at hr
  | @fin k k1 k2 b es down up he _ ih =>
    intro pu pd su sd pu' hi hr
    rw [PSt.run_cons] at hr
    simp only [PSt.step, Option.bind_some] at hr
    obtain ⟨pd1, hp1, hi1⟩ := h.fin pu k pd su sd es k1 b hi he
    obtain ⟨pd2, hp2, hi2⟩ := ih _ pd1 su _ pu' hi1 hr
    refine ⟨pd2, fun i => ?_, ?_⟩
    · rw [port_append]; exact PSt.run_append_some (hp1 i) (hp2 i)
    · simpa [List.append_assoc] using hi2

/-- reachable contract states: closing implies finalize was started -/
def PSt.WF (p : PSt) : Prop := p.closed = true → p.started = true

theorem PSt.run_wf {p p' : PSt} {tr : List (Ev β)} (h : p.run tr = some p') (hw : p.WF) : p'.WF := by
  induction tr generalizing p with
  | nil => simp at h; subst h; exact hw
  | cons e tr ih =>
    rw [PSt.run_cons] at h
    cases hs : p.step e with
    | none => simp [hs] at h
    | some q =>
      simp [hs] at h
      refine ih h ?_
      cases e with
      | rdy b => simp [PSt.step] at hs; subst hs; exact hw
      | snd x =>
        simp only [PSt.step] at hs
        split at hs
        · simp at hs; subst hs; exact hw
        · simp at hs
      | fin b => simp [PSt.step] at hs; subst hs; intro _; rfl

/-- From a simulation invariant to contract-soundness. -/
theorem SimInv.sound {K : Comb κ α β} {Inv : InvT κ α β} (h : SimInv K Inv) {k0 : κ}
    {ports : List Nat} {spec : Nat → List α → List β → Prop}
    (h0 : Inv {} k0 (fun _ => {}) [] (fun _ => []))
    (hc : ∀ pu k pd su sd, Inv pu k pd su sd → (∀ i, (pd i).WF) → pu.closed = true →
      ∀ i ∈ ports, (pd i).closed = true ∧ spec i su (sd i)) :
    K.Sound k0 ports spec := by
  intro up down k' ht hok
  obtain ⟨pu', hpu⟩ := ProtoOk_iff.1 hok
  obtain ⟨pd', hpd, hi⟩ := h.tr ht {} (fun _ => {}) [] (fun _ => []) pu' h0 hpu
  refine ⟨fun i => ProtoOk_iff.2 ⟨pd' i, hpd i⟩, fun hcl i hi' => ?_⟩
  have hcu : pu'.closed = true := (PSt.run_closed hpu).2 (Or.inr hcl)
  have hwf : ∀ j, (pd' j).WF := fun j => PSt.run_wf (hpd j) (by intro h; cases h)
  have := hc _ _ _ _ _ hi hwf hcu i hi'
  refine ⟨?_, by simpa using this.2⟩
  have := (PSt.run_closed (hpd i)).1 this.1
  simpa using this

/-! ### the events of the `drain` loop -/

/-- what `drain i` emits when it sends `sent` and then stops (`ok` = ran to the end) -/
def drainEv (i : Nat) (sent : List β) (ok : Bool) : List (PEv β) :=
  sent.flatMap (fun x => [(i, Ev.rdy true), (i, Ev.snd x)]) ++ (if ok then [] else [(i, Ev.rdy false)])

theorem drain_emits {i : Nat} {l rest : List β} {ok : Bool} {es : List (PEv β)}
    (h : Emits (drain i l) es (rest, ok)) :
    ∃ sent, l = sent ++ rest ∧ es = drainEv i sent ok ∧ (ok = true → rest = []) := by
  induction l generalizing es with
  | nil =>
    simp only [drain, emits_ret] at h
    obtain ⟨rfl, h⟩ := h
    cases h
    exact ⟨[], rfl, by simp [drainEv], fun _ => rfl⟩
  | cons x xs ih =>
    simp only [drain, emits_rdy] at h
    obtain ⟨b, es', rfl, h⟩ := h
    cases b with
    | true =>
      simp only [if_true, emits_snd] at h
      obtain ⟨es'', rfl, h⟩ := h
      obtain ⟨sent, rfl, rfl, hok⟩ := ih h
      exact ⟨x :: sent, rfl, by simp [drainEv], hok⟩
    | false =>
      simp only [Bool.false_eq_true, if_false, emits_ret] at h
      obtain ⟨rfl, h⟩ := h
      cases h
      exact ⟨[], rfl, by simp [drainEv], by simp⟩

@[simp] theorem port_drainEv_same (i : Nat) (sent : List β) (ok : Bool) :
    port i (drainEv i sent ok) =
      sent.flatMap (fun x => [Ev.rdy true, Ev.snd x]) ++ (if ok then [] else [Ev.rdy false]) := by
  induction sent with
  | nil => cases ok <;> simp [drainEv, port]
  | cons x xs ih =>
    simp only [drainEv, List.flatMap_cons, List.append_assoc, List.cons_append, List.nil_append] at ih ⊢
    rw [port_cons_same, port_cons_same, ih]

theorem port_drainEv_ne {i j : Nat} (h : i ≠ j) (sent : List β) (ok : Bool) :
    port j (drainEv i sent ok) = [] := by
  induction sent with
  | nil => cases ok <;> simp [drainEv, port, h]
  | cons x xs ih =>
    simp only [drainEv, List.flatMap_cons, List.append_assoc, List.cons_append, List.nil_append] at ih ⊢
    rw [port_cons_ne h, port_cons_ne h, ih]

@[simp] theorem sends_drainTrace (sent : List β) (tl : List (Ev β)) :
    sends (sent.flatMap (fun x => [Ev.rdy true, Ev.snd x]) ++ tl) = sent ++ sends tl := by
  induction sent with
  | nil => simp
  | cons x xs ih => simp [ih]

/-- the automaton over a drain trace: fine as long as finalize was not started (or nothing is sent) -/
theorem run_drainTrace {p : PSt} (sent : List β) (ok : Bool) (h : sent = [] ∨ p.started = false) :
    p.run (sent.flatMap (fun x => [Ev.rdy true, Ev.snd x]) ++ (if ok then [] else [Ev.rdy false])) =
      some { p with ready := if ok then (if sent = [] then p.ready else false) else false } := by
  induction sent generalizing p with
  | nil => cases ok <;> simp [PSt.run, PSt.step]
  | cons x xs ih =>
    have hs : p.started = false := by rcases h with h | h; · simp at h
                                      · exact h
    have h2 := @ih { p with ready := false } (Or.inr hs)
    simp only [List.flatMap_cons, List.cons_append, List.nil_append, List.append_assoc]
    rw [PSt.run_cons]; simp only [PSt.step, Option.bind_some]
    rw [PSt.run_cons]; simp only [PSt.step, hs, Bool.not_false, Bool.and_self, if_true, Option.bind_some]
    simp only [hs] at h2
    rw [h2]
    cases ok <;> cases xs <;> simp

end HvPush
