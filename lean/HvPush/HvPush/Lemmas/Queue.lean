/-
The scripted futures queue used with `ResolveFutures`.
-/
import HvPush.Lemmas.Drain
namespace HvPush
open Prog

def qvals (q : List (QEntry β)) : List β := q.map (·.val)

@[simp] theorem qvals_nil : qvals ([] : List (QEntry β)) = [] := rfl
@[simp] theorem qvals_cons (e : QEntry β) (q : List (QEntry β)) : qvals (e :: q) = e.val :: qvals q := rfl
@[simp] theorem qvals_append (a b : List (QEntry β)) : qvals (a ++ b) = qvals a ++ qvals b := by simp [qvals]

theorem QEntry.poll_val (e : QEntry β) : e.poll.val = e.val := by
  unfold QEntry.poll; split
  · rfl
  · split <;> rfl

@[simp] theorem qvals_map_poll (q : List (QEntry β)) : qvals (q.map QEntry.poll) = qvals q := by
  induction q with
  | nil => rfl
  | cons e q ih => simp [ih, QEntry.poll_val]

theorem takeFirstDone_spec {q q' : List (QEntry β)} {x : β} (h : takeFirstDone q = some (x, q')) :
    (x :: qvals q').Perm (qvals q) ∧ q'.length + 1 = q.length := by
  induction q generalizing q' x with
  | nil => simp [takeFirstDone] at h
  | cons e es ih =>
    simp only [takeFirstDone] at h
    split at h
    · simp at h; obtain ⟨rfl, rfl⟩ := h; exact ⟨List.Perm.refl _, rfl⟩
    · cases hr : takeFirstDone es with
      | none => simp [hr] at h
      | some v =>
        obtain ⟨y, es'⟩ := v
        simp [hr] at h
        obtain ⟨rfl, rfl⟩ := h
        obtain ⟨h1, h2⟩ := ih hr
        refine ⟨?_, by simp; omega⟩
        simp only [qvals_cons]
        exact (List.Perm.swap _ _ _).trans (List.Perm.cons _ h1)

/-- what one `poll_next` of the queue does -/
theorem qPoll_spec (ordered : Bool) (q : List (QEntry β)) :
    match qPoll ordered q with
    | (q', .item x) => (x :: qvals q').Perm (qvals q) ∧ (ordered = true → x :: qvals q' = qvals q) ∧ q'.length + 1 = q.length
    | (q', .ended) => q = [] ∧ q' = []
    | (q', .pending) => qvals q' = qvals q ∧ q'.length = q.length ∧ q ≠ [] := by
  unfold qPoll
  cases q with
  | nil => simp
  | cons e es =>
    simp only [List.isEmpty_cons, Bool.false_eq_true, if_false, List.map_cons]
    cases ordered with
    | true =>
      simp only [if_true]
      by_cases hd : e.poll.done = true
      · simp [hd, QEntry.poll_val]
      · simp [hd, QEntry.poll_val]
    | false =>
      simp only [Bool.false_eq_true, if_false]
      cases hr : takeFirstDone (e.poll :: es.map QEntry.poll) with
      | none => exact ⟨by simp [QEntry.poll_val], by simp, by simp⟩
      | some v =>
        obtain ⟨x, q2⟩ := v
        obtain ⟨h1, h2⟩ := takeFirstDone_spec hr
        refine ⟨?_, by simp, by simpa using h2⟩
        simpa [QEntry.poll_val] using h1

/-- `empty_ready` with enough fuel: a drain of some queue outputs, then one more `ready?` -/
theorem emptyReadyAux_shape (ordered waker : Bool) (fuel : Nat) :
    ∀ {q q1 : List (QEntry β)} {es : List (PEv β)} {b : Bool}, q.length < fuel →
    Emits (emptyReadyAux ordered waker fuel q) es (q1, b) →
    ∃ sent r, es = onPort 0 (drainTr sent ++ [Ev.rdy r]) ∧ (sent ++ qvals q1).Perm (qvals q) ∧
      (ordered = true → sent ++ qvals q1 = qvals q) ∧ (b = true → r = true) ∧
      (b = true → waker = false → q1 = []) := by
  induction fuel with
  | zero => intro q q1 es b hf; omega
  | succ fuel ih =>
    intro q q1 es b hf he
    simp only [emptyReadyAux, emits_rdy] at he
    obtain ⟨r, es', rfl, he⟩ := he
    cases r with
    | false =>
      simp only [Bool.not_false, if_true, emits_ret] at he
      obtain ⟨rfl, hk⟩ := he; cases hk
      exact ⟨[], false, by simp [onPort], by simp, by simp, by simp, by simp⟩
    | true =>
      simp only [Bool.not_true, Bool.false_eq_true, if_false] at he
      have hsp := qPoll_spec ordered q
      cases hq : qPoll ordered q with
      | mk q' res =>
        rw [hq] at hsp he
        cases res with
        | item x =>
          simp only [emits_snd] at he hsp
          obtain ⟨es'', rfl, he⟩ := he
          obtain ⟨p1, p2, p3⟩ := hsp
          obtain ⟨sent, r, rfl, g1, g2, g3, g4⟩ := ih (by omega) he
          refine ⟨x :: sent, r, by simp [onPort, drainTr], ?_, ?_, g3, g4⟩
          · exact (List.Perm.cons x g1).trans p1
          · intro ho; simp only [List.cons_append]; rw [g2 ho]; exact p2 ho
        | ended =>
          simp only [emits_ret] at he hsp
          obtain ⟨rfl, hk⟩ := he; cases hk
          obtain ⟨rfl, rfl⟩ := hsp
          exact ⟨[], true, by simp [onPort], by simp, by simp, by simp, by simp⟩
        | pending =>
          simp only [emits_ret] at he hsp
          obtain ⟨rfl, hk⟩ := he; cases hk
          obtain ⟨p1, p2, p3⟩ := hsp
          refine ⟨[], true, by simp [onPort], by simp [p1], by simp [p1], by simp, ?_⟩
          intro hb hw; rw [hw] at hb; cases hb

end HvPush
