/-
The standard driver `SendPush::poll` (model: `drvPoll` / `drive`): every sequence of polls is a
call history of the push that honours the contract, finalizes only after the pull ended, and has
sent exactly the pull's items when it reports `Ready`.
-/
import HvPush.Lemmas.Basic
import HvPush.Model.SendPush
namespace HvPush

/-- the items of a pull script -/
def items (p : List (Option α)) : List α := p.filterMap id

@[simp] theorem items_nil : items ([] : List (Option α)) = [] := rfl
@[simp] theorem items_some (x : α) (p : List (Option α)) : items (some x :: p) = x :: items p := rfl
@[simp] theorem items_none (p : List (Option α)) : items (none :: p) = items p := rfl

theorem Comb.run_append (K : Comb κ α β) (N : MPush σ β) (k : κ) (s : σ) (c1 c2 : List (Call α)) :
    K.run N k s (c1 ++ c2) =
      let r1 := K.run N k s c1
      let r2 := K.run N r1.k r1.s c2
      ⟨r2.k, r2.s, r1.up ++ r2.up, r1.down ++ r2.down⟩ := by
  induction c1 generalizing k s with
  | nil => simp [Comb.run]
  | cons c cs ih => simp [Comb.run, ih, List.append_assoc]

/-- `o` is the result of running the call list `cs` from `(k, s)` -/
def IsRun (K : Comb κ α β) (N : MPush σ β) (k : κ) (s : σ) (o : DOut κ σ α β) (cs : List (Call α)) : Prop :=
  o.up = (K.run N k s cs).up ∧ o.down = (K.run N k s cs).down ∧ o.st.k = (K.run N k s cs).k ∧ o.st.s = (K.run N k s cs).s

theorem drvFin_isRun (K : Comb κ α β) (N : MPush σ β) (pull : List (Option α)) (k : κ) (s : σ) :
    IsRun K N k s (drvFin K N pull k s) [.fin] := by
  simp [IsRun, drvFin, Comb.run]

theorem drvLoop_isRun (K : Comb κ α β) (N : MPush σ β) (pull : List (Option α)) (k : κ) (s : σ) :
    ∃ cs, IsRun K N k s (drvLoop K N (fun _ => false) pull k s) cs := by
  induction pull generalizing k s with
  | nil =>
    unfold drvLoop
    by_cases h : (K.exec N k s .rdy).ev.isRdyTrue = true
    · refine ⟨[.rdy, .fin], ?_⟩
      simp [h, IsRun, drvFin, Comb.run]
    · refine ⟨[.rdy], ?_⟩
      simp [h, IsRun, Comb.run]
  | cons p rest ih =>
    unfold drvLoop
    by_cases h : (K.exec N k s .rdy).ev.isRdyTrue = true
    · cases p with
      | none => exact ⟨[.rdy], by simp [h, IsRun, Comb.run]⟩
      | some x =>
        obtain ⟨cs, h1, h2, h3, h4⟩ := ih (K.exec N (K.exec N k s .rdy).k (K.exec N k s .rdy).s (.snd x)).k
          (K.exec N (K.exec N k s .rdy).k (K.exec N k s .rdy).s (.snd x)).s
        refine ⟨.rdy :: .snd x :: cs, ?_⟩
        simp [h, IsRun, Comb.run, h1, h2, h3, h4]
    · exact ⟨[.rdy], by simp [h, IsRun, Comb.run]⟩

theorem drvPoll_isRun (K : Comb κ α β) (N : MPush σ β) (d : DSt κ σ α) :
    ∃ cs, IsRun K N d.k d.s (drvPoll K N (fun _ => false) d) cs := by
  unfold drvPoll
  split
  · exact ⟨[.fin], drvFin_isRun K N d.pull d.k d.s⟩
  · exact drvLoop_isRun K N d.pull d.k d.s

theorem drvLoop_not_panicked (K : Comb κ α β) (N : MPush σ β) (pull : List (Option α)) (k : κ) (s : σ) :
    (drvLoop K N (fun _ => false) pull k s).panicked = false := by
  induction pull generalizing k s with
  | nil =>
    unfold drvLoop
    by_cases h : (K.exec N k s .rdy).ev.isRdyTrue = true
    · simp [h, drvFin]
    · simp [h]
  | cons p rest ih =>
    unfold drvLoop
    by_cases h : (K.exec N k s .rdy).ev.isRdyTrue = true
    · cases p with
      | none => simp [h]
      | some x => simp [h, ih]
    · simp [h]

theorem drvPoll_not_panicked (K : Comb κ α β) (N : MPush σ β) (d : DSt κ σ α) :
    (drvPoll K N (fun _ => false) d).panicked = false := by
  unfold drvPoll; split
  · simp [drvFin]
  · exact drvLoop_not_panicked K N d.pull d.k d.s

/-- any number of polls is one call history on the push -/
theorem drive_isRun (K : Comb κ α β) (N : MPush σ β) (n : Nat) (d : DSt κ σ α) :
    ∃ cs, IsRun K N d.k d.s (drive K N (fun _ => false) n d) cs := by
  induction n generalizing d with
  | zero => exact ⟨[], by simp [IsRun, drive, Comb.run]⟩
  | succ n ih =>
    unfold drive
    obtain ⟨c1, h1, h2, h3, h4⟩ := drvPoll_isRun K N d
    by_cases hr : ((drvPoll K N (fun _ => false) d).ready || (drvPoll K N (fun _ => false) d).panicked) = true
    · exact ⟨c1, by simp only [hr, if_true]; exact ⟨h1, h2, h3, h4⟩⟩
    · obtain ⟨c2, g1, g2, g3, g4⟩ := ih (drvPoll K N (fun _ => false) d).st
      refine ⟨c1 ++ c2, ?_⟩
      simp only [hr, IsRun, Comb.run_append]
      rw [h3, h4] at g1 g2 g3 g4
      simp [h1, h2, g1, g2, g3, g4]

/-! ### the contract side -/

/-- what is known after some polls: contract state of the call history so far, whether the pull
    ended, what is still to be pulled -/
structure DrvInv (pull0 : List (Option α)) (up : List (Ev α)) (d : DSt κ σ α) (pu : PSt) : Prop where
  run : PSt.run {} up = some pu
  started : pu.started = d.ended
  rest : sends up ++ items d.pull = items pull0
  ended : d.ended = true → d.pull = []
  /-- finalize only after the pull ended: before any `finalize?` everything was sent -/
  finAfter : ∀ pre b post, up = pre ++ Ev.fin b :: post → sends pre = items pull0

theorem aux_run_snoc {p q : PSt} {up : List (Ev α)} {e : Ev α} (h : PSt.run p up = some q) :
    PSt.run p (up ++ [e]) = q.step e := by
  rw [PSt.run_append, h]; simp [PSt.run]; cases q.step e <;> rfl

@[simp] theorem exec_rdy_ev (K : Comb κ α β) (N : MPush σ β) (k : κ) (s : σ) :
    (K.exec N k s .rdy).ev = .rdy ((K.ready k).interp N s).1.2 := rfl
@[simp] theorem exec_snd_ev (K : Comb κ α β) (N : MPush σ β) (k : κ) (s : σ) (x : α) :
    (K.exec N k s (.snd x)).ev = .snd x := rfl
@[simp] theorem exec_fin_ev (K : Comb κ α β) (N : MPush σ β) (k : κ) (s : σ) :
    (K.exec N k s .fin).ev = .fin ((K.fin k).interp N s).1.2 := rfl
@[simp] theorem isRdyTrue_rdy (b : Bool) : (Ev.rdy b : Ev α).isRdyTrue = b := by cases b <;> rfl
@[simp] theorem isFinTrue_fin (b : Bool) : (Ev.fin b : Ev α).isFinTrue = b := by cases b <;> rfl

theorem PSt.run_started_mono {p q : PSt} {up : List (Ev α)} (h : p.run up = some q) (hs : p.started = true) :
    q.started = true := by
  induction up generalizing p with
  | nil => simp at h; subst h; exact hs
  | cons e up ih =>
    rw [PSt.run_cons] at h
    cases hst : p.step e with
    | none => simp [hst] at h
    | some p1 =>
      simp [hst] at h
      refine ih h ?_
      cases e with
      | rdy b => simp [PSt.step] at hst; subst hst; exact hs
      | snd x => simp [PSt.step, hs] at hst
      | fin b => simp [PSt.step] at hst; subst hst; rfl

/-- as long as finalize was not started, the history holds no `finalize?` -/
theorem PSt.no_fin_of_not_started {p q : PSt} {up : List (Ev α)} (h : p.run up = some q) (hs : q.started = false) :
    ∀ pre b post, up ≠ pre ++ Ev.fin b :: post := by
  induction up generalizing p with
  | nil => intro pre b post h'; cases pre <;> simp at h'
  | cons e up ih =>
    rw [PSt.run_cons] at h
    cases hst : p.step e with
    | none => simp [hst] at h
    | some p1 =>
      simp [hst] at h
      intro pre b post h'
      cases pre with
      | nil =>
        simp at h'
        obtain ⟨rfl, rfl⟩ := h'
        simp [PSt.step] at hst; subst hst
        have := PSt.run_started_mono h rfl
        rw [hs] at this; cases this
      | cons e' pre =>
        simp at h'
        exact ih h pre b post h'.2

theorem aux_finAfter_snoc {up : List (Ev α)} {its : List α} {b : Bool}
    (h : ∀ pre b post, up = pre ++ Ev.fin b :: post → sends pre = its) (hs : sends up = its) :
    ∀ pre b' post, up ++ [Ev.fin b] = pre ++ Ev.fin b' :: post → sends pre = its := by
  intro pre b' post he
  rcases List.eq_nil_or_concat post with rfl | ⟨post', e, rfl⟩
  · have := List.append_inj' he rfl
    rw [← this.1]; exact hs
  · have : up ++ [Ev.fin b] = (pre ++ Ev.fin b' :: post') ++ [e] := by simpa [List.append_assoc] using he
    have := List.append_inj' this rfl
    exact h pre b' post' this.1

variable (K : Comb κ α β) (N : MPush σ β)

theorem drvFin_inv {pull0 : List (Option α)} {up0 : List (Ev α)} {k : κ} {s : σ} {pu : PSt} {e : Bool}
    (h : DrvInv pull0 up0 ⟨[], e, k, s⟩ pu) :
    ∃ pu', DrvInv pull0 (up0 ++ (drvFin K N [] k s).up) (drvFin K N [] k s).st pu' ∧
      ((drvFin K N [] k s).ready = true → pu'.closed = true) := by
  simp only [drvFin, exec_fin_ev, isFinTrue_fin]
  generalize ((K.fin k).interp N s).1.2 = b
  refine ⟨{ pu with started := true, closed := pu.closed || b }, ⟨?_, rfl, ?_, fun _ => rfl, ?_⟩, by intro hb; simp [hb]⟩
  · rw [aux_run_snoc h.run]; rfl
  · simpa using h.rest
  · exact aux_finAfter_snoc h.finAfter (by simpa using h.rest)

theorem drvLoop_inv {pull0 : List (Option α)} (pull : List (Option α)) :
    ∀ {up0 : List (Ev α)} {k : κ} {s : σ} {pu : PSt}, DrvInv pull0 up0 ⟨pull, false, k, s⟩ pu →
    ∃ pu', DrvInv pull0 (up0 ++ (drvLoop K N (fun _ => false) pull k s).up) (drvLoop K N (fun _ => false) pull k s).st pu' ∧
      ((drvLoop K N (fun _ => false) pull k s).ready = true → pu'.closed = true) := by
  induction pull with
  | nil =>
    intro up0 k s pu h
    unfold drvLoop
    simp only [exec_rdy_ev, isRdyTrue_rdy]
    generalize hb : ((K.ready k).interp N s).1.2 = b
    have hrun : PSt.run {} (up0 ++ [Ev.rdy b]) = some { pu with ready := b } := by rw [aux_run_snoc h.run]; rfl
    have hst : ({ pu with ready := b } : PSt).started = false := h.started
    cases b with
    | true =>
      simp only [if_true]
      have h1 : DrvInv pull0 (up0 ++ [Ev.rdy true]) ⟨[], false, (K.exec N k s .rdy).k, (K.exec N k s .rdy).s⟩ { pu with ready := true } :=
        ⟨hrun, hst, by simpa using h.rest, by simp, fun pre b post he => absurd he (PSt.no_fin_of_not_started hrun hst pre b post)⟩
      obtain ⟨pu', h2, h3⟩ := drvFin_inv K N h1
      exact ⟨pu', by simpa [List.append_assoc] using h2, h3⟩
    | false =>
      simp only [Bool.false_eq_true, if_false]
      exact ⟨_, ⟨hrun, hst, by simpa using h.rest, by simp, fun pre b post he => absurd he (PSt.no_fin_of_not_started hrun hst pre b post)⟩, by simp⟩
  | cons p rest ih =>
    intro up0 k s pu h
    unfold drvLoop
    simp only [exec_rdy_ev, isRdyTrue_rdy]
    generalize hb : ((K.ready k).interp N s).1.2 = b
    have hrun : PSt.run {} (up0 ++ [Ev.rdy b]) = some { pu with ready := b } := by rw [aux_run_snoc h.run]; rfl
    have hst : ({ pu with ready := b } : PSt).started = false := h.started
    cases b with
    | false =>
      simp only [Bool.false_eq_true, if_false]
      exact ⟨_, ⟨hrun, hst, by simpa using h.rest, by simp, fun pre b post he => absurd he (PSt.no_fin_of_not_started hrun hst pre b post)⟩, by simp⟩
    | true =>
      simp only [if_true]
      cases p with
      | none =>
        exact ⟨_, ⟨hrun, hst, by simpa using h.rest, by simp, fun pre b post he => absurd he (PSt.no_fin_of_not_started hrun hst pre b post)⟩, by simp⟩
      | some x =>
        simp only [Bool.false_eq_true, if_false]
        have hrun2 : PSt.run {} (up0 ++ [Ev.rdy true] ++ [Ev.snd x]) = some { pu with ready := false } := by
          rw [aux_run_snoc hrun]
          have : pu.started = false := h.started
          simp [PSt.step, this]
        have hst2 : ({ pu with ready := false } : PSt).started = false := h.started
        have h1 : DrvInv pull0 (up0 ++ [Ev.rdy true] ++ [Ev.snd x])
            ⟨rest, false, (K.exec N (K.exec N k s .rdy).k (K.exec N k s .rdy).s (.snd x)).k,
              (K.exec N (K.exec N k s .rdy).k (K.exec N k s .rdy).s (.snd x)).s⟩ { pu with ready := false } :=
          ⟨hrun2, hst2, by simpa [List.append_assoc] using h.rest, by simp,
            fun pre b post he => absurd he (PSt.no_fin_of_not_started hrun2 hst2 pre b post)⟩
        obtain ⟨pu', h2, h3⟩ := ih h1
        exact ⟨pu', by simpa [List.append_assoc] using h2, h3⟩

theorem drvPoll_inv {pull0 : List (Option α)} {up0 : List (Ev α)} {d : DSt κ σ α} {pu : PSt}
    (h : DrvInv pull0 up0 d pu) :
    ∃ pu', DrvInv pull0 (up0 ++ (drvPoll K N (fun _ => false) d).up) (drvPoll K N (fun _ => false) d).st pu' ∧
      ((drvPoll K N (fun _ => false) d).ready = true → pu'.closed = true) := by
  unfold drvPoll
  by_cases he : d.ended = true
  · simp only [he, if_true]
    have hp := h.ended he
    obtain ⟨pull, e, k, s⟩ := d
    simp only at hp he ⊢
    subst hp
    exact drvFin_inv K N h
  · simp only [he]
    obtain ⟨pull, e, k, s⟩ := d
    simp only [Bool.not_eq_true] at he
    subst he
    exact drvLoop_inv K N pull h

theorem drive_inv {pull0 : List (Option α)} (n : Nat) :
    ∀ {up0 : List (Ev α)} {d : DSt κ σ α} {pu : PSt}, DrvInv pull0 up0 d pu →
    ∃ pu', DrvInv pull0 (up0 ++ (drive K N (fun _ => false) n d).up) (drive K N (fun _ => false) n d).st pu' ∧
      ((drive K N (fun _ => false) n d).ready = true → pu'.closed = true) := by
  induction n with
  | zero => intro up0 d pu h; exact ⟨pu, by simpa [drive] using h, by simp [drive]⟩
  | succ n ih =>
    intro up0 d pu h
    unfold drive
    obtain ⟨pu1, h1, h2⟩ := drvPoll_inv K N h
    by_cases hr : ((drvPoll K N (fun _ => false) d).ready || (drvPoll K N (fun _ => false) d).panicked) = true
    · simp only [hr, if_true]
      exact ⟨pu1, h1, h2⟩
    · simp only [hr]
      obtain ⟨pu2, h3, h4⟩ := ih h1
      exact ⟨pu2, by simpa [List.append_assoc] using h3, h4⟩

end HvPush
