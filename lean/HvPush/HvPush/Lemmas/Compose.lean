/-
Composition: the downstream of `K1` is `K2`.  Every history of the composite splits into a history
of `K1` and the history of `K2` made of exactly the calls `K1` performed — which is what makes the
assume/guarantee theorems (`Comb.Sound`) chain along a pipeline.
-/
import HvPush.Lemmas.Single
namespace HvPush
open Prog

theorem emits_subst (K2 : Comb κ2 β γ) (p : Prog β ρ) :
    ∀ {k2 k2' : κ2} {es : List (PEv γ)} {r : ρ}, Emits (p.subst K2 k2) es (r, k2') →
    ∃ mid, Emits p mid r ∧ K2.Tr k2 (mid.map (·.2)) es k2' := by
  induction p with
  | ret a =>
    intro k2 k2' es r h
    simp only [Prog.subst, emits_ret] at h
    obtain ⟨rfl, hk⟩ := h; cases hk
    exact ⟨[], .ret _, .nil _⟩
  | rdy i k ih =>
    intro k2 k2' es r h
    simp only [Prog.subst, emits_bind] at h
    obtain ⟨es1, ⟨k2a, b⟩, es2, h1, h2, rfl⟩ := h
    obtain ⟨mid, hm, ht⟩ := ih b h2
    exact ⟨(i, .rdy b) :: mid, .rdy _ _ _ _ _ hm, .rdy h1 ht⟩
  | snd i x k ih =>
    intro k2 k2' es r h
    simp only [Prog.subst, emits_bind] at h
    obtain ⟨es1, k2a, es2, h1, h2, rfl⟩ := h
    obtain ⟨mid, hm, ht⟩ := ih h2
    exact ⟨(i, .snd x) :: mid, .snd _ _ _ _ _ hm, .snd h1 ht⟩
  | fin i k ih =>
    intro k2 k2' es r h
    simp only [Prog.subst, emits_bind] at h
    obtain ⟨es1, ⟨k2a, b⟩, es2, h1, h2, rfl⟩ := h
    obtain ⟨mid, hm, ht⟩ := ih b h2
    exact ⟨(i, .fin b) :: mid, .fin _ _ _ _ _ hm, .fin h1 ht⟩

/-- a history of `K1 ∘ K2` is a history of `K1` plus the history of `K2` consisting of `K1`'s calls -/
theorem comp_tr {K1 : Comb κ1 α β} {K2 : Comb κ2 β γ} {k k' : κ1 × κ2} {up : List (Ev α)} {down : List (PEv γ)}
    (h : (K1.comp K2).Tr k up down k') :
    ∃ mid, K1.Tr k.1 up mid k'.1 ∧ K2.Tr k.2 (mid.map (·.2)) down k'.2 := by
  induction h with
  | nil k => exact ⟨[], .nil _, .nil _⟩
  | @rdy k ka kb b es down up he _ ih =>
    simp only [Comb.comp, emits_bind, emits_ret] at he
    obtain ⟨es1, ⟨⟨k1a, b1⟩, k2a⟩, es2, h1, ⟨rfl, hk⟩, rfl⟩ := he
    cases hk
    obtain ⟨m1, hm1, ht1⟩ := emits_subst K2 _ h1
    obtain ⟨m2, hm2, ht2⟩ := ih
    exact ⟨m1 ++ m2, .rdy hm1 hm2, by simpa using ht1.append ht2⟩
  | @snd k ka kb x es down up he _ ih =>
    simp only [Comb.comp, emits_bind, emits_ret] at he
    obtain ⟨es1, ⟨k1a, k2a⟩, es2, h1, ⟨rfl, hk⟩, rfl⟩ := he
    cases hk
    obtain ⟨m1, hm1, ht1⟩ := emits_subst K2 _ h1
    obtain ⟨m2, hm2, ht2⟩ := ih
    exact ⟨m1 ++ m2, .snd hm1 hm2, by simpa using ht1.append ht2⟩
  | @fin k ka kb b es down up he _ ih =>
    simp only [Comb.comp, emits_bind, emits_ret] at he
    obtain ⟨es1, ⟨⟨k1a, b1⟩, k2a⟩, es2, h1, ⟨rfl, hk⟩, rfl⟩ := he
    cases hk
    obtain ⟨m1, hm1, ht1⟩ := emits_subst K2 _ h1
    obtain ⟨m2, hm2, ht2⟩ := ih
    exact ⟨m1 ++ m2, .fin hm1 hm2, by simpa using ht1.append ht2⟩

/-- along contract-honouring histories all downstream calls go to port 0 -/
def Comb.Mono (K : Comb κ α β) (k0 : κ) : Prop :=
  ∀ up down k', K.Tr k0 up down k' → ProtoOk up → ∀ e ∈ down, e.1 = 0

theorem SimInv1.mono_aux {K : Comb κ α β} {P : Inv1T κ α β} (h : SimInv1 K P)
    {k k' : κ} {up : List (Ev α)} {down : List (PEv β)} (ht : K.Tr k up down k') :
    ∀ pu pd su sd pu', P pu k pd su sd → pu.run up = some pu' → ∀ e ∈ down, e.1 = 0 := by
  have hon : ∀ (es0 : List (Ev β)), ∀ e ∈ onPort 0 es0, e.1 = 0 := by
    intro es0 e he; simp only [onPort, List.mem_map] at he; obtain ⟨_, _, rfl⟩ := he; rfl
  induction ht with
  | nil k => intro _ _ _ _ _ _ _ e he; cases he
  | @rdy k k1 k2 b es down up he _ ih =>
    intro pu pd su sd pu' hi hr e hmem
    rw [PSt.run_cons] at hr
    simp only [PSt.step, Option.bind_some] at hr
    obtain ⟨es0, pd', rfl, _, hp⟩ := h.ready pu k pd su sd es k1 b hi he
    rcases List.mem_append.1 hmem with hm | hm
    · exact hon _ e hm
    · exact ih _ _ _ _ _ hp hr e hm
  | @snd k k1 k2 x es down up he _ ih =>
    intro pu pd su sd pu' hi hr e hmem
    rw [PSt.run_cons] at hr
    simp only [PSt.step] at hr
    split at hr
    · rename_i hc
      simp only [Bool.and_eq_true, Bool.not_eq_true'] at hc
      simp only [Option.bind_some] at hr
      obtain ⟨es0, pd', rfl, _, hp⟩ := h.send pu k pd su sd es k1 x hi hc.1 hc.2 he
      rcases List.mem_append.1 hmem with hm | hm
      · exact hon _ e hm
      · exact ih _ _ _ _ _ hp hr e hm
    · simp at hr
  | @fin k k1 k2 b es down up he _ ih =>
    intro pu pd su sd pu' hi hr e hmem
    rw [PSt.run_cons] at hr
    simp only [PSt.step, Option.bind_some] at hr
    obtain ⟨es0, pd', rfl, _, hp⟩ := h.fin pu k pd su sd es k1 b hi he
    rcases List.mem_append.1 hmem with hm | hm
    · exact hon _ e hm
    · exact ih _ _ _ _ _ hp hr e hm

theorem SimInv1.mono {K : Comb κ α β} {P : Inv1T κ α β} (h : SimInv1 K P) {k0 : κ} (h0 : P {} k0 {} [] []) :
    K.Mono k0 := by
  intro up down k' ht hok
  obtain ⟨pu', hpu⟩ := ProtoOk_iff.1 hok
  exact h.mono_aux ht {} {} [] [] pu' h0 hpu

theorem port_zero_of_all {down : List (PEv β)} (h : ∀ e ∈ down, e.1 = 0) : port 0 down = down.map (·.2) := by
  induction down with
  | nil => rfl
  | cons e es ih =>
    obtain ⟨i, ev⟩ := e
    have : i = 0 := h (i, ev) (List.mem_cons_self ..)
    subst this
    rw [port_cons_same, ih (fun e he => h e (List.mem_cons_of_mem _ he))]
    rfl

/-- **Pipelines follow by induction.**  If `K1` (single downstream) is contract-sound with spec
    `S1` and `K2` is contract-sound with specs `S2`, then `K1` pushing into `K2` is contract-sound
    with the composed spec: whatever `K2` needs from its caller is what `K1` guarantees. -/
theorem comp_sound {K1 : Comb κ1 α β} {K2 : Comb κ2 β γ} {k1 : κ1} {k2 : κ2}
    {S1 : Nat → List α → List β → Prop} {ports : List Nat} {S2 : Nat → List β → List γ → Prop}
    (h1 : K1.Sound k1 [0] S1) (hm : K1.Mono k1) (h2 : K2.Sound k2 ports S2) :
    (K1.comp K2).Sound (k1, k2) ports (fun i ins outs => ∃ mid, S1 0 ins mid ∧ S2 i mid outs) := by
  intro up down k' ht hok
  obtain ⟨mid, ht1, ht2⟩ := comp_tr ht
  obtain ⟨g1, g2⟩ := h1 up mid k'.1 ht1 hok
  have hp0 := port_zero_of_all (hm up mid k'.1 ht1 hok)
  have hmid : ProtoOk (mid.map (·.2)) := by rw [← hp0]; exact g1 0
  obtain ⟨f1, f2⟩ := h2 _ down k'.2 ht2 hmid
  refine ⟨f1, fun hc i hi => ?_⟩
  obtain ⟨c1, s1⟩ := g2 hc 0 (List.mem_singleton.2 rfl)
  rw [hp0] at c1 s1
  obtain ⟨c2, s2⟩ := f2 c1 i hi
  exact ⟨c2, _, s1, s2⟩

theorem comp_mono {K1 : Comb κ1 α β} {K2 : Comb κ2 β γ} {k1 : κ1} {k2 : κ2} {S1 : Nat → List α → List β → Prop}
    (h1 : K1.Sound k1 [0] S1) (hm1 : K1.Mono k1) (hm2 : K2.Mono k2) : (K1.comp K2).Mono (k1, k2) := by
  intro up down k' ht hok
  obtain ⟨mid, ht1, ht2⟩ := comp_tr ht
  obtain ⟨g1, _⟩ := h1 up mid k'.1 ht1 hok
  have hp0 := port_zero_of_all (hm1 up mid k'.1 ht1 hok)
  have hmid : ProtoOk (mid.map (·.2)) := by rw [← hp0]; exact g1 0
  exact hm2 _ down k'.2 ht2 hmid

end HvPush
