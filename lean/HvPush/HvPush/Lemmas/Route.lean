/-
`Fanout` / `Unzip` / `DemuxVar` through their common shape `routeC`.
-/
import HvPush.Lemmas.Sim
namespace HvPush
open Prog

theorem readyAll_shape {i n : Nat} {es : List (PEv β)} {b : Bool} (h : Emits (readyAll i n) es b) :
    ∃ f : Nat → Bool, (∀ j, port j es = if i ≤ j ∧ j < i + n then [Ev.rdy (f j)] else []) ∧
      (b = true ↔ ∀ j, i ≤ j → j < i + n → f j = true) := by
  induction n generalizing i es b with
  | zero =>
    simp only [readyAll, emits_ret] at h
    obtain ⟨rfl, rfl⟩ := h
    exact ⟨fun _ => true, fun j => by simp, by simp⟩
  | succ n ih =>
    simp only [readyAll, emits_rdy, emits_bind, emits_ret] at h
    obtain ⟨a, es', rfl, es1, b1, es2, h1, ⟨rfl, rfl⟩, rfl⟩ := h
    obtain ⟨f, hf1, hf2⟩ := ih h1
    refine ⟨fun j => if j = i then a else f j, fun j => ?_, ?_⟩
    · by_cases hj : j = i
      · subst hj
        rw [port_cons_same, List.append_nil, hf1]
        have h' : ¬(j + 1 ≤ j ∧ j < j + 1 + n) := by omega
        simp [h']
      · rw [port_cons_ne (Ne.symm hj), List.append_nil, hf1]
        have : (i + 1 ≤ j ∧ j < i + 1 + n) ↔ (i ≤ j ∧ j < i + (n + 1)) := by omega
        simp [hj, this]
    · simp only [Bool.and_eq_true]
      constructor
      · rintro ⟨ha, hb⟩ j h1 h2
        by_cases hj : j = i
        · simp [hj, ha]
        · simp only [hj, if_false]; exact (hf2.1 hb) j (by omega) (by omega)
      · intro hall
        refine ⟨by simpa using hall i (Nat.le_refl _) (by omega), hf2.2 fun j h1 h2 => ?_⟩
        have := hall j (by omega) (by omega)
        have hj : j ≠ i := by omega
        simpa [hj] using this

theorem finAll_shape {i n : Nat} {es : List (PEv β)} {b : Bool} (h : Emits (finAll i n) es b) :
    ∃ f : Nat → Bool, (∀ j, port j es = if i ≤ j ∧ j < i + n then [Ev.fin (f j)] else []) ∧
      (b = true ↔ ∀ j, i ≤ j → j < i + n → f j = true) := by
  induction n generalizing i es b with
  | zero =>
    simp only [finAll, emits_ret] at h
    obtain ⟨rfl, rfl⟩ := h
    exact ⟨fun _ => true, fun j => by simp, by simp⟩
  | succ n ih =>
    simp only [finAll, emits_fin, emits_bind, emits_ret] at h
    obtain ⟨a, es', rfl, es1, b1, es2, h1, ⟨rfl, rfl⟩, rfl⟩ := h
    obtain ⟨f, hf1, hf2⟩ := ih h1
    refine ⟨fun j => if j = i then a else f j, fun j => ?_, ?_⟩
    · by_cases hj : j = i
      · subst hj
        rw [port_cons_same, List.append_nil, hf1]
        have h' : ¬(j + 1 ≤ j ∧ j < j + 1 + n) := by omega
        simp [h']
      · rw [port_cons_ne (Ne.symm hj), List.append_nil, hf1]
        have : (i + 1 ≤ j ∧ j < i + 1 + n) ↔ (i ≤ j ∧ j < i + (n + 1)) := by omega
        simp [hj, this]
    · simp only [Bool.and_eq_true]
      constructor
      · rintro ⟨ha, hb⟩ j h1 h2
        by_cases hj : j = i
        · simp [hj, ha]
        · simp only [hj, if_false]; exact (hf2.1 hb) j (by omega) (by omega)
      · intro hall
        refine ⟨by simpa using hall i (Nat.le_refl _) (by omega), hf2.2 fun j h1 h2 => ?_⟩
        have := hall j (by omega) (by omega)
        have hj : j ≠ i := by omega
        simpa [hj] using this

theorem sendAll_shape {r : α → Nat → Option β} {x : α} {i n : Nat} {es : List (PEv β)}
    (h : Emits (sendAll r x i n) es ()) :
    ∀ j, port j es = if i ≤ j ∧ j < i + n then (match r x j with | some y => [Ev.snd y] | none => []) else [] := by
  induction n generalizing i es with
  | zero =>
    simp only [sendAll, emits_ret] at h
    obtain ⟨rfl, -⟩ := h
    intro j
    have h' : ¬(i ≤ j ∧ j < i + 0) := by omega
    rw [if_neg h']; rfl
  | succ n ih =>
    simp only [sendAll] at h
    intro j
    have hiff : (i + 1 ≤ j ∧ j < i + 1 + n) ↔ (i ≤ j ∧ j < i + (n + 1) ∧ j ≠ i) := by omega
    cases hr : r x i with
    | none =>
      simp only [hr] at h
      rw [ih h j]
      by_cases hj : j = i
      · subst hj; simp [hr]
      · have : (i + 1 ≤ j ∧ j < i + 1 + n) ↔ (i ≤ j ∧ j < i + (n + 1)) := by omega
        simp [this]
    | some y =>
      simp only [hr, emits_snd] at h
      obtain ⟨es', rfl, h⟩ := h
      by_cases hj : j = i
      · subst hj
        rw [port_cons_same, ih h j]
        have h' : ¬(j + 1 ≤ j ∧ j < j + 1 + n) := by omega
        simp [hr, h']
      · rw [port_cons_ne (Ne.symm hj), ih h j]
        have : (i + 1 ≤ j ∧ j < i + 1 + n) ↔ (i ≤ j ∧ j < i + (n + 1)) := by omega
        simp [this]

/-- invariant of `routeC` -/
def invRoute (n : Nat) (r : α → Nat → Option β) : InvT Unit α β := fun pu _ pd su sd =>
  ∀ j, j < n →
    ((pd j).started = true → pu.started = true) ∧ (pu.closed = true → (pd j).closed = true) ∧
    (pu.ready = true → pu.started = false → (pd j).ready = true) ∧ sd j = su.filterMap (fun x => r x j)

theorem simRoute (n : Nat) (r : α → Nat → Option β) : SimInv (routeC n r) (invRoute n r) where
  ready := by
    intro pu k pd su sd es k1 b hi he
    simp only [routeC, emits_bind, emits_ret] at he
    obtain ⟨es1, b1, es2, h1, ⟨rfl, hk⟩, rfl⟩ := he
    cases hk
    obtain ⟨f, hf1, hf2⟩ := readyAll_shape h1
    refine ⟨fun j => if j < n then { pd j with ready := f j } else pd j, fun j => ?_, fun j hj => ?_⟩
    · rw [List.append_nil, hf1]
      by_cases hj : j < n <;> simp [hj, PSt.run, PSt.step]
    · obtain ⟨g1, g2, g3, g4⟩ := hi j hj
      simp only [hj, if_true, List.append_nil]
      refine ⟨g1, g2, fun hb _ => hf2.1 hb j (Nat.zero_le _) (by omega), ?_⟩
      rw [hf1]; simp [hj, g4]
  send := by
    intro pu k pd su sd es k1 x hi hr hs he
    simp only [routeC] at he
    have hsh := sendAll_shape he
    refine ⟨fun j => if j < n then (match r x j with | some _ => { pd j with ready := false } | none => pd j) else pd j,
      fun j => ?_, fun j hj => ?_⟩
    · rw [hsh]
      by_cases hj : j < n
      · obtain ⟨g1, g2, g3, g4⟩ := hi j hj
        have hpr := g3 hr hs
        have hps : (pd j).started = false := by
          cases h : (pd j).started
          · rfl
          · rw [g1 h] at hs; cases hs
        cases hrx : r x j <;> simp [hj, hrx, PSt.run, PSt.step, hpr, hps]
      · simp [hj]
    · obtain ⟨g1, g2, g3, g4⟩ := hi j hj
      have hp := hsh j
      simp only [Nat.zero_le, true_and, Nat.zero_add, hj, if_true] at hp
      simp only [hj, if_true, hp]
      cases hrx : r x j with
      | none => exact ⟨g1, g2, by simp, by simp [g4, List.filterMap_append, hrx]⟩
      | some y => exact ⟨g1, g2, by simp, by simp [g4, List.filterMap_append, hrx]⟩
  fin := by
    intro pu k pd su sd es k1 b hi he
    simp only [routeC, emits_bind, emits_ret] at he
    obtain ⟨es1, b1, es2, h1, ⟨rfl, hk⟩, rfl⟩ := he
    cases hk
    obtain ⟨f, hf1, hf2⟩ := finAll_shape h1
    refine ⟨fun j => if j < n then { pd j with started := true, closed := (pd j).closed || f j } else pd j,
      fun j => ?_, fun j hj => ?_⟩
    · rw [List.append_nil, hf1]
      by_cases hj : j < n <;> simp [hj, PSt.run, PSt.step]
    · obtain ⟨g1, g2, g3, g4⟩ := hi j hj
      simp only [hj, if_true, List.append_nil]
      refine ⟨fun _ => trivial, ?_, by simp, ?_⟩
      · intro hc
        simp only [Bool.or_eq_true] at hc ⊢
        rcases hc with hc | hc
        · exact Or.inl (g2 hc)
        · exact Or.inr (hf2.1 hc j (Nat.zero_le _) (by omega))
      · rw [hf1]; simp [hj, g4]

/-- `routeC n r`: every port `j < n` sees a contract-honouring trace and, at completion, has been
    finalized and has received exactly the `r · j`-images of the inputs, in order. -/
theorem route_sound (n : Nat) (r : α → Nat → Option β) :
    (routeC n r).Sound () (List.range n) (fun j ins outs => outs = ins.filterMap (fun x => r x j)) :=
  (simRoute n r).sound (fun j _ => ⟨by simp, by simp, by simp, rfl⟩) (fun pu k pd su sd hi _ hc j hj => by
    have hj' : j < n := by simpa using hj
    obtain ⟨_, g2, _, g4⟩ := hi j hj'
    exact ⟨g2 hc, g4⟩)

end HvPush
