/-
Trace semantics of `Prog` and the contract automaton: the lemmas every combinator proof uses.
-/
import HvPush.Model.Core
import HvPush.Model.Combs
namespace HvPush
open Prog

/-- `Emits p es r`: for some answers of the downstream, `p` performs exactly the events `es` and
    returns `r`.  Quantifying over `Emits` is quantifying over every possible downstream. -/
inductive Emits : Prog β ρ → List (PEv β) → ρ → Prop
  | ret (r : ρ) : Emits (.ret r) [] r
  | rdy (i : Nat) (k : Bool → Prog β ρ) (b : Bool) (es : List (PEv β)) (r : ρ) :
      Emits (k b) es r → Emits (.rdy i k) ((i, .rdy b) :: es) r
  | snd (i : Nat) (x : β) (k : Prog β ρ) (es : List (PEv β)) (r : ρ) :
      Emits k es r → Emits (.snd i x k) ((i, .snd x) :: es) r
  | fin (i : Nat) (k : Bool → Prog β ρ) (b : Bool) (es : List (PEv β)) (r : ρ) :
      Emits (k b) es r → Emits (.fin i k) ((i, .fin b) :: es) r

/-- Running against any downstream is one of the behaviours described by `Emits`. -/
theorem interp_emits (N : MPush σ β) (p : Prog β ρ) (s : σ) :
    Emits p (p.interp N s).2.2 (p.interp N s).1 := by
  induction p generalizing s with
  | ret r => exact .ret r
  | rdy i k ih => exact .rdy _ _ _ _ _ (ih _ _)
  | snd i x k ih => exact .snd _ _ _ _ _ (ih _)
  | fin i k ih => exact .fin _ _ _ _ _ (ih _ _)

@[simp] theorem emits_ret {r r' : ρ} {es : List (PEv β)} : Emits (.ret r : Prog β ρ) es r' ↔ es = [] ∧ r' = r := by
  constructor
  · intro h; cases h; exact ⟨rfl, rfl⟩
  · rintro ⟨rfl, rfl⟩; exact .ret _

theorem emits_rdy {i : Nat} {k : Bool → Prog β ρ} {es : List (PEv β)} {r : ρ} :
    Emits (.rdy i k) es r ↔ ∃ b es', es = (i, .rdy b) :: es' ∧ Emits (k b) es' r := by
  constructor
  · intro h; cases h with | rdy _ _ b es' _ h' => exact ⟨b, es', rfl, h'⟩
  · rintro ⟨b, es', rfl, h⟩; exact .rdy _ _ _ _ _ h

theorem emits_snd {i : Nat} {x : β} {k : Prog β ρ} {es : List (PEv β)} {r : ρ} :
    Emits (.snd i x k) es r ↔ ∃ es', es = (i, .snd x) :: es' ∧ Emits k es' r := by
  constructor
  · intro h; cases h with | snd _ _ _ es' _ h' => exact ⟨es', rfl, h'⟩
  · rintro ⟨es', rfl, h⟩; exact .snd _ _ _ _ _ h

theorem emits_fin {i : Nat} {k : Bool → Prog β ρ} {es : List (PEv β)} {r : ρ} :
    Emits (.fin i k) es r ↔ ∃ b es', es = (i, .fin b) :: es' ∧ Emits (k b) es' r := by
  constructor
  · intro h; cases h with | fin _ _ b es' _ h' => exact ⟨b, es', rfl, h'⟩
  · rintro ⟨b, es', rfl, h⟩; exact .fin _ _ _ _ _ h

theorem emits_bind {p : Prog β ρ} {f : ρ → Prog β τ} {es : List (PEv β)} {r : τ} :
    Emits (p.bind f) es r ↔ ∃ es1 r1 es2, Emits p es1 r1 ∧ Emits (f r1) es2 r ∧ es = es1 ++ es2 := by
  induction p generalizing es with
  | ret a =>
    simp only [Prog.bind, emits_ret]
    constructor
    · intro h; exact ⟨[], a, es, ⟨rfl, rfl⟩, h, rfl⟩
    · rintro ⟨es1, r1, es2, ⟨rfl, rfl⟩, h, rfl⟩; simpa using h
  | rdy i k ih =>
    simp only [Prog.bind, emits_rdy]
    constructor
    · rintro ⟨b, es', rfl, h⟩
      obtain ⟨es1, r1, es2, h1, h2, rfl⟩ := (ih b).1 h
      exact ⟨(i, .rdy b) :: es1, r1, es2, ⟨b, es1, rfl, h1⟩, h2, rfl⟩
    · rintro ⟨es1, r1, es2, ⟨b, es', rfl, h1⟩, h2, rfl⟩
      exact ⟨b, es' ++ es2, rfl, (ih b).2 ⟨es', r1, es2, h1, h2, rfl⟩⟩
  | snd i x k ih =>
    simp only [Prog.bind, emits_snd]
    constructor
    · rintro ⟨es', rfl, h⟩
      obtain ⟨es1, r1, es2, h1, h2, rfl⟩ := ih.1 h
      exact ⟨(i, .snd x) :: es1, r1, es2, ⟨es1, rfl, h1⟩, h2, rfl⟩
    · rintro ⟨es1, r1, es2, ⟨es', rfl, h1⟩, h2, rfl⟩
      exact ⟨es' ++ es2, rfl, ih.2 ⟨es', r1, es2, h1, h2, rfl⟩⟩
  | fin i k ih =>
    simp only [Prog.bind, emits_fin]
    constructor
    · rintro ⟨b, es', rfl, h⟩
      obtain ⟨es1, r1, es2, h1, h2, rfl⟩ := (ih b).1 h
      exact ⟨(i, .fin b) :: es1, r1, es2, ⟨b, es1, rfl, h1⟩, h2, rfl⟩
    · rintro ⟨es1, r1, es2, ⟨b, es', rfl, h1⟩, h2, rfl⟩
      exact ⟨b, es' ++ es2, rfl, (ih b).2 ⟨es', r1, es2, h1, h2, rfl⟩⟩

/-! ### call histories of a combinator, independent of the downstream -/

/-- `K.Tr k up down k'`: started in local state `k`, the combinator can go through a call history
    whose caller-side trace is `up`, performing the downstream events `down`, ending in `k'`. -/
inductive Comb.Tr (K : Comb κ α β) : κ → List (Ev α) → List (PEv β) → κ → Prop
  | nil (k : κ) : Comb.Tr K k [] [] k
  | rdy {k k1 k2 : κ} {b : Bool} {es down : List (PEv β)} {up : List (Ev α)} :
      Emits (K.ready k) es (k1, b) → Comb.Tr K k1 up down k2 → Comb.Tr K k (.rdy b :: up) (es ++ down) k2
  | snd {k k1 k2 : κ} {x : α} {es down : List (PEv β)} {up : List (Ev α)} :
      Emits (K.send k x) es k1 → Comb.Tr K k1 up down k2 → Comb.Tr K k (.snd x :: up) (es ++ down) k2
  | fin {k k1 k2 : κ} {b : Bool} {es down : List (PEv β)} {up : List (Ev α)} :
      Emits (K.fin k) es (k1, b) → Comb.Tr K k1 up down k2 → Comb.Tr K k (.fin b :: up) (es ++ down) k2

/-- Every run against every downstream is such a history. -/
theorem Comb.run_tr (K : Comb κ α β) (N : MPush σ β) (k : κ) (s : σ) (cs : List (Call α)) :
    K.Tr k (K.run N k s cs).up (K.run N k s cs).down (K.run N k s cs).k := by
  induction cs generalizing k s with
  | nil => exact .nil k
  | cons c cs ih =>
    cases c with
    | rdy => exact .rdy (interp_emits N (K.ready k) s) (ih _ _)
    | snd x => exact .snd (interp_emits N (K.send k x) s) (ih _ _)
    | fin => exact .fin (interp_emits N (K.fin k) s) (ih _ _)

theorem Comb.Tr.append {K : Comb κ α β} {k k1 k2 : κ} {up1 up2 : List (Ev α)} {d1 d2 : List (PEv β)}
    (h1 : K.Tr k up1 d1 k1) (h2 : K.Tr k1 up2 d2 k2) : K.Tr k (up1 ++ up2) (d1 ++ d2) k2 := by
  induction h1 with
  | nil => simpa using h2
  | rdy he _ ih => simpa [List.append_assoc] using Comb.Tr.rdy he (ih h2)
  | snd he _ ih => simpa [List.append_assoc] using Comb.Tr.snd he (ih h2)
  | fin he _ ih => simpa [List.append_assoc] using Comb.Tr.fin he (ih h2)

/-! ### ports, sends, the automaton -/

@[simp] theorem port_nil (i : Nat) : port i ([] : List (PEv β)) = [] := rfl
@[simp] theorem port_append (i : Nat) (a b : List (PEv β)) : port i (a ++ b) = port i a ++ port i b := by
  simp [port, List.filterMap_append]
@[simp] theorem port_cons_same (i : Nat) (e : Ev β) (es : List (PEv β)) : port i ((i, e) :: es) = e :: port i es := by
  simp [port, List.filterMap_cons]
theorem port_cons_ne {i j : Nat} (h : j ≠ i) (e : Ev β) (es : List (PEv β)) : port i ((j, e) :: es) = port i es := by
  simp [port, List.filterMap_cons, h]

@[simp] theorem sends_nil : sends ([] : List (Ev β)) = [] := rfl
@[simp] theorem sends_rdy (b : Bool) (es : List (Ev β)) : sends (.rdy b :: es) = sends es := rfl
@[simp] theorem sends_fin (b : Bool) (es : List (Ev β)) : sends (.fin b :: es) = sends es := rfl
@[simp] theorem sends_snd (x : β) (es : List (Ev β)) : sends (.snd x :: es) = x :: sends es := rfl
@[simp] theorem sends_append (a b : List (Ev β)) : sends (a ++ b) = sends a ++ sends b := by
  induction a with
  | nil => rfl
  | cons e a ih => cases e <;> simp [ih]

@[simp] theorem PSt.run_nil (p : PSt) : p.run ([] : List (Ev β)) = some p := rfl
theorem PSt.run_cons (p : PSt) (e : Ev β) (es : List (Ev β)) :
    p.run (e :: es) = (p.step e).bind (fun p' => p'.run es) := by
  simp only [PSt.run]; cases p.step e <;> rfl
theorem PSt.run_append (p : PSt) (a b : List (Ev β)) :
    p.run (a ++ b) = (p.run a).bind (fun p' => p'.run b) := by
  induction a generalizing p with
  | nil => rfl
  | cons e a ih =>
    simp only [List.cons_append, PSt.run_cons]
    cases p.step e with
    | none => rfl
    | some p' => simpa using ih p'

theorem PSt.run_append_some {p p1 p2 : PSt} {a b : List (Ev β)} (h1 : p.run a = some p1) (h2 : p1.run b = some p2) :
    p.run (a ++ b) = some p2 := by
  simp [PSt.run_append, h1, h2]

/-- closing is remembered, and only `finalize? true` closes -/
theorem PSt.run_closed {p p' : PSt} {tr : List (Ev β)} (h : p.run tr = some p') :
    p'.closed = true ↔ (p.closed = true ∨ Closed tr) := by
  induction tr generalizing p with
  | nil => simp [Closed] at *; subst h; rfl
  | cons e tr ih =>
    rw [PSt.run_cons] at h
    cases hs : p.step e with
    | none => simp [hs] at h
    | some q =>
      simp [hs] at h
      rw [ih h]
      cases e with
      | rdy b => simp [PSt.step] at hs; subst hs; simp [Closed]
      | snd x =>
        simp only [PSt.step] at hs
        split at hs
        · simp at hs; subst hs; simp [Closed]
        · simp at hs
      | fin b =>
        simp [PSt.step] at hs; subst hs
        cases b <;> simp [Closed]

theorem ProtoOk_iff {tr : List (Ev β)} : ProtoOk tr ↔ ∃ p, PSt.run {} tr = some p := by
  simp [ProtoOk, Option.isSome_iff_exists]

end HvPush
