/-
Core of the push model (C12).

A push combinator of `dfir_pipes::push` owns its downstream(s) and talks to them only through
`poll_ready` / `start_send` / `poll_finalize`.  The model makes exactly these calls explicit: every
operation of a combinator is a *program* (`Prog`) whose only effects are downstream calls on a
numbered port; the answers (`Done` = `true`, `Pending` = `false`) come from whatever sits downstream.
`Prog.interp` runs a program against an arbitrary multi-port downstream `MPush σ β` and returns the
list of downstream events it performed, so "the trace recorded by a checking downstream" is a
computed value for *every* downstream, not only for scripted ones.

No imports: this file is linked into the native driver `hvdrv_push`.
-/
namespace HvPush

/-- One call on a push together with its answer, as recorded by a checking downstream
    (`ready? b`, `send x`, `finalize? b`). -/
inductive Ev (β : Type) where
  | rdy (b : Bool)
  | snd (x : β)
  | fin (b : Bool)
  deriving Repr, DecidableEq

/-- A call made by whoever drives a push. -/
inductive Call (α : Type) where
  | rdy
  | snd (x : α)
  | fin
  deriving Repr

/-- Port-tagged downstream event. -/
abbrev PEv (β : Type) := Nat × Ev β

/-- A program over downstream calls. -/
inductive Prog (β : Type) (ρ : Type) where
  | ret (r : ρ)
  | rdy (i : Nat) (k : Bool → Prog β ρ)
  | snd (i : Nat) (x : β) (k : Prog β ρ)
  | fin (i : Nat) (k : Bool → Prog β ρ)

namespace Prog

def bind : Prog β ρ → (ρ → Prog β τ) → Prog β τ
  | ret r, f => f r
  | rdy i k, f => rdy i (fun b => bind (k b) f)
  | snd i x k, f => snd i x (bind k f)
  | fin i k, f => fin i (fun b => bind (k b) f)

instance : Monad (Prog β) where
  pure := ret
  bind := bind

/-- `poll_ready` on port `i`. -/
def pollReady (i : Nat) : Prog β Bool := rdy i ret
/-- `start_send` on port `i`. -/
def startSend (i : Nat) (x : β) : Prog β Unit := snd i x (ret ())
/-- `poll_finalize` on port `i`. -/
def pollFinalize (i : Nat) : Prog β Bool := fin i ret

end Prog

/-- A multi-port downstream: anything that answers the three calls per port. -/
structure MPush (σ β : Type) where
  ready : σ → Nat → σ × Bool
  send : σ → Nat → β → σ
  fin : σ → Nat → σ × Bool

/-- Run a program against a downstream; returns result, new downstream state and the events. -/
def Prog.interp (N : MPush σ β) : Prog β ρ → σ → ρ × σ × List (PEv β)
  | .ret r, s => (r, s, [])
  | .rdy i k, s =>
    let a := N.ready s i
    let r := (k a.2).interp N a.1
    (r.1, r.2.1, (i, Ev.rdy a.2) :: r.2.2)
  | .snd i x k, s =>
    let r := k.interp N (N.send s i x)
    (r.1, r.2.1, (i, Ev.snd x) :: r.2.2)
  | .fin i k, s =>
    let a := N.fin s i
    let r := (k a.2).interp N a.1
    (r.1, r.2.1, (i, Ev.fin a.2) :: r.2.2)

/-- A push combinator with local state `κ`, input items `α`, downstream items `β`. -/
structure Comb (κ α β : Type) where
  ready : κ → Prog β (κ × Bool)
  send : κ → α → Prog β κ
  fin : κ → Prog β (κ × Bool)

/-- Result of one call on `K` over downstream `N`. -/
structure Step (κ σ α β : Type) where
  k : κ
  s : σ
  ev : Ev α
  down : List (PEv β)

def Comb.exec (K : Comb κ α β) (N : MPush σ β) (k : κ) (s : σ) : Call α → Step κ σ α β
  | .rdy => let r := (K.ready k).interp N s; ⟨r.1.1, r.2.1, .rdy r.1.2, r.2.2⟩
  | .snd x => let r := (K.send k x).interp N s; ⟨r.1, r.2.1, .snd x, r.2.2⟩
  | .fin => let r := (K.fin k).interp N s; ⟨r.1.1, r.2.1, .fin r.1.2, r.2.2⟩

/-- Result of a call history: final states, the caller-side trace, the downstream trace. -/
structure Run (κ σ α β : Type) where
  k : κ
  s : σ
  up : List (Ev α)
  down : List (PEv β)

def Comb.run (K : Comb κ α β) (N : MPush σ β) (k : κ) (s : σ) : List (Call α) → Run κ σ α β
  | [] => ⟨k, s, [], []⟩
  | c :: cs =>
    let st := K.exec N k s c
    let r := K.run N st.k st.s cs
    ⟨r.k, r.s, st.ev :: r.up, st.down ++ r.down⟩

/-- The combinator over a downstream is itself a (single-port) push. -/
def Comb.toMPush (K : Comb κ α β) (N : MPush σ β) : MPush (κ × σ) α where
  ready := fun st _ => let r := (K.ready st.1).interp N st.2; ((r.1.1, r.2.1), r.1.2)
  send := fun st _ x => let r := (K.send st.1 x).interp N st.2; (r.1, r.2.1)
  fin := fun st _ => let r := (K.fin st.1).interp N st.2; ((r.1.1, r.2.1), r.1.2)

/-- Two downstreams side by side: port 0 goes to `A`, every other port to `B` (as port `i-1`). -/
def MPush.pair (A : MPush σ β) (B : MPush τ β) : MPush (σ × τ) β where
  ready := fun st i => match i with
    | 0 => let r := A.ready st.1 0; ((r.1, st.2), r.2)
    | j + 1 => let r := B.ready st.2 j; ((st.1, r.1), r.2)
  send := fun st i x => match i with
    | 0 => (A.send st.1 0 x, st.2)
    | j + 1 => (st.1, B.send st.2 j x)
  fin := fun st i => match i with
    | 0 => let r := A.fin st.1 0; ((r.1, st.2), r.2)
    | j + 1 => let r := B.fin st.2 j; ((st.1, r.1), r.2)

/-! ### Scripted, recording leaf (the model of the harness's `Leaf` / the crate's `TestPush`, fused) -/

/-- pop the next answer of port `i`; an exhausted or missing script answers `true` -/
def popAt : List (List Bool) → Nat → Bool × List (List Bool)
  | [], _ => (true, [])
  | l :: ls, 0 => match l with
    | [] => (true, [] :: ls)
    | b :: l' => (b, l' :: ls)
  | l :: ls, i + 1 => let r := popAt ls i; (r.1, l :: r.2)

structure Leaf (β : Type) where
  rs : List (List Bool)
  fs : List (List Bool)
  tr : List (PEv β)

def leaf : MPush (Leaf β) β where
  ready := fun s i => let r := popAt s.rs i; ({ s with rs := r.2, tr := s.tr ++ [(i, Ev.rdy r.1)] }, r.1)
  send := fun s i x => { s with tr := s.tr ++ [(i, Ev.snd x)] }
  fin := fun s i => let r := popAt s.fs i; ({ s with fs := r.2, tr := s.tr ++ [(i, Ev.fin r.1)] }, r.1)

/-! ### The push contract as an automaton over a recorded trace -/

/-- State of the contract automaton of one push: may it be sent to, was finalize started / done. -/
structure PSt where
  ready : Bool := false
  started : Bool := false
  closed : Bool := false
  deriving DecidableEq, Repr

/-- One event; `none` = contract violated. `ready? b` sets readiness to `b` (as the crate's
    `TestPush` does), `send` needs readiness and that finalize was not started, and consumes the
    readiness; `finalize? b` starts finalization and closes on `true`. -/
def PSt.step (p : PSt) : Ev β → Option PSt
  | .rdy b => some { p with ready := b }
  | .snd _ => if p.ready && !p.started then some { p with ready := false } else none
  | .fin b => some { p with started := true, closed := p.closed || b }

def PSt.run (p : PSt) : List (Ev β) → Option PSt
  | [] => some p
  | e :: es => match p.step e with
    | some p' => p'.run es
    | none => none

/-- A trace honours the contract. -/
def ProtoOk (tr : List (Ev β)) : Prop := (PSt.run {} tr).isSome = true

/-- the items sent in a trace -/
def sends : List (Ev β) → List β
  | [] => []
  | .snd x :: es => x :: sends es
  | _ :: es => sends es

/-- some `finalize?` was answered `true` -/
def Closed (tr : List (Ev β)) : Prop := Ev.fin true ∈ tr

/-- the events of one port -/
def port (i : Nat) (tr : List (PEv β)) : List (Ev β) :=
  tr.filterMap (fun e => if e.1 = i then some e.2 else none)

end HvPush
