/-
The standard driver: `SendPush::poll` (`dfir_pipes/src/pull/send_push.rs`) over a scripted pull.
`SendSink::poll` over `SinkCompat(push)` performs the same calls (`poll_close` = `poll_finalize`),
so it is the same model (`size_hint` forwarding is not modelled).

Pull script: `some x` = `Ready(x)`, `none` = `Pending`, end of list = `Ended` (the driver never
polls the pull again after `Ended`: `pull_ended`).
-/
import HvPush.Model.Core
namespace HvPush

def Ev.isRdyTrue : Ev α → Bool
  | .rdy true => true
  | _ => false
def Ev.isFinTrue : Ev α → Bool
  | .fin true => true
  | _ => false

structure DSt (κ σ α : Type) where
  pull : List (Option α)
  ended : Bool
  k : κ
  s : σ

/-- Outcome of one `poll`: new state, `Poll::Ready`?, the calls made on the push with their
    answers, the downstream events, and whether a `start_send` panicked (`bad`). -/
structure DOut (κ σ α β : Type) where
  st : DSt κ σ α
  ready : Bool
  up : List (Ev α)
  down : List (PEv β)
  panicked : Bool := false

/-- `poll_finalize` part of `poll` -/
def drvFin (K : Comb κ α β) (N : MPush σ β) (pull : List (Option α)) (k : κ) (s : σ) : DOut κ σ α β :=
  let st := K.exec N k s .fin
  ⟨⟨pull, true, st.k, st.s⟩, st.ev.isFinTrue, [st.ev], st.down, false⟩

/-- the `loop { poll_ready; pull; start_send }` part, by recursion on the pull script -/
def drvLoop (K : Comb κ α β) (N : MPush σ β) (bad : α → Bool) :
    List (Option α) → κ → σ → DOut κ σ α β
  | pull, k, s =>
    let r := K.exec N k s .rdy
    if r.ev.isRdyTrue then
      match pull with
      | some x :: rest =>
        if bad x then ⟨⟨rest, false, r.k, r.s⟩, false, [r.ev], r.down, true⟩ else
        let s1 := K.exec N r.k r.s (.snd x)
        let o := drvLoop K N bad rest s1.k s1.s
        { o with up := r.ev :: s1.ev :: o.up, down := r.down ++ s1.down ++ o.down }
      | none :: rest => ⟨⟨rest, false, r.k, r.s⟩, false, [r.ev], r.down, false⟩
      | [] =>
        let o := drvFin K N [] r.k r.s
        { o with up := r.ev :: o.up, down := r.down ++ o.down }
    else ⟨⟨pull, false, r.k, r.s⟩, false, [r.ev], r.down, false⟩

/-- One `SendPush::poll`. -/
def drvPoll (K : Comb κ α β) (N : MPush σ β) (bad : α → Bool) (d : DSt κ σ α) : DOut κ σ α β :=
  if d.ended then drvFin K N d.pull d.k d.s else drvLoop K N bad d.pull d.k d.s

/-- Poll up to `n` times, stopping at `Ready` (a future is not polled after completion). -/
def drive (K : Comb κ α β) (N : MPush σ β) (bad : α → Bool) : Nat → DSt κ σ α → DOut κ σ α β
  | 0, d => ⟨d, false, [], [], false⟩
  | n + 1, d =>
    let o := drvPoll K N bad d
    if o.ready || o.panicked then o else
      let o2 := drive K N bad n o.st
      { o2 with up := o.up ++ o2.up, down := o.down ++ o2.down }

end HvPush
