/-
The push combinators of `dfir_pipes/src/push/*.rs`, transcribed operation by operation into
`Prog`-valued functions (see `Core.lean`).  Local fields of the Rust structs (buffers, phases,
replay cursors) are the combinator state `κ`; the downstream is only reached through
`Prog.rdy / snd / fin` on a port number.  Closures are parameters.

`ready!(e)`  becomes  "if the answer is `false`, return `(state, false)`";
`ready_both!(a, b)`  evaluates both and returns the conjunction.
-/
import HvPush.Model.Core
namespace HvPush
open Prog

/-! ### shared loops -/

/-- `while let Some(item) = next_buffered { ready!(next.poll_ready()); next.start_send(item) }`.
    Returns the unsent rest and whether the loop ran to its end. -/
def drain (i : Nat) : List β → Prog β (List β × Bool)
  | [] => ret ([], true)
  | x :: xs => rdy i fun b => if b then snd i x (drain i xs) else ret (x :: xs, false)

/-- `drain`, then one more `poll_ready` (the tail call of `FlatMap::poll_ready`; also the shape of
    `Accumulate`'s `loop { ready!(poll_ready); let Some(x) = iter.next() else break; send }`). -/
def drainR (i : Nat) (l : List β) : Prog β (List β × Bool) :=
  (drain i l).bind fun r => if r.2 then rdy i fun b => ret ([], b) else ret r

/-- `ready!(first); next.poll_finalize()` -/
def thenFin (i : Nat) (p : Prog β (κ × Bool)) : Prog β (κ × Bool) :=
  p.bind fun r => if r.2 then fin i fun b => ret (r.1, b) else ret (r.1, false)

/-! ### stateless pass-through combinators -/

/-- `Map`, `Filter`, `FilterMap`, `Inspect`, `&mut P`, `Sink` adapter: readiness and finalize are
    forwarded, `start_send` forwards `g item` when it is `some`. -/
def filterMapC (g : α → Option β) : Comb Unit α β where
  ready := fun _ => rdy 0 fun b => ret ((), b)
  send := fun _ x => match g x with
    | some y => snd 0 y (ret ())
    | none => ret ()
  fin := fun _ => fin 0 fun b => ret ((), b)

def mapC (f : α → β) : Comb Unit α β := filterMapC (fun x => some (f x))
def filterC (p : α → Bool) : Comb Unit α α := filterMapC (fun x => if p x then some x else none)
/-- `Sink` adapter / `&mut P`: identity (`poll_finalize` is `poll_flush` of the wrapped sink). -/
def idC : Comb Unit α α := filterMapC some

/-- `Inspect`: the closure's observations are kept as ghost state. -/
def inspectC : Comb (List α) α α where
  ready := fun k => rdy 0 fun b => ret (k, b)
  send := fun k x => snd 0 x (ret (k ++ [x]))
  fin := fun k => fin 0 fun b => ret (k, b)

/-! ### FlatMap / Flatten: `buffer` = the items of the current iterator not yet sent -/

def flatMapC (f : α → List β) : Comb (List β) α β where
  ready := fun buf => drainR 0 buf
  send := fun _ x => ret (f x)
  fin := fun buf => thenFin 0 (drainR 0 buf)

def flattenC : Comb (List β) (List β) β := flatMapC id

/-! ### Fanout / Unzip / DemuxVar -/

def fanoutC : Comb Unit α α where
  ready := fun _ => rdy 0 fun a => rdy 1 fun b => ret ((), a && b)
  send := fun _ x => snd 0 x (snd 1 x (ret ()))
  fin := fun _ => fin 0 fun a => fin 1 fun b => ret ((), a && b)

def unzipC : Comb Unit (β × β) β where
  ready := fun _ => rdy 0 fun a => rdy 1 fun b => ret ((), a && b)
  send := fun _ x => snd 0 x.1 (snd 1 x.2 (ret ()))
  fin := fun _ => fin 0 fun a => fin 1 fun b => ret ((), a && b)

/-- `PushVariadic::poll_ready` of `(P, Rest)`: `ready_both!(push, rest)`; base `()` is `Done`. -/
def readyAll (i : Nat) : Nat → Prog β Bool
  | 0 => ret true
  | n + 1 => rdy i fun a => (readyAll (i + 1) n).bind fun b => ret (a && b)

def finAll (i : Nat) : Nat → Prog β Bool
  | 0 => ret true
  | n + 1 => fin i fun a => (finAll (i + 1) n).bind fun b => ret (a && b)

/-- `DemuxVar` over `n` pushes. An index `≥ n` panics in the real code (`demuxBad`). -/
def demuxC (n : Nat) : Comb Unit (Nat × β) β where
  ready := fun _ => (readyAll 0 n).bind fun b => ret ((), b)
  send := fun _ x => if x.1 < n then snd x.1 x.2 (ret ()) else ret ()
  fin := fun _ => (finAll 0 n).bind fun b => ret ((), b)

def demuxBad (n : Nat) (x : Nat × β) : Bool := !(x.1 < n)

/-- the common shape of `Fanout`, `Unzip`, `DemuxVar`: all ports are readied / finalized in port
    order (`ready_both!` evaluates every side), an item `x` makes port `j` receive `r x j` (if any),
    in port order. Used to prove the three in one go (`fanout_eq_route` etc. in the Props file). -/
def sendAll (r : α → Nat → Option β) (x : α) (i : Nat) : Nat → Prog β Unit
  | 0 => ret ()
  | n + 1 => match r x i with
    | some y => snd i y (sendAll r x (i + 1) n)
    | none => sendAll r x (i + 1) n

def routeC (n : Nat) (r : α → Nat → Option β) : Comb Unit α β where
  ready := fun _ => (readyAll 0 n).bind fun b => ret ((), b)
  send := fun _ x => sendAll r x 0 n
  fin := fun _ => (finAll 0 n).bind fun b => ret ((), b)

/-! ### Accumulate (fold / reduce / sort states) -/

inductive AccPhase (S β : Type) where
  /-- `Accumulating(state)` -/
  | acc (st : S)
  /-- `Draining(iter)`: remaining items; `st` is what external (borrowed) storage holds -/
  | draining (st : S) (rest : List β)
  /-- `Done` -/
  | done (st : S)

def AccPhase.ext : AccPhase S β → S
  | .acc st => st
  | .draining st _ => st
  | .done st => st

/-- `Accumulate<State, Next>` for an `AccumState` given by `accumulate` and `into_iter`. -/
def accumulateC (step : S → α → S) (intoIter : S → List β) : Comb (AccPhase S β) α β where
  ready := fun k => ret (k, true)
  send := fun k x => match k with
    | .acc st => ret (.acc (step st x))
    | k => ret k   -- the real code panics ("start_send called after finalize"); excluded by the contract
  fin := fun k =>
    let go (st : S) (items : List β) : Prog β (AccPhase S β × Bool) :=
      (drainR 0 items).bind fun r =>
        if r.2 then fin 0 fun b => ret (.done st, b) else ret (.draining st r.1, false)
    match k with
    | .acc st => go st (intoIter st)
    | .draining st rest => go st rest
    | .done st => fin 0 fun b => ret (.done st, b)

/-- `FoldState`: `accumulate = comb_fn`, `into_iter = once(accum)` -/
def foldC (comb : A → α → A) : Comb (AccPhase A A) α A := accumulateC comb (fun a => [a])

/-- `ReduceState`: first item initialises, `into_iter = accum.into_iter()` -/
def reduceStep (comb : α → α → α) : Option α → α → Option α
  | some a, x => some (comb a x)
  | none, x => some x
def reduceC (comb : α → α → α) : Comb (AccPhase (Option α) α) α α :=
  accumulateC (reduceStep comb) Option.toList

/-- `SortState`: push, then `sort_unstable` + `into_iter` -/
def sortAccC (le : α → α → Bool) : Comb (AccPhase (List α) α) α α :=
  accumulateC (fun l x => l ++ [x]) (fun l => l.mergeSort le)

/-! ### Sort (own struct): `buf`, `sorted` -/

structure SortSt (α : Type) where
  buf : List α
  sorted : Bool

/-- After sorting, `buf` is kept in the order in which `pop()` hands the items out. -/
def sortC (le : α → α → Bool) : Comb (SortSt α) α α where
  ready := fun k => ret (k, true)
  send := fun k x => ret ⟨k.buf ++ [x], false⟩
  fin := fun k =>
    let items := if k.sorted then k.buf else k.buf.mergeSort le
    (drain 0 items).bind fun r =>
      if r.2 then fin 0 fun b => ret (⟨[], true⟩, b) else ret (⟨r.1, true⟩, false)

/-! ### FoldKeyed / ReduceKeyed: external map, `flush_items`, `flush_idx` -/

structure KeyedSt (K A : Type) where
  map : List (K × A)
  flush : List (K × A)
  idx : Nat

def upsert [DecidableEq K] (ins : V → A) (upd : A → V → A) : List (K × A) → K → V → List (K × A)
  | [], k, v => [(k, ins v)]
  | (k', a) :: m, k, v => if k' = k then (k', upd a v) :: m else (k', a) :: upsert ins upd m k v

/-- `order` = the order in which the hash map's entries come out of `flush_items.pop()`. -/
def keyedC [DecidableEq K] (ins : V → A) (upd : A → V → A) (order : List (K × A) → List (K × A)) :
    Comb (KeyedSt K A) (K × V) (K × A) where
  ready := fun k => ret (k, true)
  send := fun k x => ret { k with map := upsert ins upd k.map x.1 x.2 }
  fin := fun k =>
    let k1 : KeyedSt K A := if k.flush.isEmpty && k.idx == 0 then { k with flush := order k.map, idx := 1 } else k
    (drain 0 k1.flush).bind fun r =>
      if r.2 then fin 0 fun b => ret ({ k1 with flush := [] }, b) else ret ({ k1 with flush := r.1 }, false)

def foldKeyedC [DecidableEq K] (init : A) (comb : A → V → A) (order : List (K × A) → List (K × A)) :=
  keyedC (K := K) (fun v => comb init v) comb order
def reduceKeyedC [DecidableEq K] (comb : V → V → V) (order : List (K × V) → List (K × V)) :=
  keyedC (K := K) (fun v => v) comb order

/-! ### Persist: `buf`, `replay_idx` -/

structure PersistSt (α : Type) where
  buf : List α
  idx : Nat

def PersistSt.new (buf : List α) (replay : Bool) : PersistSt α := ⟨buf, if replay then 0 else buf.length⟩

/-- `empty_replay` -/
def emptyReplay (k : PersistSt α) : Prog α (PersistSt α × Bool) :=
  (drain 0 (k.buf.drop k.idx)).bind fun r => ret (⟨k.buf, k.buf.length - r.1.length⟩, r.2)

def persistC : Comb (PersistSt α) α α where
  ready := fun k => (emptyReplay k).bind fun r => if r.2 then rdy 0 fun b => ret (r.1, b) else ret (r.1, false)
  send := fun k x => snd 0 x (ret ⟨k.buf ++ [x], k.idx + 1⟩)
  fin := fun k => thenFin 0 (emptyReplay k)

/-! ### ResolveFutures over a scripted queue -/

/-- A queued future: pending `delay` more times, then `val`; `done` once it was polled to completion. -/
structure QEntry (β : Type) where
  delay : Nat
  val : β
  done : Bool

inductive QPoll (β : Type) where
  | item (x : β)
  | ended
  | pending

def QEntry.poll (e : QEntry β) : QEntry β :=
  if e.done then e else if e.delay = 0 then { e with done := true } else { e with delay := e.delay - 1 }

def takeFirstDone : List (QEntry β) → Option (β × List (QEntry β))
  | [] => none
  | e :: es => if e.done then some (e.val, es) else
      match takeFirstDone es with
      | some (x, es') => some (x, e :: es')
      | none => none

/-- The harness's `ScriptQueue::poll_next`. -/
def qPoll (ordered : Bool) (q : List (QEntry β)) : List (QEntry β) × QPoll β :=
  if q.isEmpty then (q, .ended) else
    let q1 := q.map QEntry.poll
    if ordered then
      match q1 with
      | e :: es => if e.done then (es, .item e.val) else (q1, .pending)
      | [] => (q1, .ended)
    else
      match takeFirstDone q1 with
      | some (x, q2) => (q2, .item x)
      | none => (q1, .pending)

/-- `empty_ready`: the loop ends because every `item` answer shortens the queue (`fuel`). -/
def emptyReadyAux (ordered waker : Bool) : Nat → List (QEntry β) → Prog β (List (QEntry β) × Bool)
  | 0, q => ret (q, false)
  | fuel + 1, q => rdy 0 fun b =>
    if !b then ret (q, false) else
      match qPoll ordered q with
      | (q', .item x) => snd 0 x (emptyReadyAux ordered waker fuel q')
      | (q', .ended) => ret (q', true)
      | (q', .pending) => ret (q', waker)

def emptyReady (ordered waker : Bool) (q : List (QEntry β)) : Prog β (List (QEntry β) × Bool) :=
  emptyReadyAux ordered waker (q.length + 1) q

/-- local state of `ResolveFutures`: the (external) queue and the `finalizing` flag -/
structure ResSt (β : Type) where
  q : List (QEntry β)
  finalizing : Bool := false

/-- `empty_ready` with its guard: once `finalizing` is set nothing is polled or sent any more.
    `fl` is the value of the flag afterwards when the loop reports `Done` (`poll_finalize` sets it
    right after `ready!(empty_ready)`, before `push.poll_finalize`). -/
def resEmptyReady (ordered waker fl : Bool) (k : ResSt β) : Prog β (ResSt β × Bool) :=
  if k.finalizing then ret (k, true) else
    (emptyReady ordered waker k.q).bind fun r => ret (⟨r.1, fl && r.2⟩, r.2)

def resolveC (ordered waker : Bool) : Comb (ResSt β) (Nat × β) β where
  ready := fun k => resEmptyReady ordered waker false k
  send := fun k x =>
    let q1 := k.q ++ [⟨x.1, x.2, false⟩]
    if waker then
      match qPoll ordered q1 with
      | (q2, .item y) => snd 0 y (ret { k with q := q2 })
      | (q2, _) => ret { k with q := q2 }
    else ret { k with q := q1 }
  fin := fun k => thenFin 0 (resEmptyReady ordered waker true k)

/-! ### FilterMapAsync: `buffer` (future = delay + output), `resolved` -/

structure FmaSt (β : Type) where
  buffer : Option (Nat × Option β)
  resolved : Option β

/-- `FilterMapAsync::poll_ready` -/
def fmaReady (k : FmaSt β) : Prog β (FmaSt β × Bool) :=
  match k.resolved with
  | some out => rdy 0 fun b => if b then snd 0 out (ret (⟨k.buffer, none⟩, true)) else ret (k, false)
  | none =>
    match k.buffer with
    | some (d + 1, out) => ret (⟨some (d, out), none⟩, false)
    | some (0, some out) => rdy 0 fun b =>
        if b then snd 0 out (ret (⟨none, none⟩, true)) else ret (⟨none, some out⟩, false)
    | some (0, none) => ret (⟨none, none⟩, true)
    | none => ret (k, true)

def fmaC : Comb (FmaSt β) (Nat × Option β) β where
  ready := fmaReady
  send := fun k x => ret { k with buffer := some x }
  fin := fun k => thenFin 0 (fmaReady k)

/-! ### FlatMapStream / FlattenStream: `buffer = Some { stream, item }` -/

abbrev FmsSt (β : Type) := Option (List (Option β) × Option β)

/-- the `while let Some(buf)` loop of `poll_ready`, by recursion on the stream script -/
def fmsLoop : List (Option β) → Option β → Prog β (FmsSt β × Bool)
  | [], none => ret (none, true)
  | [], some x => rdy 0 fun b => if b then snd 0 x (ret (none, true)) else ret (some ([], some x), false)
  | none :: st, none => ret (some (st, none), false)
  | none :: st, some x => rdy 0 fun b =>
      if b then snd 0 x (ret (some (st, none), false)) else ret (some (none :: st, some x), false)
  | some y :: st, none => fmsLoop st (some y)
  | some y :: st, some x => rdy 0 fun b =>
      if b then snd 0 x (fmsLoop st (some y)) else ret (some (some y :: st, some x), false)

def fmsReady (k : FmsSt β) : Prog β (FmsSt β × Bool) :=
  match k with
  | none => ret (none, true)
  | some (st, item) => fmsLoop st item

def fmsC : Comb (FmsSt β) (List (Option β)) β where
  ready := fmsReady
  send := fun _ s => ret (some (s, none))
  fin := fun k => thenFin 0 (fmsReady k)

/-! ### terminal pushes -/

/-- `ForEach` / `VecPush`: always ready, collect. -/
def collectC : Comb (List α) α α where
  ready := fun k => ret (k, true)
  send := fun k x => ret (k ++ [x])
  fin := fun k => ret (k, true)

/-! ### StatePush: items on port 0, the accumulated state on port 1 -/

structure StateSt (L : Type) where
  st : L
  sent : Bool

def stateC (merge : L → α → L × Bool) (i0 : α → β) (i1 : L → β) : Comb (StateSt L) α β where
  ready := fun k => rdy 0 fun a => rdy 1 fun b => ret (k, a && b)
  send := fun k x =>
    let r := merge k.st x
    if r.2 then snd 0 (i0 x) (ret { k with st := r.1 }) else ret { k with st := r.1 }
  fin := fun k =>
    let tail (k : StateSt L) : Prog β (StateSt L × Bool) := fin 0 fun a => fin 1 fun b => ret (k, a && b)
    if k.sent then tail k else
      rdy 1 fun b => if b then snd 1 (i1 k.st) (tail { k with sent := true }) else ret (k, false)

end HvPush

namespace HvPush
/-! ### type adapters (used by the driver to run every combinator over one value type) -/

def Prog.mapItems (h : β → β') : Prog β ρ → Prog β' ρ
  | .ret r => .ret r
  | .rdy i k => .rdy i fun b => (k b).mapItems h
  | .snd i x k => .snd i (h x) (k.mapItems h)
  | .fin i k => .fin i fun b => (k b).mapItems h

/-- convert inputs with `g` (a conversion failure `none` is a no-op) and outputs with `h` -/
def Comb.adapt (g : α' → Option α) (h : β → β') (K : Comb κ α β) : Comb κ α' β' where
  ready := fun k => (K.ready k).mapItems h
  send := fun k x => match g x with
    | some y => (K.send k y).mapItems h
    | none => .ret k
  fin := fun k => (K.fin k).mapItems h
end HvPush

namespace HvPush
/-! ### pipelines: a combinator whose (single) downstream is another combinator -/

/-- run `p`, answering each of its downstream calls by the corresponding operation of `K2` -/
def Prog.subst (K2 : Comb κ2 β γ) : Prog β ρ → κ2 → Prog γ (ρ × κ2)
  | .ret r, k2 => .ret (r, k2)
  | .rdy _ k, k2 => (K2.ready k2).bind fun a => (k a.2).subst K2 a.1
  | .snd _ x k, k2 => (K2.send k2 x).bind fun k2' => k.subst K2 k2'
  | .fin _ k, k2 => (K2.fin k2).bind fun a => (k a.2).subst K2 a.1

/-- `K1` pushing into `K2` (all of `K1`'s downstream calls go to `K2`) -/
def Comb.comp (K1 : Comb κ1 α β) (K2 : Comb κ2 β γ) : Comb (κ1 × κ2) α γ where
  ready := fun k => ((K1.ready k.1).subst K2 k.2).bind fun r => .ret ((r.1.1, r.2), r.1.2)
  send := fun k x => ((K1.send k.1 x).subst K2 k.2).bind fun r => .ret (r.1, r.2)
  fin := fun k => ((K1.fin k.1).subst K2 k.2).bind fun r => .ret ((r.1.1, r.2), r.1.2)
end HvPush

namespace HvPush
/-! ### a two-port combinator whose downstreams are two combinators -/

/-- renumber the ports of a program (`+ n`) -/
def Prog.shift (n : Nat) : Prog β ρ → Prog β ρ
  | .ret r => .ret r
  | .rdy i k => .rdy (i + n) fun b => (k b).shift n
  | .snd i x k => .snd (i + n) x (k.shift n)
  | .fin i k => .fin (i + n) fun b => (k b).shift n

/-- calls on port 0 go to `Ka`, all others to `Kb`, whose own ports come after `Ka`'s `na` ports -/
def Prog.subst2 (Ka : Comb κa β γ) (Kb : Comb κb β γ) (na : Nat) : Prog β ρ → κa → κb → Prog γ (ρ × κa × κb)
  | .ret r, ka, kb => .ret (r, ka, kb)
  | .rdy i k, ka, kb =>
    if i = 0 then (Ka.ready ka).bind fun a => (k a.2).subst2 Ka Kb na a.1 kb
    else ((Kb.ready kb).shift na).bind fun a => (k a.2).subst2 Ka Kb na ka a.1
  | .snd i x k, ka, kb =>
    if i = 0 then (Ka.send ka x).bind fun ka' => k.subst2 Ka Kb na ka' kb
    else ((Kb.send kb x).shift na).bind fun kb' => k.subst2 Ka Kb na ka kb'
  | .fin i k, ka, kb =>
    if i = 0 then (Ka.fin ka).bind fun a => (k a.2).subst2 Ka Kb na a.1 kb
    else ((Kb.fin kb).shift na).bind fun a => (k a.2).subst2 Ka Kb na ka a.1

def Comb.comp2 (K1 : Comb κ1 α β) (Ka : Comb κa β γ) (Kb : Comb κb β γ) (na : Nat) : Comb (κ1 × κa × κb) α γ where
  ready := fun k => ((K1.ready k.1).subst2 Ka Kb na k.2.1 k.2.2).bind fun r => .ret ((r.1.1, r.2.1, r.2.2), r.1.2)
  send := fun k x => ((K1.send k.1 x).subst2 Ka Kb na k.2.1 k.2.2).bind fun r => .ret (r.1, r.2.1, r.2.2)
  fin := fun k => ((K1.fin k.1).subst2 Ka Kb na k.2.1 k.2.2).bind fun r => .ret ((r.1.1, r.2.1, r.2.2), r.1.2)
end HvPush
