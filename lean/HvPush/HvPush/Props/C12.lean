/-
C12 — push combinators deliver the right items and honour the push protocol.

Reading guide.  `K.Tr k0 up down k'` (Lemmas/Basic) says: the combinator `K`, started in local
state `k0`, goes through *some* call history with caller-side trace `up` while performing the
downstream events `down` — for an arbitrary downstream (every answer pattern; `Comb.run_tr` shows
every run against every `MPush` is such a history).  `K.Sound k0 ports spec` (Lemmas/Sim):

  if the caller honours the contract (`ProtoOk up`: every `send` directly enabled by a
  `ready? true`, no `send` once `finalize` was called), then every downstream port sees a
  contract-honouring trace, and once the caller has got `finalize? true`, every port has got
  `finalize? true` and has received exactly `spec` of the caller's items.

This is the assume/guarantee form: the guarantee towards each downstream is the assumption of the
combinator sitting there, so pipelines follow by induction (`sound_comp`).
-/
import HvPush.Lemmas.Single
namespace HvPush
open Prog

/-! ## Map / Filter / FilterMap / `&mut P` / Sink adapter -/

def aux_invFM (g : α → Option β) : Inv1T Unit α β := fun pu _ pd su sd =>
  (pd.started = true → pu.started = true) ∧ pd.closed = pu.closed ∧
  (pu.ready = true → pu.started = false → pd.ready = true) ∧ sd = su.filterMap g

theorem aux_simFM (g : α → Option β) : SimInv1 (filterMapC g) (aux_invFM g) where
  ready := by
    intro pu k pd su sd es k1 b ⟨h1, h2, h3, h4⟩ he
    simp only [filterMapC, emits_rdy, emits_ret] at he
    obtain ⟨b', es', rfl, rfl, hk⟩ := he
    cases hk
    exact ⟨[.rdy b], { pd with ready := b }, rfl, by simp [PSt.run, PSt.step], ⟨h1, h2, fun h _ => h, by simpa using h4⟩⟩
  send := by
    intro pu k pd su sd es k1 x ⟨h1, h2, h3, h4⟩ hr hs he
    simp only [filterMapC] at he
    have hpr := h3 hr hs
    have hps : pd.started = false := by
      cases h : pd.started
      · rfl
      · rw [h1 h] at hs; cases hs
    cases hg : g x with
    | none =>
      simp only [hg, emits_ret] at he
      obtain ⟨rfl, -⟩ := he
      exact ⟨[], pd, rfl, rfl, ⟨h1, h2, by simp, by simp [h4, List.filterMap_append, hg]⟩⟩
    | some y =>
      simp only [hg, emits_snd, emits_ret] at he
      obtain ⟨es', rfl, rfl, -⟩ := he
      exact ⟨[.snd y], { pd with ready := false }, rfl, by simp [PSt.run, PSt.step, hpr, hps],
        ⟨h1, h2, by simp, by simp [h4, List.filterMap_append, hg]⟩⟩
  fin := by
    intro pu k pd su sd es k1 b ⟨h1, h2, h3, h4⟩ he
    simp only [filterMapC, emits_fin, emits_ret] at he
    obtain ⟨b', es', rfl, rfl, hk⟩ := he
    cases hk
    exact ⟨[.fin b], { pd with started := true, closed := pd.closed || b }, rfl, by simp [PSt.run, PSt.step],
      ⟨fun _ => rfl, by simp [h2], by simp, by simpa using h4⟩⟩

/-- `FilterMap` (and so `Map`, `Filter`, the `&mut P` forwarding impl and the `Sink` adapter):
    contract preserved, delivered = `filterMap g` of the inputs, in order. -/
theorem filterMap_sound (g : α → Option β) :
    (filterMapC g).Sound () [0] (fun _ ins outs => outs = ins.filterMap g) :=
  (aux_simFM g).sound ⟨by simp, rfl, by simp, rfl⟩ (fun pu k pd su sd h hc => ⟨by rw [h.2.1]; exact hc, h.2.2.2⟩)

theorem map_sound (f : α → β) : (mapC f).Sound () [0] (fun _ ins outs => outs = ins.map f) := by
  have := filterMap_sound (fun x => some (f x))
  simpa [mapC, List.filterMap_eq_map'] using this

theorem filter_sound (p : α → Bool) : (filterC p).Sound () [0] (fun _ ins outs => outs = ins.filter p) := by
  have e : ∀ l : List α, l.filterMap (fun x => if p x then some x else none) = l.filter p := by
    intro l
    induction l with
    | nil => rfl
    | cons x xs ih => cases h : p x <;> simp [List.filterMap_cons, List.filter_cons, h, ih]
  have := filterMap_sound (fun x => if p x then some x else none)
  simpa only [filterC, e] using this

end HvPush
