/-
C12 — push combinators deliver the right items and honour the push protocol.

Reading guide.  `K.Tr k0 up down k'` (Lemmas/Basic) says: the combinator `K`, started in local
state `k0`, goes through *some* call history with caller-side trace `up` while performing the
downstream events `down` — for an arbitrary downstream (every answer pattern; `Comb.run_tr` shows
every run against every `MPush` is such a history).  `K.Sound k0 ports spec` (Lemmas/Sim):

  if the caller honours the contract (`ProtoOk up`: every `send` directly enabled by a
  `ready? true`, no `send` once `finalize` was called), then every downstream port sees a
  contract-honouring trace, and once the caller has got `finalize? true`, every port has got
  `finalize? true` and has received exactly `spec` of the caller's items.

This is the assume/guarantee form: the guarantee towards each downstream is the assumption of the
combinator sitting there, so pipelines follow by induction (`sound_comp`).
-/
import HvPush.Lemmas.Drain
import HvPush.Lemmas.Driver
import HvPush.Lemmas.Route
import HvPush.Lemmas.Queue
import HvPush.Lemmas.Compose
import HvPush.Lemmas.Compose2
namespace HvPush
open Prog

/-! ## Map / Filter / FilterMap / `&mut P` / Sink adapter -/

def aux_invFM (g : α → Option β) : Inv1T Unit α β := fun pu _ pd su sd =>
  (pd.started = true → pu.started = true) ∧ pd.closed = pu.closed ∧
  (pu.ready = true → pu.started = false → pd.ready = true) ∧ sd = su.filterMap g

theorem aux_simFM (g : α → Option β) : SimInv1 (filterMapC g) (aux_invFM g) where
  ready := by
    intro pu k pd su sd es k1 b ⟨h1, h2, h3, h4⟩ he
    simp only [filterMapC, emits_rdy, emits_ret] at he
    obtain ⟨b', es', rfl, rfl, hk⟩ := he
    cases hk
    exact ⟨[.rdy b], { pd with ready := b }, rfl, by simp [PSt.run, PSt.step], ⟨h1, h2, fun h _ => h, by simpa using h4⟩⟩
  send := by
    intro pu k pd su sd es k1 x ⟨h1, h2, h3, h4⟩ hr hs he
    simp only [filterMapC] at he
    have hpr := h3 hr hs
    have hps : pd.started = false := by
      cases h : pd.started
      · rfl
      · rw [h1 h] at hs; cases hs
    cases hg : g x with
    | none =>
      simp only [hg, emits_ret] at he
      obtain ⟨rfl, -⟩ := he
      exact ⟨[], pd, rfl, rfl, ⟨h1, h2, by simp, by simp [h4, List.filterMap_append, hg]⟩⟩
    | some y =>
      simp only [hg, emits_snd, emits_ret] at he
      obtain ⟨es', rfl, rfl, -⟩ := he
      exact ⟨[.snd y], { pd with ready := false }, rfl, by simp [PSt.run, PSt.step, hpr, hps],
        ⟨h1, h2, by simp, by simp [h4, List.filterMap_append, hg]⟩⟩
  fin := by
    intro pu k pd su sd es k1 b ⟨h1, h2, h3, h4⟩ he
    simp only [filterMapC, emits_fin, emits_ret] at he
    obtain ⟨b', es', rfl, rfl, hk⟩ := he
    cases hk
    exact ⟨[.fin b], { pd with started := true, closed := pd.closed || b }, rfl, by simp [PSt.run, PSt.step],
      ⟨fun _ => rfl, by simp [h2], by simp, by simpa using h4⟩⟩

/-- `FilterMap` (and so `Map`, `Filter`, the `&mut P` forwarding impl and the `Sink` adapter):
    contract preserved, delivered = `filterMap g` of the inputs, in order. -/
theorem filterMap_sound (g : α → Option β) :
    (filterMapC g).Sound () [0] (fun _ ins outs => outs = ins.filterMap g) :=
  (aux_simFM g).sound ⟨by simp, rfl, by simp, rfl⟩ (fun pu k pd su sd h _ hc => ⟨by rw [h.2.1]; exact hc, h.2.2.2⟩)

theorem map_sound (f : α → β) : (mapC f).Sound () [0] (fun _ ins outs => outs = ins.map f) := by
  have := filterMap_sound (fun x => some (f x))
  simpa [mapC, List.filterMap_eq_map'] using this

theorem filter_sound (p : α → Bool) : (filterC p).Sound () [0] (fun _ ins outs => outs = ins.filter p) := by
  have e : ∀ l : List α, l.filterMap (fun x => if p x then some x else none) = l.filter p := by
    intro l
    induction l with
    | nil => rfl
    | cons x xs ih => cases h : p x <;> simp [List.filterMap_cons, List.filter_cons, h, ih]
  have := filterMap_sound (fun x => if p x then some x else none)
  simpa only [filterC, e] using this

/-- the `Sink` adapter (`poll_finalize` = `poll_flush` of the wrapped sink) and the `&mut P`
    forwarding impl: identity -/
theorem sinkAdapter_sound : (idC (α := α)).Sound () [0] (fun _ ins outs => outs = ins) := by
  have := filterMap_sound (some : α → Option α)
  simpa [idC, List.filterMap_some] using this

/-! ## FlatMap / Flatten -/

def aux_invFlat (f : α → List β) : Inv1T (List β) α β := fun pu buf pd su sd =>
  (pd.started = true → pu.started = true) ∧ pd.closed = pu.closed ∧
  (pu.ready = true → pu.started = false → pd.ready = true ∧ buf = []) ∧
  (pd.started = true → buf = []) ∧ sd ++ buf = su.flatMap f

theorem aux_started_false {pu pd : PSt} (h1 : pd.started = true → pu.started = true) (hs : pu.started = false) :
    pd.started = false := by
  cases h : pd.started
  · rfl
  · rw [h1 h] at hs; cases hs

theorem aux_sent_ok {pd : PSt} {sent rest buf : List β} (h : pd.started = true → buf = []) (hb : buf = sent ++ rest) :
    sent = [] ∨ pd.started = false := by
  cases hs : pd.started
  · exact Or.inr rfl
  · have := h hs; subst this; left
    cases sent with
    | nil => rfl
    | cons _ _ => cases hb

theorem aux_rest_nil {sent rest : List β} (h : [] = sent ++ rest) : rest = [] := by
  cases sent with
  | nil => simpa using h.symm
  | cons _ _ => cases h

theorem aux_simFlat (f : α → List β) : SimInv1 (flatMapC f) (aux_invFlat f) where
  ready := by
    intro pu buf pd su sd es k1 b ⟨h1, h2, h3, h4, h5⟩ he
    obtain ⟨sent, hb, rfl, hk⟩ := drainR_shape he
    have hso := aux_sent_ok h4 hb
    refine ⟨_, _, rfl, run_drainTr_rdy sent b hso, h1, h2, ?_, ?_, ?_⟩
    · intro hb' _; exact ⟨hb', hk hb'⟩
    · intro hs; have := h4 hs; subst this
      exact aux_rest_nil hb
    · simp [← h5, hb]
  send := by
    intro pu buf pd su sd es k1 x ⟨h1, h2, h3, h4, h5⟩ hr hs he
    simp only [flatMapC, emits_ret] at he
    obtain ⟨rfl, rfl⟩ := he
    have hbuf := (h3 hr hs).2; subst hbuf
    have hps := aux_started_false h1 hs
    refine ⟨[], pd, rfl, rfl, h1, h2, by simp, ?_, ?_⟩
    · intro h; rw [hps] at h; cases h
    · simpa [List.flatMap_append] using h5
  fin := by
    intro pu buf pd su sd es k1 b ⟨h1, h2, h3, h4, h5⟩ he
    obtain ⟨es1, b1, he1, hcase⟩ := thenFin_shape he
    obtain ⟨sent, hb, rfl, hk⟩ := drainR_shape he1
    have hso := aux_sent_ok h4 hb
    rcases hcase with ⟨rfl, rfl⟩ | ⟨rfl, rfl, rfl⟩
    · have := hk rfl; subst this
      refine ⟨drainTr sent ++ [Ev.rdy true] ++ [Ev.fin b],
        { pd with ready := true, started := true, closed := pd.closed || b }, by simp [onPort], ?_, ?_⟩
      · rw [PSt.run_append, run_drainTr_rdy sent true hso]; simp [PSt.run, PSt.step]
      · refine ⟨fun _ => rfl, by simp [h2], by simp, fun _ => rfl, ?_⟩
        simp [← h5, hb]
    · refine ⟨_, _, rfl, run_drainTr_rdy sent false hso, fun h => by simpa using h1 h, by simp [h2], by simp, ?_, ?_⟩
      · intro hs; have := h4 hs; subst this
        exact aux_rest_nil hb
      · simp [← h5, hb]

/-- `FlatMap`: delivered = `flatMap f` of the inputs, in order, under every downstream pending
    pattern; the buffered rest of an iterator survives `Pending`. -/
theorem flatMap_sound (f : α → List β) :
    (flatMapC f).Sound [] [0] (fun _ ins outs => outs = ins.flatMap f) :=
  (aux_simFlat f).sound ⟨by simp, rfl, by simp, by simp, rfl⟩ (fun pu k pd su sd h hwf hc => by
    obtain ⟨h1, h2, _, h4, h5⟩ := h
    have hpc : pd.closed = true := by rw [h2]; exact hc
    have := h4 (hwf hpc); subst this
    exact ⟨hpc, by simpa using h5⟩)

theorem flatten_sound : (flattenC (β := β)).Sound [] [0] (fun _ ins outs => outs = ins.flatMap id) :=
  flatMap_sound id

/-! ## Accumulate (fold / reduce / sort states) -/

def aux_invAcc (step : S → α → S) (intoIter : S → List β) (st0 : S) : Inv1T (AccPhase S β) α β :=
  fun pu k pd su sd =>
    pd.closed = pu.closed ∧
    match k with
    | .acc st => pu.started = false ∧ pd.started = false ∧ sd = [] ∧ st = su.foldl step st0
    | .draining st rest => pu.started = true ∧ pd.started = false ∧ st = su.foldl step st0 ∧ sd ++ rest = intoIter st
    | .done st => pu.started = true ∧ pd.started = true ∧ st = su.foldl step st0 ∧ sd = intoIter st

/-- the drain-then-finalize body of `Accumulate::poll_finalize` -/
theorem aux_accGo {S β : Type} {st : S} {items : List β} {es : List (PEv β)} {k1 : AccPhase S β} {b : Bool}
    (h : Emits ((drainR 0 items).bind fun r =>
        if r.2 then Prog.fin 0 fun b => Prog.ret (AccPhase.done st, b) else Prog.ret (AccPhase.draining st r.1, false)) es (k1, b)) :
    (es = onPort 0 (drainTr items ++ [Ev.rdy true] ++ [Ev.fin b]) ∧ k1 = .done st) ∨
    (∃ sent rest, items = sent ++ rest ∧ es = onPort 0 (drainTr sent ++ [Ev.rdy false]) ∧ k1 = .draining st rest ∧ b = false) := by
  simp only [emits_bind] at h
  obtain ⟨es1, ⟨r1, ok⟩, es2, h1, h2, rfl⟩ := h
  obtain ⟨sent, hl, rfl, hok⟩ := drainR_shape h1
  cases ok with
  | true =>
    simp only [if_true, emits_fin, emits_ret] at h2
    obtain ⟨b', es', rfl, rfl, hk⟩ := h2
    cases hk
    have := hok rfl; subst this
    left; exact ⟨by simp [onPort, hl], rfl⟩
  | false =>
    simp only [Bool.false_eq_true, if_false, emits_ret] at h2
    obtain ⟨rfl, hk⟩ := h2
    cases hk
    right; exact ⟨sent, r1, hl, by simp, rfl, rfl⟩

theorem aux_simAcc (step : S → α → S) (intoIter : S → List β) (st0 : S) :
    SimInv1 (accumulateC step intoIter) (aux_invAcc step intoIter st0) where
  ready := by
    intro pu k pd su sd es k1 b ⟨h1, h2⟩ he
    simp only [accumulateC, emits_ret] at he
    obtain ⟨rfl, hk⟩ := he
    cases hk
    exact ⟨[], pd, rfl, rfl, h1, by simpa using h2⟩
  send := by
    intro pu k pd su sd es k1 x ⟨h1, h2⟩ hr hs he
    cases k with
    | acc st =>
      simp only [accumulateC, emits_ret] at he
      obtain ⟨rfl, rfl⟩ := he
      obtain ⟨_, h3, h4, h5⟩ := h2
      exact ⟨[], pd, rfl, rfl, h1, hs, h3, by simpa using h4, by simp [h5, List.foldl_append]⟩
    | draining st rest => rw [h2.1] at hs; cases hs
    | done st => rw [h2.1] at hs; cases hs
  fin := by
    intro pu k pd su sd es k1 b ⟨h1, h2⟩ he
    cases k with
    | acc st =>
      obtain ⟨_, h3, h4, h5⟩ := h2
      subst h4
      rcases aux_accGo he with ⟨rfl, rfl⟩ | ⟨sent, rest, hi, rfl, rfl, rfl⟩
      · refine ⟨_, { pd with ready := true, started := true, closed := pd.closed || b }, rfl, ?_, by simp [h1], ?_⟩
        · rw [PSt.run_append, run_drainTr_rdy _ true (Or.inr h3)]; simp [PSt.run, PSt.step]
        · exact ⟨rfl, rfl, h5, by simp⟩
      · exact ⟨_, _, rfl, run_drainTr_rdy sent false (Or.inr h3), by simp [h1], rfl, h3, h5, by simp [hi]⟩
    | draining st rest0 =>
      obtain ⟨_, h3, h5, h6⟩ := h2
      rcases aux_accGo he with ⟨rfl, rfl⟩ | ⟨sent, rest, hi, rfl, rfl, rfl⟩
      · refine ⟨_, { pd with ready := true, started := true, closed := pd.closed || b }, rfl, ?_, by simp [h1], ?_⟩
        · rw [PSt.run_append, run_drainTr_rdy _ true (Or.inr h3)]; simp [PSt.run, PSt.step]
        · exact ⟨rfl, rfl, h5, by simpa using h6⟩
      · exact ⟨_, _, rfl, run_drainTr_rdy sent false (Or.inr h3), by simp [h1], rfl, h3, h5, by simp [← h6, hi]⟩
    | done st =>
      obtain ⟨_, h3, h5, h6⟩ := h2
      simp only [accumulateC, emits_fin, emits_ret] at he
      obtain ⟨b', es', rfl, rfl, hk⟩ := he
      cases hk
      exact ⟨[.fin b], { pd with started := true, closed := pd.closed || b }, rfl, by simp [PSt.run, PSt.step],
        by simp [h1], rfl, rfl, h5, by simpa using h6⟩

/-- `Accumulate<State, Next>`: nothing is sent before `poll_finalize`; at completion the downstream
    has received `into_iter` of the state folded over all inputs, in order, exactly once — also when
    the downstream pends in the middle of the drain or on `poll_finalize`. -/
theorem accumulate_sound (step : S → α → S) (intoIter : S → List β) (st0 : S) :
    (accumulateC step intoIter).Sound (.acc st0) [0] (fun _ ins outs => outs = intoIter (ins.foldl step st0)) :=
  (aux_simAcc step intoIter st0).sound ⟨rfl, rfl, rfl, rfl, rfl⟩ (fun pu k pd su sd h hwf hc => by
    obtain ⟨h1, h2⟩ := h
    have hpc : pd.closed = true := by rw [h1]; exact hc
    have hps := hwf hpc
    cases k with
    | acc st => rw [h2.2.1] at hps; cases hps
    | draining st rest => rw [h2.2.1] at hps; cases hps
    | done st => exact ⟨hpc, by rw [h2.2.2.2, h2.2.2.1]⟩)

/-- fold: exactly one item, the fold of all inputs (the initial value when there are none) -/
theorem fold_sound (comb : A → α → A) (a0 : A) :
    (foldC comb).Sound (.acc a0) [0] (fun _ ins outs => outs = [ins.foldl comb a0]) :=
  accumulate_sound comb (fun a => [a]) a0

/-- reduce: nothing for no input and no initial value, otherwise the one reduced value -/
theorem reduce_sound (comb : α → α → α) (init : Option α) :
    (reduceC comb).Sound (.acc init) [0] (fun _ ins outs => outs = (ins.foldl (reduceStep comb) init).toList) :=
  accumulate_sound (reduceStep comb) Option.toList init

theorem aux_foldl_snoc (l ins : List α) : ins.foldl (fun l x => l ++ [x]) l = l ++ ins := by
  induction ins generalizing l with
  | nil => simp
  | cons x xs ih => simp [ih]

/-- sort (as `Accumulate<SortState>`): the sorted inputs -/
theorem sortAcc_sound (le : α → α → Bool) :
    (sortAccC le).Sound (.acc []) [0] (fun _ ins outs => outs = ins.mergeSort le) := by
  have := accumulate_sound (fun l (x : α) => l ++ [x]) (fun l => l.mergeSort le) []
  simpa only [sortAccC, aux_foldl_snoc, List.nil_append] using this

/-! ## Sort (own struct) -/

def aux_invSort (le : α → α → Bool) : Inv1T (SortSt α) α α := fun pu k pd su sd =>
  pd.closed = pu.closed ∧
  match pu.started with
  | true => k.sorted = true ∧ sd ++ k.buf = su.mergeSort le ∧ (pd.started = true → k.buf = [])
  | false => k.sorted = false ∧ k.buf = su ∧ sd = [] ∧ pd.started = false

/-- body shared by `Sort` and the keyed combinators: drain `items`, then finalize -/
theorem aux_drainFin {κ β : Type} {items : List β} {es : List (PEv β)} {mk : List β → κ} {kd k1 : κ} {b : Bool}
    (h : Emits ((drain 0 items).bind fun r =>
        if r.2 then Prog.fin 0 fun b => Prog.ret (kd, b) else Prog.ret (mk r.1, false)) es (k1, b)) :
    (es = onPort 0 (drainTr items ++ [Ev.fin b]) ∧ k1 = kd) ∨
    (∃ sent rest, items = sent ++ rest ∧ es = onPort 0 (drainTr sent ++ [Ev.rdy false]) ∧ k1 = mk rest ∧ b = false) := by
  simp only [emits_bind] at h
  obtain ⟨es1, ⟨r1, ok⟩, es2, h1, h2, rfl⟩ := h
  obtain ⟨sent, hl, rfl, hok⟩ := drain_shape h1
  cases ok with
  | true =>
    simp only [if_true, emits_fin, emits_ret] at h2
    obtain ⟨b', es', rfl, rfl, hk⟩ := h2
    cases hk
    have := hok rfl; subst this
    left; exact ⟨by simp [onPort, hl], rfl⟩
  | false =>
    simp only [Bool.false_eq_true, if_false, emits_ret] at h2
    obtain ⟨rfl, hk⟩ := h2
    cases hk
    right; exact ⟨sent, r1, hl, by simp, rfl, rfl⟩

theorem aux_simSort (le : α → α → Bool) : SimInv1 (sortC le) (aux_invSort le) where
  ready := by
    intro pu k pd su sd es k1 b ⟨h1, h2⟩ he
    simp only [sortC, emits_ret] at he
    obtain ⟨rfl, hk⟩ := he
    cases hk
    exact ⟨[], pd, rfl, rfl, h1, by simpa using h2⟩
  send := by
    intro pu k pd su sd es k1 x ⟨h1, h2⟩ hr hs he
    simp only [sortC, emits_ret] at he
    obtain ⟨rfl, rfl⟩ := he
    simp only [hs] at h2
    obtain ⟨_, h3, h4, h5⟩ := h2
    refine ⟨[], pd, rfl, rfl, h1, ?_⟩
    simp only [hs]
    exact ⟨by simp, by simp [h3], by simpa using h4, h5⟩
  fin := by
    intro pu k pd su sd es k1 b ⟨h1, h2⟩ he
    simp only [sortC] at he
    have hitems : (if k.sorted = true then k.buf else k.buf.mergeSort le) ++ [] =
        (if k.sorted = true then k.buf else k.buf.mergeSort le) := by simp
    have key : sd ++ (if k.sorted = true then k.buf else k.buf.mergeSort le) = su.mergeSort le ∧
        (pd.started = true → (if k.sorted = true then k.buf else k.buf.mergeSort le) = []) := by
      cases hs : pu.started with
      | true =>
        simp only [hs] at h2
        obtain ⟨h3, h4, h5⟩ := h2
        simp [h3, h4]; exact h5
      | false =>
        simp only [hs] at h2
        obtain ⟨h3, h4, h5, h6⟩ := h2
        simp [h3, h4, h5, h6]
    obtain ⟨hk1, hk2⟩ := key
    rcases aux_drainFin (mk := fun r => (⟨r, true⟩ : SortSt α)) he with ⟨rfl, rfl⟩ | ⟨sent, rest, hi, rfl, rfl, rfl⟩
    · have hso := aux_sent_ok hk2 hitems.symm
      refine ⟨_, _, rfl, run_drainTr_fin _ b hso, by simp [h1], ?_⟩
      simp only
      exact ⟨trivial, by simpa using hk1, fun _ => trivial⟩
    · have hso := aux_sent_ok hk2 hi
      refine ⟨_, _, rfl, run_drainTr_rdy sent false hso, by simp [h1], ?_⟩
      simp only
      refine ⟨trivial, by simp [← hk1, hi], ?_⟩
      intro hs; have := hk2 hs; rw [this] at hi; exact aux_rest_nil hi

/-- `Sort`: the sorted inputs, exactly once, nothing before `poll_finalize`. -/
theorem sort_sound (le : α → α → Bool) :
    (sortC le).Sound ⟨[], false⟩ [0] (fun _ ins outs => outs = ins.mergeSort le) :=
  (aux_simSort le).sound ⟨rfl, rfl, rfl, rfl, rfl⟩ (fun pu k pd su sd h hwf hc => by
    obtain ⟨h1, h2⟩ := h
    have hpc : pd.closed = true := by rw [h1]; exact hc
    have hps := hwf hpc
    cases hs : pu.started with
    | true =>
      simp only [hs] at h2
      have := h2.2.2 hps
      exact ⟨hpc, by simpa [this] using h2.2.1⟩
    | false =>
      simp only [hs] at h2
      rw [h2.2.2.2] at hps; cases hps)

/-! ## FoldKeyed / ReduceKeyed -/

/-- the map after the inputs: `entry(k).or_insert_with(init)` then `comb`, in arrival order -/
def keyedMap [DecidableEq K] (ins : V → A) (upd : A → V → A) (m0 : List (K × A)) (xs : List (K × V)) : List (K × A) :=
  xs.foldl (fun m x => upsert ins upd m x.1 x.2) m0

def aux_invKeyed [DecidableEq K] (ins : V → A) (upd : A → V → A) (order : List (K × A) → List (K × A))
    (m0 : List (K × A)) : Inv1T (KeyedSt K A) (K × V) (K × A) := fun pu k pd su sd =>
  pd.closed = pu.closed ∧ k.map = keyedMap ins upd m0 su ∧
  match pu.started with
  | true => k.idx = 1 ∧ sd ++ k.flush = order k.map ∧ (pd.started = true → k.flush = [])
  | false => k.flush = [] ∧ k.idx = 0 ∧ sd = [] ∧ pd.started = false

theorem aux_simKeyed [DecidableEq K] (ins : V → A) (upd : A → V → A) (order : List (K × A) → List (K × A))
    (m0 : List (K × A)) : SimInv1 (keyedC ins upd order) (aux_invKeyed ins upd order m0) where
  ready := by
    intro pu k pd su sd es k1 b ⟨h1, hm, h2⟩ he
    simp only [keyedC, emits_ret] at he
    obtain ⟨rfl, hk⟩ := he
    cases hk
    exact ⟨[], pd, rfl, rfl, h1, hm, by simpa using h2⟩
  send := by
    intro pu k pd su sd es k1 x ⟨h1, hm, h2⟩ hr hs he
    simp only [keyedC, emits_ret] at he
    obtain ⟨rfl, rfl⟩ := he
    simp only [hs] at h2
    obtain ⟨h3, h4, h5, h6⟩ := h2
    refine ⟨[], pd, rfl, rfl, h1, by simp [keyedMap, List.foldl_append, hm], ?_⟩
    simp only [hs]
    exact ⟨h3, h4, by simpa using h5, h6⟩
  fin := by
    intro pu k pd su sd es k1 b ⟨h1, hm, h2⟩ he
    simp only [keyedC] at he
    -- the state after the "collect on first call" step
    have key : ∃ kk : KeyedSt K A,
        (if (k.flush.isEmpty && k.idx == 0) = true then { k with flush := order k.map, idx := 1 } else k) = kk ∧
        kk.map = k.map ∧ kk.idx = 1 ∧ sd ++ kk.flush = order k.map ∧ (pd.started = true → kk.flush = []) := by
      cases hs : pu.started with
      | true =>
        simp only [hs] at h2
        obtain ⟨h3, h4, h5⟩ := h2
        exact ⟨k, by simp [h3], rfl, h3, h4, h5⟩
      | false =>
        simp only [hs] at h2
        obtain ⟨h3, h4, h5, h6⟩ := h2
        exact ⟨{ k with flush := order k.map, idx := 1 }, by simp [h3, h4], rfl, rfl, by simp [h5], by simp [h6]⟩
    obtain ⟨kk, hkk, hk0, hk1, hk2, hk3⟩ := key
    rw [hkk] at he
    have hitems : kk.flush = kk.flush ++ [] := by simp
    rcases aux_drainFin (mk := fun r => ({ kk with flush := r } : KeyedSt K A)) he with
      ⟨rfl, rfl⟩ | ⟨sent, rest, hi, rfl, rfl, rfl⟩
    · have hso := aux_sent_ok hk3 hitems
      refine ⟨_, _, rfl, run_drainTr_fin _ b hso, by simp [h1], by simpa [hk0] using hm, ?_⟩
      simp only
      exact ⟨hk1, by simpa [hk0] using hk2, fun _ => trivial⟩
    · have hso := aux_sent_ok hk3 hi
      refine ⟨_, _, rfl, run_drainTr_rdy sent false hso, by simp [h1], by simpa [hk0] using hm, ?_⟩
      simp only
      refine ⟨hk1, by simp [hk0, ← hk2, hi], ?_⟩
      intro hs; have := hk3 hs; rw [this] at hi; exact aux_rest_nil hi

/-- `FoldKeyed` / `ReduceKeyed` (external map `m0`, hash iteration order `order`): nothing is sent
    before `poll_finalize`; at completion the downstream has received the entries of the final map,
    each exactly once (in the order `order` lists them) — also when `poll_finalize` is polled again
    after a `Pending`, and (since the F123 fix) when it is polled again after `Done`. -/
theorem keyed_sound [DecidableEq K] (ins : V → A) (upd : A → V → A) (order : List (K × A) → List (K × A))
    (m0 : List (K × A)) :
    (keyedC ins upd order).Sound ⟨m0, [], 0⟩ [0] (fun _ xs outs => outs = order (keyedMap ins upd m0 xs)) :=
  (aux_simKeyed ins upd order m0).sound ⟨rfl, rfl, rfl, rfl, rfl, rfl⟩ (fun pu k pd su sd h hwf hc => by
    obtain ⟨h1, hm, h2⟩ := h
    have hpc : pd.closed = true := by rw [h1]; exact hc
    have hps := hwf hpc
    cases hs : pu.started with
    | true =>
      simp only [hs] at h2
      have := h2.2.2 hps
      exact ⟨hpc, by simpa [this, hm] using h2.2.1⟩
    | false =>
      simp only [hs] at h2
      rw [h2.2.2.2] at hps; cases hps)

theorem foldKeyed_sound [DecidableEq K] (init : A) (comb : A → V → A) (order : List (K × A) → List (K × A))
    (m0 : List (K × A)) :
    (foldKeyedC init comb order).Sound ⟨m0, [], 0⟩ [0]
      (fun _ xs outs => outs = order (keyedMap (fun v => comb init v) comb m0 xs)) :=
  keyed_sound _ _ order m0

theorem reduceKeyed_sound [DecidableEq K] (comb : V → V → V) (order : List (K × V) → List (K × V))
    (m0 : List (K × V)) :
    (reduceKeyedC comb order).Sound ⟨m0, [], 0⟩ [0]
      (fun _ xs outs => outs = order (keyedMap (fun v => v) comb m0 xs)) :=
  keyed_sound _ _ order m0

/-! ## Persist -/

theorem aux_drop_suffix {l s r : List α} {i : Nat} (h : l.drop i = s ++ r) : l.drop (l.length - r.length) = r := by
  obtain ⟨a, ha⟩ : ∃ a, l = a ++ r := ⟨l.take i ++ s, by rw [List.append_assoc, ← h, List.take_append_drop]⟩
  subst ha
  simp

theorem aux_drop_snoc_nil {l : List α} {i : Nat} (x : α) (h : l.drop i = []) : (l ++ [x]).drop (i + 1) = [] := by
  rw [List.drop_eq_nil_iff] at h ⊢
  simp; omega

theorem aux_emptyReplay {k k1 : PersistSt α} {es : List (PEv α)} {ok : Bool}
    (h : Emits (emptyReplay k) es (k1, ok)) :
    ∃ sent rest, k.buf.drop k.idx = sent ++ rest ∧
      es = onPort 0 (drainTr sent ++ (if ok then [] else [Ev.rdy false])) ∧
      k1.buf = k.buf ∧ k1.buf.drop k1.idx = rest ∧ (ok = true → rest = []) := by
  simp only [emptyReplay, emits_bind, emits_ret] at h
  obtain ⟨es1, ⟨r1, ok1⟩, es2, h1, ⟨rfl, hk⟩, rfl⟩ := h
  cases hk
  obtain ⟨sent, hl, rfl, hok⟩ := drain_shape h1
  exact ⟨sent, r1, hl, by simp, rfl, aux_drop_suffix hl, hok⟩

def aux_invPersist (buf0 : List α) (idx0 : Nat) : Inv1T (PersistSt α) α α := fun pu k pd su sd =>
  (pd.started = true → pu.started = true) ∧ pd.closed = pu.closed ∧ k.buf = buf0 ++ su ∧
  sd ++ k.buf.drop k.idx = buf0.drop idx0 ++ su ∧
  (pu.ready = true → pu.started = false → pd.ready = true ∧ k.buf.drop k.idx = []) ∧
  (pd.started = true → k.buf.drop k.idx = [])

theorem aux_simPersist (buf0 : List α) (idx0 : Nat) : SimInv1 persistC (aux_invPersist buf0 idx0) where
  ready := by
    intro pu k pd su sd es k1 b ⟨h1, h2, hb, h3, h4, h5⟩ he
    simp only [persistC, emits_bind] at he
    obtain ⟨es1, ⟨r1, ok⟩, es2, he1, he2, rfl⟩ := he
    obtain ⟨sent, rest, hd, rfl, hbuf, hrest, hok⟩ := aux_emptyReplay he1
    have hso := aux_sent_ok h5 hd
    cases ok with
    | true =>
      simp only [if_true, emits_rdy, emits_ret] at he2
      obtain ⟨b', es', rfl, rfl, hk⟩ := he2
      cases hk
      have := hok rfl; subst this
      refine ⟨drainTr sent ++ [Ev.rdy b], _, by simp [onPort], run_drainTr_rdy sent b hso, h1, h2, by rw [hbuf, hb], ?_, ?_, ?_⟩
      · rw [hrest]; simp [← h3, hd]
      · intro hb' _; exact ⟨hb', hrest⟩
      · intro _; exact hrest
    | false =>
      simp only [Bool.false_eq_true, if_false, emits_ret] at he2
      obtain ⟨rfl, hk⟩ := he2
      cases hk
      refine ⟨drainTr sent ++ [Ev.rdy false], _, by simp, run_drainTr_rdy sent false hso, h1, h2, by rw [hbuf, hb], ?_, by simp, ?_⟩
      · rw [hrest]; simp [← h3, hd]
      · intro hs; have := h5 hs; rw [this] at hd; rw [hrest]; exact aux_rest_nil hd
  send := by
    intro pu k pd su sd es k1 x ⟨h1, h2, hb, h3, h4, h5⟩ hr hs he
    simp only [persistC, emits_snd, emits_ret] at he
    obtain ⟨es', rfl, rfl, rfl⟩ := he
    obtain ⟨hpr, hdn⟩ := h4 hr hs
    have hps := aux_started_false h1 hs
    refine ⟨[.snd x], { pd with ready := false }, rfl, by simp [PSt.run, PSt.step, hpr, hps], h1, h2, by simp [hb], ?_, by simp, ?_⟩
    · rw [aux_drop_snoc_nil x hdn]; rw [hdn] at h3; simp at h3; simp [h3]
    · intro _; exact aux_drop_snoc_nil x hdn
  fin := by
    intro pu k pd su sd es k1 b ⟨h1, h2, hb, h3, h4, h5⟩ he
    obtain ⟨es1, b1, he1, hcase⟩ := thenFin_shape he
    obtain ⟨sent, rest, hd, rfl, hbuf, hrest, hok⟩ := aux_emptyReplay he1
    have hso := aux_sent_ok h5 hd
    rcases hcase with ⟨rfl, rfl⟩ | ⟨rfl, rfl, rfl⟩
    · have := hok rfl; subst this
      refine ⟨drainTr sent ++ [Ev.fin b], _, by simp [onPort], run_drainTr_fin sent b hso, fun _ => rfl, by simp [h2],
        by rw [hbuf, hb], ?_, by simp, fun _ => hrest⟩
      rw [hrest]; simp [← h3, hd]
    · refine ⟨drainTr sent ++ [Ev.rdy false], _, by simp, run_drainTr_rdy sent false hso, fun h => by simpa using h1 h,
        by simp [h2], by rw [hbuf, hb], ?_, by simp, ?_⟩
      · rw [hrest]; simp [← h3, hd]
      · intro hs; have := h5 hs; rw [this] at hd; rw [hrest]; exact aux_rest_nil hd

/-- `Persist`: with `replay` the stored items are delivered first, then the new ones, each exactly
    once and in order, whatever the downstream pending pattern during the replay; without `replay`
    only the new items. -/
theorem persist_sound (buf0 : List α) (replay : Bool) :
    persistC.Sound (PersistSt.new buf0 replay) [0]
      (fun _ ins outs => outs = (if replay then buf0 else []) ++ ins) := by
  have h := (aux_simPersist buf0 (PersistSt.new buf0 replay).idx).sound
    (k0 := PersistSt.new buf0 replay) (spec := fun ins outs => outs = (if replay then buf0 else []) ++ ins)
    ⟨by simp, rfl, by simp [PersistSt.new], by simp [PersistSt.new], by simp, by simp⟩
    (fun pu k pd su sd h hwf hc => by
      obtain ⟨h1, h2, hb, h3, _, h5⟩ := h
      have hpc : pd.closed = true := by rw [h2]; exact hc
      rw [h5 (hwf hpc)] at h3
      refine ⟨hpc, ?_⟩
      cases replay <;> simpa [PersistSt.new] using h3)
  exact h

/-- ... and the external buffer ends up holding the old items followed by every new item. -/
theorem persist_buffer (buf0 : List α) (replay : Bool) {up : List (Ev α)} {down : List (PEv α)} {k' : PersistSt α}
    (ht : persistC.Tr (PersistSt.new buf0 replay) up down k') (hok : ProtoOk up) :
    k'.buf = buf0 ++ sends up := by
  obtain ⟨pu, pd, _, hi⟩ := (aux_simPersist buf0 (PersistSt.new buf0 replay).idx).reach
    ⟨by simp, rfl, by simp [PersistSt.new], by simp [PersistSt.new], by simp, by simp⟩ ht hok
  exact hi.2.2.1

/-! ## Inspect, ForEach / VecPush -/

def aux_invInspect : Inv1T (List α) α α := fun pu k pd su sd =>
  (pd.started = true → pu.started = true) ∧ pd.closed = pu.closed ∧
  (pu.ready = true → pu.started = false → pd.ready = true) ∧ sd = su ∧ k = su

theorem aux_simInspect : SimInv1 (inspectC (α := α)) aux_invInspect where
  ready := by
    intro pu k pd su sd es k1 b ⟨h1, h2, h3, h4, h5⟩ he
    simp only [inspectC, emits_rdy, emits_ret] at he
    obtain ⟨b', es', rfl, rfl, hk⟩ := he
    cases hk
    exact ⟨[.rdy b], { pd with ready := b }, rfl, by simp [PSt.run, PSt.step], ⟨h1, h2, fun h _ => h, by simpa using h4, h5⟩⟩
  send := by
    intro pu k pd su sd es k1 x ⟨h1, h2, h3, h4, h5⟩ hr hs he
    simp only [inspectC, emits_snd, emits_ret] at he
    obtain ⟨es', rfl, rfl, rfl⟩ := he
    have hpr := h3 hr hs
    have hps := aux_started_false h1 hs
    exact ⟨[.snd x], { pd with ready := false }, rfl, by simp [PSt.run, PSt.step, hpr, hps],
      ⟨h1, h2, by simp, by simp [h4], by simp [h5]⟩⟩
  fin := by
    intro pu k pd su sd es k1 b ⟨h1, h2, h3, h4, h5⟩ he
    simp only [inspectC, emits_fin, emits_ret] at he
    obtain ⟨b', es', rfl, rfl, hk⟩ := he
    cases hk
    exact ⟨[.fin b], { pd with started := true, closed := pd.closed || b }, rfl, by simp [PSt.run, PSt.step],
      ⟨fun _ => rfl, by simp [h2], by simp, by simpa using h4, h5⟩⟩

/-- `Inspect`: items pass unchanged and in order -/
theorem inspect_sound : (inspectC (α := α)).Sound [] [0] (fun _ ins outs => outs = ins) :=
  aux_simInspect.sound ⟨by simp, rfl, by simp, rfl, rfl⟩ (fun pu k pd su sd h _ hc => ⟨by rw [h.2.1]; exact hc, h.2.2.2.1⟩)

/-- ... and the closure has seen exactly the items, in order -/
theorem inspect_observed {up : List (Ev α)} {down : List (PEv α)} {k' : List α}
    (ht : (inspectC (α := α)).Tr [] up down k') (hok : ProtoOk up) : k' = sends up := by
  obtain ⟨pu, pd, _, hi⟩ := aux_simInspect.reach ⟨by simp, rfl, by simp, rfl, rfl⟩ ht hok
  exact hi.2.2.2.2

/-- `ForEach` / `VecPush`: always ready, never pending, no downstream; the closure / vector has
    received every item in order (after what the vector held before). -/
theorem collect_sound (k0 : List α) {up : List (Ev α)} {down : List (PEv α)} {k' : List α}
    (ht : (collectC (α := α)).Tr k0 up down k') :
    k' = k0 ++ sends up ∧ down = [] ∧ (∀ e ∈ up, e ≠ .rdy false ∧ e ≠ .fin false) := by
  induction ht with
  | nil k => simp
  | rdy he _ ih =>
    simp only [collectC, emits_ret] at he
    obtain ⟨rfl, hk⟩ := he
    cases hk
    obtain ⟨h1, h2, h3⟩ := ih
    refine ⟨by simpa using h1, by simpa using h2, ?_⟩
    intro e he
    rcases List.mem_cons.1 he with rfl | he
    · simp
    · exact h3 e he
  | snd he _ ih =>
    simp only [collectC, emits_ret] at he
    obtain ⟨rfl, rfl⟩ := he
    obtain ⟨h1, h2, h3⟩ := ih
    refine ⟨by simp [h1], by simpa using h2, ?_⟩
    intro e he
    rcases List.mem_cons.1 he with rfl | he
    · simp
    · exact h3 e he
  | fin he _ ih =>
    simp only [collectC, emits_ret] at he
    obtain ⟨rfl, hk⟩ := he
    cases hk
    obtain ⟨h1, h2, h3⟩ := ih
    refine ⟨by simpa using h1, by simpa using h2, ?_⟩
    intro e he
    rcases List.mem_cons.1 he with rfl | he
    · simp
    · exact h3 e he

/-! ## Fanout / Unzip / DemuxVar (independent answer patterns on every port) -/

theorem aux_fanout_eq_route : (fanoutC : Comb Unit α α) = routeC 2 (fun x _ => some x) := by
  simp [fanoutC, routeC, readyAll, finAll, sendAll, Prog.bind]

theorem aux_unzip_eq_route :
    (unzipC : Comb Unit (β × β) β) = routeC 2 (fun x j => if j = 0 then some x.1 else some x.2) := by
  simp [unzipC, routeC, readyAll, finAll, sendAll, Prog.bind]

theorem aux_sendAll_demux (x : Nat × β) (i n : Nat) :
    sendAll (fun (x : Nat × β) j => if x.1 = j then some x.2 else none) x i n =
      if i ≤ x.1 ∧ x.1 < i + n then Prog.snd x.1 x.2 (Prog.ret ()) else Prog.ret () := by
  induction n generalizing i with
  | zero =>
    have h : ¬(i ≤ x.1 ∧ x.1 < i + 0) := by omega
    simp [sendAll, h]
  | succ n ih =>
    simp only [sendAll]
    by_cases hx : x.1 = i
    · have h1 : ¬(i + 1 ≤ x.1 ∧ x.1 < i + 1 + n) := by omega
      have h2 : i ≤ x.1 ∧ x.1 < i + (n + 1) := by omega
      simp [hx, ih, h1, h2]
      omega
    · have h1 : (i + 1 ≤ x.1 ∧ x.1 < i + 1 + n) ↔ (i ≤ x.1 ∧ x.1 < i + (n + 1)) := by omega
      simp [hx, ih, h1]

theorem aux_demux_eq_route (n : Nat) :
    (demuxC n : Comb Unit (Nat × β) β) = routeC n (fun x j => if x.1 = j then some x.2 else none) := by
  simp only [demuxC, routeC]
  congr 1
  funext _ x
  rw [aux_sendAll_demux]
  simp

/-- `Fanout`: both downstreams, whatever their (independent) pending patterns, see contract-honouring
    traces and each receives every item, in order. -/
theorem fanout_sound : (fanoutC : Comb Unit α α).Sound () [0, 1] (fun _ ins outs => outs = ins) := by
  rw [aux_fanout_eq_route]
  have := route_sound 2 (fun (x : α) (_ : Nat) => some x)
  simpa [List.range, List.range.loop] using this

/-- `Unzip`: port 0 receives the first components, port 1 the second components. -/
theorem unzip_sound : (unzipC : Comb Unit (β × β) β).Sound () [0, 1]
    (fun j ins outs => outs = ins.map (fun x => if j = 0 then x.1 else x.2)) := by
  rw [aux_unzip_eq_route]
  intro up down k' ht hok
  obtain ⟨h1, h2⟩ := route_sound 2 (fun (x : β × β) j => if j = 0 then some x.1 else some x.2) up down k' ht hok
  refine ⟨h1, fun hc j hj => ?_⟩
  have hj' : j ∈ List.range 2 := by
    simp only [List.mem_cons, List.mem_nil_iff, or_false] at hj
    rcases hj with rfl | rfl <;> simp
  obtain ⟨g1, g2⟩ := h2 hc j hj'
  refine ⟨g1, ?_⟩
  rw [g2]
  by_cases h0 : j = 0 <;> simp [h0]

/-- `DemuxVar` over `n` pushes: port `j` receives exactly the values tagged `j`, in order; all
    ports are readied before every item and finalized at the end (indices `≥ n` panic in the real
    code and are excluded by `hidx` through the spec: they are delivered nowhere). -/
theorem demux_sound (n : Nat) : (demuxC n : Comb Unit (Nat × β) β).Sound () (List.range n)
    (fun j ins outs => outs = (ins.filter (fun x => x.1 = j)).map (·.2)) := by
  rw [aux_demux_eq_route]
  intro up down k' ht hok
  obtain ⟨h1, h2⟩ := route_sound n (fun (x : Nat × β) j => if x.1 = j then some x.2 else none) up down k' ht hok
  refine ⟨h1, fun hc j hj => ?_⟩
  obtain ⟨g1, g2⟩ := h2 hc j hj
  refine ⟨g1, ?_⟩
  rw [g2]
  generalize sends up = l
  induction l with
  | nil => rfl
  | cons x xs ih => by_cases hx : x.1 = j <;> simp [List.filterMap_cons, List.filter_cons, hx, ih]

/-! ## FilterMapAsync (futures as scripts: pending `d` times, then `Some out` / `None`) -/

/-- outputs resolved or still in flight -/
def fmaPend (k : FmaSt β) : List β :=
  k.resolved.toList ++ (match k.buffer with | some (_, some out) => [out] | _ => [])

def aux_invFma : Inv1T (FmaSt β) (Nat × Option β) β := fun pu k pd su sd =>
  (pd.started = true → pu.started = true) ∧ pd.closed = pu.closed ∧
  sd ++ fmaPend k = su.filterMap (·.2) ∧
  (pu.ready = true → pu.started = false → k.buffer = none ∧ k.resolved = none) ∧
  (pd.started = true → k.buffer = none ∧ k.resolved = none) ∧
  (k.resolved ≠ none → k.buffer = none)

theorem aux_fmaReady {k k1 : FmaSt β} {es : List (PEv β)} {b : Bool} {pd : PSt}
    (he : Emits (fmaReady k) es (k1, b))
    (h5 : pd.started = true → k.buffer = none ∧ k.resolved = none)
    (h6 : k.resolved ≠ none → k.buffer = none) :
    ∃ es0 pd', es = onPort 0 es0 ∧ pd.run es0 = some pd' ∧ pd'.started = pd.started ∧ pd'.closed = pd.closed ∧
      sends es0 ++ fmaPend k1 = fmaPend k ∧ (b = true → k1.buffer = none ∧ k1.resolved = none) ∧
      (k1.resolved ≠ none → k1.buffer = none) ∧ (pd.started = true → k1.buffer = none ∧ k1.resolved = none) := by
  obtain ⟨buffer, resolved⟩ := k
  cases resolved with
  | some out =>
    have hb : buffer = none := h6 (by simp)
    subst hb
    have hps : pd.started = false := by
      cases h : pd.started
      · rfl
      · have := (h5 h).2; simp at this
    simp only [fmaReady, emits_rdy] at he
    obtain ⟨b', es', rfl, he⟩ := he
    cases b' with
    | true =>
      simp only [if_true, emits_snd, emits_ret] at he
      obtain ⟨es'', rfl, rfl, hk⟩ := he
      cases hk
      exact ⟨[.rdy true, .snd out], { pd with ready := false }, rfl, by simp [PSt.run, PSt.step, hps], rfl, rfl,
        by simp [fmaPend], by simp, by simp, by simp⟩
    | false =>
      simp only [Bool.false_eq_true, if_false, emits_ret] at he
      obtain ⟨rfl, hk⟩ := he
      cases hk
      exact ⟨[.rdy false], { pd with ready := false }, rfl, by simp [PSt.run, PSt.step], rfl, rfl,
        by simp [fmaPend], by simp, by simp, by intro h; rw [hps] at h; cases h⟩
  | none =>
    cases buffer with
    | none =>
      simp only [fmaReady, emits_ret] at he
      obtain ⟨rfl, hk⟩ := he
      cases hk
      exact ⟨[], pd, rfl, rfl, rfl, rfl, by simp, by simp, by simp, by simp⟩
    | some fut =>
      obtain ⟨d, out⟩ := fut
      have hps : pd.started = false := by
        cases h : pd.started
        · rfl
        · have := (h5 h).1; simp at this
      cases d with
      | succ d =>
        simp only [fmaReady, emits_ret] at he
        obtain ⟨rfl, hk⟩ := he
        cases hk
        exact ⟨[], pd, rfl, rfl, rfl, rfl, by cases out <;> simp [fmaPend], by simp, by simp, by intro h; rw [hps] at h; cases h⟩
      | zero =>
        cases out with
        | none =>
          simp only [fmaReady, emits_ret] at he
          obtain ⟨rfl, hk⟩ := he
          cases hk
          exact ⟨[], pd, rfl, rfl, rfl, rfl, by simp [fmaPend], by simp, by simp, by simp⟩
        | some out =>
          simp only [fmaReady, emits_rdy] at he
          obtain ⟨b', es', rfl, he⟩ := he
          cases b' with
          | true =>
            simp only [if_true, emits_snd, emits_ret] at he
            obtain ⟨es'', rfl, rfl, hk⟩ := he
            cases hk
            exact ⟨[.rdy true, .snd out], { pd with ready := false }, rfl, by simp [PSt.run, PSt.step, hps], rfl, rfl,
              by simp [fmaPend], by simp, by simp, by simp⟩
          | false =>
            simp only [Bool.false_eq_true, if_false, emits_ret] at he
            obtain ⟨rfl, hk⟩ := he
            cases hk
            exact ⟨[.rdy false], { pd with ready := false }, rfl, by simp [PSt.run, PSt.step], rfl, rfl,
              by simp [fmaPend], by simp, by simp, by intro h; rw [hps] at h; cases h⟩

theorem aux_simFma : SimInv1 (fmaC (β := β)) aux_invFma where
  ready := by
    intro pu k pd su sd es k1 b ⟨h1, h2, h3, h4, h5, h6⟩ he
    obtain ⟨es0, pd', rfl, hr, g1, g2, g3, g4, g5, g6⟩ := aux_fmaReady (pd := pd) he h5 h6
    refine ⟨es0, pd', rfl, hr, by rw [g1]; exact h1, by rw [g2]; exact h2, ?_, fun hb _ => g4 hb, by rw [g1]; exact g6, g5⟩
    rw [List.append_assoc, g3]; exact h3
  send := by
    intro pu k pd su sd es k1 x ⟨h1, h2, h3, h4, h5, h6⟩ hr hs he
    simp only [fmaC, emits_ret] at he
    obtain ⟨rfl, rfl⟩ := he
    obtain ⟨hb, hres⟩ := h4 hr hs
    have hps := aux_started_false h1 hs
    obtain ⟨buffer, resolved⟩ := k
    simp only at hb hres
    subst hb hres
    obtain ⟨d, out⟩ := x
    refine ⟨[], pd, rfl, rfl, h1, h2, ?_, ?_, ?_, ?_⟩
    · simp only [fmaPend] at h3 ⊢
      cases out <;> simp_all [List.filterMap_append]
    · simp
    · intro h; rw [hps] at h; cases h
    · simp
  fin := by
    intro pu k pd su sd es k1 b ⟨h1, h2, h3, h4, h5, h6⟩ he
    obtain ⟨es1, b1, he1, hcase⟩ := thenFin_shape he
    obtain ⟨es0, pd', rfl, hr, g1, g2, g3, g4, g5, g6⟩ := aux_fmaReady (pd := pd) he1 h5 h6
    rcases hcase with ⟨rfl, rfl⟩ | ⟨rfl, rfl, rfl⟩
    · refine ⟨es0 ++ [Ev.fin b], { pd' with started := true, closed := pd'.closed || b }, by simp [onPort], ?_, fun _ => rfl,
        by simp [g2, h2], ?_, by simp, fun _ => g4 rfl, g5⟩
      · rw [PSt.run_append, hr]; simp [PSt.run, PSt.step]
      · simp only [sends_append, sends_fin, sends_nil, List.append_nil]
        rw [List.append_assoc, g3]; exact h3
    · refine ⟨es0, pd', rfl, hr, fun h => by simp, by simp [g2, h2], ?_, by simp, by rw [g1]; exact g6, g5⟩
      rw [List.append_assoc, g3]; exact h3

/-- `FilterMapAsync`: every `Some` output is delivered exactly once, in order, whatever the
    futures' and the downstream's pending patterns (since the F121 fix also when the downstream
    pends repeatedly after a future resolved). -/
theorem filterMapAsync_sound :
    (fmaC (β := β)).Sound ⟨none, none⟩ [0] (fun _ ins outs => outs = ins.filterMap (·.2)) :=
  aux_simFma.sound ⟨by simp, rfl, by simp [fmaPend], by simp, by simp, by simp⟩ (fun pu k pd su sd h hwf hc => by
    obtain ⟨h1, h2, h3, _, h5, _⟩ := h
    have hpc : pd.closed = true := by rw [h2]; exact hc
    obtain ⟨hb, hr⟩ := h5 (hwf hpc)
    refine ⟨hpc, ?_⟩
    simpa [fmaPend, hb, hr] using h3)

/-! ## FlatMapStream / FlattenStream (streams as scripts with `Pending` placements) -/

def fmsPend : FmsSt β → List β
  | none => []
  | some (st, item) => item.toList ++ items st

theorem aux_fmsLoop {pd : PSt} (hps : pd.started = false) (st : List (Option β)) :
    ∀ {item : Option β} {es : List (PEv β)} {k1 : FmsSt β} {b : Bool}, Emits (fmsLoop st item) es (k1, b) →
    ∃ es0 pd', es = onPort 0 es0 ∧ pd.run es0 = some pd' ∧ pd'.started = false ∧ pd'.closed = pd.closed ∧
      sends es0 ++ fmsPend k1 = item.toList ++ items st ∧ (b = true → k1 = none) := by
  induction st generalizing pd with
  | nil =>
    intro item es k1 b he
    cases item with
    | none =>
      simp only [fmsLoop, emits_ret] at he
      obtain ⟨rfl, hk⟩ := he; cases hk
      exact ⟨[], pd, rfl, rfl, hps, rfl, by simp [fmsPend], fun _ => rfl⟩
    | some x =>
      simp only [fmsLoop, emits_rdy] at he
      obtain ⟨b', es', rfl, he⟩ := he
      cases b' with
      | true =>
        simp only [if_true, emits_snd, emits_ret] at he
        obtain ⟨es'', rfl, rfl, hk⟩ := he; cases hk
        exact ⟨[.rdy true, .snd x], { pd with ready := false }, rfl, by simp [PSt.run, PSt.step, hps], hps, rfl,
          by simp [fmsPend], fun _ => rfl⟩
      | false =>
        simp only [Bool.false_eq_true, if_false, emits_ret] at he
        obtain ⟨rfl, hk⟩ := he; cases hk
        exact ⟨[.rdy false], { pd with ready := false }, rfl, by simp [PSt.run, PSt.step], hps, rfl,
          by simp [fmsPend], by simp⟩
  | cons y st ih =>
    intro item es k1 b he
    cases y with
    | none =>
      cases item with
      | none =>
        simp only [fmsLoop, emits_ret] at he
        obtain ⟨rfl, hk⟩ := he; cases hk
        exact ⟨[], pd, rfl, rfl, hps, rfl, by simp [fmsPend], by simp⟩
      | some x =>
        simp only [fmsLoop, emits_rdy] at he
        obtain ⟨b', es', rfl, he⟩ := he
        cases b' with
        | true =>
          simp only [if_true, emits_snd, emits_ret] at he
          obtain ⟨es'', rfl, rfl, hk⟩ := he; cases hk
          exact ⟨[.rdy true, .snd x], { pd with ready := false }, rfl, by simp [PSt.run, PSt.step, hps], hps, rfl,
            by simp [fmsPend], by simp⟩
        | false =>
          simp only [Bool.false_eq_true, if_false, emits_ret] at he
          obtain ⟨rfl, hk⟩ := he; cases hk
          exact ⟨[.rdy false], { pd with ready := false }, rfl, by simp [PSt.run, PSt.step], hps, rfl,
            by simp [fmsPend], by simp⟩
    | some y =>
      cases item with
      | none =>
        simp only [fmsLoop] at he
        obtain ⟨es0, pd', rfl, hr, g1, g2, g3, g4⟩ := ih hps he
        exact ⟨es0, pd', rfl, hr, g1, g2, by simpa using g3, g4⟩
      | some x =>
        simp only [fmsLoop, emits_rdy] at he
        obtain ⟨b', es', rfl, he⟩ := he
        cases b' with
        | true =>
          simp only [if_true, emits_snd] at he
          obtain ⟨es'', rfl, he⟩ := he
          obtain ⟨es0, pd', rfl, hr, g1, g2, g3, g4⟩ := ih (pd := { pd with ready := false }) hps he
          refine ⟨.rdy true :: .snd x :: es0, pd', rfl, ?_, g1, g2, by simpa using g3, g4⟩
          rw [PSt.run_cons]; simp only [PSt.step, Option.bind_some]
          rw [PSt.run_cons]; simp only [PSt.step, hps, Bool.not_false, Bool.and_self, if_true, Option.bind_some]
          simpa [hps] using hr
        | false =>
          simp only [Bool.false_eq_true, if_false, emits_ret] at he
          obtain ⟨rfl, hk⟩ := he; cases hk
          exact ⟨[.rdy false], { pd with ready := false }, rfl, by simp [PSt.run, PSt.step], hps, rfl,
            by simp [fmsPend], by simp⟩

def aux_invFms : Inv1T (FmsSt β) (List (Option β)) β := fun pu k pd su sd =>
  (pd.started = true → pu.started = true) ∧ pd.closed = pu.closed ∧
  sd ++ fmsPend k = su.flatMap items ∧
  (pu.ready = true → pu.started = false → k = none) ∧ (pd.started = true → k = none)

theorem aux_fmsReady {k k1 : FmsSt β} {es : List (PEv β)} {b : Bool} {pd : PSt}
    (he : Emits (fmsReady k) es (k1, b)) (h5 : pd.started = true → k = none) :
    ∃ es0 pd', es = onPort 0 es0 ∧ pd.run es0 = some pd' ∧ pd'.started = pd.started ∧ pd'.closed = pd.closed ∧
      sends es0 ++ fmsPend k1 = fmsPend k ∧ (b = true → k1 = none) ∧ (pd.started = true → k1 = none) := by
  cases k with
  | none =>
    simp only [fmsReady, emits_ret] at he
    obtain ⟨rfl, hk⟩ := he; cases hk
    exact ⟨[], pd, rfl, rfl, rfl, rfl, by simp, fun _ => rfl, fun _ => rfl⟩
  | some v =>
    obtain ⟨st, item⟩ := v
    have hps : pd.started = false := by
      cases h : pd.started
      · rfl
      · have := h5 h; simp at this
    simp only [fmsReady] at he
    obtain ⟨es0, pd', rfl, hr, g1, g2, g3, g4⟩ := aux_fmsLoop hps st he
    exact ⟨es0, pd', rfl, hr, by rw [g1, hps], g2, by simpa [fmsPend] using g3, g4, by intro h; rw [hps] at h; cases h⟩

theorem aux_simFms : SimInv1 (fmsC (β := β)) aux_invFms where
  ready := by
    intro pu k pd su sd es k1 b ⟨h1, h2, h3, h4, h5⟩ he
    obtain ⟨es0, pd', rfl, hr, g1, g2, g3, g4, g5⟩ := aux_fmsReady (pd := pd) he h5
    refine ⟨es0, pd', rfl, hr, by rw [g1]; exact h1, by rw [g2]; exact h2, ?_, fun hb _ => g4 hb, by rw [g1]; exact g5⟩
    rw [List.append_assoc, g3]; exact h3
  send := by
    intro pu k pd su sd es k1 x ⟨h1, h2, h3, h4, h5⟩ hr hs he
    simp only [fmsC, emits_ret] at he
    obtain ⟨rfl, rfl⟩ := he
    have hk := h4 hr hs
    subst hk
    have hps := aux_started_false h1 hs
    refine ⟨[], pd, rfl, rfl, h1, h2, ?_, ?_, ?_⟩
    · simpa [fmsPend, List.flatMap_append] using h3
    · simp
    · intro h; rw [hps] at h; cases h
  fin := by
    intro pu k pd su sd es k1 b ⟨h1, h2, h3, h4, h5⟩ he
    obtain ⟨es1, b1, he1, hcase⟩ := thenFin_shape he
    obtain ⟨es0, pd', rfl, hr, g1, g2, g3, g4, g5⟩ := aux_fmsReady (pd := pd) he1 h5
    rcases hcase with ⟨rfl, rfl⟩ | ⟨rfl, rfl, rfl⟩
    · refine ⟨es0 ++ [Ev.fin b], { pd' with started := true, closed := pd'.closed || b }, by simp [onPort], ?_, fun _ => rfl,
        by simp [g2, h2], ?_, by simp, fun _ => g4 rfl⟩
      · rw [PSt.run_append, hr]; simp [PSt.run, PSt.step]
      · simp only [sends_append, sends_fin, sends_nil, List.append_nil]
        rw [List.append_assoc, g3]; exact h3
    · refine ⟨es0, pd', rfl, hr, fun h => by simp, by simp [g2, h2], ?_, by simp, by rw [g1]; exact g5⟩
      rw [List.append_assoc, g3]; exact h3

/-- `FlatMapStream` / `FlattenStream`: the items of every stream, in order, exactly once, for all
    `Pending` placements inside the streams and all downstream pending patterns. -/
theorem flatMapStream_sound :
    (fmsC (β := β)).Sound none [0] (fun _ ins outs => outs = ins.flatMap items) :=
  aux_simFms.sound ⟨by simp, rfl, by simp [fmsPend], by simp, by simp⟩ (fun pu k pd su sd h hwf hc => by
    obtain ⟨h1, h2, h3, _, h5⟩ := h
    have hpc : pd.closed = true := by rw [h2]; exact hc
    have hk := h5 (hwf hpc)
    subst hk
    exact ⟨hpc, by simpa [fmsPend] using h3⟩)

/-! ## StatePush (items on port 0, the accumulated lattice state on port 1) -/

/-- the items whose merge changed the state, in order -/
def stChanged (merge : L → α → L × Bool) : L → List α → List α
  | _, [] => []
  | st, x :: xs => (if (merge st x).2 then [x] else []) ++ stChanged merge (merge st x).1 xs

def stFinal (merge : L → α → L × Bool) (st : L) (xs : List α) : L := xs.foldl (fun s x => (merge s x).1) st

theorem aux_stChanged_snoc (merge : L → α → L × Bool) (st : L) (xs : List α) (x : α) :
    stChanged merge st (xs ++ [x]) =
      stChanged merge st xs ++ (if (merge (stFinal merge st xs) x).2 then [x] else []) := by
  induction xs generalizing st with
  | nil => simp [stChanged, stFinal] <;> rfl
  | cons y ys ih => simp [stChanged, stFinal, ih, List.append_assoc] <;> rfl

/-- two-port bookkeeping: only ports 0 and 1 move -/
theorem aux_run2 {pd : Nat → PSt} {es : List (PEv β)} {e0 e1 : List (Ev β)} {p0 p1 : PSt}
    (h0 : port 0 es = e0) (h1 : port 1 es = e1) (h2 : ∀ j, j ≠ 0 → j ≠ 1 → port j es = [])
    (r0 : (pd 0).run e0 = some p0) (r1 : (pd 1).run e1 = some p1) :
    ∀ i, (pd i).run (port i es) = some (upd (upd pd 0 p0) 1 p1 i) := by
  intro i
  by_cases hi1 : i = 1
  · subst hi1; rw [h1]; simpa using r1
  · by_cases hi0 : i = 0
    · subst hi0; rw [h0, upd_ne _ _ hi1]; simpa using r0
    · rw [h2 i hi0 hi1, upd_ne _ _ hi1, upd_ne _ _ hi0]; rfl

/-- two-port invariant shape -/
abbrev Inv2T (κ α β : Type) := PSt → κ → PSt → PSt → List α → List β → List β → Prop

theorem aux_step2 {P2 : Inv2T κ α β} {pd : Nat → PSt} {es : List (PEv β)} {e0 e1 : List (Ev β)} {p0 p1 pu' : PSt}
    {k1 : κ} {su' : List α} {sd : Nat → List β}
    (h0 : port 0 es = e0) (h1 : port 1 es = e1) (h2 : ∀ j, j ≠ 0 → j ≠ 1 → port j es = [])
    (r0 : (pd 0).run e0 = some p0) (r1 : (pd 1).run e1 = some p1)
    (hp : P2 pu' k1 p0 p1 su' (sd 0 ++ sends e0) (sd 1 ++ sends e1)) :
    ∃ pd' : Nat → PSt, (∀ i, (pd i).run (port i es) = some (pd' i)) ∧
      P2 pu' k1 (pd' 0) (pd' 1) su' (sd 0 ++ sends (port 0 es)) (sd 1 ++ sends (port 1 es)) := by
  refine ⟨upd (upd pd 0 p0) 1 p1, aux_run2 h0 h1 h2 r0 r1, ?_⟩
  have e1' : upd (upd pd 0 p0) 1 p1 1 = p1 := by simp [upd]
  have e0' : upd (upd pd 0 p0) 1 p1 0 = p0 := by simp [upd]
  rw [e0', e1', h0, h1]
  exact hp

def aux_invState (merge : L → α → L × Bool) (i0 : α → β) (i1 : L → β) (st0 : L) : Inv2T (StateSt L) α β :=
  fun pu k p0 p1 su s0 s1 =>
    (p0.started = true → pu.started = true) ∧ (pu.closed = true → p0.closed = true) ∧
    (pu.ready = true → pu.started = false → p0.ready = true) ∧
    s0 = (stChanged merge st0 su).map i0 ∧ k.st = stFinal merge st0 su ∧
    (pu.closed = true → p1.closed = true) ∧
    (k.sent = false → s1 = [] ∧ p1.started = false) ∧
    (k.sent = true → s1 = [i1 k.st] ∧ pu.started = true)

theorem aux_simState (merge : L → α → L × Bool) (i0 : α → β) (i1 : L → β) (st0 : L) :
    SimInv (stateC merge i0 i1)
      (fun pu k pd su sd => aux_invState merge i0 i1 st0 pu k (pd 0) (pd 1) su (sd 0) (sd 1)) where
  ready := by
    intro pu k pd su sd es k1 b ⟨h1, h2, h3, h4, h5, h6, h7, h8⟩ he
    simp only [stateC, emits_rdy, emits_ret] at he
    obtain ⟨a, es', rfl, b', es'', rfl, rfl, hk⟩ := he
    cases hk
    refine aux_step2 (e0 := [.rdy a]) (e1 := [.rdy b']) (p0 := { pd 0 with ready := a }) (p1 := { pd 1 with ready := b' })
      (by simp [port]) (by simp [port]) (fun j hj0 hj1 => by simp [port, Ne.symm hj0, Ne.symm hj1])
      (by simp [PSt.run, PSt.step]) (by simp [PSt.run, PSt.step]) ?_
    refine ⟨h1, h2, ?_, by simpa using h4, h5, h6, ?_, ?_⟩
    · intro hb _; simp at hb ⊢; exact hb.1
    · intro hs; simpa using h7 hs
    · intro hs; simpa using h8 hs
  send := by
    intro pu k pd su sd es k1 x ⟨h1, h2, h3, h4, h5, h6, h7, h8⟩ hr hs he
    have hsent : k.sent = false := by
      cases h : k.sent
      · rfl
      · rw [(h8 h).2] at hs; cases hs
    have hps : (pd 0).started = false := by
      cases h : (pd 0).started
      · rfl
      · rw [h1 h] at hs; cases hs
    have hpr := h3 hr hs
    have hst : (merge k.st x).1 = stFinal merge st0 (su ++ [x]) := by
      rw [h5]; simp [stFinal, List.foldl_append]
    simp only [stateC] at he
    cases hm : (merge k.st x).2 with
    | true =>
      simp only [hm, if_true, emits_snd, emits_ret] at he
      obtain ⟨es', rfl, rfl, rfl⟩ := he
      refine aux_step2 (e0 := [.snd (i0 x)]) (e1 := []) (p0 := { pd 0 with ready := false }) (p1 := pd 1)
        (by simp [port]) (by simp [port]) (fun j hj0 hj1 => by simp [port, Ne.symm hj0])
        (by simp [PSt.run, PSt.step, hpr, hps]) rfl ?_
      refine ⟨h1, h2, by simp, ?_, hst, h6, ?_, ?_⟩
      · rw [h5] at hm; simp [h4, aux_stChanged_snoc, hm]
      · intro _; simpa using h7 hsent
      · intro h; simp only at h; rw [hsent] at h; cases h
    | false =>
      simp only [hm, Bool.false_eq_true, if_false, emits_ret] at he
      obtain ⟨rfl, rfl⟩ := he
      refine aux_step2 (e0 := []) (e1 := []) (p0 := pd 0) (p1 := pd 1)
        (by simp [port]) (by simp [port]) (fun j hj0 hj1 => by simp [port]) rfl rfl ?_
      refine ⟨h1, h2, by simp, ?_, hst, h6, ?_, ?_⟩
      · rw [h5] at hm; simp [h4, aux_stChanged_snoc, hm]
      · intro _; simpa using h7 hsent
      · intro h; simp only at h; rw [hsent] at h; cases h
  fin := by
    intro pu k pd su sd es k1 b ⟨h1, h2, h3, h4, h5, h6, h7, h8⟩ he
    simp only [stateC] at he
    cases hsent : k.sent with
    | true =>
      simp only [hsent, if_true, emits_fin, emits_ret] at he
      obtain ⟨a, es', rfl, b', es'', rfl, rfl, hk⟩ := he
      cases hk
      refine aux_step2 (e0 := [.fin a]) (e1 := [.fin b']) (p0 := { pd 0 with started := true, closed := (pd 0).closed || a })
        (p1 := { pd 1 with started := true, closed := (pd 1).closed || b' })
        (by simp [port]) (by simp [port]) (fun j hj0 hj1 => by simp [port, Ne.symm hj0, Ne.symm hj1])
        (by simp [PSt.run, PSt.step]) (by simp [PSt.run, PSt.step]) ?_
      refine ⟨fun _ => rfl, ?_, by simp, by simpa using h4, h5, ?_, ?_, ?_⟩
      · intro hc; simp at hc ⊢; rcases hc with hc | hc
        · exact Or.inl (h2 hc)
        · exact Or.inr hc.1
      · intro hc; simp at hc ⊢; rcases hc with hc | hc
        · exact Or.inl (h6 hc)
        · exact Or.inr hc.2
      · intro h; rw [hsent] at h; cases h
      · intro _; exact ⟨by simpa using (h8 hsent).1, rfl⟩
    | false =>
      obtain ⟨hsd1, hp1⟩ := h7 hsent
      simp only [hsent, Bool.false_eq_true, if_false, emits_rdy] at he
      obtain ⟨r, es', rfl, he⟩ := he
      cases r with
      | false =>
        simp only [Bool.false_eq_true, if_false, emits_ret] at he
        obtain ⟨rfl, hk⟩ := he
        cases hk
        refine aux_step2 (e0 := []) (e1 := [.rdy false]) (p0 := pd 0) (p1 := { pd 1 with ready := false })
          (by simp [port]) (by simp [port]) (fun j hj0 hj1 => by simp [port, Ne.symm hj1])
          rfl (by simp [PSt.run, PSt.step]) ?_
        refine ⟨fun h => by simp, by simpa using h2, by simp, by simpa using h4, h5, by simpa using h6, ?_, ?_⟩
        · intro _; exact ⟨by simpa using hsd1, by simpa using hp1⟩
        · intro h; rw [hsent] at h; cases h
      | true =>
        simp only [if_true, emits_snd, emits_fin, emits_ret] at he
        obtain ⟨es'', rfl, a, es3, rfl, b', es4, rfl, rfl, hk⟩ := he
        cases hk
        refine aux_step2 (e0 := [.fin a]) (e1 := [.rdy true, .snd (i1 k.st), .fin b'])
          (p0 := { pd 0 with started := true, closed := (pd 0).closed || a })
          (p1 := { pd 1 with ready := false, started := true, closed := (pd 1).closed || b' })
          (by simp [port]) (by simp [port]) (fun j hj0 hj1 => by simp [port, Ne.symm hj0, Ne.symm hj1])
          (by simp [PSt.run, PSt.step]) (by simp [PSt.run, PSt.step, hp1]) ?_
        refine ⟨fun _ => rfl, ?_, by simp, by simpa using h4, h5, ?_, ?_, ?_⟩
        · intro hc; simp at hc ⊢; rcases hc with hc | hc
          · exact Or.inl (h2 hc)
          · exact Or.inr hc.1
        · intro hc; simp at hc ⊢; rcases hc with hc | hc
          · exact Or.inl (h6 hc)
          · exact Or.inr hc.2
        · intro h; simp at h
        · intro _; exact ⟨by simp [hsd1], rfl⟩

/-- `StatePush` (since the F122 fix): port 0 receives the items whose merge changed the state, in
    order; port 1 receives the accumulated state exactly once, after a `ready? true`, before its
    finalize — however often `poll_finalize` has to be polled. -/
theorem statePush_sound (merge : L → α → L × Bool) (i0 : α → β) (i1 : L → β) (st0 : L) :
    (stateC merge i0 i1).Sound ⟨st0, false⟩ [0, 1]
      (fun j ins outs => outs = if j = 0 then (stChanged merge st0 ins).map i0 else [i1 (stFinal merge st0 ins)]) :=
  (aux_simState merge i0 i1 st0).sound
    ⟨by simp, by simp, by simp, rfl, rfl, by simp, fun _ => ⟨rfl, rfl⟩, by simp⟩
    (fun pu k pd su sd h hwf hc j hj => by
      obtain ⟨h1, h2, h3, h4, h5, h6, h7, h8⟩ := h
      simp only [List.mem_cons, List.mem_nil_iff, or_false] at hj
      rcases hj with rfl | rfl
      · exact ⟨h2 hc, by simpa using h4⟩
      · refine ⟨h6 hc, ?_⟩
        cases hs : k.sent with
        | true => simpa [h5] using (h8 hs).1
        | false =>
          have := hwf 1 (h6 hc)
          rw [(h7 hs).2] at this; cases this)

/-! ## ResolveFutures over the scripted queue (blocking: `subgraph_waker = None`; non-blocking: `Some`) -/

/-- `waker = false`: blocking mode. `finalizing` is set exactly when the downstream's finalize was
    started; from then on nothing is sent (in non-blocking mode the queue may still hold futures). -/
def aux_invResolve (ordered waker : Bool) (q0 : List (QEntry β)) : Inv1T (ResSt β) (Nat × β) β :=
  fun pu k pd su sd =>
    (pd.started = true → pu.started = true) ∧ pd.closed = pu.closed ∧
    (pu.ready = true → pu.started = false → pd.ready = true) ∧
    (sd ++ qvals k.q).Perm (qvals q0 ++ su.map (·.2)) ∧
    (ordered = true → sd ++ qvals k.q = qvals q0 ++ su.map (·.2)) ∧
    (pd.started = true → k.finalizing = true) ∧
    (k.finalizing = true → pu.started = true) ∧
    (k.finalizing = true → waker = false → k.q = [])

/-- what the guarded `empty_ready` does: nothing once `finalizing`, otherwise a drain of some queue
    outputs followed by one more `ready?` -/
theorem aux_resEmptyReady {ordered waker fl : Bool} {k k1 : ResSt β} {es : List (PEv β)} {b : Bool}
    (he : Emits (resEmptyReady ordered waker fl k) es (k1, b)) :
    (k.finalizing = true ∧ es = [] ∧ k1 = k ∧ b = true) ∨
    (k.finalizing = false ∧ ∃ sent r, es = onPort 0 (drainTr sent ++ [Ev.rdy r]) ∧
      (sent ++ qvals k1.q).Perm (qvals k.q) ∧ (ordered = true → sent ++ qvals k1.q = qvals k.q) ∧
      (b = true → r = true) ∧ (b = true → waker = false → k1.q = []) ∧ k1.finalizing = (fl && b)) := by
  unfold resEmptyReady at he
  cases hf : k.finalizing with
  | true =>
    simp only [hf, if_true, emits_ret] at he
    obtain ⟨rfl, hk⟩ := he
    cases hk
    exact Or.inl ⟨rfl, rfl, rfl, rfl⟩
  | false =>
    simp only [hf, Bool.false_eq_true, if_false, emits_bind, emits_ret] at he
    obtain ⟨es1, ⟨q1, b1⟩, es2, h1, ⟨rfl, hk⟩, rfl⟩ := he
    cases hk
    obtain ⟨sent, r, rfl, g1, g2, g3, g4⟩ := emptyReadyAux_shape ordered waker (k.q.length + 1) (by omega) h1
    exact Or.inr ⟨rfl, sent, r, by simp, g1, g2, g3, g4, rfl⟩

theorem aux_simResolve (ordered waker : Bool) (q0 : List (QEntry β)) :
    SimInv1 (resolveC (β := β) ordered waker) (aux_invResolve ordered waker q0) where
  ready := by
    intro pu k pd su sd es k1 b ⟨h1, h2, h3, h4, h5, h6, h7, h8⟩ he
    rcases aux_resEmptyReady he with ⟨hf, rfl, rfl, rfl⟩ | ⟨hf, sent, r, rfl, g1, g2, g3, g4, g5⟩
    · refine ⟨[], pd, rfl, rfl, h1, h2, ?_, by simpa using h4, by simpa using h5, h6, h7, h8⟩
      intro _ hs; rw [h7 hf] at hs; cases hs
    · have hps : pd.started = false := by
        cases h : pd.started
        · rfl
        · rw [h6 h] at hf; cases hf
      refine ⟨_, _, rfl, run_drainTr_rdy sent r (Or.inr hps), h1, h2, ?_, ?_, ?_, ?_, ?_, ?_⟩
      · intro hb _; exact g3 hb
      · simp only [sends_drainTr, sends_rdy, sends_nil, List.append_nil]
        rw [List.append_assoc]; exact (List.Perm.append_left sd g1).trans h4
      · intro ho
        simp only [sends_drainTr, sends_rdy, sends_nil, List.append_nil]
        rw [List.append_assoc, g2 ho]; exact h5 ho
      · intro h; rw [hps] at h; cases h
      · intro h; rw [g5] at h; simp at h
      · intro h; rw [g5] at h; simp at h
  send := by
    intro pu k pd su sd es k1 x ⟨h1, h2, h3, h4, h5, h6, h7, h8⟩ hr hs he
    have hps := aux_started_false h1 hs
    have hpr := h3 hr hs
    have hf : k.finalizing = false := by
      cases h : k.finalizing
      · rfl
      · rw [h7 h] at hs; cases hs
    have hperm : ∀ tl : List β, (sd ++ tl).Perm (qvals q0 ++ su.map (·.2) ++ [x.2]) →
        (sd ++ tl).Perm (qvals q0 ++ (su ++ [x]).map (·.2)) := by
      intro tl h; simpa [List.map_append] using h
    cases waker with
    | false =>
      simp only [resolveC, Bool.false_eq_true, if_false, emits_ret] at he
      obtain ⟨rfl, rfl⟩ := he
      refine ⟨[], pd, rfl, rfl, h1, h2, by simp, ?_, ?_, h6, ?_, ?_⟩
      · simp only [sends_nil, List.append_nil, qvals_append, qvals_cons, qvals_nil, List.map_append, List.map_cons, List.map_nil]
        rw [← List.append_assoc, ← List.append_assoc]
        exact List.Perm.append_right _ h4
      · intro ho
        simp only [sends_nil, List.append_nil, qvals_append, qvals_cons, qvals_nil, List.map_append, List.map_cons, List.map_nil]
        rw [← List.append_assoc, ← List.append_assoc, h5 ho]
      · intro h; rw [hf] at h; cases h
      · intro h; rw [hf] at h; cases h
    | true =>
      simp only [resolveC, if_true] at he
      have hsp := qPoll_spec ordered (k.q ++ [⟨x.1, x.2, false⟩])
      cases hq : qPoll ordered (k.q ++ [⟨x.1, x.2, false⟩]) with
      | mk qq res =>
        rw [hq] at hsp he
        cases res with
        | item y =>
          simp only [emits_snd, emits_ret] at he hsp
          obtain ⟨es', rfl, rfl, rfl⟩ := he
          obtain ⟨p1, p2, _⟩ := hsp
          refine ⟨[.snd y], { pd with ready := false }, rfl, by simp [PSt.run, PSt.step, hpr, hps], h1, h2, by simp, ?_, ?_, h6, ?_, ?_⟩
          · simp only [sends_snd, sends_nil, List.map_append, List.map_cons, List.map_nil]
            have e1 : (sd ++ [y] ++ qvals qq).Perm (sd ++ (qvals k.q ++ [x.2])) := by
              rw [List.append_assoc]
              exact List.Perm.append_left sd (by simpa using p1)
            refine e1.trans ?_
            rw [← List.append_assoc, ← List.append_assoc]
            exact List.Perm.append_right _ h4
          · intro ho
            simp only [sends_snd, sends_nil, List.map_append, List.map_cons, List.map_nil]
            have := p2 ho
            simp only [qvals_append, qvals_cons, qvals_nil] at this
            rw [List.append_assoc, List.singleton_append, this, ← List.append_assoc, h5 ho, List.append_assoc]
          · intro h; rw [hf] at h; cases h
          · intro h; rw [hf] at h; cases h
        | ended =>
          simp only [emits_ret] at he hsp
          exact absurd hsp.1 (by simp)
        | pending =>
          simp only [emits_ret] at he hsp
          obtain ⟨rfl, rfl⟩ := he
          obtain ⟨p1, _, _⟩ := hsp
          refine ⟨[], pd, rfl, rfl, h1, h2, by simp, ?_, ?_, h6, ?_, ?_⟩
          · simp only [sends_nil, List.append_nil, p1, qvals_append, qvals_cons, qvals_nil, List.map_append, List.map_cons, List.map_nil]
            rw [← List.append_assoc, ← List.append_assoc]
            exact List.Perm.append_right _ h4
          · intro ho
            simp only [sends_nil, List.append_nil, p1, qvals_append, qvals_cons, qvals_nil, List.map_append, List.map_cons, List.map_nil]
            rw [← List.append_assoc, ← List.append_assoc, h5 ho]
          · intro h; rw [hf] at h; cases h
          · intro h; rw [hf] at h; cases h
  fin := by
    intro pu k pd su sd es k1 b ⟨h1, h2, h3, h4, h5, h6, h7, h8⟩ he
    obtain ⟨es1, b1, he1, hcase⟩ := thenFin_shape he
    rcases aux_resEmptyReady he1 with ⟨hf, rfl, rfl, rfl⟩ | ⟨hf, sent, r, rfl, g1, g2, g3, g4, g5⟩
    · -- already finalizing: only the downstream's `poll_finalize` is polled again
      rcases hcase with ⟨_, rfl⟩ | ⟨hb, _, _⟩
      · refine ⟨[.fin b], { pd with started := true, closed := pd.closed || b }, rfl, by simp [PSt.run, PSt.step],
          fun _ => rfl, by simp [h2], by simp, by simpa using h4, by simpa using h5, fun _ => hf, fun _ => rfl, h8⟩
      · cases hb
    · have hps : pd.started = false := by
        cases h : pd.started
        · rfl
        · rw [h6 h] at hf; cases hf
      rcases hcase with ⟨rfl, rfl⟩ | ⟨rfl, rfl, rfl⟩
      · have hr := g3 rfl; subst hr
        refine ⟨drainTr sent ++ [Ev.rdy true] ++ [Ev.fin b],
          { pd with ready := true, started := true, closed := pd.closed || b }, by simp [onPort], ?_,
          fun _ => rfl, by simp [h2], by simp, ?_, ?_, ?_, fun _ => rfl, fun _ hw => g4 rfl hw⟩
        · rw [PSt.run_append, run_drainTr_rdy sent true (Or.inr hps)]; simp [PSt.run, PSt.step]
        · simp only [sends_append, sends_drainTr, sends_drainTr', sends_rdy, sends_fin, sends_nil, List.append_nil]
          rw [List.append_assoc]; exact (List.Perm.append_left sd g1).trans h4
        · intro ho
          simp only [sends_append, sends_drainTr, sends_drainTr', sends_rdy, sends_fin, sends_nil, List.append_nil]
          rw [List.append_assoc, g2 ho]; exact h5 ho
        · intro _; rw [g5]; rfl
      · refine ⟨_, _, rfl, run_drainTr_rdy sent r (Or.inr hps), fun _ => rfl, by simp [h2], by simp, ?_, ?_, ?_, fun _ => rfl, ?_⟩
        · simp only [sends_drainTr, sends_rdy, sends_nil, List.append_nil]
          rw [List.append_assoc]; exact (List.Perm.append_left sd g1).trans h4
        · intro ho
          simp only [sends_drainTr, sends_rdy, sends_nil, List.append_nil]
          rw [List.append_assoc, g2 ho]; exact h5 ho
        · intro h; rw [hps] at h; cases h
        · intro h; rw [g5] at h; simp at h

theorem aux_invResolve_init (ordered waker : Bool) (q0 : List (QEntry β)) :
    aux_invResolve ordered waker q0 {} ⟨q0, false⟩ {} [] [] :=
  ⟨by simp, rfl, by simp, by simp, by simp, by simp, by simp, by simp⟩

/-- `ResolveFutures` in blocking mode over the scripted queue (initial content `q0`): at completion
    every future's output — those already queued and those pushed — was delivered exactly once (a
    permutation; in queue order for the ordered queue), each after a `ready? true`, none after
    finalize was started, for all resolution delays and downstream pending patterns. -/
theorem resolveFutures_blocking_sound (ordered : Bool) (q0 : List (QEntry β)) :
    (resolveC (β := β) ordered false).Sound ⟨q0, false⟩ [0]
      (fun _ ins outs => outs.Perm (qvals q0 ++ ins.map (·.2)) ∧
        (ordered = true → outs = qvals q0 ++ ins.map (·.2))) :=
  (aux_simResolve ordered false q0).sound (aux_invResolve_init ordered false q0) (fun pu k pd su sd h hwf hc => by
    obtain ⟨h1, h2, h3, h4, h5, h6, h7, h8⟩ := h
    have hpc : pd.closed = true := by rw [h2]; exact hc
    have hq := h8 (h6 (hwf hpc)) rfl
    rw [hq] at h4 h5
    exact ⟨hpc, by simpa using h4, by simpa using h5⟩)

/-! ## The standard driver `SendPush::poll` (= `SendSink::poll` over `SinkCompat`) -/

/-- For every push `K` over every downstream `N`, every pull script (items and `Pending`
    placements) and any number of polls: the calls the driver makes on the push honour the
    contract; no `finalize?` happens before every item of the pull was sent (finalize only after
    the pull ended); and when the driver reports `Ready`, the push has answered `finalize? true`
    and has been sent exactly the pull's items, in order. -/
theorem sendPush_protocol (K : Comb κ α β) (N : MPush σ β) (pull : List (Option α)) (k : κ) (s : σ) (n : Nat) :
    let o := drive K N (fun _ => false) n ⟨pull, false, k, s⟩
    ProtoOk o.up ∧
    (∀ pre b post, o.up = pre ++ Ev.fin b :: post → sends pre = items pull) ∧
    (o.ready = true → Closed o.up ∧ sends o.up = items pull) := by
  intro o
  have h0 : DrvInv pull ([] : List (Ev α)) (⟨pull, false, k, s⟩ : DSt κ σ α) {} :=
    ⟨rfl, rfl, by simp, by simp, fun pre b post he => by cases pre <;> simp at he⟩
  obtain ⟨pu, hi, hr⟩ := drive_inv K N n h0
  simp only [List.nil_append] at hi
  refine ⟨ProtoOk_iff.2 ⟨pu, hi.run⟩, hi.finAfter, fun hrd => ?_⟩
  have hc := hr hrd
  have hcl := (PSt.run_closed hi.run).1 hc
  have hwf : pu.WF := PSt.run_wf hi.run (by intro h; cases h)
  have hend : o.st.ended = true := by rw [← hi.started]; exact hwf hc
  have hp := hi.ended hend
  have hrest := hi.rest
  rw [hp] at hrest
  exact ⟨by simpa using hcl, by simpa using hrest⟩

/-- The driver's polls are one call history of the push (so every `Sound` theorem applies). -/
theorem sendPush_is_history (K : Comb κ α β) (N : MPush σ β) (pull : List (Option α)) (k : κ) (s : σ) (n : Nat) :
    let o := drive K N (fun _ => false) n ⟨pull, false, k, s⟩
    K.Tr k o.up o.down o.st.k := by
  intro o
  obtain ⟨cs, h1, h2, h3, _⟩ := drive_isRun K N n ⟨pull, false, k, s⟩
  have := K.run_tr N k s cs
  rw [← h1, ← h2, ← h3] at this
  exact this

/-- End to end: a contract-sound combinator under the standard driver, over any downstream, for
    every pull script and any number of polls: every downstream port sees a contract-honouring
    trace, and when the driver reports `Ready` every port was finalized and received its `spec`
    of the pull's items. -/
theorem sendPush_end_to_end {K : Comb κ α β} {k0 : κ} {ports : List Nat} {spec : Nat → List α → List β → Prop}
    (hK : K.Sound k0 ports spec) (N : MPush σ β) (pull : List (Option α)) (s : σ) (n : Nat) :
    let o := drive K N (fun _ => false) n ⟨pull, false, k0, s⟩
    (∀ i, ProtoOk (port i o.down)) ∧
    (o.ready = true → ∀ i ∈ ports, Closed (port i o.down) ∧ spec i (items pull) (sends (port i o.down))) := by
  intro o
  obtain ⟨hp, _, hr⟩ := sendPush_protocol K N pull k0 s n
  obtain ⟨h1, h2⟩ := hK _ _ _ (sendPush_is_history K N pull k0 s n) hp
  refine ⟨h1, fun hrd i hi => ?_⟩
  obtain ⟨hc, hs⟩ := hr hrd
  have := h2 hc i hi
  rw [hs] at this
  exact this

/-! ## ResolveFutures, non-blocking mode (`subgraph_waker = Some`) — after the F124 fix -/

/-- `ResolveFutures` in non-blocking mode (the code after the F124 fix: `empty_ready` is skipped
    once `poll_finalize` has reached the downstream): for every contract-honouring caller —
    including one that polls `poll_ready` / `poll_finalize` again after finalize was started or
    `Done`, as `FlatMap` / `Fanout` do — the downstream sees a contract-honouring trace (every send
    directly enabled by a `ready? true`, **no send once its finalize was called**), is finalized at
    completion, and has received a part of the expected outputs: nothing else, nothing twice, and
    for the ordered queue a prefix in queue order. What the rest is: `resolveNonblocking_conservation`. -/
theorem resolveFutures_nonblocking_sound (ordered : Bool) (q0 : List (QEntry β)) :
    (resolveC (β := β) ordered true).Sound ⟨q0, false⟩ [0]
      (fun _ ins outs => ∃ rest, (outs ++ rest).Perm (qvals q0 ++ ins.map (·.2)) ∧
        (ordered = true → outs ++ rest = qvals q0 ++ ins.map (·.2))) :=
  (aux_simResolve ordered true q0).sound (aux_invResolve_init ordered true q0) (fun pu k pd su sd h _ hc => by
    obtain ⟨_, h2, _, h4, h5, _⟩ := h
    exact ⟨by rw [h2]; exact hc, qvals k.q, h4, h5⟩)

/-- Conservation in both modes, at every point of every contract-honouring history (not only at
    completion): delivered ++ still queued is a permutation of (initially queued ++ pushed), equal
    to it for the ordered queue — no output is lost or duplicated; unresolved futures of the
    non-blocking mode stay in the (external) queue for a later tick. -/
theorem resolveNonblocking_conservation (ordered waker : Bool) (q0 : List (QEntry β)) {up : List (Ev (Nat × β))}
    {down : List (PEv β)} {k' : ResSt β}
    (ht : (resolveC (β := β) ordered waker).Tr ⟨q0, false⟩ up down k') (hok : ProtoOk up) :
    (sends (port 0 down) ++ qvals k'.q).Perm (qvals q0 ++ (sends up).map (·.2)) ∧
    (ordered = true → sends (port 0 down) ++ qvals k'.q = qvals q0 ++ (sends up).map (·.2)) := by
  obtain ⟨pu, pd, _, _, _, _, h4, h5, _⟩ :=
    (aux_simResolve ordered waker q0).reach (aux_invResolve_init ordered waker q0) ht hok
  exact ⟨h4, h5⟩

/-- The F124 witnesses on the fixed model: (a) under the standard driver with the downstream's
    finalize `Pending` once, a future that resolves in between is *not* sent after `finalize? false`
    (the old code sent it: `0f0 0r1 0s5`); (b) `ready, send, finalize → Done, finalize, finalize`
    (what `Fanout` does to a finished branch): nothing is sent after `finalize? true`. In both the
    future stays queued. -/
example :
    let o := drive (resolveC (β := Nat) true true) leaf (fun _ => false) 3
      ⟨[some (3, 5)], false, ⟨[], false⟩, (⟨[], [[false]], []⟩ : Leaf Nat)⟩
    o.ready = true ∧ sends (port 0 o.down) = [] ∧ o.st.k.q.length = 1 ∧ ProtoOk (port 0 o.down) := by
  unfold ProtoOk; decide

example :
    let r := (resolveC (β := Nat) true true).run leaf ⟨[], false⟩ (⟨[], [], []⟩ : Leaf Nat)
      [.rdy, .snd (3, 5), .fin, .fin, .fin]
    ProtoOk r.up ∧ ProtoOk (port 0 r.down) ∧ sends (port 0 r.down) = [] ∧ r.k.q.length = 1 := by
  unfold ProtoOk; decide

/-- non-vacuity of the non-blocking theorem with an actual delivery: a future that resolves in time
    is delivered before the finalize, under the driver -/
example :
    let o := drive (resolveC (β := Nat) true true) leaf (fun _ => false) 3
      ⟨[some (1, 5), some (9, 6)], false, ⟨[], false⟩, (⟨[], [[false]], []⟩ : Leaf Nat)⟩
    o.ready = true ∧ sends (port 0 o.down) = [5] ∧ o.st.k.q.length = 1 ∧ ProtoOk (port 0 o.down) := by
  unfold ProtoOk; decide

/-! ## Pipelines -/

/-- **Pipelines follow by induction**: `K1` pushing into `K2` (`Comb.comp`: every downstream call
    of `K1` is answered by the corresponding operation of `K2`) is contract-sound when both are;
    the delivered items compose.  `K2` may itself be a composite, a `Fanout`, ... -/
theorem pipeline_compose {K1 : Comb κ1 α β} {K2 : Comb κ2 β γ} {k1 : κ1} {k2 : κ2}
    {S1 : Nat → List α → List β → Prop} {ports : List Nat} {S2 : Nat → List β → List γ → Prop}
    (h1 : K1.Sound k1 [0] S1) (hm : K1.Mono k1) (h2 : K2.Sound k2 ports S2) :
    (K1.comp K2).Sound (k1, k2) ports (fun i ins outs => ∃ mid, S1 0 ins mid ∧ S2 i mid outs) :=
  comp_sound h1 hm h2

/-- the single-downstream combinators only ever talk to port 0 (needed to chain them) -/
theorem single_port_combinators :
    (∀ g : α → Option β, (filterMapC g).Mono ()) ∧ (∀ f : α → List β, (flatMapC f).Mono []) ∧
    (inspectC (α := α)).Mono [] ∧
    (∀ (step : S → α → S) (it : S → List β) (st0 : S), (accumulateC step it).Mono (.acc st0)) ∧
    (∀ le : α → α → Bool, (sortC le).Mono ⟨[], false⟩) ∧
    (∀ (buf0 : List α) (replay : Bool), (persistC (α := α)).Mono (PersistSt.new buf0 replay)) ∧
    (fmaC (β := β)).Mono ⟨none, none⟩ ∧ (fmsC (β := β)).Mono none ∧
    (∀ (o w : Bool) (q0 : List (QEntry β)), (resolveC (β := β) o w).Mono ⟨q0, false⟩) :=
  ⟨fun g => (aux_simFM g).mono ⟨by simp, rfl, by simp, rfl⟩,
   fun f => (aux_simFlat f).mono ⟨by simp, rfl, by simp, by simp, rfl⟩,
   aux_simInspect.mono ⟨by simp, rfl, by simp, rfl, rfl⟩,
   fun step it st0 => (aux_simAcc step it st0).mono ⟨rfl, rfl, rfl, rfl, rfl⟩,
   fun le => (aux_simSort le).mono ⟨rfl, rfl, rfl, rfl, rfl⟩,
   fun buf0 replay => (aux_simPersist buf0 (PersistSt.new buf0 replay).idx).mono
     ⟨by simp, rfl, by simp [PersistSt.new], by simp [PersistSt.new], by simp, by simp⟩,
   aux_simFma.mono ⟨by simp, rfl, by simp [fmaPend], by simp, by simp, by simp⟩,
   aux_simFms.mono ⟨by simp, rfl, by simp [fmsPend], by simp, by simp⟩,
   fun o w q0 => (aux_simResolve o w q0).mono (aux_invResolve_init o w q0)⟩

theorem keyed_single_port [DecidableEq K] (ins : V → A) (upd : A → V → A) (order : List (K × A) → List (K × A))
    (m0 : List (K × A)) : (keyedC ins upd order).Mono ⟨m0, [], 0⟩ :=
  (aux_simKeyed ins upd order m0).mono ⟨rfl, rfl, rfl, rfl, rfl, rfl⟩

/-- A worked pipeline: `map f → flat_map g → persist(replay) → fanout`, under the standard driver,
    over any two downstreams with any pending patterns, for every pull script and poll count:
    both ends see contract-honouring traces and, at `Ready`, both were finalized and received
    `buf0 ++ flatMap g (map f items)`. -/
theorem pipeline_example (f : α → β) (g : β → List γ) (buf0 : List γ) (N : MPush σ γ) (s : σ)
    (pull : List (Option α)) (n : Nat) :
    let K := (mapC f).comp ((flatMapC g).comp ((persistC (α := γ)).comp fanoutC))
    let o := drive K N (fun _ => false) n ⟨pull, false, ((), ([], (PersistSt.new buf0 true, ()))), s⟩
    (∀ i, ProtoOk (port i o.down)) ∧
    (o.ready = true → ∀ i ∈ [0, 1], Closed (port i o.down) ∧
      sends (port i o.down) = buf0 ++ ((items pull).map f).flatMap g) := by
  intro K o
  have hp : (persistC (α := γ)).Mono (PersistSt.new buf0 true) := (single_port_combinators (α := γ) (β := γ) (S := Unit)).2.2.2.2.2.1 buf0 true
  have hf : (flatMapC g).Mono [] := (single_port_combinators (α := β) (β := γ) (S := Unit)).2.1 g
  have hm : (mapC f).Mono () := (single_port_combinators (α := α) (β := β) (S := Unit)).1 _
  have s3 := pipeline_compose (persist_sound buf0 true) hp (fanout_sound (α := γ))
  have s2 := pipeline_compose (flatMap_sound g) hf s3
  have s1 := pipeline_compose (map_sound f) hm s2
  obtain ⟨h1, h2⟩ := sendPush_end_to_end s1 N pull s n
  refine ⟨h1, fun hr i hi => ?_⟩
  obtain ⟨hc, m1, e1, m2, e2, m3, e3, e4⟩ := h2 hr i hi
  refine ⟨hc, ?_⟩
  rw [e4, e3, e2, e1]; simp

/-- **Tree-shaped pipelines follow by induction too**: a contract-sound two-port combinator feeding
    two contract-sound sub-pipelines (`Comb.comp2`: port 0 → `Ka`, port 1 → `Kb`, whose ports are
    renumbered after `Ka`'s `na` ports) is contract-sound. -/
theorem pipeline_compose2 {K1 : Comb κ1 α β} {Ka : Comb κa β γ} {Kb : Comb κb β γ} {k1 : κ1} {ka : κa} {kb : κb}
    {na : Nat} {S1 : Nat → List α → List β → Prop} {pA pB : List Nat} {SA SB : Nat → List β → List γ → Prop}
    (h1 : K1.Sound k1 [0, 1] S1) (h1b : K1.Below k1 2)
    (hA : Ka.Sound ka pA SA) (hAb : Ka.Below ka na) (hpA : ∀ i ∈ pA, i < na) (hB : Kb.Sound kb pB SB) :
    (K1.comp2 Ka Kb na).Sound (k1, ka, kb) (pA ++ pB.map (· + na))
      (fun i ins outs => if i < na then ∃ mid, S1 0 ins mid ∧ SA i mid outs
        else ∃ mid, S1 1 ins mid ∧ SB (i - na) mid outs) :=
  comp2_sound h1 h1b hA hAb hpA hB

theorem fanout_below : (fanoutC : Comb Unit α α).Below () 2 := by
  rw [aux_fanout_eq_route]; exact route_below 2 _

theorem unzip_below : (unzipC : Comb Unit (β × β) β).Below () 2 := by
  rw [aux_unzip_eq_route]; exact route_below 2 _

/-- The F123 shape as a theorem about the fixed code: `fanout(map key → fold_keyed(A), B)` — with
    `B`'s finalize pending arbitrarily often (so the finished keyed branch is polled again after
    `Done`) `A` still receives every (key, acc) pair exactly once and nothing after its finalize. -/
theorem pipeline_tree_example [DecidableEq K] (key : α → K × V) (init : A) (comb : A → V → A)
    (order : List (K × A) → List (K × A)) (m0 : List (K × A)) (inA : K × A → γ) (inB : α → γ) :
    let Ka := ((mapC key).comp (foldKeyedC init comb order)).comp (mapC inA)
    let P := (fanoutC (α := α)).comp2 Ka (mapC inB) 1
    P.Sound ((), (((), ⟨m0, [], 0⟩), ()), ()) [0, 1]
      (fun i ins outs => if i = 0 then outs = (order (keyedMap (fun v => comb init v) comb m0 (ins.map key))).map inA
        else outs = ins.map inB) := by
  intro Ka P
  have hmk : (mapC key).Mono () := (single_port_combinators (α := α) (β := K × V) (S := Unit)).1 _
  have hmA : (mapC inA).Mono () := (single_port_combinators (α := K × A) (β := γ) (S := Unit)).1 _
  have sK := pipeline_compose (map_sound key) hmk (foldKeyed_sound init comb order m0)
  have mK := comp_mono (map_sound key) hmk (keyed_single_port (fun v => comb init v) comb order m0)
  have sA := pipeline_compose sK mK (map_sound inA)
  have mA := comp_mono sK mK hmA
  have h := pipeline_compose2 (fanout_sound (α := α)) fanout_below sA mA.below (by simp) (map_sound inB)
  intro up down k' ht hok
  obtain ⟨g1, g2⟩ := h up down k' ht hok
  refine ⟨g1, fun hc i hi => ?_⟩
  simp only [List.mem_cons, List.mem_nil_iff, or_false] at hi
  rcases hi with rfl | rfl
  · obtain ⟨c, m1, e1, m2, ⟨m3, e3, e4⟩, e5⟩ := g2 hc 0 (by simp)
    refine ⟨c, ?_⟩
    simp only [if_true]
    rw [e5, e4, e3, e1]
  · obtain ⟨c, hs⟩ := g2 hc 1 (by simp)
    refine ⟨c, ?_⟩
    simp only [Nat.lt_irrefl, if_false, Nat.sub_self] at hs
    obtain ⟨m1, e1, e2⟩ := hs
    simp only [Nat.succ_ne_zero, if_false]
    rw [e2, e1]

/-! ## Non-vacuity: concrete instances -/

/-- a contract-honouring trace with pendings, and violating ones -/
example : ProtoOk [Ev.rdy true, Ev.snd 1, Ev.rdy false, Ev.rdy true, Ev.snd 2, Ev.fin false, Ev.rdy true, Ev.fin true] := by unfold ProtoOk; decide
example : ¬ ProtoOk [Ev.rdy true, Ev.snd 1, Ev.snd 2] := by unfold ProtoOk; decide
example : ¬ ProtoOk [Ev.rdy true, Ev.fin false, Ev.snd 2] := by unfold ProtoOk; decide
example : ¬ ProtoOk [Ev.rdy true, Ev.rdy false, Ev.snd 2] := by unfold ProtoOk; decide

/-- `flat_map` (x ↦ [x, x+10]) under the driver over a scripted leaf whose second `ready?` pends,
    pull = [1, Pending, 2]: the buffered `11` survives the pending; four polls complete. -/
example :
    let o := drive (flatMapC fun x : Nat => [x, x + 10]) leaf (fun _ => false) 5
      ⟨[some 1, none, some 2], false, [], (⟨[[true, false]], [[false]], []⟩ : Leaf Nat)⟩
    o.ready = true ∧ sends (port 0 o.down) = [1, 11, 2, 12] ∧ o.st.s.tr = o.down := by decide

/-- the F121 witness on the (fixed) model: the resolved item survives two downstream pendings -/
example :
    let o := drive (fmaC (β := Nat)) leaf (fun _ => false) 4
      ⟨[some (0, some 7)], false, ⟨none, none⟩, (⟨[[false, false]], [], []⟩ : Leaf Nat)⟩
    o.ready = true ∧ sends (port 0 o.down) = [7] := by decide

end HvPush
