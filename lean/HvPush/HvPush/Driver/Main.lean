/-
`hvdrv_push`: line-protocol driver for the C12 model.  One output line per input line; the
protocol is described in `harness/hv_push/src/main.rs`.
-/
import HvPush.Model.Core
import HvPush.Model.Combs
import HvPush.Model.SendPush
open HvPush

inductive Val where
  | int (n : Int)
  | pair (a b : Int)
  | idx (i : Nat) (x : Int)
  | list (l : List Int)
  | fut (d : Nat) (v : Option Int)
  | stream (s : List (Option Int))
  | set (l : List Int)

def showInts (l : List Int) : String := ",".intercalate (l.map toString)
def showIntsDash (l : List Int) : String := if l.isEmpty then "-" else showInts l

def Val.show : Val → String
  | .int n => toString n
  | .pair a b => s!"{a}:{b}"
  | .idx i x => s!"{i}:{x}"
  | .list l => s!"[{showInts l}]"
  | .fut d v => s!"d{d}:{match v with | some x => toString x | none => "-"}"
  | .stream _ => "stream"
  | .set l => "{" ++ showInts l ++ "}"

/-! parsers (mirror `p_*` of the harness) -/
def pI (s : String) : Option Int :=
  match s.toInt? with
  | some v => if v.natAbs > 1000 then none else some v
  | none => none
def pPair (s : String) : Option (Int × Int) :=
  match s.splitOn ":" with
  | [a, b] => do let x ← pI a; let y ← pI b; pure (x, y)
  | _ => none
def pIdx (s : String) : Option (Nat × Int) :=
  match s.splitOn ":" with
  | [a, b] => do
    let i ← a.toNat?
    if i > 50 then none else
    let y ← pI b
    pure (i, y)
  | _ => none
def stripBr (s : String) (l r : Char) : Option String :=
  if s.length ≥ 2 && s.front == l && s.back == r then some ((s.drop 1).dropEnd 1).toString else none
def pList (s : String) : Option (List Int) := do
  let inner ← stripBr s '[' ']'
  if inner.isEmpty then pure [] else (inner.splitOn ",").mapM pI
def pFut (s : String) : Option (Nat × Option Int) :=
  if s.front != 'd' then none else
  match (s.drop 1).toString.splitOn ":" with
  | [a, b] => do
    let k ← a.toNat?
    if k > 20 then none else
    if b == "-" then pure (k, none) else do let v ← pI b; pure (k, some v)
  | _ => none
def pStream (s : String) : Option (List (Option Int)) := do
  let inner ← stripBr s '[' ']'
  if inner.isEmpty then pure [] else
    (inner.splitOn ",").mapM fun t => if t == "." then some none else (pI t).map some
def pBits (s : String) : Option (List Bool) :=
  if s == "-" then some [] else
    s.toList.mapM fun c => if c == '0' then some false else if c == '1' then some true else none

/-! the fixed closures (mirror `f_*` of the harness) -/
def fMap (x : Int) : Int := 2 * x + 1
def pFilter (x : Int) : Bool := x % 2 == 0
def fFilterMap (x : Int) : Option Int := if x % 3 == 0 then none else some (x + 100)
def fFlat (x : Int) : List Int := (List.range (x % 3).toNat).map fun (j : Nat) => x * 10 + (j : Int)
def fFold (a x : Int) : Int := a * 2 + x

def insertSorted (x : Int) : List Int → List Int × Bool
  | [] => ([x], true)
  | y :: ys => if x < y then (x :: y :: ys, true) else if x == y then (y :: ys, false) else
      let r := insertSorted x ys; (y :: r.1, r.2)

structure Machine where
  κ : Type
  K : Comb κ Val Val
  k : κ
  aux : κ → String
  parse : String → Option Val
  bad : Val → Bool := fun _ => false
  keyed : Nat → Bool := fun _ => false
  ports : Nat

abbrev Cfg := String × List (String × String)
def Cfg.get (c : Cfg) (k : String) : Option String := (c.2.reverse.lookup k)
def Cfg.flag (c : Cfg) (k : String) : Bool := c.get k == some "1"

def parseCsv (c : Cfg) (k : String) : Option (List Int) :=
  match c.get k with
  | none => some []
  | some "-" => some []
  | some s => (s.splitOn ",").mapM pI
def parseMap (c : Cfg) (k : String) : Option (List (Int × Int)) :=
  match c.get k with
  | none => some []
  | some "-" => some []
  | some s => do
    let ps ← (s.splitOn ",").mapM pPair
    pure (ps.foldl (fun m p => upsert (fun v => v) (fun _ v => v) m p.1 p.2) [])
def parseInit (c : Cfg) : Option (Option Int) :=
  match c.get "init" with
  | none => some none
  | some s => (pI s).map some

def intV : Val → Option Int
  | .int n => some n
  | _ => none
def pInt (s : String) : Option Val := (pI s).map .int

def portsOf (c : Cfg) : Option Nat :=
  if ["map", "filter", "filter_map", "inspect", "flat_map", "flatten", "fold", "fold_ref", "reduce", "reduce_ref",
      "sortacc", "sort", "fold_keyed", "reduce_keyed", "persist", "resolve", "fma", "fms", "flatten_stream", "sink",
      "mutref"].contains c.1 then some 1
  else if ["fanout", "unzip", "state"].contains c.1 then some 2
  else if c.1 == "demux" then
    match (c.get "n").bind String.toNat? with
    | some n => if 1 ≤ n && n ≤ 3 then some n else none
    | none => none
  else if ["for_each", "vec_push"].contains c.1 then some 0
  else if c.1 == "pipe" then
    match c.get "id" with
    | some "1" => some 1
    | some "2" => some 1
    | some "3" => some 2
    | some "4" => some 2
    | some "5" => some 2
    | _ => none
  else none

def sortedPairs (m : List (Int × Int)) : List (Int × Int) :=
  m.mergeSort fun a b => a.1 ≤ b.1
def showMap (m : List (Int × Int)) : String :=
  if m.isEmpty then "-" else ",".intercalate ((sortedPairs m).map fun p => s!"{p.1}:{p.2}")

def phaseAux (f : S → String) : AccPhase S β → String := fun p => f p.ext

def mkMachine (c : Cfg) : Option Machine :=
  match portsOf c with
  | none => none
  | some np =>
  let noAux {κ : Type} : κ → String := fun _ => "-"
  match c.1 with
  | "map" | "mutref" => pure { κ := Unit, K := (mapC fMap).adapt intV .int, k := (), aux := noAux, parse := pInt, ports := np }
  | "filter" => pure { κ := Unit, K := (filterC pFilter).adapt intV .int, k := (), aux := noAux, parse := pInt, ports := np }
  | "filter_map" => pure { κ := Unit, K := (filterMapC fFilterMap).adapt intV .int, k := (), aux := noAux, parse := pInt, ports := np }
  | "sink" => pure { κ := Unit, K := (idC (α := Int)).adapt intV .int, k := (), aux := noAux, parse := pInt, ports := np }
  | "inspect" => pure { κ := List Int, K := (inspectC (α := Int)).adapt intV .int, k := [], aux := showIntsDash, parse := pInt, ports := np }
  | "flat_map" => pure { κ := List Int, K := (flatMapC fFlat).adapt intV .int, k := [], aux := noAux, parse := pInt, ports := np }
  | "flatten" => pure { κ := List Int, K := (flattenC (β := Int)).adapt (fun | .list l => some l | _ => none) .int, k := [],
                        aux := noAux, parse := fun s => (pList s).map .list, ports := np }
  | "fanout" => pure { κ := Unit, K := (fanoutC (α := Int)).adapt intV .int, k := (), aux := noAux, parse := pInt, ports := np }
  | "unzip" => pure { κ := Unit, K := (unzipC (β := Int)).adapt (fun | .pair a b => some (a, b) | _ => none) .int, k := (),
                      aux := noAux, parse := fun s => (pPair s).map fun p => .pair p.1 p.2, ports := np }
  | "demux" => pure { κ := Unit, K := (demuxC (β := Int) np).adapt (fun | .idx i x => some (i, x) | _ => none) .int, k := (),
                      aux := noAux, parse := fun s => (pIdx s).map fun p => .idx p.1 p.2,
                      bad := fun | .idx i _ => !(i < np) | _ => false, ports := np }
  | "fold" | "fold_ref" =>
    match parseInit c with
    | none => none
    | some init =>
    pure { κ := AccPhase Int Int, K := (foldC fFold).adapt intV .int, k := .acc (init.getD 0),
           aux := if c.1 == "fold_ref" then phaseAux toString else noAux, parse := pInt, ports := np }
  | "reduce" | "reduce_ref" =>
    match parseInit c with
    | none => none
    | some init =>
    pure { κ := AccPhase (Option Int) Int, K := (reduceC fFold).adapt intV .int, k := .acc init,
           aux := if c.1 == "reduce_ref" then phaseAux (fun o => match o with | some v => toString v | none => "none") else noAux,
           parse := pInt, ports := np }
  | "sortacc" => pure { κ := AccPhase (List Int) Int, K := (sortAccC (fun a b : Int => a ≤ b)).adapt intV .int, k := .acc [],
                        aux := noAux, parse := pInt, ports := np }
  | "sort" => pure { κ := SortSt Int, K := (sortC (fun a b : Int => a ≤ b)).adapt intV .int, k := ⟨[], false⟩,
                     aux := noAux, parse := pInt, ports := np }
  | "fold_keyed" =>
    match parseMap c "map" with
    | none => none
    | some m =>
    pure { κ := KeyedSt Int Int, K := (foldKeyedC (K := Int) 0 fFold id).adapt (fun | .pair a b => some (a, b) | _ => none) (fun p => .pair p.1 p.2),
           k := ⟨m, [], 0⟩, aux := fun k => showMap k.map, parse := fun s => (pPair s).map fun p => .pair p.1 p.2, keyed := fun _ => true, ports := np }
  | "reduce_keyed" =>
    match parseMap c "map" with
    | none => none
    | some m =>
    pure { κ := KeyedSt Int Int, K := (reduceKeyedC (K := Int) fFold id).adapt (fun | .pair a b => some (a, b) | _ => none) (fun p => .pair p.1 p.2),
           k := ⟨m, [], 0⟩, aux := fun k => showMap k.map, parse := fun s => (pPair s).map fun p => .pair p.1 p.2, keyed := fun _ => true, ports := np }
  | "persist" =>
    match parseCsv c "buf" with
    | none => none
    | some buf =>
    pure { κ := PersistSt Int, K := (persistC (α := Int)).adapt intV .int, k := PersistSt.new buf (c.flag "replay"),
           aux := fun k => showIntsDash k.buf, parse := pInt, ports := np }
  | "resolve" =>
    match (match c.get "q" with
      | none => some []
      | some "-" => some []
      | some s => (s.splitOn ",").mapM fun t => match pFut t with
        | some (d, some v) => some (⟨d, v, false⟩ : QEntry Int)
        | _ => none) with
    | none => none
    | some pre =>
    pure { κ := ResSt Int, K := (resolveC (β := Int) (c.get "ord" != some "0") (c.flag "waker")).adapt
             (fun | .fut d (some v) => some (d, v) | _ => none) .int,
           k := ⟨pre, false⟩, aux := fun k => toString k.q.length,
           parse := fun s => match pFut s with | some (d, some v) => some (.fut d (some v)) | _ => none, ports := np }
  | "fma" => pure { κ := FmaSt Int, K := (fmaC (β := Int)).adapt (fun | .fut d v => some (d, v) | _ => none) .int, k := ⟨none, none⟩,
                    aux := noAux, parse := fun s => (pFut s).map fun p => .fut p.1 p.2, ports := np }
  | "fms" | "flatten_stream" =>
    pure { κ := FmsSt Int, K := (fmsC (β := Int)).adapt (fun | .stream s => some s | _ => none) .int, k := none,
           aux := noAux, parse := fun s => (pStream s).map .stream, ports := np }
  | "for_each" => pure { κ := List Int, K := (collectC (α := Int)).adapt intV .int, k := [], aux := showIntsDash, parse := pInt, ports := np }
  | "vec_push" =>
    match parseCsv c "buf" with
    | none => none
    | some buf =>
    pure { κ := List Int, K := (collectC (α := Int)).adapt intV .int, k := buf, aux := showIntsDash, parse := pInt, ports := np }
  | "pipe" =>
    match c.get "id" with
    | some "1" =>
      match parseCsv c "buf" with
      | none => none
      | some buf =>
      let K := (mapC fMap).comp ((flatMapC fFlat).comp ((persistC (α := Int)).comp (sortC (fun a b : Int => a ≤ b))))
      pure { κ := Unit × List Int × PersistSt Int × SortSt Int, K := K.adapt intV .int,
             k := ((), [], PersistSt.new buf true, ⟨[], false⟩), aux := fun k => showIntsDash k.2.2.1.buf, parse := pInt, ports := np }
    | some "2" =>
      let K := (filterC pFilter).comp ((flatMapC fFlat).comp (foldC fFold))
      pure { κ := Unit × List Int × AccPhase Int Int, K := K.adapt intV .int, k := ((), [], .acc 0), aux := noAux, parse := pInt, ports := np }
    | some "3" =>
      let K := (flatMapC fFlat).comp (fanoutC.comp2 (idC (α := Int)) (filterMapC fFilterMap) 1)
      pure { κ := List Int × Unit × Unit × Unit, K := K.adapt intV .int, k := ([], (), (), ()), aux := noAux, parse := pInt, ports := np }
    | some "4" =>
      match parseMap c "map" with
      | none => none
      | some m =>
      let Ka : Comb (Unit × KeyedSt Int Int) Int Val :=
        ((mapC (fun x : Int => (x % 2, x))).comp (foldKeyedC (K := Int) 0 fFold id)).adapt some (fun p => .pair p.1 p.2)
      let Kb : Comb Unit Int Val := (idC (α := Int)).adapt some .int
      let K := (fanoutC (α := Int)).comp2 Ka Kb 1
      pure { κ := Unit × (Unit × KeyedSt Int Int) × Unit, K := K.adapt intV id, k := ((), ((), ⟨m, [], 0⟩), ()),
             aux := fun k => showMap k.2.1.2.map, parse := pInt, keyed := fun p => p == 0, ports := np }
    | some "5" =>
      let Ka : Comb (Unit × ResSt Int) Int Int :=
        (mapC (fun x : Int => ((x % 4).toNat, x))).comp (resolveC (β := Int) true true)
      let K := (fanoutC (α := Int)).comp2 Ka (idC (α := Int)) 1
      pure { κ := Unit × (Unit × ResSt Int) × Unit, K := K.adapt intV .int, k := ((), ((), ⟨[], false⟩), ()),
             aux := fun k => toString k.2.1.2.q.length, parse := pInt, ports := np }
    | _ => none
  | "state" =>
    match parseCsv c "st" with
    | none => none
    | some st =>
    let s0 := st.foldl (fun acc x => (insertSorted x acc).1) []
    pure { κ := StateSt (List Int), K := stateC (fun l (x : Int) => insertSorted x l) Val.int Val.set |>.adapt intV id, k := ⟨s0, false⟩,
           aux := fun k => (Val.set k.st).show, parse := pInt, ports := np }
  | _ => none

structure CaseSt where
  cfg : Option Cfg := none
  downs : List (List Bool × List Bool) := [([], []), ([], []), ([], [])]
  pull : Option (List String) := none
  mach : Option Machine := none
  mode : Nat := 0            -- 0 = not built, 1 = manual, 2 = driver
  lf : Leaf Val := ⟨[], [], []⟩
  dpull : List (Option Val) := []
  dended : Bool := false
  dead : Bool := false
  ended : Bool := false
  driverDone : Bool := false

def showEvents (keyed : Nat → Bool) (es : List (PEv Val)) : String :=
  if es.isEmpty then "-" else
    " ".intercalate (es.map fun e => match e.2 with
      | .rdy b => s!"{e.1}r{if b then 1 else 0}"
      | .snd x => if keyed e.1 then s!"{e.1}s*" else s!"{e.1}s{x.show}"
      | .fin b => s!"{e.1}f{if b then 1 else 0}")

def setAt (l : List α) (i : Nat) (x : α) : List α := l.set i x

/-- build the machine in the requested mode; `none` = the harness answers `bad-op` -/
def ensureBuilt (st : CaseSt) (driver : Bool) : Option CaseSt :=
  if st.mode != 0 then (if (st.mode == 2) == driver then some st else none) else
    match st.cfg with
    | none => none
    | some c =>
    if driver && st.pull.isNone then none else
    match mkMachine c with
    | none => none
    | some m =>
    let lf : Leaf Val := ⟨st.downs.map (·.1), st.downs.map (·.2), []⟩
    if driver then
      let toks := st.pull.getD []
      match toks.mapM (fun t => if t == "." then some none else (m.parse t).map some) with
      | none => none
      | some script => some { st with mach := some m, mode := 2, lf := lf, dpull := script }
    else
      some { st with mach := some m, mode := 1, lf := lf }

def step (st : CaseSt) (line : String) : CaseSt × String :=
  let l := line.trimAscii.toString
  match l.splitOn " " with
  | "#case" :: _ => ({}, l)
  | ws =>
    if st.ended then (st, "bad-op") else
    match ws with
    | "cfg" :: name :: rest =>
      if st.cfg.isSome then (st, "bad-op") else
      match rest.mapM (fun kv => match kv.splitOn "=" with
          | k :: v :: more => if k.isEmpty then none else some (k, "=".intercalate (v :: more))
          | _ => none) with
      | none => (st, "bad-op")
      | some kvs =>
        let c : Cfg := (name, kvs)
        if (portsOf c).isNone then (st, "bad-op") else ({ st with cfg := some c }, "ok")
    | ["down", p, r, f] =>
      if st.mode != 0 then (st, "bad-op") else
      match p.toNat?, pBits r, pBits f with
      | some p, some r, some f => if p < 3 then ({ st with downs := setAt st.downs p (r, f) }, "ok") else (st, "bad-op")
      | _, _, _ => (st, "bad-op")
    | "pull" :: toks =>
      if st.mode != 0 || st.pull.isSome then (st, "bad-op") else
      ({ st with pull := some (toks.filter (fun t => !t.isEmpty)) }, "ok")
    | ["poll"] =>
      if st.dead then (st, "dead") else
      if st.driverDone then (st, "done") else
      match ensureBuilt st true with
      | none => (st, "bad-op")
      | some st =>
        match st.mach with
        | none => (st, "bad-op")
        | some m =>
          let o := drvPoll m.K leaf m.bad ⟨st.dpull, st.dended, m.k, st.lf⟩
          let st' := { st with mach := some { m with k := o.st.k }, lf := o.st.s, dpull := o.st.pull, dended := o.st.ended }
          if o.panicked then ({ st' with dead := true }, s!"panic {showEvents m.keyed o.down}")
          else ({ st' with driverDone := o.ready }, s!"{if o.ready then "R" else "P"} {showEvents m.keyed o.down}")
    | [op] =>
      if op == "end" then
        let aux := match st.mach with
          | some m => m.aux m.k
          | none => "-"
        ({ st with ended := true }, aux)
      else if op == "rdy" || op == "fin" then
        if st.dead then (st, "dead") else
        match ensureBuilt st false with
        | none => (st, "bad-op")
        | some st =>
          match st.mach with
          | none => (st, "bad-op")
          | some m =>
            let r := m.K.exec leaf m.k st.lf (if op == "rdy" then .rdy else .fin)
            let b := match r.ev with | .rdy b => b | .fin b => b | _ => false
            ({ st with mach := some { m with k := r.k }, lf := r.s }, s!"{if b then 1 else 0} {showEvents m.keyed r.down}")
      else (st, "bad-op")
    | ["snd", tok] =>
      if st.dead then (st, "dead") else
      match ensureBuilt st false with
      | none => (st, "bad-op")
      | some st =>
        match st.mach with
        | none => (st, "bad-op")
        | some m =>
          match m.parse tok with
          | none => (st, "bad-op")
          | some x =>
            if m.bad x then ({ st with dead := true }, "panic -") else
            let r := m.K.exec leaf m.k st.lf (.snd x)
            ({ st with mach := some { m with k := r.k }, lf := r.s }, s!"ok {showEvents m.keyed r.down}")
    | _ => (st, "bad-op")

partial def loop (h : IO.FS.Stream) (out : IO.FS.Stream) (st : CaseSt) : IO Unit := do
  let line ← h.getLine
  if line.isEmpty then return ()
  let (st', o) := step st line
  out.putStrLn o
  loop h out st'

def main : IO Unit := do
  let stdin ← IO.getStdin
  let stdout ← IO.getStdout
  loop stdin stdout {}
