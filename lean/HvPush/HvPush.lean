import HvPush.Model.Core
import HvPush.Model.Combs
import HvPush.Model.SendPush
