/-
`hvdrv_tick`: line-protocol driver for the HvTick models.  One output line per input line.

  #case <n> <tags…>      reset; the family is chosen by the first tag-independent op line that follows
C27 (wake protocol):
  v <acts>               the runner is at a program point; prints `<point> t=<ticks> f=<flag> n=<notified>`,
                         then applies the injected actions (`-` none; W = store+notify, S = store, N = notify)
                         and one runner step
  end                    prints `end pc=<point> t=<ticks> ct=<ticks>`
Anything else -> bad-op.
-/
import HvTick.Model.Wake
open HvTick

structure DSt where
  wake : Wake.St

def DSt.fresh : DSt := ⟨Wake.init⟩

def b01 (b : Bool) : String := if b then "1" else "0"

def applyActs (s : Wake.St) : List Char → Option Wake.St
  | [] => some s
  | 'W' :: cs => applyActs (Wake.step .real (Wake.step .real s .store) .notify) cs
  | 'S' :: cs => applyActs (Wake.step .real s .store) cs
  | 'N' :: cs => applyActs (Wake.step .real s .notify) cs
  | _ :: _ => none

def step (st : DSt) (line : String) : DSt × String :=
  let l := line.trimAscii.toString
  match l.splitOn " " with
  | "#case" :: _ => (DSt.fresh, l)
  | ["v", acts] =>
    let s := st.wake
    let shown := s!"{s.pc.name} t={s.ticks} f={b01 s.flag} n={b01 s.notified}"
    let r := if acts == "-" then some s else if acts.isEmpty then none else applyActs s acts.toList
    match r with
    | some s' => ({ st with wake := Wake.step .real s' .run }, shown)
    | none => (st, "bad-op")
  | ["end"] =>
    let s := st.wake
    (st, s!"end pc={s.pc.name} t={s.ticks} ct={s.ticks}")
  | _ => (st, "bad-op")

partial def loop (h : IO.FS.Stream) (out : IO.FS.Stream) (st : DSt) : IO Unit := do
  let line ← h.getLine
  if line.isEmpty then return ()
  let (st', o) := step st line
  out.putStrLn o
  loop h out st'

def main : IO Unit := do
  let stdin ← IO.getStdin
  let stdout ← IO.getStdout
  loop stdin stdout DSt.fresh
