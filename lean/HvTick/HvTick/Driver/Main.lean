/-
`hvdrv_tick`: line-protocol driver for the HvTick models.  One output line per input line.

  #case <n> <tags…>      reset; the family is chosen by the first tag-independent op line that follows
C27 (wake protocol):
  v <acts>               the runner is at a program point; prints `<point> t=<ticks> f=<flag> n=<notified>`,
                         then applies the injected actions (`-` none; W = store+notify, S = store, N = notify)
                         and one runner step
  end                    prints `end pc=<point> t=<ticks> ct=<ticks>`
C24 (ticks; `#case n prog=<stages>` or `#case n arith …`): see harness/hv_tick/src/c24.rs for the op list
  send v,v | tick [k:v,v …] | avail [k:v,v …] | iadd/isub/idiff/dadd/dsub/dneg
Anything else -> bad-op.
-/
import HvTick.Model.Wake
import HvTick.Model.Tick
import HvTick.Model.Ticks
import HvTick.Model.Loop
import HvTick.Model.Refs
import HvTick.Gen.TickEnd
open HvTick

structure DSt where
  wake : Wake.St
  /-- C24: the program instance of the case (none for arithmetic cases) -/
  tick : Option Tick.RSt := none
  /-- C26: loop program instance, and the two source queues -/
  loop : Option Loop.RSt := none
  q1 : List Int := []
  q2 : List Int := []
  /-- C25: reference program -/
  refs : Option Refs.Prog := none

def DSt.fresh : DSt := ⟨Wake.init, none, none, [], [], none⟩

/-! ### C24 -/

def parseStage (w : String) : Option Tick.Stage :=
  match w.toList with
  | ['D'] => some (.defer false)
  | ['L'] => some (.defer true)
  | 'M' :: r => (String.ofList r).toInt?.map .map
  | ['U', 's'] => some (.unique true)
  | ['U', 't'] => some (.unique false)
  | 'T' :: r => (String.ofList r).toNat?.map .tap
  | 'C' :: r => (String.ofList r).toInt?.map (.cycle false)
  | 'K' :: r => (String.ofList r).toInt?.map (.cycle true)
  | 'F' :: 's' :: r => (String.ofList r).toNat?.map (.fold true)
  | 'F' :: 't' :: r => (String.ofList r).toNat?.map (.fold false)
  | _ => none

def parseProg (tags : List String) : Option (List Tick.Stage) :=
  match tags.filterMap (fun w => if w.startsWith "prog=" then some (w.drop 5).toString else none) with
  | d :: _ => (d.splitOn ",").mapM parseStage
  | [] => none

def parseVals (s : String) : Option (List Int) :=
  if s.isEmpty then none else (s.splitOn ",").mapM (fun p => p.toInt?)

def parseInj : List String → Option (List (Nat × List Int))
  | [] => some []
  | w :: ws =>
    match w.splitOn ":" with
    | [k, v] =>
      match k.toNat?, parseVals v, parseInj ws with
      | some k, some vs, some rest => if rest.any (·.1 == k) then none else some ((k, vs) :: rest)
      | _, _, _ => none
    | _ => none

def insertSorted (x : Int) : List Int → List Int
  | [] => [x]
  | y :: ys => if x ≤ y then x :: y :: ys else y :: insertSorted x ys

def sortInts (l : List Int) : List Int := l.foldl (fun acc x => insertSorted x acc) []

def showTaps (recs : List (Nat × List Int)) : String :=
  let taps := (recs.map (·.1)).eraseDups
  let tapsSorted := (sortInts (taps.map Int.ofNat)).map Int.toNat
  let parts := tapsSorted.filterMap fun t =>
    let vs := sortInts ((recs.filter (·.1 == t)).flatMap (·.2))
    if vs.isEmpty then none else some s!"{t}:{",".intercalate (vs.map toString)}"
  if parts.isEmpty then "-" else "|".intercalate parts

def parseU64 (s : String) : Option UInt64 :=
  match s.toNat? with
  | some n => if n < 2 ^ 64 then some (UInt64.ofNat n) else none
  | none => none

def parseI64 (s : String) : Option Int64 :=
  match s.toInt? with
  | some n => if -(2 ^ 63) ≤ n ∧ n < 2 ^ 63 then some (Int64.ofInt n) else none
  | none => none

def showOptU (r : Option UInt64) : String := match r with | some v => toString v.toNat | none => "panic"
def showOptI (r : Option Int64) : String := match r with | some v => toString v.toInt | none => "panic"

def arith (ws : List String) : Option String :=
  match ws with
  | ["iadd", a, d] => do let a ← parseU64 a; let d ← parseI64 d; pure (showOptU (Ticks.instAdd a d))
  | ["isub", a, d] => do let a ← parseU64 a; let d ← parseI64 d; pure (showOptU (Ticks.instSubDur a d))
  | ["idiff", a, b] => do let a ← parseU64 a; let b ← parseU64 b; pure (showOptI (Ticks.instDiff a b))
  | ["dadd", a, b] => do let a ← parseI64 a; let b ← parseI64 b; pure (showOptI (Ticks.durAdd a b))
  | ["dsub", a, b] => do let a ← parseI64 a; let b ← parseI64 b; pure (showOptI (Ticks.durSub a b))
  | ["dneg", a] => do let a ← parseI64 a; pure (showOptI (Ticks.durNeg a))
  | _ => none

/-! ### C25 -/

def parseClosure (w0 : String) : Option Refs.Closure :=
  let joined := w0.endsWith "!"
  let w := if joined then (w0.dropEnd 1).toString else w0
  match w.splitOn ":" with
  | [g, op] =>
    let grp : Option (Option Nat) := if g == "-" then some none else g.toNat?.map some
    let o : Option Refs.Op := match op.toList with
      | 'a' :: r => (String.ofList r).toInt?.map .add
      | 'm' :: r => (String.ofList r).toInt?.map .mul
      | 'p' :: r => (String.ofList r).toInt?.map .push
      | 'f' :: r => (String.ofList r).toInt?.map .retain
      | 'r' :: r => (String.ofList r).toNat?.map .read
      | _ => none
    match grp, o with
    | some g, some o => some ⟨g, o, joined⟩
    | _, _ => none
  | _ => none

def parseRefs (tags : List String) : Option Refs.Prog :=
  match tags.filterMap (fun w => if w.startsWith "refs=" then some (w.drop 5).toString else none) with
  | d :: _ =>
    match d.splitOn ";" with
    | hd :: cl =>
      match cl.mapM parseClosure with
      | some cs =>
        if hd == "V" then some ⟨.vec, cs⟩
        else if hd == "O" then some ⟨.opt, cs⟩
        else match hd.toList with
          | 'S' :: r => (String.ofList r).toInt?.map fun i => ⟨.single i, cs⟩
          | _ => none
      | none => none
    | [] => none
  | [] => none

/-- the access groups as `find_access_group_ordering` sees them: (BTreeMap key, members) ascending, and the number of
consecutive-group pairs -/
def showGroups (p : Refs.Prog) : String :=
  let gs := Refs.groupSizes p.closures
  let showKey (k : Nat) : String := if k == 0 then "-" else toString (k - 1)
  let body := if gs.isEmpty then "-" else ",".intercalate (gs.map fun g => s!"{showKey g.1}:{g.2}")
  s!"g={body} pairs={(Refs.accessGroupPairs (Refs.targetOf p.closures)).length}"

/-! ### C26 -/

/-- tokens -> nodes; returns (nodes, remaining tokens, next handoff position, next loop id) -/
partial def parseLoopNodes (toks : List String) (pos lid : Nat) (inLoop : Bool) :
    Option (List Loop.Node × List String × Nat × Nat) :=
  match toks with
  | [] => if inLoop then none else some ([], [], pos, lid)
  | "]" :: rest => if inLoop then some ([], rest, pos, lid) else none
  | t :: rest =>
    let cont (n : Loop.Node) (rest : List String) (pos lid : Nat) :=
      (parseLoopNodes rest pos lid inLoop).map fun r => (n :: r.1, r.2.1, r.2.2.1, r.2.2.2)
    match t.toList with
    | ['D'] => cont (.defer pos false) rest (pos + 1) lid
    | ['L'] => cont (.defer pos true) rest (pos + 1) lid
    | 'M' :: r => match (String.ofList r).toInt? with | some k => cont (.map k) rest pos lid | none => none
    | 'T' :: r => match (String.ofList r).toNat? with | some k => cont (.tap k) rest pos lid | none => none
    | 'C' :: r => match (String.ofList r).toInt? with | some k => cont (.cycle pos false k) rest (pos + 1) lid | none => none
    | 'K' :: r => match (String.ofList r).toInt? with | some k => cont (.cycle pos true k) rest (pos + 1) lid | none => none
    | ['U', p] => if p != 's' && p != 't' then none else cont (.op pos .unique (p == 's') 0) rest (pos + 1) lid
    | ['E', p] => if p != 's' && p != 't' then none else cont (.op pos .enumerate (p == 's') 0) rest (pos + 1) lid
    | ['[', c] =>
      if c != 'b' && c != 'z' then none else
      let (ex, rest') : Option Bool × List String := match rest with
        | "X" :: r => (some false, r)
        | "Z" :: r => (some true, r)
        | r => (none, r)
      match parseLoopNodes rest' pos (lid + 1) true with
      | some (body, after, pos', lid') => cont (.loop lid (c == 'z') ex body) after pos' lid'
      | none => none
    | o :: p :: r =>
      let kind : Option Loop.OpKind := if o == 'F' then some .fold else if o == 'R' then some .reduce
        else if o == 'G' then some .foldKeyed else none
      match kind, (String.ofList r).toNat? with
      | some k, some t => if p != 's' && p != 't' then none else cont (.op pos k (p == 's') t) rest (pos + 1) lid
      | _, _ => none
    | _ => none

def parseLoopProg (tags : List String) : Option (List Loop.Node) :=
  match tags.filterMap (fun w => if w.startsWith "prog=" then some (w.drop 5).toString else none) with
  | d :: _ =>
    if d.contains '[' then (parseLoopNodes (d.splitOn ",") 0 0 false).map (·.1) else none
  | [] => none

def loopFuel : Nat := 100000

/-- the model follows the two loop-related decisions of `as_code` as the translator found them in the source -/
def loopCfg : Loop.Cfg := ⟨Gen.schedRootLoopChecksBack, Gen.tickEndCollectedInLoops⟩

def c26Op (st : DSt) (ws : List String) : Option (DSt × String) :=
  match ws, st.loop with
  | ["send", v], some _ => (parseVals v).map fun vs => ({ st with q1 := st.q1 ++ vs }, "ok")
  | ["send2", v], some _ => (parseVals v).map fun vs => ({ st with q2 := st.q2 ++ vs }, "ok")
  | ["tick"], some s =>
    match Loop.tickClosureWith loopCfg loopFuel s st.q1 st.q2 with
    | some (s', o, _) => some ({ st with loop := some s', q1 := [], q2 := [] }, s!"t={s'.tick} out={showTaps o}")
    | none => some (st, "model-budget-exhausted")
  | ["avail"], some s =>
    match Loop.runAvailableWith loopCfg loopFuel 10000 s st.q1 st.q2 with
    | some (s', os) => some ({ st with loop := some s', q1 := [], q2 := [] },
        s!"n={os.length} t={s'.tick} out={"/".intercalate (os.map showTaps)}")
    | none => some (st, "model-budget-exhausted")
  | _, _ => none

def c25Op (st : DSt) (ws : List String) : Option (DSt × String) :=
  match ws, st.refs with
  | ["send", v], some _ => (parseVals v).map fun vs => ({ st with q1 := st.q1 ++ vs }, "ok")
  | ["groups"], some p => some (st, showGroups p)
  | ["tick", n], some p =>
    match n.toNat? with
    | some n =>
      if n ≤ 8 then
        match Refs.tick p st.q1 n with
        | some o =>
          some ({ st with q1 := [], wake := { st.wake with ticks := st.wake.ticks + 1 } },
            s!"t={st.wake.ticks + 1} out={showTaps (o.map fun r => (r.1, [r.2]))}")
        | none => some ({ st with refs := none }, "panic")
      else none
    | none => none
  | _, _ => none

def c24Op (st : DSt) (ws : List String) : Option (DSt × String) :=
  match ws, st.tick with
  | ["send", v], some s => (parseVals v).map fun vs => ({ st with tick := some (Tick.send s vs) }, "ok")
  | "tick" :: inj, some s =>
    match parseInj inj with
    | some plan =>
      if plan.all (·.1 < 3) then
        let r := Tick.runTick s ⟨Tick.injAt plan 0, Tick.injAt plan 1, Tick.injAt plan 2, []⟩
        some ({ st with tick := some r.1 }, s!"t={r.1.tick} out={showTaps r.2}")
      else none
    | none => none
  | "avail" :: inj, some s =>
    match parseInj inj with
    | some plan =>
      let r := Tick.runAvailable 100000 s plan
      some ({ st with tick := some r.1 },
        s!"n={r.2.length} t={r.1.tick} out={"/".intercalate (r.2.map showTaps)}")
    | none => none
  | _, _ => (arith ws).map fun o => (st, o)

def b01 (b : Bool) : String := if b then "1" else "0"

def applyActs (s : Wake.St) : List Char → Option Wake.St
  | [] => some s
  | 'W' :: cs => applyActs (Wake.step .real (Wake.step .real s .store) .notify) cs
  | 'S' :: cs => applyActs (Wake.step .real s .store) cs
  | 'N' :: cs => applyActs (Wake.step .real s .notify) cs
  | _ :: _ => none

def step (st : DSt) (line : String) : DSt × String :=
  let l := line.trimAscii.toString
  match l.splitOn " " with
  | "#case" :: tags =>
    match parseRefs tags with
    | some p => ({ DSt.fresh with refs := some p }, l)
    | none =>
    match parseLoopProg tags with
    | some p => ({ DSt.fresh with loop := some ⟨p, [], 0⟩ }, l)
    | none => ({ DSt.fresh with tick := (parseProg tags).map Tick.RSt.init }, l)
  | ["v", acts] =>
    let s := st.wake
    let shown := s!"{s.pc.name} t={s.ticks} f={b01 s.flag} n={b01 s.notified}"
    let r := if acts == "-" then some s else if acts.isEmpty then none else applyActs s acts.toList
    match r with
    | some s' => ({ st with wake := Wake.step .real s' .run }, shown)
    | none => (st, "bad-op")
  | ["end"] =>
    let s := st.wake
    (st, s!"end pc={s.pc.name} t={s.ticks} ct={s.ticks}")
  | ws =>
    if st.refs.isSome then
      match c25Op st ws with
      | some r => r
      | none => (st, "bad-op")
    else if st.loop.isSome then
      match c26Op st ws with
      | some r => r
      | none => (st, "bad-op")
    else match c24Op st ws with
    | some r => r
    | none => (st, "bad-op")

partial def loop (h : IO.FS.Stream) (out : IO.FS.Stream) (st : DSt) : IO Unit := do
  let line ← h.getLine
  if line.isEmpty then return ()
  let (st', o) := step st line
  out.putStrLn o
  loop h out st'

def main : IO Unit := do
  let stdin ← IO.getStdin
  let stdout ← IO.getStdout
  loop stdin stdout DSt.fresh
