/-
C24 — ticks advance one at a time, deferred data lands in the next tick, run-until-idle, 'tick vs 'static.

Models: `HvTick.Model.Tick` (tick closure skeleton of `as_code` + `run_tick`/`run_available_sync`, over the
pipeline stage language of the corpus) and `HvTick.Model.Ticks` (`TickInstant`/`TickDuration` on `UInt64`/`Int64`).
All statements are for every program of the stage language, every state, every input batch / injection.
-/
import HvTick.Model.Tick
import HvTick.Model.Ticks
import HvTick.Gen.TickEnd

namespace HvTick.Ticks

/-! ### arithmetic of the counter -/

theorem aux_toInt64 (a : UInt64) : a.toInt64.toInt = ((a.toNat : Int)).bmod (2 ^ 64) := by
  show a.toInt64.toBitVec.toInt = _
  rw [UInt64.toBitVec_toInt64, BitVec.toInt_eq_toNat_bmod]
  rfl

theorem aux_bias (a : UInt64) : (a.toInt64 + Int64.minValue).toInt = (a.toNat : Int) - 2 ^ 63 := by
  rw [Int64.toInt_add, aux_toInt64, Int64.toInt_minValue]
  have h := a.toNat_lt
  simp only [Int.bmod_def]
  omega

theorem aux_diff (a b : UInt64) : instDiff a b =
    if inI64 ((a.toNat : Int) - b.toNat) then some ((a.toInt64 + Int64.minValue) - (b.toInt64 + Int64.minValue))
    else none := by
  have hd : (a.toInt64 + Int64.minValue).toInt - (b.toInt64 + Int64.minValue).toInt = (a.toNat : Int) - b.toNat := by
    rw [aux_bias, aux_bias]; omega
  unfold instDiff overflowingSub
  simp only [hd]
  cases inI64 ((a.toNat : Int) - b.toNat) <;> simp

/-- `TickInstant - TickInstant` is the exact integer difference whenever it fits `i64`, and panics exactly otherwise. -/
theorem tickSub_exact (a b : UInt64) :
    (inI64 ((a.toNat : Int) - b.toNat) = true →
      ∃ r, instDiff a b = some r ∧ r.toInt = (a.toNat : Int) - b.toNat) ∧
    (inI64 ((a.toNat : Int) - b.toNat) = false → instDiff a b = none) := by
  rw [aux_diff]
  constructor
  · intro h
    refine ⟨(a.toInt64 + Int64.minValue) - (b.toInt64 + Int64.minValue), by simp [h], ?_⟩
    rw [Int64.toInt_sub, aux_bias, aux_bias]
    simp only [inI64, Bool.and_eq_true, decide_eq_true_eq] at h
    simp only [Int.bmod_def]
    omega
  · intro h
    simp [h]

/-- `TickInstant + TickDuration` is exact when the result is a `u64`, and panics exactly otherwise. -/
theorem instAdd_exact (a : UInt64) (d : Int64) :
    (inU64 ((a.toNat : Int) + d.toInt) = true →
      ∃ r, instAdd a d = some r ∧ (r.toNat : Int) = (a.toNat : Int) + d.toInt) ∧
    (inU64 ((a.toNat : Int) + d.toInt) = false → instAdd a d = none) := by
  constructor
  · intro h
    refine ⟨UInt64.ofNat ((a.toNat : Int) + d.toInt).toNat, by simp [instAdd, checkedAddSigned, h], ?_⟩
    simp only [inU64, Bool.and_eq_true, decide_eq_true_eq] at h
    rw [UInt64.toNat_ofNat']
    omega
  · intro h; simp [instAdd, checkedAddSigned, h]

/-- `__end_tick` adds exactly one below `u64::MAX` and panics at `u64::MAX` (never wraps). -/
theorem endTick_is_succ (t : UInt64) :
    (t.toNat < 2 ^ 64 - 1 → ∃ r, endTick t = some r ∧ r.toNat = t.toNat + 1) ∧
    (t.toNat = 2 ^ 64 - 1 → endTick t = none) := by
  have h1 : (1 : Int64).toInt = 1 := by decide
  have := instAdd_exact t 1
  rw [h1] at this
  constructor
  · intro h
    have hin : inU64 ((t.toNat : Int) + 1) = true := by
      simp only [inU64, Bool.and_eq_true, decide_eq_true_eq]; omega
    obtain ⟨r, hr, hv⟩ := this.1 hin
    exact ⟨r, hr, by omega⟩
  · intro h
    apply this.2
    simp only [inU64, Bool.and_eq_false_iff, decide_eq_false_iff_not]; omega

/-- `TickInstant - TickDuration` is exact when the result is a `u64`, and panics exactly otherwise. -/
theorem instSubDur_exact (a : UInt64) (d : Int64) :
    (inU64 ((a.toNat : Int) - d.toInt) = true →
      ∃ r, instSubDur a d = some r ∧ (r.toNat : Int) = (a.toNat : Int) - d.toInt) ∧
    (inU64 ((a.toNat : Int) - d.toInt) = false → instSubDur a d = none) := by
  have ha := a.toNat_lt
  have hd := d.toInt_lt
  have hd' := d.le_toInt
  have habs : (unsignedAbs d).toNat = d.toInt.natAbs := by
    simp only [unsignedAbs, UInt64.toNat_ofNat']
    omega
  simp only [inU64, Bool.and_eq_true, decide_eq_true_eq, Bool.and_eq_false_iff, decide_eq_false_iff_not]
  constructor
  · intro h
    unfold instSubDur
    split
    · refine ⟨a - unsignedAbs d, by simp [checkedSubU, habs]; omega, ?_⟩
      rw [UInt64.toNat_sub_of_le _ _ (by rw [UInt64.le_iff_toNat_le, habs]; omega), habs]; omega
    · split
      · refine ⟨a + unsignedAbs d, by simp [checkedAddU, habs]; omega, ?_⟩
        rw [UInt64.toNat_add, habs]; omega
      · exact ⟨a, rfl, by omega⟩
  · intro h
    unfold instSubDur
    split
    · simp [checkedSubU, habs]; omega
    · split
      · simp [checkedAddU, habs]; omega
      · omega

example : instDiff 0 1 = some (-1) ∧ instDiff 1 0 = some 1 ∧
    instDiff 0xFFFFFFFFFFFFFFFF 0 = none ∧ instDiff 0x8000000000000000 1 = some 0x7FFFFFFFFFFFFFFF ∧
    instDiff 0 0x8000000000000000 = some Int64.minValue ∧ endTick 0xFFFFFFFFFFFFFFFF = none := by decide

end HvTick.Ticks

namespace HvTick.Tick

/-! ### list plumbing -/

theorem aux_headD (sts : List SSt) : sts.headD default = (sts[0]?).getD default := by
  cases sts <;> rfl

theorem aux_tail_get (sts : List SSt) (j : Nat) : sts.tail[j]? = sts[j + 1]? := by
  cases sts <;> simp

/-- what the body does at position `i`: the stage sees some batch `inb`, and its state/output are `stageBody` of it -/
theorem aux_body_at (prog : List Stage) (sts : List SSt) (b : List Int) (i : Nat) (s : Stage)
    (h : prog[i]? = some s) :
    ∃ inb, (runBody prog sts b).2.2[i]? = some (inb, (stageBody s ((sts[i]?).getD default) inb).2.1) ∧
      (runBody prog sts b).1[i]? = some (stageBody s ((sts[i]?).getD default) inb).1 := by
  induction prog generalizing sts b i with
  | nil => simp at h
  | cons s0 ss ih =>
    cases i with
    | zero =>
      simp only [List.getElem?_cons_zero, Option.some.injEq] at h
      subst h
      exact ⟨b, by simp [runBody, List.head?_eq_getElem?], by simp [runBody, List.head?_eq_getElem?]⟩
    | succ j =>
      simp only [List.getElem?_cons_succ] at h
      obtain ⟨inb, h1, h2⟩ := ih sts.tail (stageBody s0 (sts.headD default) b).2.1 j h
      rw [aux_tail_get] at h1 h2
      exact ⟨inb, by simpa [runBody] using h1, by simpa [runBody] using h2⟩

theorem aux_body_length (prog : List Stage) (sts : List SSt) (b : List Int) :
    (runBody prog sts b).1.length = prog.length := by
  induction prog generalizing sts b with
  | nil => rfl
  | cons s ss ih => simp [runBody, ih]

theorem aux_zip_at (f : Stage → SSt → SSt) (prog : List Stage) (sts : List SSt) (i : Nat) (s : Stage) (st : SSt)
    (h : prog[i]? = some s) (h' : sts[i]? = some st) : (zipStages f prog sts)[i]? = some (f s st) := by
  induction prog generalizing sts i with
  | nil => simp at h
  | cons s0 ss ih =>
    cases sts with
    | nil => simp at h'
    | cons t ts =>
      cases i with
      | zero => simp_all [zipStages]
      | succ j => simpa [zipStages] using ih ts j (by simpa using h) (by simpa using h')

/-- the whole closure at position `i` -/
theorem aux_tick_at (prog : List Stage) (sts : List SSt) (b : List Int) (i : Nat) (s : Stage)
    (h : prog[i]? = some s) :
    ∃ inb, (tickClosure prog sts b).io[i]? = some (inb, (stageBody s ((sts[i]?).getD default) inb).2.1) ∧
      (tickClosure prog sts b).sts[i]? =
        some (tickEndStage s (swapStage s (stageBody s ((sts[i]?).getD default) inb).1)) := by
  obtain ⟨inb, h1, h2⟩ := aux_body_at prog sts b i s h
  refine ⟨inb, h1, ?_⟩
  simp only [tickClosure]
  exact aux_zip_at _ _ _ _ _ _ h (aux_zip_at _ _ _ _ _ _ h h2)

/-! ### the tick counter -/

theorem aux_send_fields (s : RSt) (vs : List Int) :
    (send s vs).tick = s.tick ∧ (send s vs).prog = s.prog ∧ (send s vs).sts = s.sts := by
  unfold send
  split
  · exact ⟨rfl, rfl, rfl⟩
  · split <;> exact ⟨rfl, rfl, rfl⟩

/-- every executed tick advances `current_tick` by exactly one -/
theorem tick_counter_succ (s : RSt) (i : Inj) :
    (callTick s).1.tick = s.tick + 1 ∧ (runTick s i).1.tick = s.tick + 1 ∧ (raIter s i).1.tick = s.tick + 1 := by
  have hs : ∀ (s : RSt) vs, (send s vs).tick = s.tick := fun s vs => (aux_send_fields s vs).1
  refine ⟨rfl, ?_, ?_⟩
  · simp [runTick, hs, callTick]
  · simp [raIter, runTick, hs, callTick]

theorem aux_raLoop_ticks (fuel : Nat) (s : RSt) (plan : List (Nat × List Int)) (k : Nat) :
    (raLoop fuel s plan k).1.tick = s.tick + (raLoop fuel s plan k).2.length := by
  induction fuel generalizing s k with
  | zero => simp [raLoop]
  | succ n ih =>
    simp only [raLoop]
    have ht := (tick_counter_succ s ⟨injAt plan k, injAt plan (k + 1), injAt plan (k + 2), injAt plan (k + 3)⟩).2.2
    split
    · simp only [List.length_cons]; rw [ih, ht]; omega
    · simp only [List.length_cons, List.length_nil]; rw [ht]

/-- `run_available` advances the counter by exactly the number of ticks it ran -/
theorem runAvailable_counter (fuel : Nat) (s : RSt) (plan : List (Nat × List Int)) :
    (runAvailable fuel s plan).1.tick = s.tick + (runAvailable fuel s plan).2.length := by
  have hs : ∀ (s : RSt) vs, (send s vs).tick = s.tick := fun s vs => (aux_send_fields s vs).1
  simp only [runAvailable]
  rw [aux_raLoop_ticks]
  simp [hs]

/-! ### `defer_tick` / `defer_tick_lazy` -/

/-- **Exactly the next tick.** For every program, state and pair of consecutive ticks: the batch that leaves a
`defer_tick[_lazy]` stage in the second tick is exactly the batch that entered it in the first; and what leaves
it in the first tick is what was stored before (so nothing of a tick's input is delivered in the same tick). -/
theorem deferTick_exactly_next_tick (prog : List Stage) (sts : List SSt) (b1 b2 : List Int)
    (i : Nat) (l : Bool) (h : prog[i]? = some (.defer l)) :
    ∃ inb out1, (tickClosure prog sts b1).io[i]? = some (inb, out1) ∧
      out1 = ((sts[i]?).getD default).back ∧
      (tickClosure prog (tickClosure prog sts b1).sts b2).io[i]?.map (·.2) = some inb := by
  obtain ⟨inb, h1, h2⟩ := aux_tick_at prog sts b1 i _ h
  obtain ⟨inb2, h3, _⟩ := aux_tick_at prog (tickClosure prog sts b1).sts b2 i _ h
  refine ⟨inb, _, h1, rfl, ?_⟩
  rw [h3, h2]
  simp [stageBody, swapStage, tickEndStage]

/-- in the very first tick a delay stage delivers nothing -/
theorem deferTick_first_tick_empty (prog : List Stage) (b : List Int) (i : Nat) (l : Bool)
    (h : prog[i]? = some (.defer l)) :
    (tickClosure prog (RSt.init prog).sts b).io[i]?.map (·.2) = some [] := by
  obtain ⟨inb, h1, _⟩ := aux_tick_at prog (RSt.init prog).sts b i _ h
  rw [h1]
  have : ((RSt.init prog).sts[i]?).getD default = default := by
    simp only [RSt.init, List.getElem?_map]
    cases prog[i]? <;> rfl
  simp [stageBody, this]
  rfl

/-! ### run until idle -/

theorem aux_send_queue (s : RSt) (vs : List Int) : (send s vs).queue = s.queue ++ vs := by
  unfold send; cases vs <;> simp <;> split <;> simp

/-- **`run_available` takes another tick iff** an external wake-up fired after the flag was cleared at the start
of the tick (a send into the registered channel at `rt_call`, `rt_load` or `ra_swap`) **or** the tick left data in
a non-lazy tick-delayed handoff (`sched`).  -/
theorem runAvailable_continues_iff (s : RSt) (i : Inj) :
    (raIter s i).2.2 = true ↔
      (((send s i.atSwap).srcReg = true ∧ i.atCall ≠ []) ∨ i.atLoad ≠ [] ∨ i.atRaSwap ≠ []) ∨
      (tickClosure s.prog s.sts (s.queue ++ i.atSwap ++ i.atCall)).sched = true := by
  have hq := aux_send_queue s i.atSwap
  have hp : (send s i.atSwap).prog = s.prog := (aux_send_fields s _).2.1
  have hst : (send s i.atSwap).sts = s.sts := (aux_send_fields s _).2.2
  rcases i with ⟨i1, i2, i3, i4⟩
  simp only [raIter, runTick] at *
  generalize send s i1 = s1 at *
  rcases s1 with ⟨p1, st1, t1, f1, q1, r1⟩
  simp only at hq hp hst
  subst hq hp hst
  cases i2 <;> cases i3 <;> cases i4 <;> cases r1 <;>
    simp [send, callTick, List.append_assoc]

/-- `sched` is exactly "some non-lazy tick-delayed handoff holds data after the body" -/
theorem sched_iff (prog : List Stage) (sts : List SSt) :
    anyPending prog sts = true ↔
      ∃ (i : Nat) (s : Stage) (st : SSt), prog[i]? = some s ∧ sts[i]? = some st ∧ pendingNonLazy s st = true := by
  induction prog generalizing sts with
  | nil => simp [anyPending]
  | cons s0 ss ih =>
    cases sts with
    | nil => simp [anyPending]
    | cons t ts =>
      simp only [anyPending, Bool.or_eq_true, ih]
      constructor
      · rintro (h | ⟨i, s, st, h1, h2, h3⟩)
        · exact ⟨0, s0, t, rfl, rfl, h⟩
        · exact ⟨i + 1, s, st, by simpa using h1, by simpa using h2, h3⟩
      · rintro ⟨i, s, st, h1, h2, h3⟩
        cases i with
        | zero => simp at h1 h2; subst h1 h2; exact Or.inl h3
        | succ j => exact Or.inr ⟨j, s, st, by simpa using h1, by simpa using h2, h3⟩

/-- **Lazy data alone never asks for another tick**: a program whose delayed handoffs are all lazy never calls
`schedule_subgraph`, whatever its buffers hold — so without an external wake-up `run_available` stops. -/
theorem lazy_alone_does_not_continue (prog : List Stage) (sts : List SSt) (b : List Int)
    (hl : ∀ s ∈ prog, s ≠ .defer false ∧ ∀ n, s ≠ .cycle false n) :
    (tickClosure prog sts b).sched = false := by
  simp only [tickClosure]
  generalize (runBody prog sts b).1 = sts1
  induction prog generalizing sts1 with
  | nil => simp [anyPending]
  | cons s0 ss ih =>
    cases sts1 with
    | nil => simp [anyPending]
    | cons t ts =>
      have h0 := hl s0 (by simp)
      have : pendingNonLazy s0 t = false := by
        cases s0 with
        | defer l => cases l <;> simp_all [pendingNonLazy]
        | cycle l n => cases l <;> simp_all [pendingNonLazy]
        | _ => rfl
      simp only [anyPending, this, Bool.false_or]
      exact ih (fun s hs => hl s (by simp [hs])) ts

/-- … and then, with no send after the flag was cleared, the loop of `run_available` stops after this tick,
even though lazy buffers may be full -/
theorem runAvailable_stops_on_lazy_only (s : RSt) (i1 : List Int)
    (hl : ∀ st ∈ s.prog, st ≠ .defer false ∧ ∀ n, st ≠ .cycle false n) :
    (raIter s ⟨i1, [], [], []⟩).2.2 = false := by
  have h := (runAvailable_continues_iff s ⟨i1, [], [], []⟩)
  have hs := lazy_alone_does_not_continue s.prog s.sts (s.queue ++ i1) hl
  cases hc : (raIter s ⟨i1, [], [], []⟩).2.2
  · rfl
  · rw [hc] at h; simp [hs] at h

/-! ### 'tick state is cleared, 'static state is kept -/

theorem tick_state_cleared_static_kept (prog : List Stage) (sts : List SSt) (b : List Int) (i : Nat) :
    (prog[i]? = some (.unique false) → ∃ st', (tickClosure prog sts b).sts[i]? = some st' ∧ st'.seen = []) ∧
    (prog[i]? = some (.unique true) → ∃ inb st', (tickClosure prog sts b).io[i]?.map (·.1) = some inb ∧
        (tickClosure prog sts b).sts[i]? = some st' ∧ st'.seen = (dedup ((sts[i]?).getD default).seen inb).1) ∧
    (∀ k, prog[i]? = some (.fold false k) → ∃ st', (tickClosure prog sts b).sts[i]? = some st' ∧ st'.acc = 0) ∧
    (∀ k, prog[i]? = some (.fold true k) → ∃ inb st', (tickClosure prog sts b).io[i]?.map (·.1) = some inb ∧
        (tickClosure prog sts b).sts[i]? = some st' ∧ st'.acc = ((sts[i]?).getD default).acc + sum inb) := by
  refine ⟨?_, ?_, ?_, ?_⟩
  · intro h
    obtain ⟨inb, _, h2⟩ := aux_tick_at prog sts b i _ h
    exact ⟨_, h2, rfl⟩
  · intro h
    obtain ⟨inb, h1, h2⟩ := aux_tick_at prog sts b i _ h
    exact ⟨inb, _, by rw [h1]; rfl, h2, rfl⟩
  · intro k h
    obtain ⟨inb, _, h2⟩ := aux_tick_at prog sts b i _ h
    exact ⟨_, h2, rfl⟩
  · intro k h
    obtain ⟨inb, h1, h2⟩ := aux_tick_at prog sts b i _ h
    exact ⟨inb, _, by rw [h1]; rfl, h2, rfl⟩

/-- **Every operator's tick-end code follows the same rule** (table regenerated from the operator sources on every
run): the `'tick` arm of its `match persistence` emits reset code, the `'static` arm emits none — the rule
`tickEndStage` models for `unique` and `fold`. -/
theorem tickEnd_table_uniform : ∀ e ∈ Gen.tickEndTable, e.2.1 = true ∧ e.2.2 = false := by decide

/-- the two operators of the corpus are rows of that table -/
theorem tickEnd_table_has_corpus_ops :
    ("unique.write_tick_end", true, false) ∈ Gen.tickEndTable ∧ ("fold.write_tick_end", true, false) ∈ Gen.tickEndTable := by
  decide

/-- `dedup` only ever grows the set: nothing a `'static` `unique` has seen is forgotten -/
theorem unique_static_keeps (seen b : List Int) (x : Int) (h : x ∈ seen) : x ∈ (dedup seen b).1 := by
  induction b generalizing seen with
  | nil => exact h
  | cons y ys ih =>
    simp only [dedup]
    split
    · exact ih seen h
    · exact ih (y :: seen) (by simp [h])

/-! ### non-vacuity -/

/-- `T0, D, T1` : 5 sent before tick 1 shows at tap 0 in tick 1 and at tap 1 in tick 2; run_available takes exactly
the two ticks -/
example :
    let s0 := send (RSt.init [.tap 0, .defer false, .tap 1]) [5]
    (runAvailable 10 s0 []).2 = [[(0, [5]), (1, [])], [(0, []), (1, [5])]] := by decide

/-- the same pipeline with `defer_tick_lazy`: one tick only, the 5 stays in the lazy buffer -/
example :
    let s0 := send (RSt.init [.tap 0, .defer true, .tap 1]) [5]
    (runAvailable 10 s0 []).2 = [[(0, [5]), (1, [])]] ∧
    ((runAvailable 10 s0 []).1.sts.map (·.back)) = [[], [5], []] := by decide

end HvTick.Tick
