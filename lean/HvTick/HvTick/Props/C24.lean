/-
C24 — ticks advance one at a time, deferred data lands in the next tick, run-until-idle, 'tick vs 'static.

Models: `HvTick.Model.Tick` (tick closure skeleton of `as_code` + `run_tick`/`run_available_sync`, over the
pipeline stage language of the corpus), `HvTick.Model.Ticks` (`TickInstant`/`TickDuration` on `UInt64`/`Int64`) and, for
ticks × `loop { }` blocks, `HvTick.Model.Loop` (the same closure with loop gates: the schedule check reads `back` for a
`defer_tick` consumed in a root-level loop, the tick-end code is collected from operators at every loop depth).
All statements are for every program of the stage language, every state, every input batch / injection.
-/
import HvTick.Model.Tick
import HvTick.Model.Ticks
import HvTick.Model.Loop
import HvTick.Props.C26
import HvTick.Gen.TickEnd

namespace HvTick.Ticks

/-! ### arithmetic of the counter -/

theorem aux_toInt64 (a : UInt64) : a.toInt64.toInt = ((a.toNat : Int)).bmod (2 ^ 64) := by
  show a.toInt64.toBitVec.toInt = _
  rw [UInt64.toBitVec_toInt64, BitVec.toInt_eq_toNat_bmod]
  rfl

theorem aux_bias (a : UInt64) : (a.toInt64 + Int64.minValue).toInt = (a.toNat : Int) - 2 ^ 63 := by
  rw [Int64.toInt_add, aux_toInt64, Int64.toInt_minValue]
  have h := a.toNat_lt
  simp only [Int.bmod_def]
  omega

theorem aux_diff (a b : UInt64) : instDiff a b =
    if inI64 ((a.toNat : Int) - b.toNat) then some ((a.toInt64 + Int64.minValue) - (b.toInt64 + Int64.minValue))
    else none := by
  have hd : (a.toInt64 + Int64.minValue).toInt - (b.toInt64 + Int64.minValue).toInt = (a.toNat : Int) - b.toNat := by
    rw [aux_bias, aux_bias]; omega
  unfold instDiff overflowingSub
  simp only [hd]
  cases inI64 ((a.toNat : Int) - b.toNat) <;> simp

/-- `TickInstant - TickInstant` is the exact integer difference whenever it fits `i64`, and panics exactly otherwise. -/
theorem tickSub_exact (a b : UInt64) :
    (inI64 ((a.toNat : Int) - b.toNat) = true →
      ∃ r, instDiff a b = some r ∧ r.toInt = (a.toNat : Int) - b.toNat) ∧
    (inI64 ((a.toNat : Int) - b.toNat) = false → instDiff a b = none) := by
  rw [aux_diff]
  constructor
  · intro h
    refine ⟨(a.toInt64 + Int64.minValue) - (b.toInt64 + Int64.minValue), by simp [h], ?_⟩
    rw [Int64.toInt_sub, aux_bias, aux_bias]
    simp only [inI64, Bool.and_eq_true, decide_eq_true_eq] at h
    simp only [Int.bmod_def]
    omega
  · intro h
    simp [h]

/-- `TickInstant + TickDuration` is exact when the result is a `u64`, and panics exactly otherwise. -/
theorem instAdd_exact (a : UInt64) (d : Int64) :
    (inU64 ((a.toNat : Int) + d.toInt) = true →
      ∃ r, instAdd a d = some r ∧ (r.toNat : Int) = (a.toNat : Int) + d.toInt) ∧
    (inU64 ((a.toNat : Int) + d.toInt) = false → instAdd a d = none) := by
  constructor
  · intro h
    refine ⟨UInt64.ofNat ((a.toNat : Int) + d.toInt).toNat, by simp [instAdd, checkedAddSigned, h], ?_⟩
    simp only [inU64, Bool.and_eq_true, decide_eq_true_eq] at h
    rw [UInt64.toNat_ofNat']
    omega
  · intro h; simp [instAdd, checkedAddSigned, h]

/-- `__end_tick` adds exactly one below `u64::MAX` and panics at `u64::MAX` (never wraps). -/
theorem endTick_is_succ (t : UInt64) :
    (t.toNat < 2 ^ 64 - 1 → ∃ r, endTick t = some r ∧ r.toNat = t.toNat + 1) ∧
    (t.toNat = 2 ^ 64 - 1 → endTick t = none) := by
  have h1 : (1 : Int64).toInt = 1 := by decide
  have := instAdd_exact t 1
  rw [h1] at this
  constructor
  · intro h
    have hin : inU64 ((t.toNat : Int) + 1) = true := by
      simp only [inU64, Bool.and_eq_true, decide_eq_true_eq]; omega
    obtain ⟨r, hr, hv⟩ := this.1 hin
    exact ⟨r, hr, by omega⟩
  · intro h
    apply this.2
    simp only [inU64, Bool.and_eq_false_iff, decide_eq_false_iff_not]; omega

/-- `TickInstant - TickDuration` is exact when the result is a `u64`, and panics exactly otherwise. -/
theorem instSubDur_exact (a : UInt64) (d : Int64) :
    (inU64 ((a.toNat : Int) - d.toInt) = true →
      ∃ r, instSubDur a d = some r ∧ (r.toNat : Int) = (a.toNat : Int) - d.toInt) ∧
    (inU64 ((a.toNat : Int) - d.toInt) = false → instSubDur a d = none) := by
  have ha := a.toNat_lt
  have hd := d.toInt_lt
  have hd' := d.le_toInt
  have habs : (unsignedAbs d).toNat = d.toInt.natAbs := by
    simp only [unsignedAbs, UInt64.toNat_ofNat']
    omega
  simp only [inU64, Bool.and_eq_true, decide_eq_true_eq, Bool.and_eq_false_iff, decide_eq_false_iff_not]
  constructor
  · intro h
    unfold instSubDur
    split
    · refine ⟨a - unsignedAbs d, by simp [checkedSubU, habs]; omega, ?_⟩
      rw [UInt64.toNat_sub_of_le _ _ (by rw [UInt64.le_iff_toNat_le, habs]; omega), habs]; omega
    · split
      · refine ⟨a + unsignedAbs d, by simp [checkedAddU, habs]; omega, ?_⟩
        rw [UInt64.toNat_add, habs]; omega
      · exact ⟨a, rfl, by omega⟩
  · intro h
    unfold instSubDur
    split
    · simp [checkedSubU, habs]; omega
    · split
      · simp [checkedAddU, habs]; omega
      · omega

example : instDiff 0 1 = some (-1) ∧ instDiff 1 0 = some 1 ∧
    instDiff 0xFFFFFFFFFFFFFFFF 0 = none ∧ instDiff 0x8000000000000000 1 = some 0x7FFFFFFFFFFFFFFF ∧
    instDiff 0 0x8000000000000000 = some Int64.minValue ∧ endTick 0xFFFFFFFFFFFFFFFF = none := by decide

end HvTick.Ticks

namespace HvTick.Tick

/-! ### list plumbing -/

theorem aux_headD (sts : List SSt) : sts.headD default = (sts[0]?).getD default := by
  cases sts <;> rfl

theorem aux_tail_get (sts : List SSt) (j : Nat) : sts.tail[j]? = sts[j + 1]? := by
  cases sts <;> simp

/-- what the body does at position `i`: the stage sees some batch `inb`, and its state/output are `stageBody` of it -/
theorem aux_body_at (prog : List Stage) (sts : List SSt) (b : List Int) (i : Nat) (s : Stage)
    (h : prog[i]? = some s) :
    ∃ inb, (runBody prog sts b).2.2[i]? = some (inb, (stageBody s ((sts[i]?).getD default) inb).2.1) ∧
      (runBody prog sts b).1[i]? = some (stageBody s ((sts[i]?).getD default) inb).1 := by
  induction prog generalizing sts b i with
  | nil => simp at h
  | cons s0 ss ih =>
    cases i with
    | zero =>
      simp only [List.getElem?_cons_zero, Option.some.injEq] at h
      subst h
      exact ⟨b, by simp [runBody, List.head?_eq_getElem?], by simp [runBody, List.head?_eq_getElem?]⟩
    | succ j =>
      simp only [List.getElem?_cons_succ] at h
      obtain ⟨inb, h1, h2⟩ := ih sts.tail (stageBody s0 (sts.headD default) b).2.1 j h
      rw [aux_tail_get] at h1 h2
      exact ⟨inb, by simpa [runBody] using h1, by simpa [runBody] using h2⟩

theorem aux_body_length (prog : List Stage) (sts : List SSt) (b : List Int) :
    (runBody prog sts b).1.length = prog.length := by
  induction prog generalizing sts b with
  | nil => rfl
  | cons s ss ih => simp [runBody, ih]

theorem aux_zip_at (f : Stage → SSt → SSt) (prog : List Stage) (sts : List SSt) (i : Nat) (s : Stage) (st : SSt)
    (h : prog[i]? = some s) (h' : sts[i]? = some st) : (zipStages f prog sts)[i]? = some (f s st) := by
  induction prog generalizing sts i with
  | nil => simp at h
  | cons s0 ss ih =>
    cases sts with
    | nil => simp at h'
    | cons t ts =>
      cases i with
      | zero => simp_all [zipStages]
      | succ j => simpa [zipStages] using ih ts j (by simpa using h) (by simpa using h')

/-- the whole closure at position `i` -/
theorem aux_tick_at (prog : List Stage) (sts : List SSt) (b : List Int) (i : Nat) (s : Stage)
    (h : prog[i]? = some s) :
    ∃ inb, (tickClosure prog sts b).io[i]? = some (inb, (stageBody s ((sts[i]?).getD default) inb).2.1) ∧
      (tickClosure prog sts b).sts[i]? =
        some (tickEndStage s (swapStage s (stageBody s ((sts[i]?).getD default) inb).1)) := by
  obtain ⟨inb, h1, h2⟩ := aux_body_at prog sts b i s h
  refine ⟨inb, h1, ?_⟩
  simp only [tickClosure]
  exact aux_zip_at _ _ _ _ _ _ h (aux_zip_at _ _ _ _ _ _ h h2)

/-! ### the tick counter -/

theorem aux_send_fields (s : RSt) (vs : List Int) :
    (send s vs).tick = s.tick ∧ (send s vs).prog = s.prog ∧ (send s vs).sts = s.sts := by
  unfold send
  split
  · exact ⟨rfl, rfl, rfl⟩
  · split <;> exact ⟨rfl, rfl, rfl⟩

/-- every executed tick advances `current_tick` by exactly one -/
theorem tick_counter_succ (s : RSt) (i : Inj) :
    (callTick s).1.tick = s.tick + 1 ∧ (runTick s i).1.tick = s.tick + 1 ∧ (raIter s i).1.tick = s.tick + 1 := by
  have hs : ∀ (s : RSt) vs, (send s vs).tick = s.tick := fun s vs => (aux_send_fields s vs).1
  refine ⟨rfl, ?_, ?_⟩
  · simp [runTick, hs, callTick]
  · simp [raIter, runTick, hs, callTick]

theorem aux_raLoop_ticks (fuel : Nat) (s : RSt) (plan : List (Nat × List Int)) (k : Nat) :
    (raLoop fuel s plan k).1.tick = s.tick + (raLoop fuel s plan k).2.length := by
  induction fuel generalizing s k with
  | zero => simp [raLoop]
  | succ n ih =>
    simp only [raLoop]
    have ht := (tick_counter_succ s ⟨injAt plan k, injAt plan (k + 1), injAt plan (k + 2), injAt plan (k + 3)⟩).2.2
    split
    · simp only [List.length_cons]; rw [ih, ht]; omega
    · simp only [List.length_cons, List.length_nil]; rw [ht]

/-- `run_available` advances the counter by exactly the number of ticks it ran -/
theorem runAvailable_counter (fuel : Nat) (s : RSt) (plan : List (Nat × List Int)) :
    (runAvailable fuel s plan).1.tick = s.tick + (runAvailable fuel s plan).2.length := by
  have hs : ∀ (s : RSt) vs, (send s vs).tick = s.tick := fun s vs => (aux_send_fields s vs).1
  simp only [runAvailable]
  rw [aux_raLoop_ticks]
  simp [hs]

/-! ### `defer_tick` / `defer_tick_lazy` -/

/-- **Exactly the next tick.** For every program, state and pair of consecutive ticks: the batch that leaves a
`defer_tick[_lazy]` stage in the second tick is exactly the batch that entered it in the first; and what leaves
it in the first tick is what was stored before (so nothing of a tick's input is delivered in the same tick). -/
theorem deferTick_exactly_next_tick (prog : List Stage) (sts : List SSt) (b1 b2 : List Int)
    (i : Nat) (l : Bool) (h : prog[i]? = some (.defer l)) :
    ∃ inb out1, (tickClosure prog sts b1).io[i]? = some (inb, out1) ∧
      out1 = ((sts[i]?).getD default).back ∧
      (tickClosure prog (tickClosure prog sts b1).sts b2).io[i]?.map (·.2) = some inb := by
  obtain ⟨inb, h1, h2⟩ := aux_tick_at prog sts b1 i _ h
  obtain ⟨inb2, h3, _⟩ := aux_tick_at prog (tickClosure prog sts b1).sts b2 i _ h
  refine ⟨inb, _, h1, rfl, ?_⟩
  rw [h3, h2]
  simp [stageBody, swapStage, tickEndStage]

/-- in the very first tick a delay stage delivers nothing -/
theorem deferTick_first_tick_empty (prog : List Stage) (b : List Int) (i : Nat) (l : Bool)
    (h : prog[i]? = some (.defer l)) :
    (tickClosure prog (RSt.init prog).sts b).io[i]?.map (·.2) = some [] := by
  obtain ⟨inb, h1, _⟩ := aux_tick_at prog (RSt.init prog).sts b i _ h
  rw [h1]
  have : ((RSt.init prog).sts[i]?).getD default = default := by
    simp only [RSt.init, List.getElem?_map]
    cases prog[i]? <;> rfl
  simp [stageBody, this]
  rfl

/-! ### run until idle -/

theorem aux_send_queue (s : RSt) (vs : List Int) : (send s vs).queue = s.queue ++ vs := by
  unfold send; cases vs <;> simp <;> split <;> simp

/-- **`run_available` takes another tick iff** an external wake-up fired after the flag was cleared at the start
of the tick (a send into the registered channel at `rt_call`, `rt_load` or `ra_swap`) **or** the tick left data in
a non-lazy tick-delayed handoff (`sched`).  -/
theorem runAvailable_continues_iff (s : RSt) (i : Inj) :
    (raIter s i).2.2 = true ↔
      (((send s i.atSwap).srcReg = true ∧ i.atCall ≠ []) ∨ i.atLoad ≠ [] ∨ i.atRaSwap ≠ []) ∨
      (tickClosure s.prog s.sts (s.queue ++ i.atSwap ++ i.atCall)).sched = true := by
  have hq := aux_send_queue s i.atSwap
  have hp : (send s i.atSwap).prog = s.prog := (aux_send_fields s _).2.1
  have hst : (send s i.atSwap).sts = s.sts := (aux_send_fields s _).2.2
  rcases i with ⟨i1, i2, i3, i4⟩
  simp only [raIter, runTick] at *
  generalize send s i1 = s1 at *
  rcases s1 with ⟨p1, st1, t1, f1, q1, r1⟩
  simp only at hq hp hst
  subst hq hp hst
  cases i2 <;> cases i3 <;> cases i4 <;> cases r1 <;>
    simp [send, callTick, List.append_assoc]

/-- `sched` is exactly "some non-lazy tick-delayed handoff holds data after the body" -/
theorem sched_iff (prog : List Stage) (sts : List SSt) :
    anyPending prog sts = true ↔
      ∃ (i : Nat) (s : Stage) (st : SSt), prog[i]? = some s ∧ sts[i]? = some st ∧ pendingNonLazy s st = true := by
  induction prog generalizing sts with
  | nil => simp [anyPending]
  | cons s0 ss ih =>
    cases sts with
    | nil => simp [anyPending]
    | cons t ts =>
      simp only [anyPending, Bool.or_eq_true, ih]
      constructor
      · rintro (h | ⟨i, s, st, h1, h2, h3⟩)
        · exact ⟨0, s0, t, rfl, rfl, h⟩
        · exact ⟨i + 1, s, st, by simpa using h1, by simpa using h2, h3⟩
      · rintro ⟨i, s, st, h1, h2, h3⟩
        cases i with
        | zero => simp at h1 h2; subst h1 h2; exact Or.inl h3
        | succ j => exact Or.inr ⟨j, s, st, by simpa using h1, by simpa using h2, h3⟩

/-- **Lazy data alone never asks for another tick**: a program whose delayed handoffs are all lazy never calls
`schedule_subgraph`, whatever its buffers hold — so without an external wake-up `run_available` stops. -/
theorem lazy_alone_does_not_continue (prog : List Stage) (sts : List SSt) (b : List Int)
    (hl : ∀ s ∈ prog, s ≠ .defer false ∧ ∀ n, s ≠ .cycle false n) :
    (tickClosure prog sts b).sched = false := by
  simp only [tickClosure]
  generalize (runBody prog sts b).1 = sts1
  induction prog generalizing sts1 with
  | nil => simp [anyPending]
  | cons s0 ss ih =>
    cases sts1 with
    | nil => simp [anyPending]
    | cons t ts =>
      have h0 := hl s0 (by simp)
      have : pendingNonLazy s0 t = false := by
        cases s0 with
        | defer l => cases l <;> simp_all [pendingNonLazy]
        | cycle l n => cases l <;> simp_all [pendingNonLazy]
        | _ => rfl
      simp only [anyPending, this, Bool.false_or]
      exact ih (fun s hs => hl s (by simp [hs])) ts

/-- … and then, with no send after the flag was cleared, the loop of `run_available` stops after this tick,
even though lazy buffers may be full -/
theorem runAvailable_stops_on_lazy_only (s : RSt) (i1 : List Int)
    (hl : ∀ st ∈ s.prog, st ≠ .defer false ∧ ∀ n, st ≠ .cycle false n) :
    (raIter s ⟨i1, [], [], []⟩).2.2 = false := by
  have h := (runAvailable_continues_iff s ⟨i1, [], [], []⟩)
  have hs := lazy_alone_does_not_continue s.prog s.sts (s.queue ++ i1) hl
  cases hc : (raIter s ⟨i1, [], [], []⟩).2.2
  · rfl
  · rw [hc] at h; simp [hs] at h

/-! ### 'tick state is cleared, 'static state is kept -/

theorem tick_state_cleared_static_kept (prog : List Stage) (sts : List SSt) (b : List Int) (i : Nat) :
    (prog[i]? = some (.unique false) → ∃ st', (tickClosure prog sts b).sts[i]? = some st' ∧ st'.seen = []) ∧
    (prog[i]? = some (.unique true) → ∃ inb st', (tickClosure prog sts b).io[i]?.map (·.1) = some inb ∧
        (tickClosure prog sts b).sts[i]? = some st' ∧ st'.seen = (dedup ((sts[i]?).getD default).seen inb).1) ∧
    (∀ k, prog[i]? = some (.fold false k) → ∃ st', (tickClosure prog sts b).sts[i]? = some st' ∧ st'.acc = 0) ∧
    (∀ k, prog[i]? = some (.fold true k) → ∃ inb st', (tickClosure prog sts b).io[i]?.map (·.1) = some inb ∧
        (tickClosure prog sts b).sts[i]? = some st' ∧ st'.acc = ((sts[i]?).getD default).acc + sum inb) := by
  refine ⟨?_, ?_, ?_, ?_⟩
  · intro h
    obtain ⟨inb, _, h2⟩ := aux_tick_at prog sts b i _ h
    exact ⟨_, h2, rfl⟩
  · intro h
    obtain ⟨inb, h1, h2⟩ := aux_tick_at prog sts b i _ h
    exact ⟨inb, _, by rw [h1]; rfl, h2, rfl⟩
  · intro k h
    obtain ⟨inb, _, h2⟩ := aux_tick_at prog sts b i _ h
    exact ⟨_, h2, rfl⟩
  · intro k h
    obtain ⟨inb, h1, h2⟩ := aux_tick_at prog sts b i _ h
    exact ⟨inb, _, by rw [h1]; rfl, h2, rfl⟩

/-- **Every operator's tick-end code follows the same rule** (table regenerated from the operator sources on every
run): the `'tick` arm of its `match persistence` emits reset code, the `'static` arm emits none — the rule
`tickEndStage` models for `unique` and `fold`. -/
theorem tickEnd_table_uniform : ∀ e ∈ Gen.tickEndTable, e.2.1 = true ∧ e.2.2 = false := by decide

/-- the two operators of the corpus are rows of that table -/
theorem tickEnd_table_has_corpus_ops :
    ("unique.write_tick_end", true, false) ∈ Gen.tickEndTable ∧ ("fold.write_tick_end", true, false) ∈ Gen.tickEndTable := by
  decide

/-- `dedup` only ever grows the set: nothing a `'static` `unique` has seen is forgotten -/
theorem unique_static_keeps (seen b : List Int) (x : Int) (h : x ∈ seen) : x ∈ (dedup seen b).1 := by
  induction b generalizing seen with
  | nil => exact h
  | cons y ys ih =>
    simp only [dedup]
    split
    · exact ih seen h
    · exact ih (y :: seen) (by simp [h])

/-! ### non-vacuity -/

/-- `T0, D, T1` : 5 sent before tick 1 shows at tap 0 in tick 1 and at tap 1 in tick 2; run_available takes exactly
the two ticks -/
example :
    let s0 := send (RSt.init [.tap 0, .defer false, .tap 1]) [5]
    (runAvailable 10 s0 []).2 = [[(0, [5]), (1, [])], [(0, []), (1, [5])]] := by decide

/-- the same pipeline with `defer_tick_lazy`: one tick only, the 5 stays in the lazy buffer -/
example :
    let s0 := send (RSt.init [.tap 0, .defer true, .tap 1]) [5]
    (runAvailable 10 s0 []).2 = [[(0, [5]), (1, [])]] ∧
    ((runAvailable 10 s0 []).1.sts.map (·.back)) = [[], [5], []] := by decide

end HvTick.Tick

/-! ## ticks × `loop { }` blocks (model `HvTick.Model.Loop`) -/
namespace HvTick.Loop

/-- the two loop-related decisions of the tick closure, as found in meta_graph.rs on this run, are the ones the
theorems below are about (`Cfg` `⟨true, true⟩`) -/
theorem gen_tick_closure_loop_flags :
    Gen.schedRootLoopChecksBack = true ∧ Gen.tickEndCollectedInLoops = true := by decide

/-! ### the tick counter and run-until-idle -/

theorem loop_tick_counter_succ (c : Cfg) (fuel : Nat) (s s' : RSt) (b1 b2 : List Int) (o : Outs) (sch : Bool)
    (h : tickClosureWith c fuel s b1 b2 = some (s', o, sch)) : s'.tick = s.tick + 1 := by
  unfold tickClosureWith at h
  split at h
  · simp only [Option.some.injEq, Prod.mk.injEq] at h
    rw [← h.1]
  · simp at h

/-- **`run_available` takes another tick iff the tick asked for one** (`schedule_subgraph(true)`), and then with no new
input; otherwise it stops after this tick -/
theorem loop_runAvailable_continues_iff (c : Cfg) (fuel n : Nat) (s s' : RSt) (a b : List Int) (o : Outs) (sch : Bool)
    (h : tickClosureWith c fuel s a b = some (s', o, sch)) :
    runAvailableWith c fuel (n + 1) s a b =
      if sch then (runAvailableWith c fuel n s' [] []).map fun r => (r.1, o :: r.2) else some (s', [o]) := by
  simp [runAvailableWith, h]

/-- `run_available` advances the counter by exactly the number of ticks it ran -/
theorem loop_runAvailable_counter (c : Cfg) (fuel n : Nat) (s s' : RSt) (a b : List Int) (os : List Outs)
    (h : runAvailableWith c fuel n s a b = some (s', os)) : s'.tick = s.tick + os.length := by
  induction n generalizing s a b os with
  | zero => simp [runAvailableWith] at h
  | succ k ih =>
    cases ht : tickClosureWith c fuel s a b with
    | none => simp [runAvailableWith, ht] at h
    | some r =>
      obtain ⟨s1, o, sch⟩ := r
      have h1 := loop_tick_counter_succ c fuel s s1 a b o sch ht
      rw [loop_runAvailable_continues_iff c fuel k s s1 a b o sch ht] at h
      cases sch with
      | false =>
        simp only [Bool.false_eq_true, ↓reduceIte, Option.some.injEq, Prod.mk.injEq] at h
        rw [← h.1, ← h.2, h1]; rfl
      | true =>
        simp only [↓reduceIte] at h
        cases hr : runAvailableWith c fuel k s1 [] [] with
        | none => simp [hr] at h
        | some q =>
          obtain ⟨q1, q2⟩ := q
          simp only [hr, Option.map_some, Option.some.injEq, Prod.mk.injEq] at h
          obtain ⟨rfl, rfl⟩ := h
          have := ih s1 [] [] q2 hr
          rw [this, h1, List.length_cons]; omega

/-! ### the schedule check -/

/-- **What the schedule check looks at**: the tick asks for another one iff some *non-lazy* delayed handoff holds
data after the body — in its `back` buffer when its consumer sits in a root-level loop (the loop's `if` gate has
already swapped it), in its `buf` otherwise (the tick-level swap comes after the check). -/
theorem loop_sched_iff (c : Cfg) (hc : c.schedRootBack = true) (fuel : Nat) (s s' : RSt) (b1 b2 : List Int) (o : Outs)
    (sch : Bool) (r : Env × List Int × Outs) (hr : runNodes fuel 0 s.prog s.env b1 b2 = some r)
    (h : tickClosureWith c fuel s b1 b2 = some (s', o, sch)) :
    sch = true ↔ ∃ d ∈ allDelays fuel 0 s.prog, d.2.1 = false ∧
      (if d.2.2 = true then (r.1.get d.1).back ≠ [] else (r.1.get d.1).buf ≠ []) := by
  simp only [tickClosureWith, hr, hc, Bool.true_and, Option.some.injEq, Prod.mk.injEq] at h
  rw [← h.2.2, List.any_eq_true]
  constructor
  · rintro ⟨d, hd, hx⟩
    refine ⟨d, hd, ?_⟩
    cases h1 : d.2.1 <;> cases h2 : d.2.2 <;> simp_all
  · rintro ⟨d, hd, h1, hx⟩
    refine ⟨d, hd, ?_⟩
    cases h2 : d.2.2 <;> simp_all

/-- **Lazy data alone never asks for another tick**, also inside loop blocks: a program whose delayed handoffs are all
lazy never calls `schedule_subgraph`, whatever its buffers hold … -/
theorem loop_lazy_alone_does_not_continue (c : Cfg) (fuel : Nat) (s s' : RSt) (b1 b2 : List Int) (o : Outs) (sch : Bool)
    (hl : ∀ d ∈ allDelays fuel 0 s.prog, d.2.1 = true)
    (h : tickClosureWith c fuel s b1 b2 = some (s', o, sch)) : sch = false := by
  unfold tickClosureWith at h
  split at h
  · simp only [Option.some.injEq, Prod.mk.injEq] at h
    rw [← h.2.2, List.any_eq_false]
    intro d hd
    simp [hl d hd]
  · simp at h

/-- … so `run_available` stops after that tick, even though lazy buffers may be full -/
theorem loop_runAvailable_stops_on_lazy_only (c : Cfg) (fuel n : Nat) (s s' : RSt) (a b : List Int) (o : Outs) (sch : Bool)
    (hl : ∀ d ∈ allDelays fuel 0 s.prog, d.2.1 = true)
    (h : tickClosureWith c fuel s a b = some (s', o, sch)) :
    runAvailableWith c fuel (n + 1) s a b = some (s', [o]) := by
  rw [loop_runAvailable_continues_iff c fuel n s s' a b o sch h,
    loop_lazy_alone_does_not_continue c fuel s s' a b o sch hl h]
  rfl

/-- **Why the check must read `back` for a root-level loop**: after the loop body `pre ++ defer_tick :: post` and the
loop's own swap code (both inside the `if` gate, before the schedule check) everything that entered the `defer_tick`
(`c1`) is in `back` and `buf` is empty — a check of `buf` can never see it. -/
theorem root_loop_deferred_data_only_in_back (f p : Nat) (l : Bool) (pre post : List Node) (env : Env)
    (b1 s2 : List Int) (r1 : Env × List Int × Outs) (e1 : Env) (c1 : List Int) (o1 : Outs)
    (h1 : runNodes f 1 (pre ++ .defer p l :: post) env b1 s2 = some r1)
    (hpre1 : runNodes f 1 pre env b1 s2 = some (e1, c1, o1))
    (hmpre : mentions p f pre = false) (hmpost : mentions p (f - pre.length - 1) post = false) :
    ((swapAll (directDelays (pre ++ .defer p l :: post)) r1.1).get p).buf = [] ∧
    ((swapAll (directDelays (pre ++ .defer p l :: post)) r1.1).get p).back = c1 := by
  rw [deferTick_in_loop_stored_in_back f 1 p l pre post env b1 s2 r1 e1 c1 o1 h1 hpre1 hmpre hmpost]
  exact ⟨rfl, rfl⟩

/-- the program of the missed defect: `loop { src -> batch() -> tap 0 -> cycle(<3) through defer_tick -> tap 1 }` -/
def rootCycle : RSt := ⟨[.loop 0 false none [.tap 0, .cycle 0 false 3, .tap 1]], [], 0⟩

/-- with the special case `run_available` on input `[1]` runs three ticks (1, then the deferred 2, then 3) … -/
example : (runAvailableWith ⟨true, true⟩ 30 10 rootCycle [1] []).map (fun r => (r.1.tick, r.2)) =
    some (3, [[(100, [1]), (0, [1]), (1, [1])], [(100, [1]), (0, []), (1, [2])], [(100, [1]), (0, []), (1, [3])]]) := by
  decide

/-- **… and without it (every handoff checked on `buf`) the runner stops after one tick although the deferred `2` is
pending in `back`** — the root-loop special case of the schedule check is necessary. -/
theorem sched_root_loop_special_case_necessary :
    (runAvailableWith ⟨false, true⟩ 30 10 rootCycle [1] []).map (fun r => (r.1.tick, r.2.length, (r.1.env.get 0).back)) =
      some (1, 1, [2]) ∧
    (runAvailableWith ⟨true, true⟩ 30 10 rootCycle [1] []).map (fun r => (r.1.tick, r.2.length, (r.1.env.get 0).back)) =
      some (3, 3, []) := by decide

/-! ### 'tick state is cleared at the end of every tick — at every loop depth — and 'static state is kept -/

theorem aux_tickEnd_default (inl : Bool) (l : List (Nat × Bool × Bool)) (e : Env) (p : Nat)
    (h : e.get p = default) : (tickEndAll inl l e).get p = default := by
  induction l generalizing e with
  | nil => exact h
  | cons x r ih =>
    obtain ⟨q, st, il⟩ := x
    simp only [tickEndAll]
    apply ih
    split
    · by_cases hq : q = p
      · subst hq; exact aux_get_set_same _ _ _
      · rw [aux_get_set_ne _ _ _ _ hq]; exact h
    · exact h

theorem aux_tickEnd_resets (inl : Bool) (l : List (Nat × Bool × Bool)) (e : Env) (p : Nat) (il : Bool)
    (hm : (p, false, il) ∈ l) (hc : inl = true ∨ il = false) : (tickEndAll inl l e).get p = default := by
  induction l generalizing e with
  | nil => simp at hm
  | cons x r ih =>
    by_cases hr : (p, false, il) ∈ r
    · obtain ⟨q, st, il'⟩ := x
      simp only [tickEndAll]
      exact ih _ hr
    · have hx : x = (p, false, il) := by
        rcases List.mem_cons.mp hm with h | h
        · exact h.symm
        · exact absurd h hr
      subst hx
      simp only [tickEndAll]
      apply aux_tickEnd_default
      have : (!false && (inl || !il)) = true := by rcases hc with h | h <;> simp [h]
      rw [this]
      exact aux_get_set_same _ _ _

theorem aux_tickEnd_frame (inl : Bool) (l : List (Nat × Bool × Bool)) (e : Env) (p : Nat)
    (h : ∀ x ∈ l, x.1 = p → x.2.1 = true) : (tickEndAll inl l e).get p = e.get p := by
  induction l generalizing e with
  | nil => rfl
  | cons x r ih =>
    obtain ⟨q, st, il⟩ := x
    simp only [tickEndAll]
    rw [ih _ (fun y hy => h y (by simp [hy]))]
    split
    · rename_i hcond
      by_cases hq : q = p
      · have := h (q, st, il) (by simp) hq
        simp only at this
        simp [this] at hcond
      · exact aux_get_set_ne _ _ _ _ hq
    · rfl

/-- **'tick state is cleared at the end of every tick, wherever the operator stands**: after the tick closure the state
slot of every `'tick` operator of the program — outside loops, in a root-level loop or in a nested loop (`il` is
arbitrary) — is back to its initial value. -/
theorem loop_tick_state_cleared (c : Cfg) (hc : c.tickEndInLoops = true) (fuel : Nat) (s s' : RSt) (b1 b2 : List Int)
    (o : Outs) (sch : Bool) (h : tickClosureWith c fuel s b1 b2 = some (s', o, sch))
    (p : Nat) (il : Bool) (hp : (p, false, il) ∈ allOps fuel 0 s.prog) : s'.env.get p = default := by
  unfold tickClosureWith at h
  split at h
  · simp only [Option.some.injEq, Prod.mk.injEq] at h
    rw [← h.1]
    exact aux_tickEnd_resets _ _ _ p il hp (Or.inl hc)
  · simp at h

/-- **'static state is kept**: a slot used only by `'static` operators (and by no tick-level delayed handoff) leaves the
tick exactly as the body left it. -/
theorem loop_static_state_kept (c : Cfg) (fuel : Nat) (s s' : RSt) (b1 b2 : List Int) (o : Outs) (sch : Bool)
    (r : Env × List Int × Outs) (hr : runNodes fuel 0 s.prog s.env b1 b2 = some r)
    (h : tickClosureWith c fuel s b1 b2 = some (s', o, sch))
    (p : Nat) (hp : ∀ x ∈ allOps fuel 0 s.prog, x.1 = p → x.2.1 = true)
    (hd : ∀ x ∈ directDelays s.prog, x.1 ≠ p) : s'.env.get p = r.1.get p := by
  simp only [tickClosureWith, hr, Option.some.injEq, Prod.mk.injEq] at h
  rw [← h.1]
  simp only
  rw [aux_tickEnd_frame _ _ _ p hp, aux_swapAll_frame p _ _ hd]

/-- what a `'static` operator's slot holds after the body: everything it held before plus what it absorbed — e.g. for
`fold` the old items followed by this run's batch -/
theorem op_node_state (f d p : Nat) (k : OpKind) (st : Bool) (t : Nat) (ns : List Node) (env : Env) (b s2 : List Int)
    (r : Env × List Int × Outs) (h : runNodes (f + 1) d (.op p k st t :: ns) env b s2 = some r)
    (hm : mentions p f ns = false) : r.1.get p = ⟨(opStep k (env.get p).buf b).1, []⟩ := by
  simp only [runNodes] at h
  cases hq : runNodes f d ns (env.set p ⟨(opStep k (env.get p).buf b).1, []⟩) (opStep k (env.get p).buf b).2.1 s2 with
  | none => simp [hq] at h
  | some q =>
    simp only [hq, Option.map_some, Option.some.injEq] at h
    have : r.1 = q.1 := by rw [← h]
    rw [this, frame p f d ns _ _ s2 q hq hm, aux_get_set_same]

theorem aux_allOps_inLoop (f d : Nat) (hd : d ≠ 0) (ns : List Node) : ∀ x ∈ allOps f d ns, x.2.2 = true := by
  induction f generalizing d ns with
  | zero => simp [allOps]
  | succ k ih =>
    cases ns with
    | nil => simp [allOps]
    | cons n r =>
      cases n with
      | op q kd st t =>
        simp only [allOps, List.mem_cons]
        rintro x (rfl | hx)
        · simpa using hd
        · exact ih d hd r x hx
      | loop id ml ex body =>
        simp only [allOps, List.mem_append]
        rintro x (hx | hx)
        · exact ih (d + 1) (by omega) body x hx
        · exact ih d hd r x hx
      | map c => simpa [allOps] using ih d hd r
      | tap i => simpa [allOps] using ih d hd r
      | defer q l => simpa [allOps] using ih d hd r
      | cycle q l m => simpa [allOps] using ih d hd r

/-- **Where the tick-end code is collected from**: the operators of a loop body — at whatever depth — are among the
collected ones (so `loop_tick_state_cleared` applies to them), marked as inside a loop block. -/
theorem tickEnd_collected_from_loop_bodies (f d id : Nat) (ml : Bool) (ex : Option Bool) (body r : List Node) :
    ∀ x ∈ allOps f (d + 1) body, x ∈ allOps (f + 1) d (.loop id ml ex body :: r) ∧ x.2.2 = true := by
  intro x hx
  exact ⟨by simp [allOps, hx], aux_allOps_inLoop f (d + 1) (by omega) body x hx⟩

/-- a root-level loop with a `'tick` and a `'static` fold, three ticks with inputs [1,2], [10], [100] -/
def foldsInLoop : RSt := ⟨[.loop 0 false none [.tap 0, .op 0 .fold false 8, .op 1 .fold true 9]], [], 0⟩

def threeTicks (c : Cfg) (s : RSt) : Option (List Outs) :=
  (tickClosureWith c 30 s [1, 2] []).bind fun r1 =>
  (tickClosureWith c 30 r1.1 [10] []).bind fun r2 =>
  (tickClosureWith c 30 r2.1 [100] []).map fun r3 => [r1.2.1, r2.2.1, r3.2.1]

/-- **… and collecting it there is necessary**: if `write_tick_end` were collected only from operators outside loop
blocks, the `'tick` fold in the loop (tap 8) would behave like the `'static` one (tap 9): 3, 13, 113 instead of
3, 10, 100. -/
theorem tickEnd_in_loops_necessary :
    threeTicks ⟨true, true⟩ foldsInLoop =
      some [[(100, [1]), (0, [1, 2]), (8, [3]), (9, [3])], [(100, [1]), (0, [10]), (8, [10]), (9, [13])],
            [(100, [1]), (0, [100]), (8, [100]), (9, [113])]] ∧
    threeTicks ⟨true, false⟩ foldsInLoop =
      some [[(100, [1]), (0, [1, 2]), (8, [3]), (9, [3])], [(100, [1]), (0, [10]), (8, [13]), (9, [13])],
            [(100, [1]), (0, [100]), (8, [113]), (9, [113])]] := by decide

/-- non-vacuity of `loop_tick_state_cleared` / `tickEnd_collected_from_loop_bodies`: a `'tick` `unique` in a nested
loop is collected, and its set is empty again after a tick that filled it -/
example :
    (1, false, true) ∈ allOps 30 0 [.loop 0 false none [.loop 1 false none [.cycle 0 false 3, .op 1 .unique false 0]]] ∧
    (tickClosureWith ⟨true, true⟩ 30 ⟨[.loop 0 false none [.loop 1 false none [.cycle 0 false 3, .op 1 .unique false 0]]], [], 0⟩
      [1] []).map (fun r => (r.1.env.get 1).buf) = some [] := by decide

end HvTick.Loop
