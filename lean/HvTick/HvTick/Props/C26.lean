/-
C26 — loop blocks iterate to a fixpoint with correct windowing.

Model: `HvTick.Model.Loop` (`emit_loop_gate`: root loop = `if`, nested loop = `while`, gate = non-lazy entry
handoffs ∨ non-lazy delayed back buffers of the loop, swap code at the end of the body, exit handoff accumulating
over iterations).  The `while` is the generic `iterate gate step`; its theorems hold for every gate and every body.
Finding F26 (a loop fed only through `batch_lazy` ran unconditionally) is fixed in /repo; the model is the fixed code.
-/
import HvTick.Model.Loop
import HvTick.Gen.FloTypes
namespace HvTick.Loop

/-! ### the `while` of a nested loop -/

theorem aux_iterate_spec {σ : Type} (gate : σ → Bool) (step : σ → Option σ) (fuel : Nat) (s s' : σ) (n : Nat)
    (h : iterate gate step fuel s = some (s', n)) :
    iterN step n s = some s' ∧ gate s' = false ∧
      ∀ j, j < n → ∃ sj, iterN step j s = some sj ∧ gate sj = true := by
  induction fuel generalizing s n with
  | zero =>
    simp only [iterate] at h
    split at h
    · simp at h
    · rename_i hg
      simp only [Option.some.injEq, Prod.mk.injEq] at h
      obtain ⟨rfl, rfl⟩ := h
      exact ⟨rfl, by simpa using hg, by intro j hj; omega⟩
  | succ k ih =>
    simp only [iterate] at h
    split at h
    · rename_i hg
      split at h
      · rename_i s1 hs1
        cases hr : iterate gate step k s1 with
        | none => simp [hr] at h
        | some r =>
          obtain ⟨s2, m⟩ := r
          simp only [hr, Option.map_some, Option.some.injEq, Prod.mk.injEq] at h
          obtain ⟨rfl, rfl⟩ := h
          obtain ⟨h1, h2, h3⟩ := ih s1 m hr
          refine ⟨by simp [iterN, hs1, h1], h2, ?_⟩
          intro j hj
          cases j with
          | zero => exact ⟨s, rfl, hg⟩
          | succ j' =>
            obtain ⟨sj, hsj, hgj⟩ := h3 j' (by omega)
            exact ⟨sj, by simp [iterN, hs1, hsj], hgj⟩
      · simp at h
    · rename_i hg
      simp only [Option.some.injEq, Prod.mk.injEq] at h
      obtain ⟨rfl, rfl⟩ := h
      exact ⟨rfl, by simpa using hg, by intro j hj; omega⟩

/-- **A nested loop re-runs while its gate holds and stops otherwise**: if the `while` finishes after `n`
iterations in state `s'`, then `s'` is the `n`-fold body of the start state, the gate held before each of the `n`
iterations, and it is false in `s'`. -/
theorem nested_loop_runs_while_gate {σ : Type} (gate : σ → Bool) (step : σ → Option σ) (fuel : Nat) (s s' : σ)
    (n : Nat) (h : iterate gate step fuel s = some (s', n)) :
    iterN step n s = some s' ∧ gate s' = false ∧
      ∀ j, j < n → ∃ sj, iterN step j s = some sj ∧ gate sj = true :=
  aux_iterate_spec gate step fuel s s' n h

theorem aux_iterate_complete {σ : Type} (gate : σ → Bool) (step : σ → Option σ) (fuel : Nat) (s s' : σ) (n : Nat)
    (hn : n ≤ fuel) (h1 : iterN step n s = some s') (h2 : gate s' = false)
    (h3 : ∀ j, j < n → ∃ sj, iterN step j s = some sj ∧ gate sj = true) :
    iterate gate step fuel s = some (s', n) := by
  induction n generalizing s fuel with
  | zero =>
    simp only [iterN, Option.some.injEq] at h1
    subst h1
    cases fuel <;> simp [iterate, h2]
  | succ m ih =>
    have hg0 : gate s = true := by
      obtain ⟨s0, hs0, hg⟩ := h3 0 (by omega)
      simp only [iterN, Option.some.injEq] at hs0
      rw [hs0]; exact hg
    cases fuel with
    | zero => omega
    | succ k =>
      cases hs : step s with
      | none => simp [iterN, hs] at h1
      | some s1 =>
        simp only [iterN, hs, Option.bind_some] at h1
        have := ih k s1 (by omega) h1 (by
          intro j hj
          obtain ⟨sj, hsj, hgj⟩ := h3 (j + 1) (by omega)
          exact ⟨sj, by simpa [iterN, hs] using hsj, hgj⟩)
        simp [iterate, hg0, hs, this]

theorem aux_iterate_le {σ : Type} (gate : σ → Bool) (step : σ → Option σ) (fuel : Nat) (s s' : σ) (n : Nat)
    (h : iterate gate step fuel s = some (s', n)) : n ≤ fuel := by
  induction fuel generalizing s n with
  | zero =>
    simp only [iterate] at h
    split at h
    · simp at h
    · simp only [Option.some.injEq, Prod.mk.injEq] at h; omega
  | succ k ih =>
    simp only [iterate] at h
    split at h
    · split at h
      · rename_i s1 _
        cases hr : iterate gate step k s1 with
        | none => simp [hr] at h
        | some r =>
          obtain ⟨s2, m⟩ := r
          simp only [hr, Option.map_some, Option.some.injEq, Prod.mk.injEq] at h
          obtain ⟨rfl, rfl⟩ := h
          have := ih s1 m hr
          omega
      · simp at h
    · simp only [Option.some.injEq, Prod.mk.injEq] at h; omega

/-- **The loop terminates (within the budget) iff the gate becomes false**: no claim that it always does — a
body that keeps the gate true forever never leaves the `while` (the model reports that as `none`). -/
theorem loop_terminates_iff_gate_false {σ : Type} (gate : σ → Bool) (step : σ → Option σ) (fuel : Nat) (s : σ) :
    (∃ r, iterate gate step fuel s = some r) ↔
      ∃ n s', n ≤ fuel ∧ iterN step n s = some s' ∧ gate s' = false ∧
        ∀ j, j < n → ∃ sj, iterN step j s = some sj ∧ gate sj = true := by
  constructor
  · rintro ⟨⟨s', n⟩, h⟩
    obtain ⟨h1, h2, h3⟩ := aux_iterate_spec gate step fuel s s' n h
    exact ⟨n, s', aux_iterate_le gate step fuel s s' n h, h1, h2, h3⟩
  · rintro ⟨n, s', hn, h1, h2, h3⟩
    exact ⟨_, aux_iterate_complete gate step fuel s s' n hn h1 h2 h3⟩

/-! ### how `runNodes` treats a loop node -/

/-- the two gated shapes `emit_loop_gate` emits, as one function of the loop's state: `if` (root), `while` (nested) -/
def loopFin (root : Bool) (gate : LSt → Bool) (step : LSt → Option LSt) (f : Nat) (st0 : LSt) : Option LSt :=
  if root then (if gate st0 then step st0 else some st0)
  else (iterate gate step f st0).map (·.1)

/-- how `runNodes` treats a loop node -/
theorem loop_node_eq (f d : Nat) (id : Nat) (ml : Bool) (ex : Option Bool) (body ns : List Node)
    (env : Env) (b s2 : List Int) :
    runNodes (f + 1) d (.loop id ml ex body :: ns) env b s2 =
      match loopFin (decide (d = 0))
          (fun st : LSt => gateOf ((ml, st.main) :: (match ex with | some l => [(l, st.extra)] | none => []))
            (directDelays body) st.env)
          (fun st : LSt =>
            match runNodes f (d + 1) body st.env (st.main ++ st.extra) s2 with
            | some r => some ⟨swapAll (directDelays body) r.1, [], [], st.exit ++ r.2.1,
                st.outs ++ ((100 + id, [1]) :: r.2.2)⟩
            | none => none)
          f ⟨env, b, if ex.isSome then s2 else [], [], []⟩ with
      | some st => (runNodes f d ns st.env st.exit s2).map fun r => (r.1, r.2.1, st.outs ++ r.2.2)
      | none => none := by
  simp only [runNodes, loopFin, decide_eq_true_eq]
  first | rfl | (split <;> rfl) | (split <;> split <;> rfl) | (cases d <;> simp)

/-- one iteration of a loop as `runNodes` performs it: the body on the entry buffers, then the loop's swap code -/
def loopStep (f d id : Nat) (body : List Node) (s2 : List Int) (st : LSt) : Option LSt :=
  match runNodes f (d + 1) body st.env (st.main ++ st.extra) s2 with
  | some r => some ⟨swapAll (directDelays body) r.1, [], [], st.exit ++ r.2.1, st.outs ++ ((100 + id, [1]) :: r.2.2)⟩
  | none => none

theorem loop_node_uses_loopStep (f d : Nat) (id : Nat) (ml : Bool) (ex : Option Bool) (body ns : List Node)
    (env : Env) (b s2 : List Int) :
    runNodes (f + 1) d (.loop id ml ex body :: ns) env b s2 =
      match loopFin (decide (d = 0))
          (fun st : LSt => gateOf ((ml, st.main) :: (match ex with | some l => [(l, st.extra)] | none => []))
            (directDelays body) st.env)
          (loopStep f d id body s2) f ⟨env, b, if ex.isSome then s2 else [], [], []⟩ with
      | some st => (runNodes f d ns st.env st.exit s2).map fun r => (r.1, r.2.1, st.outs ++ r.2.2)
      | none => none := loop_node_eq f d id ml ex body ns env b s2

/-- **Windowing**: `batch()` / `batch_lazy()` release the whole entry batch to the iteration that runs first and
nothing afterwards (an iteration leaves both entry buffers empty, so every later iteration's body input is `[]`), and
`all_iterations()` hands on everything every iteration produced, in iteration order (the exit buffer only grows, by
exactly the body's output). -/
theorem windowing_releases_batch_once (f d id : Nat) (body : List Node) (s2 : List Int) (st st1 : LSt)
    (h : loopStep f d id body s2 st = some st1) :
    st1.main = [] ∧ st1.extra = [] ∧
      ∃ r, runNodes f (d + 1) body st.env (st.main ++ st.extra) s2 = some r ∧ st1.exit = st.exit ++ r.2.1 ∧
        st1.env = swapAll (directDelays body) r.1 := by
  unfold loopStep at h
  split at h
  · rename_i r hr
    simp only [Option.some.injEq] at h
    subst h
    exact ⟨rfl, rfl, r, hr, rfl, rfl⟩
  · simp at h

/-- **A root-level loop runs at most once per tick**: whatever the gate and the body, the root shape executes
`step` (the body) at most once — it is `step st0` or `st0` itself. -/
theorem root_loop_at_most_once_per_tick (gate : LSt → Bool) (step : LSt → Option LSt) (f : Nat) (st0 : LSt) :
    loopFin true gate step f st0 = step st0 ∨ loopFin true gate step f st0 = some st0 := by
  unfold loopFin
  cases gate st0 <;> simp

/-- … and it runs iff the gate holds at the start of the tick -/
theorem root_loop_runs_iff_gate (gate : LSt → Bool) (step : LSt → Option LSt) (f : Nat) (st0 : LSt) :
    loopFin true gate step f st0 = if gate st0 then step st0 else some st0 := by
  simp [loopFin]

/-- a nested loop is the `while` (`iterate`) — so `nested_loop_runs_while_gate` and
`loop_terminates_iff_gate_false` apply to it -/
theorem nested_loop_is_while (gate : LSt → Bool) (step : LSt → Option LSt) (f : Nat) (st0 : LSt) :
    loopFin false gate step f st0 = (iterate gate step f st0).map (·.1) := by
  simp [loopFin]

/-- **A loop stops (does not run) when none of its non-lazy entry inputs / delayed data is non-empty**: gate false
⇒ the state is handed on untouched, root or nested. -/
theorem loop_stops_without_nonlazy_data (root : Bool) (gate : LSt → Bool) (step : LSt → Option LSt)
    (f : Nat) (st0 : LSt) (hg : gate st0 = false) :
    loopFin root gate step f st0 = some st0 := by
  cases root <;> cases f <;> simp [loopFin, iterate, hg]

/-- only non-lazy entries and non-lazy delayed buffers open the gate: with every entry lazy or empty and every
non-lazy delayed back buffer empty, the loop does not run — whatever the lazy ones hold -/
theorem gate_ignores_lazy (entries : List (Bool × List Int)) (delays : List (Nat × Bool)) (env : Env)
    (he : ∀ e ∈ entries, e.1 = true ∨ e.2 = [])
    (hd : ∀ d ∈ delays, d.2 = true ∨ (env.get d.1).back = []) :
    gateOf entries delays env = false := by
  simp only [gateOf, Bool.or_eq_false_iff, List.any_eq_false]
  constructor
  · intro e hm
    rcases he e hm with h | h <;> simp [h]
  · intro d hm
    rcases hd d hm with h | h <;> simp [h]

/-- … and a non-empty non-lazy entry or delayed back buffer does open it -/
theorem gate_opens (entries : List (Bool × List Int)) (delays : List (Nat × Bool)) (env : Env) :
    gateOf entries delays env = true ↔
      (∃ e ∈ entries, e.1 = false ∧ e.2 ≠ []) ∨ (∃ d ∈ delays, d.2 = false ∧ (env.get d.1).back ≠ []) := by
  simp [gateOf, List.any_eq_true]

/-- **A loop fed only through `batch_lazy` never fires on its own** (finding F26, fixed in /repo: before the fix the
empty list of gate conditions made `emit_loop_gate` emit the body unconditionally): with a lazy main entry, a lazy
(or no) second entry and only lazy delayed handoffs, the loop does not run, whatever data is waiting. -/
theorem all_lazy_loop_never_runs (root : Bool) (ex : Option Bool) (delays : List (Nat × Bool))
    (step : LSt → Option LSt) (f : Nat) (st0 : LSt) (hex : ex ≠ some false) (hd : ∀ d ∈ delays, d.2 = true) :
    loopFin root
      (fun st : LSt => gateOf ((true, st.main) :: (match ex with | some l => [(l, st.extra)] | none => [])) delays st.env)
      step f st0 = some st0 := by
  apply loop_stops_without_nonlazy_data
  apply gate_ignores_lazy
  · intro e he
    cases ex with
    | none => simp at he; left; rw [he]
    | some l =>
      cases l with
      | false => exact absurd rfl hex
      | true => simp at he; rcases he with rfl | rfl <;> exact Or.inl rfl
  · intro d hdm; exact Or.inl (hd d hdm)

/-- the witness of F26 on the model: root loop fed only through `batch_lazy`, data waiting — the body does not run
(no marker), the exit buffer is empty -/
example :
    (runNodes 10 0 [.loop 0 true none [.tap 0], .tap 1] [] [1, 2] []).map (·.2.2) = some [(1, [])] := by decide

/-! ### `defer_tick` inside a loop -/

theorem aux_get_set_same (e : Env) (p : Nat) (h : H) : (Env.set e p h).get p = h := by
  simp [Env.set, Env.get]

theorem aux_swap_single (env : Env) (p : Nat) (l : Bool) :
    (swapAll [(p, l)] env).get p = ⟨(env.get p).back, (env.get p).buf⟩ := by
  simp [swapAll, aux_get_set_same]

/-- the `defer_tick` node hands on exactly its handoff's back buffer and stores exactly its input -/
theorem defer_node_eq (f d p : Nat) (l : Bool) (ns : List Node) (env : Env) (b s2 : List Int) :
    runNodes (f + 1) d (.defer p l :: ns) env b s2 =
      runNodes f d ns (env.set p ⟨b, []⟩) (env.get p).back s2 := rfl

/-- one-iteration delay under an explicit frame hypothesis (discharged by `frame` below) -/
theorem aux_deferTick_under_frame (f d p : Nat) (l : Bool) (post : List Node) (env : Env)
    (b1 b2 s2 : List Int) (r1 : Env × List Int × Outs)
    (_h1 : runNodes (f + 1) d (.defer p l :: post) env b1 s2 = some r1)
    (hframe : r1.1.get p = (env.set p ⟨b1, []⟩).get p) :
    runNodes (f + 1) d (.defer p l :: post) (swapAll [(p, l)] r1.1) b2 s2 =
      runNodes f d post ((swapAll [(p, l)] r1.1).set p ⟨b2, []⟩) b1 s2 := by
  rw [defer_node_eq, aux_swap_single, hframe, aux_get_set_same]

/-! ### frame: a block only touches the handoffs it mentions -/

/-- does the block (to the depth the budget reaches) contain the handoff `p`? -/
def mentions (p : Nat) : Nat → List Node → Bool
  | 0, _ => false
  | _ + 1, [] => false
  | f + 1, .defer q _ :: r => q == p || mentions p f r
  | f + 1, .cycle q _ _ :: r => q == p || mentions p f r
  | f + 1, .op q _ _ _ :: r => q == p || mentions p f r
  | f + 1, .loop _ _ _ body :: r => mentions p f body || mentions p f r
  | f + 1, _ :: r => mentions p f r

theorem aux_get_set_ne (e : Env) (p q : Nat) (h : H) (hne : q ≠ p) : (Env.set e q h).get p = e.get p := by
  have hq : (q == p) = false := by simpa using hne
  simp only [Env.set, Env.get, List.find?_cons, hq]
  congr 1
  induction e with
  | nil => rfl
  | cons x xs ih =>
    simp only [List.filter_cons]
    by_cases hx : x.1 = q
    · have : (x.1 == p) = false := by subst hx; simpa using hne
      simp only [hx, bne_self_eq_false, Bool.false_eq_true, ↓reduceIte, List.find?_cons]
      rw [hx] at this
      simp only [this]
      exact ih
    · have : (x.1 != q) = true := by simpa using hx
      simp only [this, ↓reduceIte, List.find?_cons]
      split <;> simp_all

theorem aux_swapAll_frame (p : Nat) (delays : List (Nat × Bool)) (env : Env)
    (h : ∀ x ∈ delays, x.1 ≠ p) : (swapAll delays env).get p = env.get p := by
  unfold swapAll
  induction delays generalizing env with
  | nil => rfl
  | cons d ds ih =>
    simp only [List.foldl_cons]
    rw [ih _ (fun x hx => h x (by simp [hx]))]
    exact aux_get_set_ne _ _ _ _ (h d (by simp))

theorem aux_direct_not_mentioned (p : Nat) (f d : Nat) (body : List Node) (env : Env) (b s2 : List Int)
    (hrun : (runNodes f d body env b s2).isSome) (hm : mentions p f body = false) :
    ∀ x ∈ directDelays body, x.1 ≠ p := by
  induction f generalizing d body env b with
  | zero => simp [runNodes] at hrun
  | succ k ih =>
    cases body with
    | nil => simp [directDelays]
    | cons n ns =>
      cases n with
      | map c => simp only [runNodes] at hrun; simp only [mentions] at hm; simpa [directDelays] using ih _ _ _ _ hrun hm
      | tap i =>
        simp only [runNodes, Option.isSome_map] at hrun; simp only [mentions] at hm
        simpa [directDelays] using ih _ _ _ _ hrun hm
      | defer q l =>
        simp only [runNodes] at hrun
        simp only [mentions, Bool.or_eq_false_iff, beq_eq_false_iff_ne] at hm
        intro x hx
        simp only [directDelays, List.mem_cons] at hx
        rcases hx with rfl | hx
        · exact hm.1
        · exact ih _ _ _ _ hrun hm.2 x hx
      | cycle q l m =>
        simp only [runNodes] at hrun
        simp only [mentions, Bool.or_eq_false_iff, beq_eq_false_iff_ne] at hm
        intro x hx
        simp only [directDelays, List.mem_cons] at hx
        rcases hx with rfl | hx
        · exact hm.1
        · exact ih _ _ _ _ hrun hm.2 x hx
      | op q kd st t =>
        simp only [runNodes, Option.isSome_map] at hrun
        simp only [mentions, Bool.or_eq_false_iff] at hm
        simpa [directDelays] using ih _ _ _ _ hrun hm.2
      | loop id ml ex bd =>
        simp only [mentions, Bool.or_eq_false_iff] at hm
        simp only [directDelays]
        simp only [runNodes] at hrun
        split at hrun
        · rename_i st _
          simp only [Option.isSome_map] at hrun
          exact ih _ _ _ _ hrun hm.2
        · simp at hrun


theorem aux_iterate_env (p : Nat) (gate : LSt → Bool) (step : LSt → Option LSt)
    (hstep : ∀ st st1, step st = some st1 → st1.env.get p = st.env.get p) (fuel : Nat) (st0 st' : LSt) (n : Nat)
    (h : iterate gate step fuel st0 = some (st', n)) : st'.env.get p = st0.env.get p := by
  induction fuel generalizing st0 n with
  | zero =>
    simp only [iterate] at h
    split at h
    · simp at h
    · simp only [Option.some.injEq, Prod.mk.injEq] at h; rw [h.1]
  | succ k ih =>
    simp only [iterate] at h
    split at h
    · split at h
      · rename_i s1 hs1
        cases hr : iterate gate step k s1 with
        | none => simp [hr] at h
        | some r =>
          obtain ⟨s2, m⟩ := r
          simp only [hr, Option.map_some, Option.some.injEq, Prod.mk.injEq] at h
          obtain ⟨rfl, _⟩ := h
          rw [ih s1 m hr, hstep st0 s1 hs1]
      · simp at h
    · simp only [Option.some.injEq, Prod.mk.injEq] at h; rw [h.1]

theorem aux_loopFin_env (p : Nat) (root : Bool) (gate : LSt → Bool) (step : LSt → Option LSt)
    (hstep : ∀ st st1, step st = some st1 → st1.env.get p = st.env.get p) (f : Nat) (st0 st : LSt)
    (h : loopFin root gate step f st0 = some st) : st.env.get p = st0.env.get p := by
  unfold loopFin at h
  split at h
  · split at h
    · exact hstep _ _ h
    · simp only [Option.some.injEq] at h; rw [h]
  · cases hi : iterate gate step f st0 with
    | none => simp [hi] at h
    | some r =>
      obtain ⟨s', n⟩ := r
      simp only [hi, Option.map_some, Option.some.injEq] at h
      subst h
      exact aux_iterate_env p gate step hstep f st0 s' n hi

/-- **Frame**: running a block changes no delayed handoff that the block does not mention. -/
theorem frame (p : Nat) (f d : Nat) (ns : List Node) (env : Env) (b s2 : List Int) (r : Env × List Int × Outs)
    (h : runNodes f d ns env b s2 = some r) (hm : mentions p f ns = false) : r.1.get p = env.get p := by
  induction f generalizing d ns env b r with
  | zero => simp [runNodes] at h
  | succ k ih =>
    cases ns with
    | nil => simp only [runNodes, Option.some.injEq] at h; rw [← h]
    | cons n ns =>
      cases n with
      | map c => simp only [runNodes] at h; simp only [mentions] at hm; exact ih _ _ _ _ _ h hm
      | tap i =>
        simp only [runNodes] at h; simp only [mentions] at hm
        cases hr : runNodes k d ns env b s2 with
        | none => simp [hr] at h
        | some r' =>
          simp only [hr, Option.map_some, Option.some.injEq] at h
          have hr1 : r.1 = r'.1 := by rw [← h]
          rw [hr1]; exact ih d ns env b r' hr hm
      | defer q l =>
        simp only [runNodes] at h
        simp only [mentions, Bool.or_eq_false_iff, beq_eq_false_iff_ne] at hm
        rw [ih _ _ _ _ _ h hm.2, aux_get_set_ne _ _ _ _ hm.1]
      | cycle q l m =>
        simp only [runNodes] at h
        simp only [mentions, Bool.or_eq_false_iff, beq_eq_false_iff_ne] at hm
        rw [ih _ _ _ _ _ h hm.2, aux_get_set_ne _ _ _ _ hm.1]
      | op q kd st t =>
        simp only [runNodes] at h
        simp only [mentions, Bool.or_eq_false_iff, beq_eq_false_iff_ne] at hm
        cases hr : runNodes k d ns (env.set q ⟨(opStep kd (env.get q).buf b).1, []⟩) (opStep kd (env.get q).buf b).2.1 s2 with
        | none => simp [hr] at h
        | some r' =>
          simp only [hr, Option.map_some, Option.some.injEq] at h
          have hr1 : r.1 = r'.1 := by rw [← h]
          rw [hr1, ih _ _ _ _ r' hr hm.2, aux_get_set_ne _ _ _ _ hm.1]
      | loop id ml ex body =>
        simp only [mentions, Bool.or_eq_false_iff] at hm
        rw [loop_node_eq] at h
        split at h
        · rename_i st hfin
          cases hr : runNodes k d ns st.env st.exit s2 with
          | none => simp [hr] at h
          | some r' =>
            simp only [hr, Option.map_some, Option.some.injEq] at h
            have hr1 : r.1 = r'.1 := by rw [← h]
            rw [hr1, ih d ns st.env st.exit r' hr hm.2]
            refine aux_loopFin_env p _ _ _ ?_ k _ st hfin
            intro s0 s1 hs
            cases hb : runNodes k (d + 1) body s0.env (s0.main ++ s0.extra) s2 with
            | none => simp [hb] at hs
            | some rb =>
              simp only [hb, Option.some.injEq] at hs
              have hs1 : s1.env = swapAll (directDelays body) rb.1 := by rw [← hs]
              rw [hs1, aux_swapAll_frame p _ _ (aux_direct_not_mentioned p k (d + 1) body s0.env (s0.main ++ s0.extra) s2 (by rw [hb]; rfl) hm.1)]
              exact ih (d + 1) body s0.env _ rb hb hm.1
        · simp at h

/-- **`defer_tick` inside a loop delays by exactly one iteration**, for a body `defer :: post` whose rest does
not mention the handoff: what entered in one iteration (`b1`) is what `post` receives in the next. -/
theorem deferTick_in_loop_one_iteration (f d p : Nat) (l : Bool) (post : List Node) (env : Env)
    (b1 b2 s2 : List Int) (r1 : Env × List Int × Outs)
    (h1 : runNodes (f + 1) d (.defer p l :: post) env b1 s2 = some r1)
    (hpost : mentions p f post = false) :
    runNodes (f + 1) d (.defer p l :: post) (swapAll [(p, l)] r1.1) b2 s2 =
      runNodes f d post ((swapAll [(p, l)] r1.1).set p ⟨b2, []⟩) b1 s2 := by
  apply aux_deferTick_under_frame f d p l post env b1 b2 s2 r1 h1
  rw [defer_node_eq] at h1
  exact frame p f d post _ _ s2 r1 h1 hpost

/-! ### `defer_tick` anywhere in a loop body -/

/-- sequencing of two runs: the second continues from the first one's handoffs and output batch; tap records append -/
def andThen (x : Option (Env × List Int × Outs)) (k : Env → List Int → Option (Env × List Int × Outs)) :
    Option (Env × List Int × Outs) :=
  match x with
  | some r => (k r.1 r.2.1).map fun q => (q.1, q.2.1, r.2.2 ++ q.2.2)
  | none => none

theorem aux_andThen_map (x : Option (Env × List Int × Outs)) (k : Env → List Int → Option (Env × List Int × Outs))
    (o : Outs) :
    andThen (x.map fun r => (r.1, r.2.1, o ++ r.2.2)) k = (andThen x k).map fun r => (r.1, r.2.1, o ++ r.2.2) := by
  cases x with
  | none => rfl
  | some r =>
    simp only [andThen, Option.map_some]
    cases k r.1 r.2.1 with
    | none => rfl
    | some q => simp [List.append_assoc]

/-- **A block runs its nodes in sequence**: `pre ++ rest` is `pre`, then `rest` on what `pre` left (with the budget
`pre` did not use). -/
theorem runNodes_append (f d : Nat) (pre rest : List Node) (env : Env) (b s2 : List Int) :
    runNodes f d (pre ++ rest) env b s2 =
      andThen (runNodes f d pre env b s2) (fun e c => runNodes (f - pre.length) d rest e c s2) := by
  induction pre generalizing f env b with
  | nil =>
    cases f with
    | zero => simp [runNodes, andThen]
    | succ k =>
      simp only [List.nil_append, runNodes, andThen, List.length_nil, Nat.sub_zero, List.nil_append]
      cases runNodes (k + 1) d rest env b s2 <;> simp
  | cons n ns ih =>
    cases f with
    | zero => simp [runNodes, andThen]
    | succ k =>
      have hk : k + 1 - (n :: ns).length = k - ns.length := by simp
      rw [hk]
      cases n with
      | map c => simp only [List.cons_append, runNodes]; exact ih k env _
      | tap i =>
        simp only [List.cons_append, runNodes]
        rw [ih k env b]
        have := aux_andThen_map (runNodes k d ns env b s2) (fun e c => runNodes (k - ns.length) d rest e c s2) [(i, b)]
        simp only [List.singleton_append] at this
        exact this.symm
      | defer q l => simp only [List.cons_append, runNodes]; exact ih k _ _
      | cycle q l m => simp only [List.cons_append, runNodes]; exact ih k _ _
      | op q kd st t =>
        simp only [List.cons_append, runNodes]
        rw [ih k _ _]
        have := aux_andThen_map (runNodes k d ns (env.set q ⟨(opStep kd (env.get q).buf b).1, []⟩) (opStep kd (env.get q).buf b).2.1 s2)
          (fun e c => runNodes (k - ns.length) d rest e c s2) [(t, (opStep kd (env.get q).buf b).2.2)]
        simp only [List.singleton_append] at this
        exact this.symm
      | loop id ml ex body =>
        rw [List.cons_append, loop_node_eq, loop_node_eq]
        split
        · rename_i st _
          rw [ih k st.env st.exit]
          exact (aux_andThen_map _ _ st.outs).symm
        · rfl

theorem aux_directDelays_append (pre post : List Node) (x : Nat × Bool) (n : Node)
    (hn : directDelays [n] = [x]) :
    directDelays (pre ++ n :: post) = directDelays pre ++ x :: directDelays post := by
  induction pre with
  | nil =>
    cases n <;> simp_all [directDelays]
  | cons m ms ih =>
    cases m <;> simp [directDelays, ih]

theorem aux_swapAll_once (p : Nat) (l : Bool) (A B : List (Nat × Bool)) (env : Env)
    (hA : ∀ x ∈ A, x.1 ≠ p) (hB : ∀ x ∈ B, x.1 ≠ p) :
    (swapAll (A ++ (p, l) :: B) env).get p = ⟨(env.get p).back, (env.get p).buf⟩ := by
  have h1 : swapAll (A ++ (p, l) :: B) env = swapAll B (swapAll [(p, l)] (swapAll A env)) := by
    simp [swapAll, List.foldl_append]
  rw [h1, aux_swapAll_frame p B _ hB, aux_swap_single, aux_swapAll_frame p A _ hA]

/-- **After an iteration and the loop's swap code, what entered a `defer_tick` sits in its `back` buffer and its `buf`
is empty** — wherever the `defer_tick` stands in the body (the other nodes do not mention its handoff).  For a root-level
loop this is the state in which the tick's schedule check finds the handoff: the swap already happened inside the
loop's `if` gate. -/
theorem deferTick_in_loop_stored_in_back (f d p : Nat) (l : Bool) (pre post : List Node) (env : Env)
    (b1 s2 : List Int) (r1 : Env × List Int × Outs) (e1 : Env) (c1 : List Int) (o1 : Outs)
    (h1 : runNodes f d (pre ++ .defer p l :: post) env b1 s2 = some r1)
    (hpre1 : runNodes f d pre env b1 s2 = some (e1, c1, o1))
    (hmpre : mentions p f pre = false) (hmpost : mentions p (f - pre.length - 1) post = false) :
    (swapAll (directDelays (pre ++ .defer p l :: post)) r1.1).get p = ⟨[], c1⟩ := by
  rw [runNodes_append, hpre1] at h1
  simp only [andThen] at h1
  cases hk : f - pre.length with
  | zero => simp [hk, runNodes] at h1
  | succ k =>
    have hk1 : f - pre.length - 1 = k := by omega
    rw [hk1] at hmpost
    rw [hk, defer_node_eq] at h1
    cases hq : runNodes k d post (e1.set p ⟨c1, []⟩) (e1.get p).back s2 with
    | none => simp [hq] at h1
    | some q =>
      simp only [hq, Option.map_some, Option.some.injEq] at h1
      have hr1 : r1.1 = q.1 := by rw [← h1]
      have hq1 : q.1.get p = ⟨c1, []⟩ := by
        rw [frame p k d post _ _ s2 q hq hmpost, aux_get_set_same]
      have hA := aux_direct_not_mentioned p f d pre env b1 s2 (by rw [hpre1]; rfl) hmpre
      have hB := aux_direct_not_mentioned p k d post _ _ s2 (by rw [hq]; rfl) hmpost
      rw [aux_directDelays_append pre post (p, l) (.defer p l) (by simp [directDelays]),
        aux_swapAll_once p l _ _ _ hA hB, hr1, hq1]

/-- **`defer_tick` inside a loop delays by exactly one iteration — wherever it stands in the body**: for a body
`pre ++ defer_tick :: post` whose other nodes do not mention the `defer_tick`'s handoff (positions are distinct), with
the loop's real swap code (`swapAll` over *all* delayed handoffs of the body) between two iterations: if in one
iteration the prefix hands `c1` to the `defer_tick`, then in the next iteration — whatever batch `b2` enters the loop and
whatever `c2` the prefix produces then — `post` receives exactly `c1` (and the handoff now stores `c2`). -/
theorem deferTick_in_loop_one_iteration_general (f d p : Nat) (l : Bool) (pre post : List Node) (env : Env)
    (b1 b2 s2 : List Int) (r1 : Env × List Int × Outs) (e1 e2 : Env) (c1 c2 : List Int) (o1 o2 : Outs)
    (h1 : runNodes f d (pre ++ .defer p l :: post) env b1 s2 = some r1)
    (hpre1 : runNodes f d pre env b1 s2 = some (e1, c1, o1))
    (hpre2 : runNodes f d pre (swapAll (directDelays (pre ++ .defer p l :: post)) r1.1) b2 s2 = some (e2, c2, o2))
    (hmpre : mentions p f pre = false) (hmpost : mentions p (f - pre.length - 1) post = false) :
    runNodes f d (pre ++ .defer p l :: post) (swapAll (directDelays (pre ++ .defer p l :: post)) r1.1) b2 s2 =
      (runNodes (f - pre.length - 1) d post (e2.set p ⟨c2, []⟩) c1 s2).map fun q => (q.1, q.2.1, o2 ++ q.2.2) := by
  have hswap := deferTick_in_loop_stored_in_back f d p l pre post env b1 s2 r1 e1 c1 o1 h1 hpre1 hmpre hmpost
  -- second iteration: the prefix does not touch the handoff, the `defer_tick` hands on what the swap put in `back`
  rw [runNodes_append, hpre1] at h1
  simp only [andThen] at h1
  cases hk : f - pre.length with
  | zero => simp [hk, runNodes] at h1
  | succ k =>
    simp only [Nat.add_sub_cancel]
    rw [runNodes_append, hpre2]
    simp only [andThen]
    rw [hk, defer_node_eq]
    have he2 := frame p f d pre _ _ s2 (e2, c2, o2) hpre2 hmpre
    simp only at he2
    rw [he2, hswap]

/-- a loop body `map(+1) -> tap 0 -> defer_tick -> tap 1` run twice with the loop's swap in between: the second
iteration's `tap 1` shows what the first iteration's prefix produced -/
example :
    let body : List Node := [.map 1, .tap 0, .defer 7 false, .tap 1]
    ((runNodes 20 1 body [] [10] []).bind fun r1 =>
      (runNodes 20 1 body (swapAll (directDelays body) r1.1) [20] []).map (·.2.2)) =
      some [(0, [21]), (1, [11])] := by decide

/-! ### the catalogue of windowing operators (regenerated from the operator sources on every run) -/

/-- every operator that declares a `flo_type` is one the model knows: `batch` (Windowing → non-lazy entry),
`batch_lazy` (WindowingLazy → lazy entry), `all_iterations` (Unwindowing → exit), or a Source (root level only) -/
theorem flo_catalogue_covered :
    ∀ e ∈ Gen.floTypes,
      (e.2 = "Windowing" ∧ e.1 = "batch") ∨ (e.2 = "WindowingLazy" ∧ e.1 = "batch_lazy") ∨
      (e.2 = "Unwindowing" ∧ e.1 = "all_iterations") ∨ e.2 = "Source" := by
  decide

/-! ### non-vacuity -/

/-- `[b,[b,C3],T0]`-like: root loop, nested loop with a cycle to 3: entry [1] gives three iterations 1,2,3 -/
example :
    (runNodes 50 0 [.loop 0 false none [.loop 1 false none [.cycle 0 false 3, .tap 0]]] [] [1] []).map (·.2.2) =
      some [(100, [1]), (101, [1]), (0, [1]), (101, [1]), (0, [2]), (101, [1]), (0, [3])] := by decide

/-- a lazy main entry does not fire a root loop that has another (non-lazy, here empty) entry -/
example :
    (runNodes 50 0 [.loop 0 true (some false) [.tap 0], .tap 1] [] [1, 2] []).map (·.2.2) = some [(1, [])] := by
  decide

end HvTick.Loop
