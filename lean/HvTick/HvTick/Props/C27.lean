/-
C27 — a running dataflow never misses an external wake-up.

Model: `HvTick.Model.Wake` (the runner of context.rs as a transition system over its atomic accesses, and
`wake_by_ref` as the two environment steps `store` / `notify`, any number of wakers in flight).
All theorems quantify over *every* schedule (`List Act`), i.e. every sequentially consistent interleaving
of the runner with any number of wakers.
-/
import HvTick.Model.Wake
namespace HvTick.Wake

/-- The inductive invariant of the real protocol. -/
def Inv (s : St) : Prop :=
  (s.pc = .yielded → s.notified = true) ∧
  (s.pc = .idleLoad → s.reg = true ∨ s.notified = true) ∧
  (s.pc = .parked → s.notified = true ∨ (s.reg = true ∧ (s.flag = true → 0 < s.inflight))) ∧
  (s.owed = true →
    (s.pc = .inTick ∨ s.pc = .rtLoad ∨ s.pc = .raSwap ∨ s.pc = .idleRegister ∨ s.pc = .idleLoad ∨ s.pc = .parked) →
    s.flag = true)

/-- Helper turns still needed before a tick starts, for states that owe a tick. -/
def rank (s : St) : Nat :=
  match s.pc with
  | .rtCall => 1 | .rtSwap => 2 | .raStore => 3 | .yielded => 3 | .raYield => 4 | .raSwap => 5
  | .rtLoad => 6 | .inTick => 7 | .idleLoad => 4 | .idleRegister => 5
  | .parked => if s.notified then 6 else 7

theorem aux_inv_init : Inv init := by simp [Inv, init]

theorem aux_inv_step (s : St) (a : Act) (h : Inv s) : Inv (step .real s a) := by
  rcases s with ⟨pc, f, r, n, o, k, t⟩
  cases a
  · cases pc <;> cases f <;> cases n <;> simp_all [Inv, step, runStep]
  · cases pc <;> cases n <;> cases r <;> simp_all [Inv, step, storeStep]
  · cases k <;> cases r <;> cases pc <;> simp_all [Inv, step, notifyStep]

theorem aux_inv_exec (s : St) (sch : List Act) (h : Inv s) : Inv (exec .real s sch) := by
  induction sch generalizing s with
  | nil => exact h
  | cons a as ih => exact ih _ (aux_inv_step s a h)

/-- One step from an invariant state that owes a tick: either this step starts the tick, or the tick is
still owed, the rank did not grow, and it shrank if the step was the helper's. -/
theorem aux_progress_step (s : St) (a : Act) (h : Inv s) (ho : s.owed = true) :
    (a = .run ∧ s.pc = .rtCall) ∨
    ((step .real s a).owed = true ∧ rank (step .real s a) ≤ rank s ∧
      (a = helper s → rank (step .real s a) < rank s)) := by
  rcases s with ⟨pc, f, r, n, o, k, t⟩
  cases a
  · cases pc <;> cases f <;> cases n <;> simp_all [Inv, step, runStep, rank, helper, asleep]
  · cases pc <;> cases n <;> simp_all [Inv, step, storeStep, rank, helper, asleep]
  · cases k <;> cases r <;> cases pc <;> cases n <;> simp_all [Inv, step, notifyStep, rank, helper, asleep]

theorem aux_rank_pos (s : St) : 1 ≤ rank s := by
  rcases s with ⟨pc, f, r, n, o, k, t⟩
  cases pc <;> cases n <;> simp [rank]

theorem aux_rank_le (s : St) : rank s ≤ 7 := by
  rcases s with ⟨pc, f, r, n, o, k, t⟩
  cases pc <;> cases n <;> simp [rank]

theorem aux_future_tick (s : St) (sch : List Act) (h : Inv s) (ho : s.owed = true)
    (hf : rank s ≤ helperTurns .real s sch) : tickStarts .real s sch = true := by
  induction sch generalizing s with
  | nil => have := aux_rank_pos s; simp [helperTurns] at hf; omega
  | cons a as ih =>
    rcases aux_progress_step s a h ho with ⟨ha, hp⟩ | ⟨ho', hle, hlt⟩
    · simp [tickStarts, ha, hp]
    · have hi := aux_inv_step s a h
      simp only [tickStarts, Bool.or_eq_true]
      right
      apply ih _ hi ho'
      simp only [helperTurns] at hf
      by_cases hh : a = helper s
      · have := hlt hh; simp [hh] at hf; subst hh; omega
      · simp [hh] at hf; omega

/-- **Safety.** In every state reachable under any interleaving, if a wake happened after the last tick
start then the runner is not stuck: it is running, or notified, or a waker that will notify it is in flight. -/
theorem wake_never_stranded (pre : List Act) :
    (exec .real init pre).owed = true → stuck (exec .real init pre) = false := by
  intro ho
  have h := aux_inv_exec init pre aux_inv_init
  generalize exec .real init pre = s at *
  rcases s with ⟨pc, f, r, n, o, k, t⟩
  cases pc <;> cases n <;> cases r <;> cases k <;> simp_all [Inv, stuck, asleep]

/-- **The property.** After any history, if a wake happened after the last tick start, then along *every*
continuation in which the helper (the runner; or, while the runner sleeps, a waker in flight — which exists
by `wake_never_stranded`) gets 7 turns, a tick starts.  No bound on the schedule, on the number of wakers,
or on what the other actors do in between. -/
theorem wake_implies_future_tick (pre sch : List Act) :
    (exec .real init pre).owed = true →
    7 ≤ helperTurns .real (exec .real init pre) sch →
    tickStarts .real (exec .real init pre) sch = true := by
  intro ho hf
  have h := aux_inv_exec init pre aux_inv_init
  exact aux_future_tick _ sch h ho (Nat.le_trans (aux_rank_le _) hf)

/-- every wake (its `store` step) makes a tick owed, whatever the state -/
theorem store_owes_tick (s : St) : (step .real s .store).owed = true := rfl

/-- only the start of a tick discharges the debt, and it advances the tick count by exactly one -/
theorem owed_cleared_only_by_tick (s : St) (a : Act) :
    s.owed = true → (step .real s a).owed = false →
    a = .run ∧ s.pc = .rtCall ∧ (step .real s a).ticks = s.ticks + 1 := by
  rcases s with ⟨pc, f, r, n, o, k, t⟩
  cases a
  · cases pc <;> cases f <;> cases n <;> simp_all [step, runStep]
  · simp [step, storeStep]
  · cases k <;> cases r <;> simp_all [step, notifyStep]

/-- `run_available` never returns to idle with the flag set behind its back: the runner reaches
`idle_register` only through a `swap(false)` that read `false` (used by C24 too). -/
theorem idle_entered_only_on_clear_flag (s : St) :
    s.pc = .raSwap → (step .real s .run).pc = .idleRegister → s.flag = false := by
  rcases s with ⟨pc, f, r, n, o, k, t⟩
  cases f <;> simp_all [step, runStep]

/-! ### The order that the source comment warns against is refuted -/

/-- witness history: one tick, `load` (false), then a complete wake, then `register`, park -/
def swappedWitness : List Act :=
  [.run, .run, .run, .run, .run, .run,   -- ra_store .. ra_swap : one tick, flag read false
   .run,                                 -- idle_load reads false
   .store, .notify,                      -- a whole wake_by_ref: nothing registered, the wake-up is lost
   .run]                                 -- idle_register, return Pending

theorem swapped_order_refuted :
    (exec .swapped init swappedWitness).owed = true ∧ stuck (exec .swapped init swappedWitness) = true := by
  decide

theorem aux_swapped_fix (a : Act) (ha : a ≠ .store) :
    step .swapped (exec .swapped init swappedWitness) a = exec .swapped init swappedWitness := by
  cases a <;> first | exact absurd rfl ha | decide

/-- … and from there no tick ever starts again unless a *new* wake arrives -/
theorem swapped_order_never_ticks (sch : List Act) (h : ∀ a ∈ sch, a ≠ .store) :
    tickStarts .swapped (exec .swapped init swappedWitness) sch = false := by
  induction sch with
  | nil => rfl
  | cons a as ih =>
    have ha : a ≠ .store := h a (by simp)
    simp only [tickStarts, aux_swapped_fix a ha]
    rw [ih (fun b hb => h b (by simp [hb]))]
    have : (exec .swapped init swappedWitness).pc = .parked := by decide
    simp [this]

/-- the same history is harmless under the real order: the wake finds the waker registered -/
example : stuck (exec .real init swappedWitness) = false := by decide

/-- non-vacuity of `wake_implies_future_tick`: a wake that lands between `register` and `load`
(`pre`), then the runner alone -/
example :
    let pre : List Act := [.run, .run, .run, .run, .run, .run, .run, .store]
    (exec .real init pre).owed = true ∧ (exec .real init pre).pc = .idleLoad ∧
    tickStarts .real (exec .real init pre) [.run, .run, .run, .run] = true := by decide

/-- non-vacuity: a wake whose two halves straddle the park — its `store` lands after the runner's `load` read
false, the runner parks, and only then the `notify` arrives: the helper is the in-flight waker -/
example :
    let pre : List Act := [.run, .run, .run, .run, .run, .run, .run, .run, .store]
    (exec .real init pre).owed = true ∧ asleep (exec .real init pre) = true ∧
    helper (exec .real init pre) = .notify ∧
    tickStarts .real (exec .real init pre) [.run, .notify, .run, .run, .run, .run, .run, .run] = true := by decide

end HvTick.Wake
