/-
C25 — references read settled state and run in declaration (access group) order.

Model: `HvTick.Model.Refs` — the ordering edges the partitioner builds for a referenced handoff
(`find_access_group_ordering`, the "Handoff references" block of `find_subgraph_unionfind`) and the execution of
closures holding references.  `pos` is the position of a node's subgraph in the emitted order; that the emitted order
respects the partitioner's `all_preds` (and that enemies are in different subgraphs) is C17/C18's result and is a
hypothesis here.
-/
import HvTick.Model.Refs
namespace HvTick.Refs

/-! ### from the ordering edges to the order of access groups -/

theorem aux_pair_mem (t : Target) (x y : Ref) (hx : x ∈ t.refs) (hy : y ∈ t.refs)
    (hc : consecutive t x y = true) : (x.node, y.node) ∈ accessGroupPairs t := by
  simp only [accessGroupPairs, List.mem_flatMap, List.mem_map, List.mem_filter]
  exact ⟨x, hx, y, ⟨hy, hc⟩, rfl⟩

theorem aux_groups_gap (t : Target) (pos : Node → Nat)
    (h : ∀ e ∈ accessGroupPairs t, pos e.1 < pos e.2) (d : Nat) :
    ∀ x ∈ t.refs, ∀ y ∈ t.refs, key x.group < key y.group → key y.group - key x.group ≤ d →
      pos x.node < pos y.node := by
  induction d with
  | zero => intro x _ y _ hlt hd; omega
  | succ d ih =>
    intro x hx y hy hlt hd
    by_cases hc : consecutive t x y = true
    · exact h _ (aux_pair_mem t x y hx hy hc)
    · have hany : (t.refs.any fun c => decide (key x.group < key c.group) && decide (key c.group < key y.group)) = true := by
        cases hq : (t.refs.any fun c => decide (key x.group < key c.group) && decide (key c.group < key y.group))
        · exfalso; apply hc; simp [consecutive, hlt, hq]
        · rfl
      simp only [List.any_eq_true, Bool.and_eq_true, decide_eq_true_eq] at hany
      obtain ⟨c, hcm, h1, h2⟩ := hany
      have a := ih x hx c hcm h1 (by omega)
      have b := ih c hcm y hy h2 (by omega)
      omega

/-- **Access groups run in order**: with only the edges between *consecutive* groups, every reference of an
earlier group (lower `#{N}`; ungrouped first) is scheduled strictly before every reference of a later group. -/
theorem access_groups_in_order (t : Target) (pos : Node → Nat)
    (h : ∀ e ∈ accessGroupPairs t, pos e.1 < pos e.2) :
    ∀ x ∈ t.refs, ∀ y ∈ t.refs, key x.group < key y.group → pos x.node < pos y.node :=
  fun x hx y hy hlt => aux_groups_gap t pos h (key y.group - key x.group) x hx y hy hlt (Nat.le_refl _)

/-- **A reference runs after every producer of the value and before its pipe consumers** (so it sees the value
complete and not yet drained), after all references of earlier groups and before all of later groups. -/
theorem ref_runs_after_producers_before_consumers (t : Target) (pos : Node → Nat)
    (hp : ∀ e ∈ pipePreds t, pos e.1 < pos e.2) (hr : ∀ e ∈ refPreds t, pos e.1 < pos e.2)
    (hg : ∀ e ∈ accessGroupPairs t, pos e.1 < pos e.2) :
    ∀ r ∈ t.refs,
      (∀ p ∈ t.producers, pos p < pos r.node) ∧ (∀ c ∈ t.consumers, pos r.node < pos c) ∧
      (∀ m ∈ t.refs, key m.group < key r.group → pos m.node < pos r.node) ∧
      (∀ m ∈ t.refs, key r.group < key m.group → pos r.node < pos m.node) := by
  intro r hrm
  refine ⟨?_, ?_, ?_, ?_⟩
  · intro p hpm
    have h1 := hp (p, t.hoff) (by simp [pipePreds]; exact Or.inl hpm)
    have h2 := hr (t.hoff, r.node) (by
      simp only [refPreds, List.mem_flatMap]; exact ⟨r, hrm, by simp⟩)
    simp only at h1 h2; omega
  · intro c hcm
    exact hr (r.node, c) (by
      simp only [refPreds, List.mem_flatMap]; exact ⟨r, hrm, by simp; exact Or.inr hcm⟩)
  · intro m hm hlt; exact access_groups_in_order t pos hg m hm r hrm hlt
  · intro m hm hlt; exact access_groups_in_order t pos hg r hrm m hm hlt

/-! ### what a reader sees -/

theorem aux_read_state (tap : Nat) (s : State) : (applyOp (.read tap) s).1 = s := by
  cases s <;> rfl

theorem aux_runClosure_reader (c : Closure) (hc : c.op.isMut = false) (n : Nat) (s : State) :
    (runClosure c n s).1 = s := by
  cases hop : c.op with
  | read tap =>
    induction n generalizing s with
    | zero => rfl
    | succ k ih => simp only [runClosure, hop, aux_read_state]; simpa [hop] using ih s
  | _ => simp [hop, Op.isMut] at hc

/-- readers do not disturb the state: the state after a prefix of the schedule is the state after its mutators -/
theorem aux_state_ignores_readers (n : Nat) (pre : List Closure) (s : State) :
    (runSchedule n pre s).1 = (runSchedule n (pre.filter (·.op.isMut)) s).1 := by
  induction pre generalizing s with
  | nil => rfl
  | cons c cs ih =>
    by_cases hc : c.op.isMut = true
    · simp only [List.filter_cons, hc, ↓reduceIte, runSchedule]; exact ih _
    · simp only [Bool.not_eq_true] at hc
      simp only [List.filter_cons, hc, Bool.false_eq_true, ↓reduceIte, runSchedule,
        aux_runClosure_reader c hc]
      exact ih s

/-- **A reference reads the settled value**: in a schedule ordered by access group (which the ordering edges
force, `access_groups_in_order`) in which every `#mut` has its own group (rule 2 of the builder's validation), the
state a reader `r` sees is the state after its producers (`s0`) with exactly the mutators of the earlier groups
applied — each of them for all `n` of its items, all of them, in group order, and none of a later group. -/
theorem ref_reads_final_value (n : Nat) (pre post : List Closure) (r : Closure) (s0 : State)
    (hr : r.op.isMut = false)
    (hsorted : (pre ++ r :: post).Pairwise (fun a b => key a.group ≤ key b.group))
    (hwf : ∀ m ∈ pre ++ r :: post, m.op.isMut = true → ∀ c ∈ pre ++ r :: post, c.op.isMut = false →
      key c.group ≠ key m.group) :
    (runSchedule n pre s0).1 =
      (runSchedule n (((pre ++ r :: post).filter (·.op.isMut)).filter (fun m => key m.group < key r.group)) s0).1 := by
  rw [aux_state_ignores_readers]
  congr 2
  rw [List.pairwise_append] at hsorted
  obtain ⟨_, hpost, hcross⟩ := hsorted
  rw [List.pairwise_cons] at hpost
  simp only [List.filter_append, List.filter_cons, hr, Bool.false_eq_true, ↓reduceIte]
  have h1 : (pre.filter (·.op.isMut)).filter (fun m => decide (key m.group < key r.group)) = pre.filter (·.op.isMut) := by
    rw [List.filter_eq_self]
    intro m hm
    simp only [List.mem_filter] at hm
    have hle := hcross m hm.1 r (by simp)
    have hne := hwf m (by simp [hm.1]) hm.2 r (by simp) hr
    simp only [decide_eq_true_eq]; omega
  have h2 : (post.filter (·.op.isMut)).filter (fun m => decide (key m.group < key r.group)) = [] := by
    rw [List.filter_eq_nil_iff]
    intro m hm
    simp only [List.mem_filter] at hm
    have := hpost.1 m hm.1
    simp only [decide_eq_true_eq]; omega
  rw [h1, h2, List.append_nil]

/-- the model's own schedule (`sortByGroup`) is ordered by access group -/
theorem sortByGroup_sorted (cs : List Closure) :
    (sortByGroup cs).Pairwise (fun a b => key a.group ≤ key b.group) := by
  have hins : ∀ (c : Closure) (l : List Closure), l.Pairwise (fun a b => key a.group ≤ key b.group) →
      (∀ x ∈ insertByKey c l, x = c ∨ x ∈ l) ∧ (insertByKey c l).Pairwise (fun a b => key a.group ≤ key b.group) := by
    intro c l
    induction l with
    | nil => intro _; simp [insertByKey]
    | cons d ds ih =>
      intro hl
      rw [List.pairwise_cons] at hl
      simp only [insertByKey]
      split
      · rename_i hlt
        refine ⟨by intro x hx; simpa using hx, ?_⟩
        rw [List.pairwise_cons]
        refine ⟨?_, List.pairwise_cons.mpr hl⟩
        intro x hx
        rcases List.mem_cons.mp hx with rfl | hx
        · omega
        · have := hl.1 x hx; omega
      · rename_i hge
        obtain ⟨hm, hp⟩ := ih hl.2
        refine ⟨?_, ?_⟩
        · intro x hx
          rcases List.mem_cons.mp hx with rfl | hx
          · exact Or.inr (by simp)
          · rcases hm x hx with h | h
            · exact Or.inl h
            · exact Or.inr (by simp [h])
        · rw [List.pairwise_cons]
          refine ⟨?_, hp⟩
          intro x hx
          rcases hm x hx with rfl | h
          · omega
          · exact hl.1 x h
  induction cs with
  | nil => simp [sortByGroup]
  | cons c cs ih => exact (hins c _ ih).2

/-! ### the emitted tick: settled reads hold iff a borrower never shares the pipe consumer's subgraph (finding F25) -/

theorem aux_mem_insertByKey (c x : Closure) (l : List Closure) (h : x ∈ insertByKey c l) : x = c ∨ x ∈ l := by
  induction l with
  | nil => simpa [insertByKey] using h
  | cons d ds ih =>
    simp only [insertByKey] at h
    split at h
    · simpa using h
    · rcases List.mem_cons.mp h with rfl | h
      · exact Or.inr (by simp)
      · rcases ih h with h | h
        · exact Or.inl h
        · exact Or.inr (by simp [h])

theorem aux_mem_sortByGroup (x : Closure) (cs : List Closure) (h : x ∈ sortByGroup cs) : x ∈ cs := by
  induction cs with
  | nil => simp [sortByGroup] at h
  | cons c cs ih =>
    rcases aux_mem_insertByKey c x _ h with rfl | h
    · simp
    · simp [ih h]

theorem aux_tickWith_no_merge (enemies : Bool) (p : Prog) (sent : List Int) (n : Nat)
    (h : ∀ c ∈ sortByGroup p.closures, merged enemies p.closures c = false) :
    tickWith enemies p sent n = some (tickSpec p sent n) := by
  have h1 : (sortByGroup p.closures).filter (fun c => !merged enemies p.closures c) = sortByGroup p.closures := by
    rw [List.filter_eq_self]; intro c hc; simp [h c hc]
  have h2 : (sortByGroup p.closures).filter (merged enemies p.closures) = [] := by
    rw [List.filter_eq_nil_iff]; intro c hc; simp [h c hc]
  simp only [tickWith, tickSpec, h1, h2, List.isEmpty_nil, Bool.true_or, ↓reduceIte]

/-- the full C25 clause on the emitted tick, as a function of whether (borrower, pipe consumer) pairs are enemies in
`find_subgraph_unionfind`: every tick of every corpus-language program (any kind of state, any closures in any
textual order, any sends, any number of trigger items) does not panic and yields exactly the property's schedule
`tickSpec` — producers, then the closures group by group each for all its items, then the pipe consumer — in which
every read is the settled value (`ref_reads_final_value` on `sortByGroup_sorted`). -/
def RefReadsSettledStatement (enemies : Bool) : Prop :=
  ∀ (p : Prog) (sent : List Int) (n : Nat), tickWith enemies p sent n = some (tickSpec p sent n)

/-- **With the enemy pairs the clause holds** for every program. -/
theorem ref_reads_settled_with_enemies : RefReadsSettledStatement true := by
  intro p sent n
  exact aux_tickWith_no_merge true p sent n (by intro c _; simp [merged])

/-- **Without them it is refuted** (finding F25): `O;0:r0!` — an `optional()` fed `3`, one reader whose output is
unioned into the pipe consumer — the reader sees `None` (−1) although the producer stored `Some(3)` in this tick. -/
theorem ref_reads_settled_refuted : ¬ RefReadsSettledStatement false := by
  intro h
  have := h ⟨.opt, [⟨some 0, .read 0, true⟩]⟩ [3] 1
  revert this
  decide

/-- the same with a `singleton()`: the tick panics (`as_ref().unwrap()` on the emptied slot) -/
theorem joined_singleton_reference_panics_refuted :
    tickWith false ⟨.single 5, [⟨some 0, .read 0, true⟩]⟩ [3] 1 = none := by decide

/-- **Partial result that holds for the code with or without the enemy pairs**: a program none of whose borrowers is
wired into the pipe consumer reads settled state. -/
theorem ref_reads_settled_partial (enemies : Bool) (p : Prog) (sent : List Int) (n : Nat)
    (h : ∀ c ∈ p.closures, c.joined = false) : tickWith enemies p sent n = some (tickSpec p sent n) := by
  apply aux_tickWith_no_merge
  intro c hc
  simp [merged, h c (aux_mem_sortByGroup c _ hc)]

/-- … and so does a borrower wired into the consumer when a closure of a later access group exists (the merge would
close a cycle and is refused) -/
theorem later_group_blocks_merge (enemies : Bool) (cs : List Closure) (c d : Closure) (hd : d ∈ cs)
    (hlt : key c.group < key d.group) : merged enemies cs c = false := by
  simp only [merged, Bool.and_eq_false_iff, List.all_eq_false]
  right
  exact ⟨d, hd, by simp; omega⟩

/-- **The code that exists** (`Gen.borrowerConsumerEnemies` is re-extracted from flat_to_partitioned.rs on every
run): the clause holds for the current source iff it makes the pairs enemies. -/
theorem current_code_reads_settled_iff :
    RefReadsSettledStatement Gen.borrowerConsumerEnemies ↔ Gen.borrowerConsumerEnemies = true := by
  cases h : Gen.borrowerConsumerEnemies
  · simp only [Bool.false_eq_true, iff_false]; exact ref_reads_settled_refuted
  · simp only [iff_true]; exact ref_reads_settled_with_enemies

theorem current_code_is_tickWith (p : Prog) (sent : List Int) (n : Nat) :
    tick p sent n = tickWith Gen.borrowerConsumerEnemies p sent n := rfl

/-! ### Hydro side: the access groups `handoff_ref.rs` assigns in code order -/

theorem aux_assign_lower (c : Nat) (ms : List Bool) :
    ∀ a ∈ (Hydro.assign c ms).zip ms, c ≤ a.1 ∧ (a.2 = true → c < a.1) := by
  induction ms generalizing c with
  | nil => simp [Hydro.assign]
  | cons m ms ih =>
    intro a ha
    simp only [Hydro.assign, List.zip_cons_cons, List.mem_cons] at ha
    rcases ha with rfl | ha
    · cases m <;> simp [Hydro.nextGroup]
    · have := ih _ a ha
      cases m <;> simp [Hydro.nextGroup] at this ⊢ <;> omega

/-- **Code order is group order, and every `by_mut` capture is alone in its group**: for two captures of the same node,
the earlier one's group is ≤ the later one's, and strictly smaller as soon as one of the two is mutable — for every
sequence of captures and every start value of the counter.  (So the DFIR builder's rules "all references grouped" and
"every `#mut` in its own group" hold for whatever Hydro emits, and `ref_reads_final_value` applies with
declaration order = code order.) -/
theorem hydro_groups_follow_code_order (c : Nat) (ms : List Bool) :
    ((Hydro.assign c ms).zip ms).Pairwise
      (fun a b => a.1 ≤ b.1 ∧ ((a.2 = true ∨ b.2 = true) → a.1 < b.1)) := by
  induction ms generalizing c with
  | nil => simp [Hydro.assign]
  | cons m ms ih =>
    simp only [Hydro.assign, List.zip_cons_cons, List.pairwise_cons]
    refine ⟨?_, ih _⟩
    intro b hb
    have := aux_assign_lower _ ms b hb
    cases m <;> simp [Hydro.nextGroup] at this ⊢
    · exact ⟨this.1, fun h => this.2 h⟩
    · omega

theorem aux_assign_length (c : Nat) (ms : List Bool) : (Hydro.assign c ms).length = ms.length := by
  induction ms generalizing c with
  | nil => rfl
  | cons m ms ih => simp [Hydro.assign, ih]

/-- a `by_mut` capture shares its group with no other capture -/
theorem hydro_mut_isolated (c : Nat) (ms : List Bool) (i j : Nat) (hi : i < ms.length) (hj : j < ms.length)
    (hij : i < j) (hm : ms[i] = true ∨ ms[j] = true) :
    (Hydro.assign c ms)[i]'(by rw [aux_assign_length]; exact hi) <
      (Hydro.assign c ms)[j]'(by rw [aux_assign_length]; exact hj) := by
  have hlen := aux_assign_length c ms
  have hp := hydro_groups_follow_code_order c ms
  have hzl : ((Hydro.assign c ms).zip ms).length = ms.length := by simp [List.length_zip, hlen]
  have := List.pairwise_iff_getElem.mp hp i j (by omega) (by omega) hij
  simp only [List.getElem_zip] at this
  exact this.2 hm

/-- shared (`by_ref`) captures with no mutable capture between them share one group -/
theorem hydro_reads_share_group (c n : Nat) : Hydro.assign c (List.replicate n false) = List.replicate n c := by
  induction n with
  | zero => rfl
  | succ k ih => simp [List.replicate_succ, Hydro.assign, Hydro.nextGroup, ih]

/-- read, mut, read, read, mut from a fresh counter: groups 0, 1, 2, 2, 3 -/
example : Hydro.assign 0 [false, true, false, false, true] = [0, 1, 2, 2, 3] := by decide

/-! ### non-vacuity -/

/-- textual order `#{1} read`, `#{0} mut += 3`: the read sees 5 + 3 (both trigger items), the consumer too -/
example : tickSpec ⟨.single 5, [⟨some 1, .read 0, false⟩, ⟨some 0, .add 3, false⟩]⟩ [] 2 = [(0, 11), (0, 11), (99, 11)] := by
  decide

/-- three groups 0 < 1 < 3 (no group 2): the edges 0→1 and 1→3 order 0 before 3 -/
example :
    let t : Target := ⟨0, [1], [2], [⟨10, some 0, true⟩, ⟨11, some 1, false⟩, ⟨12, some 3, true⟩]⟩
    accessGroupPairs t = [(10, 11), (11, 12)] := by decide

/-- F25 on the model: `O;0:a2;1:r0!` fed 3 — the mutator (group 0, its own subgraph) runs first and the consumer gets
5, the joined reader of the last group sees the emptied slot (−1); with the enemy pairs it sees 5 -/
example : tickWith false ⟨.opt, [⟨some 0, .add 2, false⟩, ⟨some 1, .read 0, true⟩]⟩ [3] 1 = some [(0, -1), (99, 5)] := by decide
example : tickWith true ⟨.opt, [⟨some 0, .add 2, false⟩, ⟨some 1, .read 0, true⟩]⟩ [3] 1 = some [(0, 5), (99, 5)] := by decide

/-- a later group blocks the merge: `O;0:r0!;1:r1` reads 3 in both -/
example : tickWith false ⟨.opt, [⟨some 0, .read 0, true⟩, ⟨some 1, .read 1, false⟩]⟩ [3] 1 = some [(0, 3), (1, 3), (99, 3)] := by decide

end HvTick.Refs
