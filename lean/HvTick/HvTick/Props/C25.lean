/-
C25 — references read settled state and run in declaration (access group) order.

Model: `HvTick.Model.Refs` — the ordering edges the partitioner builds for a referenced handoff
(`find_access_group_ordering`, the "Handoff references" block of `find_subgraph_unionfind`) and the execution of
closures holding references.  `pos` is the position of a node's subgraph in the emitted order; that the emitted order
respects the partitioner's `all_preds` (and that enemies are in different subgraphs) is C17/C18's result and is a
hypothesis here.
-/
import HvTick.Model.Refs
namespace HvTick.Refs

/-! ### from the ordering edges to the order of access groups -/

theorem aux_pair_mem (t : Target) (x y : Ref) (hx : x ∈ t.refs) (hy : y ∈ t.refs)
    (hc : consecutive t x y = true) : (x.node, y.node) ∈ accessGroupPairs t := by
  simp only [accessGroupPairs, List.mem_flatMap, List.mem_map, List.mem_filter]
  exact ⟨x, hx, y, ⟨hy, hc⟩, rfl⟩

theorem aux_groups_gap (t : Target) (pos : Node → Nat)
    (h : ∀ e ∈ accessGroupPairs t, pos e.1 < pos e.2) (d : Nat) :
    ∀ x ∈ t.refs, ∀ y ∈ t.refs, key x.group < key y.group → key y.group - key x.group ≤ d →
      pos x.node < pos y.node := by
  induction d with
  | zero => intro x _ y _ hlt hd; omega
  | succ d ih =>
    intro x hx y hy hlt hd
    by_cases hc : consecutive t x y = true
    · exact h _ (aux_pair_mem t x y hx hy hc)
    · have hany : (t.refs.any fun c => decide (key x.group < key c.group) && decide (key c.group < key y.group)) = true := by
        cases hq : (t.refs.any fun c => decide (key x.group < key c.group) && decide (key c.group < key y.group))
        · exfalso; apply hc; simp [consecutive, hlt, hq]
        · rfl
      simp only [List.any_eq_true, Bool.and_eq_true, decide_eq_true_eq] at hany
      obtain ⟨c, hcm, h1, h2⟩ := hany
      have a := ih x hx c hcm h1 (by omega)
      have b := ih c hcm y hy h2 (by omega)
      omega

/-- **Access groups run in order**: with only the edges between *consecutive* groups, every reference of an
earlier group (lower `#{N}`; ungrouped first) is scheduled strictly before every reference of a later group. -/
theorem access_groups_in_order (t : Target) (pos : Node → Nat)
    (h : ∀ e ∈ accessGroupPairs t, pos e.1 < pos e.2) :
    ∀ x ∈ t.refs, ∀ y ∈ t.refs, key x.group < key y.group → pos x.node < pos y.node :=
  fun x hx y hy hlt => aux_groups_gap t pos h (key y.group - key x.group) x hx y hy hlt (Nat.le_refl _)

/-- **A reference runs after every producer of the value and before its pipe consumers** (so it sees the value
complete and not yet drained), after all references of earlier groups and before all of later groups. -/
theorem ref_runs_after_producers_before_consumers (t : Target) (pos : Node → Nat)
    (hp : ∀ e ∈ pipePreds t, pos e.1 < pos e.2) (hr : ∀ e ∈ refPreds t, pos e.1 < pos e.2)
    (hg : ∀ e ∈ accessGroupPairs t, pos e.1 < pos e.2) :
    ∀ r ∈ t.refs,
      (∀ p ∈ t.producers, pos p < pos r.node) ∧ (∀ c ∈ t.consumers, pos r.node < pos c) ∧
      (∀ m ∈ t.refs, key m.group < key r.group → pos m.node < pos r.node) ∧
      (∀ m ∈ t.refs, key r.group < key m.group → pos r.node < pos m.node) := by
  intro r hrm
  refine ⟨?_, ?_, ?_, ?_⟩
  · intro p hpm
    have h1 := hp (p, t.hoff) (by simp [pipePreds]; exact Or.inl hpm)
    have h2 := hr (t.hoff, r.node) (by
      simp only [refPreds, List.mem_flatMap]; exact ⟨r, hrm, by simp⟩)
    simp only at h1 h2; omega
  · intro c hcm
    exact hr (r.node, c) (by
      simp only [refPreds, List.mem_flatMap]; exact ⟨r, hrm, by simp; exact Or.inr hcm⟩)
  · intro m hm hlt; exact access_groups_in_order t pos hg m hm r hrm hlt
  · intro m hm hlt; exact access_groups_in_order t pos hg r hrm m hm hlt

/-! ### what a reader sees -/

theorem aux_read_state (tap : Nat) (s : State) : (applyOp (.read tap) s).1 = s := by
  cases s <;> rfl

theorem aux_runClosure_reader (c : Closure) (hc : c.op.isMut = false) (n : Nat) (s : State) :
    (runClosure c n s).1 = s := by
  cases hop : c.op with
  | read tap =>
    induction n generalizing s with
    | zero => rfl
    | succ k ih => simp only [runClosure, hop, aux_read_state]; simpa [hop] using ih s
  | _ => simp [hop, Op.isMut] at hc

/-- readers do not disturb the state: the state after a prefix of the schedule is the state after its mutators -/
theorem aux_state_ignores_readers (n : Nat) (pre : List Closure) (s : State) :
    (runSchedule n pre s).1 = (runSchedule n (pre.filter (·.op.isMut)) s).1 := by
  induction pre generalizing s with
  | nil => rfl
  | cons c cs ih =>
    by_cases hc : c.op.isMut = true
    · simp only [List.filter_cons, hc, ↓reduceIte, runSchedule]; exact ih _
    · simp only [Bool.not_eq_true] at hc
      simp only [List.filter_cons, hc, Bool.false_eq_true, ↓reduceIte, runSchedule,
        aux_runClosure_reader c hc]
      exact ih s

/-- **A reference reads the settled value**: in a schedule ordered by access group (which the ordering edges
force, `access_groups_in_order`) in which every `#mut` has its own group (rule 2 of the builder's validation), the
state a reader `r` sees is the state after its producers (`s0`) with exactly the mutators of the earlier groups
applied — each of them for all `n` of its items, all of them, in group order, and none of a later group. -/
theorem ref_reads_final_value (n : Nat) (pre post : List Closure) (r : Closure) (s0 : State)
    (hr : r.op.isMut = false)
    (hsorted : (pre ++ r :: post).Pairwise (fun a b => key a.group ≤ key b.group))
    (hwf : ∀ m ∈ pre ++ r :: post, m.op.isMut = true → ∀ c ∈ pre ++ r :: post, c.op.isMut = false →
      key c.group ≠ key m.group) :
    (runSchedule n pre s0).1 =
      (runSchedule n (((pre ++ r :: post).filter (·.op.isMut)).filter (fun m => key m.group < key r.group)) s0).1 := by
  rw [aux_state_ignores_readers]
  congr 2
  rw [List.pairwise_append] at hsorted
  obtain ⟨_, hpost, hcross⟩ := hsorted
  rw [List.pairwise_cons] at hpost
  simp only [List.filter_append, List.filter_cons, hr, Bool.false_eq_true, ↓reduceIte]
  have h1 : (pre.filter (·.op.isMut)).filter (fun m => decide (key m.group < key r.group)) = pre.filter (·.op.isMut) := by
    rw [List.filter_eq_self]
    intro m hm
    simp only [List.mem_filter] at hm
    have hle := hcross m hm.1 r (by simp)
    have hne := hwf m (by simp [hm.1]) hm.2 r (by simp) hr
    simp only [decide_eq_true_eq]; omega
  have h2 : (post.filter (·.op.isMut)).filter (fun m => decide (key m.group < key r.group)) = [] := by
    rw [List.filter_eq_nil_iff]
    intro m hm
    simp only [List.mem_filter] at hm
    have := hpost.1 m hm.1
    simp only [decide_eq_true_eq]; omega
  rw [h1, h2, List.append_nil]

/-- the model's own schedule (`sortByGroup`) is ordered by access group -/
theorem sortByGroup_sorted (cs : List Closure) :
    (sortByGroup cs).Pairwise (fun a b => key a.group ≤ key b.group) := by
  have hins : ∀ (c : Closure) (l : List Closure), l.Pairwise (fun a b => key a.group ≤ key b.group) →
      (∀ x ∈ insertByKey c l, x = c ∨ x ∈ l) ∧ (insertByKey c l).Pairwise (fun a b => key a.group ≤ key b.group) := by
    intro c l
    induction l with
    | nil => intro _; simp [insertByKey]
    | cons d ds ih =>
      intro hl
      rw [List.pairwise_cons] at hl
      simp only [insertByKey]
      split
      · rename_i hlt
        refine ⟨by intro x hx; simpa using hx, ?_⟩
        rw [List.pairwise_cons]
        refine ⟨?_, List.pairwise_cons.mpr hl⟩
        intro x hx
        rcases List.mem_cons.mp hx with rfl | hx
        · omega
        · have := hl.1 x hx; omega
      · rename_i hge
        obtain ⟨hm, hp⟩ := ih hl.2
        refine ⟨?_, ?_⟩
        · intro x hx
          rcases List.mem_cons.mp hx with rfl | hx
          · exact Or.inr (by simp)
          · rcases hm x hx with h | h
            · exact Or.inl h
            · exact Or.inr (by simp [h])
        · rw [List.pairwise_cons]
          refine ⟨?_, hp⟩
          intro x hx
          rcases hm x hx with rfl | h
          · omega
          · exact hl.1 x h
  induction cs with
  | nil => simp [sortByGroup]
  | cons c cs ih => exact (hins c _ ih).2

/-! ### non-vacuity -/

/-- textual order `#{1} read`, `#{0} mut += 3`: the read sees 5 + 3 (both trigger items), the consumer too -/
example : tick ⟨false, 5, [⟨some 1, .read 0⟩, ⟨some 0, .add 3⟩]⟩ [] 2 = [(0, 11), (0, 11), (99, 11)] := by decide

/-- three groups 0 < 1 < 3 (no group 2): the edges 0→1 and 1→3 order 0 before 3 -/
example :
    let t : Target := ⟨0, [1], [2], [⟨10, some 0, true⟩, ⟨11, some 1, false⟩, ⟨12, some 3, true⟩]⟩
    accessGroupPairs t = [(10, 11), (11, 12)] := by decide

end HvTick.Refs
