/-
C26 model: loop blocks as emitted by `DfirGraph::emit_loop_gate` (dfir_lang/src/graph/meta_graph.rs).

  * a root-level loop (no parent) is emitted as   `if false || gate… { body; swap… }`     (at most once per tick)
  * a nested loop is emitted as                   `while false || gate… { body; swap… }`  (until the gate is false)
  * gate = `!buf.is_empty()` of every entry handoff whose consumer is not a `WindowingLazy` operator (`batch_lazy`)
           || `!back.is_empty()` of every non-lazy delayed handoff whose consumer sits directly in this loop
           (`DelayType::Tick` for a root loop, `DelayType::Loop` — the remapped `defer_tick` — for a nested loop)
  * swap = `mem::swap(buf, back)` of every delayed handoff whose consumer sits directly in this loop
  * only a loop with no entry handoff at all is emitted unconditionally; a loop whose entries are all lazy
    (`batch_lazy`) and that has no non-lazy delayed handoff has the gate `false`: it never runs on its own
    (this is the behaviour after the fix of finding F26; before it such a loop ran on every tick)
  * the exit handoff (consumer `all_iterations()`) is declared once before the gate and accumulates over iterations
  * entry handoffs are filled by the parent before the gate and drained by the first iteration

Programs: the pipeline language of C24 plus `loop id mainLazy extra body`
  `prev -> batch()|batch_lazy() -> [union with src2 -> batch()|batch_lazy()] -> body -> all_iterations() -> next`
A loop body starts with an iteration marker (a `fold` on a `tee` branch that reports once per run of its subgraph),
recorded as tap `100 + id`.

Stateful operators with a persistence argument (`op pos kind static tap`), at any depth:
  unique      `-> unique::<'p>()`                                                        (inline)
  enumerate   `-> enumerate::<'p>() -> map(|(i, x)| x + 100 * i)`                         (inline)
  fold        `w = prev -> tee(); w -> fold::<'p>(|| 0, |a, x| *a += x) -> for_each(record tap); next = w`
  reduce      the same with `reduce::<'p>(|a, x| *a += x)`            (emits nothing while its `Option` is `None`)
  foldKeyed   the same with `map(|x| (x % 2, x)) -> fold_keyed::<'p>(|| 0, |a, x| *a += x)`, recorded `k * 100000 + sum`
Their state is kept as the list of items absorbed since the last reset (`unique`: the distinct ones); the Rust
accumulators are functions of it (`fold`: the sum, `reduce`: `None` iff empty, `enumerate`: the counter is its length,
`fold_keyed`: one sum per key present).  It lives in the slot `pos` of the environment, in the field `buf` (`back`
stays empty) — the same storage record the delayed handoffs use.  The side-branch operators are on the push side of
the `tee`, where all three emit their whole state each time their subgraph runs (every loop iteration).  The state is
touched by nothing but the operator itself and the end-of-tick code `#( #op_tick_end_code )*`, which `as_code` collects
from *every* operator of *every* subgraph (`op_tick_end_code.push(write_tick_end)` in the per-operator loop, whatever
the subgraph's `loop_id`) and runs once per tick, after the body and the tick-level swaps: also for an operator in a
nested `while` loop the `'tick` reset happens at the end of the tick, not per iteration.
-/
import HvTick.Model.Tick
namespace HvTick.Loop

inductive OpKind
  | unique | enumerate | fold | reduce | foldKeyed
  deriving DecidableEq, Repr

inductive Node
  | map (k : Int)
  | tap (i : Nat)
  /-- `defer_tick()` / `defer_tick_lazy()`; `pos` names its handoff -/
  | defer (pos : Nat) (lazy : Bool)
  /-- `u = union(); prev -> u; t = u -> tee(); t -> filter(<n) -> map(+1) -> defer_tick[_lazy]() -> u` -/
  | cycle (pos : Nat) (lazy : Bool) (n : Int)
  /-- a stateful operator with persistence `'static` (`static = true`) or `'tick`; `pos` names its state slot,
  `tap` is where the side-branch kinds record -/
  | op (pos : Nat) (k : OpKind) (static : Bool) (tap : Nat)
  /-- `extra = some l`: a second entry from the second source through `batch()` (l = false) / `batch_lazy()` -/
  | loop (id : Nat) (mainLazy : Bool) (extra : Option Bool) (body : List Node)

/-- a storage slot: for a delayed handoff the producer side `buf` and the consumer side `back`; for a stateful
operator its state in `buf` -/
structure H where
  buf : List Int := []
  back : List Int := []
  deriving DecidableEq, Repr, Inhabited

abbrev Env := List (Nat × H)

def Env.get (e : Env) (p : Nat) : H :=
  match e.find? (·.1 == p) with
  | some x => x.2
  | none => default

def Env.set (e : Env) (p : Nat) (h : H) : Env := (p, h) :: e.filter (·.1 != p)

abbrev Outs := List (Nat × List Int)

/-- delayed handoffs whose consumer sits directly in this block: (pos, lazy) -/
def directDelays : List Node → List (Nat × Bool)
  | [] => []
  | .defer p l :: r => (p, l) :: directDelays r
  | .cycle p l _ :: r => (p, l) :: directDelays r
  | _ :: r => directDelays r

/-- the gate condition of `emit_loop_gate` -/
def gateOf (entries : List (Bool × List Int)) (delays : List (Nat × Bool)) (env : Env) : Bool :=
  entries.any (fun e => !e.1 && !e.2.isEmpty) || delays.any (fun d => !d.2 && !(env.get d.1).back.isEmpty)

/-- `#( #swap_code )*` -/
def swapAll (delays : List (Nat × Bool)) (env : Env) : Env :=
  delays.foldl (fun e d => let h := e.get d.1; e.set d.1 ⟨h.back, h.buf⟩) env

/-- `enumerate`'s numbering continued from counter value `n`, folded into the item as `x + 100 * i` -/
def enumFrom : Nat → List Int → List Int
  | _, [] => []
  | n, x :: xs => (x + 100 * (n : Int)) :: enumFrom (n + 1) xs

/-- the keys (`x % 2`, Rust's truncating remainder) present in a state -/
def keysOf (l : List Int) : List Int := (l.map (·.tmod 2)).eraseDups

/-- one run of a stateful operator: state (items absorbed so far) and input batch ↦ new state, batch handed on,
values recorded at the operator's tap -/
def opStep : OpKind → List Int → List Int → List Int × List Int × List Int
  | .unique, log, b => let r := Tick.dedup log b; (r.1, r.2, [])
  | .enumerate, log, b => (log ++ b, enumFrom log.length b, [])
  | .fold, log, b => (log ++ b, b, [Tick.sum (log ++ b)])
  | .reduce, log, b => (log ++ b, b, if (log ++ b).isEmpty then [] else [Tick.sum (log ++ b)])
  | .foldKeyed, log, b =>
    let all := log ++ b
    (all, b, (keysOf all).map fun k => k * 100000 + Tick.sum (all.filter (·.tmod 2 == k)))

/-- state of a running `while`: delayed handoffs, the entry buffers (main, extra), the exit buffer, tap records -/
structure LSt where
  env : Env
  main : List Int
  extra : List Int
  exit : List Int
  outs : Outs

/-- `while gate { step }` with an iteration budget; returns the final state and the number of iterations -/
def iterate (gate : σ → Bool) (step : σ → Option σ) : Nat → σ → Option (σ × Nat)
  | 0, s => if gate s then none else some (s, 0)
  | fuel + 1, s =>
    if gate s then
      match step s with
      | some s' => (iterate gate step fuel s').map fun r => (r.1, r.2 + 1)
      | none => none
    else some (s, 0)

/-- `k` iterations of `step` -/
def iterN (step : σ → Option σ) : Nat → σ → Option σ
  | 0, s => some s
  | k + 1, s => (step s).bind (iterN step k)

/-- One run of a block's nodes on batch `b` (`s2` = this tick's batch of the second source).
`depth = 0`: outside every loop.  `none` = budget exhausted. -/
def runNodes : Nat → Nat → List Node → Env → List Int → List Int → Option (Env × List Int × Outs)
  | 0, _, _, _, _, _ => none
  | _ + 1, _, [], env, b, _ => some (env, b, [])
  | f + 1, d, n :: ns, env, b, s2 =>
    match n with
    | .map k => runNodes f d ns env (b.map (· + k)) s2
    | .tap i => (runNodes f d ns env b s2).map fun r => (r.1, r.2.1, (i, b) :: r.2.2)
    | .defer p _ =>
      let h := env.get p
      runNodes f d ns (env.set p ⟨b, []⟩) h.back s2
    | .cycle p _ m =>
      let h := env.get p
      let inn := b ++ h.back
      runNodes f d ns (env.set p ⟨(inn.filter (· < m)).map (· + 1), []⟩) inn s2
    | .op p k _ t =>
      let r := opStep k (env.get p).buf b
      (runNodes f d ns (env.set p ⟨r.1, []⟩) r.2.1 s2).map fun q => (q.1, q.2.1, (t, r.2.2) :: q.2.2)
    | .loop id ml ex body =>
      let delays := directDelays body
      let extraB := if ex.isSome then s2 else []
      let entries (st : LSt) : List (Bool × List Int) :=
        (ml, st.main) :: (match ex with | some l => [(l, st.extra)] | none => [])
      let gate (st : LSt) : Bool := gateOf (entries st) delays st.env
      -- one execution of the body + the loop's swap code; the entry buffers are drained by it
      let step (st : LSt) : Option LSt :=
        match runNodes f (d + 1) body st.env (st.main ++ st.extra) s2 with
        | some r => some ⟨swapAll delays r.1, [], [], st.exit ++ r.2.1, st.outs ++ ((100 + id, [1]) :: r.2.2)⟩
        | none => none
      let st0 : LSt := ⟨env, b, extraB, [], []⟩
      -- (a loop without any entry handoff would be emitted unconditionally; every loop of this language has
      -- a main entry, so the gate is always an `if` / `while` — also when all its conditions are lazy, F26)
      let fin : Option LSt :=
        if d = 0 then
          (if gate st0 then step st0 else some st0)          -- root loop: `if`
        else
          (iterate gate step f st0).map (·.1)                -- nested loop: `while`
      match fin with
      | some st => (runNodes f d ns st.env st.exit s2).map fun r => (r.1, r.2.1, st.outs ++ r.2.2)
      | none => none

/-- all delayed handoffs of a program, with the depth of their block: (pos, lazy, inRootLoop) -/
def allDelays : Nat → Nat → List Node → List (Nat × Bool × Bool)
  | 0, _, _ => []
  | _ + 1, _, [] => []
  | f + 1, d, .defer p l :: r => (p, l, d == 1) :: allDelays f d r
  | f + 1, d, .cycle p l _ :: r => (p, l, d == 1) :: allDelays f d r
  | f + 1, d, .loop _ _ _ body :: r => allDelays f (d + 1) body ++ allDelays f d r
  | f + 1, d, _ :: r => allDelays f d r

/-- all stateful operators of a program, wherever they stand: (pos, static, inside a loop block) — the operators
`as_code` collects `write_tick_end` from -/
def allOps : Nat → Nat → List Node → List (Nat × Bool × Bool)
  | 0, _, _ => []
  | _ + 1, _, [] => []
  | f + 1, d, .op p _ st _ :: r => (p, st, d != 0) :: allOps f d r
  | f + 1, d, .loop _ _ _ body :: r => allOps f (d + 1) body ++ allOps f d r
  | f + 1, d, _ :: r => allOps f d r

/-- `#( #op_tick_end_code )*`: `Persistence::Tick => reset`, `Persistence::Static => nothing`, over the collected
operators.  `inLoops = false` is the variant that collects the code only from operators outside every loop block. -/
def tickEndAll (inLoops : Bool) : List (Nat × Bool × Bool) → Env → Env
  | [], e => e
  | (p, st, inl) :: r, e => tickEndAll inLoops r (if !st && (inLoops || !inl) then e.set p default else e)

/-- the two places where the emitted tick closure treats loop blocks specially; `⟨true, true⟩` is `as_code`
(re-extracted from meta_graph.rs on every run: `Gen.schedRootLoopChecksBack`, `Gen.tickEndCollectedInLoops`) -/
structure Cfg where
  /-- the schedule check reads `back` (not `buf`) of a `defer_tick` handoff consumed in a root-level loop, because
  that handoff was already swapped inside the loop's `if` gate -/
  schedRootBack : Bool
  /-- `write_tick_end` is collected from operators inside loop blocks too -/
  tickEndInLoops : Bool

structure RSt where
  prog : List Node
  env : Env
  tick : Nat
  deriving Inhabited

/-- the tick closure: body; `non_lazy_schedule` check (`back` for handoffs inside a root loop, `buf` otherwise);
tick-level swap of the delayed handoffs outside every loop; per-operator tick-end code; `__end_tick`.
Returns taps and whether another tick was requested. -/
def tickClosureWith (c : Cfg) (fuel : Nat) (s : RSt) (b1 b2 : List Int) : Option (RSt × Outs × Bool) :=
  match runNodes fuel 0 s.prog s.env b1 b2 with
  | some r =>
    let sched := (allDelays fuel 0 s.prog).any fun d =>
      !d.2.1 && !(if c.schedRootBack && d.2.2 then (r.1.get d.1).back else (r.1.get d.1).buf).isEmpty
    let env' := swapAll (directDelays s.prog) r.1
    let env'' := tickEndAll c.tickEndInLoops (allOps fuel 0 s.prog) env'
    some ({ s with env := env'', tick := s.tick + 1 }, r.2.2, sched)
  | none => none

def tickClosure : Nat → RSt → List Int → List Int → Option (RSt × Outs × Bool) := tickClosureWith ⟨true, true⟩

/-- `run_available_sync` when nothing is sent during the call (`fuel'` ticks at most): `can_start_tick := false`, then
`loop { run_tick; if !can_start_tick.swap(false) { break } }` — the flag can then only be set by the closure's own
`schedule_subgraph(true)`; the first tick sees what was sent before the call, the later ones nothing new. -/
def runAvailableWith (c : Cfg) (fuel : Nat) : Nat → RSt → List Int → List Int → Option (RSt × List Outs)
  | 0, _, _, _ => none
  | n + 1, s, a, b =>
    match tickClosureWith c fuel s a b with
    | some (s', o, sched) =>
      if sched then (runAvailableWith c fuel n s' [] []).map fun r => (r.1, o :: r.2) else some (s', [o])
    | none => none

end HvTick.Loop
