/-
C26 model: loop blocks as emitted by `DfirGraph::emit_loop_gate` (dfir_lang/src/graph/meta_graph.rs).

  * a root-level loop (no parent) is emitted as   `if false || gate… { body; swap… }`     (at most once per tick)
  * a nested loop is emitted as                   `while false || gate… { body; swap… }`  (until the gate is false)
  * gate = `!buf.is_empty()` of every entry handoff whose consumer is not a `WindowingLazy` operator (`batch_lazy`)
           || `!back.is_empty()` of every non-lazy delayed handoff whose consumer sits directly in this loop
           (`DelayType::Tick` for a root loop, `DelayType::Loop` — the remapped `defer_tick` — for a nested loop)
  * swap = `mem::swap(buf, back)` of every delayed handoff whose consumer sits directly in this loop
  * only a loop with no entry handoff at all is emitted unconditionally; a loop whose entries are all lazy
    (`batch_lazy`) and that has no non-lazy delayed handoff has the gate `false`: it never runs on its own
    (this is the behaviour after the fix of finding F26; before it such a loop ran on every tick)
  * the exit handoff (consumer `all_iterations()`) is declared once before the gate and accumulates over iterations
  * entry handoffs are filled by the parent before the gate and drained by the first iteration

Programs: the pipeline language of C24 plus `loop id mainLazy extra body`
  `prev -> batch()|batch_lazy() -> [union with src2 -> batch()|batch_lazy()] -> body -> all_iterations() -> next`
A loop body starts with an iteration marker (a `fold` on a `tee` branch that reports once per run of its subgraph),
recorded as tap `100 + id`.
-/
namespace HvTick.Loop

inductive Node
  | map (k : Int)
  | tap (i : Nat)
  /-- `defer_tick()` / `defer_tick_lazy()`; `pos` names its handoff -/
  | defer (pos : Nat) (lazy : Bool)
  /-- `u = union(); prev -> u; t = u -> tee(); t -> filter(<n) -> map(+1) -> defer_tick[_lazy]() -> u` -/
  | cycle (pos : Nat) (lazy : Bool) (n : Int)
  /-- `extra = some l`: a second entry from the second source through `batch()` (l = false) / `batch_lazy()` -/
  | loop (id : Nat) (mainLazy : Bool) (extra : Option Bool) (body : List Node)

/-- a delayed handoff: producer side `buf`, consumer side `back` -/
structure H where
  buf : List Int := []
  back : List Int := []
  deriving DecidableEq, Repr, Inhabited

abbrev Env := List (Nat × H)

def Env.get (e : Env) (p : Nat) : H :=
  match e.find? (·.1 == p) with
  | some x => x.2
  | none => default

def Env.set (e : Env) (p : Nat) (h : H) : Env := (p, h) :: e.filter (·.1 != p)

abbrev Outs := List (Nat × List Int)

/-- delayed handoffs whose consumer sits directly in this block: (pos, lazy) -/
def directDelays : List Node → List (Nat × Bool)
  | [] => []
  | .defer p l :: r => (p, l) :: directDelays r
  | .cycle p l _ :: r => (p, l) :: directDelays r
  | _ :: r => directDelays r

/-- the gate condition of `emit_loop_gate` -/
def gateOf (entries : List (Bool × List Int)) (delays : List (Nat × Bool)) (env : Env) : Bool :=
  entries.any (fun e => !e.1 && !e.2.isEmpty) || delays.any (fun d => !d.2 && !(env.get d.1).back.isEmpty)

/-- `#( #swap_code )*` -/
def swapAll (delays : List (Nat × Bool)) (env : Env) : Env :=
  delays.foldl (fun e d => let h := e.get d.1; e.set d.1 ⟨h.back, h.buf⟩) env

/-- state of a running `while`: delayed handoffs, the entry buffers (main, extra), the exit buffer, tap records -/
structure LSt where
  env : Env
  main : List Int
  extra : List Int
  exit : List Int
  outs : Outs

/-- `while gate { step }` with an iteration budget; returns the final state and the number of iterations -/
def iterate (gate : σ → Bool) (step : σ → Option σ) : Nat → σ → Option (σ × Nat)
  | 0, s => if gate s then none else some (s, 0)
  | fuel + 1, s =>
    if gate s then
      match step s with
      | some s' => (iterate gate step fuel s').map fun r => (r.1, r.2 + 1)
      | none => none
    else some (s, 0)

/-- `k` iterations of `step` -/
def iterN (step : σ → Option σ) : Nat → σ → Option σ
  | 0, s => some s
  | k + 1, s => (step s).bind (iterN step k)

/-- One run of a block's nodes on batch `b` (`s2` = this tick's batch of the second source).
`depth = 0`: outside every loop.  `none` = budget exhausted. -/
def runNodes : Nat → Nat → List Node → Env → List Int → List Int → Option (Env × List Int × Outs)
  | 0, _, _, _, _, _ => none
  | _ + 1, _, [], env, b, _ => some (env, b, [])
  | f + 1, d, n :: ns, env, b, s2 =>
    match n with
    | .map k => runNodes f d ns env (b.map (· + k)) s2
    | .tap i => (runNodes f d ns env b s2).map fun r => (r.1, r.2.1, (i, b) :: r.2.2)
    | .defer p _ =>
      let h := env.get p
      runNodes f d ns (env.set p ⟨b, []⟩) h.back s2
    | .cycle p _ m =>
      let h := env.get p
      let inn := b ++ h.back
      runNodes f d ns (env.set p ⟨(inn.filter (· < m)).map (· + 1), []⟩) inn s2
    | .loop id ml ex body =>
      let delays := directDelays body
      let extraB := if ex.isSome then s2 else []
      let entries (st : LSt) : List (Bool × List Int) :=
        (ml, st.main) :: (match ex with | some l => [(l, st.extra)] | none => [])
      let gate (st : LSt) : Bool := gateOf (entries st) delays st.env
      -- one execution of the body + the loop's swap code; the entry buffers are drained by it
      let step (st : LSt) : Option LSt :=
        match runNodes f (d + 1) body st.env (st.main ++ st.extra) s2 with
        | some r => some ⟨swapAll delays r.1, [], [], st.exit ++ r.2.1, st.outs ++ ((100 + id, [1]) :: r.2.2)⟩
        | none => none
      let st0 : LSt := ⟨env, b, extraB, [], []⟩
      -- (a loop without any entry handoff would be emitted unconditionally; every loop of this language has
      -- a main entry, so the gate is always an `if` / `while` — also when all its conditions are lazy, F26)
      let fin : Option LSt :=
        if d = 0 then
          (if gate st0 then step st0 else some st0)          -- root loop: `if`
        else
          (iterate gate step f st0).map (·.1)                -- nested loop: `while`
      match fin with
      | some st => (runNodes f d ns st.env st.exit s2).map fun r => (r.1, r.2.1, st.outs ++ r.2.2)
      | none => none

/-- all delayed handoffs of a program, with the depth of their block: (pos, lazy, inRootLoop) -/
def allDelays : Nat → Nat → List Node → List (Nat × Bool × Bool)
  | 0, _, _ => []
  | _ + 1, _, [] => []
  | f + 1, d, .defer p l :: r => (p, l, d == 1) :: allDelays f d r
  | f + 1, d, .cycle p l _ :: r => (p, l, d == 1) :: allDelays f d r
  | f + 1, d, .loop _ _ _ body :: r => allDelays f (d + 1) body ++ allDelays f d r
  | f + 1, d, _ :: r => allDelays f d r

structure RSt where
  prog : List Node
  env : Env
  tick : Nat
  deriving Inhabited

/-- the tick closure: body; `non_lazy_schedule` check (`back` for handoffs inside a root loop, `buf` otherwise);
tick-level swap of the delayed handoffs outside every loop.  Returns taps and whether another tick was requested. -/
def tickClosure (fuel : Nat) (s : RSt) (b1 b2 : List Int) : Option (RSt × Outs × Bool) :=
  match runNodes fuel 0 s.prog s.env b1 b2 with
  | some r =>
    let sched := (allDelays fuel 0 s.prog).any fun d =>
      !d.2.1 && !(if d.2.2 then (r.1.get d.1).back else (r.1.get d.1).buf).isEmpty
    let env' := swapAll (directDelays s.prog) r.1
    some ({ s with env := env', tick := s.tick + 1 }, r.2.2, sched)
  | none => none

end HvTick.Loop
