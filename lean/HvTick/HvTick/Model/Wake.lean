/-
C27 model: the wake protocol between `WakeState::wake_by_ref` (any thread) and the runner
`Dfir::run` / `run_available` / `run_tick` of dfir_rs/src/scheduled/context.rs.

Each program counter value is the point *just before* one atomic access of the runner
(these are exactly the cfg-guarded `verif_hooks::point(..)` calls in context.rs):

  run:            loop { run_available().await; poll_fn(idle).await }
  run_available:  [raStore] can_start_tick.store(false)
                  loop { run_tick().await;
                         [raSwap] c = can_start_tick.swap(false); if !c { break }
                         [raYield] yield_now().await   -- wakes its own task, returns Pending once: [yielded]
                       }
  run_tick:       [rtSwap] had_external = can_start_tick.swap(false)
                  [rtCall] tick_closure.call_tick(ctx)   -- the tick starts here; [inTick] is inside the closure
                  [rtLoad] can_start_tick.load()
  idle poll_fn:   [idleRegister] task_waker.register(cx.waker())
                  [idleLoad] if can_start_tick.load() { Ready } else { Pending -> [parked] }

  wake_by_ref:    can_start_tick.store(true)      -- Act.store
                  task_waker.wake()               -- Act.notify (takes the registered waker, wakes the task)

Interleaving is sequentially consistent (see the trusted base); any number of wakers may be between
their two steps (`inflight`).  `Variant.swapped` is the poll_fn with load and register exchanged (the
order the source comment warns against); it exists only to be refuted.
-/
namespace HvTick.Wake

inductive PC
  | raStore | rtSwap | rtCall | inTick | rtLoad | raSwap | raYield | yielded
  | idleRegister | idleLoad | parked
  deriving DecidableEq, Repr, Inhabited

inductive Variant | real | swapped
  deriving DecidableEq, Repr

inductive Act
  | run      -- one atomic step of the runner
  | store    -- a waker thread executes `can_start_tick.store(true)`
  | notify   -- a waker thread that has stored executes `task_waker.wake()`
  deriving DecidableEq, Repr

structure St where
  pc : PC
  /-- `WakeState::can_start_tick` -/
  flag : Bool
  /-- `WakeState::task_waker` currently holds the runner task's waker -/
  reg : Bool
  /-- the runner task has been woken: its executor will poll it again -/
  notified : Bool
  /-- ghost: some `store` happened after the last tick start -/
  owed : Bool
  /-- ghost: wakers between their `store` and their `task_waker.wake()` -/
  inflight : Nat
  /-- number of ticks started (calls of the tick closure) -/
  ticks : Nat
  deriving DecidableEq, Repr

def init : St := ⟨.raStore, false, false, false, false, 0, 0⟩

/-- One atomic runner step.  A suspended runner (`yielded`, `parked`) only moves when notified. -/
def runStep (v : Variant) (s : St) : St :=
  match s.pc with
  | .raStore => { s with flag := false, pc := .rtSwap }
  | .rtSwap => { s with flag := false, pc := .rtCall }
  | .rtCall => { s with owed := false, ticks := s.ticks + 1, pc := .inTick }
  | .inTick => { s with pc := .rtLoad }
  | .rtLoad => { s with pc := .raSwap }
  | .raSwap =>
      if s.flag then { s with flag := false, pc := .raYield }
      else { s with flag := false, pc := match v with | .real => .idleRegister | .swapped => .idleLoad }
  | .raYield => { s with notified := true, pc := .yielded }
  | .yielded => if s.notified then { s with notified := false, pc := .rtSwap } else s
  | .idleRegister =>
      { s with reg := true, pc := match v with | .real => .idleLoad | .swapped => .parked }
  | .idleLoad =>
      if s.flag then { s with pc := .raStore }
      else { s with pc := match v with | .real => .parked | .swapped => .idleRegister }
  | .parked =>
      if s.notified then
        { s with notified := false, pc := match v with | .real => .idleRegister | .swapped => .idleLoad }
      else s

/-- `can_start_tick.store(true)` of `wake_by_ref`. -/
def storeStep (s : St) : St :=
  { s with flag := true, owed := true, inflight := s.inflight + 1 }

/-- `task_waker.wake()` of `wake_by_ref`: `AtomicWaker::wake` takes the registered waker (if any) and wakes it. -/
def notifyStep (s : St) : St :=
  match s.inflight with
  | 0 => s
  | k + 1 =>
    if s.reg then { s with inflight := k, reg := false, notified := true }
    else { s with inflight := k }

def step (v : Variant) (s : St) : Act → St
  | .run => runStep v s
  | .store => storeStep s
  | .notify => notifyStep s

def exec (v : Variant) (s : St) : List Act → St
  | [] => s
  | a :: as => exec v (step v s a) as

/-- the runner is suspended and nothing has woken it -/
def asleep (s : St) : Bool := (s.pc == .parked || s.pc == .yielded) && !s.notified

/-- nobody can move the runner any more: asleep, and no waker in flight that would notify it -/
def stuck (s : St) : Bool := asleep s && (s.inflight == 0 || !s.reg)

/-- the actor whose turn makes progress towards the next tick: the runner, or (runner asleep) a waker in flight -/
def helper (s : St) : Act := if asleep s then .notify else .run

/-- does a tick start somewhere along the schedule? -/
def tickStarts (v : Variant) (s : St) : List Act → Bool
  | [] => false
  | a :: as => (a == .run && s.pc == .rtCall) || tickStarts v (step v s a) as

/-- number of turns along the schedule that are given to the current helper -/
def helperTurns (v : Variant) (s : St) : List Act → Nat
  | [] => 0
  | a :: as => (if a = helper s then 1 else 0) + helperTurns v (step v s a) as

def PC.name : PC → String
  | .raStore => "ra_store" | .rtSwap => "rt_swap" | .rtCall => "rt_call" | .inTick => "in_tick"
  | .rtLoad => "rt_load" | .raSwap => "ra_swap" | .raYield => "ra_yield" | .yielded => "yielded"
  | .idleRegister => "idle_register" | .idleLoad => "idle_load" | .parked => "parked"

end HvTick.Wake
