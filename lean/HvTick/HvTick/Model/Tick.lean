/-
C24 model, part 1: the tick closure skeleton emitted by `DfirGraph::as_code` (dfir_lang/src/graph/meta_graph.rs)
and the synchronous runners `run_tick` / `run_available_sync` of dfir_rs/src/scheduled/context.rs.

The closure emitted by `as_code` is (names as in the source):

    bump.reset();
    { #gated_subgraph_code                                        -- `body`: every subgraph once, topological order
      if false #( || !#non_lazy_schedule_idents.is_empty() )* { df.schedule_subgraph(true); }   -- `sched`
      #( #back_edge_swap_code )*                                  -- mem::swap(buf, back) per Tick/TickLazy handoff
    }
    #( #op_tick_end_code )*                                       -- 'tick state reset
    df.__end_tick();                                              -- current_tick += 1

A tick-delayed handoff (`defer_tick` / `defer_tick_lazy`) is the pair (`buf`, `back`): its producer does
`buf.clear()` and pushes into `buf`, its consumer drains `back`.

Programs are pipelines over a small stage language (the corpus the harness compiles with `dfir_syntax!`):
  defer l      `-> defer_tick()` / `-> defer_tick_lazy()`
  map k        `-> map(|x| x + k)`
  unique st    `-> unique::<'static>()` / `unique::<'tick>()`
  tap i        `-> inspect(record tap i)`
  cycle l n    `u = union(); prev -> u; t = u -> tee(); t -> filter(|x| *x < n) -> map(|x| x + 1) -> defer_tick[_lazy]() -> u;` continue from `t`
  fold st i    `-> fold::<'static|'tick>(|| 0, |a, x| *a += x) -> for_each(record tap i)`   (ends the pipeline)
The source is `source_stream(rx)` of an unbounded channel: each tick it drains the channel and leaves
`context.waker()` registered in it; a `send` into a channel with a registered waker fires it (`wake_by_ref`:
`can_start_tick := true`) and consumes the registration.
-/
namespace HvTick.Tick

inductive Stage
  | defer (lazy : Bool)
  | map (k : Int)
  | unique (static : Bool)
  | tap (i : Nat)
  | cycle (lazy : Bool) (n : Int)
  | fold (static : Bool) (i : Nat)
  deriving DecidableEq, Repr

/-- per-stage state (one uniform record; a stage uses the fields that concern it) -/
structure SSt where
  /-- producer side of the delayed handoff (filled during the tick) -/
  buf : List Int := []
  /-- consumer side (drained during the tick) -/
  back : List Int := []
  /-- `unique`'s hash set -/
  seen : List Int := []
  /-- `fold`'s accumulator -/
  acc : Int := 0
  deriving DecidableEq, Repr, Inhabited

/-- `filter(|x| !seen.contains(x) then insert)` over a batch, in order -/
def dedup : List Int → List Int → List Int × List Int
  | seen, [] => (seen, [])
  | seen, x :: xs =>
    if seen.contains x then dedup seen xs
    else let r := dedup (x :: seen) xs; (r.1, x :: r.2)

def sum : List Int → Int
  | [] => 0
  | x :: xs => x + sum xs

/-- one stage inside the tick: new state, batch passed on, tap records -/
def stageBody : Stage → SSt → List Int → SSt × List Int × List (Nat × List Int)
  | .defer _, st, b => ({ st with buf := b, back := [] }, st.back, [])
  | .map k, st, b => (st, b.map (· + k), [])
  | .unique _, st, b => let r := dedup st.seen b; ({ st with seen := r.1 }, r.2, [])
  | .tap i, st, b => (st, b, [(i, b)])
  | .cycle _ n, st, b =>
    let inn := b ++ st.back
    ({ st with buf := (inn.filter (· < n)).map (· + 1), back := [] }, inn, [])
  | .fold _ i, st, b => let a := st.acc + sum b; ({ st with acc := a }, [], [(i, [a])])

/-- a stage input/output record of one tick: (batch that entered the stage, batch that left it) -/
abbrev IO := List Int × List Int

/-- the body: all stages once, threading the batch; returns states, tap records, per-stage I/O -/
def runBody : List Stage → List SSt → List Int → List SSt × List (Nat × List Int) × List IO
  | [], _, _ => ([], [], [])
  | s :: ss, sts, b =>
    let r := stageBody s (sts.headD default) b
    let rest := runBody ss sts.tail r.2.1
    (r.1 :: rest.1, r.2.2 ++ rest.2.1, (b, r.2.1) :: rest.2.2)

/-- `!buf.is_empty()` for the non-lazy tick-delayed handoffs (`non_lazy_schedule_idents`) -/
def pendingNonLazy : Stage → SSt → Bool
  | .defer false, st => !st.buf.isEmpty
  | .cycle false _, st => !st.buf.isEmpty
  | _, _ => false

def anyPending : List Stage → List SSt → Bool
  | s :: ss, st :: sts => pendingNonLazy s st || anyPending ss sts
  | _, _ => false

/-- `mem::swap(&mut buf, &mut back)` -/
def swapStage : Stage → SSt → SSt
  | .defer _, st => { st with buf := st.back, back := st.buf }
  | .cycle _ _, st => { st with buf := st.back, back := st.buf }
  | _, st => st

/-- `op_tick_end_code`: `Persistence::Tick => reset`, `Persistence::Static => nothing` -/
def tickEndStage : Stage → SSt → SSt
  | .unique false, st => { st with seen := [] }
  | .fold false _, st => { st with acc := 0 }
  | _, st => st

def zipStages (f : Stage → SSt → SSt) : List Stage → List SSt → List SSt
  | s :: ss, st :: sts => f s st :: zipStages f ss sts
  | _, _ => []

structure TickResult where
  sts : List SSt
  outs : List (Nat × List Int)
  io : List IO
  /-- `schedule_subgraph(true)` was called -/
  sched : Bool

/-- the tick closure (without the counter) -/
def tickClosure (prog : List Stage) (sts : List SSt) (batch : List Int) : TickResult :=
  let r := runBody prog sts batch
  let sched := anyPending prog r.1
  let swapped := zipStages swapStage prog r.1
  let ended := zipStages tickEndStage prog swapped
  ⟨ended, r.2.1, r.2.2, sched⟩

/-! ### the runner -/

structure RSt where
  prog : List Stage
  sts : List SSt
  /-- `Context::current_tick` -/
  tick : Nat
  /-- `can_start_tick` -/
  flag : Bool
  /-- sent into the channel, not yet pulled by the source -/
  queue : List Int
  /-- the channel holds `context.waker()` -/
  srcReg : Bool
  deriving Repr

def RSt.init (prog : List Stage) : RSt := ⟨prog, prog.map (fun _ => default), 0, false, [], false⟩

/-- `tx.send(v)` for each value -/
def send (s : RSt) (vs : List Int) : RSt :=
  if vs.isEmpty then s
  else if s.srcReg then { s with queue := s.queue ++ vs, flag := true, srcReg := false }
  else { s with queue := s.queue ++ vs }

/-- the call of the tick closure from `run_tick` (program point `rt_call`) -/
def callTick (s : RSt) : RSt × List (Nat × List Int) :=
  let r := tickClosure s.prog s.sts s.queue
  ({ s with sts := r.sts, queue := [], srcReg := true, flag := s.flag || r.sched, tick := s.tick + 1 }, r.outs)

/-- sends injected at the four program points of one `run_tick` + `ra_swap` round -/
structure Inj where
  atSwap : List Int := []
  atCall : List Int := []
  atLoad : List Int := []
  atRaSwap : List Int := []

/-- `run_tick_sync`: [rt_swap] flag := false; [rt_call] closure; [rt_load] -/
def runTick (s : RSt) (i : Inj) : RSt × List (Nat × List Int) :=
  let s1 := send s i.atSwap
  let s2 := { s1 with flag := false }
  let s3 := send s2 i.atCall
  let r := callTick s3
  (send r.1 i.atLoad, r.2)

/-- one round of the `run_available_sync` loop: `run_tick_sync(); [ra_swap] c = flag.swap(false)`; returns `c` -/
def raIter (s : RSt) (i : Inj) : RSt × List (Nat × List Int) × Bool :=
  let r := runTick s i
  let s1 := send r.1 i.atRaSwap
  ({ s1 with flag := false }, r.2, s1.flag)

/-- injection plan of a whole `run_available_sync`: visit index ↦ values; the points are visited in the order
`ra_store, (rt_swap, rt_call, rt_load, ra_swap)*` -/
def injAt (plan : List (Nat × List Int)) (k : Nat) : List Int :=
  match plan.find? (·.1 == k) with
  | some p => p.2
  | none => []

/-- the loop of `run_available_sync`, `fuel` rounds at most; returns the per-tick tap records -/
def raLoop : Nat → RSt → List (Nat × List Int) → Nat → RSt × List (List (Nat × List Int))
  | 0, s, _, _ => (s, [])
  | fuel + 1, s, plan, k =>
    let r := raIter s ⟨injAt plan k, injAt plan (k + 1), injAt plan (k + 2), injAt plan (k + 3)⟩
    if r.2.2 then
      let rest := raLoop fuel r.1 plan (k + 4)
      (rest.1, r.2.1 :: rest.2)
    else (r.1, [r.2.1])

/-- `run_available_sync`: [ra_store] flag := false; loop -/
def runAvailable (fuel : Nat) (s : RSt) (plan : List (Nat × List Int)) : RSt × List (List (Nat × List Int)) :=
  let s0 := send s (injAt plan 0)
  raLoop fuel { s0 with flag := false } plan 1

end HvTick.Tick
