/-
C24 model, part 2: `TickInstant(u64)` / `TickDuration{ticks: i64}` arithmetic of dfir_rs/src/scheduled/ticks.rs,
on Lean's fixed-width `UInt64` / `Int64`.  `none` = the `expect`/`panic!` of the source.

std primitives (`checked_add_signed`, `checked_add`, `checked_sub`, `checked_neg`, `unsigned_abs`,
`is_positive`/`is_negative`) are taken by their documented results; hydro's own bias trick in
`impl Sub for TickInstant` is transcribed on the machine operations (`as i64`, `wrapping_add`, `overflowing_sub`).
-/
namespace HvTick.Ticks

def inU64 (x : Int) : Bool := decide (0 ≤ x) && decide (x < 2 ^ 64)
def inI64 (x : Int) : Bool := decide (-(2 ^ 63) ≤ x) && decide (x < 2 ^ 63)

/-- `u64::checked_add_signed` -/
def checkedAddSigned (a : UInt64) (d : Int64) : Option UInt64 :=
  let r : Int := (a.toNat : Int) + d.toInt
  if inU64 r then some (UInt64.ofNat r.toNat) else none

/-- `u64::checked_add` -/
def checkedAddU (a b : UInt64) : Option UInt64 :=
  if a.toNat + b.toNat < 2 ^ 64 then some (a + b) else none

/-- `u64::checked_sub` -/
def checkedSubU (a b : UInt64) : Option UInt64 :=
  if b.toNat ≤ a.toNat then some (a - b) else none

/-- `i64::unsigned_abs` -/
def unsignedAbs (d : Int64) : UInt64 := UInt64.ofNat d.toInt.natAbs

/-- `impl AddAssign<TickDuration> for TickInstant` -/
def instAdd (a : UInt64) (d : Int64) : Option UInt64 := checkedAddSigned a d

/-- `impl SubAssign<TickDuration> for TickInstant` -/
def instSubDur (a : UInt64) (d : Int64) : Option UInt64 :=
  if 0 < d.toInt then checkedSubU a (unsignedAbs d)
  else if d.toInt < 0 then checkedAddU a (unsignedAbs d)
  else some a

/-- `i64::overflowing_sub`: wrapping difference and whether the exact one left the range -/
def overflowingSub (m s : Int64) : Int64 × Bool := (m - s, !inI64 (m.toInt - s.toInt))

/-- `impl Sub for TickInstant` — the `wrapping_add(i64::MIN)` bias, then `overflowing_sub` -/
def instDiff (a b : UInt64) : Option Int64 :=
  let minuend := a.toInt64 + Int64.minValue
  let subtrahend := b.toInt64 + Int64.minValue
  let r := overflowingSub minuend subtrahend
  if r.2 then none else some r.1

/-- `impl AddAssign for TickDuration` (`i64::checked_add`) -/
def durAdd (a b : Int64) : Option Int64 := if inI64 (a.toInt + b.toInt) then some (a + b) else none
/-- `impl SubAssign for TickDuration` (`i64::checked_sub`) -/
def durSub (a b : Int64) : Option Int64 := if inI64 (a.toInt - b.toInt) then some (a - b) else none
/-- `impl Neg for TickDuration` (`i64::checked_neg`) -/
def durNeg (a : Int64) : Option Int64 := if inI64 (-a.toInt) then some (-a) else none

/-- `Context::__end_tick`: `current_tick += TickDuration::SINGLE_TICK` -/
def endTick (t : UInt64) : Option UInt64 := instAdd t 1

end HvTick.Ticks
