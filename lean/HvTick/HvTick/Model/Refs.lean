/-
C25 model: handoff / singleton references (`#name`, `#mut name`, `#{N} name`, `#{N} mut name`).

Ordering construction (dfir_lang/src/graph/flat_to_partitioned.rs), for one referenced handoff node `h`:
  * pipe edges:             producer -> h,  h -> consumer
  * `find_subgraph_unionfind`, "Handoff references": for every borrower `b` of `h`:  h -> b  (producer of the value
    runs before the borrower) and, `h` being a handoff, b -> c for every pipe consumer `c` of `h`
  * `find_access_group_ordering`: references to `h` are grouped by access group in a `BTreeMap<Option<u32>, _>`
    (`None` first, then ascending); for each two *consecutive* groups (`tuple_windows`) every member of the earlier
    runs before every member of the later.
The partitioner turns these into `all_preds` of the topological sort; pairs (h, b) and access-group pairs are also
"enemies" (never in one subgraph).  `pos` below is the position of a node's subgraph in the emitted order.

Execution (one tick): the state after its producers, then closures in emitted order, then the pipe consumer.
-/
namespace HvTick.Refs

abbrev Node := Nat

/-- BTreeMap key of an access group: `None` ↦ 0, `Some n` ↦ n + 1 -/
def key : Option Nat → Nat
  | none => 0
  | some n => n + 1

structure Ref where
  node : Node
  group : Option Nat
  isMut : Bool
  deriving DecidableEq, Repr

structure Target where
  hoff : Node
  producers : List Node
  consumers : List Node
  refs : List Ref

/-- `b`'s group directly follows `a`'s among the groups that occur -/
def consecutive (t : Target) (a b : Ref) : Bool :=
  decide (key a.group < key b.group) &&
    !(t.refs.any fun c => decide (key a.group < key c.group) && decide (key c.group < key b.group))

/-- `find_access_group_ordering` -/
def accessGroupPairs (t : Target) : List (Node × Node) :=
  t.refs.flatMap fun a => (t.refs.filter (consecutive t a)).map fun b => (a.node, b.node)

/-- the reference edges of `find_subgraph_unionfind` -/
def refPreds (t : Target) : List (Node × Node) :=
  t.refs.flatMap fun b => (t.hoff, b.node) :: t.consumers.map fun c => (b.node, c)

def pipePreds (t : Target) : List (Node × Node) :=
  t.producers.map (fun p => (p, t.hoff)) ++ t.consumers.map (fun c => (t.hoff, c))

/-! ### execution of the corpus programs -/

inductive Op
  | add (k : Int) | mul (k : Int)          -- singleton state
  | push (k : Int) | retain (k : Int)      -- Vec state
  | read (tap : Nat)
  deriving DecidableEq, Repr

structure Closure where
  group : Option Nat
  op : Op
  deriving DecidableEq, Repr

inductive State
  | single (v : Int)
  | vec (b : List Int)
  deriving DecidableEq, Repr

def sum : List Int → Int
  | [] => 0
  | x :: xs => x + sum xs

def Op.isMut : Op → Bool
  | .read _ => false
  | _ => true

/-- one run of a closure body on the state: new state, recorded value -/
def applyOp : Op → State → State × Option (Nat × Int)
  | .add k, .single v => (.single (v + k), none)
  | .mul k, .single v => (.single (v * k), none)
  | .push k, .vec b => (.vec (b ++ [k]), none)
  | .retain k, .vec b => (.vec (b.filter fun y => y % k != 0), none)
  | .read tap, .single v => (.single v, some (tap, v))
  | .read tap, .vec b => (.vec b, some (tap, (b.length : Int) * 1000 + sum b))
  | _, s => (s, none)

/-- a closure runs for all `n` of its items before the next one starts -/
def runClosure (c : Closure) : Nat → State → State × List (Nat × Int)
  | 0, s => (s, [])
  | n + 1, s =>
    let r := applyOp c.op s
    let rest := runClosure c n r.1
    (rest.1, (match r.2 with | some x => [x] | none => []) ++ rest.2)

/-- closures in the given (emitted) order -/
def runSchedule (n : Nat) : List Closure → State → State × List (Nat × Int)
  | [], s => (s, [])
  | c :: cs, s =>
    let r := runClosure c n s
    let rest := runSchedule n cs r.1
    (rest.1, r.2 ++ rest.2)

def insertByKey (c : Closure) : List Closure → List Closure
  | [] => [c]
  | d :: ds => if key c.group < key d.group then c :: d :: ds else d :: insertByKey c ds

/-- stable sort by access group: the order the ordering edges force -/
def sortByGroup : List Closure → List Closure
  | [] => []
  | c :: cs => insertByKey c (sortByGroup cs)

/-- the pipe consumer at the end of the tick (tap 99) -/
def consumerRecords : State → List (Nat × Int)
  | .single v => [(99, v)]
  | .vec b => b.map fun v => (99, v)

structure Prog where
  vecKind : Bool
  init : Int
  closures : List Closure

/-- one tick: producers (`init + Σ sent` / the sent items), closures by group, consumer -/
def tick (p : Prog) (sent : List Int) (n : Nat) : List (Nat × Int) :=
  let s0 : State := if p.vecKind then .vec sent else .single (p.init + sum sent)
  let r := runSchedule n (sortByGroup p.closures) s0
  r.2 ++ consumerRecords r.1

end HvTick.Refs
