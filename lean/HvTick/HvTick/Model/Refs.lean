/-
C25 model: handoff / singleton references (`#name`, `#mut name`, `#{N} name`, `#{N} mut name`).

Ordering construction (dfir_lang/src/graph/flat_to_partitioned.rs), for one referenced handoff node `h`:
  * pipe edges:             producer -> h,  h -> consumer
  * `find_subgraph_unionfind`, "Handoff references": for every borrower `b` of `h`:  h -> b  (producer of the value
    runs before the borrower) and, `h` being a handoff, b -> c for every pipe consumer `c` of `h`
  * `find_access_group_ordering`: references to `h` are grouped by access group in a `BTreeMap<Option<u32>, _>`
    (`None` first, then ascending); for each two *consecutive* groups (`tuple_windows`) every member of the earlier
    runs before every member of the later.
The partitioner turns these into `all_preds` of the topological sort; pairs (h, b) and access-group pairs are also
"enemies" (never in one subgraph).  `pos` below is the position of a node's subgraph in the emitted order.

Execution (one tick): the state after its producers, then closures in emitted order, then the pipe consumer.

Finding F25: the pairs (borrower, pipe consumer) are ordering edges but were NOT enemies, so a borrower whose output
flows into the pipe consumer of the borrowed handoff (`joined` below) could be merged into the consumer's subgraph —
unless a closure of a later access group exists (then the merge would close a cycle and `try_merge` refuses it).  A
subgraph `take()`s / drains all of its receive handoffs before any of its operators runs
(`meta_graph.rs`, `recv_port_code`), so such a borrower evaluates `#st` on the emptied slot: `optional()` reads `None`,
`singleton()` panics in `as_ref().unwrap()`, `handoff()` does not compile.  `Gen.borrowerConsumerEnemies` (re-extracted
from flat_to_partitioned.rs on every run) says whether the current source makes these pairs enemies.
-/
import HvTick.Gen.RefEnemies
namespace HvTick.Refs

abbrev Node := Nat

/-- BTreeMap key of an access group: `None` ↦ 0, `Some n` ↦ n + 1 -/
def key : Option Nat → Nat
  | none => 0
  | some n => n + 1

structure Ref where
  node : Node
  group : Option Nat
  isMut : Bool
  deriving DecidableEq, Repr

structure Target where
  hoff : Node
  producers : List Node
  consumers : List Node
  refs : List Ref

/-- `b`'s group directly follows `a`'s among the groups that occur -/
def consecutive (t : Target) (a b : Ref) : Bool :=
  decide (key a.group < key b.group) &&
    !(t.refs.any fun c => decide (key a.group < key c.group) && decide (key c.group < key b.group))

/-- `find_access_group_ordering` -/
def accessGroupPairs (t : Target) : List (Node × Node) :=
  t.refs.flatMap fun a => (t.refs.filter (consecutive t a)).map fun b => (a.node, b.node)

/-- the reference edges of `find_subgraph_unionfind` -/
def refPreds (t : Target) : List (Node × Node) :=
  t.refs.flatMap fun b => (t.hoff, b.node) :: t.consumers.map fun c => (b.node, c)

def pipePreds (t : Target) : List (Node × Node) :=
  t.producers.map (fun p => (p, t.hoff)) ++ t.consumers.map (fun c => (t.hoff, c))

/-! ### execution of the corpus programs -/

inductive Op
  | add (k : Int) | mul (k : Int)          -- singleton state
  | push (k : Int) | retain (k : Int)      -- Vec state
  | read (tap : Nat)
  deriving DecidableEq, Repr

structure Closure where
  group : Option Nat
  op : Op
  /-- the closure's output flows into the pipe consumer of the referenced state (`-> [1]cons`) -/
  joined : Bool := false
  deriving DecidableEq, Repr

inductive State
  | single (v : Int)
  | vec (b : List Int)
  /-- `optional()` slot -/
  | opt (v : Option Int)
  deriving DecidableEq, Repr

def sum : List Int → Int
  | [] => 0
  | x :: xs => x + sum xs

def Op.isMut : Op → Bool
  | .read _ => false
  | _ => true

/-- one run of a closure body on the state: new state, recorded value -/
def applyOp : Op → State → State × Option (Nat × Int)
  | .add k, .single v => (.single (v + k), none)
  | .mul k, .single v => (.single (v * k), none)
  | .push k, .vec b => (.vec (b ++ [k]), none)
  | .retain k, .vec b => (.vec (b.filter fun y => y % k != 0), none)
  | .add k, .opt (some v) => (.opt (some (v + k)), none)
  | .mul k, .opt (some v) => (.opt (some (v * k)), none)
  | .read tap, .single v => (.single v, some (tap, v))
  | .read tap, .vec b => (.vec b, some (tap, (b.length : Int) * 1000 + sum b))
  | .read tap, .opt v => (.opt v, some (tap, v.getD (-1)))
  | _, s => (s, none)

/-- a closure runs for all `n` of its items before the next one starts -/
def runClosure (c : Closure) : Nat → State → State × List (Nat × Int)
  | 0, s => (s, [])
  | n + 1, s =>
    let r := applyOp c.op s
    let rest := runClosure c n r.1
    (rest.1, (match r.2 with | some x => [x] | none => []) ++ rest.2)

/-- closures in the given (emitted) order -/
def runSchedule (n : Nat) : List Closure → State → State × List (Nat × Int)
  | [], s => (s, [])
  | c :: cs, s =>
    let r := runClosure c n s
    let rest := runSchedule n cs r.1
    (rest.1, r.2 ++ rest.2)

def insertByKey (c : Closure) : List Closure → List Closure
  | [] => [c]
  | d :: ds => if key c.group < key d.group then c :: d :: ds else d :: insertByKey c ds

/-- stable sort by access group: the order the ordering edges force -/
def sortByGroup : List Closure → List Closure
  | [] => []
  | c :: cs => insertByKey c (sortByGroup cs)

/-- the pipe consumer at the end of the tick (tap 99) -/
def consumerRecords : State → List (Nat × Int)
  | .single v => [(99, v)]
  | .vec b => b.map fun v => (99, v)
  | .opt (some v) => [(99, v)]
  | .opt none => []

inductive Kind
  | single (init : Int)
  | vec
  | opt
  deriving DecidableEq, Repr

structure Prog where
  kind : Kind
  closures : List Closure

/-- the state after the producers of the tick: `fold::<'tick>(init, +)`, the sent items, `reduce::<'tick>(+)` -/
def initState (k : Kind) (sent : List Int) : State :=
  match k with
  | .single i => .single (i + sum sent)
  | .vec => .vec sent
  | .opt => .opt (if sent.isEmpty then none else some (sum sent))

/-- **the property's schedule**: producers, closures by group (each for all `n` items), then the pipe consumer -/
def tickSpec (p : Prog) (sent : List Int) (n : Nat) : List (Nat × Int) :=
  let r := runSchedule n (sortByGroup p.closures) (initState p.kind sent)
  r.2 ++ consumerRecords r.1

/-- does the partitioner put closure `c` into the pipe consumer's subgraph?  Only without the (borrower, consumer)
enemy pairs, only a closure wired into the consumer, and only if no closure of a strictly later group exists (the
merged subgraph would have to run both before and after that one: `try_merge`'s cycle check refuses). -/
def merged (enemies : Bool) (cs : List Closure) (c : Closure) : Bool :=
  !enemies && c.joined && cs.all (fun d => decide (key d.group ≤ key c.group))

/-- what the slot holds after the consumer subgraph's receive code ran (`buf.take()` / `drain(..)`);
`none`: a `singleton()` slot — every access is `as_ref().unwrap()` / `as_mut().unwrap()` on `None` and panics -/
def drained : State → Option State
  | .single _ => none
  | .vec _ => some (.vec [])
  | .opt _ => some (.opt none)

/-- one tick of the emitted code, given whether (borrower, pipe consumer) pairs are enemies; `none` = the tick panics.
Closures merged into the consumer's subgraph run after its receive code emptied the slot; what the consumer
receives was taken before they ran. -/
def tickWith (enemies : Bool) (p : Prog) (sent : List Int) (n : Nat) : Option (List (Nat × Int)) :=
  let sorted := sortByGroup p.closures
  let early := sorted.filter (fun c => !merged enemies p.closures c)
  let late := sorted.filter (merged enemies p.closures)
  let r := runSchedule n early (initState p.kind sent)
  let cons := consumerRecords r.1
  if late.isEmpty || n == 0 then some (r.2 ++ cons)
  else match drained r.1 with
    | none => none
    | some sd => some (r.2 ++ (runSchedule n late sd).2 ++ cons)

/-- the `Target` of a corpus program: handoff node 0, producer 1, pipe consumer 2, closure `i` is node `10 + i` -/
def targetOf (cs : List Closure) : Target :=
  ⟨0, [1], [2], (List.range cs.length).zip cs |>.map fun x => ⟨10 + x.1, x.2.group, x.2.op.isMut⟩⟩

def insertKey (k : Nat) : List (Nat × Nat) → List (Nat × Nat)
  | [] => [(k, 1)]
  | (j, n) :: r => if k < j then (k, 1) :: (j, n) :: r else if k = j then (j, n + 1) :: r else (j, n) :: insertKey k r

/-- `node_handoff_reference_groups` of one target: BTreeMap key ↦ number of references, ascending -/
def groupSizes (cs : List Closure) : List (Nat × Nat) :=
  cs.foldl (fun acc c => insertKey (key c.group) acc) []

/-- the code that exists -/
def tick (p : Prog) (sent : List Int) (n : Nat) : Option (List (Nat × Int)) :=
  tickWith Gen.borrowerConsumerEnemies p sent n

/-! ### Hydro side: `hydro_lang/src/handoff_ref.rs` `register_handoff_ref` + `AccessCounter::next_group`

Every capture of a `by_ref()` / `by_mut()` handle inside a `q!()` closure calls `access_counter.next_group(is_mut)` on
the counter of the referenced node, in staging (code) order, and is emitted as `let x = #{group} [mut] ident;`
(`ClosureExpr::emit_tokens`), i.e. always with an explicit access group.
  `next_group(is_mut)`:  is_mut  ↦  c = count + 1; count := c + 1; group c        else  group count (count unchanged) -/
namespace Hydro

/-- (new counter, assigned group) -/
def nextGroup (count : Nat) (isMut : Bool) : Nat × Nat :=
  if isMut then (count + 2, count + 1) else (count, count)

/-- groups assigned to the captures of one referenced node, in code order (`true` = `by_mut`) -/
def assign : Nat → List Bool → List Nat
  | _, [] => []
  | c, m :: ms => (nextGroup c m).2 :: assign (nextGroup c m).1 ms

end Hydro

end HvTick.Refs
