import HvTick.Model.Wake
