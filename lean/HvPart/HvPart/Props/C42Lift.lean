/-
C42 (lifting) — the complete output of the partitioner model does not depend on the order in which the enemy
`HashSet` of `SubgraphMerge::try_merge` is iterated.

`Props/C42.lean` proves the single-step fact (`tryMerge_hash_order_invariant`: one `try_merge` under two iteration
orders, from states equal up to the representation of the enemy sets, given symmetric enemies).  This file lifts
it through `SM.new` / `mergeEdge` / `mergePass` / `mergeLoop` / `finishPartition` to `partitionWith`:

  * `mergeEdgeP` / `mergePassP` / `mergeLoopP` / `partitionWithP` are textual copies of the model definitions
    (Model/Partition.lean) with `SM.tryMergeP perm` in place of `SM.tryMerge` (= `SM.tryMergeP id`); at `perm = id`
    they are the model itself (`mergeEdgeP_id` … `partitionWithP_id`);
  * `EnInv` (enemy table symmetric and irreflexive) is established by `SM.new` (`aux_lift_new_enInv`) and kept by
    `tryMergeP perm` for every iteration order `perm` (`aux_lift_tryMergeP_enInv`);
  * `StRel` (`sm` related by `SMEquiv`, every other field of `MergeSt` equal) is kept by the fixpoint
    (`aux_lift_mergeEdgeP` … `aux_lift_mergeLoopP`), and `finishPartition` is equal on related states;
  * `partition_hash_order_invariant2` / `partition_hash_order_invariant`: `partitionWithP p ts g` is the same
    `Outcome` for every iteration order `p`, in particular equal to `partitionWith ts g`.
-/
import HvPart.Model.Partition
import HvPart.Props.C42

namespace HvPart

/-! ### the fixpoint with the iteration order as a parameter -/

/-- `mergeEdge` with the enemy set iterated in the order `perm` gives it -/
def mergeEdgeP (perm : List Nat → List Nat) (g : Flat) (st : MergeSt) (e : FEdge) : MergeSt :=
  if st.bad.isSome then st else
  if g.isHoff e.src || g.isHoff e.dst then { st with hoffEdges := st.hoffEdges.filter (· != e.id) }
  else if st.sm.find e.src == st.sm.find e.dst then st
  else if g.nodeLoop e.src != g.nodeLoop e.dst then st
  else
    let (colors, can) := canConnectColorize st.colors e.src e.dst
    let st := { st with colors := colors }
    if can then
      match st.sm.tryMergeP perm e.src e.dst with
      | .panic msg => { st with bad := some msg }
      | .done sm ok =>
        if ok then
          if st.hoffEdges.contains e.id then
            { st with sm := sm, hoffEdges := st.hoffEdges.filter (· != e.id), progress := true }
          else { st with sm := sm, bad := some "assert-handoff-edges-remove" }
        else { st with sm := sm }
    else st

def mergePassP (perm : List Nat → List Nat) (g : Flat) (st : MergeSt) : MergeSt :=
  g.edges.foldl (mergeEdgeP perm g) { st with progress := false }

def mergeLoopP (perm : List Nat → List Nat) (g : Flat) : Nat → MergeSt → MergeSt
  | 0, st => st
  | fuel + 1, st =>
    let st' := mergePassP perm g st
    if st'.progress && st'.bad.isNone then mergeLoopP perm g fuel st' else st'

def partitionWithP (perm : List Nat → List Nat) (ts : TopoSortFn) (g : Flat) : Outcome :=
  if g.refsConflict then .panic "conflicted-refs" else
  match SM.new ts g.nodeIds (Flat.predsOf g.depPairs) g.enemyPairs with
  | .cycle c => .err c
  | .panic msg => .panic msg
  | .ok sm => finishPartition g (mergeLoopP perm g (g.nodes.length + 2) (mergeInit g sm))

theorem mergeEdgeP_id (g : Flat) (st : MergeSt) (e : FEdge) : mergeEdgeP id g st e = mergeEdge g st e := rfl

theorem mergePassP_id (g : Flat) (st : MergeSt) : mergePassP id g st = mergePass g st := rfl

theorem mergeLoopP_id (g : Flat) : ∀ (fuel : Nat) (st : MergeSt), mergeLoopP id g fuel st = mergeLoop g fuel st
  | 0, _ => rfl
  | fuel + 1, st => by
    unfold mergeLoopP mergeLoop
    simp only [mergePassP_id, mergeLoopP_id g fuel]

/-- at `perm = id` the parameterised partitioner is the model the driver runs -/
theorem partitionWithP_id (ts : TopoSortFn) (g : Flat) : partitionWithP id ts g = partitionWith ts g := by
  unfold partitionWithP partitionWith
  simp only [mergeLoopP_id]
  rfl

/-! ### the invariant of the enemy table: symmetric and irreflexive -/

def EnTblInv (en : List (Nat × List Nat)) : Prop :=
  (∀ x y, y ∈ eget en x → x ∈ eget en y) ∧ (∀ x, x ∉ eget en x)

def EnInv (sm : SM) : Prop :=
  (∀ x y, y ∈ eget sm.enemies x → x ∈ eget sm.enemies y) ∧ (∀ x, x ∉ eget sm.enemies x)

theorem aux_lift_enInv_sym (sm : SM) (h : EnInv sm) : EnemySym sm := h.1

theorem aux_lift_mem_addEnemy (en : List (Nat × List Nat)) (a b k y : Nat) :
    y ∈ eget (SM.addEnemy en a b) k ↔ y ∈ eget en k ∨ (k = a ∧ y = b) := by
  unfold SM.addEnemy
  rw [aux_eget_aset]
  by_cases h : k = a
  · subst h
    simp only [if_true, aux_mem_setInsert, true_and]
    exact Iff.rfl
  · simp [h]

/-- one iteration of the loop over the enemy pairs in `new` keeps the table symmetric and irreflexive -/
theorem aux_lift_enAdd_inv (en : List (Nat × List Nat)) (a b : Nat) (hab : a ≠ b) (h : EnTblInv en) :
    EnTblInv (SM.addEnemy (SM.addEnemy en a b) b a) := by
  obtain ⟨hs, hi⟩ := h
  constructor
  · intro x y hm
    simp only [aux_lift_mem_addEnemy] at hm ⊢
    have := hs x y
    grind
  · intro x hm
    simp only [aux_lift_mem_addEnemy] at hm
    have := hi x
    grind

theorem aux_lift_new_fold_inv : ∀ (pairs : List (Nat × Nat)) (en : List (Nat × List Nat)),
    (∀ p ∈ pairs, p.1 ≠ p.2) → EnTblInv en →
    EnTblInv (pairs.foldl (fun en p => SM.addEnemy (SM.addEnemy en p.1 p.2) p.2 p.1) en)
  | [], _, _, h => h
  | p :: t, en, hne, h => by
    simp only [List.foldl_cons]
    exact aux_lift_new_fold_inv t _ (fun q hq => hne q (List.mem_cons_of_mem _ hq))
      (aux_lift_enAdd_inv en p.1 p.2 (hne p List.mem_cons_self) h)

/-- (a) **`SubgraphMerge::new` establishes the invariant** -/
theorem aux_lift_new_enInv (ts : TopoSortFn) (keys : List Nat) (pf : Nat → List Nat) (pairs : List (Nat × Nat))
    (sm : SM) (h : SM.new ts keys pf pairs = .ok sm) : EnInv sm := by
  simp only [SM.new] at h
  split at h
  · cases h
  · split at h
    · cases h
    · rename_i hany
      injection h with h
      subst h
      have hne : ∀ p ∈ pairs, p.1 ≠ p.2 := by
        intro p hp e
        apply hany
        simp only [List.any_eq_true, beq_iff_eq]
        exact ⟨p, hp, e⟩
      exact aux_lift_new_fold_inv pairs [] hne ⟨fun x y hm => by simp [eget, aget] at hm, fun x hm => by simp [eget, aget] at hm⟩

/-- the remap loop keeps the table symmetric and irreflexive when the merged classes `u`, `v` are distinct and
    not enemies of one another -/
theorem aux_lift_remap_inv (perm : List Nat → List Nat) (hperm : IsOrder perm) (en : List (Nat × List Nat))
    (u v : Nat) (huv : u ≠ v) (h : EnTblInv en) (hvu : u ∉ eget en v) :
    EnTblInv (SM.remapEnemies (aerase en v) u v (perm (eget en v))) := by
  obtain ⟨hs, hi⟩ := h
  have huw : u ∉ perm (eget en v) := fun hm => hvu ((hperm _ u).mp hm)
  have hmem : ∀ x y, y ∈ eget (SM.remapEnemies (aerase en v) u v (perm (eget en v))) x ↔
      (x = u ∧ (y ∈ eget en u ∨ y ∈ eget en v)) ∨
      (x ≠ u ∧ x ∈ eget en v ∧ ((y ∈ eget en x ∧ y ≠ v) ∨ y = u)) ∨
      (x ≠ u ∧ x ∉ eget en v ∧ x ≠ v ∧ y ∈ eget en x) := by
    intro x y
    rw [aux_remapEnemies_mem u v _ huw]
    have h1 := hperm (eget en v) x
    have h2 := hperm (eget en v) y
    have h3 := hi v
    simp only [aux_eget_aerase, h1, h2]
    by_cases hxv : x = v
    · subst hxv
      simp [huv, h3]
    · simp [hxv, huv]
  have huv' : v ∉ eget en u := fun hm => hvu (hs _ _ hm)
  constructor
  · intro x y hm
    rw [hmem] at hm ⊢
    have s1 := hs x y
    have s2 := hs u y
    have s3 := hs v y
    have i1 := hi x
    have i2 := hi y
    have i3 := hi v
    have s4 := hs v x
    have s5 := hs x v
    grind
  · intro x hm
    rw [hmem] at hm
    have i1 := hi x
    grind

theorem aux_lift_mergeCore_enInv (perm : List Nat → List Nat) (hperm : IsOrder perm) (sm sm' : SM) (u v : Nat)
    (ok : Bool) (h : SM.mergeCore perm sm u v = .done sm' ok) (huv : u ≠ v) (inv : EnInv sm)
    (hvu : u ∉ eget sm.enemies v) : EnInv sm' := by
  unfold SM.mergeCore at h
  split at h
  · cases h
  · injection h with h1 _
    subst h1
    exact aux_lift_remap_inv perm hperm sm.enemies u v huv inv hvu

theorem aux_lift_tryMergeTail_enInv (perm : List Nat → List Nat) (hperm : IsOrder perm) (sm sm' : SM) (u v : Nat)
    (ok : Bool) (h : SM.tryMergeTail perm sm u v = .done sm' ok) (huv : u ≠ v) (inv : EnInv sm)
    (hvu : u ∉ eget sm.enemies v) : EnInv sm' := by
  unfold SM.tryMergeTail at h
  simp only at h
  split at h
  · injection h with h _
    subst h
    exact inv
  · exact aux_lift_mergeCore_enInv perm hperm sm sm' u v ok h huv inv hvu

/-- (b) **`try_merge` keeps the invariant, whatever the iteration order** -/
theorem aux_lift_tryMergeP_enInv (perm : List Nat → List Nat) (hperm : IsOrder perm) (sm sm' : SM) (a b : Nat)
    (ok : Bool) (h : SM.tryMergeP perm sm a b = .done sm' ok) (inv : EnInv sm) : EnInv sm' := by
  unfold SM.tryMergeP at h
  simp only at h
  split at h
  · injection h with h _
    subst h
    exact inv
  · rename_i hab
    have hab' : sm.find a ≠ sm.find b := by simpa using hab
    split at h
    · injection h with h _
      subst h
      exact inv
    · rename_i hc
      have hc' : sm.find b ∉ eget sm.enemies (sm.find a) := by
        intro hm
        apply hc
        simpa [eget] using hm
      split at h
      · exact aux_lift_tryMergeTail_enInv perm hperm sm sm' _ _ ok h hab' inv (fun hm => hc' (inv.1 _ _ hm))
      · exact aux_lift_tryMergeTail_enInv perm hperm sm sm' _ _ ok h (fun e => hab' e.symm) inv hc'

/-! ### the relation carried through the fixpoint -/

/-- merge-fixpoint states that agree except for the representation of the enemy sets -/
structure StRel (a b : MergeSt) : Prop where
  sm : SMEquiv a.sm b.sm
  colors : a.colors = b.colors
  hoffEdges : a.hoffEdges = b.hoffEdges
  progress : a.progress = b.progress
  bad : a.bad = b.bad

theorem aux_lift_smEquiv_refl (sm : SM) : SMEquiv sm sm := ⟨rfl, rfl, rfl, rfl, rfl, fun _ _ => Iff.rfl⟩

theorem aux_lift_stRel_refl (st : MergeSt) : StRel st st := ⟨aux_lift_smEquiv_refl _, rfl, rfl, rfl, rfl⟩

/-- one edge of a pass: the relation and the (left) invariant are kept -/
theorem aux_lift_mergeEdgeP (p1 p2 : List Nat → List Nat) (hp1 : IsOrder p1) (hp2 : IsOrder p2) (g : Flat)
    (a b : MergeSt) (h : StRel a b) (inv : EnInv a.sm) (e : FEdge) :
    StRel (mergeEdgeP p1 g a e) (mergeEdgeP p2 g b e) ∧ EnInv (mergeEdgeP p1 g a e).sm := by
  obtain ⟨asm, ac, ah, ap, ab⟩ := a
  obtain ⟨bsm, bc, bh, bp, bb⟩ := b
  obtain ⟨hsm, hc, hh, hp, hb⟩ := h
  simp only at hsm hc hh hp hb inv
  subst hc hh hp hb
  have hres := tryMerge_hash_order_invariant p1 p2 hp1 hp2 asm bsm hsm inv.1 e.src e.dst
  unfold mergeEdgeP
  simp only [SM.find, ← hsm.rep]
  by_cases c0 : ab.isSome = true
  · simp only [c0, if_true]
    exact ⟨⟨hsm, rfl, rfl, rfl, rfl⟩, inv⟩
  · simp only [c0, Bool.false_eq_true, if_false]
    by_cases c1 : (g.isHoff e.src || g.isHoff e.dst) = true
    · simp only [c1, if_true]
      exact ⟨⟨hsm, rfl, rfl, rfl, rfl⟩, inv⟩
    · simp only [c1, Bool.false_eq_true, if_false]
      by_cases c2 : (SM.findIn asm.rep e.src == SM.findIn asm.rep e.dst) = true
      · simp only [c2, if_true]
        exact ⟨⟨hsm, rfl, rfl, rfl, rfl⟩, inv⟩
      · simp only [c2, Bool.false_eq_true, if_false]
        by_cases c3 : (g.nodeLoop e.src != g.nodeLoop e.dst) = true
        · simp only [c3, if_true]
          exact ⟨⟨hsm, rfl, rfl, rfl, rfl⟩, inv⟩
        · simp only [c3, Bool.false_eq_true, if_false]
          generalize canConnectColorize ac e.src e.dst = cc
          obtain ⟨colors, can⟩ := cc
          simp only
          by_cases c4 : can = true
          · simp only [c4, if_true]
            cases h1 : SM.tryMergeP p1 asm e.src e.dst with
            | panic m1 =>
              cases h2 : SM.tryMergeP p2 bsm e.src e.dst with
              | panic m2 =>
                rw [h1, h2] at hres
                have hm : m1 = m2 := hres
                subst hm
                exact ⟨⟨hsm, rfl, rfl, rfl, rfl⟩, inv⟩
              | done s2 ok2 =>
                rw [h1, h2] at hres
                exact hres.elim
            | done s1 ok1 =>
              have inv1 : EnInv s1 := aux_lift_tryMergeP_enInv p1 hp1 asm s1 _ _ ok1 h1 inv
              cases h2 : SM.tryMergeP p2 bsm e.src e.dst with
              | panic m2 =>
                rw [h1, h2] at hres
                exact hres.elim
              | done s2 ok2 =>
                rw [h1, h2] at hres
                obtain ⟨hok, hs12⟩ : ok1 = ok2 ∧ SMEquiv s1 s2 := hres
                subst hok
                simp only
                by_cases c5 : ok1 = true
                · simp only [c5, if_true]
                  by_cases c6 : ah.contains e.id = true
                  · simp only [c6, if_true]
                    exact ⟨⟨hs12, rfl, rfl, rfl, rfl⟩, inv1⟩
                  · simp only [c6, Bool.false_eq_true, if_false]
                    exact ⟨⟨hs12, rfl, rfl, rfl, rfl⟩, inv1⟩
                · simp only [c5, Bool.false_eq_true, if_false]
                  exact ⟨⟨hs12, rfl, rfl, rfl, rfl⟩, inv1⟩
          · simp only [c4, Bool.false_eq_true, if_false]
            exact ⟨⟨hsm, rfl, rfl, rfl, rfl⟩, inv⟩

theorem aux_lift_foldlP (p1 p2 : List Nat → List Nat) (hp1 : IsOrder p1) (hp2 : IsOrder p2) (g : Flat) :
    ∀ (es : List FEdge) (a b : MergeSt), StRel a b → EnInv a.sm →
      StRel (es.foldl (mergeEdgeP p1 g) a) (es.foldl (mergeEdgeP p2 g) b) ∧ EnInv (es.foldl (mergeEdgeP p1 g) a).sm
  | [], _, _, h, inv => ⟨h, inv⟩
  | e :: t, a, b, h, inv => by
    simp only [List.foldl_cons]
    obtain ⟨h', inv'⟩ := aux_lift_mergeEdgeP p1 p2 hp1 hp2 g a b h inv e
    exact aux_lift_foldlP p1 p2 hp1 hp2 g t _ _ h' inv'

theorem aux_lift_mergePassP (p1 p2 : List Nat → List Nat) (hp1 : IsOrder p1) (hp2 : IsOrder p2) (g : Flat)
    (a b : MergeSt) (h : StRel a b) (inv : EnInv a.sm) :
    StRel (mergePassP p1 g a) (mergePassP p2 g b) ∧ EnInv (mergePassP p1 g a).sm := by
  unfold mergePassP
  exact aux_lift_foldlP p1 p2 hp1 hp2 g g.edges _ _ ⟨h.sm, h.colors, h.hoffEdges, rfl, h.bad⟩ inv

theorem aux_lift_mergeLoopP (p1 p2 : List Nat → List Nat) (hp1 : IsOrder p1) (hp2 : IsOrder p2) (g : Flat) :
    ∀ (fuel : Nat) (a b : MergeSt), StRel a b → EnInv a.sm →
      StRel (mergeLoopP p1 g fuel a) (mergeLoopP p2 g fuel b) ∧ EnInv (mergeLoopP p1 g fuel a).sm
  | 0, _, _, h, inv => ⟨h, inv⟩
  | fuel + 1, a, b, h, inv => by
    unfold mergeLoopP
    obtain ⟨h', inv'⟩ := aux_lift_mergePassP p1 p2 hp1 hp2 g a b h inv
    simp only [← h'.progress, ← h'.bad]
    split
    · exact aux_lift_mergeLoopP p1 p2 hp1 hp2 g fuel _ _ h' inv'
    · exact ⟨h', inv'⟩

/-- `finishPartition` reads no enemy set: equal outcomes on related states -/
theorem aux_lift_finish (g : Flat) (a b : MergeSt) (h : StRel a b) : finishPartition g a = finishPartition g b := by
  have hs := (observations_ignore_enemy_representation_partial a.sm b.sm h.sm).1
  unfold finishPartition
  rw [h.bad, h.hoffEdges, h.colors, hs, h.sm.rep]

/-! ### the whole partitioner -/

theorem aux_lift_isOrder_id : IsOrder id := fun _ _ => Iff.rfl

/-- **The complete output of the partitioner model is the same under any two iteration orders of the enemy
    `HashSet`.** -/
theorem partition_hash_order_invariant2 (p1 p2 : List Nat → List Nat) (hp1 : IsOrder p1) (hp2 : IsOrder p2)
    (ts : TopoSortFn) (g : Flat) : partitionWithP p1 ts g = partitionWithP p2 ts g := by
  unfold partitionWithP
  split
  · rfl
  · cases hnew : SM.new ts g.nodeIds (Flat.predsOf g.depPairs) g.enemyPairs with
    | cycle c => rfl
    | panic m => rfl
    | ok sm =>
      simp only
      have inv : EnInv (mergeInit g sm).sm := aux_lift_new_enInv ts _ _ _ sm hnew
      exact aux_lift_finish g _ _
        (aux_lift_mergeLoopP p1 p2 hp1 hp2 g _ _ _ (aux_lift_stRel_refl _) inv).1

/-- **The partitioner model's `Outcome` (ok with subgraphs / order / handoff edges / delays / colours / union-find,
    err cycle, or panic message) does not depend on the order in which the enemy `HashSet` is iterated.** -/
theorem partition_hash_order_invariant (p : List Nat → List Nat) (hp : IsOrder p) (ts : TopoSortFn) (g : Flat) :
    partitionWithP p ts g = partitionWith ts g := by
  rw [← partitionWithP_id]
  exact partition_hash_order_invariant2 p id hp aux_lift_isOrder_id ts g

/-- the `PartitionOrderInvariantStatement`-style corollary for the driver's sort -/
theorem partition_hash_order_invariant_tsC17 (p : List Nat → List Nat) (hp : IsOrder p) (g : Flat) :
    partitionWithP p tsC17 g = partition g := partition_hash_order_invariant p hp tsC17 g

/-! ### non-vacuity -/

def exLift : Flat :=
  { nodes := [⟨1, false, "source_iter", none⟩, ⟨2, false, "map", none⟩, ⟨3, false, "tee", none⟩,
              ⟨4, false, "defer_tick", none⟩, ⟨5, false, "defer_tick", none⟩,
              ⟨6, false, "for_each", none⟩, ⟨7, false, "for_each", none⟩],
    edges := [⟨1, 1, 2, "_", "_"⟩, ⟨2, 2, 3, "_", "_"⟩, ⟨3, 3, 4, "_", "_"⟩, ⟨4, 3, 5, "_", "_"⟩,
              ⟨5, 4, 6, "_", "_"⟩, ⟨6, 5, 7, "_", "_"⟩],
    refs := [], loops := [] }

def exLiftEnemies (perm : List Nat → List Nat) (g : Flat) : Option (List (Nat × List Nat)) :=
  match SM.new tsC17 g.nodeIds (Flat.predsOf g.depPairs) g.enemyPairs with
  | .ok sm => some (mergeLoopP perm g (g.nodes.length + 2) (mergeInit g sm)).sm.enemies
  | _ => none

example : IsOrder List.reverse := fun l x => by simp

/-- the graph has two enemy pairs, both at the `tee` (node 3) -/
example : exLift.enemyPairs = [(3, 4), (3, 5)] := by decide

/-- the iteration order is really observed inside the run: the edge `map -> tee` merges the class of the `tee`
    (removed representative 3, enemy set `{4, 5}`, two elements) into class 1, and the enemy table left by the
    fixpoint lists them as `[4, 5]` under `id` but `[5, 4]` under `List.reverse` — different states … -/
example : exLiftEnemies id exLift = some [(4, [1]), (5, [1]), (1, [4, 5])] ∧
    exLiftEnemies List.reverse exLift = some [(4, [1]), (5, [1]), (1, [5, 4])] := by decide

/-- … the same complete outcome (an instance of the theorem) -/
example : partitionWithP List.reverse tsC17 exLift = partition exLift :=
  partition_hash_order_invariant List.reverse (fun l x => by simp) tsC17 exLift

/-- and that outcome is a successful partition: four merges (2 and 3 into class 1, 6 into 4, 7 into 5), two handoffs -/
example : ∃ r, partitionWithP List.reverse tsC17 exLift = .ok r ∧ r.subgraphs = [[1, 2, 3], [4, 6], [5, 7]] ∧
    r.hoffEdges = [3, 4] ∧ r.rep = [(7, 5), (6, 4), (3, 1), (2, 1)] :=
  ⟨_, rfl, by decide, by decide, by decide⟩


end HvPart
