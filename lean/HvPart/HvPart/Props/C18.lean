/-
C18 — subgraph partitioning produces a schedulable, well-formed graph.

Model: `HvPart.partitionWith` (Model/Partition.lean).  What is proved here, for every flat graph and
every run of the model that ends in `Outcome.ok r`:

  * table facts (T): the `can_connect_colorize` / `node_color` tables regenerated from the Rust source only
    ever join Pull→Pull, Pull→Comp, Pull→Push, Comp→Push, Push→Push, never recolour a coloured node, and the
    degree table gives pull nodes out-degree ≤ 1, push nodes in-degree ≤ 1; no catalogue operator can be
    `Comp` (≥2 inputs and ≥2 outputs);
  * `subgraph_single_loop`           nodes merged into one group have the same loop context;
  * `cross_edge_has_handoff`         every edge between two operators that did not receive a handoff joins
                                     two nodes of the same group; handoffs are only inserted on operator–operator edges;
  * `delay_edge_marked`              every edge into a delayed input received a handoff, marked with the declared
                                     delay (remapped to Loop/LoopLazy for a consumer in a nested loop);
  * `barrier_pairs_cross`            delayed-edge ends, consecutive access groups and handoff/borrower pairs are in
                                     different groups (`SubgraphMerge` never merges enemies — proved here);

  * `order_respects_pipe_producers`   in the emitted order the producer of every non-delayed pipe edge precedes its
                                     consumer (the final `validate_topo_sort` assert, transcribed).
`EnemiesSeparated` is a theorem (`enemies_separated_holds`, Props/EnemiesSep.lean), not a hypothesis.

PARTIAL (named below): `subgraph_pull_then_push` is proved at the level of the tables and single merges
(`merge_joins_pull_to_push_partial`); the global tree argument is not carried out — the shape of every subgraph
of the real output is checked by the harness oracle.  Reference-producer / access-group order and loop
contiguity rest on the `SubgraphMerge` order invariant (C17, not ported) and on `make_loops_contiguous`; they are
checked by correspondence + oracle only.  Finding F18 (a reference from inside a loop block to a handoff outside
was hoisted before the producer) is FIXED in /repo; the former witness is now ordered correctly
(`reference_producer_order_on_witness_partial`).
-/
import HvPart.Model.Partition
import HvPart.Props.EnemiesSep

namespace HvPart

/-! ### (T) facts read off the regenerated tables -/

/-- the five colour pairs the partitioner may put on one merged edge -/
def okPair : Color → Color → Bool
  | .pull, .pull => true
  | .pull, .comp => true
  | .pull, .push => true
  | .comp, .push => true
  | .push, .push => true
  | _, _ => false

/-- colour of an endpoint after `can_connect_colorize` -/
def colAfter (old ins : Option Color) : Option Color :=
  match ins with
  | some c => some c
  | none => old

/-- **`can_connect` only ever joins Pull→Pull, Pull→Comp, Pull→Push, Comp→Push, Push→Push** — in particular
    never Push→Pull and never Comp↔Comp, and never a handoff. -/
theorem canConnect_joins_only_ok_pairs (cs cd : Option Color) (h : (Gen.canConnectTbl cs cd).1 = true) :
    ∃ a b, colAfter cs (Gen.canConnectTbl cs cd).2.1 = some a ∧ colAfter cd (Gen.canConnectTbl cs cd).2.2 = some b ∧
      ((cs = some .hoff ∨ cd = some .hoff) ∨ okPair a b = true) := by
  rcases cs with _ | (_ | _ | _ | _) <;> rcases cd with _ | (_ | _ | _ | _) <;>
    first
    | (exfalso; revert h; decide)
    | exact ⟨_, _, rfl, rfl, by decide⟩

/-- **a coloured node is never recoloured** -/
theorem canConnect_colours_only_uncoloured (cs cd : Option Color) :
    ((Gen.canConnectTbl cs cd).2.1.isSome → cs = none) ∧ ((Gen.canConnectTbl cs cd).2.2.isSome → cd = none) := by
  rcases cs with _ | (_ | _ | _ | _) <;> rcases cd with _ | (_ | _ | _ | _) <;> decide

/-- **degree table: pull ⇒ out-degree ≤ 1, push ⇒ in-degree ≤ 1, comp ⇒ both ≥ 2, uncoloured ⇒ (0,0) or (1,1)** -/
theorem degColor_facts (i o : Nat) :
    (Gen.degColorTbl (min i 2) (min o 2) = some .pull → o ≤ 1) ∧
    (Gen.degColorTbl (min i 2) (min o 2) = some .push → i ≤ 1) ∧
    (Gen.degColorTbl (min i 2) (min o 2) = some .comp → 2 ≤ i ∧ 2 ≤ o) ∧
    (Gen.degColorTbl (min i 2) (min o 2) = none → (i = 0 ∧ o = 0) ∨ (i = 1 ∧ o = 1)) ∧
    Gen.degColorTbl (min i 2) (min o 2) ≠ some .hoff := by
  have key : ∀ a b : Fin 3,
      (Gen.degColorTbl a.val b.val = some .pull → b.val ≤ 1) ∧ (Gen.degColorTbl a.val b.val = some .push → a.val ≤ 1) ∧
      (Gen.degColorTbl a.val b.val = some .comp → 2 ≤ a.val ∧ 2 ≤ b.val) ∧
      (Gen.degColorTbl a.val b.val = none → (a.val = 0 ∧ b.val = 0) ∨ (a.val = 1 ∧ b.val = 1)) ∧
      Gen.degColorTbl a.val b.val ≠ some .hoff := by decide
  have hi : min i 2 < 3 := by omega
  have ho : min o 2 < 3 := by omega
  obtain ⟨k1, k2, k3, k4, k5⟩ := key ⟨_, hi⟩ ⟨_, ho⟩
  simp only at k1 k2 k3 k4 k5
  refine ⟨fun h => ?_, fun h => ?_, fun h => ?_, fun h => ?_, k5⟩
  · have := k1 h; omega
  · have := k2 h; omega
  · have := k3 h; omega
  · have := k4 h; omega

/-- **the names `node_color` colours unconditionally are Push and the catalogue gives them exactly one input** -/
theorem colorOverrides_are_single_input_push :
    ∀ p ∈ Gen.colorOverrides, p.2 = .push ∧
      ∃ o ∈ Gen.catalogue, o.name = p.1 ∧ o.innHi = some 1 := by decide

/-- **no catalogue operator admits both ≥2 inputs and ≥2 outputs**, so no operator node of a graph that passed
    the arity check of `FlatGraphBuilder` is coloured `Comp` -/
theorem catalogue_no_comp_operator :
    ∀ o ∈ Gen.catalogue, (o.innHi = some 0 ∨ o.innHi = some 1) ∨ (o.outHi = some 0 ∨ o.outHi = some 1) := by decide

/-- **the only inputs with a declared delay are those of `defer_tick` (Tick) and `defer_tick_lazy` (TickLazy)** -/
theorem catalogue_delays :
    ∀ o ∈ Gen.catalogue, (o.delay = none ∨ (o.name = "defer_tick" ∧ o.delay = some .tick) ∨
      (o.name = "defer_tick_lazy" ∧ o.delay = some .tickLazy)) := by decide

/-- **delay remap: Tick→Loop, TickLazy→LoopLazy, loop delays unchanged** -/
theorem delayRemap_table :
    Gen.delayRemapNested .tick = .loop ∧ Gen.delayRemapNested .tickLazy = .loopLazy ∧
    Gen.delayRemapNested .loop = .loop ∧ Gen.delayRemapNested .loopLazy = .loopLazy := by decide

/-! ### the union-find after a merge -/

theorem aux_findIn_cons (v u : Nat) (rep : List (Nat × Nat)) (k : Nat) :
    SM.findIn ((v, u) :: rep) k = if SM.findIn rep k = v then u else SM.findIn rep k := rfl

theorem aux_mergeRest_rep (preds0 : List (Nat × List Nat)) (topo0 : List Nat) (idx0 len0 rep0 : List (Nat × Nat))
    (u v : Nat) (x : SM.MergeRest) (h : SM.mergeRest preds0 topo0 idx0 len0 rep0 u v = some x) :
    x.rep = (v, u) :: rep0 := by
  unfold SM.mergeRest at h
  simp only at h
  split at h
  · cases h
  · injection h with h
    subst h
    rfl

theorem aux_mergeCore_rep (perm : List Nat → List Nat) (sm sm' : SM) (u v : Nat) (ok : Bool)
    (h : SM.mergeCore perm sm u v = .done sm' ok) : ok = true ∧ sm'.rep = (v, u) :: sm.rep := by
  unfold SM.mergeCore at h
  split at h
  · cases h
  · rename_i x hx
    injection h with h1 h2
    subst h1
    exact ⟨h2.symm, aux_mergeRest_rep _ _ _ _ _ _ _ _ hx⟩

/-- what `try_merge(a, b)` does to the union-find -/
theorem aux_tryMerge_spec (sm sm' : SM) (a b : Nat) (ok : Bool) (h : sm.tryMerge a b = .done sm' ok) :
    (ok = false → sm' = sm) ∧
    (ok = true → (sm' = sm ∧ sm.find a = sm.find b) ∨
      ∃ u v, ((u = sm.find a ∧ v = sm.find b) ∨ (u = sm.find b ∧ v = sm.find a)) ∧ sm'.rep = (v, u) :: sm.rep) := by
  unfold SM.tryMerge SM.tryMergeP at h
  simp only at h
  split at h
  · rename_i hab
    injection h with h1 h2
    subst h1; subst h2
    exact ⟨fun h => (by cases h), fun _ => Or.inl ⟨rfl, by simpa using hab⟩⟩
  · split at h
    · injection h with h1 h2
      subst h1; subst h2
      exact ⟨fun _ => rfl, fun h => (by cases h)⟩
    · split at h
      · unfold SM.tryMergeTail at h
        simp only at h
        split at h
        · injection h with h1 h2
          subst h1; subst h2
          exact ⟨fun _ => rfl, fun h => (by cases h)⟩
        · obtain ⟨hok, hrep⟩ := aux_mergeCore_rep _ _ _ _ _ _ h
          subst hok
          exact ⟨fun h => (by cases h), fun _ => Or.inr ⟨_, _, Or.inl ⟨rfl, rfl⟩, hrep⟩⟩
      · unfold SM.tryMergeTail at h
        simp only at h
        split at h
        · injection h with h1 h2
          subst h1; subst h2
          exact ⟨fun _ => rfl, fun h => (by cases h)⟩
        · obtain ⟨hok, hrep⟩ := aux_mergeCore_rep _ _ _ _ _ _ h
          subst hok
          exact ⟨fun h => (by cases h), fun _ => Or.inr ⟨_, _, Or.inr ⟨rfl, rfl⟩, hrep⟩⟩

/-- merging never separates nodes, and joins the two arguments -/
theorem aux_tryMerge_find (sm sm' : SM) (a b : Nat) (ok : Bool) (h : sm.tryMerge a b = .done sm' ok) :
    (∀ x y, sm.find x = sm.find y → sm'.find x = sm'.find y) ∧ (ok = true → sm'.find a = sm'.find b) ∧
    (∀ x, sm'.find x = sm.find x ∨
      (ok = true ∧ ((sm.find x = sm.find a ∧ sm'.find x = sm.find b) ∨ (sm.find x = sm.find b ∧ sm'.find x = sm.find a)))) := by
  obtain ⟨h1, h2⟩ := aux_tryMerge_spec sm sm' a b ok h
  cases ok with
  | false =>
    have := h1 rfl
    subst this
    exact ⟨fun _ _ h => h, fun h => (by cases h), fun _ => Or.inl rfl⟩
  | true =>
    rcases h2 rfl with ⟨rfl, hab⟩ | ⟨u, v, huv, hrep⟩
    · exact ⟨fun _ _ h => h, fun _ => hab, fun _ => Or.inl rfl⟩
    · have hf : ∀ k, sm'.find k = if sm.find k = v then u else sm.find k := by
        intro k; unfold SM.find; rw [hrep]; rfl
      refine ⟨fun x y hxy => by rw [hf, hf, hxy], fun _ => ?_, fun x => ?_⟩
      · rw [hf, hf]
        rcases huv with ⟨rfl, rfl⟩ | ⟨rfl, rfl⟩
        · by_cases h : sm.find a = sm.find b <;> simp [h]
        · by_cases h : sm.find b = sm.find a <;> simp [h]
      · rw [hf]
        by_cases hx : sm.find x = v
        · rw [if_pos hx]
          rcases huv with ⟨rfl, rfl⟩ | ⟨rfl, rfl⟩
          · exact Or.inr ⟨rfl, Or.inr ⟨hx, rfl⟩⟩
          · exact Or.inr ⟨rfl, Or.inl ⟨hx, rfl⟩⟩
        · rw [if_neg hx]; exact Or.inl rfl

/-! ### invariants of the merge fixpoint (`find_subgraph_unionfind`) -/

/-- edge ids are unique (slot-map keys) -/
def Flat.UniqueEdgeIds (g : Flat) : Prop := ∀ e ∈ g.edges, ∀ e' ∈ g.edges, e.id = e'.id → e = e'

/-- an edge that left `handoff_edges` touches a handoff node or joins two *different* nodes of one group
    (a self-loop edge is never selected);
    nodes of one group share their loop context -/
structure MergeInv (g : Flat) (st : MergeSt) : Prop where
  hoff : ∀ e ∈ g.edges, e.id ∉ st.hoffEdges →
    g.hoffAdj e = true ∨ (st.sm.find e.src = st.sm.find e.dst ∧ e.src ≠ e.dst)
  loop : ∀ x, g.nodeLoop (st.sm.find x) = g.nodeLoop x

theorem aux_mergeEdge_inv (g : Flat) (hu : g.UniqueEdgeIds) (st : MergeSt) (e0 : FEdge) (he0 : e0 ∈ g.edges)
    (inv : MergeInv g st) : MergeInv g (mergeEdge g st e0) := by
  unfold mergeEdge
  split
  · exact inv
  · split
    · rename_i hadj
      refine ⟨fun e he hne => ?_, inv.loop⟩
      by_cases hid : e.id = e0.id
      · have : e = e0 := hu e he e0 he0 hid
        subst this
        exact Or.inl (by simpa [Flat.hoffAdj] using hadj)
      · apply inv.hoff e he
        intro hmem
        apply hne
        simp only [List.mem_filter, bne_iff_ne, ne_eq]
        exact ⟨hmem, hid⟩
    · split
      · exact inv
      · split
        · exact inv
        · rename_i hfind hloop
          have hloop' : g.nodeLoop e0.src = g.nodeLoop e0.dst := by simpa using hloop
          have hne0 : e0.src ≠ e0.dst := by
            intro heq
            apply hfind
            rw [heq]
            simp
          simp only
          split
          · -- can connect
            split
            · -- panic inside try_merge
              exact ⟨inv.hoff, inv.loop⟩
            · rename_i sm' ok hm
              have hm' : st.sm.tryMerge e0.src e0.dst = .done sm' ok := hm
              obtain ⟨hkeep, hjoin, hcases⟩ := aux_tryMerge_find _ _ _ _ _ hm'
              have hloopNew : ∀ x, g.nodeLoop (sm'.find x) = g.nodeLoop x := by
                intro x
                rcases hcases x with h | ⟨_, ⟨hx, hx'⟩ | ⟨hx, hx'⟩⟩
                · rw [h]; exact inv.loop x
                · rw [hx', inv.loop e0.dst, ← hloop', ← inv.loop e0.src, ← hx, inv.loop x]
                · rw [hx', inv.loop e0.src, hloop', ← inv.loop e0.dst, ← hx, inv.loop x]
              have hoffNew : ∀ e ∈ g.edges, e.id ∉ st.hoffEdges →
                  g.hoffAdj e = true ∨ (sm'.find e.src = sm'.find e.dst ∧ e.src ≠ e.dst) := by
                intro e he hne
                rcases inv.hoff e he hne with h | h
                · exact Or.inl h
                · exact Or.inr ⟨hkeep _ _ h.1, h.2⟩
              split
              · rename_i hok
                split
                · refine ⟨fun e he hne => ?_, hloopNew⟩
                  by_cases hid : e.id = e0.id
                  · have : e = e0 := hu e he e0 he0 hid
                    subst this
                    exact Or.inr ⟨hjoin hok, hne0⟩
                  · apply hoffNew e he
                    intro hmem
                    apply hne
                    simp only [List.mem_filter, bne_iff_ne, ne_eq]
                    exact ⟨hmem, hid⟩
                · exact ⟨hoffNew, hloopNew⟩
              · exact ⟨hoffNew, hloopNew⟩
          · exact ⟨inv.hoff, inv.loop⟩

theorem aux_foldl_inv (g : Flat) (hu : g.UniqueEdgeIds) :
    ∀ (es : List FEdge), (∀ e ∈ es, e ∈ g.edges) → ∀ st, MergeInv g st → MergeInv g (es.foldl (mergeEdge g) st)
  | [], _, st, inv => inv
  | e :: t, hsub, st, inv => by
    simp only [List.foldl_cons]
    exact aux_foldl_inv g hu t (fun x hx => hsub x (List.mem_cons_of_mem _ hx)) _
      (aux_mergeEdge_inv g hu st e (hsub e List.mem_cons_self) inv)

theorem aux_mergeLoop_inv (g : Flat) (hu : g.UniqueEdgeIds) :
    ∀ fuel st, MergeInv g st → MergeInv g (mergeLoop g fuel st)
  | 0, st, inv => inv
  | fuel + 1, st, inv => by
    unfold mergeLoop
    have h1 : MergeInv g (mergePass g st) := by
      unfold mergePass
      exact aux_foldl_inv g hu g.edges (fun _ h => h) _ ⟨inv.hoff, inv.loop⟩
    simp only
    split
    · exact aux_mergeLoop_inv g hu fuel _ h1
    · exact h1

theorem aux_mem_insertSorted (x y : Nat) : ∀ l, y ∈ insertSorted x l ↔ y = x ∨ y ∈ l
  | [] => by simp [insertSorted]
  | z :: t => by
    unfold insertSorted
    split
    · simp
    · split
      · rename_i h; subst h; simp
      · simp only [List.mem_cons, aux_mem_insertSorted x y t]
        constructor
        · rintro (h | h | h)
          · exact Or.inr (Or.inl h)
          · exact Or.inl h
          · exact Or.inr (Or.inr h)
        · rintro (h | h | h)
          · exact Or.inr (Or.inl h)
          · exact Or.inl h
          · exact Or.inr (Or.inr h)

theorem aux_mem_sortDedup (y : Nat) (l : List Nat) : y ∈ sortDedup l ↔ y ∈ l := by
  unfold sortDedup
  have : ∀ (l acc : List Nat), y ∈ l.foldl (fun acc x => insertSorted x acc) acc ↔ y ∈ l ∨ y ∈ acc := by
    intro l
    induction l with
    | nil => intro acc; simp
    | cons a t ih =>
      intro acc
      simp only [List.foldl_cons, ih, aux_mem_insertSorted, List.mem_cons]
      constructor
      · rintro (h | h | h)
        · exact Or.inl (Or.inr h)
        · exact Or.inl (Or.inl h)
        · exact Or.inr h
      · rintro ((h | h) | h)
        · exact Or.inr (Or.inl h)
        · exact Or.inl h
        · exact Or.inr (Or.inr h)
  simpa using this l []

theorem aux_init_inv (g : Flat) (sm : SM) (hrep : sm.rep = []) : MergeInv g (mergeInit g sm) := by
  refine ⟨fun e he hne => ?_, fun x => ?_⟩
  · exfalso
    apply hne
    unfold mergeInit
    simp only [aux_mem_sortDedup, List.mem_map]
    exact ⟨e, he, rfl⟩
  · unfold mergeInit SM.find
    simp [hrep, SM.findIn]

theorem aux_new_rep (ts : TopoSortFn) (keys : List Nat) (pf : Nat → List Nat) (en : List (Nat × Nat)) (sm : SM)
    (h : SM.new ts keys pf en = .ok sm) : sm.rep = [] := by
  simp only [SM.new] at h
  split at h
  · cases h
  · split at h
    · cases h
    · injection h with h; subst h; rfl

/-- shape of a successful run: the final merge state behind an `ok` outcome -/
theorem aux_ok_shape (ts : TopoSortFn) (g : Flat) (hu : g.UniqueEdgeIds) (r : PResult)
    (h : partitionWith ts g = .ok r) :
    ∃ st : MergeSt, MergeInv g st ∧ r.rep = st.sm.rep ∧ r.hoffEdges = finalHoffEdges g st.hoffEdges ∧
      r.delays = insertedDelays g r.hoffEdges ++ existingDelays g := by
  unfold partitionWith at h
  split at h
  · cases h
  · split at h
    · cases h
    · cases h
    · rename_i sm hnew
      refine ⟨mergeLoop g (g.nodes.length + 2) (mergeInit g sm),
        aux_mergeLoop_inv g hu _ _ (aux_init_inv g sm (aux_new_rep _ _ _ _ _ hnew)), ?_⟩
      unfold finishPartition at h
      split at h
      · cases h
      · simp only at h
        split at h
        · cases h
        · split at h
          · cases h
          · injection h with h; subst h; exact ⟨rfl, rfl, rfl⟩

/-! ### property theorems -/

/-- **Each subgraph lies in a single loop context**: nodes of one merged group have the same loop. -/
theorem subgraph_single_loop (ts : TopoSortFn) (g : Flat) (hu : g.UniqueEdgeIds) (r : PResult)
    (h : partitionWith ts g = .ok r) (x y : Nat) (hxy : SM.findIn r.rep x = SM.findIn r.rep y) :
    g.nodeLoop x = g.nodeLoop y := by
  obtain ⟨st, inv, hrep, _, _⟩ := aux_ok_shape ts g hu r h
  have hx := inv.loop x
  have hy := inv.loop y
  unfold SM.find at hx hy
  rw [← hrep] at hx hy
  rw [← hx, ← hy, hxy]

theorem aux_find_mem {α} (l : List α) (p : α → Bool) (x : α) (h : l.find? p = some x) : x ∈ l ∧ p x = true :=
  ⟨List.mem_of_find?_eq_some h, List.find?_some h⟩

/-- an operator–operator edge without an inserted handoff was selected by the merge loop: it joins two
    different nodes of the same group -/
theorem aux_edge_without_handoff (ts : TopoSortFn) (g : Flat) (hu : g.UniqueEdgeIds) (r : PResult)
    (h : partitionWith ts g = .ok r) (e : FEdge) (he : e ∈ g.edges) (hop : g.hoffAdj e = false)
    (hno : e.id ∉ r.hoffEdges) : SM.findIn r.rep e.src = SM.findIn r.rep e.dst ∧ e.src ≠ e.dst := by
  obtain ⟨st, inv, hrep, hhe, _⟩ := aux_ok_shape ts g hu r h
  rw [hrep]
  have hcases : e.id ∉ st.hoffEdges := by
    intro hmem
    apply hno
    rw [hhe]
    unfold finalHoffEdges
    simp only [List.mem_filter]
    refine ⟨hmem, ?_⟩
    cases hf : g.edges.find? (fun x => x.id == e.id) with
    | none =>
      exfalso
      have := List.find?_eq_none.mp hf e he
      simp at this
    | some e' =>
      obtain ⟨hm, hp⟩ := aux_find_mem _ _ _ hf
      have : e' = e := hu e' hm e he (by simpa using hp)
      subst this
      simp [hop]
  rcases inv.hoff e he hcases with h1 | h1
  · rw [hop] at h1; cases h1
  · exact h1

/-- **Every edge between two operators that crosses groups carries a handoff**: an operator–operator edge
    without an inserted handoff joins two nodes of the same group.  (That a group is exactly one emitted
    subgraph is the `SubgraphMerge` range invariant of C17.) -/
theorem cross_edge_has_handoff (ts : TopoSortFn) (g : Flat) (hu : g.UniqueEdgeIds) (r : PResult)
    (h : partitionWith ts g = .ok r) (e : FEdge) (he : e ∈ g.edges) (hop : g.hoffAdj e = false)
    (hno : e.id ∉ r.hoffEdges) : SM.findIn r.rep e.src = SM.findIn r.rep e.dst :=
  (aux_edge_without_handoff ts g hu r h e he hop hno).1

/-- **A self-loop edge of an operator always carries a handoff** (it is never selected by the merge loop). -/
theorem self_edge_has_handoff (ts : TopoSortFn) (g : Flat) (hu : g.UniqueEdgeIds) (r : PResult)
    (h : partitionWith ts g = .ok r) (e : FEdge) (he : e ∈ g.edges) (hop : g.hoffAdj e = false)
    (hself : e.src = e.dst) : e.id ∈ r.hoffEdges :=
  Classical.byContradiction fun hno => (aux_edge_without_handoff ts g hu r h e he hop hno).2 hself

/-- **Exactly the operator–operator edges can receive a handoff, and each at most one**: `hoffEdges` lists
    edge ids (a set: one handoff per listed edge), each the id of an edge neither end of which is a handoff. -/
theorem handoff_only_on_operator_edges (ts : TopoSortFn) (g : Flat) (hu : g.UniqueEdgeIds) (r : PResult)
    (h : partitionWith ts g = .ok r) (eid : Nat) (hin : eid ∈ r.hoffEdges) :
    ∃ e ∈ g.edges, e.id = eid ∧ g.hoffAdj e = false := by
  obtain ⟨st, _, _, hhe, _⟩ := aux_ok_shape ts g hu r h
  rw [hhe] at hin
  unfold finalHoffEdges at hin
  simp only [List.mem_filter] at hin
  obtain ⟨_, hp⟩ := hin
  split at hp
  · rename_i e hf
    obtain ⟨hm, hid⟩ := aux_find_mem _ _ _ hf
    exact ⟨e, hm, by simpa using hid, by simpa using hp⟩
  · cases hp

/-- the two nodes of every enemy pair (delayed edge, consecutive access groups, handoff → borrower; self-pairs
    excluded) end in different groups -/
def EnemiesSeparated (g : Flat) (r : PResult) : Prop :=
  ∀ p ∈ g.enemyPairs, SM.findIn r.rep p.1 ≠ SM.findIn r.rep p.2

/-- **Enemy pairs are never merged into one group** — proved for the transcription of `SubgraphMerge` this
    project runs (`Props/EnemiesSep.lean`: the enemy table invariant of `new` / `try_merge`, lifted through the
    merge fixpoint); no hypothesis about C17 is needed. -/
theorem enemies_separated_holds (ts : TopoSortFn) (g : Flat) (r : PResult) (h : partitionWith ts g = .ok r) :
    EnemiesSeparated g r :=
  enemies_separated ts g r h

/-- **Every edge into a delayed input (`defer_tick`, `defer_tick_lazy`) crosses a handoff that is marked with
    the declared delay**, remapped to the loop-level delay when the consumer sits in a nested loop.  (Also for a
    delayed self-edge `d -> d`.) -/
theorem delay_edge_marked (ts : TopoSortFn) (g : Flat) (hu : g.UniqueEdgeIds) (r : PResult)
    (h : partitionWith ts g = .ok r)
    (e : FEdge) (he : e ∈ g.edges) (hop : g.hoffAdj e = false) (d : Delay) (hd : g.edgeDelay e = some d) :
    e.id ∈ r.hoffEdges ∧ (true, e.id, effectiveDelay g e.dst d) ∈ r.delays := by
  have hen := enemies_separated_holds ts g r h
  have hmem : e.id ∈ r.hoffEdges := by
    apply Classical.byContradiction
    intro hno
    obtain ⟨hsame, hne⟩ := aux_edge_without_handoff ts g hu r h e he hop hno
    apply hen (e.src, e.dst) _ hsame
    unfold Flat.enemyPairs Flat.barrierPairs
    simp only [List.mem_filter, List.mem_append, List.mem_filterMap, bne_iff_ne, ne_eq]
    refine ⟨Or.inl (Or.inl (Or.inl ⟨e, he, ?_⟩)), hne⟩
    simp [Flat.isTick, hd]
  refine ⟨hmem, ?_⟩
  obtain ⟨st, _, _, _, hdel⟩ := aux_ok_shape ts g hu r h
  rw [hdel]
  apply List.mem_append_left
  unfold insertedDelays
  simp only [List.mem_filterMap]
  refine ⟨e.id, hmem, ?_⟩
  cases hf : g.edges.find? (fun x => x.id == e.id) with
  | none =>
    exfalso
    have := List.find?_eq_none.mp hf e he
    simp at this
  | some e' =>
    obtain ⟨hm, hp⟩ := aux_find_mem _ _ _ hf
    have : e' = e := hu e' hm e he (by simpa using hp)
    subst this
    simp [hd]

/-- **Barrier, access-order, handoff→borrower and borrower→consumer pairs are in different groups**: the two
    ends of a delayed edge (other than a self-edge), members of consecutive access groups of one handoff, a
    referenced handoff node and its borrower, and a borrower and a pipe consumer of the borrowed handoff never
    share a subgraph. -/
theorem barrier_pairs_cross (ts : TopoSortFn) (g : Flat) (r : PResult) (h : partitionWith ts g = .ok r) :
    (∀ p ∈ g.barrierPairs, p.1 ≠ p.2 → SM.findIn r.rep p.1 ≠ SM.findIn r.rep p.2) ∧
    (∀ p ∈ g.accessPairs, p.1 ≠ p.2 → SM.findIn r.rep p.1 ≠ SM.findIn r.rep p.2) ∧
    (∀ ref ∈ g.refs, ∀ t, ref.target = some t → t ≠ ref.node →
      SM.findIn r.rep t ≠ SM.findIn r.rep ref.node) ∧
    (∀ ref ∈ g.refs, ∀ t, ref.target = some t → g.isHoff t = true → ∀ c ∈ g.consumers t, ref.node ≠ c →
      SM.findIn r.rep ref.node ≠ SM.findIn r.rep c) := by
  have hen := enemies_separated_holds ts g r h
  refine ⟨fun p hp hne => hen p ?_, fun p hp hne => hen p ?_, fun ref hr t ht hne => hen (t, ref.node) ?_,
    fun ref hr t ht hh c hc hne => hen (ref.node, c) ?_⟩
  · unfold Flat.enemyPairs
    simp only [List.mem_filter, List.mem_append, bne_iff_ne, ne_eq]
    exact ⟨Or.inl (Or.inl (Or.inl hp)), hne⟩
  · unfold Flat.enemyPairs
    simp only [List.mem_filter, List.mem_append, bne_iff_ne, ne_eq]
    exact ⟨Or.inl (Or.inl (Or.inr hp)), hne⟩
  · unfold Flat.enemyPairs
    simp only [List.mem_filter, List.mem_append, List.mem_filterMap, bne_iff_ne, ne_eq]
    exact ⟨Or.inl (Or.inr ⟨ref, hr, by simp [ht]⟩), hne⟩
  · unfold Flat.enemyPairs Flat.borrowerConsumerPairs
    simp only [List.mem_filter, List.mem_append, List.mem_flatMap, bne_iff_ne, ne_eq]
    refine ⟨Or.inr ⟨ref, hr, ?_⟩, hne⟩
    simp only [ht, hh, if_true, List.mem_map]
    exact ⟨c, hc, rfl⟩

/-- full statement: along every emitted subgraph the final colours read Pull* Comp? Push* -/
def PullThenPushStatement (ts : TopoSortFn) : Prop :=
  ∀ (g : Flat) (r : PResult), partitionWith ts g = .ok r → ∀ sg ∈ r.subgraphs,
    ∃ k, (∀ n ∈ sg.take k, aget r.colors n = some .pull ∨ aget r.colors n = none) ∧
         (∀ n ∈ (sg.drop k).drop 1, aget r.colors n = some .push ∨ aget r.colors n = none)

/-- **One merge step joins a pull-side node to a push-side node the right way round** (partial form of
    `PullThenPushStatement`): whenever `can_connect_colorize` allows an edge between two operators, the colours it
    leaves on (src, dst) are one of Pull→Pull, Pull→Comp, Pull→Push, Comp→Push, Push→Push, and colours already
    assigned are kept.  Missing: the global argument (pull nodes form in-trees, push nodes out-trees, hence every
    topological order of a group is Pull* Comp? Push*) — checked on the real output by the harness oracle
    (`c18-colours-not-pull-then-push`, `c18-pull-node-fanout`, `c18-push-node-fanin`, `c18-internal-edge-backward`). -/
theorem merge_joins_pull_to_push_partial (colors : List (Nat × Color)) (src dst : Nat)
    (hs : aget colors src ≠ some .hoff) (hd : aget colors dst ≠ some .hoff)
    (hcan : (canConnectColorize colors src dst).2 = true) :
    ∃ a b, colAfter (aget colors src) (Gen.canConnectTbl (aget colors src) (aget colors dst)).2.1 = some a ∧
      colAfter (aget colors dst) (Gen.canConnectTbl (aget colors src) (aget colors dst)).2.2 = some b ∧
      okPair a b = true := by
  have hcan' : (Gen.canConnectTbl (aget colors src) (aget colors dst)).1 = true := by
    simpa [canConnectColorize] using hcan
  obtain ⟨a, b, ha, hb, hor⟩ := canConnect_joins_only_ok_pairs _ _ hcan'
  refine ⟨a, b, ha, hb, ?_⟩
  rcases hor with (h | h) | h
  · exact (hs h).elim
  · exact (hd h).elim
  · exact h

/-! ### emitted order: pipe producers (general), reference producers (finding F18, fixed) -/

/-- **The emitted order runs the producer of every non-delayed pipe edge before its consumer**: in the
    concatenation of the emitted subgraphs (final `subgraph_toposort` order, nodes in subgraph order) the
    producer of every non-delayed edge into an emitted node (through a pre-existing handoff if there is one)
    comes strictly earlier.  This is the defensive `validate_topo_sort` assert at the end of `make_subgraphs`,
    which the model transcribes: an `ok` outcome means it passed (after `make_loops_contiguous`). -/
theorem order_respects_pipe_producers (ts : TopoSortFn) (g : Flat) (r : PResult)
    (h : partitionWith ts g = .ok r) (e : FEdge) (he : e ∈ g.edges) (hnt : g.isTick e = false)
    (hd : e.dst ∈ r.subgraphs.flatten) :
    ∃ p pi si, orderPred g e = some p ∧ r.subgraphs.flatten.idxOf? p = some pi ∧
      r.subgraphs.flatten.idxOf? e.dst = some si ∧ pi < si := by
  have hv : validateOrder g r.subgraphs.flatten = true := by
    unfold partitionWith at h
    split at h
    · cases h
    · split at h
      · cases h
      · cases h
      · unfold finishPartition at h
        split at h
        · cases h
        · simp only at h
          split at h
          · cases h
          · split at h
            · cases h
            · rename_i hval
              injection h with h
              subst h
              simpa using hval
  unfold validateOrder at hv
  rw [List.all_eq_true] at hv
  have h1 := hv e.dst hd
  rw [List.all_eq_true] at h1
  have h2 := h1 e (by simp [List.mem_filter, he, hnt])
  cases hp : orderPred g e with
  | none => rw [hp] at h2; cases h2
  | some p =>
    rw [hp] at h2
    simp only at h2
    cases hpi : r.subgraphs.flatten.idxOf? p with
    | none => rw [hpi] at h2; simp at h2
    | some pi =>
      cases hsi : r.subgraphs.flatten.idxOf? e.dst with
      | none => rw [hpi, hsi] at h2; simp at h2
      | some si =>
        rw [hpi, hsi] at h2
        exact ⟨p, pi, si, rfl, hpi, rfl, by simpa using h2⟩

/-- `a = source_iter; loop { a -> batch -> for_each; b -> batch -> map(#s) -> for_each }; b = source_iter;
    s = source_iter -> singleton()` -/
def witnessRefIntoLoop : Flat :=
  { nodes := [⟨1, false, "source_iter", none⟩, ⟨2, false, "batch", some 1⟩, ⟨3, false, "for_each", some 1⟩,
              ⟨4, false, "batch", some 1⟩, ⟨5, false, "map", some 1⟩, ⟨6, false, "for_each", some 1⟩,
              ⟨7, false, "source_iter", none⟩, ⟨8, false, "source_iter", none⟩, ⟨9, true, "singleton", none⟩],
    edges := [⟨1, 2, 3, "_", "_"⟩, ⟨2, 1, 2, "_", "_"⟩, ⟨3, 5, 6, "_", "_"⟩, ⟨4, 4, 5, "_", "_"⟩,
              ⟨5, 7, 4, "_", "_"⟩, ⟨6, 8, 9, "_", "_"⟩],
    refs := [⟨5, some 9, false, none⟩],
    loops := [⟨1, none, [2, 3, 4, 5, 6]⟩] }

/-- a root-level borrower of a handoff whose producer and pipe consumer are inside a `loop {}` block:
    `src -> loop { batch_lazy -> h = handoff() -> for_each }; src2 -> for_each(#h)` -/
def witnessBorrowerOutsideLoop : Flat :=
  { nodes := [⟨1, false, "source_iter", none⟩, ⟨2, false, "batch_lazy", some 1⟩, ⟨3, true, "handoff", some 1⟩,
              ⟨4, false, "for_each", some 1⟩, ⟨5, false, "source_iter", none⟩, ⟨6, false, "for_each", none⟩],
    edges := [⟨1, 1, 2, "_", "_"⟩, ⟨2, 2, 3, "_", "_"⟩, ⟨3, 3, 4, "_", "_"⟩, ⟨4, 5, 6, "_", "_"⟩],
    refs := [⟨6, some 3, false, none⟩],
    loops := [⟨1, none, [2, 3, 4]⟩] }

/-- full statement of the order clause for reference producers -/
def ReferenceProducerOrderStatement : Prop :=
  ∀ (g : Flat) (r : PResult), partition g = .ok r → ∀ ref ∈ g.refs, ∀ t, ref.target = some t →
    ∀ p ∈ g.producers t, ∀ i j : Nat, (∃ sp, r.subgraphs[i]? = some sp ∧ p ∈ sp) →
      (∃ sb, r.subgraphs[j]? = some sb ∧ ref.node ∈ sb) → i < j

/-- **The former F18 witness is ordered correctly** (partial form of `ReferenceProducerOrderStatement`: the
    instance on the witness on which the clause used to be refuted).  Before the fix in /repo the emitted order was
    `[[1], [7], [2, 3], [4, 5, 6], [8]]` — the borrower `map(#s)` (node 5) before the producer of the singleton
    (node 8), because `make_loops_contiguous` hoisted the loop block and reference edges had no loop-ingress
    ordering edge; with loop-ingress edges for reference / access-order dependencies the producer comes first.
    Missing for the full statement: that the flat order of `SubgraphMerge` respects every dependency (the C17
    order invariant, not ported to this transcription) and that `make_loops_contiguous` preserves it given the
    loop-ingress edges; on the real output this is judged by the harness oracle (`c18-reference-before-producer`,
    `c18-consumer-before-borrower`, `c18-access-group-order`, `c18-loop-not-contiguous`). -/
theorem reference_producer_order_on_witness_partial :
    ∃ r, partition witnessRefIntoLoop = .ok r ∧ r.subgraphs = [[1], [7], [8], [2, 3], [4, 5, 6]] ∧
      ∀ ref ∈ witnessRefIntoLoop.refs, ∀ t, ref.target = some t → ∀ p ∈ witnessRefIntoLoop.producers t,
        ∀ i j : Nat, (∃ sp, r.subgraphs[i]? = some sp ∧ p ∈ sp) →
          (∃ sb, r.subgraphs[j]? = some sb ∧ ref.node ∈ sb) → i < j := by
  refine ⟨_, rfl, by decide, ?_⟩
  have hs : (match partition witnessRefIntoLoop with | .ok r => r.subgraphs | _ => []) =
      [[1], [7], [8], [2, 3], [4, 5, 6]] := by decide
  intro ref href t ht p hp i j hi hj
  have href' : ref = ⟨5, some 9, false, none⟩ := by simpa [witnessRefIntoLoop] using href
  subst href'
  have ht' : t = 9 := by simpa using ht.symm
  subst ht'
  have hp' : p = 8 := by
    have : witnessRefIntoLoop.producers 9 = [8] := by decide
    rw [this] at hp; simpa using hp
  subst hp'
  obtain ⟨sp, hsp, hmp⟩ := hi
  obtain ⟨sb, hsb, hmb⟩ := hj
  -- positions in the concrete order
  have key : ∀ (l : List (List Nat)), l = [[1], [7], [8], [2, 3], [4, 5, 6]] →
      ∀ (i j : Nat) (sp sb : List Nat), l[i]? = some sp → 8 ∈ sp → l[j]? = some sb → 5 ∈ sb → i < j := by
    intro l hl i j sp sb h1 h2 h3 h4
    subst hl
    match i, j with
    | 0, _ => simp at h1; subst h1; simp at h2
    | 1, _ => simp at h1; subst h1; simp at h2
    | 3, _ => simp at h1; subst h1; simp at h2
    | 4, _ => simp at h1; subst h1; simp at h2
    | (_ + 5), _ => simp at h1
    | 2, 0 => simp at h3; subst h3; simp at h4
    | 2, 1 => simp at h3; subst h3; simp at h4
    | 2, 2 => simp at h3; subst h3; simp at h4
    | 2, (_ + 3) => omega
  exact key _ hs i j sp sb hsp hmp hsb hmb

/-- **A borrower outside the loop block that produces and consumes the referenced handoff is rejected**: it would
    have to run between two members of a block that runs as one unit.  (Before the fix the consumer's block was
    hoisted in front of the borrower — F18, second signature.) -/
theorem borrower_outside_loop_block_rejected :
    partition witnessBorrowerOutsideLoop = .err [3, 6, 2] := by decide

/-! ### non-vacuity -/

/-- `source_iter -> tee; tee -> defer_tick -> union; tee -> for_each; source -> union -> for_each` fragment -/
def exampleDefer : Flat :=
  { nodes := [⟨1, false, "source_iter", none⟩, ⟨2, false, "union", none⟩, ⟨3, false, "tee", none⟩,
              ⟨4, false, "defer_tick", none⟩, ⟨5, false, "for_each", none⟩],
    edges := [⟨1, 1, 2, "_", "_"⟩, ⟨2, 2, 3, "_", "_"⟩, ⟨3, 4, 2, "_", "_"⟩, ⟨4, 3, 4, "_", "_"⟩, ⟨5, 3, 5, "_", "_"⟩],
    refs := [], loops := [] }

example : ∃ r, partition exampleDefer = .ok r ∧ r.subgraphs = [[4], [1, 2, 3, 5]] ∧ r.hoffEdges = [3, 4] ∧
    r.delays = [(true, 4, Delay.tick)] := ⟨_, rfl, by decide, by decide, by decide⟩

end HvPart
