/-
C42 — code generation is deterministic.

The DFIR pipeline (FlatGraphBuilder → eliminate → partition_graph → as_code) keeps its state in slot maps,
`Vec`s and B-trees, all iterated in key / insertion order.  The hash containers that occur in the anchored files
are found on every run by the site scanner (`tools/translate.py` → `Gen/HashSites.lean`) and must coincide with the
manifest below, against which the model was written (`hash_sites_match_manifest`): a new hash-typed binding, or
an existing one that starts being iterated, breaks the build of this file.

Of all sites exactly ONE iterates a hash container: `for w in self.enemies.remove(v).into_iter().flatten()` in
`SubgraphMerge::try_merge` (a `HashSet<K>`).  The model (`SM.tryMergeP perm`, Model/Merge.lean) makes that
iteration order an explicit argument.  Proved:
  * `remapEnemies_order_invariant`   the enemy map after the loop denotes the same map of sets for any two orders
                                     (even from set-equal starting maps);
  * `tryMerge_hash_order_invariant`  one `try_merge` under two arbitrary iteration orders, from states that agree
                                     up to the representation of the enemy sets, gives the same answer, the same
                                     order / index / length / predecessor / union-find state and again set-equal
                                     enemy maps — so the relation is an invariant of any sequence of merges, and
                                     everything the partitioner reads (`subgraphs()`, `find`) is identical.
The lifting of that invariant through `SubgraphMerge::new` and `find_subgraph_unionfind` to the final
`partition_graph` output is `partition_hash_order_invariant` in `Props/C42Lift.lean` (the complete `Outcome` of the
partitioner model is the same for every iteration order; the symmetric+irreflexive enemy-table invariant it needs is
established by `new` and preserved by `try_merge`, so no hypothesis is left).
NOT MODELLED: `as_code` and the Hydro-IR emission (`hydro_lang/src/compile/ir/mod.rs`): their hash containers are
all keyed-lookup-only according to the scanner, and determinism of the real pipeline is checked by repeated
in-process compilation (fresh `RandomState` per map) and by compiling in separate processes and comparing code +
graph JSON byte for byte.
-/
import HvPart.Model.Merge
import HvPart.Gen.HashSites

namespace HvPart

/-! ### (T) the site manifest -/

/-- the hash-typed bindings the model was written against: (file, binding, type, iterated?) -/
def hashSiteManifest : List (String × String × String × Bool) := [
  ("dfir_lang/src/graph/meta_graph.rs", "<anon:pub fn node_color_map(&self) -> SparseSecondaryMap<GraphNode>", "SparseSecondaryMap", false),
  ("dfir_lang/src/graph/meta_graph.rs", "back_edge_hoffs_and_lazyness", "SparseSecondaryMap", false),
  ("dfir_lang/src/graph/meta_graph.rs", "collect", "SparseSecondaryMap", false),
  ("dfir_lang/src/graph/meta_graph.rs", "handoff_delay_type", "SparseSecondaryMap", false),
  ("dfir_lang/src/graph/meta_graph.rs", "loop_parent", "SparseSecondaryMap", false),
  ("dfir_lang/src/graph/meta_graph.rs", "loop_swap_code", "HashMap", false),
  ("dfir_lang/src/graph/meta_graph.rs", "node_color_map", "SparseSecondaryMap", false),
  ("dfir_lang/src/graph/meta_graph.rs", "node_handoff_references", "SparseSecondaryMap", false),
  ("dfir_lang/src/graph/meta_graph.rs", "node_varnames", "SparseSecondaryMap", false),
  ("dfir_lang/src/graph/meta_graph.rs", "std", "HashMap", false),
  ("dfir_lang/src/graph/flat_to_partitioned.rs", "collect", "SparseSecondaryMap", false),
  ("dfir_lang/src/graph/flat_to_partitioned.rs", "loop_descendants", "HashMap", false),
  ("dfir_lang/src/graph/flat_to_partitioned.rs", "node_color", "SparseSecondaryMap", false),
  ("dfir_lang/src/graph/graph_algorithms.rs", "SecondaryMap", "HashSet", false),
  ("dfir_lang/src/graph/graph_algorithms.rs", "enemies", "HashSet", true),
  ("dfir_lang/src/graph/graph_algorithms.rs", "marked", "HashMap", false),
  ("dfir_lang/src/graph/graph_algorithms.rs", "sg_idx", "SparseSecondaryMap", false),
  ("dfir_lang/src/graph/graph_algorithms.rs", "sg_len", "SparseSecondaryMap", false),
  ("dfir_lang/src/graph/graph_algorithms.rs", "visited", "HashSet", false),
  ("dfir_lang/src/graph/ops/mod.rs", "<anon:pub fn operator_lookup() -> &'static HashMap<&'static str, &>", "HashMap", false),
  ("dfir_lang/src/graph/ops/mod.rs", "OPERATOR_LOOKUP", "HashMap", false),
  ("hydro_lang/src/compile/ir/mod.rs", "<anon:*printed_tees_mut = Some((0, HashMap::new()));>", "HashMap", false),
  ("hydro_lang/src/compile/ir/mod.rs", "<anon:guard.replace((0, HashMap::new()))>", "HashMap", false),
  ("hydro_lang/src/compile/ir/mod.rs", "<anon:previous: Option<(usize, HashMap<*const RefCell<HydroNode>, >", "HashMap", false),
  ("hydro_lang/src/compile/ir/mod.rs", "<anon:pub type SeenSharedNodeLocations = HashMap<*const RefCell<Hy>", "HashMap", false),
  ("hydro_lang/src/compile/ir/mod.rs", "<anon:pub type SeenSharedNodes = HashMap<*const RefCell<HydroNode>>", "HashMap", false),
  ("hydro_lang/src/compile/ir/mod.rs", "<anon:type PrintedTees = RefCell<Option<(usize, HashMap<*const Ref>", "HashMap", false),
  ("hydro_lang/src/compile/ir/mod.rs", "_fold_hooked_idents", "HashSet", false),
  ("hydro_lang/src/compile/ir/mod.rs", "built_tees", "HashMap", false),
  ("hydro_lang/src/compile/ir/mod.rs", "clusters", "SparseSecondaryMap", false),
  ("hydro_lang/src/compile/ir/mod.rs", "externals", "SparseSecondaryMap", false),
  ("hydro_lang/src/compile/ir/mod.rs", "extra_stmts", "SparseSecondaryMap", false),
  ("hydro_lang/src/compile/ir/mod.rs", "fold_hooked_idents", "HashSet", false),
  ("hydro_lang/src/compile/ir/mod.rs", "parent", "HashMap", false),
  ("hydro_lang/src/compile/ir/mod.rs", "processes", "SparseSecondaryMap", false),
  ("hydro_lang/src/compile/ir/mod.rs", "seen_cluster_members", "HashSet", false),
  ("hydro_lang/src/compile/ir/mod.rs", "seen_tees", "HashMap", false),
  ("hydro_lang/src/compile/ir/mod.rs", "std", "HashMap", false),
  ("hydro_lang/src/compile/ir/mod.rs", "uf", "HashMap", false)
]

/-- **The hash-container sites found in the current source are exactly those of the manifest**, and the only
    iterated one is `SubgraphMerge::enemies`. -/
theorem hash_sites_match_manifest : Gen.hashSites = hashSiteManifest := by decide

theorem only_enemies_is_iterated :
    (hashSiteManifest.filter (fun s => s.2.2.2)).map (fun s => (s.1, s.2.1)) =
      [("dfir_lang/src/graph/graph_algorithms.rs", "enemies")] := by decide

/-! ### the iterated site: the enemy remapping loop of `try_merge` -/

/-- two lists denote the same set -/
def SetEq (a b : List Nat) : Prop := ∀ x, x ∈ a ↔ x ∈ b

/-- the set stored under key `k` -/
def eget (en : List (Nat × List Nat)) (k : Nat) : List Nat := (aget en k).getD []

/-- two enemy maps denote the same map of sets -/
def EnemyEquiv (e1 e2 : List (Nat × List Nat)) : Prop := ∀ k, SetEq (eget e1 k) (eget e2 k)

theorem aux_aget_aset (m : List (Nat × List Nat)) (k j : Nat) (v : List Nat) :
    aget (aset m k v) j = if j = k then some v else aget m j := by
  induction m with
  | nil =>
    by_cases h : j = k
    · subst h; simp [aset, aget]
    · have : ¬ k = j := fun e => h e.symm
      simp [aset, aget, h, this]
  | cons p t ih =>
    obtain ⟨k', v'⟩ := p
    unfold aset
    by_cases h : k' = k
    · subst h
      by_cases h2 : j = k'
      · subst h2; simp [aget]
      · have : ¬ k' = j := fun e => h2 e.symm
        simp [aget, h2, this]
    · simp only [h, if_false, aget]
      by_cases h2 : k' = j
      · subst h2
        simp [h]
      · simp only [h2, if_false, ih]

theorem aux_eget_aset (m : List (Nat × List Nat)) (k j : Nat) (v : List Nat) :
    eget (aset m k v) j = if j = k then v else eget m j := by
  unfold eget
  rw [aux_aget_aset]
  by_cases h : j = k <;> simp [h]

theorem aux_mem_setInsert (s : List Nat) (x y : Nat) : y ∈ SM.setInsert s x ↔ y ∈ s ∨ y = x := by
  unfold SM.setInsert
  split
  · rename_i h
    have hx : x ∈ s := by simpa using h
    constructor
    · exact fun h => Or.inl h
    · rintro (h | h)
      · exact h
      · subst h; exact hx
  · simp

/-- one iteration of the loop body for enemy `w` -/
def remapStep (u v : Nat) (en : List (Nat × List Nat)) (w : Nat) : List (Nat × List Nat) :=
  let en := SM.addEnemy en u w
  let we := ((aget en w).getD []).filter (· != v)
  aset en w (SM.setInsert we u)

theorem aux_remapEnemies_fold (en : List (Nat × List Nat)) (u v : Nat) (ws : List Nat) :
    SM.remapEnemies en u v ws = ws.foldl (remapStep u v) en := rfl

/-- membership after one iteration (for `w ≠ u`) -/
theorem aux_remapStep_mem (u v w : Nat) (hw : w ≠ u) (en : List (Nat × List Nat)) (x y : Nat) :
    y ∈ eget (remapStep u v en w) x ↔
      (x = u ∧ (y ∈ eget en u ∨ y = w)) ∨ (x = w ∧ ((y ∈ eget en w ∧ y ≠ v) ∨ y = u)) ∨
      (x ≠ u ∧ x ≠ w ∧ y ∈ eget en x) := by
  unfold remapStep SM.addEnemy
  simp only
  rw [aux_eget_aset]
  by_cases hxw : x = w
  · subst hxw
    simp only [if_true]
    rw [aux_mem_setInsert]
    have hget : (aget (aset en u (SM.setInsert ((aget en u).getD []) x)) x).getD [] = eget en x := by
      have := aux_eget_aset en u x (SM.setInsert ((aget en u).getD []) x)
      unfold eget at this ⊢
      rw [this]
      simp [hw]
    rw [hget]
    simp only [List.mem_filter, bne_iff_ne, ne_eq]
    grind
  · simp only [hxw, if_false]
    rw [aux_eget_aset]
    by_cases hxu : x = u
    · subst hxu
      simp only [if_true]
      rw [aux_mem_setInsert]
      have : eget en x = (aget en x).getD [] := rfl
      grind
    · simp only [hxu, if_false]
      grind

/-- order-free description of the enemy map after the whole loop -/
theorem aux_remapEnemies_mem (u v : Nat) :
    ∀ (ws : List Nat), u ∉ ws → ∀ (en : List (Nat × List Nat)) (x y : Nat),
      y ∈ eget (SM.remapEnemies en u v ws) x ↔
        (x = u ∧ (y ∈ eget en u ∨ y ∈ ws)) ∨ (x ≠ u ∧ x ∈ ws ∧ ((y ∈ eget en x ∧ y ≠ v) ∨ y = u)) ∨
        (x ≠ u ∧ x ∉ ws ∧ y ∈ eget en x)
  | [], _, en, x, y => by
    simp only [aux_remapEnemies_fold, List.foldl_nil, List.not_mem_nil, or_false, false_and, not_false_eq_true, true_and]
    by_cases h : x = u <;> simp [h]
  | w :: t, hu, en, x, y => by
    have hw : w ≠ u := fun e => hu (by rw [e]; exact List.mem_cons_self)
    have hut : u ∉ t := fun h => hu (List.mem_cons_of_mem _ h)
    rw [aux_remapEnemies_fold, List.foldl_cons, ← aux_remapEnemies_fold]
    rw [aux_remapEnemies_mem u v t hut (remapStep u v en w) x y]
    simp only [aux_remapStep_mem u v w hw, List.mem_cons]
    grind

/-- **The enemy remapping loop is independent of the iteration order of the hash set**: starting from set-equal
    maps and iterating two lists with the same members gives set-equal maps. -/
theorem remapEnemies_order_invariant (u v : Nat) (e1 e2 : List (Nat × List Nat)) (ws1 ws2 : List Nat)
    (he : EnemyEquiv e1 e2) (hws : SetEq ws1 ws2) (hu : u ∉ ws1) :
    EnemyEquiv (SM.remapEnemies e1 u v ws1) (SM.remapEnemies e2 u v ws2) := by
  have hu2 : u ∉ ws2 := fun h => hu ((hws u).mpr h)
  intro x y
  rw [aux_remapEnemies_mem u v ws1 hu e1 x y, aux_remapEnemies_mem u v ws2 hu2 e2 x y]
  have h1 := he u y
  have h2 := he x y
  have h3 := hws y
  have h4 := hws x
  simp only [h1, h2, h3, h4]

/-! ### one `try_merge` under two iteration orders -/

/-- states that agree except for the representation of the enemy sets -/
structure SMEquiv (a b : SM) : Prop where
  preds : a.preds = b.preds
  topo : a.topo = b.topo
  idx : a.idx = b.idx
  len : a.len = b.len
  rep : a.rep = b.rep
  enemies : EnemyEquiv a.enemies b.enemies

/-- an iteration order of a hash set: any list with the same members -/
def IsOrder (p : List Nat → List Nat) : Prop := ∀ l, SetEq (p l) l

theorem aux_contains_congr (a b : List Nat) (h : SetEq a b) (x : Nat) : a.contains x = b.contains x := by
  have := h x
  by_cases hx : x ∈ a
  · have hb := this.mp hx
    simp [hx, hb]
  · have hb : x ∉ b := fun h' => hx (this.mpr h')
    simp [hx, hb]

theorem aux_eget_aerase (en : List (Nat × List Nat)) (v k : Nat) :
    eget (aerase en v) k = if k = v then [] else eget en k := by
  unfold eget
  induction en with
  | nil => simp [aerase, aget]
  | cons p t ih =>
    obtain ⟨k', s⟩ := p
    unfold aerase at ih ⊢
    by_cases h : k' = v
    · subst h
      by_cases hk : k = k'
      · subst hk
        simpa [aget] using ih
      · have : ¬ k' = k := fun e => hk e.symm
        simp only [bne_self_eq_false, Bool.false_eq_true, not_false_eq_true, List.filter_cons_of_neg, aget, this, if_false]
        simpa [hk] using ih
    · have hb : (k' != v) = true := by simpa using h
      simp only [List.filter_cons, hb, if_true, aget]
      by_cases hk : k' = k
      · subst hk
        simp [h]
      · simp only [hk, if_false]
        exact ih

theorem aux_cycleCheck_congr (a b : SM) (h : SMEquiv a b) (u v wlo whi fuel : Nat) (st vis : List Nat) :
    a.cycleCheck u v wlo whi fuel st vis = b.cycleCheck u v wlo whi fuel st vis := by
  unfold SM.cycleCheck
  rw [h.preds, h.idx, h.rep]

/-- the symmetric-enemies invariant of `SubgraphMerge` (stated in its doc comment; `debug_assert`ed in the loop) -/
def EnemySym (sm : SM) : Prop := ∀ x y, y ∈ eget sm.enemies x → x ∈ eget sm.enemies y

/-- same answer, and states equal up to the representation of the enemy sets -/
def ResultRel : MergeResult → MergeResult → Prop
  | .done a ok1, .done b ok2 => ok1 = ok2 ∧ SMEquiv a b
  | .panic m1, .panic m2 => m1 = m2
  | _, _ => False

theorem aux_tail_invariant (p1 p2 : List Nat → List Nat) (hp1 : IsOrder p1) (hp2 : IsOrder p2)
    (a b : SM) (h : SMEquiv a b) (u v : Nat) (hnot : u ∉ eget a.enemies v) :
    ResultRel (SM.tryMergeTail p1 a u v) (SM.tryMergeTail p2 b u v) := by
  unfold SM.tryMergeTail
  simp only [← h.idx, ← h.len, ← h.topo]
  rw [← aux_cycleCheck_congr a b h]
  by_cases c3 : a.cycleCheck u v ((aget a.idx u).getD 0) ((aget a.idx v).getD 0 + (aget a.len v).getD 0)
      (a.topo.length + 2) [v] [v] = true
  · simp only [c3, if_true]
    exact ⟨rfl, h⟩
  · simp only [c3, Bool.false_eq_true, if_false]
    unfold SM.mergeCore
    simp only [← h.preds, ← h.topo, ← h.idx, ← h.len, ← h.rep]
    cases hr : SM.mergeRest a.preds a.topo a.idx a.len a.rep u v with
    | none => exact rfl
    | some r =>
      refine ⟨rfl, ⟨rfl, rfl, rfl, rfl, rfl, ?_⟩⟩
      simp only
      apply remapEnemies_order_invariant
      · intro k z
        rw [aux_eget_aerase, aux_eget_aerase]
        by_cases hk : k = v
        · simp [hk]
        · simp only [hk, if_false]
          exact h.enemies k z
      · intro z
        have h1 := hp1 ((aget a.enemies v).getD []) z
        have h2 := hp2 ((aget b.enemies v).getD []) z
        have h3 := h.enemies v z
        unfold eget at h3
        rw [h1, h2, h3]
      · intro hm
        apply hnot
        have h1 := hp1 ((aget a.enemies v).getD []) u
        unfold eget
        exact h1.mp hm

/-- **One `try_merge` is independent of the hash iteration order**: from states equal up to the representation of
    the enemy sets, under any two iteration orders, the call returns the same answer (`true`/`false`/the same panic)
    and states that are again equal up to the representation of the enemy sets. -/
theorem tryMerge_hash_order_invariant (p1 p2 : List Nat → List Nat) (hp1 : IsOrder p1) (hp2 : IsOrder p2)
    (a b : SM) (h : SMEquiv a b) (hsym : EnemySym a) (x y : Nat) :
    ResultRel (SM.tryMergeP p1 a x y) (SM.tryMergeP p2 b x y) := by
  unfold SM.tryMergeP
  simp only [SM.find, ← h.rep, ← h.idx]
  by_cases c1 : (SM.findIn a.rep x == SM.findIn a.rep y) = true
  · simp only [c1, if_true]
    exact ⟨rfl, h⟩
  · simp only [c1, Bool.false_eq_true, if_false]
    have hc : ((aget b.enemies (SM.findIn a.rep x)).getD []).contains (SM.findIn a.rep y)
        = ((aget a.enemies (SM.findIn a.rep x)).getD []).contains (SM.findIn a.rep y) :=
      (aux_contains_congr _ _ (h.enemies _) _).symm
    rw [hc]
    by_cases c2 : ((aget a.enemies (SM.findIn a.rep x)).getD []).contains (SM.findIn a.rep y) = true
    · simp only [c2, if_true]
      exact ⟨rfl, h⟩
    · simp only [c2, Bool.false_eq_true, if_false]
      have hen' : SM.findIn a.rep y ∉ eget a.enemies (SM.findIn a.rep x) := by
        intro hm
        apply c2
        unfold eget at hm
        simpa using hm
      by_cases hlt : (aget a.idx (SM.findIn a.rep x)).getD 0 < (aget a.idx (SM.findIn a.rep y)).getD 0
      · simp only [hlt, if_true]
        exact aux_tail_invariant p1 p2 hp1 hp2 a b h _ _ (fun hm => hen' (hsym _ _ hm))
      · simp only [hlt, if_false]
        exact aux_tail_invariant p1 p2 hp1 hp2 a b h _ _ hen'

/-- the output of a merge sequence does not depend on the iteration orders (as first stated; it lacks the
    enemy-table invariant on `sm`, so it is not provable in this form — the corrected and proved form, for the
    whole partitioner from `SubgraphMerge::new` on, is `partition_hash_order_invariant`, Props/C42Lift.lean) -/
def PartitionOrderInvariantStatement : Prop :=
  ∀ (p1 p2 : List Nat → List Nat), IsOrder p1 → IsOrder p2 →
    ∀ (sm : SM) (merges : List (Nat × Nat)),
      let run := fun (p : List Nat → List Nat) => merges.foldl (fun (acc : Option SM) (m : Nat × Nat) =>
        match acc with
        | none => none
        | some s => match SM.tryMergeP p s m.1 m.2 with | .done s' _ => some s' | .panic _ => none) (some sm)
      match run p1, run p2 with
      | some s1, some s2 => s1.subgraphs = s2.subgraphs ∧ s1.rep = s2.rep
      | none, none => True
      | _, _ => False

/-- `subgraphs()` and `find` read no enemy set: equal on states equal up to enemy representation -/
theorem observations_ignore_enemy_representation_partial (a b : SM) (h : SMEquiv a b) :
    a.subgraphs = b.subgraphs ∧ (∀ k, a.find k = b.find k) := by
  refine ⟨?_, fun k => by simp [SM.find, h.rep]⟩
  unfold SM.subgraphs
  rw [h.topo]
  have : ∀ fuel l, a.subgraphsAux fuel l = b.subgraphsAux fuel l := by
    intro fuel
    induction fuel with
    | zero => intro l; simp [SM.subgraphsAux]
    | succ n ih =>
      intro l
      cases l with
      | nil => simp [SM.subgraphsAux]
      | cons k rest => simp only [SM.subgraphsAux, h.len, ih]
  exact this _ _

/-! ### non-vacuity -/

example : IsOrder List.reverse := fun l x => by simp
example : EnemyEquiv (SM.remapEnemies [(5, [7]), (7, [5]), (8, [5]), (5, [8])] 1 5 [7, 8])
    (SM.remapEnemies [(5, [7]), (7, [5]), (8, [5]), (5, [8])] 1 5 [8, 7]) :=
  remapEnemies_order_invariant 1 5 _ _ [7, 8] [8, 7] (fun _ _ => Iff.rfl)
    (fun x => by simp [or_comm]) (by decide)

end HvPart
