/-
`SubgraphMerge` never puts the two nodes of an enemy pair into one group.

Discharges the hypothesis `EnemiesSeparated` of `delay_edge_marked` / `barrier_pairs_cross` (Props/C18.lean)
on the model itself: for every run `partitionWith ts g = .ok r` and every `p ∈ g.enemyPairs` the final
union-find separates `p.1` and `p.2`.

The core lemmas are generic in the list `pairs` handed to `SM.new` (`aux_es_new_pairInv`,
`aux_es_partition_core`); only the last corollary mentions `Flat.enemyPairs`.

Invariant, per pair `(x, y)` (`PairInv`): with `f = findIn sm.rep` and `E k = enemies[k]` (empty if absent)
    f x ≠ f y   ∧   f y ∈ E (f x)   ∧   f x ∈ E (f y).
`try_merge` refuses when `E(find a).contains(find b)`, and both directions being recorded makes that refusal
cover either orientation; the remap loop re-keys `E` consistently with the new representative.
-/
import HvPart.Model.Partition

namespace HvPart

/-! ### association-list helpers -/

theorem aux_es_aget_aset {α} (m : List (Nat × α)) (k k' : Nat) (v : α) :
    aget (aset m k v) k' = if k = k' then some v else aget m k' := by
  induction m with
  | nil => simp [aset, aget]
  | cons p t ih =>
    obtain ⟨a, b⟩ := p
    by_cases h : a = k
    · subst h
      by_cases h' : a = k'
      · subst h'; simp [aset, aget]
      · simp [aset, aget, h']
    · by_cases h' : a = k'
      · subst h'
        have : ¬ k = a := fun e => h e.symm
        simp [aset, aget, h, this]
      · simp [aset, aget, h, h', ih]

theorem aux_es_aget_aerase {α} (m : List (Nat × α)) (k k' : Nat) :
    aget (aerase m k) k' = if k = k' then none else aget m k' := by
  induction m with
  | nil => simp [aerase, aget]
  | cons p t ih =>
    obtain ⟨a, b⟩ := p
    unfold aerase at ih ⊢
    by_cases h : a = k
    · subst h
      by_cases h' : a = k'
      · subst h'; simpa [List.filter_cons] using ih
      · simp [h', ih, aget]
    · by_cases h' : a = k'
      · subst h'
        have : ¬ k = a := fun e => h e.symm
        simp [aget, h, this]
      · simp [aget, h, h', ih]

/-- `enemies[k]`, empty when absent -/
def En (en : List (Nat × List Nat)) (k : Nat) : List Nat := (aget en k).getD []

theorem aux_es_En_aset (en : List (Nat × List Nat)) (k k' : Nat) (v : List Nat) :
    En (aset en k v) k' = if k = k' then v else En en k' := by
  unfold En
  rw [aux_es_aget_aset]
  split <;> rfl

theorem aux_es_En_aerase (en : List (Nat × List Nat)) (k k' : Nat) :
    En (aerase en k) k' = if k = k' then [] else En en k' := by
  unfold En
  rw [aux_es_aget_aerase]
  split <;> rfl

theorem aux_es_mem_setInsert (s : List Nat) (x y : Nat) : y ∈ SM.setInsert s x ↔ y ∈ s ∨ y = x := by
  unfold SM.setInsert
  split
  · rename_i h
    have hx : x ∈ s := by simpa using h
    constructor
    · exact Or.inl
    · rintro (h | h)
      · exact h
      · subst h; exact hx
  · simp

theorem aux_es_En_addEnemy (en : List (Nat × List Nat)) (a b k : Nat) :
    En (SM.addEnemy en a b) k = if a = k then SM.setInsert (En en a) b else En en k := by
  unfold SM.addEnemy
  rw [aux_es_En_aset]
  rfl

theorem aux_es_addEnemy_mono (en : List (Nat × List Nat)) (a b k z : Nat) (h : z ∈ En en k) :
    z ∈ En (SM.addEnemy en a b) k := by
  rw [aux_es_En_addEnemy]
  split
  · rename_i e; subst e
    exact (aux_es_mem_setInsert _ _ _).mpr (Or.inl h)
  · exact h

theorem aux_es_addEnemy_new (en : List (Nat × List Nat)) (a b : Nat) : b ∈ En (SM.addEnemy en a b) a := by
  rw [aux_es_En_addEnemy, if_pos rfl]
  exact (aux_es_mem_setInsert _ _ _).mpr (Or.inr rfl)

/-! ### the enemy table built by `SubgraphMerge::new` -/

/-- one iteration of the loop over the enemy pairs in `new` -/
def enAdd (en : List (Nat × List Nat)) (p : Nat × Nat) : List (Nat × List Nat) :=
  SM.addEnemy (SM.addEnemy en p.1 p.2) p.2 p.1

theorem aux_es_enAdd_foldl_mono : ∀ (pairs : List (Nat × Nat)) (en : List (Nat × List Nat)) (k z : Nat),
    z ∈ En en k → z ∈ En (pairs.foldl enAdd en) k
  | [], _, _, _, h => h
  | p :: t, en, k, z, h => by
    simp only [List.foldl_cons]
    exact aux_es_enAdd_foldl_mono t _ k z (aux_es_addEnemy_mono _ _ _ _ _ (aux_es_addEnemy_mono _ _ _ _ _ h))

theorem aux_es_enAdd_foldl_mem : ∀ (pairs : List (Nat × Nat)) (en : List (Nat × List Nat)) (p : Nat × Nat),
    p ∈ pairs → p.2 ∈ En (pairs.foldl enAdd en) p.1 ∧ p.1 ∈ En (pairs.foldl enAdd en) p.2
  | [], _, _, h => by cases h
  | q :: t, en, p, h => by
    simp only [List.foldl_cons]
    rcases List.mem_cons.mp h with h | h
    · subst h
      exact ⟨aux_es_enAdd_foldl_mono t _ _ _ (aux_es_addEnemy_mono _ _ _ _ _ (aux_es_addEnemy_new _ _ _)),
        aux_es_enAdd_foldl_mono t _ _ _ (aux_es_addEnemy_new _ _ _)⟩
    · exact aux_es_enAdd_foldl_mem t _ p h

/-- the invariant of one enemy pair `(x, y)`: the two classes differ and each records the other as an enemy -/
def PairInv (sm : SM) (x y : Nat) : Prop :=
  SM.findIn sm.rep x ≠ SM.findIn sm.rep y ∧
  SM.findIn sm.rep y ∈ En sm.enemies (SM.findIn sm.rep x) ∧
  SM.findIn sm.rep x ∈ En sm.enemies (SM.findIn sm.rep y)

/-- **`SubgraphMerge::new` establishes the invariant for every pair it is given** (generic in `pairs`) -/
theorem aux_es_new_pairInv (ts : TopoSortFn) (keys : List Nat) (pf : Nat → List Nat) (pairs : List (Nat × Nat))
    (sm : SM) (h : SM.new ts keys pf pairs = .ok sm) : ∀ p ∈ pairs, PairInv sm p.1 p.2 := by
  simp only [SM.new] at h
  split at h
  · cases h
  · split at h
    · cases h
    · rename_i hany
      injection h with h
      subst h
      intro p hp
      have hne : p.1 ≠ p.2 := by
        intro e
        apply hany
        simp only [List.any_eq_true, beq_iff_eq]
        exact ⟨p, hp, e⟩
      have := aux_es_enAdd_foldl_mem pairs [] p hp
      exact ⟨hne, this.1, this.2⟩

/-! ### the remap loop of `try_merge` -/

/-- one iteration of the enemy remapping loop -/
def enStep (u v : Nat) (en : List (Nat × List Nat)) (w : Nat) : List (Nat × List Nat) :=
  let en := SM.addEnemy en u w
  aset en w (SM.setInsert ((En en w).filter (· != v)) u)

theorem aux_es_remap_eq (en : List (Nat × List Nat)) (u v : Nat) (ws : List Nat) :
    SM.remapEnemies en u v ws = ws.foldl (enStep u v) en := rfl

theorem aux_es_enStep_mono (u v : Nat) (en : List (Nat × List Nat)) (w k z : Nat) (hz : z ≠ v) (h : z ∈ En en k) :
    z ∈ En (enStep u v en w) k := by
  unfold enStep
  simp only
  rw [aux_es_En_aset]
  have h1 := aux_es_addEnemy_mono en u w k z h
  split
  · rename_i e; subst e
    apply (aux_es_mem_setInsert _ _ _).mpr
    refine Or.inl ?_
    simp only [List.mem_filter, bne_iff_ne, ne_eq]
    exact ⟨h1, hz⟩
  · exact h1

theorem aux_es_enStep_new (u v : Nat) (en : List (Nat × List Nat)) (w : Nat) :
    w ∈ En (enStep u v en w) u ∧ u ∈ En (enStep u v en w) w := by
  unfold enStep
  simp only
  rw [aux_es_En_aset, aux_es_En_aset, if_pos rfl]
  refine ⟨?_, (aux_es_mem_setInsert _ _ _).mpr (Or.inr rfl)⟩
  split
  · rename_i e
    exact (aux_es_mem_setInsert _ _ _).mpr (Or.inr e)
  · exact aux_es_addEnemy_new _ _ _

theorem aux_es_enStep_foldl_mono (u v : Nat) : ∀ (ws : List Nat) (en : List (Nat × List Nat)) (k z : Nat),
    z ≠ v → z ∈ En en k → z ∈ En (ws.foldl (enStep u v) en) k
  | [], _, _, _, _, h => h
  | w :: t, en, k, z, hz, h => by
    simp only [List.foldl_cons]
    exact aux_es_enStep_foldl_mono u v t _ k z hz (aux_es_enStep_mono u v en w k z hz h)

theorem aux_es_enStep_foldl_new (u v : Nat) (huv : u ≠ v) : ∀ (ws : List Nat) (en : List (Nat × List Nat)) (w : Nat),
    w ∈ ws → w ≠ v → w ∈ En (ws.foldl (enStep u v) en) u ∧ u ∈ En (ws.foldl (enStep u v) en) w
  | [], _, _, h, _ => by cases h
  | a :: t, en, w, h, hw => by
    simp only [List.foldl_cons]
    rcases List.mem_cons.mp h with h | h
    · subst h
      obtain ⟨h1, h2⟩ := aux_es_enStep_new u v en w
      exact ⟨aux_es_enStep_foldl_mono u v t _ _ _ hw h1, aux_es_enStep_foldl_mono u v t _ _ _ huv h2⟩
    · exact aux_es_enStep_foldl_new u v huv t _ w h hw

/-! ### one `try_merge` -/

theorem aux_es_findIn_cons (v u : Nat) (rep : List (Nat × Nat)) (k : Nat) :
    SM.findIn ((v, u) :: rep) k = if SM.findIn rep k = v then u else SM.findIn rep k := rfl

theorem aux_es_mergeRest_rep (preds0 : List (Nat × List Nat)) (topo0 : List Nat) (idx0 len0 rep0 : List (Nat × Nat))
    (u v : Nat) (x : SM.MergeRest) (h : SM.mergeRest preds0 topo0 idx0 len0 rep0 u v = some x) :
    x.rep = (v, u) :: rep0 := by
  unfold SM.mergeRest at h
  simp only at h
  split at h
  · cases h
  · injection h with h
    subst h
    rfl

/-- shape of a successful `mergeCore`: the union-find gets `(v, u)`, the enemy table is remapped -/
theorem aux_es_mergeCore_shape (perm : List Nat → List Nat) (sm sm' : SM) (u v : Nat) (ok : Bool)
    (h : SM.mergeCore perm sm u v = .done sm' ok) :
    sm'.rep = (v, u) :: sm.rep ∧
    sm'.enemies = (perm (En sm.enemies v)).foldl (enStep u v) (aerase sm.enemies v) := by
  unfold SM.mergeCore at h
  split at h
  · cases h
  · rename_i x hx
    injection h with h1 h2
    subst h1
    exact ⟨aux_es_mergeRest_rep _ _ _ _ _ _ _ _ hx, rfl⟩

/-- a merge of the distinct representatives `u`, `v` keeps the invariant of every pair whose two classes are
    not exactly `{u, v}` -/
theorem aux_es_mergeCore_pair (perm : List Nat → List Nat) (hperm : ∀ l z, z ∈ l → z ∈ perm l)
    (sm sm' : SM) (u v : Nat) (ok : Bool) (h : SM.mergeCore perm sm u v = .done sm' ok) (huv : u ≠ v)
    (x y : Nat) (inv : PairInv sm x y)
    (h1 : ¬ (SM.findIn sm.rep x = u ∧ SM.findIn sm.rep y = v))
    (h2 : ¬ (SM.findIn sm.rep x = v ∧ SM.findIn sm.rep y = u)) : PairInv sm' x y := by
  obtain ⟨hrep, hen⟩ := aux_es_mergeCore_shape perm sm sm' u v ok h
  obtain ⟨hne, hyx, hxy⟩ := inv
  unfold PairInv
  rw [hrep, hen, aux_es_findIn_cons, aux_es_findIn_cons]
  generalize SM.findIn sm.rep x = fx at *
  generalize SM.findIn sm.rep y = fy at *
  -- facts about the remapped table
  have keep : ∀ k z, k ≠ v → z ≠ v → z ∈ En sm.enemies k →
      z ∈ En ((perm (En sm.enemies v)).foldl (enStep u v) (aerase sm.enemies v)) k := by
    intro k z hk hz hm
    apply aux_es_enStep_foldl_mono u v _ _ k z hz
    rw [aux_es_En_aerase, if_neg (fun e => hk e.symm)]
    exact hm
  have moved : ∀ w, w ∈ En sm.enemies v → w ≠ v →
      w ∈ En ((perm (En sm.enemies v)).foldl (enStep u v) (aerase sm.enemies v)) u ∧
      u ∈ En ((perm (En sm.enemies v)).foldl (enStep u v) (aerase sm.enemies v)) w :=
    fun w hw hwv => aux_es_enStep_foldl_new u v huv _ _ w (hperm _ _ hw) hwv
  by_cases hx : fx = v
  · subst hx
    have hy : ¬ fy = fx := fun e => hne e.symm
    have hyu : fy ≠ u := fun e => h2 ⟨rfl, e⟩
    rw [if_pos rfl, if_neg hy]
    obtain ⟨m1, m2⟩ := moved fy hyx hy
    exact ⟨fun e => hyu e.symm, m1, m2⟩
  · by_cases hy : fy = v
    · subst hy
      have hxu : fx ≠ u := fun e => h1 ⟨e, rfl⟩
      rw [if_neg hx, if_pos rfl]
      obtain ⟨m1, m2⟩ := moved fx hxy hx
      exact ⟨hxu, m2, m1⟩
    · rw [if_neg hx, if_neg hy]
      exact ⟨hne, keep fx fy hx hy hyx, keep fy fx hy hx hxy⟩

theorem aux_es_tryMergeTail_pair (perm : List Nat → List Nat) (hperm : ∀ l z, z ∈ l → z ∈ perm l)
    (sm sm' : SM) (u v : Nat) (ok : Bool) (h : SM.tryMergeTail perm sm u v = .done sm' ok) (huv : u ≠ v)
    (x y : Nat) (inv : PairInv sm x y)
    (h1 : ¬ (SM.findIn sm.rep x = u ∧ SM.findIn sm.rep y = v))
    (h2 : ¬ (SM.findIn sm.rep x = v ∧ SM.findIn sm.rep y = u)) : PairInv sm' x y := by
  unfold SM.tryMergeTail at h
  simp only at h
  split at h
  · injection h with h _
    subst h
    exact inv
  · exact aux_es_mergeCore_pair perm hperm sm sm' u v ok h huv x y inv h1 h2

/-- **`try_merge` keeps the invariant of every enemy pair** -/
theorem aux_es_tryMergeP_pair (perm : List Nat → List Nat) (hperm : ∀ l z, z ∈ l → z ∈ perm l)
    (sm sm' : SM) (a b : Nat) (ok : Bool) (h : SM.tryMergeP perm sm a b = .done sm' ok)
    (x y : Nat) (inv : PairInv sm x y) : PairInv sm' x y := by
  unfold SM.tryMergeP at h
  simp only at h
  split at h
  · injection h with h _
    subst h
    exact inv
  · rename_i hab
    have hab' : sm.find a ≠ sm.find b := by simpa using hab
    split at h
    · injection h with h _
      subst h
      exact inv
    · rename_i hc
      have hc' : sm.find b ∉ En sm.enemies (sm.find a) := by
        intro hm
        apply hc
        simpa [En] using hm
      have k1 : ¬ (SM.findIn sm.rep x = sm.find a ∧ SM.findIn sm.rep y = sm.find b) := by
        rintro ⟨e1, e2⟩
        apply hc'
        rw [← e1, ← e2]
        exact inv.2.1
      have k2 : ¬ (SM.findIn sm.rep x = sm.find b ∧ SM.findIn sm.rep y = sm.find a) := by
        rintro ⟨e1, e2⟩
        apply hc'
        rw [← e1, ← e2]
        exact inv.2.2
      split at h
      · exact aux_es_tryMergeTail_pair perm hperm sm sm' _ _ ok h hab' x y inv k1 k2
      · exact aux_es_tryMergeTail_pair perm hperm sm sm' _ _ ok h (fun e => hab' e.symm) x y inv k2 k1

/-! ### the merge fixpoint -/

/-- all pairs of the list satisfy `PairInv` -/
def PairsInv (pairs : List (Nat × Nat)) (sm : SM) : Prop := ∀ p ∈ pairs, PairInv sm p.1 p.2

theorem aux_es_mergeEdge_pairs (g : Flat) (pairs : List (Nat × Nat)) (st : MergeSt) (e0 : FEdge)
    (inv : PairsInv pairs st.sm) : PairsInv pairs (mergeEdge g st e0).sm := by
  unfold mergeEdge
  split
  · exact inv
  · split
    · exact inv
    · split
      · exact inv
      · split
        · exact inv
        · simp only
          split
          · split
            · exact inv
            · rename_i sm' ok hm
              have hm' : SM.tryMergeP id st.sm e0.src e0.dst = .done sm' ok := hm
              have inv' : PairsInv pairs sm' := fun p hp =>
                aux_es_tryMergeP_pair id (fun _ _ h => h) _ _ _ _ _ hm' p.1 p.2 (inv p hp)
              split
              · split
                · exact inv'
                · exact inv'
              · exact inv'
          · exact inv

theorem aux_es_foldl_pairs (g : Flat) (pairs : List (Nat × Nat)) :
    ∀ (es : List FEdge) st, PairsInv pairs st.sm → PairsInv pairs (es.foldl (mergeEdge g) st).sm
  | [], _, inv => inv
  | e :: t, st, inv => by
    simp only [List.foldl_cons]
    exact aux_es_foldl_pairs g pairs t _ (aux_es_mergeEdge_pairs g pairs st e inv)

theorem aux_es_mergeLoop_pairs (g : Flat) (pairs : List (Nat × Nat)) :
    ∀ fuel st, PairsInv pairs st.sm → PairsInv pairs (mergeLoop g fuel st).sm
  | 0, _, inv => inv
  | fuel + 1, st, inv => by
    unfold mergeLoop
    have h1 : PairsInv pairs (mergePass g st).sm := by
      unfold mergePass
      exact aux_es_foldl_pairs g pairs g.edges _ inv
    simp only
    split
    · exact aux_es_mergeLoop_pairs g pairs fuel _ h1
    · exact h1

theorem aux_es_finish_rep (g : Flat) (st : MergeSt) (r : PResult) (h : finishPartition g st = .ok r) :
    r.rep = st.sm.rep := by
  unfold finishPartition at h
  split at h
  · cases h
  · simp only at h
    split at h
    · cases h
    · split at h
      · cases h
      · injection h with h; subst h; rfl

/-- **core, generic in the enemy list**: whatever list `pairs` is handed to `SubgraphMerge::new`, the union-find
    left by the merge fixpoint and returned by `finishPartition` separates every pair of it -/
theorem aux_es_partition_core (ts : TopoSortFn) (g : Flat) (keys : List Nat) (pf : Nat → List Nat)
    (pairs : List (Nat × Nat)) (sm : SM) (hnew : SM.new ts keys pf pairs = .ok sm) (fuel : Nat) (r : PResult)
    (h : finishPartition g (mergeLoop g fuel (mergeInit g sm)) = .ok r) :
    ∀ p ∈ pairs, SM.findIn r.rep p.1 ≠ SM.findIn r.rep p.2 := by
  intro p hp
  rw [aux_es_finish_rep g _ r h]
  have h0 : PairsInv pairs (mergeInit g sm).sm := aux_es_new_pairInv ts keys pf pairs sm hnew
  exact (aux_es_mergeLoop_pairs g pairs fuel _ h0 p hp).1

/-- **Enemies are never in one group**: for every successful run of the partitioner the final union-find
    separates the two nodes of every enemy pair (this is `EnemiesSeparated g r` of Props/C18.lean). -/
theorem enemies_separated (ts : TopoSortFn) (g : Flat) (r : PResult)
    (h : partitionWith ts g = .ok r) : ∀ p ∈ g.enemyPairs, SM.findIn r.rep p.1 ≠ SM.findIn r.rep p.2 := by
  unfold partitionWith at h
  split at h
  · cases h
  · split at h
    · cases h
    · cases h
    · rename_i sm hnew
      exact aux_es_partition_core ts g _ _ _ sm hnew _ r h

/-! ### non-vacuity -/

/-- `source_iter -> union -> tee; tee -> defer_tick -> union; tee -> for_each` (as `exampleDefer` of C18) -/
def exampleDeferEn : Flat :=
  { nodes := [⟨1, false, "source_iter", none⟩, ⟨2, false, "union", none⟩, ⟨3, false, "tee", none⟩,
              ⟨4, false, "defer_tick", none⟩, ⟨5, false, "for_each", none⟩],
    edges := [⟨1, 1, 2, "_", "_"⟩, ⟨2, 2, 3, "_", "_"⟩, ⟨3, 4, 2, "_", "_"⟩, ⟨4, 3, 4, "_", "_"⟩, ⟨5, 3, 5, "_", "_"⟩],
    refs := [], loops := [] }

/-- the graph partitions OK, has an enemy pair (the `tee -> defer_tick` edge), several merges happened, and the
    conclusion of `enemies_separated` is a non-trivial fact about the returned union-find -/
example : ∃ r, partition exampleDeferEn = .ok r ∧ exampleDeferEn.enemyPairs = [(3, 4)] ∧ r.rep.length = 3 ∧
    SM.findIn r.rep 3 ≠ SM.findIn r.rep 4 ∧ SM.findIn r.rep 3 = SM.findIn r.rep 1 :=
  ⟨_, rfl, by decide, by decide, by decide, by decide⟩

end HvPart
